import MsqProofs.Lemmas.ParseAccountAllStmt
/-!
# C08, general accounting for the DDL classes — part 0: the relation with RUNS, configuration strings, `SET`

`AccD T ctx t` extends `PA.Acc T t` (every rule of `Acc` is the rule `whole`) by the alternative

  `part`: the token lies in a run `us` of CONSECUTIVE tokens of the token list `ctx` it is read from
          (`ctx = pre ++ us ++ post`) and the concatenation of the sources of EXACTLY this run is a stored string (`catSrc us ∈ T`).

The relation is indexed by the token list the token stands in (`ctx`), so that the rule cannot be satisfied by inventing
neighbours: `AccAllD T ts` says `∀ t ∈ ts, AccD T ts t`, and a bracket group is accounted for when every child is, with respect
to the list of its children.  `_parse_config_string` (`pConfigString` / `configStringLoop`) stores `name ("." | "-") name …` as
one string: that is the only producer of the rule (`SET a.b-c = v`, `TBLPROPERTIES ('k' = 'v', a.b = c)`).
-/
set_option linter.unusedVariables false
set_option linter.unusedSectionVars false
set_option linter.unusedSimpArgs false
set_option maxHeartbeats 1000000
open Lex PM Ast

namespace PA
namespace Ddl

/-- the concatenation of the sources of a run of tokens -/
def catSrc : List Tok → String
  | [] => ""
  | t :: r => t.src ++ catSrc r
theorem catSrc_append (a b : List Tok) : catSrc (a ++ b) = catSrc a ++ catSrc b := by
  induction a with
  | nil => simp [catSrc]
  | cons t a ih => simp [catSrc, ih, String.append_assoc]

/-- the token `t`, read from the token list `ctx`, is accounted for by the texts `T` -/
inductive AccD (T : List String) : List Tok → Tok → Prop
  | whole {ctx : List Tok} {t : Tok} : Acc T t → AccD T ctx t
  | part {ctx : List Tok} {t : Tok} (pre us post : List Tok) : ctx = pre ++ us ++ post → t ∈ us → catSrc us ∈ T → AccD T ctx t
  | group {ctx : List Tok} {t : Tok} : Groupish t = true → (∀ c, c ∈ t.children → AccD T t.children c) → AccD T ctx t

def AccAllD (T : List String) (ts : List Tok) : Prop := ∀ t, t ∈ ts → AccD T ts t
/-- `r` is a rest of `ts` and the consumed run is accounted for (with respect to itself) -/
def Acc3D (T : List String) (ts r : List Tok) : Prop := ∃ used, ts = used ++ r ∧ AccAllD T used

theorem AccD.ctx {T : List String} {ctx : List Tok} {t : Tok} (h : AccD T ctx t) (a b : List Tok) : AccD T (a ++ ctx ++ b) t := by
  cases h with
  | whole h => exact .whole h
  | part pre us post e hm hs => exact .part (a ++ pre) us (post ++ b) (by simp [e]) hm hs
  | group hb hc => exact .group hb hc
theorem accAllD_nil (T : List String) : AccAllD T [] := by simp [AccAllD]
theorem accAllD_append {T : List String} {a b : List Tok} (ha : AccAllD T a) (hb : AccAllD T b) : AccAllD T (a ++ b) := by
  intro t ht
  rcases List.mem_append.1 ht with h | h
  · simpa using (ha t h).ctx [] b
  · simpa using (hb t h).ctx a []
theorem accAllD_of_acc {T : List String} {ts : List Tok} (h : AccAll T ts) : AccAllD T ts := fun t ht => .whole (h t ht)
theorem accAllD_run {T : List String} {us : List Tok} (h : catSrc us ∈ T) : AccAllD T us :=
  fun t ht => .part [] us [] (by simp) ht h
theorem accAllD_one {T : List String} {t : Tok} (h : Acc T t) : AccAllD T [t] := accAllD_of_acc (by simpa [AccAll] using h)
theorem accD_group {T : List String} {ctx : List Tok} {t : Tok} (hb : Groupish t = true) (h : AccAllD T t.children) : AccD T ctx t :=
  .group hb h
theorem accAllD_group {T : List String} {t : Tok} (hb : Groupish t = true) (h : AccAllD T t.children) : AccAllD T [t] := by
  intro x hx; simp at hx; subst hx; exact accD_group hb h

theorem Acc3D.refl (T : List String) (ts : List Tok) : Acc3D T ts ts := ⟨[], rfl, accAllD_nil T⟩
theorem Acc3D.trans {T a b c} (h1 : Acc3D T a b) (h2 : Acc3D T b c) : Acc3D T a c := by
  obtain ⟨u, rfl, hu⟩ := h1; obtain ⟨w, rfl, hw⟩ := h2
  exact ⟨u ++ w, by simp, accAllD_append hu hw⟩
theorem Acc3.toD {T ts r} (h : Acc3 T ts r) : Acc3D T ts r := by
  obtain ⟨u, e, hu⟩ := h; exact ⟨u, e, accAllD_of_acc hu⟩
theorem kwSeg_toD {ts r} (h : KwSeg ts r) (T : List String) : Acc3D T ts r := Acc3.toD (h.acc3 T)
theorem acc3D_nil {T : List String} {cs : List Tok} (h : Acc3D T cs []) : AccAllD T cs := by
  obtain ⟨u, e, hu⟩ := h; simp at e; subst e; exact hu
theorem accAllD_acc3D {T : List String} {cs : List Tok} (h : AccAllD T cs) : Acc3D T cs [] := ⟨cs, by simp, h⟩

/-! ### splitting at commas: every segment is accounted for with respect to ITSELF, the commas are grammar words -/
theorem splitBy_cover (sep : String) (T : List String) (hsep : ∀ t : Tok, t.equalsStr sep = true → Acc T t) :
    ∀ (ts cur ctx pre : List Tok), ctx = pre ++ cur ++ ts →
      (∀ sg ∈ splitBy sep ts cur [], AccAllD T sg) → ∀ t ∈ cur ++ ts, AccD T ctx t := by
  intro ts
  induction ts with
  | nil =>
    intro cur ctx pre e h t ht
    simp only [splitBy] at h
    simp only [List.append_nil] at ht e
    split at h
    · rename_i hc; simp at hc; subst hc; simp at ht
    · have h1 := h cur (by simp)
      simpa [e] using (h1 t ht).ctx pre []
  | cons x r ih =>
    intro cur ctx pre e h t ht
    simp only [splitBy] at h
    split at h
    · rename_i hx
      split at h
      · rename_i hc; simp at hc; subst hc
        simp only [List.nil_append, List.mem_cons] at ht
        rcases ht with rfl | ht
        · exact .whole (hsep _ hx)
        · exact ih [] ctx (pre ++ [x]) (by simp [e]) h t (by simpa using ht)
      · rw [splitBy_acc] at h
        have ht2 : t ∈ cur ∨ t = x ∨ t ∈ r := by simpa using ht
        rcases ht2 with ht | rfl | ht
        · have := (h cur (by simp)) t ht
          simpa [e] using this.ctx pre (x :: r)
        · exact .whole (hsep _ hx)
        · exact ih [] ctx (pre ++ cur ++ [x]) (by simp [e]) (fun sg hsg => h sg (by simp [hsg])) t (by simpa using ht)
    · exact ih (cur ++ [x]) ctx pre (by simp [e]) h t (by simpa using ht)

theorem accAllD_splitBy (T : List String) (cs : List Tok) (h : ∀ sg ∈ splitBy "," cs [] [], AccAllD T sg) : AccAllD T cs := by
  have hk : kwOk "," = true := by decide
  intro t ht
  exact splitBy_cover "," T (fun t ht => .kw (equalsStr_kw ht hk)) cs [] cs [] (by simp) h t (by simpa using ht)

/-! ### configuration strings -/
theorem searchStr_head {ts : List Tok} {k : String} (h : searchStr ts k = true) : ∃ t r, ts = t :: r ∧ t.src = k := by
  cases ts with
  | nil => simp [searchStr] at h
  | cons t r => exact ⟨t, r, rfl, by simpa [searchStr, Tok.srcEq] using h⟩
theorem popSrc_ok {ts : List Tok} {s : String} {r : List Tok} (h : popSrc ts = .ok (s, r)) : ∃ t, ts = t :: r ∧ s = t.src := by
  cases ts with
  | nil => simp [popSrc] at h
  | cons t r' => simp [popSrc] at h; exact ⟨t, by rw [h.2], h.1.symm⟩

theorem configStringLoop_run : ∀ (f : Nat) (acc : String) (ts : List Tok) (s : String) (r : List Tok),
    configStringLoop f acc ts = .ok (s, r) → ∃ us, ts = us ++ r ∧ s = acc ++ catSrc us := by
  intro f
  induction f with
  | zero => intro acc ts s r h; simp [configStringLoop] at h
  | succ f ih =>
    intro acc ts s r h
    unfold configStringLoop at h
    split at h
    · rename_i hd
      obtain ⟨t, r0, rfl, ht⟩ := searchStr_head hd
      simp only [List.drop_succ_cons, List.drop_zero] at h
      split at h
      · rename_i x r1 hp
        obtain ⟨t2, rfl, rfl⟩ := popSrc_ok hp
        obtain ⟨us, rfl, rfl⟩ := ih _ _ _ _ h
        exact ⟨t :: t2 :: us, by simp, by simp [catSrc, ht, String.append_assoc]⟩
      · simp at h
    · split at h
      · rename_i hd
        obtain ⟨t, r0, rfl, ht⟩ := searchStr_head hd
        simp only [List.drop_succ_cons, List.drop_zero] at h
        split at h
        · rename_i x r1 hp
          obtain ⟨t2, rfl, rfl⟩ := popSrc_ok hp
          obtain ⟨us, rfl, rfl⟩ := ih _ _ _ _ h
          exact ⟨t :: t2 :: us, by simp, by simp [catSrc, ht, String.append_assoc]⟩
        · simp at h
      · simp at h; obtain ⟨rfl, rfl⟩ := h; exact ⟨[], by simp, by simp [catSrc]⟩

/-- `_parse_config_string`: the stored string is the concatenation of the sources of EXACTLY the consumed run (never empty) -/
theorem pConfigString_run {ts : List Tok} {s : String} {r : List Tok} (h : pConfigString ts = .ok (s, r)) :
    ∃ us, ts = us ++ r ∧ us ≠ [] ∧ s = catSrc us := by
  unfold pConfigString at h
  split at h
  · simp at h
  · rename_i x r1 hp
    obtain ⟨t, rfl, rfl⟩ := popSrc_ok hp
    obtain ⟨us, rfl, rfl⟩ := configStringLoop_run _ _ _ _ _ h
    exact ⟨t :: us, by simp, by simp, by simp [catSrc]⟩
theorem pConfigString_acc (T : List String) {ts : List Tok} {s : String} {r : List Tok} (h : pConfigString ts = .ok (s, r)) (hs : s ∈ T) :
    Acc3D T ts r := by
  obtain ⟨us, e, _, rfl⟩ := pConfigString_run h
  exact ⟨us, e, accAllD_run hs⟩

def tCS (c : ConfigStr) : List String := [c.name, c.value]
theorem tCS_eq (c : ConfigStr) : tCS c = c.toVal.texts := by simp [tCS, ConfigStr.toVal, Val.texts, Val.textsF]
theorem matchKw_ok {ts : List Tok} {k : String} {r : List Tok} (h : matchKw ts k = .ok ((), r)) (hk : kwOk k = true) :
    ∃ t, ts = t :: r ∧ KwTok t = true := by
  cases ts with
  | nil => simp [matchKw] at h
  | cons t ts =>
    simp only [matchKw] at h
    split at h <;> simp at h
    rename_i he; subst h; exact ⟨t, rfl, equalsStr_kw he hk⟩

/-- `_parse_config_string_expression`: `name = value`, both sides runs -/
theorem pConfigStrExpr_acc (T : List String) {ts : List Tok} {c : ConfigStr} {r : List Tok} (h : pConfigStrExpr ts = .ok (c, r))
    (hs : Sub (tCS c) T) : Acc3D T ts r := by
  have hk : kwOk "=" = true := by decide
  unfold pConfigStrExpr at h
  split at h
  · simp at h
  · rename_i n r0 h0
    split at h
    · simp at h
    · rename_i u r1 h1
      split at h
      · simp at h
      · rename_i v r2 h2
        simp at h; obtain ⟨rfl, rfl⟩ := h
        simp only [tCS, sub_cons, sub_nil, and_true] at hs
        obtain ⟨t, rfl, ht⟩ := matchKw_ok h1 hk
        exact (pConfigString_acc T h0 hs.1).trans ((kwSeg_toD (kwSeg_cons ht) T).trans (pConfigString_acc T h2 hs.2))

end Ddl
end PA
