import MsqProofs.Lemmas.ParseCase3b
/-!
# C09, parser half — hand-written part 6: `upAll` for the DDL / DML structures and statements
Every string of the structure is mapped through `up`; flags and numbers are kept.
-/
set_option linter.unusedSimpArgs false
set_option linter.unusedVariables false
open Lex Ast
namespace PM

def upTN : TableName → TableName | ⟨s, n⟩ => ⟨s.map up, up n⟩
def upCT : ColType → ColType | ⟨n, ps⟩ => ⟨up n, ps.map (List.map upE)⟩
def upGC : GenCol → GenCol | ⟨e, m⟩ => ⟨upE e, m.map up⟩
def upDC : DefCol → DefCol
  | ⟨n, ty, un, zf, cs, co, g, an, nn, ai, df, ou, cm⟩ => ⟨up n, upCT ty, un, zf, cs.map up, co.map up, g.map upGC, an, nn, ai, df.map upE, ou.map upE, cm.map up⟩
def upIC : IndexCol → IndexCol | ⟨n, l⟩ => ⟨up n, l⟩
def upIx : Index → Index | ⟨k, n, cs, um, cm, kb⟩ => ⟨k, n.map up, cs.map upIC, um.map up, cm.map up, kb⟩
def upFK : ForeignKey → ForeignKey | ⟨c, s, m, mc, od, ou⟩ => ⟨up c, s.map up, up m, mc.map up, od.map up, ou.map up⟩
def upCI : ColOrIdx → ColOrIdx
  | .col c => .col (upDC c) | .idx i => .idx (upIx i) | .fk f => .fk (upFK f)
def upAO : AlterOp → AlterOp
  | .addPartition b p => .addPartition b (p.map upE)
  | .add x => .add (upCI x)
  | .modify x => .modify (upCI x)
  | .change f t => .change (up f) (upCI t)
  | .renameColumn f t => .renameColumn (up f) (up t)
  | .dropColumn c => .dropColumn (up c)
  | .dropPartition b p => .dropPartition b (p.map upE)
def upCS : ConfigStr → ConfigStr | ⟨n, v⟩ => ⟨up n, up v⟩
def upCR : CreateTable → CreateTable
  | ⟨t, ine, cols, pk, uk, k, fk, fo, pb, cm, en, ai, dc, co, rf, sp, rs, rd, si, st, of, lo, tp⟩ =>
    ⟨upTN t, ine, cols.map upDC, pk.map upIx, uk.map upIx, k.map upIx, fk.map upIx, fo.map upFK, pb.map upDC, cm.map up, en.map up, ai, dc.map up, co.map up,
     rf.map up, sp.map up, rs.map up, rd.map up, si.map up, st, of.map up, lo.map up, tp.map upCS⟩
def upIH : InsertHead → InsertHead
  | ⟨w, ty, t, p, c⟩ => ⟨w.map (List.map upW), up ty, upTN t, p.map (List.map upE), c.map (List.map (Prod.map (Option.map up) up))⟩
def upLim : Option (Int × Option Int) → Option (Int × Option Int) := id
/-- `upAll` of a statement -/
def upSt0 : Stmt → Stmt
  | .select q => .select (upQ q)
  | .insertValues h vs => .insertValues (upIH h) (vs.map (List.map upE))
  | .insertSelect h q => .insertSelect (upIH h) (upQ q)
  | .update w t sets wh ob lm => .update (w.map (List.map upW)) (upTN t) (sets.map (Prod.map up upE)) (wh.map upE) (ob.map (List.map upO)) lm
  | .delete t wh ob lm => .delete (upTN t) (wh.map upE) (ob.map (List.map upO)) lm
  | .createTable c => .createTable (upCR c)
  | .createTableAs t ine q => .createTableAs (upTN t) ine (upQ q)
  | .dropTable b t => .dropTable b (upTN t)
  | .set c => .set (upCS c)
  | .analyze t p a b c => .analyze (upTN t) (p.map (List.map upE)) a b c
  | .alter t ops => .alter (upTN t) (ops.map upAO)
  | .msck t => .msck (upTN t)
  | .use s => .use (up s)
  | .truncate t => .truncate (upTN t)
  | .showDatabases => .showDatabases
  | .showTables => .showTables
  | .showColumns fr wh => .showColumns (fr.map upFT) (wh.map upE)

/-- running a parser on every segment of two related segment lists -/
theorem eachClosed_ce {α β : Type} (f : α → β) (p p' : List Tok → R α) (hp : ∀ sg sg', CEL sg sg' → CER (ceq f) (p sg) (p' sg')) :
    ∀ segs segs', CELL segs segs' → CEX (ceq (List.map f)) (eachClosed p segs) (eachClosed p' segs') := by
  intro segs
  induction segs with
  | nil => intro segs' h; cases segs' <;> simp_all [eachClosed]
  | cons sg rest ih =>
    intro segs' h
    cases segs' with
    | nil => simp at h
    | cons sg' rest' =>
      simp at h
      have h1 := closed_ce (hp sg sg' h.1)
      have h2 := ih rest' h.2
      clear ih
      simp only [eachClosed]
      cases hc : closed (p sg) <;> cases hc' : closed (p' sg') <;> rw [hc, hc'] at h1 <;> simp at h1 ⊢
      · exact h1
      · cases hr : eachClosed p rest <;> cases hr' : eachClosed p' rest' <;> rw [hr, hr'] at h2 <;> simp at h2 ⊢ <;> simp_all
theorem eachClosed_ce_eq {α : Type} (p p' : List Tok → R α) (hp : ∀ sg sg', CEL sg sg' → CER Eq (p sg) (p' sg')) :
    ∀ segs segs', CELL segs segs' → CEX Eq (eachClosed p segs) (eachClosed p' segs') := by
  intro segs
  induction segs with
  | nil => intro segs' h; cases segs' <;> simp_all [eachClosed]
  | cons sg rest ih =>
    intro segs' h
    cases segs' with
    | nil => simp at h
    | cons sg' rest' =>
      simp at h
      have h1 := closed_ce (hp sg sg' h.1)
      have h2 := ih rest' h.2
      clear ih
      simp only [eachClosed]
      cases hc : closed (p sg) <;> cases hc' : closed (p' sg') <;> rw [hc, hc'] at h1 <;> simp at h1 ⊢
      · exact h1
      · cases hr : eachClosed p rest <;> cases hr' : eachClosed p' rest' <;> rw [hr, hr'] at h2 <;> simp at h2 ⊢ <;> simp_all

end PM
