import MsqProofs.Lemmas.TDmlQ4
import MsqProofs.Lemmas.TDml4
import MsqProofs.Lemmas.TQuery2I
/-!
# The data-change fragment over `FragQ` is contained in the one over `FragQ2`, with equal renderings (C03 / C01)

`TDM.FragStmt d s → TDM2.FragStmt d s ∧ TDM2.toksStmtG d ch tb s = TDM.toksStmtG d ch tb s` (any choice of redundant brackets, `TABLE`
written or not) — from `TQ2.inc_all` (Lemmas/TQuery2I.lean: `FragE3 ⊆ FragE4`, `FragQ ⊆ FragQ2` with equal renderings), part by part.
Hence `C03.tstatement` (Props/C03D.lean) is an instance of `TDM2.stmt_ok`.
-/
set_option linter.unusedVariables false
set_option linter.unusedSimpArgs false
set_option maxHeartbeats 1000000
open Lex PM Ast TP TS
namespace TDM2
variable {d : Gen.D} {ch : Expr → Bool}

theorem incE (e : Expr) (h : TQ.FragE3 d e = true) : TQ2.Inc d ch e := ((TQ2.inc_all d ch (TQ.szE3 e)).1 e (Nat.le_refl _) h).1
theorem incQ (q : Query) (h : TQ.FragQ d q = true) : TQ2.IncQ d ch q := ((TQ2.inc_all d ch (TQ.szQ q)).2 q (Nat.le_refl _) h).1
theorem incW (e : Expr) (h : TQ.FragE3 d e = true) (k : Nat) : TQ2.W4 d ch e k = TQ.W3 d ch e k := by
  simp only [TQ2.W4, TQ.W3, (incE (ch := ch) e h).2.1]
theorem incOptE (kw : String) (o : Option Expr) (h : TQ.FragO3 d o = true) :
    TQ2.FragO4 d o = true ∧ TQ2.toksOptE4 d ch kw o = TQ.toksOptE3 d ch kw o :=
  TQ2.incOpt (TQ.szO3 o) (fun e _ he => incE e he) kw o (Nat.le_refl _) h
theorem incOrderBy (ob : Option (List OrderItem)) (h : TQ.orderOK3 d ob = true) :
    TQ2.orderOK4 d ob = true ∧ TQ2.toksOrder4 d ch ob = TQ.toksOrder3 d ch ob :=
  TQ2.incOrder (TQ.szOrder ob) (fun e _ he => incE e he) ob (Nat.le_refl _) h

theorem incTail (wh : Option Expr) (ob : Option (List OrderItem)) (lm : Option (Int × Option Int)) (h1 : TQ.FragO3 d wh = true)
    (h2 : TQ.orderOK3 d ob = true) : toksTail d ch wh ob lm = TDM.toksTail d ch wh ob lm := by
  simp only [toksTail, TDM.toksTail, (incOptE (ch := ch) "WHERE" wh h1).2, (incOrderBy (ch := ch) ob h2).2]

/-! ### the duplicated token helpers are the same functions -/
theorem joinC_eq : ∀ (l : List (List Tok)), joinC l = TDM.joinC l
  | [] => rfl
  | [s] => rfl
  | s :: t :: r => by simp only [joinC, TDM.joinC, joinC_eq (t :: r)]
theorem toksColNames_eq (cs : Option (List (Option String × String))) : toksColNames cs = TDM.toksColNames cs := by
  cases cs with
  | none => rfl
  | some l =>
    have : l.map toksColName = l.map TDM.toksColName := List.map_congr_left fun c _ => rfl
    simp only [toksColNames, TDM.toksColNames, joinC_eq, this]
theorem insertWords_eq2 (ty : String) : insertWords ty = TDM.insertWords ty := rfl

/-! ### WITH tables -/
theorem incWith (w : WithTable) (h : TDM.withOK d w = true) : withOK d w = true ∧ toksWith d ch w = TDM.toksWith d ch w := by
  obtain ⟨n, q⟩ := w
  simp only [TDM.withOK, Bool.and_eq_true] at h
  obtain ⟨q1, q2⟩ := incQ (ch := ch) q h.2
  exact ⟨by simp only [withOK, h.1, q1, Bool.and_self], by simp only [toksWith, TDM.toksWith, q2]⟩
theorem incWithsTail : ∀ (ws : List WithTable), ws.all (TDM.withOK d) = true →
    ws.all (withOK d) = true ∧ toksWithsTail d ch ws = TDM.toksWithsTail d ch ws := by
  intro ws
  induction ws with
  | nil => intro _; exact ⟨rfl, rfl⟩
  | cons w r ih =>
    intro h
    simp only [List.all_cons, Bool.and_eq_true] at h
    obtain ⟨a1, a2⟩ := incWith (ch := ch) w h.1
    obtain ⟨b1, b2⟩ := ih h.2
    exact ⟨by simp only [List.all_cons, a1, b1, Bool.and_self], by simp only [toksWithsTail, TDM.toksWithsTail, a2, b2]⟩
theorem incWiths (ws : Option (List WithTable)) (h : TDM.withsOK d ws = true) :
    withsOK d ws = true ∧ toksWiths d ch ws = TDM.toksWiths d ch ws := by
  cases ws with
  | none => simp [TDM.withsOK] at h
  | some l =>
    simp only [TDM.withsOK] at h
    obtain ⟨a1, a2⟩ := incWithsTail (ch := ch) l h
    refine ⟨by simpa only [withsOK] using a1, ?_⟩
    cases l with
    | nil => rfl
    | cons w r =>
      simp only [List.all_cons, Bool.and_eq_true] at h
      simp only [toksWiths, TDM.toksWiths, (incWith (ch := ch) w h.1).2, (incWithsTail (ch := ch) r h.2).2]

/-! ### assignments, rows, partitions -/
theorem incSets : ∀ (ss : List (String × Expr)), ss.all (TDM.setOK d) = true →
    ss.all (setOK d) = true ∧ toksSetsTail d ch ss = TDM.toksSetsTail d ch ss ∧ toksSets d ch ss = TDM.toksSets d ch ss := by
  intro ss
  induction ss with
  | nil => intro _; exact ⟨rfl, rfl, rfl⟩
  | cons p r ih =>
    intro h
    simp only [List.all_cons, Bool.and_eq_true] at h
    obtain ⟨b1, b2, _⟩ := ih h.2
    have hp := h.1
    simp only [TDM.setOK, Bool.and_eq_true] at hp
    obtain ⟨e1, e2, _⟩ := incE (ch := ch) p.2 hp.2
    have a1 : setOK d p = true := by simp only [setOK, hp.1, e1, Bool.and_self]
    have a2 : toksSet d ch p = TDM.toksSet d ch p := by simp only [toksSet, TDM.toksSet, e2]
    exact ⟨by simp only [List.all_cons, a1, b1, Bool.and_self], by simp only [toksSetsTail, TDM.toksSetsTail, a2, b2],
      by simp only [toksSets, TDM.toksSets, a2, b2]⟩
theorem incRow (vs : List Expr) (h : TQ.FragL3 d vs = true) : TQ2.FragL4 d vs = true ∧ toksRow d ch vs = TDM.toksRow d ch vs := by
  have hm := TQ2.frag2L_sz vs h
  have hI : ∀ a ∈ vs, TQ2.Inc d ch a := fun a ha => incE a (hm a ha).1
  refine ⟨(TQ2.incL vs hI).1, ?_⟩
  have : vs.map (fun e => TQ2.W4 d ch e 8) = vs.map (fun e => TQ.W3 d ch e 8) :=
    List.map_congr_left fun a ha => incW a (hm a ha).1 8
  simp only [toksRow, TDM.toksRow, this, joinC_eq]
theorem incRows : ∀ (rs : List (List Expr)), rs.all (TQ.FragL3 d) = true →
    rs.all (TQ2.FragL4 d) = true ∧ toksRowsTail d ch rs = TDM.toksRowsTail d ch rs ∧ toksRows d ch rs = TDM.toksRows d ch rs := by
  intro rs
  induction rs with
  | nil => intro _; exact ⟨rfl, rfl, rfl⟩
  | cons r rs ih =>
    intro h
    simp only [List.all_cons, Bool.and_eq_true] at h
    obtain ⟨a1, a2⟩ := incRow (ch := ch) r h.1
    obtain ⟨b1, b2, _⟩ := ih h.2
    exact ⟨by simp only [List.all_cons, a1, b1, Bool.and_self], by simp only [toksRowsTail, TDM.toksRowsTail, a2, b2],
      by simp only [toksRows, TDM.toksRows, a2, b2]⟩
theorem incStatic (e : Expr) (h : TDM.staticOK d e = true) : staticOK d e = true := by
  cases e with
  | compare o l r =>
    simp only [TDM.staticOK, Bool.and_eq_true] at h
    obtain ⟨⟨⟨⟨⟨h1, h2⟩, h3⟩, h4⟩, h5⟩, h6⟩ := h
    simp only [staticOK, h1, (incE (ch := noX) l h2).1, (incE (ch := noX) r h3).1, h4, h5, h6, Bool.and_self]
  | _ => simp [TDM.staticOK] at h
theorem incDyn (e : Expr) (h : TDM.dynOK d e = true) : dynOK d e = true := by
  simp only [TDM.dynOK, Bool.and_eq_true] at h
  simp only [dynOK, (incE (ch := noX) e h.1).1, h.2, Bool.and_self]
theorem incItemToks (e : Expr) (h : TDM.staticOK d e = true ∨ TDM.dynOK d e = true) : TQ2.toksE4 d ch e = TQ.toksE3 d ch e := by
  rcases h with h | h
  · cases e with
    | compare o l r =>
      simp only [TDM.staticOK, Bool.and_eq_true] at h
      obtain ⟨⟨⟨⟨⟨h1, h2⟩, h3⟩, _⟩, _⟩, _⟩ := h
      simp only [TQ2.toksE4, TQ.toksE3, (incE (ch := ch) l h2).2.1, (incE (ch := ch) r h3).2.1]
    | _ => simp [TDM.staticOK] at h
  · simp only [TDM.dynOK, Bool.and_eq_true] at h; exact (incE e h.1).2.1
theorem incPart (p : Option (List Expr)) (h : TDM.partOK d p = true) : partOK d p = true ∧ toksPart d ch p = TDM.toksPart d ch p := by
  cases p with
  | none => exact ⟨rfl, rfl⟩
  | some es =>
    simp only [TDM.partOK, Bool.or_eq_true, List.all_eq_true] at h
    have hm : es.map (TQ2.toksE4 d ch) = es.map (TQ.toksE3 d ch) := List.map_congr_left fun e he => by
      rcases h with h | h
      · exact incItemToks e (Or.inl (h e he))
      · exact incItemToks e (Or.inr (h e he))
    refine ⟨?_, by simp only [toksPart, TDM.toksPart, hm, joinC_eq]⟩
    simp only [partOK, Bool.or_eq_true, List.all_eq_true]
    rcases h with h | h
    · exact Or.inl fun e he => incStatic e (h e he)
    · exact Or.inr fun e he => incDyn e (h e he)
theorem incHead (tb : Bool) (h : InsertHead) (hh : TDM.headOK d h = true) :
    headOK d h = true ∧ toksWiths d ch h.withs = TDM.toksWiths d ch h.withs ∧ toksTarget d ch tb h = TDM.toksTarget d ch tb h := by
  simp only [TDM.headOK, Bool.and_eq_true] at hh
  obtain ⟨⟨⟨⟨h1, h2⟩, h3⟩, h4⟩, h5⟩ := hh
  obtain ⟨w1, w2⟩ := incWiths (ch := ch) h.withs h1
  obtain ⟨p1, p2⟩ := incPart (ch := ch) h.partition h4
  refine ⟨?_, w2, ?_⟩
  · have c2 : insertTyOK h.type = true := h2
    have c3 : tblOKD h.table = true := h3
    have c5 : colNamesOK h.columns = true := by
      have : ∀ cs, colNamesOK cs = TDM.colNamesOK cs := fun cs => by cases cs <;> rfl
      rw [this]; exact h5
    simp only [headOK, w1, p1, c2, c3, c5, Bool.and_self]
  · simp only [toksTarget, TDM.toksTarget, p2, toksColNames_eq, insertWords_eq2]

/-- **`TDM.FragStmt ⊆ TDM2.FragStmt` with equal renderings** -/
theorem fragStmt_sub (d : Gen.D) (ch : Expr → Bool) (tb : Bool) (s : Stmt) (hs : TDM.FragStmt d s = true) :
    FragStmt d s = true ∧ toksStmtG d ch tb s = TDM.toksStmtG d ch tb s := by
  cases s with
  | select q =>
    simp only [TDM.FragStmt, Bool.and_eq_true] at hs
    obtain ⟨w1, w2⟩ := incWiths (ch := ch) _ hs.1
    obtain ⟨q1, q2⟩ := incQ (ch := ch) _ hs.2
    have e1 : TDM.withsOf q = withsOf q := by cases q with | single s => cases s; rfl | union _ _ _ => rfl
    have e2 : TDM.stripW q = stripW q := by cases q with | single s => cases s; rfl | union _ _ _ => rfl
    rw [e1] at w1 w2; rw [e2] at q1 q2
    refine ⟨by simp only [FragStmt, w1, q1, Bool.and_self], ?_⟩
    have t1 := toksQ_stripW (d := d) (ch := ch) q
    have t2 := TDM.toksQ_stripW (d := d) (ch := ch) q
    rw [e2] at t2
    simp only [toksStmtG, TDM.toksStmtG, e1, w2, ← t1, ← t2, q2]
  | insertValues h vs =>
    simp only [TDM.FragStmt, Bool.and_eq_true] at hs
    obtain ⟨a1, a2, a3⟩ := incHead (ch := ch) tb h hs.1
    obtain ⟨b1, _, b3⟩ := incRows (ch := ch) vs hs.2
    exact ⟨by simp only [FragStmt, a1, b1, Bool.and_self], by simp only [toksStmtG, TDM.toksStmtG, a2, a3, b3]⟩
  | insertSelect h q =>
    simp only [TDM.FragStmt, Bool.and_eq_true] at hs
    obtain ⟨a1, a2, a3⟩ := incHead (ch := ch) tb h hs.1
    obtain ⟨q1, q2⟩ := incQ (ch := ch) q hs.2
    exact ⟨by simp only [FragStmt, a1, q1, Bool.and_self], by simp only [toksStmtG, TDM.toksStmtG, a2, a3, q2]⟩
  | update ws t sets wh ob lm =>
    simp only [TDM.FragStmt, Bool.and_eq_true] at hs
    obtain ⟨⟨⟨⟨⟨⟨h0, h1⟩, hne⟩, hsets⟩, h2⟩, h3⟩, h4⟩ := hs
    obtain ⟨w1, w2⟩ := incWiths (ch := ch) ws h0
    obtain ⟨s1, _, s3⟩ := incSets (ch := ch) sets hsets
    have ht := incTail (ch := ch) wh ob lm h2 h3
    refine ⟨?_, by simp only [toksStmtG, TDM.toksStmtG, w2, s3, ht]⟩
    simp only [FragStmt, w1, s1, hne, (incOptE (ch := ch) "WHERE" wh h2).1, (incOrderBy (ch := ch) ob h3).1, h4, Bool.and_true, Bool.true_and]
    exact h1
  | delete t wh ob lm =>
    simp only [TDM.FragStmt, Bool.and_eq_true] at hs
    obtain ⟨⟨⟨h1, h2⟩, h3⟩, h4⟩ := hs
    have ht := incTail (ch := ch) wh ob lm h2 h3
    refine ⟨?_, by simp only [toksStmtG, TDM.toksStmtG, ht]⟩
    simp only [FragStmt, (incOptE (ch := ch) "WHERE" wh h2).1, (incOrderBy (ch := ch) ob h3).1, h4, Bool.and_true]
    exact h1
  | _ => simp [TDM.FragStmt] at hs

end TDM2
