import MsqProofs.Lemmas.TDdlOpts
/-!
# T-parse for CREATE TABLE: the element list, the statement (C18 / C03 / C01)

* `elems_*` — `createElems` (the loop over the comma-separated lines of the bracket) in continuation form, one lemma per kind of line;
* `pCreateTable_ok` — `_parse_create_table_statement` on `toksCreate d c ++ rest` returns `c` and swallows one `;`;
* `pStatement_create` — the same through the statement dispatcher.
-/
set_option linter.unusedVariables false
set_option linter.unusedSimpArgs false
set_option maxHeartbeats 2000000
open Lex PM Ast TP TS
namespace TD
variable {d : Gen.D}

/-! ### the lines of the bracket -/
theorem col_heads (c : DefCol) :
    searchTwoUp (toksDefCol d c) "PRIMARY" "KEY" = false ∧ searchTwoUp (toksDefCol d c) "UNIQUE" "KEY" = false ∧
    searchStrUp (toksDefCol d c) "KEY" = false ∧ searchTwoUp (toksDefCol d c) "FULLTEXT" "KEY" = false ∧
    searchStrUp (toksDefCol d c) "CONSTRAINT" = false := by
  simp only [toksDefCol]
  kw_simp

theorem elems_cols (f : Nat) : ∀ (cols : List DefCol) (hc : cols.all (colOK d) = true)
    (hf : ∀ c ∈ cols, 20 * sizeL (toksDefCol d c) + 2 ≤ f) (rest : List (List Tok)) (c0 : CreateTable) (res : Except Err CreateTable),
    createElems d f rest { c0 with columns := c0.columns ++ cols } = res →
    createElems d f (cols.map (toksDefCol d) ++ rest) c0 = res := by
  intro cols
  induction cols with
  | nil => intro hc hf rest c0 res h; simpa using h
  | cons col cols ih =>
    intro hc hf rest c0 res h
    simp only [List.all_cons, Bool.and_eq_true] at hc
    obtain ⟨h1, h2, h3, h4, h5⟩ := col_heads (d := d) col
    simp only [List.map_cons, List.cons_append]
    rw [createElems]
    simp only [h1, h2, h3, h4, h5, Bool.false_eq_true, if_false, pDefCol_ok col hc.1 f (hf col (by simp)), closed]
    apply ih hc.2 (fun c hcm => hf c (by simp [hcm])) rest _ res
    simpa [List.append_assoc] using h

theorem toksIndex_of_kind (k : IndexKind) (i : Index) (h : idxOK k i = true) : toksIndex i = kindToks k ++ (toksIdxName i.name ++ toksIdxTail i) := by
  simp only [idxOK, Bool.and_eq_true] at h
  have := kind_beq h.1.1.1
  simp [toksIndex, this]

theorem elems_pk (f : Nat) (pk : Option Index) (hp : optIdxOK pk = true) (rest : List (List Tok)) (c0 : CreateTable)
    (res : Except Err CreateTable) (h0 : c0.primaryKey = none) :
    createElems d f rest { c0 with primaryKey := pk } = res →
    createElems d f ((optList pk).map toksIndex ++ rest) c0 = res := by
  intro h
  cases pk with
  | none =>
    have : { c0 with primaryKey := none } = c0 := by cases c0; simp at h0; subst h0; rfl
    rw [this] at h
    simpa [optList] using h
  | some i =>
    have e := toksIndex_of_kind .primary i hp
    have h1 : searchTwoUp (toksIndex i) "PRIMARY" "KEY" = true := by rw [e]; simp only [kindToks]; kw_simp
    simp only [optList, List.map_cons, List.map_nil, List.cons_append, List.nil_append]
    rw [createElems]
    simp only [h1, if_true, primary_line i hp]
    exact h

theorem elems_uks (f : Nat) : ∀ (is : List Index) (hp : is.all (idxOK .unique) = true) (rest : List (List Tok)) (c0 : CreateTable)
    (res : Except Err CreateTable),
    createElems d f rest { c0 with uniqueKey := c0.uniqueKey ++ is } = res →
    createElems d f (is.map toksIndex ++ rest) c0 = res := by
  intro is
  induction is with
  | nil => intro hp rest c0 res h; simpa using h
  | cons i is ih =>
    intro hp rest c0 res h
    simp only [List.all_cons, Bool.and_eq_true] at hp
    have e := toksIndex_of_kind .unique i hp.1
    have h1 : searchTwoUp (toksIndex i) "PRIMARY" "KEY" = false := by rw [e]; simp only [kindToks, Bool.eq_false_iff, ne_eq]; kw_simp
    have h2 : searchTwoUp (toksIndex i) "UNIQUE" "KEY" = true := by rw [e]; simp only [kindToks]; kw_simp
    simp only [List.map_cons, List.cons_append]
    rw [createElems]
    simp only [h1, h2, Bool.false_eq_true, if_false, if_true, unique_line i hp.1]
    apply ih hp.2 rest _ res
    simpa [List.append_assoc] using h

theorem elems_keys (f : Nat) : ∀ (is : List Index) (hp : is.all (idxOK .normal) = true) (rest : List (List Tok)) (c0 : CreateTable)
    (res : Except Err CreateTable),
    createElems d f rest { c0 with key := c0.key ++ is } = res →
    createElems d f (is.map toksIndex ++ rest) c0 = res := by
  intro is
  induction is with
  | nil => intro hp rest c0 res h; simpa using h
  | cons i is ih =>
    intro hp rest c0 res h
    simp only [List.all_cons, Bool.and_eq_true] at hp
    have e := toksIndex_of_kind .normal i hp.1
    have h1 : searchTwoUp (toksIndex i) "PRIMARY" "KEY" = false := by rw [e]; simp only [kindToks, Bool.eq_false_iff, ne_eq]; kw_simp
    have h2 : searchTwoUp (toksIndex i) "UNIQUE" "KEY" = false := by rw [e]; simp only [kindToks, Bool.eq_false_iff, ne_eq]; kw_simp
    have h3 : searchStrUp (toksIndex i) "KEY" = true := by rw [e]; simp only [kindToks]; kw_simp
    simp only [List.map_cons, List.cons_append]
    rw [createElems]
    simp only [h1, h2, h3, Bool.false_eq_true, if_false, if_true, normal_line i hp.1]
    apply ih hp.2 rest _ res
    simpa [List.append_assoc] using h

theorem elems_fts (f : Nat) : ∀ (is : List Index) (hp : is.all (idxOK .fulltext) = true) (rest : List (List Tok)) (c0 : CreateTable)
    (res : Except Err CreateTable),
    createElems d f rest { c0 with fulltextKey := c0.fulltextKey ++ is } = res →
    createElems d f (is.map toksIndex ++ rest) c0 = res := by
  intro is
  induction is with
  | nil => intro hp rest c0 res h; simpa using h
  | cons i is ih =>
    intro hp rest c0 res h
    simp only [List.all_cons, Bool.and_eq_true] at hp
    have e := toksIndex_of_kind .fulltext i hp.1
    have h1 : searchTwoUp (toksIndex i) "PRIMARY" "KEY" = false := by rw [e]; simp only [kindToks, Bool.eq_false_iff, ne_eq]; kw_simp
    have h2 : searchTwoUp (toksIndex i) "UNIQUE" "KEY" = false := by rw [e]; simp only [kindToks, Bool.eq_false_iff, ne_eq]; kw_simp
    have h3 : searchStrUp (toksIndex i) "KEY" = false := by rw [e]; simp only [kindToks, Bool.eq_false_iff, ne_eq]; kw_simp
    have h4 : searchTwoUp (toksIndex i) "FULLTEXT" "KEY" = true := by rw [e]; simp only [kindToks]; kw_simp
    simp only [List.map_cons, List.cons_append]
    rw [createElems]
    simp only [h1, h2, h3, h4, Bool.false_eq_true, if_false, if_true, fulltext_line i hp.1]
    apply ih hp.2 rest _ res
    simpa [List.append_assoc] using h

theorem elems_fks (f : Nat) : ∀ (ks : List ForeignKey) (hp : ks.all fkOK = true) (rest : List (List Tok)) (c0 : CreateTable)
    (res : Except Err CreateTable),
    createElems d f rest { c0 with foreignKey := c0.foreignKey ++ ks } = res →
    createElems d f (ks.map toksFk ++ rest) c0 = res := by
  intro ks
  induction ks with
  | nil => intro hp rest c0 res h; simpa using h
  | cons k ks ih =>
    intro hp rest c0 res h
    simp only [List.all_cons, Bool.and_eq_true] at hp
    have h1 : searchTwoUp (toksFk k) "PRIMARY" "KEY" = false := by simp only [toksFk, Bool.eq_false_iff, ne_eq]; kw_simp
    have h2 : searchTwoUp (toksFk k) "UNIQUE" "KEY" = false := by simp only [toksFk, Bool.eq_false_iff, ne_eq]; kw_simp
    have h3 : searchStrUp (toksFk k) "KEY" = false := by simp only [toksFk, Bool.eq_false_iff, ne_eq]; kw_simp
    have h4 : searchTwoUp (toksFk k) "FULLTEXT" "KEY" = false := by simp only [toksFk, Bool.eq_false_iff, ne_eq]; kw_simp
    have h5 : searchStrUp (toksFk k) "CONSTRAINT" = true := by simp only [toksFk]; kw_simp
    simp only [List.map_cons, List.cons_append]
    rw [createElems]
    simp only [h1, h2, h3, h4, h5, Bool.false_eq_true, if_false, if_true, fk_line k hp.1]
    apply ih hp.2 rest _ res
    simpa [List.append_assoc] using h

/-! ### sizes -/
theorem sizeL_flag_le (b : Bool) (ts : List Tok) : sizeL (flag b ts) ≤ sizeL ts := by cases b <;> simp [flag, sizeL]
theorem sizeL_lines_le (c : CreateTable) : sizeL (sepAll (toksLines d c)) ≤ sizeL (toksCreate d c) := by
  simp only [toksCreate, sizeL_cons, sizeL_append, size_grp, size_opTok, tblTok, nameTok, size_single]
  omega
theorem sizeL_col_le (c : CreateTable) (col : DefCol) (h : col ∈ c.columns) : sizeL (toksDefCol d col) ≤ sizeL (toksCreate d c) := by
  have h1 : toksDefCol d col ∈ toksLines d c := by
    simp only [toksLines, List.mem_append, List.mem_map]
    exact Or.inl ⟨col, h, rfl⟩
  have := sizeL_sepAll_le _ _ h1
  have := sizeL_lines_le (d := d) c
  omega
theorem sizeL_part_le (c : CreateTable) (hd : (d == Gen.D.MYSQL) = false) (col : DefCol) (h : col ∈ c.partitionedBy) :
    sizeL (toksDefCol d col) ≤ sizeL (toksCreate d c) := by
  have h1 := sizeL_sepAll_le ((c.partitionedBy.map (toksDefCol d))) (toksDefCol d col) (List.mem_map.2 ⟨col, h, rfl⟩)
  have he : c.partitionedBy.isEmpty = false := by cases hp : c.partitionedBy with | nil => rw [hp] at h; simp at h | cons a b => rfl
  simp only [toksCreate, toksOpts, hd, Bool.false_eq_true, if_false, toksHiveOpts, toksPartitioned, he, sizeL_cons, sizeL_append, size_grp,
    size_opTok, tblTok, nameTok, size_single, sizeL]
  omega

/-! ### the statement -/
theorem move_ine (ine : Bool) (t : TableName) (x : List Tok) :
    moveThreeUp (flag ine [opTok "IF", opTok "NOT", opTok "EXISTS"] ++ tblTok t :: x) "IF" "NOT" "EXISTS" = (ine, tblTok t :: x) := by
  cases ine
  · simp only [flag, tblTok]; kw_simp
  · simp only [flag]; kw_simp

theorem pTblName_ok (t : TableName) (ht : tblOK t = true) (cs : List Tok) (x : List Tok) :
    pTblName (tblTok t :: grp cs :: x) = .ok (t, grp cs :: x) := by
  simp only [tblOK, isOkName] at ht
  unfold pTblName pTableName
  simp only [tblTok] at ht ⊢
  kw_simp
  cases hs : splitName (nameTok (tblStr t)).src with
  | error e => rw [hs] at ht; simp at ht
  | ok p =>
    obtain ⟨s, n⟩ := p
    rw [hs] at ht
    simp only [Bool.and_eq_true, beq_iff_eq] at ht
    obtain ⟨sch, nm⟩ := t
    simp only at ht
    simp [ht.1, ht.2]

/-- **`_parse_create_table_statement` inverts the token-level printer** and swallows one `;` -/
theorem pCreateTable_ok (c : CreateTable) (hc : FragCreate d c = true) (rest : List Tok) (hr : endsC rest = true) (f : Nat)
    (hf : 20 * sizeL (toksCreate d c) + 2 ≤ f) :
    pCreateTable d f (toksCreate d c ++ rest) = .ok (.createTable c, (moveStr rest ";").2) := by
  have hcolf : ∀ col ∈ c.columns, 20 * sizeL (toksDefCol d col) + 2 ≤ f := fun col h => by
    have := sizeL_col_le (d := d) c col h; omega
  have hpartf : (d == Gen.D.MYSQL) = false → ∀ col ∈ c.partitionedBy, 20 * sizeL (toksDefCol d col) + 2 ≤ f := fun hd col h => by
    have := sizeL_part_le (d := d) c hd col h; omega
  obtain ⟨tb, ine, cols, pk, uk, ky, ft, fk, pb, cm, en, ai, dc, co, rf, sp, rfs, rfd, sai, sat, ofm, lo, tp⟩ := c
  simp only [FragCreate, Bool.and_eq_true, List.isEmpty_iff] at hc
  obtain ⟨⟨⟨htb, hcols⟩, hsegs⟩, hrest⟩ := hc
  try simp only at hcolf hpartf
  unfold pCreateTable
  simp only [toksCreate]
  simp (config := { decide := true }) only [List.cons_append, List.append_assoc, matchSeq_cons, matchSeq_nil, equalsStr_opTok, if_true]
  simp only [move_ine, pTblName_ok tb htb]
  kw_simp
  rw [splitBy_sepAll _ hsegs]
  by_cases hd : d = .MYSQL
  · subst hd
    simp only [beq_self_eq_true, if_true, Bool.and_eq_true, List.isEmpty_iff, Option.isNone_iff_eq_none, Bool.not_eq_true'] at hrest
    obtain ⟨⟨⟨⟨⟨⟨⟨⟨⟨⟨⟨⟨⟨hfk, hpk⟩, huk⟩, hky⟩, hft⟩, hai⟩, h1⟩, h2⟩, h3⟩, h4⟩, h5⟩, h6⟩, h7⟩, h8⟩ := hrest
    subst h1 h2 h3 h4 h5 h6 h7 h8
    have hE : createElems .MYSQL f (toksLines .MYSQL ⟨tb, ine, cols, pk, uk, ky, ft, fk, [], cm, en, ai, dc, co, rf, sp, none, none, none, false, none, none, []⟩)
        (emptyCreate tb ine) =
        .ok ⟨tb, ine, cols, pk, uk, ky, ft, fk, [], none, none, none, none, none, none, none, none, none, none, false, none, none, []⟩ := by
      simp only [toksLines, beq_self_eq_true, if_true]
      rw [← List.append_nil (List.map toksFk fk)]
      apply elems_cols f cols hcols hcolf
      apply elems_pk f pk hpk _ _ _ rfl
      apply elems_uks f uk huk
      apply elems_keys f ky hky
      apply elems_fts f ft hft
      apply elems_fks f fk hfk
      rfl
    rw [hE]
    simp only [toksOpts, beq_self_eq_true, if_true, toksMyOpts, List.append_assoc]
    have k0 := co_end (d := .MYSQL) f ⟨tb, ine, cols, pk, uk, ky, ft, fk, [], cm, en, ai, dc, co, rf, sp, none, none, none, false, none, none, []⟩ rest hr
    have k1 := co_commentMy f tb ine cols pk uk ky ft fk [] cm en ai dc co rf sp none none none false none none [] rest _ _ k0
    have k2 := co_stats f tb ine cols pk uk ky ft fk [] none en ai dc co rf sp none none none false none none [] _ _ _ k1
    have k3 := co_rowFormat f tb ine cols pk uk ky ft fk [] none en ai dc co rf none none none none false none none [] _ _ _ k2
    have k4 := co_collate f tb ine cols pk uk ky ft fk [] none en ai dc co none none none none none false none none [] _ _ _ k3
    have k5 := co_charset f tb ine cols pk uk ky ft fk [] none en ai dc none none none none none none false none none [] _ _ _ k4
    have k6 := co_autoInc f tb ine cols pk uk ky ft fk [] none en ai none none none none none none none false none none [] _ _ _ hai k5
    have k7 := co_engine f tb ine cols pk uk ky ft fk [] none en none none none none none none none none false none none [] _ _ _ k6
    have hO : ∀ g, _ ≤ g → createOpts _ f g _ _ = _ := k7
    rw [hO]
    simp only [List.length_append]; omega
  · have hb : (d == Gen.D.MYSQL) = false := by simpa using hd
    simp only [hb, Bool.false_eq_true, if_false, Bool.and_eq_true, List.isEmpty_iff, Option.isNone_iff_eq_none] at hrest
    obtain ⟨⟨⟨⟨⟨⟨⟨⟨⟨⟨⟨⟨⟨⟨⟨⟨⟨⟨⟨h0, h1⟩, h2⟩, h3⟩, h4⟩, h5⟩, h6⟩, h7⟩, h8⟩, h9⟩, h10⟩, hpb⟩, hpbs⟩, htps⟩, hv1⟩, hv2⟩, hv3⟩, hv4⟩, hv5⟩, hv6⟩ := hrest
    subst h0 h1 h2 h3 h4 h5 h6 h7 h8 h9 h10
    have hE : createElems d f (toksLines d ⟨tb, ine, cols, none, [], [], [], [], pb, cm, none, none, none, none, none, none, rfs, rfd, sai, sat, ofm, lo, tp⟩)
        (emptyCreate tb ine) =
        .ok ⟨tb, ine, cols, none, [], [], [], [], [], none, none, none, none, none, none, none, none, none, none, false, none, none, []⟩ := by
      simp only [toksLines, hb, Bool.false_eq_true, if_false]
      apply elems_cols f cols hcols hcolf
      rfl
    rw [hE]
    simp only [toksOpts, hb, Bool.false_eq_true, if_false, toksHiveOpts, List.append_assoc]
    have k0 := co_end (d := d) f ⟨tb, ine, cols, none, [], [], [], [], pb, cm, none, none, none, none, none, none, rfs, rfd, sai, sat, ofm, lo, tp⟩ rest hr
    have k1 := co_props f tb ine cols none [] [] [] [] pb cm none none none none none none rfs rfd sai sat ofm lo tp rest _ _ htps k0
    have k2 := co_location f tb ine cols none [] [] [] [] pb cm none none none none none none rfs rfd sai sat ofm lo [] _ _ _ hv6 k1
    have k3 := co_outputformat f tb ine cols none [] [] [] [] pb cm none none none none none none rfs rfd sai sat ofm none [] _ _ _ hv5 k2
    have k4 := co_textfile f tb ine cols none [] [] [] [] pb cm none none none none none none rfs rfd sai sat none none [] _ _ _ k3
    have k5 := co_inputformat f tb ine cols none [] [] [] [] pb cm none none none none none none rfs rfd sai false none none [] _ _ _ hv4 k4
    have k6 := co_delimited f tb ine cols none [] [] [] [] pb cm none none none none none none rfs rfd none false none none [] _ _ _ hv3 k5
    have k7 := co_serde f tb ine cols none [] [] [] [] pb cm none none none none none none rfs none none false none none [] _ _ _ hv2 k6
    have k8 := co_partitioned f tb ine cols none [] [] [] [] pb cm none none none none none none none none none false none none [] _ _ _
      hpb hpbs (hpartf hb) k7
    have k9 := co_commentHive f tb ine cols none [] [] [] [] [] cm none none none none none none none none none false none none [] _ _ _ hv1 k8
    have hO : ∀ g, _ ≤ g → createOpts _ f g _ _ = _ := k9
    rw [hO]
    simp only [List.length_append]; omega

/-- through the statement dispatcher -/
theorem pStatement_create (c : CreateTable) (hc : FragCreate d c = true) (rest : List Tok) (hr : endsC rest = true) (f : Nat)
    (hf : 20 * sizeL (toksCreate d c) + 2 ≤ f) :
    pStatement d f (toksCreate d c ++ rest) = .ok (.createTable c, (moveStr rest ";").2) := by
  have := pCreateTable_ok c hc rest hr f hf
  unfold pStatement
  have h1 : searchStrUp (toksCreate d c ++ rest) "SET" = false := by simp only [toksCreate]; kw_simp
  have h2 : searchTwoUp (toksCreate d c ++ rest) "DELETE" "FROM" = false := by simp only [toksCreate]; kw_simp
  have h3 : searchTwoUp (toksCreate d c ++ rest) "DROP" "TABLE" = false := by simp only [toksCreate]; kw_simp
  have h4 : searchTwoUp (toksCreate d c ++ rest) "CREATE" "TABLE" = true := by simp only [toksCreate]; kw_simp
  simp only [h1, h2, h3, h4, Bool.false_eq_true, if_false, if_true, this]

end TD
