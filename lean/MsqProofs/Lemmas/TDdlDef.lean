import MsqProofs.Lemmas.TDdlCol
/-!
# T-parse for CREATE TABLE: `_parse_define_column_expression` on a whole column definition (C18 / C03)

`pDefCol_ok : colOK d c → 20 * sizeL (toksDefCol d c) + 2 ≤ f → pDefCol d f (toksDefCol d c) = ok (c, [])` — the segment is consumed
entirely (the callers `close()` the sub-cursor), the tree is the printed one, attribute by attribute.
-/
set_option linter.unusedVariables false
set_option linter.unusedSimpArgs false
set_option maxHeartbeats 1000000
open Lex PM Ast TP TS
namespace TD
variable {d : Gen.D}

def attrKws : List String := ["UNSIGNED", "ZEROFILL", "CHARACTER", "COLLATE", "GENERATED", "NULL", "NOT", "AUTO_INCREMENT", "DEFAULT", "ON", "COMMENT"]

theorem HeadIn.comment {ks : List String} (cm : Option String) (tail : List Tok) (hk : "COMMENT" ∈ ks) (h : HeadIn ks tail) :
    HeadIn ks (toksComment cm ++ tail) := by
  cases cm with
  | none => exact h
  | some s => exact HeadIn.cons _ _ hk
theorem HeadIn.onUpdate {ks : List String} (ou : Option Expr) (tail : List Tok) (hk : "ON" ∈ ks) (h : HeadIn ks tail) :
    HeadIn ks (toksOnUpdate d ou ++ tail) := by
  cases ou with
  | none => exact h
  | some s => exact HeadIn.cons _ _ hk
theorem HeadIn.default {ks : List String} (df : Option Expr) (tail : List Tok) (hk : "DEFAULT" ∈ ks) (h : HeadIn ks tail) :
    HeadIn ks (toksDefault d df ++ tail) := by
  cases df with
  | none => exact h
  | some s => exact HeadIn.cons _ _ hk
theorem HeadIn.collate {ks : List String} (co : Option String) (tail : List Tok) (hk : "COLLATE" ∈ ks) (h : HeadIn ks tail) :
    HeadIn ks (toksCollate co ++ tail) := by
  cases co with
  | none => exact h
  | some s => exact HeadIn.cons _ _ hk
theorem HeadIn.generated {ks : List String} (gen : Option GenCol) (tail : List Tok) (hk : "GENERATED" ∈ ks) (h : HeadIn ks tail) :
    HeadIn ks (toksGenerated d gen ++ tail) := by
  rcases gen with _ | ⟨e, _ | m⟩
  · exact h
  · exact h
  · exact HeadIn.cons _ _ hk
theorem HeadIn.charset {ks : List String} (cs : Option String) (tail : List Tok) (hk : "CHARACTER" ∈ ks) (h : HeadIn ks tail) :
    HeadIn ks (toksCharset cs ++ tail) := by
  cases cs with
  | none => exact h
  | some s => exact HeadIn.cons _ _ hk

theorem headIn_attrs (c : DefCol) : HeadIn attrKws (toksAttrs d c) := by
  have hc : HeadIn attrKws (toksComment c.comment) := by
    have := HeadIn.comment c.comment [] (ks := attrKws) (by decide) (HeadIn.nil _)
    simpa using this
  unfold toksAttrs
  split
  · unfold toksMyAttrs
    exact HeadIn.flag _ _ _ (by decide) (HeadIn.flag _ _ _ (by decide) (HeadIn.charset _ _ (by decide) (HeadIn.collate _ _ (by decide)
      (HeadIn.generated _ _ (by decide) (HeadIn.flag _ _ _ (by decide) (HeadIn.flag _ _ _ (by decide) (HeadIn.flag _ _ _ (by decide)
        (HeadIn.default _ _ (by decide) (HeadIn.onUpdate _ _ (by decide) hc)))))))))
  · exact hc

theorem stop8_comment (cm : Option String) : stopLE d 8 (toksComment cm ++ []) = true :=
  HeadIn.stop8 d (HeadIn.comment cm [] (ks := ["COMMENT"]) (by decide) (HeadIn.nil _)) (by cases d <;> decide)
theorem stop8_onUpdate (ou : Option Expr) (cm : Option String) : stopLE d 8 (toksOnUpdate d ou ++ (toksComment cm ++ [])) = true :=
  HeadIn.stop8 d (HeadIn.onUpdate ou _ (ks := ["ON", "COMMENT"]) (by decide) (HeadIn.comment cm [] (by decide) (HeadIn.nil _)))
    (by cases d <;> decide)

/-- **a column definition is read back as itself**, the segment consumed entirely -/
theorem pDefCol_ok (c : DefCol) (hc : colOK d c = true) (f : Nat) (hf : 20 * sizeL (toksDefCol d c) + 2 ≤ f) :
    pDefCol d f (toksDefCol d c) = .ok (c, []) := by
  have hattr := headIn_attrs (d := d) c
  obtain ⟨n, ty, us, zf, cs, co, gen, an, nn, ai, df, ou, cm⟩ := c
  simp only [colOK, Bool.and_eq_true, nameOK, beq_iff_eq] at hc
  obtain ⟨⟨hn, hty⟩, hrest⟩ := hc
  have hsz : sizeL (toksDefCol d ⟨n, ty, us, zf, cs, co, gen, an, nn, ai, df, ou, cm⟩) =
      1 + (sizeL (toksType d ty) + sizeL (toksAttrs d ⟨n, ty, us, zf, cs, co, gen, an, nn, ai, df, ou, cm⟩)) := by
    simp [toksDefCol, sizeL_cons, sizeL_append, nameTok, size_single]
  have h1 : pColType d f (toksType d ty ++ toksAttrs d ⟨n, ty, us, zf, cs, co, gen, an, nn, ai, df, ou, cm⟩) =
      .ok (ty, toksAttrs d ⟨n, ty, us, zf, cs, co, gen, an, nn, ai, df, ou, cm⟩) :=
    pColType_ok ty hty _ (hattr.noParen (by decide)) f (by omega)
  simp only [pDefCol, toksDefCol, popSrc, hn, h1]
  by_cases hd : d = .MYSQL
  · subst hd
    simp only [if_true, Bool.and_eq_true] at hrest
    have hA : toksAttrs .MYSQL ⟨n, ty, us, zf, cs, co, gen, an, nn, ai, df, ou, cm⟩ =
        toksMyAttrs .MYSQL ⟨n, ty, us, zf, cs, co, gen, an, nn, ai, df, ou, cm⟩ (toksComment cm) := by simp [toksAttrs]
    rw [hA] at hsz ⊢
    simp only [toksMyAttrs, sizeL_append] at hsz
    have hfd : ∀ e, df = some e → 20 * sizeL (W .MYSQL noX e 8) + 2 ≤ f := by
      intro e he; subst he; simp only [toksDefault, sizeL_cons] at hsz; omega
    have hfo : ∀ e, ou = some e → 20 * sizeL (W .MYSQL noX e 8) + 2 ≤ f := by
      intro e he; subst he; simp only [toksOnUpdate, sizeL_cons] at hsz; omega
    have hfg : ∀ e m, gen = some ⟨e, some m⟩ → 20 * sizeL (W .MYSQL noX e 8) + 2 ≤ f := by
      intro e m he; subst he; simp only [toksGenerated, sizeL_cons, size_grp] at hsz; omega
    have k0 := dl_end (d := .MYSQL) f ⟨n, ty, us, zf, cs, co, gen, an, nn, ai, df, ou, cm⟩
    have k1 := dl_comment f n ty us zf cs co gen an nn ai df ou cm [] _ _ k0
    have k2 := dl_onUpdate f n ty us zf cs co gen an nn ai df ou none _ _ _ (stop8_comment cm) hrest.1.2 hfo k1
    have k3 := dl_default f n ty us zf cs co gen an nn ai df none none _ _ _ (stop8_onUpdate ou cm) hrest.1.1 hfd k2
    have k4 := dl_autoInc f n ty us zf cs co gen an nn ai none none none _ _ _ k3
    have k5 := dl_notNull f n ty us zf cs co gen an nn false none none none _ _ _ k4
    have k6 := dl_allowNull f n ty us zf cs co gen an false false none none none _ _ _ k5
    have k6' := dl_generated f n ty us zf cs co gen false false false none none none _ _ _ hrest.2 hfg k6
    have k7 := dl_collate f n ty us zf cs co none false false false none none none _ _ _ k6'
    have k8 := dl_charset f n ty us zf cs none none false false false none none none _ _ _ k7
    have k9 := dl_zerofill f n ty us zf none none none false false false none none none _ _ _ k8
    have k10 := dl_unsigned f n ty us false none none none false false false none none none _ _ _ k9
    rw [List.append_nil] at k10
    exact k10 _ (by simp only [toksMyAttrs, List.length_append]; omega)
  · have hb : (d == Gen.D.MYSQL) = false := by simpa using hd
    rw [if_neg hd] at hrest
    simp only [Bool.and_eq_true, Bool.not_eq_true', Option.isNone_iff_eq_none] at hrest
    obtain ⟨⟨⟨⟨⟨⟨⟨⟨⟨g0, g1⟩, g2⟩, g3⟩, g4⟩, g5⟩, g6⟩, g7⟩, g8⟩, g9⟩ := hrest
    subst g0 g1 g2 g3 g4 g5 g6 g7 g8 g9
    have hA : toksAttrs d ⟨n, ty, false, false, none, none, none, false, false, false, none, none, cm⟩ = toksComment cm := by
      simp [toksAttrs, hb]
    rw [hA]
    have k0 := dl_end (d := d) f ⟨n, ty, false, false, none, none, none, false, false, false, none, none, cm⟩
    have k1 := dl_comment f n ty false false none none none false false false none none cm [] _ _ k0
    rw [List.append_nil] at k1
    exact k1 _ (by omega)

theorem toksDefCol_ne (c : DefCol) : (toksDefCol d c).isEmpty = false := rfl

end TD
