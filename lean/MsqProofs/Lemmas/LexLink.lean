import MsqProofs.Props.C09
/-!
# The lexer link of T-parse, lexer side: compositional token lemmas on the shipped table

Everything is stated with `runTail` (the rest of a lexer run from a memory: feed, end of text, finish), from a memory
between tokens at position `|pre|` of a text `T = pre ++ u ++ rest`, with an ARBITRARY current frame `f` and
frame stack `fs`:

* `Tk u tk d`   — the text `u` followed by the character `d` appends exactly the token `tk` and continues between tokens
                  AT `d` (which is read afresh);
* `TkEnd u tk`  — the same at the end of the text;
* `Lx u ts`     — the text `u` followed by a delimiter (a blank, a closing bracket, or the end of the text) appends
                  exactly the tokens `ts` and continues between tokens at the delimiter.

`Lx` composes: blanks (`Lx.sep`), brackets (`Lx.paren`: one PARENTHESIS group whose children are the inner tokens), a
prefix operator written directly before its operand (`Lx.prefix`).  For CLOSED token texts (operators, keywords) `Tk` /
`TkEnd` are decided on the regenerated table by a path check (`tkCheck`, `tkEndCheck`, sound by `tk_of_check`), for the
variable ones (back-quoted names, integers, quoted strings, words) they come from the C05 / C06 theorems.
-/
namespace LexLink
open Lex Spec C05 C06 C09

/-! ## single steps between tokens -/

theorem runTail_cons_wait (T : List Char) (d : Char) (r : List Char) (n : Nat) (stk : List (List Tok)) :
    runTail Gen.cfgS T (d :: r) ⟨n, n, .WAIT, stk⟩ =
      (match dropFlag (handle Gen.cfgS T ⟨n, n, .WAIT, stk⟩ (.ch d)) with
        | .error e => .error e
        | .ok m => runTail Gen.cfgS T r m) := by
  have : d :: r = [d] ++ r := rfl
  rw [this, runTail_append, feedAllWith_one, feedWith_wait]
  cases dropFlag (Lex.handle Gen.cfgS T ⟨n, n, .WAIT, stk⟩ (.ch d)) <;> rfl

theorem step_blank (T r : List Char) (n : Nat) (stk : List (List Tok)) :
    runTail Gen.cfgS T (' ' :: r) ⟨n, n, .WAIT, stk⟩ = runTail Gen.cfgS T r ⟨n + 1, n + 1, .WAIT, stk⟩ := by
  rw [runTail_cons_wait, handle_skip shipped_code (m := ⟨n, n, .WAIT, stk⟩) wait_blank]
  rfl

theorem l_open : Gen.cfgS.lookup .WAIT (.ch '(') = some openParen := look (by decide +kernel)
theorem l_close : Gen.cfgS.lookup .WAIT (.ch ')') = some closeParen := look (by decide +kernel)

theorem step_open (T r : List Char) (n : Nat) (stk : List (List Tok)) :
    runTail Gen.cfgS T ('(' :: r) ⟨n, n, .WAIT, stk⟩ = runTail Gen.cfgS T r ⟨n + 1, n + 1, .WAIT, [] :: stk⟩ := by
  rw [runTail_cons_wait, handle_openParen shipped_code (m := ⟨n, n, .WAIT, stk⟩) l_open]
  rfl

theorem handle_closeParen_ok (T : List Char) (n : Nat) (g f : List Tok) (fs : List (List Tok)) :
    handle Gen.cfgS T ⟨n, n, .WAIT, g :: f :: fs⟩ (.ch ')') =
      .ok (⟨n + 1, n + 1, .WAIT, (f ++ [.group .paren g Gen.mark_PARENTHESIS]) :: fs⟩, true) := by
  simp [Lex.handle, l_close, closeParen, shipped_code, Gen.Cls.code, exec, appendTop, resolveMarks, Gen.mark_PARENTHESIS]

theorem step_close (T r : List Char) (n : Nat) (g f : List Tok) (fs : List (List Tok)) :
    runTail Gen.cfgS T (')' :: r) ⟨n, n, .WAIT, g :: f :: fs⟩ =
      runTail Gen.cfgS T r ⟨n + 1, n + 1, .WAIT, (f ++ [.group .paren g Gen.mark_PARENTHESIS]) :: fs⟩ := by
  rw [runTail_cons_wait, handle_closeParen_ok]
  rfl

/-! ## the three forms -/

def Tk (u : List Char) (tk : Tok) (d : Char) : Prop :=
  ∀ (T pre more : List Char) (f : List Tok) (fs : List (List Tok)), T = pre ++ u ++ d :: more →
    runTail Gen.cfgS T (u ++ d :: more) ⟨pre.length, pre.length, .WAIT, f :: fs⟩ =
      runTail Gen.cfgS T (d :: more) ⟨pre.length + u.length, pre.length + u.length, .WAIT, (f ++ [tk]) :: fs⟩

def TkEnd (u : List Char) (tk : Tok) : Prop :=
  ∀ (T pre : List Char) (f : List Tok) (fs : List (List Tok)), T = pre ++ u →
    runTail Gen.cfgS T u ⟨pre.length, pre.length, .WAIT, f :: fs⟩ =
      runTail Gen.cfgS T [] ⟨pre.length + u.length, pre.length + u.length, .WAIT, (f ++ [tk]) :: fs⟩

/-- what may follow a complete expression text: nothing, a blank, a closing bracket, a comma, a line break -/
def Delim (rest : List Char) : Prop :=
  rest = [] ∨ ∃ r, rest = ' ' :: r ∨ rest = ')' :: r ∨ rest = ',' :: r ∨ rest = '\n' :: r

def Lx (u : List Char) (ts : List Tok) : Prop :=
  ∀ (T pre rest : List Char) (f : List Tok) (fs : List (List Tok)), T = pre ++ u ++ rest → Delim rest →
    runTail Gen.cfgS T (u ++ rest) ⟨pre.length, pre.length, .WAIT, f :: fs⟩ =
      runTail Gen.cfgS T rest ⟨pre.length + u.length, pre.length + u.length, .WAIT, (f ++ ts) :: fs⟩

theorem Lx.of_tk {u : List Char} {tk : Tok} (h1 : Tk u tk ' ') (h2 : Tk u tk ')') (h4 : Tk u tk ',') (h5 : Tk u tk '\n')
    (h3 : TkEnd u tk) : Lx u [tk] := by
  intro T pre rest f fs hT hd
  rcases hd with rfl | ⟨r, rfl | rfl | rfl | rfl⟩
  · simp only [List.append_nil] at hT ⊢
    exact h3 T pre f fs hT
  · exact h1 T pre r f fs hT
  · exact h2 T pre r f fs hT
  · exact h4 T pre r f fs hT
  · exact h5 T pre r f fs hT

/-- a token that is complete by itself (it returns between tokens whatever follows) -/
theorem Lx.of_feed {u : List Char} {tk : Tok}
    (h : ∀ (T pre rest : List Char) (f : List Tok) (fs : List (List Tok)), T = pre ++ u ++ rest →
      feedAllWith (handle Gen.cfgS T) u ⟨pre.length, pre.length, .WAIT, f :: fs⟩ =
        .ok ⟨pre.length + u.length, pre.length + u.length, .WAIT, (f ++ [tk]) :: fs⟩) : Lx u [tk] := by
  intro T pre rest f fs hT _
  rw [runTail_append_ok (h T pre rest f fs hT)]

/-- two expression texts separated by one blank -/
theorem Lx.sep {a b : List Char} {ta tb : List Tok} (ha : Lx a ta) (hb : Lx b tb) : Lx (a ++ ' ' :: b) (ta ++ tb) := by
  intro T pre rest f fs hT hd
  have e1 : (a ++ ' ' :: b) ++ rest = a ++ (' ' :: (b ++ rest)) := by simp
  have hT1 : T = pre ++ a ++ (' ' :: (b ++ rest)) := by rw [hT]; simp
  rw [e1, ha T pre (' ' :: (b ++ rest)) f fs hT1 (Or.inr ⟨_, Or.inl rfl⟩), step_blank]
  have hT2 : T = (pre ++ a ++ [' ']) ++ b ++ rest := by rw [hT]; simp
  have := hb T (pre ++ a ++ [' ']) rest (f ++ ta) fs hT2 hd
  simp only [List.length_append, List.length_cons, List.length_nil] at this ⊢
  rw [this]
  simp only [List.append_assoc]
  congr 2 <;> omega

/-- an expression text in brackets: ONE group whose children are its tokens -/
theorem Lx.paren {a : List Char} {ta : List Tok} (ha : Lx a ta) :
    Lx ('(' :: (a ++ [')'])) [.group .paren ta Gen.mark_PARENTHESIS] := by
  intro T pre rest f fs hT _
  have e1 : ('(' :: (a ++ [')'])) ++ rest = '(' :: (a ++ (')' :: rest)) := by simp
  rw [e1, step_open]
  have hT1 : T = (pre ++ ['(']) ++ a ++ (')' :: rest) := by rw [hT]; simp
  have := ha T (pre ++ ['(']) (')' :: rest) [] (f :: fs) hT1 (Or.inr ⟨_, Or.inr (Or.inl rfl)⟩)
  simp only [List.length_append, List.length_cons, List.length_nil, List.nil_append] at this ⊢
  rw [this, step_close]
  congr 2 <;> omega

/-- a token `u` written directly before an expression text `b` whose first character `c` ends it -/
theorem Lx.prefix {u b : List Char} {tk : Tok} {tb : List Tok} {c : Char} {b' : List Char} (hb : Lx b tb)
    (hc : b = c :: b') (hu : Tk u tk c) : Lx (u ++ b) (tk :: tb) := by
  intro T pre rest f fs hT hd
  subst hc
  have e1 : (u ++ c :: b') ++ rest = u ++ c :: (b' ++ rest) := by simp
  have hT1 : T = pre ++ u ++ c :: (b' ++ rest) := by rw [hT]; simp
  rw [e1, hu T pre (b' ++ rest) f fs hT1]
  have hT2 : T = (pre ++ u) ++ (c :: b') ++ rest := by rw [hT]; simp
  have := hb T (pre ++ u) rest (f ++ [tk]) fs hT2 hd
  simp only [List.length_append, List.length_cons, List.cons_append, List.append_assoc, List.nil_append] at this ⊢
  rw [this]
  congr 2 <;> omega

/-! ## closed token texts: a path check on the table -/

/-- every character goes into the window: the state reached from `s` (if all cells are "take the character and go on") -/
def addPath : S → List Char → Option S
  | s, [] => some s
  | s, c :: cs =>
    match Gen.cfgS.lookup s (.ch c) with
    | some o => if o == addTo o.status then addPath o.status cs else none
    | none => none

theorem addPath_run (T : List Char) : ∀ (cs : List Char) (s s' : S), addPath s cs = some s' → ∀ (st nw : Nat) (stk : List (List Tok)),
    feedAllWith (handle Gen.cfgS T) cs ⟨st, nw, s, stk⟩ = .ok ⟨st, nw + cs.length, s', stk⟩ := by
  intro cs
  induction cs with
  | nil => intro s s' h st nw stk; simp only [addPath, Option.some.injEq] at h; subst h; rfl
  | cons c cs ih =>
    intro s s' h st nw stk
    simp only [addPath] at h
    cases ho : Gen.cfgS.lookup s (.ch c) with
    | none => rw [ho] at h; cases h
    | some o =>
      rw [ho] at h
      simp only at h
      split at h
      · rename_i heq
        have heq' : o = addTo o.status := by simpa using heq
        have h1 := handle_addTo shipped_code (text := T) (m := ⟨st, nw, s, stk⟩) (q := o.status) (sym := .ch c)
          (by rw [ho, ← heq'])
        rw [feedAllWith_cons_adv h1, ih o.status s' h]
        simp only [List.length_cons]; congr 2; omega
      · cases h

/-- the token an ending operation makes of the window `u` -/
def endTok (o : Op) (u : List Char) : Tok :=
  if o == emitWordBefore || o == emitWordAtEnd then
    .single u (resolveMarks Gen.cfgS.upper Gen.cfgS.wordMarks 0 u (.word 2))
  else .single u o.marks

/-- `u`, read from between tokens and followed by `d`: the token it becomes (`none`: the check does not apply) -/
def tkCheck (u : List Char) (d : Char) : Option Tok :=
  match addPath .WAIT u with
  | some p =>
    -- pending: `d` must end the token without being taken
    match Gen.cfgS.lookup p (.ch d) with
    | some o => if endsBefore o && !(o == dropBefore) then some (endTok o u) else none
    | none => none
  | none =>
    -- complete with its last character
    match u.reverse with
    | [] => none
    | c :: ur =>
      match addPath .WAIT ur.reverse with
      | some p =>
        match Gen.cfgS.lookup p (.ch c) with
        | some o => if o == emitWith o.marks || (o == emitStay o.marks && p == .WAIT) then some (.single u o.marks) else none
        | none => none
      | none => none

theorem afterEnd_endTok (o : Op) (ho : endsBefore o = true) (hn : (o == dropBefore) = false) (u : List Char) (f : List Tok)
    (fs : List (List Tok)) : afterEnd o u f fs = (f ++ [endTok o u]) :: fs := by
  simp only [afterEnd, hn, Bool.false_eq_true, if_false, endTok]
  by_cases hw : o = emitWordBefore
  · subst hw; simp
  · have h1 : (o == emitWordBefore) = false := by simpa using hw
    have h2 : (o == emitWordAtEnd) = false := by
      simp only [endsBefore, Bool.or_eq_true, beq_iff_eq] at ho
      rcases ho with (ho | ho) | ho
      · rw [ho]; simp only [beq_eq_false_iff_ne, ne_eq]; intro h; have := congrArg OpRef.cls h; cases this
      · exact absurd ho hw
      · rw [ho]; decide
    simp [h1, h2]

/-- a pending token ended by `d` -/
theorem tk_of_pending (u : List Char) (p : S) (d : Char) (o : Op)
    (hrun : ∀ (T : List Char) (n : Nat) (stk : List (List Tok)),
      feedAllWith (handle Gen.cfgS T) u ⟨n, n, .WAIT, stk⟩ = .ok ⟨n, n + u.length, p, stk⟩)
    (hl : Gen.cfgS.lookup p (.ch d) = some o) (ho : endsBefore o = true) (hn : (o == dropBefore) = false) :
    Tk u (endTok o u) d := by
  intro T pre more f fs hT
  rw [runTail_append_ok (hrun T pre.length (f :: fs))]
  have h1 := handle_endsBefore o ho T ⟨pre.length, pre.length + u.length, p, f :: fs⟩ d f fs hl rfl
  have hw : win T ⟨pre.length, pre.length + u.length, p, f :: fs⟩ (pre.length + u.length) = u := by
    rw [hT]; exact win_mid pre u (d :: more) _ _ _
  simp only [hw, afterEnd_endTok o ho hn] at h1
  have e1 : d :: more = [d] ++ more := rfl
  rw [e1, runTail_append, runTail_append, feedAllWith_one, feedAllWith_one, feedWith_retry' h1, feedWith_wait]

/-- a token that is complete with its last character -/
theorem tk_of_complete (u ur : List Char) (c : Char) (hu : u = ur ++ [c]) (p : S) (k : Nat)
    (hrun : ∀ (T : List Char) (n : Nat) (stk : List (List Tok)),
      feedAllWith (handle Gen.cfgS T) ur ⟨n, n, .WAIT, stk⟩ = .ok ⟨n, n + ur.length, p, stk⟩)
    (hl : Gen.cfgS.lookup p (.ch c) = some (emitWith k) ∨ (Gen.cfgS.lookup p (.ch c) = some (emitStay k) ∧ p = .WAIT)) :
    ∀ (T pre rest : List Char) (f : List Tok) (fs : List (List Tok)), T = pre ++ u ++ rest →
      feedAllWith (handle Gen.cfgS T) u ⟨pre.length, pre.length, .WAIT, f :: fs⟩ =
        .ok ⟨pre.length + u.length, pre.length + u.length, .WAIT, (f ++ [.single u k]) :: fs⟩ := by
  intro T pre rest f fs hT
  subst hu
  rw [feedAllWith_append_ok (hrun T pre.length (f :: fs)), feedAllWith_one]
  have hw : win T ⟨pre.length, pre.length + ur.length, p, f :: fs⟩ (pre.length + ur.length + 1) = ur ++ [c] := by
    have : pre.length + ur.length + 1 = pre.length + (ur ++ [c]).length := by simp; omega
    rw [this, hT]; exact win_mid pre (ur ++ [c]) rest _ _ _
  rcases hl with hl | ⟨hl, rfl⟩
  · rw [feedWith_adv (handle_emitWith shipped_code (m := ⟨pre.length, pre.length + ur.length, p, f :: fs⟩) hl rfl)]
    simp only [hw, List.length_append, List.length_cons, List.length_nil]
    congr 2 <;> omega
  · rw [feedWith_adv (handle_emitStay shipped_code (m := ⟨pre.length, pre.length + ur.length, .WAIT, f :: fs⟩) hl rfl)]
    simp only [hw, List.length_append, List.length_cons, List.length_nil]
    congr 2 <;> omega

theorem tk_of_feed {u : List Char} {tk : Tok}
    (h : ∀ (T pre rest : List Char) (f : List Tok) (fs : List (List Tok)), T = pre ++ u ++ rest →
      feedAllWith (handle Gen.cfgS T) u ⟨pre.length, pre.length, .WAIT, f :: fs⟩ =
        .ok ⟨pre.length + u.length, pre.length + u.length, .WAIT, (f ++ [tk]) :: fs⟩) (d : Char) : Tk u tk d := by
  intro T pre more f fs hT
  rw [runTail_append_ok (h T pre (d :: more) f fs hT)]

/-- **soundness of the path check** -/
theorem tk_of_check (u : List Char) (d : Char) (tk : Tok) (h : tkCheck u d = some tk) : Tk u tk d := by
  unfold tkCheck at h
  cases hp : addPath .WAIT u with
  | some p =>
    rw [hp] at h
    simp only at h
    cases ho : Gen.cfgS.lookup p (.ch d) with
    | none => rw [ho] at h; cases h
    | some o =>
      rw [ho] at h
      simp only at h
      split at h
      · rename_i hc
        simp only [Bool.and_eq_true, Bool.not_eq_eq_eq_not, Bool.not_true] at hc
        simp only [Option.some.injEq] at h
        subst h
        exact tk_of_pending u p d o (fun T n stk => addPath_run T u .WAIT p hp n n stk) ho hc.1 hc.2
      · cases h
  | none =>
    rw [hp] at h
    simp only at h
    cases hr : u.reverse with
    | nil => rw [hr] at h; cases h
    | cons c ur =>
      rw [hr] at h
      simp only at h
      have hu : u = ur.reverse ++ [c] := by
        have := congrArg List.reverse hr
        simpa using this
      cases hp2 : addPath .WAIT ur.reverse with
      | none => rw [hp2] at h; cases h
      | some p =>
        rw [hp2] at h
        simp only at h
        cases ho : Gen.cfgS.lookup p (.ch c) with
        | none => rw [ho] at h; cases h
        | some o =>
          rw [ho] at h
          simp only at h
          split at h
          · rename_i hc
            simp only [Option.some.injEq] at h
            subst h
            refine tk_of_feed (tk_of_complete u ur.reverse c hu p o.marks
              (fun T n stk => addPath_run T ur.reverse .WAIT p hp2 n n stk) ?_) d
            simp only [Bool.or_eq_true, Bool.and_eq_true, beq_iff_eq] at hc
            rcases hc with hc | ⟨hc, hw⟩
            · exact Or.inl (by rw [ho, ← hc])
            · exact Or.inr ⟨by rw [ho, ← hc], hw⟩
          · cases h

/-! ## the end of the text -/

theorem l_wait_end : Gen.cfgS.lookup .WAIT .eof = some Spec.finish := wait_end

theorem runTail_nil_wait (T : List Char) (n : Nat) (stk : List (List Tok)) :
    runTail Gen.cfgS T [] ⟨n, n, .WAIT, stk⟩ = Lex.finish Gen.cfgS ⟨n, n, .END, stk⟩ := by
  simp only [runTail, feedAllWith, handle_finish shipped_code (m := ⟨n, n, .WAIT, stk⟩) l_wait_end]

/-- a pending token at the end of the text (`hrun` may depend on the text: the pending state is existential) -/
theorem tkEnd_of_pending (u : List Char) (tk : Tok)
    (hrun : ∀ (T pre : List Char) (f : List Tok) (fs : List (List Tok)), T = pre ++ u → ∃ p,
      feedAllWith (handle Gen.cfgS T) u ⟨pre.length, pre.length, .WAIT, f :: fs⟩ =
        .ok ⟨pre.length, pre.length + u.length, p, f :: fs⟩ ∧
      handle Gen.cfgS T ⟨pre.length, pre.length + u.length, p, f :: fs⟩ .eof =
        .ok (⟨pre.length + u.length, pre.length + u.length, .END, (f ++ [tk]) :: fs⟩, true)) : TkEnd u tk := by
  intro T pre f fs hT
  obtain ⟨p, h1, h2⟩ := hrun T pre f fs hT
  rw [runTail_nil_wait]
  have : runTail Gen.cfgS T u ⟨pre.length, pre.length, .WAIT, f :: fs⟩ =
      runTail Gen.cfgS T [] ⟨pre.length, pre.length + u.length, p, f :: fs⟩ := by
    have := runTail_append_ok h1 []
    simpa using this
  rw [this]
  simp only [runTail, feedAllWith, h2]

theorem tkEnd_of_feed {u : List Char} {tk : Tok}
    (h : ∀ (T pre rest : List Char) (f : List Tok) (fs : List (List Tok)), T = pre ++ u ++ rest →
      feedAllWith (handle Gen.cfgS T) u ⟨pre.length, pre.length, .WAIT, f :: fs⟩ =
        .ok ⟨pre.length + u.length, pre.length + u.length, .WAIT, (f ++ [tk]) :: fs⟩) : TkEnd u tk := by
  intro T pre f fs hT
  have := runTail_append_ok (h T pre [] f fs (by simpa using hT)) []
  simpa using this

/-- the path check at the end of the text -/
def tkEndCheck (u : List Char) : Option Tok :=
  match addPath .WAIT u with
  | some p =>
    match Gen.cfgS.lookup p .eof with
    | some o => if o == emitAtEnd o.marks || o == emitWordAtEnd then some (endTok o u) else none
    | none => none
  | none =>
    match u.reverse with
    | [] => none
    | c :: ur =>
      match addPath .WAIT ur.reverse with
      | some p =>
        match Gen.cfgS.lookup p (.ch c) with
        | some o => if o == emitWith o.marks || (o == emitStay o.marks && p == .WAIT) then some (.single u o.marks) else none
        | none => none
      | none => none

theorem tkEnd_of_check (u : List Char) (tk : Tok) (h : tkEndCheck u = some tk) : TkEnd u tk := by
  unfold tkEndCheck at h
  cases hp : addPath .WAIT u with
  | some p =>
    rw [hp] at h
    simp only at h
    cases ho : Gen.cfgS.lookup p .eof with
    | none => rw [ho] at h; cases h
    | some o =>
      rw [ho] at h
      simp only at h
      split at h
      · rename_i hc
        simp only [Option.some.injEq] at h
        subst h
        refine tkEnd_of_pending u _ fun T pre f fs hT => ⟨p, addPath_run T u .WAIT p hp _ _ _, ?_⟩
        have hw : win T ⟨pre.length, pre.length + u.length, p, f :: fs⟩ (pre.length + u.length) = u := by
          have := win_mid pre u [] (pre.length + u.length) p (f :: fs)
          simpa [hT] using this
        simp only [Bool.or_eq_true, beq_iff_eq] at hc
        rcases hc with hc | hc
        · have hne : (o == emitWordBefore || o == emitWordAtEnd) = false := by
            rw [hc]
            simp only [Bool.or_eq_false_iff, beq_eq_false_iff_ne, ne_eq]
            constructor <;> intro h <;> have := congrArg OpRef.cls h <;> cases this
          rw [handle_emitAtEnd shipped_code (m := ⟨pre.length, pre.length + u.length, p, f :: fs⟩) (by rw [ho, ← hc]) rfl, hw]
          simp [endTok, hne]
        · subst hc
          rw [handle_emitWordAtEnd shipped_code (m := ⟨pre.length, pre.length + u.length, p, f :: fs⟩) ho rfl, hw]
          simp [endTok]
      · cases h
  | none =>
    rw [hp] at h
    simp only at h
    cases hr : u.reverse with
    | nil => rw [hr] at h; cases h
    | cons c ur =>
      rw [hr] at h
      simp only at h
      have hu : u = ur.reverse ++ [c] := by
        have := congrArg List.reverse hr
        simpa using this
      cases hp2 : addPath .WAIT ur.reverse with
      | none => rw [hp2] at h; cases h
      | some p =>
        rw [hp2] at h
        simp only at h
        cases ho : Gen.cfgS.lookup p (.ch c) with
        | none => rw [ho] at h; cases h
        | some o =>
          rw [ho] at h
          simp only at h
          split at h
          · rename_i hc
            simp only [Option.some.injEq] at h
            subst h
            refine tkEnd_of_feed (tk_of_complete u ur.reverse c hu p o.marks
              (fun T n stk => addPath_run T ur.reverse .WAIT p hp2 n n stk) ?_)
            simp only [Bool.or_eq_true, Bool.and_eq_true, beq_iff_eq] at hc
            rcases hc with hc | ⟨hc, hw⟩
            · exact Or.inl (by rw [ho, ← hc])
            · exact Or.inr ⟨by rw [ho, ← hc], hw⟩
          · cases h

/-- Bool forms, decidable by the kernel for closed token texts -/
def tkIs (u : List Char) (d : Char) (tk : Tok) : Bool := match tkCheck u d with | some t => Tok.eqb t tk | none => false
def tkEndIs (u : List Char) (tk : Tok) : Bool := match tkEndCheck u with | some t => Tok.eqb t tk | none => false
/-- `u` is a complete expression-level token: before a blank, `)`, `,`, a line break, and at the end of the text -/
def lxIs (u : List Char) (tk : Tok) : Bool :=
  tkIs u ' ' tk && tkIs u ')' tk && tkIs u ',' tk && tkIs u '\n' tk && tkEndIs u tk

theorem tk_of_is {u : List Char} {d : Char} {tk : Tok} (h : tkIs u d tk = true) : Tk u tk d := by
  unfold tkIs at h
  cases hc : tkCheck u d with
  | none => rw [hc] at h; cases h
  | some t => rw [hc] at h; exact Tok.eqb_sound t tk h ▸ tk_of_check u d t hc

theorem tkEnd_of_is {u : List Char} {tk : Tok} (h : tkEndIs u tk = true) : TkEnd u tk := by
  unfold tkEndIs at h
  cases hc : tkEndCheck u with
  | none => rw [hc] at h; cases h
  | some t => rw [hc] at h; exact Tok.eqb_sound t tk h ▸ tkEnd_of_check u t hc

theorem lx_of_is {u : List Char} {tk : Tok} (h : lxIs u tk = true) : Lx u [tk] := by
  simp only [lxIs, Bool.and_eq_true] at h
  exact Lx.of_tk (tk_of_is h.1.1.1.1) (tk_of_is h.1.1.1.2) (tk_of_is h.1.1.2) (tk_of_is h.1.2) (tkEnd_of_is h.2)

/-! ## the variable tokens -/

/-- a back-quoted name -/
theorem lx_name (c : List Char) (hc : ∀ x ∈ c, x ≠ '`') :
    Lx ('`' :: (c ++ ['`'])) [.single ('`' :: (c ++ ['`'])) Gen.mark_NAME] := by
  refine Lx.of_feed fun T pre rest f fs hT => ?_
  have := backquote_in_context pre c rest (fun x hx => ⟨hc x hx, fun h => absurd rfl h⟩) f fs
  rw [hT]
  exact this

/-- a pending token whose pending state may depend on the text -/
theorem tk_of_pending' (u : List Char) (d : Char) (tk : Tok)
    (hrun : ∀ (T pre more : List Char) (f : List Tok) (fs : List (List Tok)), T = pre ++ u ++ d :: more → ∃ p,
      feedAllWith (handle Gen.cfgS T) u ⟨pre.length, pre.length, .WAIT, f :: fs⟩ =
        .ok ⟨pre.length, pre.length + u.length, p, f :: fs⟩ ∧
      handle Gen.cfgS T ⟨pre.length, pre.length + u.length, p, f :: fs⟩ (.ch d) =
        .ok (⟨pre.length + u.length, pre.length + u.length, .WAIT, (f ++ [tk]) :: fs⟩, false)) : Tk u tk d := by
  intro T pre more f fs hT
  obtain ⟨p, h1, h2⟩ := hrun T pre more f fs hT
  rw [runTail_append_ok h1]
  have e1 : d :: more = [d] ++ more := rfl
  rw [e1, runTail_append, runTail_append, feedAllWith_one, feedAllWith_one, feedWith_retry' h2, feedWith_wait]

/-- an integer literal -/
theorem lx_int (ds : List Char) (hne : ds ≠ []) (hd : ∀ c ∈ ds, isDigit c.toNat = true) :
    Lx ds [.single ds (Gen.mark_LITERAL ||| Gen.mark_LITERAL_INT)] := by
  have hrun : ∀ (T : List Char) (n : Nat) (stk : List (List Tok)), ∃ q, intSt q ∧
      feedAllWith (handle Gen.cfgS T) ds ⟨n, n, .WAIT, stk⟩ = .ok ⟨n, n + ds.length, q, stk⟩ := by
    intro T n stk
    cases ds with
    | nil => exact absurd rfl hne
    | cons c cs =>
      obtain ⟨q0, hq0, hl⟩ := int_first c (hd c (by simp))
      have h1 := handle_addTo shipped_code (text := T) (m := ⟨n, n, .WAIT, stk⟩) hl
      obtain ⟨q, hq, hr⟩ := int_run T cs (fun d hm => hd d (by simp [hm])) q0 hq0 n (n + 1) stk
      refine ⟨q, hq, ?_⟩
      rw [feedAllWith_cons_adv h1, hr]
      simp only [List.length_cons]; congr 2; omega
  have hd1 : ∀ (d : Char), (d = ' ' ∨ d = ')' ∨ d = ',' ∨ d = '\n') → Tk ds (.single ds (Gen.mark_LITERAL ||| Gen.mark_LITERAL_INT)) d := by
    intro d hdd
    refine tk_of_pending' ds d _ fun T pre more f fs hT => ?_
    obtain ⟨q, hq, hr⟩ := hrun T pre.length (f :: fs)
    refine ⟨q, hr, ?_⟩
    have hb : Gen.cfgS.lookup q (.ch d) = some (emitBefore mInt) := by
      rcases hq with rfl | rfl <;> rcases hdd with rfl | rfl | rfl | rfl <;> exact look (by decide +kernel)
    rw [handle_emitBefore shipped_code (m := ⟨pre.length, pre.length + ds.length, q, f :: fs⟩) hb rfl]
    have hw : win T ⟨pre.length, pre.length + ds.length, q, f :: fs⟩ (pre.length + ds.length) = ds := by
      rw [hT]; exact win_mid pre ds (d :: more) _ _ _
    rw [hw]; rfl
  refine Lx.of_tk (hd1 ' ' (Or.inl rfl)) (hd1 ')' (Or.inr (Or.inl rfl))) (hd1 ',' (Or.inr (Or.inr (Or.inl rfl))))
    (hd1 '\n' (Or.inr (Or.inr (Or.inr rfl)))) (tkEnd_of_pending ds _ fun T pre f fs hT => ?_)
  obtain ⟨q, hq, hr⟩ := hrun T pre.length (f :: fs)
  refine ⟨q, hr, ?_⟩
  have he : Gen.cfgS.lookup q .eof = some (emitAtEnd mInt) := by
    rcases hq with rfl | rfl <;> exact lookEnd (by decide +kernel)
  rw [handle_emitAtEnd shipped_code (m := ⟨pre.length, pre.length + ds.length, q, f :: fs⟩) he rfl]
  have hw : win T ⟨pre.length, pre.length + ds.length, q, f :: fs⟩ (pre.length + ds.length) = ds := by
    have := win_mid pre ds [] (pre.length + ds.length) q (f :: fs)
    simpa [hT] using this
  rw [hw]; rfl

/-- a quoted string whose body obeys the escape grammar -/
theorem lx_string (k : QK) (hk : k ≠ .bq) (body : List Char) (hb : strBody k.ch body = true) :
    Lx (k.wrap body) [.single (k.wrap body) (Gen.mark_LITERAL ||| Gen.mark_NAME)] := by
  have hm : k.marks = (Gen.mark_LITERAL ||| Gen.mark_NAME) := by cases k <;> first | rfl | exact absurd rfl hk
  have hd1 : ∀ (d : Char), d ≠ k.ch → Tk (k.wrap body) (.single (k.wrap body) (Gen.mark_LITERAL ||| Gen.mark_NAME)) d := by
    intro d hdd
    refine tk_of_pending' _ d _ fun T pre more f fs hT => ?_
    obtain ⟨g1, g2, _⟩ := escaped_quote k hk pre body (d :: more) hb f fs
    refine ⟨k.pending, by rw [hT]; exact g1, ?_⟩
    rw [hT, ← hm]; exact g2 d hdd
  refine Lx.of_tk (hd1 ' ' (by cases k <;> decide)) (hd1 ')' (by cases k <;> decide)) (hd1 ',' (by cases k <;> decide))
    (hd1 '\n' (by cases k <;> decide))
    (tkEnd_of_pending _ _ fun T pre f fs hT => ?_)
  obtain ⟨g1, _, g3⟩ := escaped_quote k hk pre body [] hb f fs
  simp only [List.append_nil] at g1 g3
  exact ⟨k.pending, by rw [hT]; exact g1, by rw [hT, ← hm]; exact g3⟩

/-- a word (not beginning with a digit or `b B x X`): the marks are the keyword table's, default NAME -/
theorem lx_word (w : List Char) (hw : isWord w = true) : Lx w [.single w (C05.wordMark w)] := by
  have hd1 : ∀ (d : Char), endsWord d = true → Tk w (.single w (C05.wordMark w)) d := by
    intro d hdd
    have := tk_of_pending w .IN_WORD d emitWordBefore (fun T n stk => word_run T w hw n stk) (word_stop d hdd) (by decide)
      (by decide)
    simpa [endTok, C05.wordMark, Gen.mark_NAME] using this
  refine Lx.of_tk (hd1 ' ' (by decide +kernel)) (hd1 ')' (by decide +kernel)) (hd1 ',' (by decide +kernel))
    (hd1 '\n' (by decide +kernel))
    (tkEnd_of_pending w _ fun T pre f fs hT => ⟨.IN_WORD, word_run T w hw _ _, ?_⟩)
  have he : Gen.cfgS.lookup .IN_WORD .eof = some emitWordAtEnd := lookEnd (by decide +kernel)
  rw [handle_emitWordAtEnd shipped_code (m := ⟨pre.length, pre.length + w.length, .IN_WORD, f :: fs⟩) he rfl]
  have hwin : win T ⟨pre.length, pre.length + w.length, .IN_WORD, f :: fs⟩ (pre.length + w.length) = w := by
    have := win_mid pre w [] (pre.length + w.length) .IN_WORD (f :: fs)
    rw [hT]; simpa using this
  rw [hwin]; rfl

end LexLink
