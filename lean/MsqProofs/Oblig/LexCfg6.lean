import MsqModel.Gen.LexCfg6
/-! table obligation for option setting 6 (4·IGNORE_SPACE + 2·IGNORE_LINEBREAK + IGNORE_COMMENT), re-checked by the
kernel against the regenerated table and certificates on every run -/
namespace Oblig
open Lex
theorem tableOK_cfg6 : TableOK Gen.Cfg6.cfg Gen.Cfg6.advSt Gen.Cfg6.wk = true := by decide +kernel
theorem depth_cfg6 : Gen.Cfg6.cfg.depthLimit ≤ 1 := by decide
theorem summarizable_cfg6 : Gen.allCls.all (fun c => (summarize (Gen.Cfg6.cfg.code c)).isSome) = true := by decide
end Oblig
