import MsqProofs.Lemmas.LexRetain2Walk
import MsqModel.Gen.LexCfg5
/-! C04 (d) table obligation for option setting 5 (4·IGNORE_SPACE + 2·IGNORE_LINEBREAK + IGNORE_COMMENT): on every cell of
the regenerated table that does not raise, what the operation(s) do to the pending window — extend it, emit it as a
token, drop it, open / close a group — is what the character classification of the structural scanner
(`Scan.classOf`: blank / line break / comment / bracket / token character) prescribes for this setting: characters of
the ignored classes are dropped, every other character ends up in a token or is a bracket that opens / closes a group.
Re-checked by the kernel on every run. -/
namespace Oblig
theorem retSim_cfg5 : Lex.retCheck (Scan.Ign.ofBits 5) Gen.Cfg5.cfg = true :=
  Lex.retCheckW_sound _ _ (by decide +kernel)
end Oblig
