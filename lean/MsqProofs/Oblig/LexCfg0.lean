import MsqModel.Gen.LexCfg0
/-! table obligation for option setting 0 (4·IGNORE_SPACE + 2·IGNORE_LINEBREAK + IGNORE_COMMENT), re-checked by the
kernel against the regenerated table and certificates on every run -/
namespace Oblig
open Lex
theorem tableOK_cfg0 : TableOK Gen.Cfg0.cfg Gen.Cfg0.advSt Gen.Cfg0.wk = true := by decide +kernel
theorem depth_cfg0 : Gen.Cfg0.cfg.depthLimit ≤ 1 := by decide
theorem summarizable_cfg0 : Gen.allCls.all (fun c => (summarize (Gen.Cfg0.cfg.code c)).isSome) = true := by decide
end Oblig
