import MsqModel.Gen.LexCfg5
/-! table obligation for option setting 5 (4·IGNORE_SPACE + 2·IGNORE_LINEBREAK + IGNORE_COMMENT), re-checked by the
kernel against the regenerated table and certificates on every run -/
namespace Oblig
open Lex
theorem tableOK_cfg5 : TableOK Gen.Cfg5.cfg Gen.Cfg5.advSt Gen.Cfg5.wk = true := by decide +kernel
theorem depth_cfg5 : Gen.Cfg5.cfg.depthLimit ≤ 1 := by decide
theorem summarizable_cfg5 : Gen.allCls.all (fun c => (summarize (Gen.Cfg5.cfg.code c)).isSome) = true := by decide
end Oblig
