import MsqModel.Lex.Spec
import MsqModel.Gen.LexCfg5
/-! C05 table obligation for option setting 5 (4·IGNORE_SPACE + 2·IGNORE_LINEBREAK + IGNORE_COMMENT): every cell of the
regenerated table — all probe codes of every row, the default rows, the end-of-text rows — equals the specification
automaton `Spec.cellD 5`; re-checked by the kernel on every run -/
namespace Oblig
theorem specAgree_cfg5 : Spec.agreeFin Gen.Cfg5.cfg 5 = true := by decide +kernel
end Oblig
