import MsqModel.Gen.LexCfg7
/-! table obligation for option setting 7 (4·IGNORE_SPACE + 2·IGNORE_LINEBREAK + IGNORE_COMMENT), re-checked by the
kernel against the regenerated table and certificates on every run -/
namespace Oblig
open Lex
theorem tableOK_cfg7 : TableOK Gen.Cfg7.cfg Gen.Cfg7.advSt Gen.Cfg7.wk = true := by decide +kernel
theorem depth_cfg7 : Gen.Cfg7.cfg.depthLimit ≤ 1 := by decide
theorem summarizable_cfg7 : Gen.allCls.all (fun c => (summarize (Gen.Cfg7.cfg.code c)).isSome) = true := by decide
end Oblig
