import MsqModel.Gen.LexCfg1
/-! table obligation for option setting 1 (4·IGNORE_SPACE + 2·IGNORE_LINEBREAK + IGNORE_COMMENT), re-checked by the
kernel against the regenerated table and certificates on every run -/
namespace Oblig
open Lex
theorem tableOK_cfg1 : TableOK Gen.Cfg1.cfg Gen.Cfg1.advSt Gen.Cfg1.wk = true := by decide +kernel
theorem depth_cfg1 : Gen.Cfg1.cfg.depthLimit ≤ 1 := by decide
theorem summarizable_cfg1 : Gen.allCls.all (fun c => (summarize (Gen.Cfg1.cfg.code c)).isSome) = true := by decide
end Oblig
