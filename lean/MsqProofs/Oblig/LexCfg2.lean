import MsqModel.Gen.LexCfg2
/-! table obligation for option setting 2 (4·IGNORE_SPACE + 2·IGNORE_LINEBREAK + IGNORE_COMMENT), re-checked by the
kernel against the regenerated table and certificates on every run -/
namespace Oblig
open Lex
theorem tableOK_cfg2 : TableOK Gen.Cfg2.cfg Gen.Cfg2.advSt Gen.Cfg2.wk = true := by decide +kernel
theorem depth_cfg2 : Gen.Cfg2.cfg.depthLimit ≤ 1 := by decide
theorem summarizable_cfg2 : Gen.allCls.all (fun c => (summarize (Gen.Cfg2.cfg.code c)).isSome) = true := by decide
end Oblig
