import MsqModel.Lex.Spec
import MsqModel.Gen.LexCfg0
/-! C05 table obligation for option setting 0 (4·IGNORE_SPACE + 2·IGNORE_LINEBREAK + IGNORE_COMMENT): every cell of the
regenerated table — all probe codes of every row, the default rows, the end-of-text rows — equals the specification
automaton `Spec.cellD 0`; re-checked by the kernel on every run -/
namespace Oblig
theorem specAgree_cfg0 : Spec.agreeFin Gen.Cfg0.cfg 0 = true := by decide +kernel
end Oblig
