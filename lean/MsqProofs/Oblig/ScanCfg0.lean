import MsqProofs.Lemmas.LexScan
import MsqModel.Gen.LexCfg0
/-! C04 (b, c) table obligation for option setting 0: every cell of the regenerated table that does not raise moves
between lexer states exactly as the structural bracket scanner `Scan.step` moves between its modes (related by
`Scan.rho`), with the same bracket events; no bracket event at the end of the text.  Re-checked by the kernel on every
run. -/
namespace Oblig
theorem scanSim_cfg0 : Scan.simCheck Gen.Cfg0.cfg = true := by decide +kernel
end Oblig
