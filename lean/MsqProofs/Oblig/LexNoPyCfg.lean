import MsqProofs.Lemmas.LexNoPy
import MsqModel.Gen.LexShipped
import MsqModel.Gen.LexCfg0
import MsqModel.Gen.LexCfg1
import MsqModel.Gen.LexCfg2
import MsqModel.Gen.LexCfg3
import MsqModel.Gen.LexCfg4
import MsqModel.Gen.LexCfg5
import MsqModel.Gen.LexCfg6
import MsqModel.Gen.LexCfg7
/-! table obligation `NoPyOK` (no missing cell on a reachable state, every reachable body has a normal form, every pop is
guarded) for the eight option settings, re-checked by the kernel against the regenerated tables on every build -/
namespace Oblig
open Lex Lex.NoPy
theorem noPyOK_cfg0 : NoPyOK Gen.Cfg0.cfg = true := by decide +kernel
theorem noPyOK_cfg1 : NoPyOK Gen.Cfg1.cfg = true := by decide +kernel
theorem noPyOK_cfg2 : NoPyOK Gen.Cfg2.cfg = true := by decide +kernel
theorem noPyOK_cfg3 : NoPyOK Gen.Cfg3.cfg = true := by decide +kernel
theorem noPyOK_cfg4 : NoPyOK Gen.Cfg4.cfg = true := by decide +kernel
theorem noPyOK_cfg5 : NoPyOK Gen.Cfg5.cfg = true := by decide +kernel
theorem noPyOK_cfg6 : NoPyOK Gen.Cfg6.cfg = true := by decide +kernel
theorem noPyOK_cfg7 : NoPyOK Gen.Cfg7.cfg = true := by decide +kernel
/-- the configuration `SQLParser` uses (`config.py`) -/
theorem noPyOK_shipped : NoPyOK Gen.cfgS = true := noPyOK_cfg7
end Oblig
