import MsqModel.Gen.LexCfg3
/-! table obligation for option setting 3 (4·IGNORE_SPACE + 2·IGNORE_LINEBREAK + IGNORE_COMMENT), re-checked by the
kernel against the regenerated table and certificates on every run -/
namespace Oblig
open Lex
theorem tableOK_cfg3 : TableOK Gen.Cfg3.cfg Gen.Cfg3.advSt Gen.Cfg3.wk = true := by decide +kernel
theorem depth_cfg3 : Gen.Cfg3.cfg.depthLimit ≤ 1 := by decide
theorem summarizable_cfg3 : Gen.allCls.all (fun c => (summarize (Gen.Cfg3.cfg.code c)).isSome) = true := by decide
end Oblig
