import MsqModel.Lex.Spec
import MsqModel.Gen.LexCfg7
/-! C05 table obligation for option setting 7 (4·IGNORE_SPACE + 2·IGNORE_LINEBREAK + IGNORE_COMMENT): every cell of the
regenerated table — all probe codes of every row, the default rows, the end-of-text rows — equals the specification
automaton `Spec.cellD 7`; re-checked by the kernel on every run -/
namespace Oblig
theorem specAgree_cfg7 : Spec.agreeFin Gen.Cfg7.cfg 7 = true := by decide +kernel
end Oblig
