import MsqModel.Gen.LexCfg4
/-! table obligation for option setting 4 (4·IGNORE_SPACE + 2·IGNORE_LINEBREAK + IGNORE_COMMENT), re-checked by the
kernel against the regenerated table and certificates on every run -/
namespace Oblig
open Lex
theorem tableOK_cfg4 : TableOK Gen.Cfg4.cfg Gen.Cfg4.advSt Gen.Cfg4.wk = true := by decide +kernel
theorem depth_cfg4 : Gen.Cfg4.cfg.depthLimit ≤ 1 := by decide
theorem summarizable_cfg4 : Gen.allCls.all (fun c => (summarize (Gen.Cfg4.cfg.code c)).isSome) = true := by decide
end Oblig
