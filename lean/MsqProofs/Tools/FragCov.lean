import MsqProofs.Props.C03RL
import MsqProofs.Props.C03R3
import MsqProofs.Props.C03RL2
/-!
# Theorem coverage of a stream of texts (run with `lake env lean --run MsqProofs/Tools/FragCov.lean < lines`)

One request per line: `<dialect> <hex of UTF-8 text>`.  The text is parsed by the parser model; for every statement the answer says whether the
HYPOTHESES of the registered theorems hold of the parsed tree — they are decidable `Bool`s:

* `T` token level: `TR.FragAny d s` — then `C03.tstatement_any` / `C01.statement_round_trip_tokens_any` apply to the tree: its token rendering parses back to it;
* `X` text level: additionally `printableAny`, `leafAnyB` (payload conditions) and the dialect pre-pass leaving the printed text alone — then
  `C03.tstatement_any_text` / `C01.statement_round_trip_text_any` apply: the PRINTED TEXT of the tree parses back to it and prints again to the same text.

* `U` token level by the THIRD fragment only: not `TR.FragAny`, but `TR3.FragAny d s` (back-quoted aliases, decimal / hexadecimal / bit literals:
  Props/C03R3.lean) — then `C03.tstatement_any3` / `C03.tstatement_union3` / `C01.statement_round_trip_tokens_any3` apply.  `X`, `T` keep their
  meaning; the old `-` (outside `TR.FragAny`) is `U` + `-`.  A statement in `TR.FragAny` and outside `TR3.FragAny` would contradict the (unproved)
  inclusion: it is answered `M` (never seen).

* `Y` text level by the WEAKER decidable payload condition only: `leafAnyB` fails, `C03.AnyText.leafAnyB2` holds (Props/C03RL2.lean: a back-quoted
  column name need not be a plain name) — `C01.statement_round_trip_text_any_B2` applies.  `X` keeps its meaning (by `leafAnyB`); the old `T` is `T` + `Y`.

So for an accepted input whose tree answers `X`, the round trip of C01 is a theorem (about the models), not a test.  The harness reports the fractions.
This is a measurement tool, not part of any proof. -/
open Lex PM Ast

def hexVal (c : Char) : Nat := if c.isDigit then c.toNat - 48 else if c ≥ 'a' && c ≤ 'f' then c.toNat - 87 else 0
def unhexBytes (s : String) : ByteArray := Id.run do
  let cs := s.toList
  let mut out := ByteArray.empty
  let mut i := 0
  let arr := cs.toArray
  while i + 1 < arr.size do
    out := out.push (UInt8.ofNat (hexVal arr[i]! * 16 + hexVal arr[i+1]!))
    i := i + 2
  return out
def unhexText (s : String) : List Char := if s == "-" then [] else (String.fromUTF8! (unhexBytes s)).toList

def kindOf : Stmt → String
  | .select _ => "select" | .insertValues .. => "insertValues" | .insertSelect .. => "insertSelect" | .update .. => "update" | .delete .. => "delete"
  | .createTable _ => "createTable" | .createTableAs .. => "createTableAs" | .alter .. => "alter" | .analyze .. => "analyze" | .set _ => "set"
  | .dropTable .. => "dropTable" | .truncate _ => "truncate" | .msck _ => "msck" | .use _ => "use" | .showColumns .. => "showColumns" | _ => "other"

def judge (d : Gen.D) (s : Stmt) : String :=
  let t := TR.FragAny d s
  let x := t && LL2.Any.printableAny d s && C03.AnyText.leafAnyB d s &&
    (match PR.prStmt d s with | .ok str => dialectPre d str.toList == str.toList | .error _ => false)
  let u := TR3.FragAny d s
  let y := t && LL2.Any.printableAny d s && C03.AnyText.leafAnyB2 d s &&
    (match PR.prStmt d s with | .ok str => dialectPre d str.toList == str.toList | .error _ => false)
  kindOf s ++ ":" ++ (if t && !u then "M" else if x then "X" else if y then "Y" else if t then "T" else if u then "U" else "-")

def respond (line : String) : String :=
  match line.splitOn " " with
  | [dn, h] =>
    (match Gen.D.ofName? dn with
     | none => "BADREQ"
     | some d => match PM.parseStatementsText d (unhexText h) with
       | .ok ss => "OK " ++ " ".intercalate (ss.map (judge d))
       | .error e => "REJ " ++ e.show.replace " " "_")
  | _ => "BADREQ"

partial def loop (i o : IO.FS.Stream) : IO Unit := do
  let line ← i.getLine
  if line.isEmpty then return ()
  o.putStrLn (respond (String.ofList (line.toList.filter (fun c => c != '\n' && c != '\r'))))
  loop i o

def main : IO Unit := do loop (← IO.getStdin) (← IO.getStdout)
