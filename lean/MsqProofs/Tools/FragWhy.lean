import MsqProofs.Props.C03RL
import MsqProofs.Props.C03R3
import MsqProofs.Props.C03RL2
/-!
# Why is a statement outside the fragments?  (run with `lake env lean --run MsqProofs/Tools/FragWhy.lean < lines`)

Sibling of `FragCov.lean` (same request lines `<dialect> <hex of UTF-8 text>`).  For every statement of the parsed text the answer names
EVERY condition of `TR.FragAny` (token level) that fails somewhere in the tree — a mirror of the Bool fragment definitions (`TQ2.FragE4` /
`FragS4` / `FragQ2`, `TDM2.FragStmt`, `TR.FragRest`, `TD.FragCreate`) that returns reasons instead of `false` — and, for the text level,
the payload (leaf) conditions, `printableAny` and the pre-pass condition.  The mirror is CHECKED against the definitions on every statement:
`reasons = [] ↔ FragAny d s`, otherwise the answer carries `MISMATCH`.

The verdict letter is that of Tools/FragCov.lean: `X` text level, `T` token level (`TR.FragAny`), `U` outside `TR.FragAny` but in the third
fragment `TR3.FragAny` (Props/C03R3.lean), `-` outside all, `Y` text level by the weaker payload condition `leafAnyB2` only (Props/C03RL2.lean; reasons then name what `leafAnyB` rejects), `M` in `TR.FragAny` and outside the third (contradicts the unproved inclusion).
The reasons always refer to the REGISTERED fragment `TR.FragAny`.

Answer: `OK <kind>:<X|T|U|-|M>:<reason>|<reason>|… …` (reasons are `node.condition[=detail]`, blanks replaced by `_`).
A measurement tool, not part of any proof. -/
open Lex PM Ast TP TP2 TS

namespace FW
abbrev R := List String
def ck (b : Bool) (m : String) : R := if b then [] else [m]
def litShape (v : String) : String :=
  let cs := v.toList
  if cs.all (fun c => c.isDigit || c == '.') && cs.any (· == '.') then "decimal"
  else if cs.any (fun c => c == 'e' || c == 'E') && cs.all (fun c => c.isDigit || c == '.' || c == 'e' || c == 'E' || c == '-' || c == '+') then "float-exp"
  else if v.startsWith "0x" || v.startsWith "0X" || v.startsWith "x'" || v.startsWith "X'" then "hex"
  else if v.startsWith "0b" || v.startsWith "b'" || v.startsWith "B'" then "bit"
  else if cs.head? == some '-' then "negative"
  else if (Gen.wordMarks.find? (·.1 == up v)).isSome then "word=" ++ up v
  else if cs.head?.any Char.isAlpha then "word-other=" ++ up v
  else "other"
def exprKind : Expr → String
  | .column .. => "column" | .literal _ => "literal" | .wildcard _ => "wildcard" | .func .. => "func" | .agg .. => "agg" | .cast .. => "cast"
  | .extract .. => "extract" | .window .. => "window" | .caseCond .. => "caseCond" | .caseVal .. => "caseVal" | .subValue _ => "subValue"
  | .subQuery _ => "subQuery" | .exists_ _ => "exists" | .index .. => "index" | .unary .. => "unary" | .compute .. => "compute" | .kw .. => "kw"
  | .between .. => "between" | .compare .. => "compare" | .not_ _ => "not" | .and_ .. => "and" | .xor .. => "xor" | .or_ .. => "or" | .mybatis _ => "mybatis"

def whyNm (d : Gen.D) (w : String) (t : Tok) (n : String) : R :=
  ck (elemTok d t) (w ++ ".name-is-operand-word") ++ ck (hdTok t) (w ++ ".name-is-WHEN/DISTINCT/SELECT/WITH") ++ ck (t.has NAME) (w ++ ".name-no-NAME-mark") ++
  ck (!t.has LITERAL) (w ++ ".name-has-LITERAL-mark") ++ ck (!t.srcEqUp "CASE" && !t.srcEq "*") (w ++ ".name-is-CASE/*") ++
  ck (unifyName t.src == n) (w ++ ".name-not-read-back") ++ ck (!t.equalsStr "," && !t.equalsStr ".") (w ++ ".name-is-comma/dot")
def whyCol (d : Gen.D) (c : String) : R :=
  if colOK d c then [] else
    ck (unifyName (nameTok c).src == c) "column.name-not-read-back(back-quote-inside?)" ++ ck (elemTok d (nameTok c)) "column.name-is-operand-word" ++
    ck (!(nameTok c).srcEqUp "CASE" && !(nameTok c).srcEq "*") "column.name-is-CASE/*"
def whyFn (d : Gen.D) (w : String) (s : Option String) (n : String) : R :=
  if fnOK d s n then [] else
    ck (fnNameOK n) (w ++ ".name-is-special(CAST/EXTRACT/IF/SUBSTRING/aggregate)=" ++ up n) ++
    (match s with
     | none => whyNm d w (qTok n) n ++ ck (isOkNoneS (splitName (qTok n).src) n) (w ++ ".name-splits(dot-inside)")
     | some s => whyNm d (w ++ ".schema") (nameTok s) s ++ ck (nm2OK (qTok n) n) (w ++ ".qualified-name-not-read-back"))
def whyAgg (d : Gen.D) (n : String) : R :=
  if aggOK d n then [] else
    ck (Gen.aggNames.contains (up n)) "agg.name-not-in-table" ++ whyNm d "agg" (opTok n) n ++ ck (isOkNoneS (splitName (opTok n).src) n) "agg.name-splits"
def whyAlias (w : String) : Option String → R
  | none => []
  | some a => ck (aliasOK a) (w ++ ".alias-not-bare-name(quoted/keyword)")
def whyLimit (lm : Option (Int × Option Int)) : R := ck (limitOK lm) "limit.not-a-read-back-integer"
def whyTbl (w : String) (s : Option String) (n : String) : R := ck (TQ.tblOK s n) (w ++ ".table-name-not-read-back(dot/back-quote/join-word)")

mutual
partial def whyE (d : Gen.D) : Expr → R
  | .column none c => whyCol d c
  | .column (some t) c => ck (qcolOK d t c) "qcolumn.name"
  | .literal v => if litOK d v then [] else
      (if !(litTok v).has LITERAL then ["literal.no-LITERAL-mark=" ++ litShape v] else ["literal.is-operator-word=" ++ litShape v])
  | .wildcard none => []
  | .wildcard (some t) => ck (wildOK d t) "wildcard.table-name"
  | .func s n ps => (if TQ2.ifOK d s n then [] else whyFn d "func" s n) ++ whyL d ps
  | .agg n ps _ => whyAgg d n ++ whyL d ps
  | .cast e _ ty ps => whyE d e ++ ck (TQ2.castTyOK ty) ("cast.type-not-read-back=" ++ ty) ++ ck (TQ2.castParamsOK ps) "cast.params"
  | .extract n e => whyE d n ++ whyE d e
  | .window fn part ord rows =>
      (match fn with
       | .func none n ps => whyFn d "window.fn" none n ++ whyL d ps
       | .func (some s) n ps => ["window.fn-schema-qualified"] ++ whyFn d "window.fn" (some s) n ++ whyL d ps
       | .agg n ps _ => whyAgg d n ++ whyL d ps
       | e => ["window.fn-is-" ++ exprKind e]) ++ whyL d part ++ whyOrdL d "window.order" ord ++ ck (TQ2.rowsOK rows) "window.rows-bound"
  | .index a i =>
      (match a with
       | .column none c => whyCol d c
       | .column (some t) c => ck (qcolOK d t c) "qcolumn.name"
       | .func none n ps => whyFn d "index.base-fn" none n ++ whyL d ps
       | e => ["index.base-is-" ++ exprKind e] ++ whyE d e) ++ whyE d i
  | .caseCond cs els => whyA d cs ++ whyO d els ++ ck (!cs.isEmpty) "case.no-arm"
  | .caseVal v cs els => whyE d v ++ whyA d cs ++ whyO d els ++ ck (!cs.isEmpty) "case.no-arm"
  | .subValue vs => ["subValue.outside-IN(row/tuple-or-bracketed-list)=" ++ toString vs.length] ++ whyL d vs
  | .subQuery q => whyQ d q
  | .exists_ v => (match v with | .subQuery q => whyQ d q | e => ["exists.operand-is-" ++ exprKind e] ++ whyE d e)
  | .unary o e => ck (unOK d o) ("unary.op=" ++ o) ++ whyE d e
  | .compute l o r => ck (binOK d o) ("compute.op=" ++ o) ++ whyE d l ++ whyE d r
  | .kw k _ l r =>
      whyE d l ++ (if k == .in_ then
        (match r with
         | .subValue vs => whyL d vs ++ ck (!vs.isEmpty) "in.empty-list" ++ ck (TQ2.shortL4 vs) "in.value>20-top-level-tokens"
         | .subQuery q => whyQ d q
         | e => ["in.rhs-is-" ++ exprKind e] ++ whyE d e)
        else whyE d r) ++ ck (!TQ.isExists l) "kw.left-is-EXISTS"
  | .between _ b f t => whyE d b ++ whyE d f ++ whyE d t ++ ck (!TQ.isExists b) "between.left-is-EXISTS"
  | .compare o l r => ck (cmpOK d o) ("compare.op=" ++ o) ++ whyE d l ++ whyE d r ++ ck (!TQ.isExists l) "compare.left-is-EXISTS"
  | .not_ e => whyE d e
  | .and_ l r => whyE d l ++ whyE d r
  | .xor l r => whyE d l ++ whyE d r
  | .or_ l r => whyE d l ++ whyE d r
  | .mybatis _ => ["mybatis.param"]
partial def whyL (d : Gen.D) : List Expr → R
  | [] => []
  | a :: as => whyE d a ++ whyL d as
partial def whyA (d : Gen.D) : List (Expr × Expr) → R
  | [] => []
  | (w, t) :: r => whyE d w ++ whyE d t ++ whyA d r
partial def whyO (d : Gen.D) : Option Expr → R
  | none => []
  | some y => whyE d y
partial def whyOrdL (d : Gen.D) (w : String) : List OrderItem → R
  | [] => []
  | .mk e _ nf nl :: os => whyE d e ++ ck (!(nf && nl)) (w ++ ".NULLS-FIRST-and-LAST") ++ whyOrdL d w os
partial def whyOrder (d : Gen.D) (w : String) : Option (List OrderItem) → R
  | none => []
  | some [] => [w ++ ".empty"]
  | some os => whyOrdL d w os
partial def whyBy (d : Gen.D) (w : String) : Option (List Expr) → R
  | none => []
  | some [] => [w ++ ".empty"]
  | some es => whyL d es
partial def whyQ (d : Gen.D) : Query → R
  | .single s => whyS d s
  | .union ws s us =>
      (match ws with | some [] => [] | some l => ["query.WITH-inside-nested-query"] ++ l.flatMap (fun w => match w with | .mk _ q => whyQ d q) | none => ["union.withs=None"]) ++ whyS d s ++ whyUn d us ++ ck (!us.isEmpty) "union.empty"
partial def whyUn (d : Gen.D) : List (String × Select) → R
  | [] => []
  | (t, s) :: r => ck (TQ2.unionTyOK4 d t) ("union.type=" ++ t) ++ whyS d s ++ whyUn d r
partial def whyRef (d : Gen.D) : TableRef → R
  | .table s n => whyTbl "from" s n
  | .sub q => whyQ d q
partial def whyTable (d : Gen.D) : FromTable → R
  | .mk r a => whyRef d r ++ whyAlias "from" a
partial def whyS (d : Gen.D) : Select → R
  | .mk ws dist cols fr lats js wh gb hv ob sb db cb lm =>
      (match ws with | some [] => [] | some l => ["query.WITH-inside-nested-query"] ++ l.flatMap (fun w => match w with | .mk _ q => whyQ d q) | none => ["select.withs=None"]) ++
      cols.flatMap (fun c => whyE d c.1 ++ whyAlias "select" c.2) ++ ck (!cols.isEmpty) "select.no-column" ++
      (match fr with | none => [] | some [] => ["from.empty"] | some ts => ts.flatMap (whyTable d)) ++
      lats.flatMap (fun l => match l with
        | .mk _ fn _ as =>
          (match fn with
           | .func none n ps => whyFn d "lateral.fn" none n ++ ck (!(qTok n).srcEqUp "OUTER") "lateral.fn-named-OUTER" ++ whyL d ps
           | e => ["lateral.fn-is-" ++ exprKind e ++ "/qualified"]) ++ ck (TQ2.aliasesOK as) "lateral.aliases(none-or-not-read-back)") ++
      js.flatMap (fun j => match j with
        | .mk ty t rule => ck (TQ2.joinTyOK4 d ty) ("join.type=" ++ ty) ++ whyTable d t ++
          (match rule with
           | none => []
           | some (.on e) => whyE d e
           | some (.using u) => if TQ2.usingOK4 d u then [] else
               (match u with
                | .func none n ps => whyFn d "using" none n ++ ck ((qTok n).srcEqUp "USING" && stopTok d 14 (qTok n)) "using.word" ++ whyL d ps
                | e => ["using.is-" ++ exprKind e]))) ++
      whyO d wh ++
      (match gb with
       | none => []
       | some (.mk [] (some l) _ _) => l.flatMap (whyL d)
       | some (.mk (e :: es) sets _ _) =>
           whyE d e ++ whyL d es ++ ck (!searchStrUp (wrapT (noX e) e 8 (TQ2.toksE4 d noX e)) "GROUPING") "group.first-key-contains-GROUPING" ++
           (match sets with | some l => l.flatMap (whyL d) | none => [])
       | some (.mk [] none _ _) => ["group.no-key"]) ++
      whyO d hv ++ whyOrder d "order" ob ++ whyOrder d "sort" sb ++ whyBy d "distribute" db ++ whyBy d "cluster" cb ++ whyLimit lm ++
      ck (dist || !searchStrUp (TQ2.toksCols4 d noX cols) "DISTINCT") "select.top-level-DISTINCT-word-in-columns"
end

def whyTblD (w : String) (t : TableName) : R :=
  whyTbl w t.schema t.name ++ ck (!(TQ.tblTok t.schema t.name).srcEqUp "TABLE") (w ++ ".table-named-TABLE")
def whyWiths (d : Gen.D) : Option (List WithTable) → R
  | none => ["with.withs=None"]
  | some ws => ws.flatMap (fun w => match w with | .mk n q => ck (unifyName (qTok n).src == n) "with.name-not-read-back" ++ whyQ d q)
def whyPart (d : Gen.D) : Option (List Expr) → R
  | none => []
  | some es => if TDM2.partOK d (some es) then [] else
      (let r := whyL d es
       if r.isEmpty then ["partition.mixed-or-item-level(static k=v / dynamic ≤ level 8)"] else r)
def whyHead (d : Gen.D) (h : InsertHead) : R :=
  whyWiths d h.withs ++ ck (TDM2.insertTyOK h.type) ("insert.type=" ++ h.type) ++ whyTblD "insert" h.table ++ whyPart d h.partition ++
    ck (TDM2.colNamesOK h.columns) "insert.column-names"
def whySel (d : Gen.D) (q : Query) : R :=
  if TQ2.FragQ2 d q then [] else whyWiths d (TDM2.withsOf q) ++ whyQ d (TDM2.stripW q)
def whyDefCol (d : Gen.D) (c : DefCol) : R :=
  if TD.colOK d c then [] else
    ck (TD.nameOK c.name) "createTable.column-name" ++ ck (TD.typeOK d c.type) "createTable.column-type-not-read-back" ++
    (if d == .MYSQL then
      ck (TD.optFragE d c.default && TD.optFragE d c.onUpdate) "createTable.DEFAULT/ON-UPDATE-expression-outside-the-small-fragment(CURRENT_TIMESTAMP,decimal,call…)" ++
      ck (TD.genOK d c.generated) "createTable.GENERATED-expression-or-mode"
     else ["createTable.MySQL-column-attribute-in-a-dialect-whose-printer-drops-it"])
def whyCreate (d : Gen.D) (c : CreateTable) : R :=
  if TD.FragCreate d c then [] else
    let r := ck (TD.tblOK c.table) "createTable.table-name" ++ c.columns.flatMap (whyDefCol d) ++ c.partitionedBy.flatMap (whyDefCol d) ++
      (if d == .MYSQL then
        ck (c.partitionedBy.isEmpty && c.rowFormatSerde.isNone && c.rowFormatDelimited.isNone && c.storedAsInputformat.isNone &&
          !c.storedAsTextfile && c.outputformat.isNone && c.location.isNone && c.tblproperties.isEmpty) "createTable.Hive-option-in-MySQL(printer-drops-it)" ++
        ck (c.foreignKey.all TD.fkOK) "createTable.foreign-key" ++
        ck (TD.optIdxOK c.primaryKey && c.uniqueKey.all (TD.idxOK .unique) && c.key.all (TD.idxOK .normal) && c.fulltextKey.all (TD.idxOK .fulltext)) "createTable.key"
       else
        ck (c.foreignKey.isEmpty && c.primaryKey.isNone && c.uniqueKey.isEmpty && c.key.isEmpty && c.fulltextKey.isEmpty && c.engine.isNone && c.autoIncrement.isNone &&
          c.defaultCharset.isNone && c.collate.isNone && c.rowFormat.isNone && c.statesPersistent.isNone) "createTable.MySQL-key/option-in-Hive(printer-drops-it)")
    if r.isEmpty then ["createTable.other(segments/option-values)"] else r

def whyStmt (d : Gen.D) : Stmt → R
  | .select q => whySel d q
  | .insertValues h vs => whyHead d h ++ vs.flatMap (whyL d)
  | .insertSelect h q => whyHead d h ++ whyQ d q
  | .update ws t sets wh ob lm =>
      whyWiths d ws ++ whyTblD "update" t ++ ck (!sets.isEmpty) "update.no-assignment" ++
      sets.flatMap (fun p => ck (unifyName (nameTok p.1).src == p.1) "update.column-not-read-back" ++ whyE d p.2) ++ whyO d wh ++ whyOrder d "order" ob ++ whyLimit lm
  | .delete t wh ob lm => whyTblD "delete" t ++ whyO d wh ++ whyOrder d "order" ob ++ whyLimit lm
  | .createTable c => whyCreate d c
  | .createTableAs t _ q => whyTblD "ctas" t ++ (if TR.selOK d q then [] else whySel d q)
  | .showColumns fr wh => fr.flatMap (whyTable d) ++ ck (!fr.isEmpty) "from.empty" ++ whyO d wh
  | .alter t ops => whyTblD "alter" t ++ ck (!ops.isEmpty) "alter.no-op" ++ ops.flatMap (fun o => ck (TR.alterOpOK d o) "alter.op")
  | .analyze t p fc cm ns => whyTblD "analyze" t ++
      (if d == .HIVE then whyPart d p else ck (p.isNone && !fc && !cm && !ns) "analyze.hive-clauses-in-other-dialect")
  | .set c => ck (TR.cfgOK c.name && TR.cfgOK c.value) "set.config-string"
  | .dropTable _ t => whyTblD "drop" t
  | .truncate t => whyTblD "truncate" t
  | .msck t => whyTblD "msck" t
  | s => ck (TR.FragAny d s) "other.statement-class"

open C03.Q2Text C03.AnyText LL2 in
def leafWhy (d : Gen.D) (s : Stmt) : R :=
  if leafAnyB d s then [] else
    let ls : List Leaf2 := match s with
      | .createTableAs _ _ q => LL2.Any.leavesStmt (.select q)
      | .showColumns fr wh => leavesTables4 fr ++ leavesO4 wh
      | .analyze _ p _ _ _ => LL2.Any.leavesPart p
      | s => LL2.Any.leavesStmt s
    let bad := ls.filter (fun x => !leafOK2B d x)
    let r := bad.map (fun x => match x with
      | .old (.col none c) => "leaf.column=" ++ c
      | .old (.col (some t) c) => "leaf.qcolumn=" ++ t ++ "." ++ c
      | .old (.lit v) => "leaf.literal(" ++ (if v.toList.head? == some '\'' then "string" else if v.toList.head? == some '"' then "dq-string" else litShape v) ++ ")"
      | .old (.wild t) => "leaf.wild=" ++ t
      | .old (.fn _ n) => "leaf.fn=" ++ n
      | .old (.agg n) => "leaf.agg=" ++ n
      | .old (.alias a) => "leaf.alias=" ++ a
      | .old (.tbl _ n) => "leaf.table=" ++ n
      | .guard _ => "leaf.guard")
    if r.isEmpty then ["leaf.statement-class-condition"] else r
end FW

def hexVal (c : Char) : Nat := if c.isDigit then c.toNat - 48 else if c ≥ 'a' && c ≤ 'f' then c.toNat - 87 else 0
def unhexBytes (s : String) : ByteArray := Id.run do
  let arr := s.toList.toArray
  let mut out := ByteArray.empty
  let mut i := 0
  while i + 1 < arr.size do
    out := out.push (UInt8.ofNat (hexVal arr[i]! * 16 + hexVal arr[i+1]!))
    i := i + 2
  return out
def unhexText (s : String) : List Char := if s == "-" then [] else (String.fromUTF8! (unhexBytes s)).toList

def kindOf : Stmt → String
  | .select _ => "select" | .insertValues .. => "insertValues" | .insertSelect .. => "insertSelect" | .update .. => "update" | .delete .. => "delete"
  | .createTable _ => "createTable" | .createTableAs .. => "createTableAs" | .alter .. => "alter" | .analyze .. => "analyze" | .set _ => "set"
  | .dropTable .. => "dropTable" | .truncate _ => "truncate" | .msck _ => "msck" | .use _ => "use" | .showColumns .. => "showColumns" | _ => "other"

def dedup (l : List String) : List String := l.foldl (fun acc x => if acc.contains x then acc else acc ++ [x]) []

def sane (r : String) : String :=
  String.ofList (r.toList.map fun c => if c == ' ' then '_' else if c == ':' then ';' else if c == '|' then '/' else if c.toNat < 33 || c.toNat > 126 then '?' else c)

def judge (d : Gen.D) (s : Stmt) : String :=
  let t := TR.FragAny d s
  let why := dedup (FW.whyStmt d s)
  let pre := match PR.prStmt d s with | .ok str => dialectPre d str.toList == str.toList | .error _ => false
  let x := t && LL2.Any.printableAny d s && C03.AnyText.leafAnyB d s && pre
  let rs : List String :=
    if !t then (if why.isEmpty then ["MISMATCH-no-reason"] else why)
    else (if why.isEmpty then [] else ["MISMATCH-reason-in-fragment"] ++ why) ++
      (if x then [] else
        FW.ck (LL2.Any.printableAny d s) "text.not-printable-in-dialect" ++ dedup (FW.leafWhy d s) ++
        (match PR.prStmt d s with | .ok _ => FW.ck pre "text.pre-pass-changes-printed-text" | .error _ => ["text.printer-refuses"]))
  let u := TR3.FragAny d s
  let y := t && LL2.Any.printableAny d s && C03.AnyText.leafAnyB2 d s && pre
  kindOf s ++ ":" ++ (if t && !u then "M" else if x then "X" else if y then "Y" else if t then "T" else if u then "U" else "-") ++ ":" ++ ("|".intercalate (rs.map sane))

def respond (line : String) : String :=
  match line.splitOn " " with
  | [dn, h] =>
    (match Gen.D.ofName? dn with
     | none => "BADREQ"
     | some d => match PM.parseStatementsText d (unhexText h) with
       | .ok ss => "OK " ++ " ".intercalate (ss.map (judge d))
       | .error e => "REJ " ++ e.show.replace " " "_")
  | _ => "BADREQ"

partial def loop (i o : IO.FS.Stream) : IO Unit := do
  let line ← i.getLine
  if line.isEmpty then return ()
  o.putStrLn (respond (String.ofList (line.toList.filter (fun c => c != '\n' && c != '\r'))))
  loop i o

def main : IO Unit := do loop (← IO.getStdin) (← IO.getStdout)
