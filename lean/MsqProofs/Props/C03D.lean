import MsqProofs.Lemmas.TDml4
import MsqProofs.Lemmas.TDml6
import MsqProofs.Props.C10
import MsqModel.Driver.ShowVal
/-!
# C03 / C01 — T-parse for data-change statements: INSERT, UPDATE, DELETE, and WITH in front of queries, INSERT and UPDATE

Built on `C03.tquery` (Props/C03Q.lean): expressions are those of `TQ.FragE3`, queries those of `TQ.FragQ` (both closed under nesting).

**Fragment** `TDM.FragStmt d s` (a `Bool` over the model's `Ast.Stmt`, Lemmas/TDml0.lean):
* `DELETE FROM t [WHERE e] [ORDER BY k [DESC], …] [LIMIT n | LIMIT m, n]` — `t` plain or schema-qualified (`` `s.n` ``, `TDM.tblOKD`);
* `[WITH …] UPDATE t SET c = e, … [WHERE] [ORDER BY] [LIMIT]` — one or more assignments, any fragment expression on the right;
* `[WITH …] INSERT INTO | INSERT IGNORE INTO | INSERT OVERWRITE  [TABLE]  t  [PARTITION (…)]  [(c, t.c, …)]  VALUES (v, …), …` — every
  kind of `_parse_insert_type`; PARTITION with static items `k = v` (key and value below the comparison level) or dynamic items `k`
  (the parser refuses a list that mixes the two kinds, `parser.py:1600` — the fragment follows it); any number of rows, any number of
  values per row, every value a fragment expression (bracketed above the compute level, as `ASTSubValueExpression.source` prints it);
* `[WITH …] INSERT … <fragment query>` (the query itself carries the empty WITH clause, as `_parse_insert_statement` hands it down);
* `[WITH name AS (q), …] <fragment query>` — the clause is recorded on the single SELECT, or once on the union;
  `WITH` tables: any number, each body a fragment query (non-recursive), the name bare or back-quoted as `quote_name_if_needed` prints it.
Not covered: the other statement kinds (DDL: another development), the restrictions of `FragE3` / `FragQ`, mixed PARTITION lists
(refused by the implementation), a WITH clause inside a sub-query or a WITH body.

**Token-level printer** `TDM.toksStmt d s` (= `toksStmtG d noX (d == .HIVE) s`): `PR.prStmt` as tokens; `#guard`s below check
`lex (prStmt d s) = toksStmt d s` in several dialects.  `toksStmtG d ch tb`: with redundant brackets `ch` inside expressions and the
optional word `TABLE` present or not whatever the dialect.

**Theorems** (every dialect; `rest` with `TDM.stopsStmt d rest`: empty, or a head that continues nothing — e.g. `;`):
* `C03.tstatement` : `FragStmt d s → stopsStmt d rest → 20 * sizeL (toksStmt d s) + 16 ≤ fuel →
  pStatement d fuel (toksStmt d s ++ rest) = ok (s, rest)`; `tstatement_ch` (any `ch` with `ChOK`, any `tb`);
  `tstatement_entry_fuel` (the entry points' fuel dominates the bound);
* `C03.tinsert` / `tinsert_query` / `tupdate` / `tdelete` / `twith_query` : the instances by statement kind;
* `C03.tscript` : a list of fragment statements separated by `;` (with or without a final `;`) through `pStatements`
  (= `parse_statements` on tokens: `statementsLoop`, entry fuel) — by `C10.script_concat_entry`; `tscript_loop` : the loop with explicit fuels;
* slot corollaries `C03.insert_slots`, `update_assignments`, `delete_filter`; `C03.rendering_determines_statement`;
* `C01.dml_round_trip_tokens` : print tokens → parse → the same tree → the same tokens;
* `C08.dml_accounted` : the rendering reads as grammar words (`TDM.KWL`: the words and operator spellings the printers emit) interleaved
  with EXACTLY the strings stored in the tree (`TDM.leaves s`, defined on the tree, in print order) — relation `TDM.Acc`; hence
  `C08.dml_parse_accounted` (what `pStatement` returns from the rendering stores exactly the non-grammar tokens), `dml_tokens_stored`,
  `dml_stored_tokens`, `dml_none_lost` (the unfolded forms: every token is a grammar word or spells a stored string; every stored string is
  spelled by a token; the non-grammar tokens are matched one-to-one).
-/
set_option linter.unusedVariables false
set_option linter.unusedSimpArgs false
open Lex PM Ast TP TP2 TS TQ TDM

namespace C03
/-- **T-parse, statements.**  One iteration of the loop of `parse_statements` on the token rendering of a fragment statement — DELETE,
UPDATE, INSERT … VALUES, INSERT … query, a query, the last four with an optional WITH clause — returns exactly that statement, in front
of every continuation that continues nothing, at every fuel above an explicit linear bound -/
theorem tstatement (d : Gen.D) (s : Stmt) (hs : FragStmt d s = true) (rest : List Tok) (hr : stopsStmt d rest = true)
    (fuel : Nat) (hfuel : 20 * sizeL (toksStmt d s) + 16 ≤ fuel) : pStatement d fuel (toksStmt d s ++ rest) = .ok (s, rest) :=
  stmt_ok chOK_noX (d == .HIVE) s hs rest hr fuel hfuel
/-- the same with redundant brackets inside expressions (`ch`) and the optional word `TABLE` written (`tb = true`) or not, in any dialect -/
theorem tstatement_ch (d : Gen.D) (ch : Expr → Bool) (hch : ChOK d ch) (tb : Bool) (s : Stmt) (hs : FragStmt d s = true)
    (rest : List Tok) (hr : stopsStmt d rest = true) (fuel : Nat) (hfuel : 20 * sizeL (toksStmtG d ch tb s) + 16 ≤ fuel) :
    pStatement d fuel (toksStmtG d ch tb s ++ rest) = .ok (s, rest) :=
  stmt_ok hch tb s hs rest hr fuel hfuel
/-- the fuel the public entry points compute from the token list dominates the bound -/
theorem tstatement_entry_fuel (d : Gen.D) (s : Stmt) (hs : FragStmt d s = true) (rest : List Tok) (hr : stopsStmt d rest = true) :
    pStatement d (fuelFor (toksStmt d s ++ rest)) (toksStmt d s ++ rest) = .ok (s, rest) :=
  tstatement d s hs rest hr _ (by simp only [fuelFor, sizeL_append]; omega)

/-- INSERT … VALUES: kind, target, PARTITION, column list, rows -/
theorem tinsert (d : Gen.D) (h : InsertHead) (rows : List (List Expr)) (hs : FragStmt d (.insertValues h rows) = true)
    (rest : List Tok) (hr : stopsStmt d rest = true) (fuel : Nat) (hfuel : 20 * sizeL (toksStmt d (.insertValues h rows)) + 16 ≤ fuel) :
    pStatement d fuel (toksStmt d (.insertValues h rows) ++ rest) = .ok (.insertValues h rows, rest) := tstatement d _ hs rest hr fuel hfuel
/-- INSERT … query -/
theorem tinsert_query (d : Gen.D) (h : InsertHead) (q : Query) (hs : FragStmt d (.insertSelect h q) = true)
    (rest : List Tok) (hr : stopsStmt d rest = true) (fuel : Nat) (hfuel : 20 * sizeL (toksStmt d (.insertSelect h q)) + 16 ≤ fuel) :
    pStatement d fuel (toksStmt d (.insertSelect h q) ++ rest) = .ok (.insertSelect h q, rest) := tstatement d _ hs rest hr fuel hfuel
theorem tupdate (d : Gen.D) (w : Option (List WithTable)) (t : TableName) (sets : List (String × Expr)) (wh : Option Expr)
    (ob : Option (List OrderItem)) (lm : Option (Int × Option Int)) (hs : FragStmt d (.update w t sets wh ob lm) = true)
    (rest : List Tok) (hr : stopsStmt d rest = true) (fuel : Nat) (hfuel : 20 * sizeL (toksStmt d (.update w t sets wh ob lm)) + 16 ≤ fuel) :
    pStatement d fuel (toksStmt d (.update w t sets wh ob lm) ++ rest) = .ok (.update w t sets wh ob lm, rest) := tstatement d _ hs rest hr fuel hfuel
theorem tdelete (d : Gen.D) (t : TableName) (wh : Option Expr) (ob : Option (List OrderItem)) (lm : Option (Int × Option Int))
    (hs : FragStmt d (.delete t wh ob lm) = true) (rest : List Tok) (hr : stopsStmt d rest = true)
    (fuel : Nat) (hfuel : 20 * sizeL (toksStmt d (.delete t wh ob lm)) + 16 ≤ fuel) :
    pStatement d fuel (toksStmt d (.delete t wh ob lm) ++ rest) = .ok (.delete t wh ob lm, rest) := tstatement d _ hs rest hr fuel hfuel
/-- `WITH name AS (q), … <query>`: the tables in order in the WITH slot of the query (`TDM.withsOf`), the query under it -/
theorem twith_query (d : Gen.D) (q : Query) (hs : FragStmt d (.select q) = true) (rest : List Tok) (hr : stopsStmt d rest = true)
    (fuel : Nat) (hfuel : 20 * sizeL (toksStmt d (.select q)) + 16 ≤ fuel) :
    pStatement d fuel (toksWiths d noX (withsOf q) ++ (toksQ d noX q ++ rest)) = .ok (.select q, rest) := by
  have := tstatement d (.select q) hs rest hr fuel hfuel
  simpa [toksStmt, toksStmtG] using this
/-- the same below the statement level: `_parse_select_statement` itself finds the WITH clause (the entry point `parse_select_statement`,
and what a bracketed sub-query position would call) -/
theorem twith_query_select (d : Gen.D) (q : Query) (hs : FragStmt d (.select q) = true) (rest : List Tok) (hr : stopsStmt d rest = true)
    (fuel : Nat) (hfuel : 20 * sizeL (toksStmt d (.select q)) + 16 ≤ fuel) :
    pSelectStmt d fuel none (toksWiths d noX (withsOf q) ++ (toksQ d noX q ++ rest)) = .ok (q, rest) := by
  simp only [FragStmt, Bool.and_eq_true] at hs
  obtain ⟨h0, hq⟩ := hs
  cases hw : withsOf q with
  | none => rw [hw] at h0; simp [withsOK] at h0
  | some ws =>
    rw [hw] at h0
    obtain ⟨x, hx⟩ := toksQ_head chOK_noX (stripW q) hq
    rw [toksQ_stripW] at hx
    simp only [toksStmt, toksStmtG, hw, sizeL_append] at hfuel
    obtain ⟨g, rfl⟩ : ∃ g, fuel = g + 1 := ⟨fuel - 1, by omega⟩
    have k := kw_body "SELECT" (by simp)
    have hp := with_ok chOK_noX ws h0 (toksQ d noX q ++ rest) (by simpa [hx, searchStr] using k.2.1) (by simpa [hx, searchStrUp] using k.2.2.1)
      g (by omega)
    simp only at hp
    -- the body after the clause: as in `pSelectStmt … (some ws)`, one unit of fuel lower
    have hb := query_ws chOK_noX ws (stripW q) hq rest hr (g + 1) (by rw [toksQ_stripW]; omega)
    simp only [toksQ_stripW, setQW_stripW q ws hw] at hb
    unfold pSelectStmt at hb ⊢
    simp only [hp]
    simpa using hb

/-! ### whole scripts -/
/-- **scripts.**  The token list `s₁ ; s₂ ; … ; sₙ [;]` of fragment statements parses, through `parse_statements`' loop with the entry
point's fuel, to `[s₁, …, sₙ]` -/
theorem tscript (d : Gen.D) (ss : List Stmt) (hss : ∀ s ∈ ss, FragStmt d s = true) (fin : Bool) :
    pStatements d (fuelFor (C10.script semiTok (ss.map (toksStmt d)) fin)) (C10.script semiTok (ss.map (toksStmt d)) fin) = .ok ss := by
  have h := C10.script_concat_entry PM.isSemi_lexed d (ss.map (fun s => (toksStmt d s, s))) (by
    intro p hp
    obtain ⟨s, hs, rfl⟩ := List.mem_map.1 hp
    have := tstatement_entry_fuel d s (hss s hs) [] rfl
    simpa using this) fin
  simpa [semiTok, List.map_map, Function.comp_def] using h
/-- the loop itself, explicit fuels: parser fuel above the bound of every statement, loop fuel above the number of statements -/
theorem tscript_loop (d : Gen.D) (ss : List Stmt) (hss : ∀ s ∈ ss, FragStmt d s = true) (fin : Bool)
    (f : Nat) (hf : ∀ s ∈ ss, 20 * sizeL (toksStmt d s) + 16 ≤ f) :
    ∃ g₀, ∀ g, g₀ ≤ g → statementsLoop d (f + 1) g [] (C10.script semiTok (ss.map (toksStmt d)) fin) = .ok ss := by
  obtain ⟨g₀, h⟩ := C10.script_concat PM.isSemi_lexed d (f := f) (f' := f + 1) (by omega) (ss.map (fun s => (toksStmt d s, s))) (by
    intro p hp
    obtain ⟨s, hs, rfl⟩ := List.mem_map.1 hp
    have := tstatement d s (hss s hs) [] rfl f (hf s hs)
    simpa using this) fin
  exact ⟨g₀, fun g hg => by simpa [semiTok, List.map_map, Function.comp_def] using h g hg⟩

/-! ### slots -/
def headOf : Stmt → Option InsertHead
  | .insertValues h _ => some h
  | .insertSelect h _ => some h
  | _ => none
def rowsOf : Stmt → List (List Expr)
  | .insertValues _ vs => vs
  | _ => []
/-- **INSERT: every clause lands in its slot** — the kind from the INSERT words, the target from the table token, the partition list from
the PARTITION group, the column list from its group, the rows from the VALUES list, the WITH tables from the leading clause -/
theorem insert_slots (d : Gen.D) (h : InsertHead) (rows : List (List Expr)) (hs : FragStmt d (.insertValues h rows) = true)
    (rest : List Tok) (hr : stopsStmt d rest = true) (fuel : Nat) (hfuel : 20 * sizeL (toksStmt d (.insertValues h rows)) + 16 ≤ fuel) :
    ∃ p, pStatement d fuel (toksWiths d noX h.withs ++ (insertWords h.type ++ ((if d == .HIVE then [opTok "TABLE"] else []) ++
        (tblTok h.table.schema h.table.name :: (toksPart d noX h.partition ++ (toksColNames h.columns ++ opTok "VALUES" :: (toksRows d noX rows ++ rest))))))) =
        .ok (p, rest) ∧
      (headOf p).map (·.type) = some h.type ∧ (headOf p).map (·.table) = some h.table ∧ (headOf p).map (·.partition) = some h.partition ∧
      (headOf p).map (·.columns) = some h.columns ∧ (headOf p).map (·.withs) = some h.withs ∧ rowsOf p = rows := by
  refine ⟨.insertValues h rows, ?_, rfl, rfl, rfl, rfl, rfl, rfl⟩
  have := tinsert d h rows hs rest hr fuel hfuel
  simpa [toksStmt, toksStmtG, toksTarget] using this
def setsOf : Stmt → List (String × Expr)
  | .update _ _ sets _ _ _ => sets
  | _ => []
def filterOf : Stmt → Option Expr
  | .update _ _ _ wh _ _ => wh
  | .delete _ wh _ _ => wh
  | _ => none
def targetOf : Stmt → Option TableName
  | .update _ t _ _ _ _ => some t
  | .delete t _ _ _ => some t
  | _ => none
/-- **UPDATE: the assignments in order, each column with its expression; the filter in the WHERE slot** -/
theorem update_assignments (d : Gen.D) (w : Option (List WithTable)) (t : TableName) (sets : List (String × Expr)) (wh : Option Expr)
    (ob : Option (List OrderItem)) (lm : Option (Int × Option Int)) (hs : FragStmt d (.update w t sets wh ob lm) = true)
    (rest : List Tok) (hr : stopsStmt d rest = true) (fuel : Nat) (hfuel : 20 * sizeL (toksStmt d (.update w t sets wh ob lm)) + 16 ≤ fuel) :
    ∃ p, pStatement d fuel (toksWiths d noX w ++ opTok "UPDATE" :: tblTok t.schema t.name :: opTok "SET" ::
        (toksSets d noX sets ++ (toksTail d noX wh ob lm ++ rest))) = .ok (p, rest) ∧
      setsOf p = sets ∧ filterOf p = wh ∧ targetOf p = some t := by
  refine ⟨.update w t sets wh ob lm, ?_, rfl, rfl, rfl⟩
  have := tupdate d w t sets wh ob lm hs rest hr fuel hfuel
  simpa [toksStmt, toksStmtG] using this
/-- **DELETE: the filter is the expression after WHERE (none if there is no WHERE), the target the table after FROM** -/
theorem delete_filter (d : Gen.D) (t : TableName) (wh : Option Expr) (ob : Option (List OrderItem)) (lm : Option (Int × Option Int))
    (hs : FragStmt d (.delete t wh ob lm) = true) (rest : List Tok) (hr : stopsStmt d rest = true)
    (fuel : Nat) (hfuel : 20 * sizeL (toksStmt d (.delete t wh ob lm)) + 16 ≤ fuel) :
    ∃ p, pStatement d fuel (opTok "DELETE" :: opTok "FROM" :: tblTok t.schema t.name ::
        (toksOptE3 d noX "WHERE" wh ++ (toksOrder3 d noX ob ++ (toksLimit lm ++ rest)))) = .ok (p, rest) ∧
      filterOf p = wh ∧ targetOf p = some t := by
  refine ⟨.delete t wh ob lm, ?_, rfl, rfl⟩
  have := tdelete d t wh ob lm hs rest hr fuel hfuel
  simpa [toksStmt, toksStmtG, toksTail] using this

/-- equal renderings, equal statements -/
theorem rendering_determines_statement (d : Gen.D) (s s' : Stmt) (hs : FragStmt d s = true) (hs' : FragStmt d s' = true)
    (h : toksStmt d s = toksStmt d s') : s = s' := by
  have a := tstatement d s hs [] rfl (20 * sizeL (toksStmt d s) + 16) (Nat.le_refl _)
  have b := tstatement d s' hs' [] rfl (20 * sizeL (toksStmt d s) + 16) (by rw [h]; exact Nat.le_refl _)
  rw [← h, a] at b
  simp only [Except.ok.injEq, Prod.mk.injEq, and_true] at b
  exact b
end C03

namespace C01
/-- **print / parse round trip of a data-change statement, token level**: the rendering parses to the statement with nothing left, and
(hence) the rendering of the result is the rendering one started from -/
theorem dml_round_trip_tokens (d : Gen.D) (s : Stmt) (hs : FragStmt d s = true) (fuel : Nat) (hfuel : 20 * sizeL (toksStmt d s) + 16 ≤ fuel) :
    pStatement d fuel (toksStmt d s) = .ok (s, []) ∧
    ∀ p r, pStatement d fuel (toksStmt d s) = .ok (p, r) → toksStmt d p = toksStmt d s ∧ r = [] := by
  have h := C03.tstatement d s hs [] rfl fuel hfuel
  simp only [List.append_nil] at h
  refine ⟨h, fun p r hp => ?_⟩
  rw [h] at hp
  simp only [Except.ok.injEq, Prod.mk.injEq] at hp
  exact ⟨by rw [← hp.1], hp.2.symm⟩
end C01

namespace C08
/-- **accounting on the statement fragment.**  The token rendering of a fragment statement is grammar words interleaved with exactly the
strings stored in the tree (`leaves s`: WITH names, target table, partition items, column list, rows, assignments, filter, ORDER BY keys,
LIMIT numbers, and every name and literal of the nested expressions and queries), in order; a bracket group is accounted for by its
children.  Nothing of the text is lost, nothing stored is invented, nothing is stored twice -/
theorem dml_accounted (d : Gen.D) (s : Stmt) (hs : FragStmt d s = true) : Acc (toksStmt d s) (leaves s) :=
  stmt_accounted (d == .HIVE) s hs
/-- the same about the PARSER: whatever `pStatement` returns from the rendering (it is `s`, by `C03.tstatement`) stores exactly the
non-grammar tokens of the rendering -/
theorem dml_parse_accounted (d : Gen.D) (s : Stmt) (hs : FragStmt d s = true) (rest : List Tok) (hr : stopsStmt d rest = true)
    (fuel : Nat) (hfuel : 20 * sizeL (toksStmt d s) + 16 ≤ fuel) :
    ∃ p, pStatement d fuel (toksStmt d s ++ rest) = .ok (p, rest) ∧ Acc (toksStmt d s) (leaves p) :=
  ⟨s, C03.tstatement d s hs rest hr fuel hfuel, dml_accounted d s hs⟩
/-- every token of the rendering (bracket groups opened) is a grammar word or spells a stored string -/
theorem dml_tokens_stored (d : Gen.D) (s : Stmt) (hs : FragStmt d s = true) :
    ∀ t ∈ flatL (toksStmt d s), isKw t = true ∨ unifyName t.src ∈ leaves s ∨ t.src ∈ leaves s ∨
      ∃ sch n, splitName t.src = .ok (sch, n) ∧ n ∈ leaves s :=
  (dml_accounted d s hs).tokens_stored
/-- every stored string is spelled by a token of the rendering -/
theorem dml_stored_tokens (d : Gen.D) (s : Stmt) (hs : FragStmt d s = true) :
    ∀ x ∈ leaves s, ∃ t ∈ flatL (toksStmt d s), x = unifyName t.src ∨ x = t.src ∨
      ∃ sch n, splitName t.src = .ok (sch, n) ∧ (x = n ∨ sch = some x) :=
  (dml_accounted d s hs).stored_tokens
/-- the tokens that are no grammar words are matched one-to-one by stored strings -/
theorem dml_none_lost (d : Gen.D) (s : Stmt) (hs : FragStmt d s = true) :
    ((flatL (toksStmt d s)).filter (fun t => !isKw t)).length ≤ (leaves s).length :=
  (dml_accounted d s hs).count
end C08

/-! ### non-vacuity (compiled evaluation) -/
namespace C03.Dml
/-- the token-level printer agrees with the lexer on the printer's text, and the statement is in the fragment -/
def agreesD (d : Gen.D) (s : Stmt) : Bool :=
  match PR.prStmt d s with
  | .ok x => eqbL (lexed x) (toksStmt d s) && FragStmt d s
  | .error _ => false
def roundTripsD (d : Gen.D) (s : Stmt) : Bool :=
  match pStatement d (20 * sizeL (toksStmt d s) + 16) (toksStmt d s) with
  | .ok (p, []) => Drv.showVal p.toVal == Drv.showVal s.toVal
  | _ => false
def tn (n : String) (s : Option String := none) : TableName := ⟨s, n⟩
def cmp (o : String) (a b : Expr) : Expr := .compare o a b
def wt (n : String) (q : Query) : WithTable := .mk n q
/-- `DELETE FROM t WHERE a > 1 AND b IN (SELECT b FROM u) ORDER BY a DESC LIMIT 5, 10` -/
def d1 : Stmt := .delete (tn "t") (some (.and_ (cmp "GT" (col "a") (lit "1")) (.kw .in_ false (col "b") (.subQuery qa))))
  (some [.mk (col "a") true false false]) (some (10, some 5))
def d2 : Stmt := .delete (tn "t" (some "s")) none none none
/-- `UPDATE s.t SET a = a + 1, b = CASE WHEN … END, c = (SELECT max(b) FROM u) WHERE EXISTS (…) LIMIT 3` -/
def u1 : Stmt := .update (some []) (tn "t" (some "s"))
  [("a", .compute (col "a") "PLUS" (lit "1")), ("b", .caseCond [(cmp "EQ" (col "x") (lit "1"), lit "'y'")] (some (lit "NULL"))),
   ("c", .subQuery (.single (sel [(.agg "max" [col "b"] false, none)] (some [tb "u"])))), ("d", .or_ (col "p") (col "q"))]
  (some (.exists_ (.subQuery qa))) none (some (3, none))
/-- `WITH x AS (SELECT b FROM u) UPDATE t SET a = 1` -/
def u2 : Stmt := .update (some [wt "x" qa]) (tn "t") [("a", lit "1")] none (some [.mk (col "a") false false false, .mk (col "b") true false false]) none
def ih (ty : String) (t : TableName) (p : Option (List Expr) := none) (cs : Option (List (Option String × String)) := none)
    (w : Option (List WithTable) := some []) : InsertHead := ⟨w, ty, t, p, cs⟩
/-- three rows, values above the compute level, an empty row -/
def i1 : Stmt := .insertValues (ih "INSERT_INTO" (tn "t") none (some [(none, "a"), (some "t", "b")]))
  [[lit "1", lit "'x'"], [.compute (col "a") "PLUS" (lit "2"), .and_ (col "p") (col "q")], [cmp "EQ" (lit "1") (lit "1"), .func none "f" [lit "1", lit "2"]]]
def i2 : Stmt := .insertValues (ih "INSERT_IGNORE_INTO" (tn "t" (some "s"))) [[lit "1"], []]
/-- static partition -/
def i3 : Stmt := .insertSelect (ih "INSERT_OVERWRITE" (tn "t") (some [cmp "EQ" (col "dt") (lit "'2024'"), cmp "EQ" (col "hr") (.compute (lit "1") "PLUS" (lit "2"))])) q3
/-- dynamic partition, WITH in front of INSERT -/
def i4 : Stmt := .insertSelect (ih "INSERT_INTO" (tn "t") (some [col "dt", col "hr"]) (some [(none, "a")]) (some [wt "x" qa, wt "y z" q3])) q1
def i5 : Stmt := .insertValues (ih "INSERT_OVERWRITE" (tn "t") (some [])) []
/-- `WITH x AS (…), y AS (…) SELECT … UNION ALL SELECT …`: the clause on the union -/
def w1 : Stmt := .select (.union (some [wt "x" qa, wt "y" q2]) (sel [(col "a", none)] (some [tb "x"])) [("UNION_ALL", sel [(col "b", none)] (some [tb "y"]))])
/-- the clause on a single SELECT -/
def w2 : Stmt := .select (.single (.mk (some [wt "x" q4]) false [(.wildcard none, none)] (some [tb "x"]) [] [] none none none none none none none none))
def w3 : Stmt := .select q1
#guard [d1, d2, u1, u2, i1, i2, i4, w1, w2, w3].all (agreesD .MYSQL) && [d1, d2, u1, u2, i1, i2, i3, i4, i5, w1, w2, w3].all (agreesD .HIVE) &&
  [d1, d2, u1, u2, i1, i2, i3, i4, i5, w1, w2, w3].all (agreesD .DEFAULT) && [d1, u1, i1, i4, w1].all (agreesD .ORACLE) &&
  [d1, u2, i2, w2].all (agreesD .POSTGRE_SQL)
#guard [d1, d2, u1, u2, i1, i2, i3, i4, i5, w1, w2, w3].all (roundTripsD .MYSQL) && [d1, d2, u1, u2, i1, i2, i3, i4, i5, w1, w2, w3].all (roundTripsD .HIVE) &&
  [d1, u1, i1, i3, w1].all (roundTripsD .DB2)
-- what may follow a statement: a separator, the end; not a comma (the row loop would swallow it), a bracket group, a clause word
#guard stopsStmt .MYSQL (lexed "; SELECT 2") && stopsStmt .MYSQL [] && !stopsStmt .MYSQL (lexed ", (1)") && !stopsStmt .MYSQL (lexed "(1)") &&
  !stopsStmt .MYSQL (lexed "WHERE a") && !stopsStmt .MYSQL (lexed "UNION SELECT 1")
-- outside the fragment: a PARTITION list mixing static and dynamic items (refused by the implementation), a static key at comparison
-- level (printed without the brackets it was written with — see `partition_key_not_reparsed`), no assignment, an unknown kind
#guard !FragStmt .HIVE (.insertSelect (ih "INSERT_OVERWRITE" (tn "t") (some [cmp "EQ" (col "dt") (lit "1"), col "hr"])) qa) &&
  !FragStmt .HIVE (.insertSelect (ih "INSERT_OVERWRITE" (tn "t") (some [cmp "EQ" (cmp "EQ" (col "a") (col "b")) (col "c")])) qa) &&
  !FragStmt .MYSQL (.update (some []) (tn "t") [] none none none) && !FragStmt .MYSQL (.insertValues (ih "INSERT" (tn "t")) [])
-- scripts on lexed text: separators, a final separator
#guard (match pStatements .MYSQL 4000 (lexed "DELETE FROM t WHERE a = 1; UPDATE t SET a = 2 ; INSERT INTO t VALUES (1), (2);") with
  | .ok [.delete _ (some _) none none, .update _ _ [_] none none none, .insertValues _ [[_], [_]]] => true | _ => false)
#guard eqbL (C10.script semiTok [toksStmt .MYSQL d2, toksStmt .MYSQL i2] true) (lexed "DELETE FROM `s.t`; INSERT IGNORE INTO `s.t` VALUES (1), ();")

/-- **defect found here and repaired (round trip, C01; /repo e990ea0, known_findings X-C01-e990ea0).**  Before the repair:  A static PARTITION item whose KEY was written as a bracketed comparison is stored as a
comparison whose left operand is a comparison; `ASTPartitionExpression.source` prints it with the general expression printer, which puts
no brackets around a left operand of the same level — the printed text `PARTITION (a = b = c)` is refused by the partition parser (it reads
a compute-level key, one operator, a compute-level value, then requires the end of the item).  Shown on the model (tokens of the printed
text); on the real code: `INSERT OVERWRITE TABLE t PARTITION ((a = b) = c) SELECT a FROM u` parses, prints
`` PARTITION (`a` = `b` = `c`) ``, and parsing that raises `SqlParseError` -/
def pk : Stmt := .insertSelect (ih "INSERT_OVERWRITE" (tn "t") (some [cmp "EQ" (cmp "EQ" (col "a") (col "b")) (col "c")])) qa
#guard (match pStatement .HIVE 2000 (lexed "INSERT OVERWRITE TABLE t PARTITION ((a = b) = c) SELECT b FROM u") with
  | .ok (p, []) => Drv.showVal p.toVal == Drv.showVal pk.toVal | _ => false)
-- repaired in /repo e990ea0 (the partition printer brackets key and value above the compute level; `PR.prPartItem` follows): the printed text reads back
#guard (match PR.prStmt .HIVE pk with
  | .ok x => (match pStatement .HIVE 2000 (lexed x) with | .ok (p, []) => Drv.showVal p.toVal == Drv.showVal pk.toVal | _ => false) | .error _ => false)

-- the stored strings of concrete statements, in print order
#guard leaves i1 == ["t", "a", "t", "b", "1", "'x'", "a", "2", "p", "q", "1", "1", "f", "1", "2"] &&
  leaves u2 == ["x", "b", "u", "t", "a", "1", "a", "b"] && leaves d2 == ["s", "t"] &&
  leaves d1 == ["t", "a", "1", "b", "b", "u", "a", "5", "10"]
/-- why the brackets are needed, checked by the kernel: the UNBRACKETED rendering of `pk` (what the printer emitted before the repair; `toksStmt` adds no
brackets in PARTITION items, which is why such keys are outside `FragStmt`) is refused by `pStatement` -/
theorem partition_key_not_reparsed :
    (match pStatement .HIVE 400 (toksStmt .HIVE pk) with | .error .parse => true | _ => false) = true ∧ FragStmt .HIVE pk = false := by
  decide
-- instances of the theorems (hypotheses decided by the kernel, conclusions the theorems')
/-- `DELETE FROM t WHERE a = 1` (kernel-checked instances avoid `String.splitOn` / `toString`: no qualified table, no LIMIT) -/
def d0 : Stmt := .delete (tn "t") (some (cmp "EQ" (col "a") (lit "1"))) none none
/-- `UPDATE t SET a = b` -/
def u0 : Stmt := .update (some []) (tn "t") [("a", col "b")] none none none
set_option maxRecDepth 100000 in
example : pStatement .MYSQL (fuelFor (toksStmt .MYSQL d0 ++ lexed "; x")) (toksStmt .MYSQL d0 ++ lexed "; x") = .ok (d0, lexed "; x") :=
  tstatement_entry_fuel .MYSQL d0 (by decide) _ (by decide)
set_option maxRecDepth 100000 in
example : pStatements .HIVE (fuelFor (C10.script semiTok ([d0, u0, i5].map (toksStmt .HIVE)) true)) (C10.script semiTok ([d0, u0, i5].map (toksStmt .HIVE)) true) =
    .ok [d0, u0, i5] :=
  tscript .HIVE [d0, u0, i5] (by decide) true
end C03.Dml
