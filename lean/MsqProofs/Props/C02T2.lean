import MsqProofs.Lemmas.TParse2Main
import MsqModel.Parse.Entry
import MsqModel.Driver.ShowVal
/-!
# C02 / C01 — T-parse on the LARGER expression fragment: qualified columns, wildcards, function calls, CASE, IN lists

Built next to Props/C02T.lean (whose definitions and statements are unchanged).

**Fragment** `TP2.Frag2 d e ⊇ TP.Frag d e` (`frag_sub`; on `Frag` the token printers agree: `toksE2_eq`).  Closed under everything
`Frag` is closed under (unary, all binary compute operators, comparisons, `IS` / `LIKE` / `RLIKE` / `REGEXP` / `BETWEEN`, `NOT`, `AND`,
`XOR`, `OR`) and additionally:
* qualified columns `` `t`.`c` `` (`qcolOK`: every pair of plain names, `qcolOK_of_plain`), the wildcards `*` and `t.*`;
* normal function calls `f(a₁, …, aₙ)` and `s.f(a₁, …, aₙ)`, n ≥ 0, arguments in `Frag2`; the name is none of the special forms by the
  model's own tests (`fnNameOK`: not CAST / EXTRACT / IF, not SUBSTRING, no aggregate) and its token is an identifier that is no word of
  the expression grammar (`nmOK`, a decidable check on the printed token);
* aggregate calls `AGG([DISTINCT] a₁, …, aₙ)` for the names of `Gen.aggNames` (so `COUNT(*)`, `COUNT(DISTINCT x)`, `SUM(a + b)`);
* `CASE WHEN c THEN v … [ELSE w] END` and `CASE x WHEN a THEN v … [ELSE w] END`, ≥ 1 arms, all operands in `Frag2`;
* `[NOT] IN (v₁, …, vₙ)`, n ≥ 1, values in `Frag2`, each value with at most 20 TOP-LEVEL tokens (`shortL`; what stands inside brackets
  and calls does not count).  The restriction is one of the FUEL BOUND, not of the parser: the comma splitter spends one unit of fuel per
  token before a value is parsed, which a uniform bound `20 × tokens` covers only for short values; lifting it needs a per-tree bound.
Not in the fragment: CAST / EXTRACT / IF / SUBSTRING … FROM, window expressions, array index, EXISTS, sub-queries.

**Token printer** `TP2.toksE2 d ch e` (brackets by `PR.wrap`'s rule with the bounds of `PR.prE`; `ch`: any set of sub-terms wrapped
redundantly — except the value list of `IN`, where a second bracket means something else).  The link `lex (prE d e) = toksE2 d noX e` is
the lexer's business; `#guard`s below check it by compiled evaluation in several dialects.

**Continuations**: `TP2.stops2 d rest` = `TP.stops d rest` and the head is not `OVER` (a call followed by `OVER` is a window expression).

**Theorems**: `C02.tparse2` (same shape and the same fuel bound as `C02.tparse`), `tparse2_entry_fuel`, `C02.redundant_brackets2`,
`C02.rendering_determines_tree2`, `C01.expr_round_trip_tokens2`.  The C08-style accounting reading is NOT stated: `C08.stored_or_keyword`
is about the plain fragment of C08 (no calls), so it is not a two-line corollary.
-/
set_option linter.unusedVariables false
set_option linter.unusedSimpArgs false
open Lex PM Ast TP TP2

namespace TP2
/-- `Frag2 ⊇ Frag` -/
theorem frag_sub_all (d : Gen.D) (e : Expr) (h : Frag d e = true) : Frag2 d e = true := frag_sub d (TP.sz e) e (Nat.le_refl _) h
/-- on the operator fragment the two token printers agree -/
theorem toksE2_eq_all (d : Gen.D) (ch : Expr → Bool) (e : Expr) (h : Frag d e = true) : toksE2 d ch e = toksE d ch e :=
  toksE2_eq d ch (TP.sz e) e (Nat.le_refl _) h
theorem nameTok_marks (n : String) : (nameTok n).has NAME = true ∧ (nameTok n).has LITERAL = false ∧ (nameTok n).has PAREN = false := by
  refine ⟨?_, ?_, ?_⟩ <;> (simp [nameTok, Tok.has, Tok.marks]; decide)
/-- every pair of plain names is a qualified column of the fragment -/
theorem qcolOK_of_plain (d : Gen.D) (t c : String) (ht : PR.isPlainName t = true) (hc : PR.isPlainName c = true) : qcolOK d t c = true := by
  have h1 := colOK_of_plain d t ht
  have h2 := colOK_of_plain d c hc
  simp only [colOK, Bool.and_eq_true, Bool.not_eq_true', beq_iff_eq] at h1 h2
  obtain ⟨a1, a2, a3⟩ := name_facts t
  obtain ⟨b1, b2, b3⟩ := name_facts c
  obtain ⟨m1, m2, m3⟩ := nameTok_marks t
  obtain ⟨n1, _, _⟩ := nameTok_marks c
  simp only [qcolOK, nmOK, nm2OK, h1.1.1.1, a1, m1, m2, m3, h1.1.1.2, h1.1.2, h1.2, a2, a3, n1, h2.2, b2, beq_self_eq_true]; rfl
end TP2

namespace C02
theorem rt2 (d : Gen.D) (ch : Expr → Bool) (e : Expr) (hf : Frag2 d e = true) : RT2 d ch e := rt2_all (sz2 e) e (Nat.le_refl _) hf

/-- **T-parse, larger expression fragment** -/
theorem tparse2 (d : Gen.D) (ch : Expr → Bool) (e : Expr) (hf : Frag2 d e = true) (rest : List Tok) (hr : stops2 d rest = true)
    (fuel : Nat) (hfuel : 20 * sizeL (toksE2 d ch e) + 15 ≤ fuel) : pOr d fuel (toksE2 d ch e ++ rest) = .ok (e, rest) :=
  (rt2 d ch e hf).own.s14 rest hr fuel hfuel
/-- with the fuel the public entry points compute from the token list -/
theorem tparse2_entry_fuel (d : Gen.D) (ch : Expr → Bool) (e : Expr) (hf : Frag2 d e = true) (rest : List Tok) (hr : stops2 d rest = true) :
    pOr d (fuelFor (toksE2 d ch e ++ rest)) (toksE2 d ch e ++ rest) = .ok (e, rest) :=
  tparse2 d ch e hf rest hr _ (by simp only [fuelFor, sizeL_append]; omega)
/-- at the compute level (function arguments of other productions, GROUP BY / ORDER BY keys …) -/
theorem tparse2_compute (d : Gen.D) (ch : Expr → Bool) (e : Expr) (hf : Frag2 d e = true) (hl : PR.lvl e ≤ 8) (rest : List Tok)
    (hr : stopLE2 d 8 rest = true) (fuel : Nat) (hfuel : 20 * sizeL (toksE2 d ch e) + 2 ≤ fuel) :
    pCompute d fuel (toksE2 d ch e ++ rest) = .ok (e, rest) := (rt2 d ch e hf).own.s8 hl rest hr fuel hfuel

/-- **redundant brackets do not change the tree**: two choices of redundantly wrapped sub-terms give the same parse (the tree), and so
does a bracket around the whole expression -/
theorem redundant_brackets2 (d : Gen.D) (ch ch' : Expr → Bool) (e : Expr) (hf : Frag2 d e = true) (rest : List Tok) (hr : stops2 d rest = true)
    (fuel : Nat) (h1 : 20 * sizeL (toksE2 d ch e) + 35 ≤ fuel) (h2 : 20 * sizeL (toksE2 d ch' e) + 15 ≤ fuel) :
    pOr d fuel (toksE2 d ch e ++ rest) = pOr d fuel (toksE2 d ch' e ++ rest) ∧
    pOr d fuel (grp (toksE2 d ch e) :: rest) = pOr d fuel (toksE2 d ch' e ++ rest) := by
  have a := tparse2 d ch e hf rest hr fuel (by omega)
  have b := tparse2 d ch' e hf rest hr fuel h2
  have c : pOr d fuel ([grp (toksE2 d ch e)] ++ rest) = .ok (e, rest) :=
    (rt2 d ch e hf).wrapped.s14 rest hr fuel (by simp only [sizeL, size_grp]; omega)
  exact ⟨by rw [a, b], by rw [b]; exact c⟩
/-- **the rendering determines the tree** (so brackets that change the grouping change the tree) -/
theorem rendering_determines_tree2 (d : Gen.D) (ch ch' : Expr → Bool) (e e' : Expr) (hf : Frag2 d e = true) (hf' : Frag2 d e' = true)
    (h : toksE2 d ch e = toksE2 d ch' e') : e = e' := by
  have a := tparse2 d ch e hf [] rfl (20 * sizeL (toksE2 d ch e) + 15) (Nat.le_refl _)
  have b := tparse2 d ch' e' hf' [] rfl (20 * sizeL (toksE2 d ch e) + 15) (by rw [h]; exact Nat.le_refl _)
  rw [← h, a] at b
  simp only [Except.ok.injEq, Prod.mk.injEq, and_true] at b
  exact b
end C02

namespace C01
/-- **print / parse round trip of expressions of the larger fragment, token level** -/
theorem expr_round_trip_tokens2 (d : Gen.D) (e : Expr) (hf : Frag2 d e = true) (fuel : Nat) (hfuel : 20 * sizeL (toksE2 d noX e) + 15 ≤ fuel) :
    pOr d fuel (toksE2 d noX e) = .ok (e, []) := by
  have := C02.tparse2 d noX e hf [] rfl fuel hfuel
  simpa using this
end C01

/-! ### non-vacuity (compiled evaluation) -/
namespace C02
def agrees2 (d : Gen.D) (e : Expr) : Bool :=
  match PR.prE d e with
  | .ok s => eqbL (lexed s) (toksE2 d noX e) && Frag2 d e
  | .error _ => false
def roundTrips2 (d : Gen.D) (ch : Expr → Bool) (e : Expr) : Bool :=
  match pOr d (20 * sizeL (toksE2 d ch e) + 15) (toksE2 d ch e) with
  | .ok (e', []) => Drv.showVal e'.toVal == Drv.showVal e.toVal
  | _ => false

def g1 : Expr := .func none "f" [.column (some "t") "c", .compute (col "a") "PLUS" (lit "1"), .func (some "s") "g" []]
def g2 : Expr := .agg "COUNT" [.wildcard none] false
def g3 : Expr := .compute (.agg "sum" [.compute (col "a") "MULTIPLE" (.column (some "t") "b")] true) "DIVIDE" (.agg "COUNT" [.wildcard (some "t")] false)
def g4 : Expr := .caseCond [(.compare "GT" (col "a") (lit "1"), lit "'x'"), (.kw .is true (col "b") (lit "NULL"), .func none "upper" [col "b"])]
  (some (.caseVal (col "k") [(lit "1", lit "'one'"), (lit "2", lit "'two'")] none))
def g5 : Expr := .and_ (.kw .in_ true (col "a") (.subValue [lit "1", .compute (col "b") "PLUS" (lit "2"), .func none "f" [col "c"]]))
  (.kw .in_ false (.func none "lower" [.column (some "t") "x"]) (.subValue [lit "'a'"]))
def g6 : Expr := .or_ (.compare "EQ" (.caseVal (.func none "f" [col "a"]) [(lit "1", col "b")] (some (col "c"))) (lit "0"))
  (.not_ (.kw .like false (.func none "concat" [col "a", lit "'%'"]) (lit "'z%'")))

#guard [g1, g2, g3, g4, g5, g6, e1, e4, e7].all (agrees2 .MYSQL) && [g1, g2, g3, g4, g5, g6, e1, e4].all (agrees2 .HIVE) &&
  [g1, g2, g3, g4, g5, g6].all (agrees2 .ORACLE) && [g1, g2, g3, g4, g5, g6].all (agrees2 .DEFAULT)
#guard [g1, g2, g3, g4, g5, g6].all (roundTrips2 .MYSQL noX) && [g1, g2, g3, g4, g5, g6].all (roundTrips2 .HIVE noX)
-- redundant brackets around EVERY sub-term at once
#guard [g1, g2, g3, g4, g5, g6].all (roundTrips2 .MYSQL (fun _ => true))
-- outside the fragment: the special forms, a call followed by OVER is not a continuation
#guard !Frag2 .MYSQL (.func none "cast" [col "a"]) && !Frag2 .MYSQL (.func none "if" [col "a"]) && !Frag2 .MYSQL (.func none "count" [col "a"]) &&
  Frag2 .MYSQL (.func (some "s") "f" [col "a"]) && !stops2 .MYSQL (lexed "OVER (x)") && stops2 .MYSQL (lexed "FROM t") && stops2 .MYSQL (lexed ", b")
/-- instances of the theorems (hypotheses decided, conclusions the theorems') -/
example : pOr .MYSQL (fuelFor (toksE2 .MYSQL noX g1 ++ lexed "FROM t")) (toksE2 .MYSQL noX g1 ++ lexed "FROM t") = .ok (g1, lexed "FROM t") :=
  tparse2_entry_fuel .MYSQL noX g1 (by decide) _ (by decide)
example : pOr .HIVE 2000 (toksE2 .HIVE noX g4) = .ok (g4, []) := C01.expr_round_trip_tokens2 .HIVE g4 (by decide) 2000 (by decide)
example : pOr .MYSQL 2000 (toksE2 .MYSQL noX g5) = .ok (g5, []) := C01.expr_round_trip_tokens2 .MYSQL g5 (by decide) 2000 (by decide)
end C02
