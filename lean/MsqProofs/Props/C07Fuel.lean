import MsqProofs.Lemmas.ParseEntriesMono
/-!
# C07, fuel: a successful parse does not depend on the budget

The parser model is fuel-indexed; `PM.parseStatementsText` / `PM.parseText` run it with `PM.fuelFor ts = 20 · size + 40`.
`C07.text_no_foreign` (in `C07.lean`) leaves `.fuel` among the possible errors.  What is proved here is the other half of
"exhaustion can never masquerade as a result": a result obtained with SOME fuel is the result with EVERY larger fuel
(`fuel_mono_*`, for `parse_statements` and for every entry of `PM.entries`), hence two budgets never give two different
trees (`fuel_deterministic`): the trees the model returns are not artefacts of the budget.  Fuel ADEQUACY (the shipped
budget never answers `.fuel`) is NOT proved here; the correspondence would show a `FUEL` answer of the driver as a
disagreement with the implementation (none so far).

Built on `PM.monoF` (ParseMono, the 80-function block) and the statement-level `mono_*` lemmas of `ParseFrameStmt.lean`.
-/
namespace C07
open Lex PM

/-- `parse_statements` on tokens -/
theorem fuel_mono_statements (d : Gen.D) (f f' : Nat) (hle : f ≤ f') (ts : List Tok) (ss : List Ast.Stmt)
    (h : pStatements d f ts = .ok ss) : pStatements d f' ts = .ok ss := pStatements_mono d hle ts ss h

/-- every entry point of the model on tokens -/
theorem fuel_mono_entries (name : String) (p : Entry) (hp : (name, p) ∈ entries) (d : Gen.D) (f f' : Nat) (hle : f ≤ f')
    (ts : List Tok) (r : Val × List Tok) (h : p d f ts = .ok r) : p d f' ts = .ok r :=
  entries_mono _ hp d f f' ts r hle h

/-- two budgets never produce two different results -/
theorem fuel_deterministic (name : String) (p : Entry) (hp : (name, p) ∈ entries) (d : Gen.D) (f₁ f₂ : Nat) (ts : List Tok)
    (r₁ r₂ : Val × List Tok) (h₁ : p d f₁ ts = .ok r₁) (h₂ : p d f₂ ts = .ok r₂) : r₁ = r₂ := by
  have a := fuel_mono_entries name p hp d f₁ (max f₁ f₂) (Nat.le_max_left _ _) ts r₁ h₁
  have b := fuel_mono_entries name p hp d f₂ (max f₁ f₂) (Nat.le_max_right _ _) ts r₂ h₂
  rw [a] at b; cases b; rfl

/-- **C07.fuel_mono_text**: if `parse_statements(text)` succeeds with the shipped budget, every larger budget gives the same
statements; -/
theorem fuel_mono_text (d : Gen.D) (text : List Char) (ss : List Ast.Stmt) (h : parseStatementsText d text = .ok ss) :
    ∃ ts, lex Gen.cfgS (dialectPre d text) = .ok ts ∧ ∀ f', fuelFor ts ≤ f' → pStatements d f' ts = .ok ss := by
  unfold parseStatementsText at h
  split at h
  · cases h
  · rename_i ts hl
    exact ⟨ts, hl, fun f' hle => pStatements_mono d hle ts ss h⟩

/-- … and the same for every `parse_<entry>(text)` (value and number of unconsumed tokens) -/
theorem fuel_mono_text_entry (entry : String) (d : Gen.D) (text : List Char) (v : Val) (n : Nat)
    (h : parseText entry d text = .ok (v, n)) :
    ∃ p ts, (entry, p) ∈ entries ∧ lex Gen.cfgS (dialectPre d text) = .ok ts ∧
      ∀ f', fuelFor ts ≤ f' → ∃ rest, p d f' ts = .ok (v, rest) ∧ rest.length = n := by
  unfold parseText at h
  split at h
  · cases h
  · rename_i name p hf
    have hmem := List.mem_of_find?_eq_some hf
    have hname : name = entry := by simpa using List.find?_some hf
    subst hname
    split at h
    · cases h
    · rename_i ts hl
      split at h
      · rename_i v' r hp
        cases h
        exact ⟨p, ts, hmem, hl, fun f' hle => ⟨r, entries_mono _ hmem d _ f' ts _ hle hp, rfl⟩⟩
      · cases h

/-- non-vacuity: an accepted text (kernel-evaluated), to which `fuel_mono_text` applies -/
example : ∃ ss, parseStatementsText .MYSQL "SELECT a FROM t WHERE b = c".toList = .ok ss ∧ ss.length = 1 := by
  cases h : parseStatementsText .MYSQL "SELECT a FROM t WHERE b = c".toList with
  | ok ss =>
    refine ⟨ss, rfl, ?_⟩
    have : (match parseStatementsText .MYSQL "SELECT a FROM t WHERE b = c".toList with | .ok ss => ss.length == 1 | .error _ => false) = true := by
      decide +kernel
    rw [h] at this; simpa using this
  | error e =>
    have : (match parseStatementsText .MYSQL "SELECT a FROM t WHERE b = c".toList with | .ok ss => ss.length == 1 | .error _ => false) = true := by
      decide +kernel
    rw [h] at this; cases this

end C07
