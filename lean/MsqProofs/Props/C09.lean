import MsqProofs.Props.C06
/-!
# C09 — layout, comments and keyword case do not change the tokens (lexer half)

About the shipped table `Gen.cfgS`, for ALL contexts, stated about `lexText` (the lexer after the pre-pass:
`lex cfg raw = lexText cfg (cfg.pre raw)`; the pre-pass turns TAB, CR LF and U+3000 into the blanks treated here).

* `blank_run`: the amount and kind of whitespace between two tokens is irrelevant — whether the lexer is between tokens
  after `a` (`blank_run`) or in the middle of a token that a blank ends (`blank_run_pending`: word, number, operator,
  closed string; `blankEnded` lists the states);
* `comment_as_blank`: a block comment separates exactly like a blank (both forms again);
* `keyword_case`: the marks of a word depend only on its upper-case form; every letter-case variant of every entry of
  the keyword table lexes to one token with that entry's marks.

Everything is an instance of the *gap lemmas* `C06.gap_irrelevant` / `gap_irrelevant_pending`: two texts that differ
only in a gap (a piece of text that, read from between tokens, leaves no trace) lex identically.
-/
namespace C09
open Lex Spec C05 C06

/-! ## gaps made of blanks -/

/-- a run of blanks and line breaks (what the pre-pass leaves of any whitespace) -/
def isBlanks (w : List Char) : Prop := ∀ c ∈ w, c = ' ' ∨ c = '\n'

theorem gap_blank (c : Char) (h : c = ' ' ∨ c = '\n') : Gap [c] := by
  intro T n stk
  have hl : Gen.cfgS.lookup .WAIT (.ch c) = some skip := by
    rcases h with rfl | rfl
    · exact wait_blank
    · exact wait_newline
  have h1 := handle_skip shipped_code (text := T) (m := ⟨n, n, .WAIT, stk⟩) hl
  rw [feedAllWith_one, feedWith_adv h1]
  rfl

theorem gap_blanks (w : List Char) (h : isBlanks w) : Gap w := by
  induction w with
  | nil => exact gap_nil
  | cons c cs ih =>
    have : c :: cs = [c] ++ cs := rfl
    rw [this]
    exact gap_append (gap_blank c (h c (by simp))) (ih fun d hd => h d (by simp [hd]))

/-- **C09.blank_run** (between tokens): if the lexer is between tokens after `a`, then for any two runs of blanks and
line breaks `w`, `w'` (of any lengths, also empty) and any continuation `b`, the texts `a w b` and `a w' b` lex to the
same result (equal token trees, or the same error). -/
theorem blank_run (a b w w' : List Char) (stk : List (List Tok)) (hA : WaitAfter Gen.cfgS a stk)
    (hw : isBlanks w) (hw' : isBlanks w') : lexText Gen.cfgS (a ++ w ++ b) = lexText Gen.cfgS (a ++ w' ++ b) :=
  gap_irrelevant a b w w' stk hA (gap_blanks w hw) (gap_blanks w' hw')

/-- **C09.comment_as_blank** (between tokens): a block comment acts exactly like one blank -/
theorem comment_as_blank (a b p : List Char) (stk : List (List Tok)) (hA : WaitAfter Gen.cfgS a stk)
    (hp : hasBlockEnd p = false) :
    lexText Gen.cfgS (a ++ '/' :: '*' :: (p ++ ['*', '/']) ++ b) = lexText Gen.cfgS (a ++ [' '] ++ b) :=
  gap_irrelevant a b _ _ stk hA (gap_block p hp) (gap_blank ' ' (Or.inl rfl))

/-- … and so does a line comment with its line break -/
theorem line_comment_as_blank (a b p : List Char) (stk : List (List Tok)) (hA : WaitAfter Gen.cfgS a stk)
    (hp : ∀ c ∈ p, c ≠ '\n') :
    lexText Gen.cfgS (a ++ '-' :: '-' :: (p ++ ['\n']) ++ b) = lexText Gen.cfgS (a ++ ['\n'] ++ b) ∧
    lexText Gen.cfgS (a ++ '#' :: (p ++ ['\n']) ++ b) = lexText Gen.cfgS (a ++ ['\n'] ++ b) :=
  ⟨gap_irrelevant a b _ _ stk hA (gap_line p hp).1 (gap_blank '\n' (Or.inr rfl)),
   gap_irrelevant a b _ _ stk hA (gap_line p hp).2 (gap_blank '\n' (Or.inr rfl))⟩

example : WaitAfter Gen.cfgS "a,".toList [[.single ['a'] 2, .single [','] 0]] ∧ isBlanks " \n  ".toList ∧ isBlanks [] ∧
    lexesTo (lex Gen.cfgS "a, \n  b".toList) [.single ['a'] 2, .single [','] 0, .single ['b'] 2] = true ∧
    lexesTo (lex Gen.cfgS "a,b".toList) [.single ['a'] 2, .single [','] 0, .single ['b'] 2] = true ∧
    lexesTo (lex Gen.cfgS "a,/* x */b".toList) [.single ['a'] 2, .single [','] 0, .single ['b'] 2] = true :=
  ⟨waitAfterB_sound _ _ _ (by decide +kernel), (by intro c hc; revert c; decide), (by intro c hc; cases hc),
   (by decide +kernel), (by decide +kernel), (by decide +kernel)⟩

/-! ## gaps after an unfinished token -/

/-- the operations that end the pending token WITHOUT taking the character, which is then read again between tokens -/
def endsBefore (o : Op) : Bool := o == emitBefore o.marks || o == emitWordBefore || o == dropBefore

/-- what such an operation leaves on the frame stack, given the window -/
def afterEnd (o : Op) (w : List Char) (f : List Tok) (fs : List (List Tok)) : List (List Tok) :=
  if o == dropBefore then f :: fs
  else if o == emitWordBefore then (f ++ [.single w (resolveMarks Gen.cfgS.upper Gen.cfgS.wordMarks 0 w (.word 2))]) :: fs
  else (f ++ [.single w o.marks]) :: fs

theorem emitBefore_ne (k : Nat) : emitBefore k ≠ dropBefore ∧ emitBefore k ≠ emitWordBefore := by
  constructor <;> intro h <;> have := congrArg OpRef.cls h <;> cases this

theorem handle_endsBefore (o : Op) (ho : endsBefore o = true) (T : List Char) (m : Mem) (c : Char) (f : List Tok)
    (fs : List (List Tok)) (hl : Gen.cfgS.lookup m.status (.ch c) = some o) (hs : m.stack = f :: fs) :
    handle Gen.cfgS T m (.ch c) = .ok (⟨m.now, m.now, .WAIT, afterEnd o (win T m m.now) f fs⟩, false) := by
  simp only [endsBefore, Bool.or_eq_true, beq_iff_eq] at ho
  rcases ho with (ho | ho) | ho
  · have h1 : (o == dropBefore) = false := by rw [ho]; simpa using (emitBefore_ne o.marks).1
    have h2 : (o == emitWordBefore) = false := by rw [ho]; simpa using (emitBefore_ne o.marks).2
    rw [ho] at hl
    rw [handle_emitBefore shipped_code hl hs]
    simp [afterEnd, h1, h2]
  · have h1 : (o == dropBefore) = false := by rw [ho]; decide
    have h2 : (o == emitWordBefore) = true := by rw [ho]; decide
    rw [ho] at hl
    rw [handle_emitWordBefore shipped_code hl hs]
    simp [afterEnd, h1, h2]
  · have h1 : (o == dropBefore) = true := by rw [ho]; decide
    rw [ho] at hl
    rw [handle_dropBefore shipped_code hl]
    simp [afterEnd, h1, hs]

theorem win_context (a x : List Char) (st : Nat) (q : S) (stk : List (List Tok)) :
    win (a ++ x) ⟨st, a.length, q, stk⟩ a.length = win a ⟨st, a.length, q, stk⟩ a.length := by
  simp only [win]
  exact slice_prefix (a ++ x) a a.length st a.length (by simp) (Nat.le_refl _)

/-- a gap read after an unfinished token whose first character ends that token: the token is completed, then the gap
leaves no trace -/
theorem gap_after_pending (T u : List Char) (hu : Gap u) (c : Char) (u' : List Char) (hc : u = c :: u') (o : Op)
    (ho : endsBefore o = true) (st n : Nat) (s : S) (f : List Tok) (fs : List (List Tok))
    (hl : Gen.cfgS.lookup s (.ch c) = some o) :
    feedAllWith (handle Gen.cfgS T) u ⟨st, n, s, f :: fs⟩ =
      .ok ⟨n + u.length, n + u.length, .WAIT, afterEnd o (win T ⟨st, n, s, f :: fs⟩ n) f fs⟩ := by
  have h1 := handle_endsBefore o ho T ⟨st, n, s, f :: fs⟩ c f fs hl rfl
  have := hu T n (afterEnd o (win T ⟨st, n, s, f :: fs⟩ n) f fs)
  rw [hc] at this ⊢
  simp only [feedAllWith] at this ⊢
  rw [feedWith_retry' h1]
  rw [feedWith_wait] at this
  exact this

/-- the **gap lemma after an unfinished token**: let the lexer, after `a`, be in state `s` with a pending window; let
`u1`, `u2` be gaps whose first characters end the pending token by the same operation.  Then `a u1 b` and `a u2 b` lex
identically. -/
theorem gap_irrelevant_pending (a b u1 u2 : List Char) (st : Nat) (s : S) (f : List Tok) (fs : List (List Tok))
    (hA : feedAllWith (handle Gen.cfgS a) a {} = .ok ⟨st, a.length, s, f :: fs⟩)
    (h1 : Gap u1) (h2 : Gap u2) (c1 c2 : Char) (r1 r2 : List Char) (e1 : u1 = c1 :: r1) (e2 : u2 = c2 :: r2)
    (o : Op) (ho : endsBefore o = true)
    (hl1 : Gen.cfgS.lookup s (.ch c1) = some o) (hl2 : Gen.cfgS.lookup s (.ch c2) = some o) :
    lexText Gen.cfgS (a ++ u1 ++ b) = lexText Gen.cfgS (a ++ u2 ++ b) := by
  have hA1 : feedAllWith (handle Gen.cfgS (a ++ u1 ++ b)) a {} = .ok ⟨st, a.length, s, f :: fs⟩ := by
    rw [List.append_assoc, feedAllWith_context _ shipped_good]; exact hA
  have hA2 : feedAllWith (handle Gen.cfgS (a ++ u2 ++ b)) a {} = .ok ⟨st, a.length, s, f :: fs⟩ := by
    rw [List.append_assoc, feedAllWith_context _ shipped_good]; exact hA
  rw [lexText_eq_runTail, lexText_eq_runTail]
  have g1 : runTail Gen.cfgS (a ++ u1 ++ b) (a ++ u1 ++ b) {} =
      runTail Gen.cfgS (a ++ u1 ++ b) (u1 ++ b) ⟨st, a.length, s, f :: fs⟩ := by
    conv => lhs; arg 3; rw [List.append_assoc]
    exact runTail_append_ok hA1 _
  have g2 : runTail Gen.cfgS (a ++ u2 ++ b) (a ++ u2 ++ b) {} =
      runTail Gen.cfgS (a ++ u2 ++ b) (u2 ++ b) ⟨st, a.length, s, f :: fs⟩ := by
    conv => lhs; arg 3; rw [List.append_assoc]
    exact runTail_append_ok hA2 _
  rw [g1, g2]
  apply ERel.eq_of_all₂
  apply runTail_ctx TokRel.eq Gen.cfgS (a ++ u1) (a ++ u2) b
  rw [gap_after_pending _ u1 h1 c1 r1 e1 o ho st a.length s f fs hl1,
    gap_after_pending _ u2 h2 c2 r2 e2 o ho st a.length s f fs hl2]
  have w1 : win (a ++ u1 ++ b) ⟨st, a.length, s, f :: fs⟩ a.length = win a ⟨st, a.length, s, f :: fs⟩ a.length := by
    rw [List.append_assoc]; exact win_context a _ st s _
  have w2 : win (a ++ u2 ++ b) ⟨st, a.length, s, f :: fs⟩ a.length = win a ⟨st, a.length, s, f :: fs⟩ a.length := by
    rw [List.append_assoc]; exact win_context a _ st s _
  rw [w1, w2]
  exact ⟨rfl, TokRel.eq.reflS _, 0, 0, by simp, by simp, by simp, by simp⟩

/-- the states in which a blank and a line break end the pending token by one and the same operation -/
def blankEnded (s : S) : Bool :=
  match Gen.cfgS.lookup s (.ch ' '), Gen.cfgS.lookup s (.ch '\n') with
  | some o1, some o2 => o1 == o2 && endsBefore o1
  | _, _ => false

/-- they are: after an operator character, in a number of any kind, after `b`/`x`, after the closing quote of a string,
in a word -/
example : allS.filter blankEnded =
    [.AFTER_21, .AFTER_26, .AFTER_2D, .AFTER_2F, .AFTER_3C, .AFTER_3C_3D, .AFTER_3E, .AFTER_7C, .AFTER_0, .AFTER_B, .AFTER_X,
     .IN_HEX_LITERAL_AFTER_0X, .IN_BIT_LITERAL_AFTER_0B, .IN_INT, .IN_FLOAT, .IN_DOUBLE_QUOTE_AFTER_22,
     .IN_SINGLE_QUOTE_AFTER_27, .IN_WORD] := by decide +kernel

theorem blankEnded_spec (s : S) (h : blankEnded s = true) (c : Char) (hc : c = ' ' ∨ c = '\n') :
    ∃ o, endsBefore o = true ∧ Gen.cfgS.lookup s (.ch ' ') = some o ∧ Gen.cfgS.lookup s (.ch c) = some o := by
  unfold blankEnded at h
  cases h1 : Gen.cfgS.lookup s (.ch ' ') with
  | none => simp [h1] at h
  | some o1 =>
    cases h2 : Gen.cfgS.lookup s (.ch '\n') with
    | none => simp [h1, h2] at h
    | some o2 =>
      simp only [h1, h2, Bool.and_eq_true, beq_iff_eq] at h
      refine ⟨o1, h.2, rfl, ?_⟩
      rcases hc with rfl | rfl
      · exact h1
      · rw [h2, h.1]

/-- **C09.blank_run** (after an unfinished token): if after `a` the lexer is in a state that a blank ends
(`blankEnded`: word, number, operator, closed string), then for any two NON-EMPTY runs of blanks and line breaks `w`,
`w'` and any continuation `b`, the texts `a w b` and `a w' b` lex to the same result. -/
theorem blank_run_pending (a b w w' : List Char) (st : Nat) (s : S) (f : List Tok) (fs : List (List Tok))
    (hA : feedAllWith (handle Gen.cfgS a) a {} = .ok ⟨st, a.length, s, f :: fs⟩) (hs : blankEnded s = true)
    (hw : isBlanks w) (hw' : isBlanks w') (hne : w ≠ []) (hne' : w' ≠ []) :
    lexText Gen.cfgS (a ++ w ++ b) = lexText Gen.cfgS (a ++ w' ++ b) := by
  cases w with
  | nil => exact absurd rfl hne
  | cons c1 r1 =>
    cases w' with
    | nil => exact absurd rfl hne'
    | cons c2 r2 =>
      obtain ⟨o, ho, hsp, hl1⟩ := blankEnded_spec s hs c1 (hw c1 (by simp))
      obtain ⟨o', _, hsp', hl2⟩ := blankEnded_spec s hs c2 (hw' c2 (by simp))
      have : o' = o := by rw [hsp] at hsp'; exact (Option.some.inj hsp').symm
      subst this
      exact gap_irrelevant_pending a b _ _ st s f fs hA (gap_blanks _ hw) (gap_blanks _ hw') c1 c2 r1 r2 rfl rfl o' ho
        hl1 hl2

/-- **C09.comment_as_blank** (after an unfinished token): in a state where `/` ends the pending token by the same
operation as a blank, a block comment separates exactly like one blank: `ab/* p */cd` lexes as `ab cd`. -/
theorem comment_as_blank_pending (a b p : List Char) (st : Nat) (s : S) (f : List Tok) (fs : List (List Tok))
    (hA : feedAllWith (handle Gen.cfgS a) a {} = .ok ⟨st, a.length, s, f :: fs⟩) (o : Op) (ho : endsBefore o = true)
    (hl1 : Gen.cfgS.lookup s (.ch '/') = some o) (hl2 : Gen.cfgS.lookup s (.ch ' ') = some o)
    (hp : hasBlockEnd p = false) :
    lexText Gen.cfgS (a ++ '/' :: '*' :: (p ++ ['*', '/']) ++ b) = lexText Gen.cfgS (a ++ [' '] ++ b) :=
  gap_irrelevant_pending a b _ _ st s f fs hA (gap_block p hp) (gap_blank ' ' (Or.inl rfl)) '/' ' ' _ _ rfl rfl o ho hl1 hl2

/-- the states to which `comment_as_blank_pending` applies: all of `blankEnded` -/
example : (allS.filter blankEnded).all (fun s =>
    Gen.cfgS.lookup s (.ch '/') == Gen.cfgS.lookup s (.ch ' ')) = true := by decide +kernel

/-- non-vacuity of the pending forms: after `SELECT ab` the lexer is inside the word `ab` -/
example : (match feedAllWith (handle Gen.cfgS "SELECT ab".toList) "SELECT ab".toList {} with
      | .ok m => m.start == 7 && m.now == 9 && m.status == .IN_WORD && stackEqb m.stack [[.single "SELECT".toList 0]]
      | .error _ => false) = true ∧ blankEnded .IN_WORD = true ∧
    lexesTo (lex Gen.cfgS "SELECT ab \n cd".toList) [.single "SELECT".toList 0, .single "ab".toList 2, .single "cd".toList 2] = true ∧
    lexesTo (lex Gen.cfgS "SELECT ab/* ' */cd".toList) [.single "SELECT".toList 0, .single "ab".toList 2, .single "cd".toList 2] = true := by
  decide +kernel

/-! ## keyword case -/

/-- the marks of a word depend only on its upper-case form -/
theorem wordMark_upper (v w : List Char) (h : Gen.cfgS.upper v = Gen.cfgS.upper w) : wordMark v = wordMark w := by
  simp only [wordMark, resolveMarks, h]

/-- what `keyword_case` checks for one entry of the keyword table: every letter-case variant of the keyword has the
entry's marks and lexes to exactly one token carrying them -/
def caseOK (e : String × Nat) : Bool :=
  (caseVariants e.1.toList).all fun v => wordMark v == e.2 && lexesTo (lex Gen.cfgS v) [.single v e.2]

/-- **C09.keyword_case**: for EVERY entry of the keyword table `HANDLE_WORD_TO_MARK_HASH` (regenerated) and EVERY
letter-case variant of its keyword (2^length of them), the variant lexes to one token with the entry's marks — so the
letter case of a keyword never changes the token classes the parser sees. -/
theorem keyword_case : Gen.wordMarks.all caseOK = true := by decide +kernel

/-- non-vacuity: the table is not empty, and the number of variants checked -/
example : Gen.wordMarks.length = 27 ∧ ((Gen.wordMarks.map fun e => (caseVariants e.1.toList).length).foldl (· + ·) 0) = 1292 ∧
    "iNtErSeCt".toList ∈ caseVariants "INTERSECT".toList := by decide +kernel

end C09
