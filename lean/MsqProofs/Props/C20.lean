import MsqModel.Scan
import MsqModel.Gen.LexShipped
/-!
# C20 — the extension surface behaves as documented for plug-ins

(a) the token cursor: peeking is side-effect free by construction (peek methods return no scanner);
a successful `search_and_move*` advances by exactly the pattern length, a failed one not at all; `close`
fails iff something is left; `match` is stated as it is.  The suffix view links the cursor to the
primitives the parser model uses.  (b) the MyBatis lexer: intercept facts on the GENERATED table.
-/
open Lex
namespace C20
open Scan Scan.Scanner

/-! ## (a) cursor -/

theorem andMove_success (s : Scanner) (ok : Bool) (n : Nat) (h : (s.andMove ok n).1 = true) :
    (s.andMove ok n).2.pos = s.pos + n ∧ (s.andMove ok n).2.elems = s.elems := by
  unfold andMove at *; split <;> simp_all [move]

theorem andMove_failure (s : Scanner) (ok : Bool) (n : Nat) (h : (s.andMove ok n).1 = false) :
    (s.andMove ok n).2 = s := by
  unfold andMove at *; split <;> simp_all

/-- every `search_and_move*` method: success ⇒ exactly the pattern length, failure ⇒ not at all -/
theorem searchAndMove_spec (s : Scanner) (ps : List Pat) :
    ((s.searchAndMove ps).1 = true → (s.searchAndMove ps).2.pos = s.pos + ps.length)
    ∧ ((s.searchAndMove ps).1 = false → (s.searchAndMove ps).2 = s) :=
  ⟨fun h => (andMove_success s _ _ h).1, andMove_failure s _ _⟩

theorem searchAndMove_one_spec (s : Scanner) (k : String) :
    ((s.searchAndMoveOneTypeStrUseUpper k).1 = true → (s.searchAndMoveOneTypeStrUseUpper k).2.pos = s.pos + 1)
    ∧ ((s.searchAndMoveOneTypeStrUseUpper k).1 = false → (s.searchAndMoveOneTypeStrUseUpper k).2 = s) :=
  ⟨fun h => (andMove_success s _ _ h).1, andMove_failure s _ _⟩

theorem searchAndMove_two_spec (s : Scanner) (a b : String) :
    ((s.searchAndMoveTwoTypeStrUseUpper a b).1 = true → (s.searchAndMoveTwoTypeStrUseUpper a b).2.pos = s.pos + 2)
    ∧ ((s.searchAndMoveTwoTypeStrUseUpper a b).1 = false → (s.searchAndMoveTwoTypeStrUseUpper a b).2 = s) :=
  ⟨fun h => (andMove_success s _ _ h).1, andMove_failure s _ _⟩

theorem searchAndMove_three_spec (s : Scanner) (a b c : String) :
    ((s.searchAndMoveThreeTypeStrUseUpper a b c).1 = true → (s.searchAndMoveThreeTypeStrUseUpper a b c).2.pos = s.pos + 3)
    ∧ ((s.searchAndMoveThreeTypeStrUseUpper a b c).1 = false → (s.searchAndMoveThreeTypeStrUseUpper a b c).2 = s) :=
  ⟨fun h => (andMove_success s _ _ h).1, andMove_failure s _ _⟩

/-- a successful search means the pattern really is there: every pattern matches the token at its offset -/
theorem search_sound (s : Scanner) (ps : List Pat) (h : s.search ps = true) :
    s.pos + ps.length ≤ s.len := by
  unfold search at h
  split at h
  · simp at h
  · omega

/-- `close` reports leftovers: it fails iff the cursor is not at (or past) the end -/
theorem close_spec (s : Scanner) : (s.close = .ok ()) ↔ s.pos ≥ s.elems.length := by
  unfold close isFinish len
  split <;> simp_all

/-- `pop` advances by one and never past a missing element -/
theorem pop_spec (s : Scanner) (t : Tok) (s' : Scanner) (h : s.pop = .ok (t, s')) :
    s'.pos = s.pos + 1 ∧ s'.elems = s.elems ∧ s.elems[s.pos]? = some t := by
  unfold pop at h
  split at h <;> simp_all
  obtain ⟨rfl, rfl⟩ := h; simp

/-- `match`: the cursor only moves forward, by at most the pattern length; a successful match advances
by exactly the pattern length; a failed one stops behind the token it rejected (as the code is) -/
theorem match_forward (s : Scanner) (ps : List Pat) :
    s.pos ≤ (s.matchPats ps).2.pos ∧ (s.matchPats ps).2.pos ≤ s.pos + ps.length ∧ (s.matchPats ps).2.elems = s.elems := by
  induction ps generalizing s with
  | nil => simp [matchPats]
  | cons p ps ih =>
    unfold matchPats
    cases hp : s.pop with
    | error e => simp
    | ok r =>
      obtain ⟨t, s'⟩ := r
      obtain ⟨h1, h2, _⟩ := pop_spec s t s' hp
      simp only
      split
      · obtain ⟨a, b, c⟩ := ih s'
        refine ⟨by omega, by simp; omega, by rw [c, h2]⟩
      · simp [h1, h2]

theorem match_success (s : Scanner) (ps : List Pat) (s' : Scanner) (h : (s.matchPats ps).1 = .ok s') :
    s'.pos = s.pos + ps.length ∧ s' = (s.matchPats ps).2 := by
  induction ps generalizing s with
  | nil => simp [matchPats] at h ⊢; exact ⟨by rw [← h], by rw [← h]⟩
  | cons p ps ih =>
    unfold matchPats at h ⊢
    cases hp : s.pop with
    | error e => simp [hp] at h
    | ok r =>
      obtain ⟨t, s1⟩ := r
      obtain ⟨h1, _, _⟩ := pop_spec s t s1 hp
      simp only [hp] at h ⊢
      split at h
      · rename_i hm
        obtain ⟨a, b⟩ := ih s1 h
        simp only [hm, if_true]
        exact ⟨by simp; omega, b⟩
      · simp at h

/-! ### the suffix view used by the parser model -/

theorem rest_getOrNull (s : Scanner) : s.rest.head? = s.getOrNull := by
  simp [rest, getOrNull, List.head?_drop]

theorem view_searchStrUp (s : Scanner) (k : String) : PM.searchStrUp s.rest k = s.searchOneTypeStrUseUpper k := by
  unfold PM.searchStrUp searchOneTypeStrUseUpper
  have := rest_getOrNull s
  cases h : s.rest with
  | nil => simp [h] at this; simp [← this]
  | cons t r => simp [h] at this; simp [← this]

theorem view_searchStr (s : Scanner) (k : String) : PM.searchStr s.rest k = s.searchOneTypeStr k := by
  unfold PM.searchStr searchOneTypeStr
  have := rest_getOrNull s
  cases h : s.rest with
  | nil => simp [h] at this; simp [← this]
  | cons t r => simp [h] at this; simp [← this]

theorem view_searchMark (s : Scanner) (m : Nat) : PM.searchMark s.rest m = s.searchOneTypeMark m := by
  unfold PM.searchMark searchOneTypeMark
  have := rest_getOrNull s
  cases h : s.rest with
  | nil => simp [h] at this; simp [← this]
  | cons t r => simp [h] at this; simp [← this]

theorem view_move (s : Scanner) (k : Nat) : (s.move k).rest = s.rest.drop k := by
  simp [rest, move, List.drop_drop, Nat.add_comm]

theorem view_pop (s : Scanner) :
    PM.pop s.rest = (match s.pop with | .ok (t, s') => .ok (t, s'.rest) | .error e => .error e) := by
  unfold PM.pop pop
  have hg := rest_getOrNull s
  cases h : s.rest with
  | nil =>
    simp only [h, List.head?_nil, getOrNull] at hg
    simp [← hg]
  | cons t r =>
    simp only [h, List.head?_cons, getOrNull] at hg
    simp only [← hg]
    have : s.elems.drop (s.pos + 1) = r := by
      have := congrArg (List.drop 1) h
      simpa [rest, List.drop_drop, Nat.add_comm] using this
    simp [rest, this]

theorem view_close (s : Scanner) : (s.close = .ok ()) ↔ s.rest = [] := by
  rw [close_spec]; simp [rest, List.drop_eq_nil_iff]

/-! ## (b) the MyBatis lexer: facts on the generated intercept table -/

/-- an intercept can only fire in WAIT on `#`, or in the two custom states -/
theorem intercepts_states :
    Gen.mbIntercepts.all (fun i => (i.status == .WAIT && i.ch == .lit ['#']) || i.status == .CUSTOM_1 || i.status == .CUSTOM_2) = true := by
  decide

/-- the base table never enters a custom state, so without `#` the plug-in runs the base machine (the invariant of the simulation) -/
theorem base_never_custom :
    allS.all (fun s =>
      ((Gen.cfgS.rows s).all fun e => e.2.status != .CUSTOM_1 && e.2.status != .CUSTOM_2) &&
      (match Gen.cfgS.dflt s with | some o => o.status != .CUSTOM_1 && o.status != .CUSTOM_2 | none => true) &&
      (match Gen.cfgS.atEnd s with | some o => o.status != .CUSTOM_1 && o.status != .CUSTOM_2 | none => true)) = true := by
  decide +kernel

/-- a placeholder becomes ONE leaf marked NAME|CUSTOM_1 whose text is the placeholder -/
theorem placeholder_is_one_marked_name :
    lexesTo (Gen.mybatis.lex "a = #{x.y}".toList)
      [.single ['a'] 2, .single ['='] 0, .single "#{x.y}".toList (Gen.mark_NAME ||| Gen.mark_CUSTOM_1)] = true := by
  decide +kernel

/-- repaired (fix 025646c, was finding F-C20-1): a `#` comment that runs to the end of the text is handled as by the base lexer -/
theorem hash_at_end_as_base :
    lexesTo (Gen.mybatis.lex "a #".toList) [.single ['a'] 2] = true ∧ lexesTo (Gen.base.lex "a #".toList) [.single ['a'] 2] = true := by
  decide +kernel

/-- repaired (fix 025646c, was finding F-C20-2): `#` directly followed by a line break comments out nothing of the next line -/
theorem hash_newline_as_base :
    lexesTo (Gen.mybatis.lex "#\nb".toList) [.single ['b'] 2] = true ∧ lexesTo (Gen.base.lex "#\nb".toList) [.single ['b'] 2] = true := by
  decide +kernel

/-- the only intercept that leaves the custom states without emitting a placeholder re-labels the state as the base lexer's
line-comment state and hands the symbol to the base machine -/
theorem redirect_is_line_comment :
    Gen.mbIntercepts.all (fun i => match i.redirect with | some s => i.status == .CUSTOM_1 && s == .IN_EXPLAIN_1 && i.ch == .any | none => true) = true := by
  decide

/-- an unterminated placeholder is rejected, not turned into a token -/
theorem unterminated_placeholder_rejected :
    (match Gen.mybatis.lex "a #{x".toList with | .error .lexical => true | _ => false) = true := by
  decide +kernel

end C20
