import MsqModel.Scan
import MsqModel.Gen.LexShipped
import MsqProofs.Lemmas.MyBatisSim
/-!
# C20 — the extension surface behaves as documented for plug-ins

(a) the token cursor: peeking is side-effect free by construction (peek methods return no scanner);
a successful `search_and_move*` advances by exactly the pattern length, a failed one not at all; `close`
fails iff something is left; `match` is stated as it is.  The suffix view links the cursor to the
primitives the parser model uses.  (b) the MyBatis lexer: intercept facts on the GENERATED table.
-/
open Lex
namespace C20
open Scan Scan.Scanner

/-! ## (a) cursor -/

theorem andMove_success (s : Scanner) (ok : Bool) (n : Nat) (h : (s.andMove ok n).1 = true) :
    (s.andMove ok n).2.pos = s.pos + n ∧ (s.andMove ok n).2.elems = s.elems := by
  unfold andMove at *; split <;> simp_all [move]

theorem andMove_failure (s : Scanner) (ok : Bool) (n : Nat) (h : (s.andMove ok n).1 = false) :
    (s.andMove ok n).2 = s := by
  unfold andMove at *; split <;> simp_all

/-- every `search_and_move*` method: success ⇒ exactly the pattern length, failure ⇒ not at all -/
theorem searchAndMove_spec (s : Scanner) (ps : List Pat) :
    ((s.searchAndMove ps).1 = true → (s.searchAndMove ps).2.pos = s.pos + ps.length)
    ∧ ((s.searchAndMove ps).1 = false → (s.searchAndMove ps).2 = s) :=
  ⟨fun h => (andMove_success s _ _ h).1, andMove_failure s _ _⟩

theorem searchAndMove_one_spec (s : Scanner) (k : String) :
    ((s.searchAndMoveOneTypeStrUseUpper k).1 = true → (s.searchAndMoveOneTypeStrUseUpper k).2.pos = s.pos + 1)
    ∧ ((s.searchAndMoveOneTypeStrUseUpper k).1 = false → (s.searchAndMoveOneTypeStrUseUpper k).2 = s) :=
  ⟨fun h => (andMove_success s _ _ h).1, andMove_failure s _ _⟩

theorem searchAndMove_two_spec (s : Scanner) (a b : String) :
    ((s.searchAndMoveTwoTypeStrUseUpper a b).1 = true → (s.searchAndMoveTwoTypeStrUseUpper a b).2.pos = s.pos + 2)
    ∧ ((s.searchAndMoveTwoTypeStrUseUpper a b).1 = false → (s.searchAndMoveTwoTypeStrUseUpper a b).2 = s) :=
  ⟨fun h => (andMove_success s _ _ h).1, andMove_failure s _ _⟩

theorem searchAndMove_three_spec (s : Scanner) (a b c : String) :
    ((s.searchAndMoveThreeTypeStrUseUpper a b c).1 = true → (s.searchAndMoveThreeTypeStrUseUpper a b c).2.pos = s.pos + 3)
    ∧ ((s.searchAndMoveThreeTypeStrUseUpper a b c).1 = false → (s.searchAndMoveThreeTypeStrUseUpper a b c).2 = s) :=
  ⟨fun h => (andMove_success s _ _ h).1, andMove_failure s _ _⟩

/-- a successful search means the pattern really is there: every pattern matches the token at its offset -/
theorem search_sound (s : Scanner) (ps : List Pat) (h : s.search ps = true) :
    s.pos + ps.length ≤ s.len := by
  unfold search at h
  split at h
  · simp at h
  · omega

/-- `close` reports leftovers: it fails iff the cursor is not at (or past) the end -/
theorem close_spec (s : Scanner) : (s.close = .ok ()) ↔ s.pos ≥ s.elems.length := by
  unfold close isFinish len
  split <;> simp_all

/-- `pop` advances by one and never past a missing element -/
theorem pop_spec (s : Scanner) (t : Tok) (s' : Scanner) (h : s.pop = .ok (t, s')) :
    s'.pos = s.pos + 1 ∧ s'.elems = s.elems ∧ s.elems[s.pos]? = some t := by
  unfold pop at h
  split at h <;> simp_all
  obtain ⟨rfl, rfl⟩ := h; simp

/-- `match`: the cursor only moves forward, by at most the pattern length; a successful match advances
by exactly the pattern length; a failed one stops behind the token it rejected (as the code is) -/
theorem match_forward (s : Scanner) (ps : List Pat) :
    s.pos ≤ (s.matchPats ps).2.pos ∧ (s.matchPats ps).2.pos ≤ s.pos + ps.length ∧ (s.matchPats ps).2.elems = s.elems := by
  induction ps generalizing s with
  | nil => simp [matchPats]
  | cons p ps ih =>
    unfold matchPats
    cases hp : s.pop with
    | error e => simp
    | ok r =>
      obtain ⟨t, s'⟩ := r
      obtain ⟨h1, h2, _⟩ := pop_spec s t s' hp
      simp only
      split
      · obtain ⟨a, b, c⟩ := ih s'
        refine ⟨by omega, by simp; omega, by rw [c, h2]⟩
      · simp [h1, h2]

theorem match_success (s : Scanner) (ps : List Pat) (s' : Scanner) (h : (s.matchPats ps).1 = .ok s') :
    s'.pos = s.pos + ps.length ∧ s' = (s.matchPats ps).2 := by
  induction ps generalizing s with
  | nil => simp [matchPats] at h ⊢; exact ⟨by rw [← h], by rw [← h]⟩
  | cons p ps ih =>
    unfold matchPats at h ⊢
    cases hp : s.pop with
    | error e => simp [hp] at h
    | ok r =>
      obtain ⟨t, s1⟩ := r
      obtain ⟨h1, _, _⟩ := pop_spec s t s1 hp
      simp only [hp] at h ⊢
      split at h
      · rename_i hm
        obtain ⟨a, b⟩ := ih s1 h
        simp only [hm, if_true]
        exact ⟨by simp; omega, b⟩
      · simp at h

/-! ### the suffix view used by the parser model -/

theorem rest_getOrNull (s : Scanner) : s.rest.head? = s.getOrNull := by
  simp [rest, getOrNull, List.head?_drop]

theorem view_searchStrUp (s : Scanner) (k : String) : PM.searchStrUp s.rest k = s.searchOneTypeStrUseUpper k := by
  unfold PM.searchStrUp searchOneTypeStrUseUpper
  have := rest_getOrNull s
  cases h : s.rest with
  | nil => simp [h] at this; simp [← this]
  | cons t r => simp [h] at this; simp [← this]

theorem view_searchStr (s : Scanner) (k : String) : PM.searchStr s.rest k = s.searchOneTypeStr k := by
  unfold PM.searchStr searchOneTypeStr
  have := rest_getOrNull s
  cases h : s.rest with
  | nil => simp [h] at this; simp [← this]
  | cons t r => simp [h] at this; simp [← this]

theorem view_searchMark (s : Scanner) (m : Nat) : PM.searchMark s.rest m = s.searchOneTypeMark m := by
  unfold PM.searchMark searchOneTypeMark
  have := rest_getOrNull s
  cases h : s.rest with
  | nil => simp [h] at this; simp [← this]
  | cons t r => simp [h] at this; simp [← this]

theorem view_move (s : Scanner) (k : Nat) : (s.move k).rest = s.rest.drop k := by
  simp [rest, move, List.drop_drop, Nat.add_comm]

theorem view_pop (s : Scanner) :
    PM.pop s.rest = (match s.pop with | .ok (t, s') => .ok (t, s'.rest) | .error e => .error e) := by
  unfold PM.pop pop
  have hg := rest_getOrNull s
  cases h : s.rest with
  | nil =>
    simp only [h, List.head?_nil, getOrNull] at hg
    simp [← hg]
  | cons t r =>
    simp only [h, List.head?_cons, getOrNull] at hg
    simp only [← hg]
    have : s.elems.drop (s.pos + 1) = r := by
      have := congrArg (List.drop 1) h
      simpa [rest, List.drop_drop, Nat.add_comm] using this
    simp [rest, this]

theorem view_close (s : Scanner) : (s.close = .ok ()) ↔ s.rest = [] := by
  rw [close_spec]; simp [rest, List.drop_eq_nil_iff]

/-! ## (b) the MyBatis lexer: facts on the generated intercept table -/

/-- an intercept can only fire in WAIT on `#`, or in the two custom states -/
theorem intercepts_states :
    Gen.mbIntercepts.all (fun i => (i.status == .WAIT && i.ch == .lit ['#']) || i.status == .CUSTOM_1 || i.status == .CUSTOM_2) = true := by
  decide

/-- the base table never enters a custom state, so without `#` the plug-in runs the base machine (the invariant of the simulation) -/
theorem base_never_custom :
    allS.all (fun s =>
      ((Gen.cfgS.rows s).all fun e => e.2.status != .CUSTOM_1 && e.2.status != .CUSTOM_2) &&
      (match Gen.cfgS.dflt s with | some o => o.status != .CUSTOM_1 && o.status != .CUSTOM_2 | none => true) &&
      (match Gen.cfgS.atEnd s with | some o => o.status != .CUSTOM_1 && o.status != .CUSTOM_2 | none => true)) = true := by
  decide +kernel

/-- a placeholder becomes ONE leaf marked NAME|CUSTOM_1 whose text is the placeholder -/
theorem placeholder_is_one_marked_name :
    lexesTo (Gen.mybatis.lex "a = #{x.y}".toList)
      [.single ['a'] 2, .single ['='] 0, .single "#{x.y}".toList (Gen.mark_NAME ||| Gen.mark_CUSTOM_1)] = true := by
  decide +kernel

/-- repaired (fix 025646c, was finding F-C20-1): a `#` comment that runs to the end of the text is handled as by the base lexer -/
theorem hash_at_end_as_base :
    lexesTo (Gen.mybatis.lex "a #".toList) [.single ['a'] 2] = true ∧ lexesTo (Gen.base.lex "a #".toList) [.single ['a'] 2] = true := by
  decide +kernel

/-- repaired (fix 025646c, was finding F-C20-2): `#` directly followed by a line break comments out nothing of the next line -/
theorem hash_newline_as_base :
    lexesTo (Gen.mybatis.lex "#\nb".toList) [.single ['b'] 2] = true ∧ lexesTo (Gen.base.lex "#\nb".toList) [.single ['b'] 2] = true := by
  decide +kernel

/-- the only intercept that leaves the custom states without emitting a placeholder re-labels the state as the base lexer's
line-comment state and hands the symbol to the base machine -/
theorem redirect_is_line_comment :
    Gen.mbIntercepts.all (fun i => match i.redirect with | some s => i.status == .CUSTOM_1 && s == .IN_EXPLAIN_1 && i.ch == .any | none => true) = true := by
  decide

/-- an unterminated placeholder is rejected, not turned into a token -/
theorem unterminated_placeholder_rejected :
    (match Gen.mybatis.lex "a #{x".toList with | .error .lexical => true | _ => false) = true := by
  decide +kernel

/-! ## (c) the MyBatis lexer is a conservative extension of the base lexer: simulation for ALL texts

`Lex.Sim.lex_conservative_sharp` (MsqProofs/Lemmas/MyBatisSim.lean) is generic in the machine; here its side conditions are
discharged by `decide` on the REGENERATED intercept list, table and operation code, so a change of the plug-in or of the
table breaks the obligation named after the fact it states. -/
open Lex.Sim

theorem mem_allCls (c : Gen.Cls) : c ∈ Gen.allCls := by cases c <;> decide

/-- obligation (table + code): no cell of the shipped table (explicit, default, END) and no `setStatus` in the code of any
operation class names CUSTOM_1 or CUSTOM_2 — started outside the custom states the base `handle` stays outside -/
theorem base_closed_under_noncustom : Gen.cfgS.avoids custom Gen.allCls = true := by decide +kernel

/-- obligation (driver constant): the END marker fed after the text is neither `#` nor `{` -/
theorem end_marker_not_hash_brace : (Gen.mybatis.endMarker != ['#'] && Gen.mybatis.endMarker != ['{']) = true := by decide

/-- obligation (plug-in): for `#` in WAIT the plug-in runs, without redirect, an operation whose normal form is
`add_cache_to` (advance, keep the window, go to the own status) with own status CUSTOM_1 -/
theorem hash_in_wait_plugin :
    (match Gen.mybatis.intercepts.find? (fun i => i.fires Gen.mybatis.endMarker .WAIT (.ch '#')) with
     | some i => i.redirect.isNone && i.op.status == .CUSTOM_1 && summarize (Gen.mybatis.cfg.code i.op.cls) == some addCacheSummary
     | none => false) = true := by decide

/-- obligation (table): the base cell (WAIT, `#`) is the same normal form `add_cache_to`, with own status IN_EXPLAIN_1 -/
theorem hash_in_wait_base :
    (match Gen.mybatis.cfg.lookup .WAIT (.ch '#') with
     | some o => o.status == .IN_EXPLAIN_1 && summarize (Gen.mybatis.cfg.code o.cls) == some addCacheSummary
     | none => false) = true := by decide +kernel

/-- obligation (plug-in): in CUSTOM_1 the intercepts before the catch-all test for `{`, and the catch-all only re-labels
the state as IN_EXPLAIN_1 and calls the base `handle` (sharpens `redirect_is_line_comment`: it is the one that fires) -/
theorem after_hash_brace_or_redirect : redirectsAfter .CUSTOM_1 .IN_EXPLAIN_1 ['{'] Gen.mybatis.intercepts = true := by decide

/-- obligation (pre-pass): every replacement text of `preproc_sql` is non-empty and free of `#` and `{` -/
theorem pre_pass_clean : Gen.cfgS.preChain.all (fun pr => cleanRep pr.2) = true := by decide

/-- all side conditions of the simulation hold of the shipped plug-in -/
theorem mybatis_consExt : ConsExt Gen.mybatis Gen.allCls where
  cls_all := mem_allCls
  base_closed := base_closed_under_noncustom
  states := intercepts_states
  marker := end_marker_not_hash_brace
  opener := hash_in_wait_plugin
  base_cell := hash_in_wait_base
  after := after_hash_brace_or_redirect

theorem base_lex (text : List Char) : Gen.base.lex text = Lex.lex Gen.cfgS text :=
  lex_no_intercepts Gen.base rfl text

/-- the RAW text nowhere contains `#` directly followed by `{` -/
def NoPlaceholderOpener (text : List Char) : Prop := ¬ (['#', '{'] <:+: text)

/-- decided by one scan (`hasOpener`), so `decide` works on concrete texts -/
instance (text : List Char) : Decidable (NoPlaceholderOpener text) :=
  decidable_of_iff (hasOpener text = false) (by rw [NoPlaceholderOpener, ← hasOpener_iff]; simp)

/-- the pre-pass (`preproc_sql`) cannot create `#{` -/
theorem pre_keeps_no_opener (text : List Char) (h : NoPlaceholderOpener text) : ¬ (['#', '{'] <:+: Gen.cfgS.pre text) :=
  (noOpener_iff _).mp (preWith_noOpener _ text pre_pass_clean ((noOpener_iff text).mpr h))

/-- **conservative extension, pre-processed form** (weakest plain hypothesis): no `#{` in `preproc_sql(text)` -/
theorem conservative_extension_pre (text : List Char) (h : ¬ (['#', '{'] <:+: Gen.cfgS.pre text)) :
    Gen.mybatis.lex text = Gen.base.lex text := by
  rw [base_lex]; exact lex_conservative mybatis_consExt text h

/-- **conservative extension**: for EVERY text without `#{` — any length, any characters, well-formed SQL or not — the
MyBatis lexer returns exactly what the base lexer returns: the same token tree, or the same error -/
theorem conservative_extension (text : List Char) (h : NoPlaceholderOpener text) :
    Gen.mybatis.lex text = Gen.base.lex text :=
  conservative_extension_pre text (pre_keeps_no_opener text h)

/-- every `#{` of the pre-processed text is one whose `#` the BASE lexer does not consume in state WAIT (it lies in a
string literal, a quoted name, a comment, …) -/
def PlaceholderOpenersHarmless (text : List Char) : Prop := Harmless Gen.cfgS (Gen.cfgS.pre text)

/-- **conservative extension, sharp form**: only a `#` consumed in WAIT and directly followed by `{` makes a difference -/
theorem conservative_extension_sharp (text : List Char) (h : PlaceholderOpenersHarmless text) :
    Gen.mybatis.lex text = Gen.base.lex text := by
  rw [base_lex]; exact lex_conservative_sharp mybatis_consExt text h

/-- the plain hypothesis is a special case of the sharp one -/
theorem harmless_of_no_opener (text : List Char) (h : NoPlaceholderOpener text) : PlaceholderOpenersHarmless text :=
  fun p q _ ht _ => absurd ⟨p, q, by simp [ht]⟩ (pre_keeps_no_opener text h)

/-! ### non-vacuity -/

/-- the hypothesis holds for texts with `#` comments … -/
example : NoPlaceholderOpener "a # c\nb".toList := by decide +kernel
/-- … for which both lexers do produce tokens (the comment is dropped under the shipped options) -/
example : lexesTo (Gen.mybatis.lex "a # c\nb".toList) [.single ['a'] 2, .single ['b'] 2] = true := by decide +kernel
example : Gen.mybatis.lex "a # c\nb".toList = Gen.base.lex "a # c\nb".toList := conservative_extension _ (by decide +kernel)

/-- the hypothesis is needed: with a placeholder the two lexers differ (one marked name vs. a dropped line comment) -/
theorem differs_on_placeholder :
    lexesTo (Gen.mybatis.lex "a = #{x}".toList) [.single ['a'] 2, .single ['='] 0, .single "#{x}".toList (Gen.mark_NAME ||| Gen.mark_CUSTOM_1)] = true
    ∧ lexesTo (Gen.base.lex "a = #{x}".toList) [.single ['a'] 2, .single ['='] 0] = true
    ∧ ¬ NoPlaceholderOpener "a = #{x}".toList ∧ ¬ PlaceholderOpenersHarmless "a = #{x}".toList := by
  refine ⟨by decide +kernel, by decide +kernel, by decide +kernel, fun h => ?_⟩
  have h1 := conservative_extension_sharp _ h
  have h2 : lexesTo (Gen.mybatis.lex "a = #{x}".toList) [.single ['a'] 2, .single ['='] 0] = false := by decide +kernel
  have h3 : lexesTo (Gen.base.lex "a = #{x}".toList) [.single ['a'] 2, .single ['='] 0] = true := by decide +kernel
  rw [h1, h3] at h2; exact absurd h2 (by decide)

/-- the sharp hypothesis holds, and the plain one fails, for `#{` inside a string literal and behind `--` -/
example : PlaceholderOpenersHarmless "a = '#{x}' -- #{y}".toList ∧ ¬ NoPlaceholderOpener "a = '#{x}' -- #{y}".toList :=
  ⟨harmless_of_harmlessB _ _ (by decide +kernel), by decide +kernel⟩

/-! ## (d) the complement: a placeholder read in WAIT becomes one marked name -/

theorem mb_handle_wait_hash (text : List Char) (m : Mem) (hs : m.status = .WAIT) :
    Gen.mybatis.handle text m (.ch '#') = .ok ({ m with now := m.now + 1, status := .CUSTOM_1 }, true) := by
  simp [Machine.handle, Gen.mybatis, Gen.mbIntercepts, Intercept.fires, Sym.pyStr, hs, exec, Gen.Cls.code, Gen.Cfg7.cfg]

theorem mb_handle_c1_brace (text : List Char) (m : Mem) (hs : m.status = .CUSTOM_1) :
    Gen.mybatis.handle text m (.ch '{') = .ok ({ m with now := m.now + 1, status := .CUSTOM_2 }, true) := by
  simp [Machine.handle, Gen.mybatis, Gen.mbIntercepts, Intercept.fires, Sym.pyStr, hs, exec, Gen.Cls.code, Gen.Cfg7.cfg]

theorem mb_handle_c2_other (text : List Char) (m : Mem) (c : Char) (hs : m.status = .CUSTOM_2) (hc : c ≠ '}') :
    Gen.mybatis.handle text m (.ch c) = .ok ({ m with now := m.now + 1, status := .CUSTOM_2 }, true) := by
  simp [Machine.handle, Gen.mybatis, Gen.mbIntercepts, Intercept.fires, Sym.pyStr, hs, Ne.symm hc, exec, Gen.Cls.code, Gen.Cfg7.cfg]

theorem mb_handle_c2_close (text : List Char) (m : Mem) (f : List Tok) (fs : List (List Tok)) (hs : m.status = .CUSTOM_2)
    (hst : m.stack = f :: fs) :
    Gen.mybatis.handle text m (.ch '}') =
      .ok ({ start := m.now + 1, now := m.now + 1, status := .WAIT,
             stack := (f ++ [.single ((text.drop m.start).take (m.now + 1 - m.start)) (Gen.mark_NAME ||| Gen.mark_CUSTOM_1)]) :: fs }, true) := by
  simp [Machine.handle, Gen.mybatis, Gen.mbIntercepts, Intercept.fires, Sym.pyStr, hs, hst, exec, Gen.Cls.code, Gen.Cfg7.cfg,
    appendTop, resolveMarks, Cfg.env, Gen.mark_NAME, Gen.mark_CUSTOM_1]

theorem mb_handle_wait_eof (text : List Char) (m : Mem) (hs : m.status = .WAIT) :
    Gen.mybatis.handle text m .eof = .ok ({ m with status := .END }, true) := by
  simp [Machine.handle, Gen.mybatis, Gen.mbIntercepts, Intercept.fires, Sym.pyStr, hs, exec, Gen.Cls.code, Gen.Cfg7.cfg,
    Lex.handle, Cfg.lookup, Gen.Cfg7.atEnd, Gen.Cfg7.o51, Gen.endMarker]

/-- the payload: every character other than `}` is added to the window -/
theorem mb_feed_payload (text : List Char) : ∀ (p : List Char) (m : Mem), m.status = .CUSTOM_2 → '}' ∉ p →
    feedAllWith (Gen.mybatis.handle text) p m = .ok { m with now := m.now + p.length }
  | [], m, _, _ => by simp [feedAllWith]
  | c :: p, m, hs, hp => by
    simp only [List.mem_cons, not_or] at hp
    have h1 := mb_handle_c2_other text m c hs (Ne.symm hp.1)
    simp only [feedAllWith, feedWith, h1]
    rw [mb_feed_payload text p _ rfl hp.2]
    simp [Nat.add_assoc, Nat.add_comm 1, hs]

/-- **placeholder step**: in WAIT with an empty window, at a position where the text continues with `#{p}` (`p` any
payload without `}` — line breaks, quotes, `#`, `{` allowed), reading `#{p}` appends exactly ONE leaf to the open frame,
marked NAME|CUSTOM_1, whose text is the placeholder, and leaves the machine in WAIT with an empty window behind it -/
theorem placeholder_step (text p rest : List Char) (m : Mem) (f : List Tok) (fs : List (List Tok))
    (hst : m.status = .WAIT) (hwin : m.start = m.now) (hstack : m.stack = f :: fs)
    (htext : text.drop m.now = '#' :: '{' :: p ++ '}' :: rest) (hp : '}' ∉ p) :
    feedAllWith (Gen.mybatis.handle text) ('#' :: '{' :: p ++ ['}']) m =
      .ok { start := m.now + (p.length + 3), now := m.now + (p.length + 3), status := .WAIT,
            stack := (f ++ [.single ('#' :: '{' :: p ++ ['}']) (Gen.mark_NAME ||| Gen.mark_CUSTOM_1)]) :: fs } := by
  have h1 := mb_handle_wait_hash text m hst
  have h2 := mb_handle_c1_brace text { m with now := m.now + 1, status := .CUSTOM_1 } rfl
  simp only [List.cons_append, feedAllWith, feedWith, h1, h2]
  rw [feedAllWith_append', mb_feed_payload text p _ rfl hp]
  simp only []
  rw [show feedAllWith (Gen.mybatis.handle text) ['}'] = fun m => feedWith (Gen.mybatis.handle text) m '}' from by
    funext m; simp only [feedAllWith]; cases feedWith (Gen.mybatis.handle text) m '}' <;> rfl]
  have h3 := mb_handle_c2_close text { start := m.start, now := m.now + 1 + 1 + p.length, status := .CUSTOM_2, stack := m.stack }
    f fs rfl hstack
  simp only [feedWith, h3]
  simp only [Except.ok.injEq, Mem.mk.injEq, List.cons.injEq, and_true, true_and]
  refine ⟨by omega, by omega, ?_⟩
  have : m.now + 1 + 1 + p.length + 1 - m.start = p.length + 3 := by omega
  rw [this, hwin, htext]
  have : ('#' :: '{' :: p) ++ '}' :: rest = ('#' :: '{' :: (p ++ ['}'])) ++ rest := by simp
  rw [this, List.take_left' (by simp)]

/-- obligation (pre-pass): the patterns of `preproc_sql` start with CR, TAB and the ideographic space -/
theorem pre_pass_heads : Gen.cfgS.preChain.map (fun pr => pr.1.head?) = [some '\r', some '\t', some (Char.ofNat 12288)] := by decide

theorem pre_id (t : List Char) (h : ∀ c ∈ t, c ≠ '\r' ∧ c ≠ '\t' ∧ c ≠ Char.ofNat 12288) : Gen.cfgS.pre t = t := by
  apply preWith_id
  intro pr hpr
  have hh : pr.1.head? ∈ Gen.cfgS.preChain.map (fun pr => pr.1.head?) := List.mem_map_of_mem hpr
  rw [pre_pass_heads] at hh
  cases hp : pr.1 with
  | nil => simp [hp] at hh
  | cons c cs =>
    refine ⟨c, cs, rfl, fun hc => ?_⟩
    have := h c hc
    simp only [hp, List.head?_cons, List.mem_cons, Option.some.injEq, List.mem_nil_iff, or_false] at hh
    rcases hh with rfl | rfl | rfl <;> simp at this

/-- **placeholder token**: for EVERY payload `p` without `}` (and without the three characters the pre-pass rewrites)
the text `#{p}` lexes to exactly one leaf, marked NAME|CUSTOM_1, whose text is the whole placeholder -/
theorem placeholder_token (p : List Char) (hp : ∀ c ∈ p, c ≠ '}' ∧ c ≠ '\r' ∧ c ≠ '\t' ∧ c ≠ Char.ofNat 12288) :
    Gen.mybatis.lex ('#' :: '{' :: p ++ ['}']) =
      .ok [.single ('#' :: '{' :: p ++ ['}']) (Gen.mark_NAME ||| Gen.mark_CUSTOM_1)] := by
  have hpre : Gen.cfgS.pre ('#' :: '{' :: p ++ ['}']) = '#' :: '{' :: p ++ ['}'] := by
    apply pre_id
    intro c hc
    simp only [List.cons_append, List.mem_cons, List.mem_append, List.mem_nil_iff, or_false] at hc
    rcases hc with rfl | rfl | hc | rfl
    · decide
    · decide
    · exact (hp c hc).2
    · decide
  have hstep := placeholder_step ('#' :: '{' :: p ++ ['}']) p [] {} [] [] rfl rfl rfl (by simp)
    (fun h => (hp _ h).1 rfl)
  unfold Machine.lex lexWith
  simp only [show Gen.mybatis.cfg = Gen.cfgS from rfl, hpre, hstep]
  rw [mb_handle_wait_eof _ _ rfl]
  simp [finish, Gen.Cfg7.cfg]

/-- the kernel-evaluated witness of section (b) is an instance -/
example : Gen.mybatis.lex "#{x.y}".toList = .ok [.single "#{x.y}".toList (Gen.mark_NAME ||| Gen.mark_CUSTOM_1)] :=
  placeholder_token "x.y".toList (by decide)

end C20
