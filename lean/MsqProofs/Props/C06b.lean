import MsqModel.Parse.Entry
import MsqModel.Print
/-!
# C06 (parser and printer half) — a literal token reaches the tree and the printed text verbatim

The lexer half (a quoted region is ONE token whose text is the region as written, whatever it contains) is `Props/C06.lean`.
Here: for EVERY token that carries the LITERAL mark — whatever its text — the element level of the expression grammar stores
exactly the token's text in a literal leaf and consumes exactly that token (`literal_leaf`), every expression layer above it hands
the leaf through unchanged when nothing follows (`literal_alone`), and the printer prints a literal leaf as exactly its text in
every dialect (`literal_printed`).  Together: the payload of a string literal is never inspected, normalised or re-quoted between
the token and the printed SQL.
-/
namespace C06
open Lex PM Ast

theorem literal_leaf (d : Gen.D) (f : Nat) (t : Tok) (r : List Tok) (h : t.has LITERAL = true) :
    pElement d (f+1) (t :: r) = .ok (.literal t.src, r) := by
  simp [pElement, h]

theorem literal_printed (d : Gen.D) (s : String) : PR.prE d (.literal s) = .ok s := by
  simp [PR.prE]

/-- nothing about the payload matters above the element level either: a literal token standing alone is the whole expression
(`hu`, `hn`, `he`: the token is not itself a unary operator sign, NOT, or the word EXISTS — true of every quoted string and number) -/
theorem literal_alone (d : Gen.D) (t : Tok) (h : t.has LITERAL = true)
    (hu : t.src ∉ Gen.unarySet d) (hn : up t.src ∉ Gen.notSet d) (he : Tok.srcEqUp t "EXISTS" = false) (f : Nat) :
    pOr d (f+10) [t] = .ok (.literal t.src, []) := by
  have e2 : ∀ f, pUnary d (f+2) [t] = .ok (.literal t.src, []) := fun f => by
    simp [pUnary, hu, literal_leaf d f t [] h]
  have e3 : ∀ f, pCompute d (f+3) [t] = .ok (.literal t.src, []) := fun f => by
    simp [pCompute, e2 f, pComputeLoop, collapse]
  have e4 : ∀ f, pKwFirst d (f+4) none [t] = .ok (.literal t.src, []) := fun f => by simp [pKwFirst, e3 f]
  have e5 : ∀ f, pKeyword d (f+5) none [t] = .ok (.literal t.src, []) := fun f => by
    simp [pKeyword, searchStrUp, he, e4 f, skipNot, pKwRest]
  have e6 : ∀ f, pCompare d (f+6) [t] = .ok (.literal t.src, []) := fun f => by simp [pCompare, e5 f, pCompareLoop]
  have e7 : ∀ f, pNot d (f+7) [t] = .ok (.literal t.src, []) := fun f => by simp [pNot, hn, e6 f]
  have e8 : ∀ f, pAnd d (f+8) [t] = .ok (.literal t.src, []) := fun f => by simp [pAnd, e7 f, pAndLoop]
  have e9 : ∀ f, pXor d (f+9) [t] = .ok (.literal t.src, []) := fun f => by simp [pXor, e8 f, pXorLoop, searchStrUp]
  simp [pOr, e9 f, pOrLoop]

-- non-vacuity (evaluated: `String` operations do not reduce in the kernel)
#guard (match pOr .MYSQL 40 [Tok.single "'-- /* ; ) SELECT'".toList 10] with | .ok (.literal s, []) => s == "'-- /* ; ) SELECT'" | _ => false)
#guard (Tok.single "'x'".toList 10).has LITERAL && !(Gen.unarySet .HIVE).contains (Tok.single "'x'".toList 10).src

end C06
