import MsqModel.Gen.WriteSet
import MsqModel.Parse.Entry
/-!
# C12 — results depend only on the input text and dialect

The models are functions, so in the model a result cannot depend on history, order or schedule; the
implementation has the property iff it agrees with the model under every history (that is what the check's
shuffled / threaded / multi-seed correspondence samples).  What is proved here: (1) a frame theorem for an
abstract system whose calls never write the shared state — history-, order- and schedule-independence
follow; (2) the frame FACT for the code as far as syntax shows it: the generated write-set report of the
modelled modules is empty (`decide`, regenerated on every run).
-/
namespace C12

/-- a system whose calls read a shared state and an input, and return an output and the new shared state -/
structure System (Shared In Out : Type) where
  run : Shared → In → Out × Shared

variable {Shared In Out : Type}

/-- no call writes the shared state -/
def System.Framed (S : System Shared In Out) : Prop := ∀ σ i, (S.run σ i).2 = σ

/-- sequential execution of a history -/
def System.exec (S : System Shared In Out) : Shared → List In → List Out × Shared
  | σ, [] => ([], σ)
  | σ, i :: is => let r := S.run σ i; let rest := S.exec r.2 is; (r.1 :: rest.1, rest.2)

theorem exec_state (S : System Shared In Out) (hF : S.Framed) (σ : Shared) (hist : List In) : (S.exec σ hist).2 = σ := by
  induction hist generalizing σ with
  | nil => rfl
  | cons i is ih => simp [System.exec, hF σ i, ih]

/-- history independence: after ANY history (valid or failing calls alike) a call returns what it returns on a fresh system -/
theorem history_independent (S : System Shared In Out) (hF : S.Framed) (σ : Shared) (hist : List In) (i : In) :
    (S.run (S.exec σ hist).2 i).1 = (S.run σ i).1 := by rw [exec_state S hF]

/-- the outputs of a history are the stand-alone outputs, call by call -/
theorem exec_outputs (S : System Shared In Out) (hF : S.Framed) (σ : Shared) (hist : List In) :
    (S.exec σ hist).1 = hist.map fun i => (S.run σ i).1 := by
  induction hist generalizing σ with
  | nil => rfl
  | cons i is ih => simp [System.exec, hF σ i, ih]

/-- order independence: running the calls in another order permutes the outputs accordingly -/
theorem order_independent (S : System Shared In Out) (hF : S.Framed) (σ : Shared) (h1 h2 : List In) (hp : h1.Perm h2) :
    ((S.exec σ h1).1).Perm ((S.exec σ h2).1) := by
  rw [exec_outputs S hF, exec_outputs S hF]; exact hp.map _

/-- schedule independence: an interleaving of atomic calls of several threads is a sequential history, so every
call returns its stand-alone output whatever the schedule (a schedule = a merge of the threads' call lists) -/
theorem schedule_independent (S : System Shared In Out) (hF : S.Framed) (σ : Shared) (schedule : List In) :
    ∀ k (hk : k < schedule.length), ((S.exec σ schedule).1)[k]? = some (S.run σ schedule[k]).1 := by
  intro k hk; simp [exec_outputs S hF, hk]

/-- the parser model as a system with a trivial shared state: it is framed by construction -/
def parserSystem : System Unit (String × Gen.D × List Char) (Except Err (Val × Nat)) :=
  ⟨fun _ i => (PM.parseText i.1 i.2.1 i.2.2, ())⟩
theorem parserSystem_framed : parserSystem.Framed := fun _ _ => rfl

/-- frame fact for the code (syntactic): no modelled module stores to a module global, a class attribute, an
operation object outside `__init__`, uses `global`/`nonlocal`, calls a mutating method on a shared object, or has
a mutable default argument -/
theorem write_set_empty : Gen.writeSet = [] := by decide

end C12
