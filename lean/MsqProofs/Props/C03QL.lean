import MsqProofs.Lemmas.LexLinkQueryMain
import MsqProofs.Props.C03Q
import MsqProofs.Props.C03L
/-!
# C03 / C01 / C02 at TEXT level: the lexer link for nested queries — the whole fragment `TQ.FragQ`

`Props/C03Q.lean` proves T-parse for nested queries on TOKENS (`C03.tquery`: the rendering `TQ.toksQ d noX q` parses to `q`).  Here the
link to TEXT is proved on the shipped (regenerated) lexer table for the WHOLE nested fragment, every dialect: besides everything of
`Props/C03L.lean` (single SELECT over operators) the productions qualified columns `` `t`.`c` ``, wildcards `*` / `t.*`, calls
`f(a, b)` / `` `s`.f(…) `` (name written directly before the bracket), aggregates `COUNT(DISTINCT x)`, both CASE forms (the `CASE x`
form is printed on several indented lines), `[NOT] IN (v, …)` (the printer writes two blanks after `NOT IN`), bracketed sub-queries
`(SELECT …)`, `[NOT] IN (SELECT …)`, `EXISTS (SELECT …)`, derived tables `(q) AS a`, schema-qualified tables `` `s.n` ``, and chains
over every set operator of `Gen.unionTypes` (operator words on their own lines).

* `C03.lex_prQ` : the printer succeeds on every fragment query with lexable payloads, prints the mirror `LexLink.prQL d q`, and lexing
  the text gives exactly `TQ.toksQ d noX q`; `C03.lex_prQ_in_context` : the same inside any text, under any bracket nesting;
* `C03.tquery_text` : text → dialect pre-pass → lexer → parser gives exactly `q`, nothing left — through `pSelectStmt`, `pStatement` and
  the model of the public entry point `parse_statements(text, dialect)` (`PM.parseStatementsText`), with the entry point's own fuel;
* `C01.query_round_trip_text` : print ∘ parse ∘ print = print (fixed point) on the nested fragment;
* `C02.lex_prE3`, `C02.tparse3_text`, `C02.tparse2_text` : the expression half (calls, CASE, IN lists, sub-queries) at text level
  through `pOr` and the public entry point `parse_logical_or_level_expression`; `C02.text_determines_tree3` : two fragment expressions
  with the same printed text are equal (nesting, brackets, argument lists all matter);
* `C03.hive_pre_query` / `C02.hive_pre_expr3` : for HIVE the pre-pass hypothesis holds whenever no payload contains `==`;
* `C03.tselect_text_instance` : the single SELECT of `Props/C03L.lean` as an instance.

**Hypotheses** besides the fragment (`LexLink.LeafQ d q` = every payload of the tree satisfies `LexLink.leafOK d`; none assumes the
link): column names printed back-quoted verbatim without back-quote / pre-pass characters (`colLex`, `qcolLex`: true of every plain
name except the pseudo columns, dialect not DB2); literal payloads the lexer reads back as ONE literal token (`litLex`: digit strings,
escape-grammar strings, literal words); names of `t.*`, functions, schemas, tables without back-quote and TAB / CR / U+3000
(`nameLex`; printed bare or back-quoted as `quoteName` decides — both are covered); aggregate names plain words; aliases plain
non-keywords (`aliasLex`).  `leafOKB` is a decidable sufficient condition.  The dialect pre-pass as in `Props/C03L.lean`: identity
for five dialects, for HIVE discharged by `hive_pre_query`, for DB2 a hypothesis (finding F-C06-1).
-/
set_option linter.unusedVariables false
set_option linter.unusedSimpArgs false
open Lex PM Ast TP TS TQ LexLink

namespace LexLink

/-! ## the two kits -/

theorem all_words_plain : allWords.all (fun k => allP k.toList) = true := by decide +kernel
theorem union_words_plain : Gen.unionTypes.all (fun e => e.2.all fun w => allP w.toList) = true := by decide +kernel
theorem all_words_occ : allWords.all (fun k => !C01.occ k.toList) = true := by decide +kernel
theorem union_words_occ : Gen.unionTypes.all (fun e => e.2.all fun w => !C01.occ w.toList) = true := by decide +kernel

/-- "no character the lexer's pre-pass rewrites" -/
def plainKit : QKit where
  Q := fun l => allP l = true
  safe := fun c => C05.plain c = true
  nil := rfl
  sep := by
    intro a b c hc ha hb
    simp only [allP, List.all_append, List.all_cons, Bool.and_eq_true] at ha hb ⊢
    exact ⟨ha, hc, hb⟩
  s_sp := by decide
  s_cm := by decide
  s_nl := by decide
  s_lp := by decide
  s_rp := by decide
  s_bq := by decide
  s_dot := by decide
  s_un := by decide
  num := allP_numeral
  words := fun k hk => (List.all_eq_true.mp all_words_plain) k hk
  cops := fun e he => (List.all_eq_true.mp compute_ops_plain) e he
  cmps := by
    intro e he x hx
    have := (List.all_eq_true.mp compare_ops_plain) e he
    rw [hx] at this
    exact this
  jws := fun e he w hw => (List.all_eq_true.mp ((List.all_eq_true.mp join_words_plain) e he)) w hw
  uws := fun e he w hw => (List.all_eq_true.mp ((List.all_eq_true.mp union_words_plain) e he)) w hw

/-- "`==` does not occur" -/
def occKit : QKit where
  Q := fun l => C01.occ l = false
  safe := fun c => c ≠ '='
  nil := rfl
  sep := by
    intro a b c hc ha hb
    rw [C01.occ_sep _ _ _ hc, ha, hb]; rfl
  s_sp := by decide
  s_cm := by decide
  s_nl := by decide
  s_lp := by decide
  s_rp := by decide
  s_bq := by decide
  s_dot := by decide
  s_un := by decide
  num := by
    intro n hn
    apply C01.occ_none
    intro x hx e; subst e
    have := (toString_nonneg n hn).2 '=' hx
    revert this; decide
  words := fun k hk => by simpa using (List.all_eq_true.mp all_words_occ) k hk
  cops := fun e he => by simpa using (List.all_eq_true.mp C01.compute_ops_occ) e he
  cmps := by
    intro e he x hx
    have := (List.all_eq_true.mp C01.compare_ops_occ) e he
    rw [hx] at this
    simpa using this
  jws := fun e he w hw => by simpa using (List.all_eq_true.mp ((List.all_eq_true.mp join_words_occ) e he)) w hw
  uws := fun e he w hw => by simpa using (List.all_eq_true.mp ((List.all_eq_true.mp union_words_occ) e he)) w hw

/-! ## the leaf hypotheses -/

/-- every payload of the query satisfies `leafOK` -/
def LeafQ (d : Gen.D) (q : Query) : Prop := On (leafOK d) (leavesQ q)
def LeafE3 (d : Gen.D) (e : Expr) : Prop := On (leafOK d) (leavesE e)
/-- no payload contains `==` -/
def noEqItem (x : LeafItem) : Prop := ∀ s ∈ strs x, C01.occ s.toList = false
def NoEqQ (q : Query) : Prop := On noEqItem (leavesQ q)
def NoEqE3 (e : Expr) : Prop := On noEqItem (leavesE e)

theorem nameLex_allP {n : String} (h : nameLex n) : allP n.toList = true := List.all_eq_true.mpr fun x hx => (h x hx).2
theorem optNameLex_allP {s : Option String} (h : optNameLex s) : ∀ y, s = some y → allP y.toList = true := by
  intro y hy; subst hy; exact nameLex_allP h

theorem litLex_allP {v : String} (hl : litLex v) : allP v.toList = true := by
  simp only [allP, List.all_eq_true]
  rcases hl with ⟨_, hd⟩ | ⟨k, body, hk, hv, _, hp⟩ | ⟨_, hp⟩
  · exact fun x hx => C05.digit_plain x (hd x hx)
  · rw [hv]
    intro x hx
    simp only [C06.QK.wrap, List.mem_cons, List.mem_append, List.mem_nil_iff, or_false] at hx
    have hq : C05.plain k.ch = true := by cases k <;> decide
    rcases hx with rfl | hx | rfl
    · exact hq
    · exact hp x hx
    · exact hq
  · exact hp

/-- the leaf hypotheses imply the plain kit's hypotheses -/
theorem plain_item (d : Gen.D) (x : LeafItem) (h : leafOK d x) : plainKit.item x := by
  intro s hs
  show allP s.toList = true
  cases x with
  | col t c =>
    cases t with
    | none =>
      simp only [strs, List.mem_singleton] at hs; subst hs
      exact List.all_eq_true.mpr fun x hx => (h.2 x hx).2
    | some t =>
      simp only [strs, List.mem_cons, List.mem_nil_iff, or_false] at hs
      rcases hs with rfl | rfl
      · exact nameLex_allP h.2.1
      · exact nameLex_allP h.2.2
  | lit v => simp only [strs, List.mem_singleton] at hs; subst hs; exact litLex_allP h
  | wild t => simp only [strs, List.mem_singleton] at hs; subst hs; exact nameLex_allP h
  | fn s0 n =>
    cases s0 with
    | none => simp only [strs, List.mem_singleton] at hs; subst hs; exact nameLex_allP h.2
    | some s0 =>
      simp only [strs, List.mem_cons, List.mem_nil_iff, or_false] at hs
      rcases hs with rfl | rfl
      · exact nameLex_allP h.1
      · exact nameLex_allP h.2
  | agg n =>
    simp only [strs, List.mem_singleton] at hs; subst hs
    exact plainL_allP _ (by rw [← isPlainName_plainL]; exact h)
  | alias a =>
    simp only [strs, List.mem_singleton] at hs; subst hs
    exact plainL_allP _ (by rw [← isPlainName_plainL]; exact h.1)
  | tbl s0 n =>
    cases s0 with
    | none => simp only [strs, List.mem_singleton] at hs; subst hs; exact nameLex_allP h.2
    | some s0 =>
      simp only [strs, List.mem_cons, List.mem_nil_iff, or_false] at hs
      rcases hs with rfl | rfl
      · exact nameLex_allP h.1
      · exact nameLex_allP h.2

theorem lv_plain {d : Gen.D} {l : List LeafItem} (h : On (leafOK d) l) : Lv d plainKit l :=
  fun x hx => ⟨h x hx, plain_item d x (h x hx)⟩
theorem lv_occ {d : Gen.D} {l : List LeafItem} (h : On (leafOK d) l) (h2 : On noEqItem l) : Lv d occKit l :=
  fun x hx => ⟨h x hx, h2 x hx⟩

end LexLink

namespace C03

/-- **C03.lex_prQ**: the printer succeeds on every fragment query with lexable payloads, prints `prQL d q`, and lexing the text gives
exactly the token rendering `toksQ d noX q`. -/
theorem lex_prQ (d : Gen.D) (q : Query) (hq : FragQ d q = true) (hl : LeafQ d q) :
    ∃ str : String, PR.prQ d q = .ok str ∧ str.toList = prQL d q ∧ Lex.lex Gen.cfgS str.toList = .ok (toksQ d noX q) := by
  have g := good_query d plainKit q hq (lv_plain hl)
  refine ⟨String.ofList (prQL d q), g.pr, String.toList_ofList, ?_⟩
  rw [String.toList_ofList, Lex.lex_plain _ _ (fun c hc => (List.all_eq_true.mp g.q) c hc)]
  exact C01.lexText_of_lx g.lx

/-- the link in context: inside any text, between tokens, before a delimiter (end of text, blank, `)`, `,`, line break), with any
current frame and frame stack — so also for the query in brackets -/
theorem lex_prQ_in_context (d : Gen.D) (q : Query) (hq : FragQ d q = true) (hl : LeafQ d q) : Lx (prQL d q) (toksQ d noX q) :=
  (good_query d plainKit q hq (lv_plain hl)).lx

/-- **C03.tquery_text**: T-parse of nested queries at TEXT level, with the entry points' own fuel. -/
theorem tquery_text (d : Gen.D) (q : Query) (hq : FragQ d q = true) (hl : LeafQ d q)
    (hpre : dialectPre d (prQL d q) = prQL d q) :
    ∃ (str : String) (ts : List Tok), PR.prQ d q = .ok str ∧
      Lex.lex Gen.cfgS (dialectPre d str.toList) = .ok ts ∧ ts = toksQ d noX q ∧
      pSelectStmt d (fuelFor ts) none ts = .ok (q, []) ∧
      pStatement d (fuelFor ts) ts = .ok (.select q, []) ∧
      parseStatementsText d str.toList = .ok [.select q] := by
  obtain ⟨str, h1, h2, h3⟩ := lex_prQ d q hq hl
  have hlex : Lex.lex Gen.cfgS (dialectPre d str.toList) = .ok (toksQ d noX q) := by rw [h2, hpre, ← h2]; exact h3
  have hp1 : pSelectStmt d (fuelFor (toksQ d noX q)) none (toksQ d noX q) = .ok (q, []) := by
    have := tquery_entry_fuel d q hq [] rfl
    simpa using this
  have hp2 : pStatement d (fuelFor (toksQ d noX q)) (toksQ d noX q) = .ok (.select q, []) := by
    have := tquery_statement d q hq [] rfl (fuelFor (toksQ d noX q)) (by simp only [fuelFor]; omega)
    simpa using this
  refine ⟨str, toksQ d noX q, h1, hlex, rfl, hp1, hp2, ?_⟩
  obtain ⟨x, hx⟩ := toksQ_head chOK_noX q hq
  unfold parseStatementsText
  simp only [hlex, pStatements]
  have hlen : (toksQ d noX q).length + 1 = ((toksQ d noX q).length - 1) + 1 + 1 := by rw [hx]; simp
  rw [hlen, statementsLoop]
  have hne : (toksQ d noX q).isEmpty = false := by rw [hx]; rfl
  simp only [hne, Bool.false_eq_true, if_false, hp2, List.nil_append, moveStr_nil]
  rw [statementsLoop]
  simp

/-- for HIVE the pre-pass hypothesis holds whenever no payload (column name, literal, call / table / alias name) contains `==` -/
theorem hive_pre_query (q : Query) (hq : FragQ .HIVE q = true) (hl : LeafQ .HIVE q) (hno : NoEqQ q) :
    dialectPre .HIVE (prQL .HIVE q) = prQL .HIVE q :=
  C01.hivePre_no_occ _ (good_query .HIVE occKit q hq (lv_occ hl hno)).q

/-- the single SELECT of `Props/C03L.lean` (fragment `TS.FragS`) as an instance, with the leaf hypotheses of this file -/
theorem tselect_text_instance (d : Gen.D) (s : Select) (hs : FragS d s = true) (hl : LeafQ d (.single s))
    (hpre : dialectPre d (prQL d (.single s)) = prQL d (.single s)) :
    ∃ (str : String) (ts : List Tok), PR.prS d s = .ok str ∧ Lex.lex Gen.cfgS (dialectPre d str.toList) = .ok ts ∧ ts = toksS d s ∧
      parseStatementsText d str.toList = .ok [.select (.single s)] := by
  obtain ⟨h1, h2⟩ := fragS_sub_query d s hs
  obtain ⟨str, ts, a, b, c, _, _, e⟩ := tquery_text d (.single s) h1 hl hpre
  exact ⟨str, ts, by simpa [PR.prQ] using a, b, by rw [c, h2], e⟩

end C03

namespace C01

/-- **C01.query_round_trip_text**: print, then the text pipeline (dialect pre-pass, lexer, parser) gives the query back; and printing
what was parsed gives the same text again — also through the statement level (`PR.prStmt` of the parsed statement). -/
theorem query_round_trip_text (d : Gen.D) (q : Query) (hq : FragQ d q = true) (hl : LeafQ d q)
    (hpre : dialectPre d (prQL d q) = prQL d q) :
    ∃ (str : String) (ts : List Tok), PR.prQ d q = .ok str ∧ Lex.lex Gen.cfgS (dialectPre d str.toList) = .ok ts ∧
      pSelectStmt d (fuelFor ts) none ts = .ok (q, []) ∧
      (∀ q', pSelectStmt d (fuelFor ts) none ts = .ok (q', []) → PR.prQ d q' = .ok str) ∧
      (∀ sts, parseStatementsText d str.toList = .ok sts → sts.map (PR.prStmt d) = [.ok str]) := by
  obtain ⟨str, ts, h1, h2, _, h3, _, h5⟩ := C03.tquery_text d q hq hl hpre
  refine ⟨str, ts, h1, h2, h3, ?_, ?_⟩
  · intro q' hq'
    rw [h3] at hq'
    simp only [Except.ok.injEq, Prod.mk.injEq, and_true] at hq'
    rw [← hq']; exact h1
  · intro sts hsts
    rw [h5] at hsts
    simp only [Except.ok.injEq] at hsts
    rw [← hsts]
    simp [PR.prStmt, h1]

end C01

namespace C02

/-- **C02.lex_prE3**: the expression half of the link — calls, aggregates, CASE, IN lists, qualified columns, wildcards, sub-queries. -/
theorem lex_prE3 (d : Gen.D) (e : Expr) (hf : FragE3 d e = true) (hl : LeafE3 d e) :
    ∃ s : String, PR.prE d e = .ok s ∧ s.toList = prE3L d e ∧ Lex.lex Gen.cfgS s.toList = .ok (toksE3 d noX e) := by
  have g := good_expr d plainKit e hf (lv_plain hl)
  refine ⟨String.ofList (prE3L d e), g.pr, String.toList_ofList, ?_⟩
  rw [String.toList_ofList, Lex.lex_plain _ _ (fun c hc => (List.all_eq_true.mp g.q) c hc)]
  exact C01.lexText_of_lx g.lx

theorem lex_prE3_in_context (d : Gen.D) (e : Expr) (hf : FragE3 d e = true) (hl : LeafE3 d e) : Lx (prE3L d e) (toksE3 d noX e) :=
  (good_expr d plainKit e hf (lv_plain hl)).lx

/-- **C02.tparse3_text**: T-parse of nested expressions at TEXT level: text → pre-pass → lexer → `pOr` with the entry point's fuel
gives the tree back, nothing left; the model of the public entry point `parse_logical_or_level_expression(text, dialect)` returns
`(e, 0)`; printing the result gives the same text. -/
theorem tparse3_text (d : Gen.D) (e : Expr) (hf : FragE3 d e = true) (hl : LeafE3 d e)
    (hpre : dialectPre d (prE3L d e) = prE3L d e) :
    ∃ (s : String) (ts : List Tok), PR.prE d e = .ok s ∧ Lex.lex Gen.cfgS (dialectPre d s.toList) = .ok ts ∧ ts = toksE3 d noX e ∧
      pOr d (fuelFor ts) ts = .ok (e, []) ∧
      PM.parseText "logical_or_level_expression" d s.toList = .ok (e.toVal, 0) ∧
      (∀ e', pOr d (fuelFor ts) ts = .ok (e', []) → PR.prE d e' = .ok s) := by
  obtain ⟨s, hs, hsl, hlex⟩ := lex_prE3 d e hf hl
  have hlex2 : Lex.lex Gen.cfgS (dialectPre d s.toList) = .ok (toksE3 d noX e) := by rw [hsl, hpre, ← hsl]; exact hlex
  have hp : pOr d (fuelFor (toksE3 d noX e)) (toksE3 d noX e) = .ok (e, []) := by
    have := tparse3 d e hf [] rfl (fuelFor (toksE3 d noX e)) (by simp only [fuelFor]; omega)
    simpa using this
  refine ⟨s, toksE3 d noX e, hs, hlex2, rfl, hp, ?_, ?_⟩
  · unfold PM.parseText
    have he := C01.entry_or
    cases hfd : PM.entries.find? (·.1 == "logical_or_level_expression") with
    | none => rw [hfd] at he; cases he
    | some pr =>
      rw [hfd] at he
      simp only [Option.map_some, Option.some.injEq] at he
      obtain ⟨nm, p⟩ := pr
      simp only at he
      subst he
      simp only [hlex2, PM.exprEntry, hp, List.length_nil]
  · intro e' he'
    rw [hp] at he'
    simp only [Except.ok.injEq, Prod.mk.injEq, and_true] at he'
    rw [← he']; exact hs

/-- `C02.tparse2` (Props/C02T2.lean: calls, CASE, IN lists, qualified columns, wildcards over the operator fragment) lifted to TEXT -/
theorem tparse2_text (d : Gen.D) (e : Expr) (hf : TP2.Frag2 d e = true) (hl : LeafE3 d e)
    (hpre : dialectPre d (prE3L d e) = prE3L d e) :
    ∃ (s : String) (ts : List Tok), PR.prE d e = .ok s ∧ Lex.lex Gen.cfgS (dialectPre d s.toList) = .ok ts ∧ ts = TP2.toksE2 d noX e ∧
      pOr d (fuelFor ts) ts = .ok (e, []) ∧ PM.parseText "logical_or_level_expression" d s.toList = .ok (e.toVal, 0) := by
  obtain ⟨h1, h2⟩ := frag2_sub_all d noX e hf
  obtain ⟨s, ts, a, b, c, p, en, _⟩ := tparse3_text d e h1 hl hpre
  exact ⟨s, ts, a, b, by rw [c, h2], p, en⟩

/-- equal renderings, equal trees (expressions) -/
theorem rendering_determines_expr3 (d : Gen.D) (e e' : Expr) (hf : FragE3 d e = true) (hf' : FragE3 d e' = true)
    (h : toksE3 d noX e = toksE3 d noX e') : e = e' := by
  have a := tparse3 d e hf [] rfl (20 * sizeL (toksE3 d noX e) + 15) (Nat.le_refl _)
  have b := tparse3 d e' hf' [] rfl (20 * sizeL (toksE3 d noX e) + 15) (by rw [h]; exact Nat.le_refl _)
  rw [← h, a] at b
  simp only [Except.ok.injEq, Prod.mk.injEq, and_true] at b
  exact b

/-- **C02.text_determines_tree3**: two expressions of the nested fragment with the same printed TEXT are equal — brackets, argument
lists, CASE arms, sub-queries all are read back -/
theorem text_determines_tree3 (d : Gen.D) (e e' : Expr) (hf : FragE3 d e = true) (hf' : FragE3 d e' = true)
    (hl : LeafE3 d e) (hl' : LeafE3 d e') (h : PR.prE d e = PR.prE d e') : e = e' := by
  obtain ⟨s, hs, _, hlex⟩ := lex_prE3 d e hf hl
  obtain ⟨s', hs', _, hlex'⟩ := lex_prE3 d e' hf' hl'
  rw [hs, hs'] at h
  simp only [Except.ok.injEq] at h
  subst h
  rw [hlex] at hlex'
  simp only [Except.ok.injEq] at hlex'
  exact rendering_determines_expr3 d e e' hf hf' hlex'

/-- … and queries -/
theorem text_determines_query (d : Gen.D) (q q' : Query) (hq : FragQ d q = true) (hq' : FragQ d q' = true)
    (hl : LeafQ d q) (hl' : LeafQ d q') (h : PR.prQ d q = PR.prQ d q') : q = q' := by
  obtain ⟨s, hs, _, hlex⟩ := C03.lex_prQ d q hq hl
  obtain ⟨s', hs', _, hlex'⟩ := C03.lex_prQ d q' hq' hl'
  rw [hs, hs'] at h
  simp only [Except.ok.injEq] at h
  subst h
  rw [hlex] at hlex'
  simp only [Except.ok.injEq] at hlex'
  exact C03.rendering_determines_query d q q' hq hq' hlex'

theorem hive_pre_expr3 (e : Expr) (hf : FragE3 .HIVE e = true) (hl : LeafE3 .HIVE e) (hno : NoEqE3 e) :
    dialectPre .HIVE (prE3L .HIVE e) = prE3L .HIVE e :=
  C01.hivePre_no_occ _ (good_expr .HIVE occKit e hf (lv_occ hl hno)).q

end C02

/-! ## a decidable form of the leaf hypotheses -/
namespace C03

def optNameLexB : Option String → Bool | none => true | some s => nameLexB s
def leafOKB (d : Gen.D) : LeafItem → Bool
  | .col none c => C01.colLexB d c
  | .col (some t) c => nameLexB t && nameLexB c && !C01.specialsL.contains c.toList && d != .DB2
  | .lit v => C01.litLexB v
  | .wild t => nameLexB t
  | .fn s n => optNameLexB s && nameLexB n
  | .agg n => PR.isPlainName n
  | .alias a => aliasLexB a
  | .tbl s n => optNameLexB s && nameLexB n
def leafQB (d : Gen.D) (q : Query) : Bool := (leavesQ q).all (leafOKB d)
def leafEB (d : Gen.D) (e : Expr) : Bool := (leavesE e).all (leafOKB d)
def noEqB (l : List LeafItem) : Bool := l.all fun x => (strs x).all fun s => !C01.occ s.toList

theorem nameLex_of_B (n : String) (h : nameLexB n = true) : nameLex n := by
  simp only [nameLexB, Bool.and_eq_true, List.all_eq_true, bne_iff_ne, ne_eq] at h
  exact fun x hx => h x hx
theorem optNameLex_of_B (s : Option String) (h : optNameLexB s = true) : optNameLex s := by
  cases s with
  | none => trivial
  | some s => exact nameLex_of_B s h

theorem qcolLex_of_B (d : Gen.D) (t c : String) (h1 : nameLexB t = true) (h2 : nameLexB c = true)
    (h3 : C01.specialsL.contains c.toList = false) (h4 : d ≠ .DB2) : qcolLex d t c := by
  refine ⟨?_, nameLex_of_B t h1, nameLex_of_B c h2⟩
  have hd' : (d == Gen.D.DB2) = false := by cases d <;> first | rfl | exact absurd rfl h4
  have hs : ["*", "CURRENT_DATE", "CURRENT_TIME", "CURRENT_TIMESTAMP"].contains c = false := by
    simp only [List.contains_eq_mem, decide_eq_false_iff_not] at h3 ⊢
    intro hm
    apply h3
    simp only [C01.specialsL, List.mem_cons, List.mem_nil_iff, or_false] at hm ⊢
    rcases hm with e | e | e | e <;> simp [e]
  have : PR.columnSrc d (some t) c = s!"`{t}`.`{c}`" := by
    unfold PR.columnSrc
    simp only [hs, hd', Bool.false_eq_true, if_false]
  rw [this]
  simp [toString, String.toList_append]

theorem leafOK_of_B (d : Gen.D) (x : LeafItem) (h : leafOKB d x = true) : leafOK d x := by
  cases x with
  | col t c =>
    cases t with
    | none => exact C01.colLex_of_B d c h
    | some t =>
      simp only [leafOKB, Bool.and_eq_true, Bool.not_eq_eq_eq_not, Bool.not_true, bne_iff_ne, ne_eq] at h
      exact qcolLex_of_B d t c h.1.1.1 h.1.1.2 h.1.2 h.2
  | lit v => exact C01.litLex_of_B v h
  | wild t => exact nameLex_of_B t h
  | fn s n =>
    simp only [leafOKB, Bool.and_eq_true] at h
    exact ⟨optNameLex_of_B s h.1, nameLex_of_B n h.2⟩
  | agg n => exact h
  | alias a => exact aliasLex_of_B a h
  | tbl s n =>
    simp only [leafOKB, Bool.and_eq_true] at h
    exact ⟨optNameLex_of_B s h.1, nameLex_of_B n h.2⟩

theorem leafQ_of_B (d : Gen.D) (q : Query) (h : leafQB d q = true) : LeafQ d q :=
  fun x hx => leafOK_of_B d x ((List.all_eq_true.mp h) x hx)
theorem leafE3_of_B (d : Gen.D) (e : Expr) (h : leafEB d e = true) : LeafE3 d e :=
  fun x hx => leafOK_of_B d x ((List.all_eq_true.mp h) x hx)
theorem noEq_of_B (l : List LeafItem) (h : noEqB l = true) : On noEqItem l := by
  intro x hx s hs
  have := (List.all_eq_true.mp ((List.all_eq_true.mp h) x hx)) s hs
  simpa using this

/-! ## non-vacuity -/

/-- calls, aggregates with DISTINCT, both CASE forms, IN list, qualified column, `t.*`, schema-qualified function -/
def ex1 : Expr := .and_ (.compare "GT" (.func none "coalesce" [qcol "t" "a", lit "0"]) (.agg "COUNT" [col "b"] true))
  (.kw .in_ true (.caseVal (col "k") [(lit "1", lit "'x'")] (some (.caseCond [(.compare "EQ" (col "a") (lit "2"), lit "3")] none)))
    (.subValue [lit "1", .func (some "s") "f" [], .unary "SUBTRACT" (lit "4")]))
def qx : Query := .single (sel [(.wildcard (some "t"), none), (ex1, some "v")] (some [.mk (.table (some "db") "tab") (some "t")]))

-- the mirror is the printer's text; the leaf hypotheses hold; the lexer gives the rendering (compiled evaluation, a test)
#guard [q1, q2, q3, q4, q5, q6, qa, qx].all fun q => [Gen.D.MYSQL, .ORACLE, .POSTGRE_SQL, .SQL_SERVER, .DEFAULT, .HIVE].all fun d =>
  (!FragQ d q) || (leafQB d q && (match PR.prQ d q with | .ok x => x.toList == prQL d q | .error _ => false) && agreesQ d q)
#guard [q1, q2, q3, q4, q5, q6, qx].all fun q => FragQ .MYSQL q && FragQ .HIVE q && noEqB (leavesQ q)
#guard FragE3 .MYSQL ex1 && leafEB .MYSQL ex1 && (match PR.prE .MYSQL ex1 with | .ok x => x.toList == prE3L .MYSQL ex1 | _ => false)
#guard (match PM.parseStatementsText .MYSQL (prQL .MYSQL q1) with
  | .ok [st] => Drv.showVal st.toVal == Drv.showVal (Stmt.select q1).toVal | _ => false)
#guard (match PM.parseStatementsText .HIVE (prQL .HIVE qx) with
  | .ok [st] => Drv.showVal st.toVal == Drv.showVal (Stmt.select qx).toVal | _ => false)
-- what the printer writes: the doubled blank after NOT IN, the indented CASE form, names directly before brackets
#guard prE3L .MYSQL (.kw .in_ true (col "a") (.subValue [lit "1", lit "2"])) == "`a` NOT IN  (1, 2)".toList &&
  prE3L .MYSQL (.caseVal (col "a") [(lit "1", lit "2")] (some (lit "3"))) == "CASE\n`a`\n    WHEN 1 THEN 2\n    ELSE 3\nEND".toList &&
  prE3L .MYSQL (.func (some "s") "select" [.wildcard none]) == "`s`.`select`(*)".toList
-- outside the hypotheses: a back-quote in a name, an alias that is a keyword
#guard !leafOKB .MYSQL (.tbl none "a`b") && !leafOKB .MYSQL (.alias "select") && leafOKB .MYSQL (.fn (some "s") "select") &&
  !leafOKB .DB2 (.col (some "t") "c")

-- instances of the theorems, hypotheses decided by the kernel: sub-queries in expressions, a derived table, a set operation
set_option maxRecDepth 100000 in
example : ∃ str ts, PR.prQ .MYSQL q5 = .ok str ∧ Lex.lex Gen.cfgS (dialectPre .MYSQL str.toList) = .ok ts ∧ ts = toksQ .MYSQL noX q5 ∧
    pSelectStmt .MYSQL (fuelFor ts) none ts = .ok (q5, []) ∧ pStatement .MYSQL (fuelFor ts) ts = .ok (.select q5, []) ∧
    parseStatementsText .MYSQL str.toList = .ok [.select q5] :=
  tquery_text .MYSQL q5 (by decide) (leafQ_of_B _ _ (by decide +kernel)) (C01.dialectPre_id _ (by decide) (by decide) _)
set_option maxRecDepth 100000 in
example : ∃ str ts, PR.prQ .HIVE q6 = .ok str ∧ Lex.lex Gen.cfgS (dialectPre .HIVE str.toList) = .ok ts ∧
    pSelectStmt .HIVE (fuelFor ts) none ts = .ok (q6, []) ∧ (∀ q', pSelectStmt .HIVE (fuelFor ts) none ts = .ok (q', []) → PR.prQ .HIVE q' = .ok str) ∧
    (∀ sts, parseStatementsText .HIVE str.toList = .ok sts → sts.map (PR.prStmt .HIVE) = [.ok str]) :=
  C01.query_round_trip_text .HIVE q6 (by decide) (leafQ_of_B _ _ (by decide +kernel))
    (hive_pre_query q6 (by decide) (leafQ_of_B _ _ (by decide +kernel)) (noEq_of_B _ (by decide +kernel)))
set_option maxRecDepth 100000 in
example : ∃ s ts, PR.prE .ORACLE ex1 = .ok s ∧ Lex.lex Gen.cfgS (dialectPre .ORACLE s.toList) = .ok ts ∧ ts = toksE3 .ORACLE noX ex1 ∧
    pOr .ORACLE (fuelFor ts) ts = .ok (ex1, []) ∧ PM.parseText "logical_or_level_expression" .ORACLE s.toList = .ok (ex1.toVal, 0) ∧
    (∀ e', pOr .ORACLE (fuelFor ts) ts = .ok (e', []) → PR.prE .ORACLE e' = .ok s) :=
  C02.tparse3_text .ORACLE ex1 (by decide) (leafE3_of_B _ _ (by decide +kernel)) (C01.dialectPre_id _ (by decide) (by decide) _)

end C03

/-! ## the old text-level link of the operator fragment (`Props/C01T.lean`) as an instance -/
namespace LexLink

/-- on the operator fragment the two mirrors agree and the old leaf hypotheses are the new ones -/
theorem frag_bridge (d : Gen.D) : ∀ (n : Nat) (e : Expr), TP.sz e ≤ n → Frag d e = true → Leaf d e →
    prE3L d e = prEL d e ∧ On (leafOK d) (leavesE e) := by
  intro n
  induction n with
  | zero => intro e he; cases e <;> simp [TP.sz] at he
  | succ n ih =>
    intro e he hf hl
    cases e <;> simp only [TP.sz] at he <;> (try simp only [Frag, Bool.and_eq_true] at hf) <;> (try simp only [Leaf] at hl) <;>
      try (cases hf; done)
    case column t c =>
      cases t with
      | some t => simp [Frag] at hf
      | none => exact ⟨rfl, by simpa [leavesE, leafOK] using hl⟩
    case literal v => exact ⟨rfl, by simpa [leavesE, leafOK] using hl⟩
    case unary o y =>
      obtain ⟨h1, h2⟩ := ih y (by omega) hf.2 hl
      exact ⟨by simp only [prE3L, prEL, h1], by simpa [leavesE] using h2⟩
    case compute l o r =>
      obtain ⟨h1, h2⟩ := ih l (by omega) hf.1.2 hl.1
      obtain ⟨h3, h4⟩ := ih r (by omega) hf.2 hl.2
      exact ⟨by simp only [prE3L, prEL, h1, h3], by simp only [leavesE, on_append]; exact ⟨h2, h4⟩⟩
    case kw k n0 l r =>
      obtain ⟨h1, h2⟩ := ih l (by omega) hf.1.2 hl.1
      obtain ⟨h3, h4⟩ := ih r (by omega) hf.2 hl.2
      exact ⟨by simp only [prE3L, prEL, h1, h3], by simp only [leavesE, on_append]; exact ⟨h2, h4⟩⟩
    case between n0 b f t =>
      obtain ⟨h1, h2⟩ := ih b (by omega) hf.1.1 hl.1
      obtain ⟨h3, h4⟩ := ih f (by omega) hf.1.2 hl.2.1
      obtain ⟨h5, h6⟩ := ih t (by omega) hf.2 hl.2.2
      exact ⟨by simp only [prE3L, prEL, h1, h3, h5], by simp only [leavesE, on_append]; exact ⟨h2, h4, h6⟩⟩
    case compare o l r =>
      obtain ⟨h1, h2⟩ := ih l (by omega) hf.1.2 hl.1
      obtain ⟨h3, h4⟩ := ih r (by omega) hf.2 hl.2
      exact ⟨by simp only [prE3L, prEL, h1, h3], by simp only [leavesE, on_append]; exact ⟨h2, h4⟩⟩
    case not_ y =>
      obtain ⟨h1, h2⟩ := ih y (by omega) hf hl
      exact ⟨by simp only [prE3L, prEL, h1], by simpa [leavesE] using h2⟩
    case and_ l r =>
      obtain ⟨h1, h2⟩ := ih l (by omega) hf.1 hl.1
      obtain ⟨h3, h4⟩ := ih r (by omega) hf.2 hl.2
      exact ⟨by simp only [prE3L, prEL, h1, h3], by simp only [leavesE, on_append]; exact ⟨h2, h4⟩⟩
    case xor l r =>
      obtain ⟨h1, h2⟩ := ih l (by omega) hf.1 hl.1
      obtain ⟨h3, h4⟩ := ih r (by omega) hf.2 hl.2
      exact ⟨by simp only [prE3L, prEL, h1, h3], by simp only [leavesE, on_append]; exact ⟨h2, h4⟩⟩
    case or_ l r =>
      obtain ⟨h1, h2⟩ := ih l (by omega) hf.1 hl.1
      obtain ⟨h3, h4⟩ := ih r (by omega) hf.2 hl.2
      exact ⟨by simp only [prE3L, prEL, h1, h3], by simp only [leavesE, on_append]; exact ⟨h2, h4⟩⟩

end LexLink

namespace C01
/-- `C01.lex_prE` (Props/C01T.lean: the lexer link of the operator fragment, with ITS mirror `prEL` and ITS leaf hypotheses `Leaf`) as an
instance of the link of the nested fragment -/
theorem lex_prE_instance (d : Gen.D) (e : Expr) (hf : Frag d e = true) (hl : Leaf d e) :
    ∃ s : String, PR.prE d e = .ok s ∧ s.toList = prEL d e ∧ Lex.lex Gen.cfgS s.toList = .ok (toksE d noX e) := by
  obtain ⟨hm, hlv⟩ := frag_bridge d (TP.sz e) e (Nat.le_refl _) hf hl
  have h2 := TP2.frag_sub d (TP.sz e) e (Nat.le_refl _) hf
  obtain ⟨h3, ht⟩ := frag2_sub_all d noX e h2
  obtain ⟨s, a, b, c⟩ := C02.lex_prE3 d e h3 hlv
  exact ⟨s, a, by rw [b, hm], by rw [c, ht, TP2.toksE2_eq d noX (TP.sz e) e (Nat.le_refl _) hf]⟩
end C01
