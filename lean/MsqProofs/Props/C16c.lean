import MsqProofs.Props.C16b
/-!
# C16 (extended, 2) — set operations, aggregates without a column argument, INSERT from the target's schema

`C16.lineage_eq_flow` and `C16.analysis_error_raised` (Props/C16b.lean) are stated for every query the specification `Flow.flowQ`
covers; `flowQ` now also covers set operations (at any level of the nesting: as the statement, as a derived table, as a WITH table)
and aggregates without a column argument, so both theorems speak about them.  This file states what the specification says there,
the hypotheses, the refused cases, and the INSERT pairing with the target's catalogue columns.
-/
namespace C16
open Ast AN LN Spec Flow LineageL

/-! ## set operations: column-wise -/

theorem refs_append (scope : Scope) : ∀ (a b : List QCol),
    refs scope (a ++ b) = (do let x ← refs scope a; let y ← refs scope b; pure (x ++ y))
  | [], b => by
    simp only [List.nil_append, refs, bind, Except.bind, pure, Except.pure]
    cases refs scope b <;> simp
  | r :: a, b => by
    simp only [List.cons_append, refs, refs_append scope a b, bind, Except.bind, pure, Except.pure]
    cases ref scope r with
    | error e => rfl
    | ok x =>
      simp only
      cases refs scope a with
      | error e => rfl
      | ok y =>
        simp only
        cases refs scope b with
        | error e => rfl
        | ok z => simp

/-- **column-wise**: when both branches have a flow over the scope, into column i of `q1 UNION q2` flows what flows into column i of
`q1` followed by what flows into column i of `q2`; the names (and positions) are those of the first branch -/
theorem union_columnwise (scope : Scope) : ∀ (its1 its2 : List (Expr × Option String)) (i : Nat) (R1 R2 : Rel),
    its1.length = its2.length → itemsGo scope its1 = .ok R1 → itemsGo scope its2 = .ok R2 →
    curFlow scope (List.zipWith (fun x y => (x.1, x.2 ++ y.2)) (Flow.curOf its1 i) (Flow.curOf its2 i))
      = .ok (number (List.zipWith (fun a b => (a.1, a.2 ++ b.2)) R1 R2) i)
  | [], [], i, R1, R2, _, h1, h2 => by
    simp [itemsGo] at h1 h2; subst h1; subst h2; rfl
  | [], _ :: _, _, _, _, h, _, _ => by simp at h
  | _ :: _, [], _, _, _, h, _, _ => by simp at h
  | a :: r1, b :: r2, i, R1, R2, h, h1, h2 => by
    simp only [itemsGo, bind, Except.bind] at h1 h2
    cases ha : refs scope (colsE a.1) with
    | error e => simp [ha] at h1
    | ok sa =>
      cases hb : refs scope (colsE b.1) with
      | error e => simp [hb] at h2
      | ok sb =>
        simp only [ha] at h1
        simp only [hb] at h2
        cases hr1 : itemsGo scope r1 with
        | error e => simp [hr1] at h1
        | ok t1 =>
          cases hr2 : itemsGo scope r2 with
          | error e => simp [hr2] at h2
          | ok t2 =>
            simp [hr1, pure, Except.pure] at h1
            simp [hr2, pure, Except.pure] at h2
            subst h1; subst h2
            have ih := union_columnwise scope r1 r2 (i + 1) t1 t2 (by simpa using h) hr1 hr2
            simp only [Flow.curOf, List.zipWith_cons_cons, curFlow, refs_append, ha, hb, ih, bind, Except.bind, pure, Except.pure, number]

/-- branches with a different number of columns: the analysis fails its `assert` (an `AssertionError`, not the analysis error — and
nothing at all under `python -O`); the specification does not cover the case -/
theorem union_arity_refused (cat : Cat) (tn : List (String × StdTable)) (st : St) (ws : Option (List WithTable)) (s s2 : Select) (t : String)
    (h1 : ∀ it ∈ Select.cols s, (itemName it).isSome = true) (h2 : ∀ it ∈ Select.cols s2, (itemName it).isSome = true)
    (hlen : (Select.cols s).length ≠ (Select.cols s2).length) :
    currentLevel cat tn (.union ws s [(t, s2)]) st = .error (.py .AssertionError) := by
  have hl : ∀ (its : List (Expr × Option String)) (i : Nat), (C16.curOf its i).length = its.length := by
    intro its; induction its with
    | nil => intro i; rfl
    | cons a r ih => intro i; simp [C16.curOf, ih]
  have : ((C16.curOf (Select.cols s) 1).length != (C16.curOf (Select.cols s2) 1).length) = true := by simpa [hl] using hlen
  have this' : ¬ (C16.curOf (Select.cols s) 1).length = (C16.curOf (Select.cols s2) 1).length := by simpa using this
  simp [currentLevel, currentLevelSingle_named cat tn _ 1 st h1, currentLevelSingle_named cat tn _ 1 st h2, bind, Except.bind,
    mergeByPos, this']

/-! ## from any state with empty stores (the provider's request log may be non-empty) -/

theorem lineage_eq_flow_from (cat : Cat) (f : Nat) (q : Query) (hy : Hygienic f q) (R : Rel) (h : flowQ cat f [] q = .ok R)
    (st : St) (h1 : st.subq = []) (h2 : st.withT = []) :
    ∃ st', selectLineage cat f q st = .ok (mkLineage (number R 1) Lineage.empty, st') := by
  have := (nest cat f).1 q [] [] st (fun n => by simp [dictGet?]) hy.1 (by simp) hy.2
    (fun n _ => by simp [h1, h2, dictGet?]) (fun n _ => by simp [h1, h2, dictGet?]) (fun n R h => by simp [dictGet?] at h)
  rw [h] at this
  obtain ⟨⟨L, st'⟩, e, hL, _⟩ := this
  exact ⟨st', by rw [e]; simp at hL; rw [hL]⟩

/-! ## INSERT … SELECT without a column list: the target's catalogue columns, by position -/

/-- the i-th column of the target table (as the catalogue declares it) receives exactly the sources of the i-th output column;
a different number of columns is refused (`insert_schema_arity`) -/
theorem insert_schema_pairing_ok (cat : Cat) (h : InsertHead) (hc : h.columns = none) (c : CreateTable)
    (hcat : catLookup cat (h.table.schema, h.table.name) = some c)
    (q : Query) (R : Rel) (hy : Hygienic (fuelFor (setWiths h.withs q)) (setWiths h.withs q))
    (hflow : flowQ cat (fuelFor (setWiths h.withs q)) [] (setWiths h.withs q) = .ok R)
    (hlen : c.columns.length = R.length) (hnd : (c.columns.map (·.name)).Nodup) :
    ∃ st', insertLineage cat h q {} = .ok (List.zipWith (fun (d : DefCol) (r : String × List SrcCol) =>
      (({ schema := h.table.schema, table := h.table.name, col := some d.name } : SrcCol), r.2)) c.columns R, st') := by
  unfold catLookup at hcat
  cases hf : cat.find? (·.1 == PM.unifyName (StdTable.source (h.table.schema, h.table.name))) with
  | none => simp [hf] at hcat
  | some p =>
    obtain ⟨k, c'⟩ := p
    simp [hf] at hcat
    subst hcat
    obtain ⟨st', e⟩ := lineage_eq_flow_from cat _ _ hy R hflow
      { asked := [StdTable.source (h.table.schema, h.table.name)] } rfl rfl
    refine ⟨st', ?_⟩
    simp only [insertLineage, hc, getStatement, hf, bind, Except.bind, pure, Except.pure]
    have hst : ({ subq := [], withT := [], asked := (if (([] : List String).contains (StdTable.source (h.table.schema, h.table.name))) = true then ({} : St)
        else { asked := [] ++ [StdTable.source (h.table.schema, h.table.name)] }).asked } : St)
        = { asked := [StdTable.source (h.table.schema, h.table.name)] } := by simp
    simp only [List.contains_nil, Bool.false_eq_true, if_false, List.nil_append] at hst ⊢
    rw [e]
    simp only
    rw [pairUp_ok R _ st' (by simpa using hlen) (by simpa [List.map_map, Function.comp_def] using nodup_map_some _ hnd)]
    simp [List.zipWith_map_left]

theorem insert_schema_arity (cat : Cat) (h : InsertHead) (hc : h.columns = none) (c : CreateTable)
    (hcat : catLookup cat (h.table.schema, h.table.name) = some c)
    (q : Query) (R : Rel) (hy : Hygienic (fuelFor (setWiths h.withs q)) (setWiths h.withs q))
    (hflow : flowQ cat (fuelFor (setWiths h.withs q)) [] (setWiths h.withs q) = .ok R)
    (hlen : c.columns.length ≠ R.length) : insertLineage cat h q {} = .error .analyzer := by
  unfold catLookup at hcat
  cases hf : cat.find? (·.1 == PM.unifyName (StdTable.source (h.table.schema, h.table.name))) with
  | none => simp [hf] at hcat
  | some p =>
    obtain ⟨k, c'⟩ := p
    simp [hf] at hcat
    subst hcat
    obtain ⟨st', e⟩ := lineage_eq_flow_from cat _ _ hy R hflow
      { asked := [StdTable.source (h.table.schema, h.table.name)] } rfl rfl
    simp only [insertLineage, hc, getStatement, hf, bind, Except.bind, pure, Except.pure,
      List.contains_nil, Bool.false_eq_true, if_false, List.nil_append]
    rw [e]
    simp only
    exact pairUp_arity R _ st' (by simpa using hlen)

/-! ## aggregates without a column argument -/

/-- `COUNT(1)` and the like: one source without column name per upstream table of every FROM / JOIN item, item by item — what the
analysis returns (with the stores untouched) for any level whose table names resolve to the scope -/
theorem anonymous_aggregate_sources {cat : Cat} {st : St} {tn : List (String × StdTable)} {scope : Scope} (hres : Resolves cat st tn scope) :
    ∃ st', analyzeQuoteColumn cat tn ⟨none, none, none⟩ st = .ok (anonOf scope, st') ∧ Same st st' := by
  have := ref_spec hres ⟨none, none, none⟩ st (Same.refl st)
  simpa [Agrees, ref] using this

/-! ## wildcards -/

theorem dictGet_self : ∀ (R : Rel), (R.map (·.1)).Nodup → ∀ p ∈ R, dictGet? R p.1 = some p.2
  | [], _, p, h => by simp at h
  | a :: r, hn, p, h => by
    rw [List.map_cons] at hn
    have hn' := List.nodup_cons.mp hn
    unfold dictGet?
    rw [List.find?_cons]
    rcases List.mem_cons.mp h with e | e
    · subst e; simp
    · have hne : (a.1 == p.1) = false := by
        simp only [beq_eq_false_iff_ne, ne_eq]
        intro he
        exact hn'.1 (by rw [he]; exact List.mem_map_of_mem e)
      simp only [hne]
      exact dictGet_self r hn'.2 p e

/-- **`x.*`**: for a relation with pairwise distinct column names (none of them `*`) bound to `x`, the expansion gives one output
column per column of the relation, in order, **each with its own sources** -/
theorem star_each_own_sources (scope : Scope) (x : String) (R : Rel) (hx : dictGet? scope x = some R) (hn : (R.map (·.1)).Nodup)
    (hs : ∀ p ∈ R, p.1 ≠ "*") : ∀ (S : Rel) (i : Nat), (∀ p ∈ S, p ∈ R) → curFlow scope (expandRel x S i) = .ok (number S i)
  | [], i, _ => rfl
  | p :: r, i, h => by
    have hp := h p (by simp)
    have hstar : (p.1 == "*") = false := by simpa using hs p hp
    have ih := star_each_own_sources scope x R hx hn hs r (i + 1) (fun q hq => h q (by simp [hq]))
    obtain ⟨n, srcs⟩ := p
    simp only [expandRel, List.zipIdx_cons, List.map_cons] at ih ⊢
    simp only [curFlow, refs, ref, hstar, Bool.false_eq_true, if_false, refQ, hx, dictGet_self R hn (n, srcs) hp, bind, Except.bind,
      pure, Except.pure, List.append_nil, ih, number]

/-! ## instances -/

def selU (cols : List (Expr × Option String)) (fr : List FromTable) : Select :=
  .mk (some []) false cols (some fr) [] [] none none none none none none none none

/-- `SELECT x.a AS k, x.b FROM t x UNION ALL SELECT y.d, y.a FROM u y`: names of the first branch, sources column-wise -/
def unionOK : Query :=
  .union (some []) (selU [(.column (some "x") "a", some "k"), (.column (some "x") "b", none)] [tbl "t" (some "x")])
    [("UNION_ALL", selU [(.column (some "y") "d", none), (.column (some "y") "a", none)] [tbl "u" (some "y")])]
theorem unionOK_spec : specOk unionOK [("k", [(none, "t", some "a"), (none, "u", some "d")]), ("b", [(none, "t", some "b"), (none, "u", some "a")])] = true := by
  decide +kernel
example : hyg unionOK = true := by decide +kernel
example : isOk [("k", 1, [(none, "t", some "a"), (none, "u", some "d")]), ("b", 2, [(none, "t", some "b"), (none, "u", some "a")])] (run2 unionOK) = true := by
  decide +kernel

/-- a set operation as a derived table, read through an unqualified name -/
example : specOk (.single (selJ [(.column none "k", none)] [der unionOK "q"] [])) [("k", [(none, "t", some "a"), (none, "u", some "d")])] = true := by
  decide +kernel

/-- the excluded case (F-C16-7, `C16.witness_7`): `SELECT b FROM t UNION SELECT a FROM u` — unqualified references: outside the
specification (`branchOK` fails), and the analysis refuses it although each branch alone is unambiguous -/
def unionBad : Query := .union (some []) (selU [(.column none "b", none)] [tbl "t"]) [("UNION", selU [(.column none "a", none)] [tbl "u"])]
example : (match flowQ cat2 (fuelFor unionBad) [] unionBad with | .error .outside => true | _ => false) = true := by decide +kernel
example : isErr .analyzer (run2 unionBad) = true := by decide +kernel
/-- the same alias in two branches: outside the specification (`levelOK` fails) -/
example : (match flowQ cat2 (fuelFor unionBad) [] (.union (some []) (selU [(.column (some "x") "a", none)] [tbl "t" (some "x")])
    [("UNION", selU [(.column (some "x") "a", none)] [tbl "u" (some "x")])]) with | .error .outside => true | _ => false) = true := by decide +kernel

/-- `SELECT COUNT(1) AS n, SUM(x.a) AS s FROM t x JOIN (SELECT a + d AS k FROM u) q ON x.a = q.k`: `n` depends on `t` and (through `q`) on `u` -/
def countOne : Query :=
  .single (selJ [(.agg "COUNT" [.literal "1"] false, some "n"), (.agg "SUM" [.column (some "x") "a"] false, some "s")]
    [tbl "t" (some "x")]
    [joinOn (der (.single (selJ [(.compute (.column none "a") "PLUS" (.column none "d"), some "k")] [tbl "u"] [])) "q") (.column (some "x") "a") (.column (some "q") "k")])
theorem countOne_spec : specOk countOne [("n", [(none, "t", none), (none, "u", none)]), ("s", [(none, "t", some "a")])] = true := by decide +kernel
example : hyg countOne = true := by decide +kernel
example : isOk [("n", 1, [(none, "t", none), (none, "u", none)]), ("s", 2, [(none, "t", some "a")])] (run2 countOne) = true := by decide +kernel

/-- `SELECT q.*, t.c FROM t JOIN (SELECT a + b AS k, a FROM t) q ON t.a = q.a`: the derived table's columns with their own sources -/
def starQ : Query :=
  .single (selJ [(.wildcard (some "q"), none), (.column (some "t") "c", none)] [tbl "t"]
    [joinOn (der (.single (selJ [(.compute (.column none "a") "PLUS" (.column none "b"), some "k"), (.column none "a", none)] [tbl "t"] [])) "q")
      (.column (some "t") "a") (.column (some "q") "a")])
theorem starQ_spec : specOk starQ [("k", [(none, "t", some "a"), (none, "t", some "b")]), ("a", [(none, "t", some "a")]), ("c", [(none, "t", some "c")])] = true := by
  decide +kernel
example : hyg starQ = true := by decide +kernel
example : isOk [("k", 1, [(none, "t", some "a"), (none, "t", some "b")]), ("a", 2, [(none, "t", some "a")]), ("c", 3, [(none, "t", some "c")])] (run2 starQ) = true := by
  decide +kernel

/-- `SELECT * FROM t1, t2`: the columns of every item, item after item -/
def starAll : Query := .single (selJ [(.wildcard none, none)] [tbl "t1", tbl "t2"] [])
theorem starAll_spec : specOk starAll [("a", [(none, "t1", some "a")]), ("b", [(none, "t1", some "b")]), ("c", [(none, "t2", some "c")]),
    ("x", [(none, "t2", some "x")]), ("d", [(none, "t2", some "d")])] = true := by decide +kernel
example : isOk [("a", 1, [(none, "t1", some "a")]), ("b", 2, [(none, "t1", some "b")]), ("c", 3, [(none, "t2", some "c")]),
    ("x", 4, [(none, "t2", some "x")]), ("d", 5, [(none, "t2", some "d")])] (run2 starAll) = true := by decide +kernel

/-- an unknown `z.*` is the analysis error -/
example : specErr (.single (selJ [(.wildcard (some "z"), none)] [tbl "t1"] [])) = true := by decide +kernel
example : isErr .analyzer (run2 (.single (selJ [(.wildcard (some "z"), none)] [tbl "t1"] []))) = true := by decide +kernel

/-- the excluded case (F-C16-6, `C16.witness_6`): `SELECT x.* FROM t x` — an aliased base table: outside the specification
(`plainKey` fails), and the analysis refuses a valid query -/
example : (match flowQ cat2 8 [] (.single (selJ [(.wildcard (some "x"), none)] [tbl "t" (some "x")] [])) with | .error .outside => true | _ => false) = true := by
  decide +kernel
example : isErr .analyzer (run2 (.single (selJ [(.wildcard (some "x"), none)] [tbl "t" (some "x")] []))) = true := by decide +kernel

end C16
