import MsqModel.Lex.Count
import MsqProofs.Props.C20
import MsqProofs.Lemmas.LexLossless
import MsqProofs.Oblig.LexCfg7
/-!
# C19 — work grows linearly with input size

(a) lexer: at most two `handle` calls per character and one for END — and, from the table obligation, the
pointer advances by exactly one per character, so every character is handled and none is revisited;
(b) cursor: every operation moves the cursor forward only (`C20.match_forward`, `pop_spec`, `andMove_*`);
(c) the parser's cursor-operation count is validated by measurement, not proved (see the check).
-/
namespace C19
open Lex

variable {Cls : Type}

theorem feedWithC_le (h : Mem → Sym → Except Err (Mem × Bool)) (m m' : Mem) (c : Char) (k : Nat)
    (hk : feedWithC h m c = .ok (m', k)) : k ≤ 2 ∧ feedWith h m c = .ok m' := by
  unfold feedWithC at hk
  unfold feedWith
  split at hk
  · simp at hk
  · rename_i m1 h1; simp at hk; obtain ⟨rfl, rfl⟩ := hk; simp [h1]
  · rename_i m1 h1
    split at hk
    · simp at hk
    · rename_i m2 b h2; simp at hk; obtain ⟨rfl, rfl⟩ := hk; simp [h1, h2]

theorem feedAllWithC_le (h : Mem → Sym → Except Err (Mem × Bool)) (cs : List Char) (m m' : Mem) (n n' : Nat)
    (hk : feedAllWithC h cs m n = .ok (m', n')) : n' ≤ n + 2 * cs.length ∧ feedAllWith h cs m = .ok m' := by
  induction cs generalizing m n with
  | nil => simp [feedAllWithC] at hk; obtain ⟨rfl, rfl⟩ := hk; simp [feedAllWith]
  | cons c cs ih =>
    simp only [feedAllWithC] at hk
    split at hk
    · simp at hk
    · rename_i m1 k h1
      obtain ⟨hle, hf⟩ := feedWithC_le h m m1 c k h1
      obtain ⟨h2, h3⟩ := ih m1 (n + k) hk
      refine ⟨by simp; omega, ?_⟩
      simp [feedAllWith, hf, h3]

/-- C19(a): for every table and every text, lexing makes at most `2·|text| + 1` calls of `handle`
(`|text|` after the pre-pass, which never lengthens the text for the generated chain) -/
theorem handleCalls_linear (cfg : Cfg Cls) (raw : List Char) (n : Nat) (h : handleCalls cfg raw = .ok n) :
    n ≤ 2 * (cfg.pre raw).length + 1 := by
  unfold handleCalls at h
  simp only at h
  split at h
  · simp at h
  · rename_i m k hk
    have := (feedAllWithC_le _ _ _ _ _ _ hk).1
    split at h
    · simp at h
    · split at h
      · simp at h
      · simp at h; omega

/-- the counter does not change what is computed: the counting driver reaches the same memory as `feedAll` -/
theorem counter_transparent (cfg : Cfg Cls) (text : List Char) (m' : Mem) (k : Nat)
    (h : feedAllWithC (handle cfg text) text {} 0 = .ok (m', k)) : feedAll cfg text text {} = .ok m' :=
  (feedAllWithC_le _ _ _ _ _ _ h).2

/-- every character is consumed exactly once: after the loop the pointer stands at the end of the text
(shipped table; from the table obligation `TableOK`, re-decided on every run) -/
theorem pointer_advances_once_per_char (text : List Char) (m' : Mem)
    (h : feedAll Gen.Cfg7.cfg text text {} = .ok m') : m'.now = text.length := by
  have hinit : Inv2 Gen.Cfg7.cfg Gen.Cfg7.wk text ({} : Mem) [] :=
    ⟨⟨by simp, by simp [tokTexts, allLeaves, leavesL], Nat.le_refl _⟩, fun _ => rfl,
      by simp [TableOK.wait Oblig.tableOK_cfg7, curWin, WK.claims], by simp [gapTexts]⟩
  obtain ⟨_, _, hn⟩ := feedAll_inv Gen.Cfg7.cfg Gen.Cfg7.advSt Gen.Cfg7.wk text Oblig.tableOK_cfg7 text {} m' [] hinit (by simp) h
  simpa using hn

/-- C19(b): the cursor only moves forward (restated from C20) -/
theorem cursor_forward (s : Scan.Scanner) (ps : List Scan.Pat) :
    s.pos ≤ (s.matchPats ps).2.pos ∧ (s.matchPats ps).2.pos ≤ s.pos + ps.length := ⟨(C20.match_forward s ps).1, (C20.match_forward s ps).2.1⟩

/-- non-vacuity: an accepted text and its count -/
example : (match handleCalls Gen.Cfg7.cfg "SELECT a".toList with | .ok n => n == 10 | .error _ => false) = true := by decide +kernel

end C19
