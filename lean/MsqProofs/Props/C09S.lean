import MsqProofs.Lemmas.TSpellM
import MsqProofs.Lemmas.TSpellP
/-!
# C09 / C13 — spelling-generalised T-parse: the spellings the parser treats alike give the SAME tree

**Fragment**: exactly the nested fragment of Props/C03Q.lean — `TQ.FragQ d q` (queries: SELECTs over nested expressions, set operations,
derived tables, sub-queries in expressions, any depth), `TQ.FragE3 d e` (expressions).

**Spelled printer** (Lemmas/TSpell0.lean): `TSP.toksQ d sp q` / `TSP.toksE3 d sp e` (`C09.toksQsp` / `C09.toksEsp`) — the token rendering of
`q` in which the record `sp : TSP.Sp` of choice functions picks, node by node, among the spellings the parser accepts:
`!=` / `<>` (`sp.ne`), `AND` / `&&` (`sp.amp`), `OR` / `||` (`sp.bar`), `/` / `DIV` and `%` / `MOD` (`sp.word`, keyed by the operand
after the operator), prefix `NOT` / `!` (`sp.bang`; Hive only: `SpOK.bang`), alias with / without `AS` (`sp.bareC` select items, `sp.bareT`
FROM and JOIN items), `ASC` written or not (`sp.asc`), `LIMIT m, n` / `LIMIT n OFFSET m` (`sp.offs`), redundant brackets (`sp.ch`).
`TSP.plainCh ch` is the printer's own spelling with bracket choice `ch`: `TSP.toksQ d (plainCh ch) q = TQ.toksQ d ch q` (`C09.plain_is_printer`,
Lemmas/TSpellP.lean), so `C03.tquery_ch` is the special case in which nothing but brackets is chosen (`C09.tquery_ch_instance`) and every
admissible spelling parses like the printer's own token output (`C09.spelled_like_printed`).

**Side conditions** `TSP.SpOK d sp` (Lemmas/TSpellM.lean): `bang` — `!` only for `d = HIVE`; `bareC` / `bareT` — an alias is written without `AS`
only if it is no word that would continue the expression before it or that `_parse_alias_expression` refuses (`TSP.bareOK d a`: `DIV`, `MOD`,
`AND`, `OR`, `IN`, `CROSS`, `USING`, … must keep their `AS`); `dist` / `grouping` — the two first-word conditions of the fragment
(no leading `DISTINCT` in the select list, no leading `GROUPING` in the first GROUP BY key) for the chosen rendering.  `TSP.spOK_of` discharges
the last two from the same conditions about the bracket choice alone (`TQ.ChOK d sp.ch`, trivial for `noX`): no spelling changes whether
a rendering starts with one of these two words (`TSP.head_word`).

**Theorems** (every dialect, every fuel above the explicit linear bound)
* `C09.tquery_spellings` : `SpOK d sp → FragQ d q → stopsQ d rest → 20 * sizeL (toksQ d sp q) + 9 ≤ fuel →
  pSelectStmt d fuel none (toksQ d sp q ++ rest) = ok (q, rest)`;  `tquery_spellings_entry_fuel` (the entry points' fuel),
  `tquery_spellings_statement` (through `pStatement`), `C09.texpr_spellings` (the expression half, `pOr`);
* `C09.spelling_invariance` : two admissible spelling choices of one tree parse to equal results (trees AND remaining tokens);
  `C09.spelling_determines_nothing` : equal spelled renderings of two fragment trees ⇒ equal trees;
* the normal forms the tree holds (the tree stores member names, never the spelling): `C09.neq_spellings` (`l != r`, `l <> r` ↦
  `.compare "NEQ" l r`), `C09.and_spellings` (`&&` ↦ `.and_`), `C09.or_spellings` (`||` ↦ `.or_`), `C09.div_mod_spellings` (`DIV` ↦
  `"DIVIDE"`, `MOD` ↦ `"MOD"`); what the spelled printer writes: `C09.toks_compare / toks_and / toks_or / toks_not / toks_compute`,
  `C09.spelled_tokens`; aliases without `AS`, explicit `ASC` and `LIMIT n OFFSET m` are covered by the general theorem (records
  `TSP.bareSp`, `TSP.altSp`; lemmas `TSP.alias_anyB`, `TSP.orderTail_asc`, `TSP.limitS` = `C03.limit_offset` / `limit_comma` composed);
* what is NOT alike (separating instances, kernel-checked): `C09.inner_join_is_not_join` (`INNER JOIN` is stored as `INNER_JOIN`, `JOIN` as
  `JOIN`), `C09.union_distinct_rejected`, `C09.amp_is_not_between_and` (`BETWEEN a && b` is an error: the `AND` of BETWEEN is matched by
  word);
* C13: `C13.hive_bang_is_not` (`! x` parses to `NOT x` in the Hive dialect, for every fragment `x`), `C13.dialect_governs_nested` (with
  `!` at EVERY `NOT` node of a nested query, at any depth, the Hive parser returns the tree), `C13.bang_not_hive_only` (in the six other
  dialects `! a` is the unary operator `LOGICAL_INVERSION`, in Hive it is `NOT a`), `C13.bang_word_hive_only`;
* finding candidate (F-C13-bang): `C13.witness_hive_bang_before_in` — in the Hive dialect `a ! IN (1)` / `a ! LIKE b` / `a ! BETWEEN …` the
  `!` in the keyword-predicate NOT position (`parser.py:902` asks `get_not_operator_set`) is never reached: the compute level before it has
  already taken `!` as a BINARY operator (`COMPUTE_OPERATOR_HASH` has `"!"`), the result is `a ! IN(1)` with `IN` a function call.
* C13 at TEXT level (every text, every entry point): `C13.pre_pass_spelling` / `pre_pass_spelling_entry` — a text and its pre-passed form
  (Hive: every `==` written `=`; DB2: `CURRENT DATE / TIME / TIMESTAMP` written `CURRENT_DATE / …`) parse alike whenever the pre-passed
  form is clean (`preClean`: the pre-pass has nothing left to do on it); `C13.hive_eqeq_is_eq`; `C13.no_pre_pass_elsewhere`.

Not covered: keyword letter case (Props/C09P, another family — not composed here); `IS ! NULL` (no choice: `IS NOT` is matched by word);
`!` in the keyword-predicate position (false of the code, see the witness); `INNER JOIN` / `JOIN`, `UNION DISTINCT` (not alike: separating
instances); the link lexer ↔ spelled token printer for arbitrary trees (checked by `#guard` on texts; proved only for the printer's own
spelling in Props/C03L / C03QL).
-/
set_option linter.unusedVariables false
set_option linter.unusedSimpArgs false
open Lex PM Ast TP TS TQ

namespace TSP
/-! ### no spelling changes whether a rendering starts with `DISTINCT` / `GROUPING` -/
def keyOf (k : String) (ts : List Tok) : Option Bool := ts.head?.map (fun t => t.srcEqUp k)
theorem searchStrUp_key (ts : List Tok) (k : String) : searchStrUp ts k = (keyOf k ts).getD false := by cases ts <;> rfl
theorem keyOf_append (k : String) (a b : List Tok) : keyOf k (a ++ b) = (keyOf k a).or (keyOf k b) := by cases a <;> simp [keyOf]
theorem keyOf_cons (k : String) (t : Tok) (a : List Tok) : keyOf k (t :: a) = some (t.srcEqUp k) := rfl
theorem keyOf_grp {k : String} (hk : k = "DISTINCT" ∨ k = "GROUPING") (cs : List Tok) : (grp cs).srcEqUp k = false := by
  have h2 : (up (grp cs).src).toList.head? = some '(' := by simp [toList_up_grp]
  simp only [Tok.srcEqUp, beq_eq_false_iff_ne, ne_eq]
  rcases hk with rfl | rfl <;> exact ne_of_head h2 (by decide)
theorem keyOf_wrapT {k : String} (hk : k = "DISTINCT" ∨ k = "GROUPING") (x : Bool) (e : Expr) (L : Nat) (ts : List Tok) :
    keyOf k (wrapT x e L ts) = if PR.lvl e > L ∨ x = true then some false else keyOf k ts := by
  unfold wrapT; split
  · simp [keyOf, keyOf_grp hk]
  · rfl
theorem tok_keys {k : String} (hk : k = "DISTINCT" ∨ k = "GROUPING") (b : Bool) :
    (andTok b).srcEqUp k = (opTok "AND").srcEqUp k ∧ (orTok b).srcEqUp k = (opTok "OR").srcEqUp k ∧
    (notTok b).srcEqUp k = (opTok "NOT").srcEqUp k := by rcases hk with rfl | rfl <;> cases b <;> decide
theorem cmp_key {k : String} (hk : k = "DISTINCT" ∨ k = "GROUPING") (b : Bool) (o : String) :
    (cmpTok b o).srcEqUp k = (opTok (cmpVal o)).srcEqUp k := by
  unfold cmpTok; split
  · rename_i h; simp only [Bool.and_eq_true, beq_iff_eq] at h; rw [h.2]; rcases hk with rfl | rfl <;> decide
  · rfl
theorem cval_key {k : String} (hk : k = "DISTINCT" ∨ k = "GROUPING") (b : Bool) (o : String) :
    (opTok (cvalSp b o)).srcEqUp k = (opTok (cval o)).srcEqUp k := by
  unfold cvalSp; split
  · rename_i h; simp only [Bool.and_eq_true, beq_iff_eq] at h; rw [h.2]; rcases hk with rfl | rfl <;> decide
  · split
    · rename_i h; simp only [Bool.and_eq_true, beq_iff_eq] at h; rw [h.2]; rcases hk with rfl | rfl <;> decide
    · rfl

/-- the first token of a spelled rendering is `DISTINCT` / `GROUPING` iff the first token of the rendering with the same brackets and the
printer's own spellings is -/
theorem head_word (d : Gen.D) (sp : Sp) {k : String} (hk : k = "DISTINCT" ∨ k = "GROUPING") :
    ∀ e : Expr, keyOf k (toksE3 d sp e) = keyOf k (TQ.toksE3 d sp.ch e)
  | .column t c => by cases t <;> simp only [toksE3, TQ.toksE3]
  | .literal v => by simp only [toksE3, TQ.toksE3]
  | .wildcard t => by cases t <;> simp only [toksE3, TQ.toksE3]
  | .func s n ps => by cases s <;> simp only [toksE3, TQ.toksE3, List.nil_append, List.cons_append, keyOf_cons]
  | .agg n ps dist => by simp only [toksE3, TQ.toksE3, keyOf_cons]
  | .caseCond cs els => by simp only [toksE3, TQ.toksE3, keyOf_cons]
  | .caseVal v cs els => by simp only [toksE3, TQ.toksE3, keyOf_cons]
  | .subValue vs => by simp only [toksE3, TQ.toksE3, keyOf_cons, keyOf_grp hk]
  | .subQuery q => by simp only [toksE3, TQ.toksE3, keyOf_cons, keyOf_grp hk]
  | .exists_ v => by simp only [toksE3, TQ.toksE3, keyOf_cons]
  | .unary o e => by simp only [toksE3, TQ.toksE3, keyOf_cons]
  | .compute l o r => by
      have ih := head_word d sp hk l
      simp only [toksE3, TQ.toksE3, keyOf_append, keyOf_cons, keyOf_wrapT hk, ih, cval_key hk]
  | .kw kk n l r => by
      have ih := head_word d sp hk l
      simp only [toksE3, TQ.toksE3, keyOf_append, keyOf_cons, keyOf_wrapT hk, ih]
      cases kk <;> cases n <;> simp [kwToks, keyOf]
  | .between n b f t => by
      have ih := head_word d sp hk b
      simp only [toksE3, TQ.toksE3, keyOf_append, keyOf_cons, keyOf_wrapT hk, ih]
  | .compare o l r => by
      have ih := head_word d sp hk l
      simp only [toksE3, TQ.toksE3, keyOf_append, keyOf_cons, keyOf_wrapT hk, ih, cmp_key hk]
  | .not_ e => by simp only [toksE3, TQ.toksE3, keyOf_cons, (tok_keys hk _).2.2]
  | .and_ l r => by
      have ih := head_word d sp hk l
      simp only [toksE3, TQ.toksE3, keyOf_append, keyOf_cons, keyOf_wrapT hk, ih, (tok_keys hk _).1]
  | .xor l r => by
      have ih := head_word d sp hk l
      simp only [toksE3, TQ.toksE3, keyOf_append, keyOf_cons, keyOf_wrapT hk, ih]
  | .or_ l r => by
      have ih := head_word d sp hk l
      simp only [toksE3, TQ.toksE3, keyOf_append, keyOf_cons, keyOf_wrapT hk, ih, (tok_keys hk _).2.1]
  | .cast .. => by simp only [toksE3, TQ.toksE3]
  | .extract .. => by simp only [toksE3, TQ.toksE3]
  | .window .. => by simp only [toksE3, TQ.toksE3]
  | .index .. => by simp only [toksE3, TQ.toksE3]
  | .mybatis .. => by simp only [toksE3, TQ.toksE3]

/-- the first-word condition of a GROUP BY key only depends on the bracket choice -/
theorem head_word_key (d : Gen.D) (sp : Sp) (e : Expr) : searchStrUp (W3 d sp e 8) "GROUPING" = searchStrUp (TQ.W3 d sp.ch e 8) "GROUPING" := by
  have hk : "GROUPING" = "DISTINCT" ∨ "GROUPING" = "GROUPING" := Or.inr rfl
  simp only [searchStrUp_key, W3, TQ.W3, keyOf_wrapT hk, head_word d sp hk e]

/-- **discharging `SpOK`**: the first-word condition from the same condition about the bracket choice alone (`TQ.ChOK`, trivial for `noX`) -/
theorem spOK_of {d : Gen.D} {sp : Sp} (hch : TQ.ChOK d sp.ch) (hbang : ∀ e, sp.bang e = true → d = .HIVE)
    (hC : ∀ c, optBareOK d (sp.bareC c) c.2 = true) (hT : ∀ t a, optBareOK d (sp.bareT (.mk t a)) a = true) : SpOK d sp :=
  ⟨fun e h => by rw [head_word_key]; exact hch.grouping e h, hbang, hC, hT⟩
/-- no redundant brackets, `AS` always written, `!` never: every other choice is free, in every dialect -/
theorem spOK_free {d : Gen.D} {sp : Sp} (hch : sp.ch = noX) (hbang : sp.bang = fun _ => false) (hC : sp.bareC = fun _ => false)
    (hT : sp.bareT = fun _ => false) : SpOK d sp := by
  refine spOK_of (by rw [hch]; exact TQ.chOK_noX) (fun e h => by simp [hbang] at h) (fun c => ?_) (fun t a => ?_)
  · rw [hC]; cases c.2 <;> rfl
  · rw [hT]; cases a <;> rfl
end TSP

namespace TSP
/-- `_parse_select_statement` with the WITH slot already consumed (as `pStatement` calls it) -/
theorem stmt_some {d : Gen.D} {sp : Sp} (hsp : SpOK d sp) (q : Query) (hq : FragQ d q = true) (rest : List Tok) (hr : stopsQ d rest = true) :
    OkAt (fun f => pSelectStmt d f (some []) (toksQ d sp q ++ rest)) (20 * sizeL (toksQ d sp q) + 9) (q, rest) := by
  cases q with
  | single s =>
    simp only [FragQ] at hq
    have := stmt_core (some []) (Or.inr rfl) s [] (srec_of hsp s hq) trivial rest hr
    simpa [toksQ, toksUn] using this
  | union ws s us =>
    cases ws with
    | none => simp [FragQ] at hq
    | some l =>
      cases l with
      | cons _ _ => simp [FragQ] at hq
      | nil =>
        simp only [FragQ, Bool.and_eq_true, Bool.not_eq_true', Bool.true_and] at hq
        have := stmt_core (some []) (Or.inr rfl) s us (srec_of hsp s hq.1.1) (unrec_of hsp us hq.1.2) rest hr
        simpa [toksQ, hq.2] using this
theorem toksQ_head {d : Gen.D} {sp : Sp} (hsp : SpOK d sp) (q : Query) (hq : FragQ d q = true) : ∃ x, toksQ d sp q = opTok "SELECT" :: x :=
  (qt hsp q hq).head

/-! ### spelling records used below -/
/-- every alternative spelling that is admissible in every dialect and for every alias: `<>`, `&&`, `||`, `DIV` / `MOD`, `ASC`, `OFFSET` -/
def altSp : Sp := ⟨noX, fun _ => true, fun _ => true, fun _ => true, fun _ => false, fun _ => true, fun _ => false, fun _ => false,
  fun _ => true, fun _ _ => true⟩
/-- the printer's spellings, except `!` at EVERY `NOT` node -/
def bangAll : Sp := { plain with bang := fun _ => true }
/-- the printer's spellings, except that `AS` is dropped wherever `bareOK` allows it -/
def bareSp (d : Gen.D) : Sp :=
  { plain with bareC := fun c => match c.2 with | some a => bareOK d a | none => false,
               bareT := fun t => match t with | .mk _ (some a) => bareOK d a | .mk _ none => false }
theorem spOK_alt (d : Gen.D) : SpOK d altSp := spOK_free rfl rfl rfl rfl
theorem spOK_plain (d : Gen.D) : SpOK d plain := spOK_free rfl rfl rfl rfl
theorem spOK_bangAll : SpOK .HIVE bangAll :=
  spOK_of TQ.chOK_noX (fun _ _ => rfl) (fun c => by cases c.2 <;> rfl) (fun t a => by cases a <;> rfl)
theorem spOK_bare (d : Gen.D) : SpOK d (bareSp d) := by
  refine spOK_of TQ.chOK_noX (fun e h => by simp [bareSp, plain, plainCh] at h) (fun c => ?_) (fun t a => ?_)
  · obtain ⟨e, a⟩ := c
    cases a with
    | none => rfl
    | some a => cases h : bareOK d a <;> simp [bareSp, optBareOK, h]
  · cases a with
    | none => rfl
    | some a => cases h : bareOK d a <;> simp [bareSp, optBareOK, h]
end TSP

namespace C09
/-- the spelled token printers -/
abbrev toksQsp := TSP.toksQ
abbrev toksEsp := TSP.toksE3

/-- **spelling-generalised T-parse, queries.**  Whatever admissible choice `sp` of operator spellings, noise words and redundant brackets
the rendering of a fragment query is written with, the parser returns exactly that tree -/
theorem tquery_spellings (d : Gen.D) (sp : TSP.Sp) (hsp : TSP.SpOK d sp) (q : Query) (hq : FragQ d q = true) (rest : List Tok)
    (hr : stopsQ d rest = true) (fuel : Nat) (hfuel : 20 * sizeL (TSP.toksQ d sp q) + 9 ≤ fuel) :
    pSelectStmt d fuel none (TSP.toksQ d sp q ++ rest) = .ok (q, rest) :=
  (TSP.qt hsp q hq).parse rest hr fuel hfuel
/-- the fuel the public entry points compute from the token list dominates the bound -/
theorem tquery_spellings_entry_fuel (d : Gen.D) (sp : TSP.Sp) (hsp : TSP.SpOK d sp) (q : Query) (hq : FragQ d q = true) (rest : List Tok)
    (hr : stopsQ d rest = true) : pSelectStmt d (fuelFor (TSP.toksQ d sp q ++ rest)) none (TSP.toksQ d sp q ++ rest) = .ok (q, rest) :=
  tquery_spellings d sp hsp q hq rest hr _ (by simp only [fuelFor, sizeL_append]; omega)
/-- the expression half -/
theorem texpr_spellings (d : Gen.D) (sp : TSP.Sp) (hsp : TSP.SpOK d sp) (e : Expr) (hf : FragE3 d e = true) (rest : List Tok)
    (hr : TP2.stops2 d rest = true) (fuel : Nat) (hfuel : 20 * sizeL (TSP.toksE3 d sp e) + 15 ≤ fuel) :
    pOr d fuel (TSP.toksE3 d sp e ++ rest) = .ok (e, rest) :=
  (TSP.rt3 hsp e hf).own.s14 rest hr fuel hfuel

/-- **any two spellings, equal results**: the tree AND the remaining tokens -/
theorem spelling_invariance (d : Gen.D) (sp sp' : TSP.Sp) (hsp : TSP.SpOK d sp) (hsp' : TSP.SpOK d sp') (q : Query) (hq : FragQ d q = true)
    (rest : List Tok) (hr : stopsQ d rest = true) :
    pSelectStmt d (fuelFor (TSP.toksQ d sp q ++ rest)) none (TSP.toksQ d sp q ++ rest) =
      pSelectStmt d (fuelFor (TSP.toksQ d sp' q ++ rest)) none (TSP.toksQ d sp' q ++ rest) := by
  rw [tquery_spellings_entry_fuel d sp hsp q hq rest hr, tquery_spellings_entry_fuel d sp' hsp' q hq rest hr]
theorem spelling_invariance_expr (d : Gen.D) (sp sp' : TSP.Sp) (hsp : TSP.SpOK d sp) (hsp' : TSP.SpOK d sp') (e : Expr) (hf : FragE3 d e = true)
    (rest : List Tok) (hr : TP2.stops2 d rest = true) :
    pOr d (fuelFor (TSP.toksE3 d sp e ++ rest)) (TSP.toksE3 d sp e ++ rest) = pOr d (fuelFor (TSP.toksE3 d sp' e ++ rest)) (TSP.toksE3 d sp' e ++ rest) := by
  rw [texpr_spellings d sp hsp e hf rest hr _ (by simp only [fuelFor, sizeL_append]; omega),
    texpr_spellings d sp' hsp' e hf rest hr _ (by simp only [fuelFor, sizeL_append]; omega)]
/-- a spelled rendering determines the tree: two fragment queries with equal renderings (under whatever two spelling choices) are equal -/
theorem spelling_determines_nothing (d : Gen.D) (sp sp' : TSP.Sp) (hsp : TSP.SpOK d sp) (hsp' : TSP.SpOK d sp') (q q' : Query)
    (hq : FragQ d q = true) (hq' : FragQ d q' = true) (h : TSP.toksQ d sp q = TSP.toksQ d sp' q') : q = q' := by
  have a := tquery_spellings_entry_fuel d sp hsp q hq [] rfl
  have b := tquery_spellings_entry_fuel d sp' hsp' q' hq' [] rfl
  rw [h, b] at a
  simp only [Except.ok.injEq, Prod.mk.injEq, and_true] at a
  exact a.symm

/-- **the same through the statement level**: one iteration of the loop of `parse_statements` -/
theorem tquery_spellings_statement (d : Gen.D) (sp : TSP.Sp) (hsp : TSP.SpOK d sp) (q : Query) (hq : FragQ d q = true) (rest : List Tok)
    (hr : stopsQ d rest = true) (fuel : Nat) (hfuel : 20 * sizeL (TSP.toksQ d sp q) + 9 ≤ fuel) :
    pStatement d fuel (TSP.toksQ d sp q ++ rest) = .ok (.select q, rest) := by
  obtain ⟨x, hx⟩ := TSP.toksQ_head hsp q hq
  obtain ⟨g, rfl⟩ : ∃ g, fuel = g + 1 := ⟨fuel - 1, by omega⟩
  have hsel := TSP.stmt_some hsp q hq rest hr (g + 1) (by omega)
  rw [hx] at hsel ⊢
  simp only [List.cons_append] at hsel ⊢
  have k : ∀ w : String, w ≠ "SELECT" → (opTok "SELECT").srcEqUp w = false := by
    intro w hw
    have : up (opTok "SELECT").src = "SELECT" := by decide
    simp only [Tok.srcEqUp, this, beq_eq_false_iff_ne, ne_eq]
    exact fun h => hw h.symm
  have s1 : ∀ w : String, w ≠ "SELECT" → searchStrUp (opTok "SELECT" :: (x ++ rest)) w = false := by
    intro w hw; simpa [searchStrUp] using k w hw
  have s2 : ∀ a b : String, a ≠ "SELECT" → searchTwoUp (opTok "SELECT" :: (x ++ rest)) a b = false := by
    intro a b ha
    cases hxr : x ++ rest <;> simp [searchTwoUp, hxr, k a ha]
  have s3 : ∀ a b c : String, a ≠ "SELECT" → searchThreeUp (opTok "SELECT" :: (x ++ rest)) a b c = false := by
    intro a b c ha
    rcases hxr : x ++ rest with _ | ⟨y, _ | ⟨z, r⟩⟩ <;> simp [searchThreeUp, hxr, k a ha]
  have sS : searchStrUp (opTok "SELECT" :: (x ++ rest)) "SELECT" = true := by
    have : (opTok "SELECT").srcEqUp "SELECT" = true := by decide
    simpa [searchStrUp] using this
  have hw := TQ.with_absent (d := d) (x ++ rest) g
  unfold pStatement
  simp only [s1 "SET" (by decide), s2 "DELETE" "FROM" (by decide), s2 "DROP" "TABLE" (by decide), s2 "CREATE" "TABLE" (by decide),
    s2 "ANALYZE" "TABLE" (by decide), s2 "ALTER" "TABLE" (by decide), s3 "MSCK" "REPAIR" "TABLE" (by decide), s1 "USE" (by decide),
    s2 "TRUNCATE" "TABLE" (by decide), s2 "SHOW" "DATABASES" (by decide), s2 "SHOW" "TABLES" (by decide), s2 "SHOW" "COLUMNS" (by decide),
    Bool.false_eq_true, if_false, hw, sS, if_true, hsel]

/-! ### what the spelled printer writes at the productions with a choice (the normal form is the tree on the right of the theorems) -/
theorem toks_compare (d : Gen.D) (sp : TSP.Sp) (o : String) (l r : Expr) :
    TSP.toksE3 d sp (.compare o l r) = TSP.W3 d sp l 10 ++ TSP.cmpTok (sp.ne (.compare o l r)) o :: TSP.W3 d sp r 9 := by
  simp only [TSP.toksE3, TSP.W3]
theorem toks_and (d : Gen.D) (sp : TSP.Sp) (l r : Expr) :
    TSP.toksE3 d sp (.and_ l r) = TSP.W3 d sp l 12 ++ TSP.andTok (sp.amp (.and_ l r)) :: TSP.W3 d sp r 11 := by simp only [TSP.toksE3, TSP.W3]
theorem toks_or (d : Gen.D) (sp : TSP.Sp) (l r : Expr) :
    TSP.toksE3 d sp (.or_ l r) = TSP.W3 d sp l 14 ++ TSP.orTok (sp.bar (.or_ l r)) :: TSP.W3 d sp r 13 := by simp only [TSP.toksE3, TSP.W3]
theorem toks_not (d : Gen.D) (sp : TSP.Sp) (x : Expr) :
    TSP.toksE3 d sp (.not_ x) = TSP.notTok (sp.bang (.not_ x)) :: TSP.W3 d sp x 11 := by simp only [TSP.toksE3, TSP.W3]
theorem spelled_tokens : TSP.cmpTok true "NEQ" = opTok "<>" ∧ TSP.cmpTok false "NEQ" = opTok "!=" ∧ TSP.andTok true = opTok "&&" ∧
    TSP.andTok false = opTok "AND" ∧ TSP.orTok true = opTok "||" ∧ TSP.orTok false = opTok "OR" ∧ TSP.notTok true = opTok "!" ∧
    TSP.notTok false = opTok "NOT" ∧ TSP.cvalSp true "DIVIDE" = "DIV" ∧ TSP.cvalSp false "DIVIDE" = "/" ∧ TSP.cvalSp true "MOD" = "MOD" ∧
    TSP.cvalSp false "MOD" = "%" := by
  have h : cmpVal "NEQ" = "!=" := by decide
  exact ⟨by simp [TSP.cmpTok], by simp [TSP.cmpTok, h], rfl, rfl, rfl, rfl, rfl, rfl, by decide, by decide, by decide, by decide⟩

/-- `l != r` and `l <> r` are the SAME comparison node `NEQ` (the tree stores the member name, never the spelling) -/
theorem neq_spellings (d : Gen.D) (sp : TSP.Sp) (hsp : TSP.SpOK d sp) (l r : Expr) (hf : FragE3 d (.compare "NEQ" l r) = true) (b : Bool)
    (hb : sp.ne (.compare "NEQ" l r) = b) (rest : List Tok) (hr : TP2.stops2 d rest = true) (fuel : Nat)
    (hfuel : 20 * sizeL (TSP.toksE3 d sp (.compare "NEQ" l r)) + 15 ≤ fuel) :
    pOr d fuel (TSP.W3 d sp l 10 ++ (if b then opTok "<>" else opTok "!=") :: (TSP.W3 d sp r 9 ++ rest)) = .ok (.compare "NEQ" l r, rest) := by
  have := texpr_spellings d sp hsp _ hf rest hr fuel hfuel
  rw [toks_compare, hb] at this
  cases b <;> simpa [spelled_tokens.1, spelled_tokens.2.1] using this
/-- `l AND r` / `l && r` ↦ `.and_ l r` -/
theorem and_spellings (d : Gen.D) (sp : TSP.Sp) (hsp : TSP.SpOK d sp) (l r : Expr) (hf : FragE3 d (.and_ l r) = true) (b : Bool)
    (hb : sp.amp (.and_ l r) = b) (rest : List Tok) (hr : TP2.stops2 d rest = true) (fuel : Nat)
    (hfuel : 20 * sizeL (TSP.toksE3 d sp (.and_ l r)) + 15 ≤ fuel) :
    pOr d fuel (TSP.W3 d sp l 12 ++ (if b then opTok "&&" else opTok "AND") :: (TSP.W3 d sp r 11 ++ rest)) = .ok (.and_ l r, rest) := by
  have := texpr_spellings d sp hsp _ hf rest hr fuel hfuel
  rw [toks_and, hb] at this
  cases b <;> simpa [TSP.andTok] using this
/-- `l OR r` / `l || r` ↦ `.or_ l r` -/
theorem or_spellings (d : Gen.D) (sp : TSP.Sp) (hsp : TSP.SpOK d sp) (l r : Expr) (hf : FragE3 d (.or_ l r) = true) (b : Bool)
    (hb : sp.bar (.or_ l r) = b) (rest : List Tok) (hr : TP2.stops2 d rest = true) (fuel : Nat)
    (hfuel : 20 * sizeL (TSP.toksE3 d sp (.or_ l r)) + 15 ≤ fuel) :
    pOr d fuel (TSP.W3 d sp l 14 ++ (if b then opTok "||" else opTok "OR") :: (TSP.W3 d sp r 13 ++ rest)) = .ok (.or_ l r, rest) := by
  have := texpr_spellings d sp hsp _ hf rest hr fuel hfuel
  rw [toks_or, hb] at this
  cases b <;> simpa [TSP.orTok] using this
end C09

namespace C13
/-- **Hive: `! x` is `NOT x`.**  In the Hive dialect the word `!` in front of (the rendering at the NOT level of) any fragment expression
parses to the logical negation of that expression — the same tree as `NOT x` -/
theorem hive_bang_is_not (sp : TSP.Sp) (hsp : TSP.SpOK .HIVE sp) (x : Expr) (hf : FragE3 .HIVE x = true) (b : Bool)
    (hb : sp.bang (.not_ x) = b) (rest : List Tok) (hr : TP2.stops2 .HIVE rest = true) (fuel : Nat)
    (hfuel : 20 * sizeL (TSP.toksE3 .HIVE sp (.not_ x)) + 15 ≤ fuel) :
    pOr .HIVE fuel ((if b then opTok "!" else opTok "NOT") :: (TSP.W3 .HIVE sp x 11 ++ rest)) = .ok (.not_ x, rest) := by
  have := C09.texpr_spellings .HIVE sp hsp (.not_ x) (by simpa [FragE3] using hf) rest hr fuel hfuel
  rw [C09.toks_not, hb] at this
  cases b <;> simpa [TSP.notTok] using this
/-- **the dialect's spelling is honoured at every depth**: with `!` written at EVERY `NOT` node of a nested fragment query — in select
items, conditions, sub-queries in expressions, derived tables, branches of set operations, to any depth — the Hive parser returns the
tree: the dialect is the same `d` in every recursive call of the parser -/
theorem dialect_governs_nested (q : Query) (hq : FragQ .HIVE q = true) (rest : List Tok) (hr : stopsQ .HIVE rest = true) (fuel : Nat)
    (hfuel : 20 * sizeL (TSP.toksQ .HIVE TSP.bangAll q) + 9 ≤ fuel) :
    pSelectStmt .HIVE fuel none (TSP.toksQ .HIVE TSP.bangAll q ++ rest) = .ok (q, rest) :=
  C09.tquery_spellings .HIVE TSP.bangAll TSP.spOK_bangAll q hq rest hr fuel hfuel
/-- under `bangAll` every `NOT` node is written with `!` -/
theorem bangAll_writes_bang (d : Gen.D) (x : Expr) : TSP.toksE3 d TSP.bangAll (.not_ x) = opTok "!" :: TSP.W3 d TSP.bangAll x 11 := by
  rw [C09.toks_not]; rfl
/-- `!` is a NOT word of the Hive dialect and of no other; it is a unary operator of every dialect but Hive -/
theorem bang_word_hive_only : Gen.allD.all (fun d => (Gen.notSet d).contains "!" == (d == .HIVE) && (Gen.unarySet d).contains "!" == (d != .HIVE)) = true := by
  decide
def isNotASp (r : Except Err (Expr × List Tok)) : Bool := match r with | .ok (.not_ (.column none "a"), []) => true | _ => false
def isInvASp (r : Except Err (Expr × List Tok)) : Bool :=
  match r with | .ok (.unary "LOGICAL_INVERSION" (.column none "a"), []) => true | _ => false
/-- **separating instance**: `! a` is `NOT a` for Hive and the unary operator `LOGICAL_INVERSION` applied to `a` in every other dialect -/
theorem bang_not_hive_only :
    Gen.allD.all (fun d => if d == .HIVE then isNotASp (pOr d 60 [opTok "!", nameTok "a"]) else isInvASp (pOr d 60 [opTok "!", nameTok "a"])) = true := by
  decide
def isBangInSp (r : Except Err (Expr × List Tok)) : Bool :=
  match r with | .ok (.compute (.column none "a") "LOGICAL_INVERSION" (.func none "IN" [.literal "1"]), []) => true | _ => false
def isNotInSp (r : Except Err (Expr × List Tok)) : Bool :=
  match r with | .ok (.kw .in_ true (.column none "a") (.subValue [.literal "1"]), []) => true | _ => false
/-- **witness (finding candidate)**: in the Hive dialect `a NOT IN (1)` is the negated IN predicate, but `a ! IN (1)` is NOT: the compute
level takes `!` as a binary operator and `IN (1)` as a function call — the `!` of `get_not_operator_set` in the keyword-predicate position
(`parser.py:902`) is dead code -/
theorem witness_hive_bang_before_in :
    isNotInSp (pOr .HIVE 80 [nameTok "a", opTok "NOT", opTok "IN", grp [litTok "1"]]) = true ∧
    isBangInSp (pOr .HIVE 80 [nameTok "a", opTok "!", opTok "IN", grp [litTok "1"]]) = true := by decide
end C13

namespace C09
def isJoinTySp (r : Option (String × List Tok)) (ty : String) : Bool := match r with | some (n, []) => n == ty | _ => false
/-- **not alike**: `INNER JOIN` is stored as join type `INNER_JOIN`, `JOIN` as `JOIN` — two different trees -/
theorem inner_join_is_not_join : isJoinTySp (firstEnum Gen.joinTypes [opTok "INNER", opTok "JOIN"]) "INNER_JOIN" = true ∧
    isJoinTySp (firstEnum Gen.joinTypes [opTok "JOIN"]) "JOIN" = true := by decide
def isParseErrSp {α : Type} (r : Except Err α) : Bool := match r with | .error .parse => true | _ => false
/-- **not alike**: `UNION DISTINCT` is no set operator of the table: `SELECT a UNION DISTINCT SELECT b` is a parse error -/
theorem union_distinct_rejected :
    isParseErrSp (pSelectStmt .MYSQL 200 none [opTok "SELECT", nameTok "a", opTok "UNION", opTok "DISTINCT", opTok "SELECT", nameTok "b"]) = true := by decide
/-- **not alike**: the `AND` of `BETWEEN … AND …` is matched by word: `a BETWEEN 1 && 2` is a parse error, `&&` is only the conjunction -/
theorem amp_is_not_between_and :
    isParseErrSp (pOr .MYSQL 100 [nameTok "a", opTok "BETWEEN", litTok "1", opTok "&&", litTok "2"]) = true := by decide
end C09

namespace C09
theorem toks_compute (d : Gen.D) (sp : TSP.Sp) (l r : Expr) (o : String) :
    TSP.toksE3 d sp (.compute l o r) =
      TSP.W3 d sp l (binLevel o) ++ opTok (TSP.cvalSp (sp.word (TSP.opdAfter sp.ch r (binLevel o - 1))) o) :: TSP.W3 d sp r (binLevel o - 1) := by
  simp only [TSP.toksE3, TSP.W3, lvl_compute]
/-- `l / r` and `l DIV r` are the SAME node `DIVIDE`, `l % r` and `l MOD r` the same node `MOD` -/
theorem div_mod_spellings (d : Gen.D) (sp : TSP.Sp) (hsp : TSP.SpOK d sp) (l r : Expr) (o : String) (ho : o = "DIVIDE" ∨ o = "MOD")
    (hf : FragE3 d (.compute l o r) = true) (b : Bool) (hb : sp.word (TSP.opdAfter sp.ch r 3) = b) (rest : List Tok)
    (hr : TP2.stops2 d rest = true) (fuel : Nat) (hfuel : 20 * sizeL (TSP.toksE3 d sp (.compute l o r)) + 15 ≤ fuel) :
    pOr d fuel (TSP.W3 d sp l 4 ++ opTok (if b then (if o = "DIVIDE" then "DIV" else "MOD") else cval o) :: (TSP.W3 d sp r 3 ++ rest)) =
      .ok (.compute l o r, rest) := by
  have := texpr_spellings d sp hsp _ hf rest hr fuel hfuel
  have h4 : binLevel "DIVIDE" = 4 ∧ binLevel "MOD" = 4 := by decide
  rw [toks_compute] at this
  rcases ho with rfl | rfl
  · rw [h4.1] at this; simp only [Nat.add_one_sub_one, show (4 : Nat) - 1 = 3 from rfl, hb] at this
    cases b <;> simpa [TSP.cvalSp] using this
  · rw [h4.2] at this; simp only [show (4 : Nat) - 1 = 3 from rfl, hb] at this
    cases b <;> simpa [TSP.cvalSp] using this

/-! ### non-vacuity (compiled evaluation: `String` functions do not reduce in the kernel) -/
open C03 in
/-- a query that uses every production with a choice -/
def spQs : Query := .single (.mk (some []) false
  [(col "a", some "x"), (.compute (col "b") "MOD" (lit "2"), none), (.subQuery (.single (sel [(.not_ (.compare "NEQ" (col "p") (lit "1")), some "y")] (some [tb "w" (some "k")]))), none)]
  (some [tb "t" (some "u")]) []
  [.mk "JOIN" (tb "v") (some (.on (.or_ (.and_ (.compare "NEQ" (col "a") (col "b")) (.not_ (col "c")))
      (.compare "GT" (.compute (col "d") "DIVIDE" (col "e")) (lit "0")))))]
  none none none (some [.mk (col "a") false false false, .mk (col "b") true false false]) none none none (some (5, some 2)))
/-- the tokens of a text, the spelled token printer and the fragment agree -/
def agreesSp (d : Gen.D) (sp : TSP.Sp) (q : Query) (text : String) : Bool := eqbL (C03.lexed text) (TSP.toksQ d sp q) && FragQ d q
def roundTripsSp (d : Gen.D) (sp : TSP.Sp) (q : Query) : Bool :=
  match pSelectStmt d (20 * sizeL (TSP.toksQ d sp q) + 9) none (TSP.toksQ d sp q) with
  | .ok (p, []) => Drv.showVal p.toVal == Drv.showVal q.toVal
  | _ => false
/-- the REAL parser model on a text (lexer, dialect pre-pass, `parse_statements`) returns exactly the SELECT statement of `q` -/
def textParsesToSp (d : Gen.D) (text : String) (q : Query) : Bool :=
  match PM.parseStatementsText d text.toList with
  | .ok [.select p] => Drv.showVal p.toVal == Drv.showVal q.toVal
  | _ => false
-- the printer's own spelling, every alternative spelling (all dialects), `!` everywhere (Hive), `AS` dropped where allowed
#guard agreesSp .MYSQL TSP.plain spQs
  "SELECT `a` AS x, `b` % 2, (SELECT NOT `p` != 1 AS y FROM `w` AS k) FROM `t` AS u JOIN `v` ON `a` != `b` AND NOT `c` OR `d` / `e` > 0 ORDER BY `a`, `b` DESC LIMIT 2, 5"
#guard agreesSp .MYSQL TSP.altSp spQs
  "SELECT `a` AS x, `b` MOD 2, (SELECT NOT `p` <> 1 AS y FROM `w` AS k) FROM `t` AS u JOIN `v` ON `a` <> `b` && NOT `c` || `d` DIV `e` > 0 ORDER BY `a` ASC, `b` DESC LIMIT 5 OFFSET 2"
#guard agreesSp .HIVE TSP.bangAll spQs
  "SELECT `a` AS x, `b` % 2, (SELECT ! `p` != 1 AS y FROM `w` AS k) FROM `t` AS u JOIN `v` ON `a` != `b` AND ! `c` OR `d` / `e` > 0 ORDER BY `a`, `b` DESC LIMIT 2, 5"
#guard agreesSp .MYSQL (TSP.bareSp .MYSQL) spQs
  "SELECT `a` x, `b` % 2, (SELECT NOT `p` != 1 y FROM `w` k) FROM `t` u JOIN `v` ON `a` != `b` AND NOT `c` OR `d` / `e` > 0 ORDER BY `a`, `b` DESC LIMIT 2, 5"
#guard Gen.allD.all (fun d => roundTripsSp d TSP.plain spQs && roundTripsSp d TSP.altSp spQs && roundTripsSp d (TSP.bareSp d) spQs) && roundTripsSp .HIVE TSP.bangAll spQs
-- the real parser model (lexer + pre-pass + statement loop) on the four texts: one tree
#guard textParsesToSp .MYSQL "SELECT `a` AS x, `b` % 2, (SELECT NOT `p` != 1 AS y FROM `w` AS k) FROM `t` AS u JOIN `v` ON `a` != `b` AND NOT `c` OR `d` / `e` > 0 ORDER BY `a`, `b` DESC LIMIT 2, 5" spQs &&
  textParsesToSp .MYSQL "select a x, b mod 2, (select not p <> 1 y from w k) from t u join v on a <> b && not c || d div e > 0 order by a asc, b desc limit 5 offset 2" spQs &&
  textParsesToSp .HIVE "SELECT a x, b % 2, (SELECT ! p <> 1 y FROM w k) FROM t u JOIN v ON a != b && ! c OR d DIV e > 0 ORDER BY a ASC, b DESC LIMIT 5 OFFSET 2" spQs
-- for MySQL the text with `!` is ANOTHER tree (the unary operator), and `bangAll` is not admissible outside Hive
#guard !textParsesToSp .MYSQL "SELECT a x, b % 2, (SELECT ! p <> 1 y FROM w k) FROM t u JOIN v ON a != b && ! c OR d DIV e > 0 ORDER BY a ASC, b DESC LIMIT 5 OFFSET 2" spQs
#guard !roundTripsSp .MYSQL TSP.bangAll spQs
-- aliases that must keep their `AS`: operator and keyword words, the words the alias parser refuses; ordinary words may drop it
#guard !TSP.bareOK .MYSQL "div" && !TSP.bareOK .MYSQL "MOD" && !TSP.bareOK .MYSQL "and" && !TSP.bareOK .MYSQL "IN" && !TSP.bareOK .MYSQL "cross" &&
  !TSP.bareOK .MYSQL "using" && !TSP.bareOK .MYSQL "over" && !TSP.bareOK .MYSQL "as" && TSP.bareOK .MYSQL "x" && TSP.bareOK .HIVE "total"
-- Hive `==` (text level, through the dialect pre-pass): the same tree as `=`; no other dialect reads it so
open C03 in
def spQe : Query := .single (sel [(.compare "EQ" (col "a") (col "b"), none)] (some [tb "t"]))
#guard textParsesToSp .HIVE "SELECT a == b FROM t" spQe && textParsesToSp .HIVE "SELECT a = b FROM t" spQe && textParsesToSp .MYSQL "SELECT a = b FROM t" spQe &&
  !textParsesToSp .MYSQL "SELECT a == b FROM t" spQe
-- instances of the theorems (hypotheses decided by the kernel, conclusions the theorems'; the kernel does not evaluate `toString` of the
-- LIMIT numbers, hence a query without LIMIT)
open C03 in
def spQk : Query := .single (.mk (some []) false
  [(col "a", some "x"), (.compute (col "b") "MOD" (lit "2"), none), (.subQuery (.single (sel [(.not_ (.compare "NEQ" (col "p") (lit "1")), some "y")] (some [tb "w" (some "k")]))), none)]
  (some [tb "t" (some "u")]) []
  [.mk "JOIN" (tb "v") (some (.on (.or_ (.and_ (.compare "NEQ" (col "a") (col "b")) (.not_ (col "c")))
      (.compare "GT" (.compute (col "d") "DIVIDE" (col "e")) (lit "0")))))]
  none none none (some [.mk (col "a") false false false, .mk (col "b") true false false]) none none none none)
set_option maxRecDepth 100000 in
example : pSelectStmt .MYSQL (fuelFor (TSP.toksQ .MYSQL TSP.altSp spQk ++ C03.lexed "; x")) none (TSP.toksQ .MYSQL TSP.altSp spQk ++ C03.lexed "; x") =
    .ok (spQk, C03.lexed "; x") :=
  tquery_spellings_entry_fuel .MYSQL TSP.altSp (TSP.spOK_alt _) spQk (by decide) _ (by decide)
set_option maxRecDepth 100000 in
example : pSelectStmt .HIVE 4000 none (TSP.toksQ .HIVE TSP.bangAll spQk ++ C03.lexed ";") = .ok (spQk, C03.lexed ";") :=
  C13.dialect_governs_nested spQk (by decide) _ (by decide) 4000 (by decide)
end C09

/-! ### C13 at text level: the spellings the dialect PRE-PASS normalises (Hive `==`, DB2 `CURRENT DATE` …)

`SQLParser._unify_input_scanner` rewrites the TEXT before lexing (`PM.dialectPre`: for Hive every `==` becomes `=`, for DB2 the two-word forms
`CURRENT DATE / TIME / TIMESTAMP` become the one-word forms).  So a text and its pre-passed form are read alike by EVERY entry point —
for every text, not only the fragment — as soon as the pre-pass has nothing left to do on its own output (no `==` remains, i.e. the source
has no run of three `=`; no two-word form remains).  The limits of the pre-pass are the known findings F-C06-2 / F-C06-3 (it also rewrites
inside quoted regions) and F-C09-1 (only upper case and exactly one blank): the theorem speaks about `dialectPre`, so it inherits them. -/
namespace C13
/-- no suffix of the text starts with the pattern -/
def noOccP (pat : List Char) : List Char → Bool
  | [] => !pat.isPrefixOf []
  | c :: r => !pat.isPrefixOf (c :: r) && noOccP pat r
theorem replaceGo_noOcc (pat rep : List Char) : ∀ (f : Nat) (t : List Char), noOccP pat t = true → Py.replaceGo pat rep f t = t := by
  intro f
  induction f with
  | zero => intro t _; rfl
  | succ f ih =>
    intro t h
    cases t with
    | nil => rfl
    | cons c r =>
      simp only [noOccP, Bool.and_eq_true, Bool.not_eq_true'] at h
      simp [Py.replaceGo, h.1, ih r h.2]
theorem replace_noOcc (pat rep t : List Char) (h : noOccP pat t = true) : Py.replace pat rep t = t := by
  unfold Py.replace; split
  · rfl
  · exact replaceGo_noOcc pat rep _ t h
/-- the text contains nothing the dialect pre-pass would rewrite -/
def preClean (d : Gen.D) (t : List Char) : Bool :=
  (d != .HIVE || noOccP "==".toList t) &&
    (d != .DB2 || (noOccP "CURRENT DATE".toList t && noOccP "CURRENT TIME".toList t && noOccP "CURRENT TIMESTAMP".toList t))
theorem dialectPre_clean (d : Gen.D) (t : List Char) (h : preClean d t = true) : dialectPre d t = t := by
  cases d <;> simp_all [dialectPre, preClean, replace_noOcc]
/-- **a text and its pre-passed form parse alike** (statement entry point; every text whose pre-passed form is clean) -/
theorem pre_pass_spelling (d : Gen.D) (t : List Char) (h : preClean d (dialectPre d t) = true) :
    PM.parseStatementsText d t = PM.parseStatementsText d (dialectPre d t) := by
  unfold PM.parseStatementsText; rw [dialectPre_clean d _ h]
/-- the same for every entry point `SQLParser.parse_<entry>(text, sql_type)` -/
theorem pre_pass_spelling_entry (entry : String) (d : Gen.D) (t : List Char) (h : preClean d (dialectPre d t) = true) :
    PM.parseText entry d t = PM.parseText entry d (dialectPre d t) := by
  unfold PM.parseText; rw [dialectPre_clean d _ h]
/-- Hive: the text with `==` and the text in which every `==` is written `=` parse alike -/
theorem hive_eqeq_is_eq (t : List Char) (h : noOccP "==".toList (Py.replace "==".toList "=".toList t) = true) :
    PM.parseStatementsText .HIVE t = PM.parseStatementsText .HIVE (Py.replace "==".toList "=".toList t) := by
  have e : dialectPre .HIVE t = Py.replace "==".toList "=".toList t := by simp [dialectPre]
  have := pre_pass_spelling .HIVE t (by rw [e]; simpa [preClean] using h)
  rwa [e] at this
/-- in the five dialects without a pre-pass nothing is normalised: `==` stays what the lexer makes of it -/
theorem no_pre_pass_elsewhere (d : Gen.D) (h1 : d ≠ .DB2) (h2 : d ≠ .HIVE) (t : List Char) : dialectPre d t = t := by
  cases d <;> simp_all [dialectPre]
-- non-vacuity (compiled evaluation)
#guard preClean .HIVE (dialectPre .HIVE "SELECT a == b FROM t WHERE c==1".toList) && String.ofList (dialectPre .HIVE "SELECT a == b FROM t WHERE c==1".toList) == "SELECT a = b FROM t WHERE c=1"
#guard !preClean .HIVE (dialectPre .HIVE "SELECT a === b".toList)
#guard preClean .DB2 (dialectPre .DB2 "SELECT CURRENT DATE, CURRENT TIMESTAMP FROM t".toList) &&
  String.ofList (dialectPre .DB2 "SELECT CURRENT DATE, CURRENT TIMESTAMP FROM t".toList) == "SELECT CURRENT_DATE, CURRENT_TIMESTAMP FROM t"
-- F-C09-1: lower case / two blanks are not normalised (the hypothesis holds trivially, the two texts are the same text)
#guard String.ofList (dialectPre .DB2 "SELECT current date, CURRENT  DATE FROM t".toList) == "SELECT current date, CURRENT  DATE FROM t"
#guard (match PM.parseStatementsText .DB2 "SELECT CURRENT DATE FROM t".toList, PM.parseStatementsText .DB2 "SELECT CURRENT_DATE FROM t".toList with
  | .ok [.select p], .ok [.select q] => Drv.showVal p.toVal == Drv.showVal q.toVal | _, _ => false)
end C13

/-! ### the prefix NOT position, for EVERY token list (not only the fragment) -/
namespace C13
/-- Hive: at the NOT level the word `!` and the word `NOT` are treated alike, whatever follows -/
theorem hive_bang_prefix_any (f : Nat) (ts : List Tok) : pNot .HIVE f (opTok "!" :: ts) = pNot .HIVE f (opTok "NOT" :: ts) := by
  cases f with
  | zero => rfl
  | succ g =>
    have h1 : (Gen.notSet .HIVE).contains (up (opTok "!").src) = true := by decide
    have h2 : (Gen.notSet .HIVE).contains (up (opTok "NOT").src) = true := by decide
    conv => lhs; unfold pNot
    conv => rhs; unfold pNot
    simp only [h1, h2, if_true]
/-- every other dialect: at the NOT level `!` is no NOT word — the whole token list goes on to the comparison level (where `!` is the unary
operator of the compute level) -/
theorem bang_is_no_not_elsewhere (d : Gen.D) (h : d ≠ .HIVE) (f : Nat) (ts : List Tok) :
    pNot d (f + 1) (opTok "!" :: ts) = pCompare d f (opTok "!" :: ts) := by
  have h1 : (Gen.notSet d).contains (up (opTok "!").src) = false := by cases d <;> first | exact absurd rfl h | decide
  conv => lhs; unfold pNot
  simp only [h1, Bool.false_eq_true, if_false]
/-- the look-ahead of the keyword-predicate level treats `!` and `NOT` alike in Hive too (`parser.py:902`) — but see
`witness_hive_bang_before_in`: the compute level in front of it never leaves a `!` for it -/
theorem hive_skipNot_bang (r : List Tok) : skipNot .HIVE (opTok "!" :: r) = (true, r) ∧ skipNot .HIVE (opTok "NOT" :: r) = (true, r) := by
  have h1 : (Gen.notSet .HIVE).contains (up (opTok "!").src) = true := by decide
  have h2 : (Gen.notSet .HIVE).contains (up (opTok "NOT").src) = true := by decide
  simp only [skipNot, h1, h2, if_true, and_self]
/-- why it is never reached: `!` is a compute operator, so the compute loop in front of the keyword level always consumes it -/
theorem bang_is_compute_operator : computeOp? (up (opTok "!").src) = some ("LOGICAL_INVERSION", 2) := by decide
end C13


/-! ### the printer's own spelling is one of the choices -/
namespace C09
/-- with the printer's own spellings the spelled printer is the token printer of Props/C03Q.lean -/
theorem plain_is_printer (d : Gen.D) (ch : Expr → Bool) (q : Query) : TSP.toksQ d (TSP.plainCh ch) q = TQ.toksQ d ch q := TSP.plainQ d ch q
theorem plain_is_printer_expr (d : Gen.D) (ch : Expr → Bool) (e : Expr) : TSP.toksE3 d (TSP.plainCh ch) e = TQ.toksE3 d ch e := TSP.plainE d ch e
theorem spOK_plainCh {d : Gen.D} {ch : Expr → Bool} (hch : TQ.ChOK d ch) : TSP.SpOK d (TSP.plainCh ch) :=
  TSP.spOK_of hch (fun e h => by simp [TSP.plainCh] at h) (fun c => by cases c.2 <;> rfl) (fun t a => by cases a <;> rfl)
/-- `C03.tquery_ch` (hence `C03.tquery`) as the instance `sp = plainCh ch` of the spelling-generalised theorem -/
theorem tquery_ch_instance (d : Gen.D) (ch : Expr → Bool) (hch : TQ.ChOK d ch) (q : Query) (hq : FragQ d q = true) (rest : List Tok)
    (hr : stopsQ d rest = true) (fuel : Nat) (hfuel : 20 * sizeL (TQ.toksQ d ch q) + 9 ≤ fuel) :
    pSelectStmt d fuel none (TQ.toksQ d ch q ++ rest) = .ok (q, rest) := by
  rw [← plain_is_printer] at hfuel ⊢
  exact tquery_spellings d _ (spOK_plainCh hch) q hq rest hr fuel hfuel
/-- **every admissible spelling parses like the printer's own token output** `TQ.toksQ d noX q` (= the lexed printed text on the fragment
of Props/C03L / C03QL) -/
theorem spelled_like_printed (d : Gen.D) (sp : TSP.Sp) (hsp : TSP.SpOK d sp) (q : Query) (hq : FragQ d q = true) (rest : List Tok)
    (hr : stopsQ d rest = true) :
    pSelectStmt d (fuelFor (TSP.toksQ d sp q ++ rest)) none (TSP.toksQ d sp q ++ rest) =
      pSelectStmt d (fuelFor (TQ.toksQ d noX q ++ rest)) none (TQ.toksQ d noX q ++ rest) := by
  rw [tquery_spellings_entry_fuel d sp hsp q hq rest hr, C03.tquery_entry_fuel d q hq rest hr]
end C09
