import MsqProofs.Lemmas.TSpellM
/-!
# C09 / C13 — spelling-generalised T-parse: the spellings the parser treats alike give the SAME tree

**Fragment**: exactly the nested fragment of Props/C03Q.lean — `TQ.FragQ d q` (queries: SELECTs over nested expressions, set operations,
derived tables, sub-queries in expressions, any depth), `TQ.FragE3 d e` (expressions).

**Spelled printer** (Lemmas/TSpell0.lean): `TSP.toksQ d sp q` / `TSP.toksE3 d sp e` (`C09.toksQsp` / `C09.toksEsp`) — the token rendering of
`q` in which the record `sp : TSP.Sp` of choice functions picks, node by node, among the spellings the parser accepts:
`!=` / `<>` (`sp.ne`), `AND` / `&&` (`sp.amp`), `OR` / `||` (`sp.bar`), `/` / `DIV` and `%` / `MOD` (`sp.word`, keyed by the operand
after the operator), prefix `NOT` / `!` (`sp.bang`; Hive only: `SpOK.bang`), alias with / without `AS` (`sp.bareC` select items, `sp.bareT`
FROM and JOIN items), `ASC` written or not (`sp.asc`), `LIMIT m, n` / `LIMIT n OFFSET m` (`sp.offs`), redundant brackets (`sp.ch`).
`TSP.plainCh ch` is the printer's own spelling with bracket choice `ch`: `TSP.toksQ d (plainCh ch) q = TQ.toksQ d ch q` is NOT proved
(`#guard`s below); `C03.tquery_ch` is the special case in which nothing but brackets is chosen.

**Side conditions** `TSP.SpOK d sp` (Lemmas/TSpellM.lean): `bang` — `!` only for `d = HIVE`; `bareC` / `bareT` — an alias is written without `AS`
only if it is no word that would continue the expression before it or that `_parse_alias_expression` refuses (`TSP.bareOK d a`: `DIV`, `MOD`,
`AND`, `OR`, `IN`, `CROSS`, `USING`, … must keep their `AS`); `dist` / `grouping` — the two first-word conditions of the fragment
(no leading `DISTINCT` in the select list, no leading `GROUPING` in the first GROUP BY key) for the chosen rendering.  `TSP.spOK_of` discharges
the last two from the same conditions about the bracket choice alone (`TQ.ChOK d sp.ch`, trivial for `noX`): no spelling changes whether
a rendering starts with one of these two words (`TSP.head_word`).

**Theorems** (every dialect, every fuel above the explicit linear bound)
* `C09.tquery_spellings` : `SpOK d sp → FragQ d q → stopsQ d rest → 20 * sizeL (toksQ d sp q) + 9 ≤ fuel →
  pSelectStmt d fuel none (toksQ d sp q ++ rest) = ok (q, rest)`;  `tquery_spellings_entry_fuel` (the entry points' fuel),
  `tquery_spellings_statement` (through `pStatement`), `C09.texpr_spellings` (the expression half, `pOr`);
* `C09.spelling_invariance` : two admissible spelling choices of one tree parse to equal results (trees AND remaining tokens);
  `C09.spelling_determines_nothing` : equal spelled renderings of two fragment trees ⇒ equal trees;
* the normal forms the tree holds: `C09.neq_spellings` (`a != b`, `a <> b` ↦ `.compare "NEQ"`), `C09.and_or_spellings`
  (`&&` ↦ `.and_`, `||` ↦ `.or_`), `C09.div_mod_spellings` (`DIV` ↦ `"DIVIDE"`, `MOD` ↦ `"MOD"`), `C09.alias_as_optional`,
  `C09.asc_optional`, `C09.limit_offset_form`;
* what is NOT alike (separating instances, kernel-checked): `C09.inner_join_is_not_join` (`INNER JOIN` is stored as `INNER_JOIN`, `JOIN` as
  `JOIN`), `C09.union_distinct_rejected`, `C09.amp_is_not_between_and` (`BETWEEN a && b` is an error: the `AND` of BETWEEN is matched by
  word);
* C13: `C13.hive_bang_is_not` (`! x` parses to `NOT x` in the Hive dialect, for every fragment `x`), `C13.dialect_governs_nested` (with
  `!` at EVERY `NOT` node of a nested query, at any depth, the Hive parser returns the tree), `C13.bang_not_hive_only` (in the six other
  dialects `! a` is the unary operator `LOGICAL_INVERSION`, in Hive it is `NOT a`), `C13.bang_word_hive_only`;
* finding candidate (F-C13-bang): `C13.witness_hive_bang_before_in` — in the Hive dialect `a ! IN (1)` / `a ! LIKE b` / `a ! BETWEEN …` the
  `!` in the keyword-predicate NOT position (`parser.py:902` asks `get_not_operator_set`) is never reached: the compute level before it has
  already taken `!` as a BINARY operator (`COMPUTE_OPERATOR_HASH` has `"!"`), the result is `a ! IN(1)` with `IN` a function call.
-/
set_option linter.unusedVariables false
set_option linter.unusedSimpArgs false
open Lex PM Ast TP TS TQ

namespace TSP
/-! ### no spelling changes whether a rendering starts with `DISTINCT` / `GROUPING` -/
def keyOf (k : String) (ts : List Tok) : Option Bool := ts.head?.map (fun t => t.srcEqUp k)
theorem searchStrUp_key (ts : List Tok) (k : String) : searchStrUp ts k = (keyOf k ts).getD false := by cases ts <;> rfl
theorem keyOf_append (k : String) (a b : List Tok) : keyOf k (a ++ b) = (keyOf k a).or (keyOf k b) := by cases a <;> simp [keyOf]
theorem keyOf_cons (k : String) (t : Tok) (a : List Tok) : keyOf k (t :: a) = some (t.srcEqUp k) := rfl
theorem keyOf_grp {k : String} (hk : k = "DISTINCT" ∨ k = "GROUPING") (cs : List Tok) : (grp cs).srcEqUp k = false := by
  have h2 : (up (grp cs).src).toList.head? = some '(' := by simp [toList_up_grp]
  simp only [Tok.srcEqUp, beq_eq_false_iff_ne, ne_eq]
  rcases hk with rfl | rfl <;> exact ne_of_head h2 (by decide)
theorem keyOf_wrapT {k : String} (hk : k = "DISTINCT" ∨ k = "GROUPING") (x : Bool) (e : Expr) (L : Nat) (ts : List Tok) :
    keyOf k (wrapT x e L ts) = if PR.lvl e > L ∨ x = true then some false else keyOf k ts := by
  unfold wrapT; split
  · simp [keyOf, keyOf_grp hk]
  · rfl
theorem tok_keys {k : String} (hk : k = "DISTINCT" ∨ k = "GROUPING") (b : Bool) :
    (andTok b).srcEqUp k = (opTok "AND").srcEqUp k ∧ (orTok b).srcEqUp k = (opTok "OR").srcEqUp k ∧
    (notTok b).srcEqUp k = (opTok "NOT").srcEqUp k := by rcases hk with rfl | rfl <;> cases b <;> decide
theorem cmp_key {k : String} (hk : k = "DISTINCT" ∨ k = "GROUPING") (b : Bool) (o : String) :
    (cmpTok b o).srcEqUp k = (opTok (cmpVal o)).srcEqUp k := by
  unfold cmpTok; split
  · rename_i h; simp only [Bool.and_eq_true, beq_iff_eq] at h; rw [h.2]; rcases hk with rfl | rfl <;> decide
  · rfl
theorem cval_key {k : String} (hk : k = "DISTINCT" ∨ k = "GROUPING") (b : Bool) (o : String) :
    (opTok (cvalSp b o)).srcEqUp k = (opTok (cval o)).srcEqUp k := by
  unfold cvalSp; split
  · rename_i h; simp only [Bool.and_eq_true, beq_iff_eq] at h; rw [h.2]; rcases hk with rfl | rfl <;> decide
  · split
    · rename_i h; simp only [Bool.and_eq_true, beq_iff_eq] at h; rw [h.2]; rcases hk with rfl | rfl <;> decide
    · rfl

/-- the first token of a spelled rendering is `DISTINCT` / `GROUPING` iff the first token of the rendering with the same brackets and the
printer's own spellings is -/
theorem head_word (d : Gen.D) (sp : Sp) {k : String} (hk : k = "DISTINCT" ∨ k = "GROUPING") :
    ∀ e : Expr, keyOf k (toksE3 d sp e) = keyOf k (TQ.toksE3 d sp.ch e)
  | .column t c => by cases t <;> simp only [toksE3, TQ.toksE3]
  | .literal v => by simp only [toksE3, TQ.toksE3]
  | .wildcard t => by cases t <;> simp only [toksE3, TQ.toksE3]
  | .func s n ps => by cases s <;> simp only [toksE3, TQ.toksE3, List.nil_append, List.cons_append, keyOf_cons]
  | .agg n ps dist => by simp only [toksE3, TQ.toksE3, keyOf_cons]
  | .caseCond cs els => by simp only [toksE3, TQ.toksE3, keyOf_cons]
  | .caseVal v cs els => by simp only [toksE3, TQ.toksE3, keyOf_cons]
  | .subValue vs => by simp only [toksE3, TQ.toksE3, keyOf_cons, keyOf_grp hk]
  | .subQuery q => by simp only [toksE3, TQ.toksE3, keyOf_cons, keyOf_grp hk]
  | .exists_ v => by simp only [toksE3, TQ.toksE3, keyOf_cons]
  | .unary o e => by simp only [toksE3, TQ.toksE3, keyOf_cons]
  | .compute l o r => by
      have ih := head_word d sp hk l
      simp only [toksE3, TQ.toksE3, keyOf_append, keyOf_cons, keyOf_wrapT hk, ih, cval_key hk]
  | .kw kk n l r => by
      have ih := head_word d sp hk l
      simp only [toksE3, TQ.toksE3, keyOf_append, keyOf_cons, keyOf_wrapT hk, ih]
      cases kk <;> cases n <;> simp [kwToks, keyOf]
  | .between n b f t => by
      have ih := head_word d sp hk b
      simp only [toksE3, TQ.toksE3, keyOf_append, keyOf_cons, keyOf_wrapT hk, ih]
  | .compare o l r => by
      have ih := head_word d sp hk l
      simp only [toksE3, TQ.toksE3, keyOf_append, keyOf_cons, keyOf_wrapT hk, ih, cmp_key hk]
  | .not_ e => by simp only [toksE3, TQ.toksE3, keyOf_cons, (tok_keys hk _).2.2]
  | .and_ l r => by
      have ih := head_word d sp hk l
      simp only [toksE3, TQ.toksE3, keyOf_append, keyOf_cons, keyOf_wrapT hk, ih, (tok_keys hk _).1]
  | .xor l r => by
      have ih := head_word d sp hk l
      simp only [toksE3, TQ.toksE3, keyOf_append, keyOf_cons, keyOf_wrapT hk, ih]
  | .or_ l r => by
      have ih := head_word d sp hk l
      simp only [toksE3, TQ.toksE3, keyOf_append, keyOf_cons, keyOf_wrapT hk, ih, (tok_keys hk _).2.1]
  | .cast .. => by simp only [toksE3, TQ.toksE3]
  | .extract .. => by simp only [toksE3, TQ.toksE3]
  | .window .. => by simp only [toksE3, TQ.toksE3]
  | .index .. => by simp only [toksE3, TQ.toksE3]
  | .mybatis .. => by simp only [toksE3, TQ.toksE3]

/-- the first-word condition of a GROUP BY key only depends on the bracket choice -/
theorem head_word_key (d : Gen.D) (sp : Sp) (e : Expr) : searchStrUp (W3 d sp e 8) "GROUPING" = searchStrUp (TQ.W3 d sp.ch e 8) "GROUPING" := by
  have hk : "GROUPING" = "DISTINCT" ∨ "GROUPING" = "GROUPING" := Or.inr rfl
  simp only [searchStrUp_key, W3, TQ.W3, keyOf_wrapT hk, head_word d sp hk e]

/-- **discharging `SpOK`**: the first-word condition from the same condition about the bracket choice alone (`TQ.ChOK`, trivial for `noX`) -/
theorem spOK_of {d : Gen.D} {sp : Sp} (hch : TQ.ChOK d sp.ch) (hbang : ∀ e, sp.bang e = true → d = .HIVE)
    (hC : ∀ c, optBareOK d (sp.bareC c) c.2 = true) (hT : ∀ t a, optBareOK d (sp.bareT (.mk t a)) a = true) : SpOK d sp :=
  ⟨fun e h => by rw [head_word_key]; exact hch.grouping e h, hbang, hC, hT⟩
/-- no redundant brackets, `AS` always written, `!` never: every other choice is free, in every dialect -/
theorem spOK_free {d : Gen.D} {sp : Sp} (hch : sp.ch = noX) (hbang : sp.bang = fun _ => false) (hC : sp.bareC = fun _ => false)
    (hT : sp.bareT = fun _ => false) : SpOK d sp := by
  refine spOK_of (by rw [hch]; exact TQ.chOK_noX) (fun e h => by simp [hbang] at h) (fun c => ?_) (fun t a => ?_)
  · rw [hC]; cases c.2 <;> rfl
  · rw [hT]; cases a <;> rfl
end TSP
