import MsqModel.Analyze.Tables
import MsqModel.Analyze.TablesSpec
import MsqModel.Gen.Schema
import MsqModel.Driver.CmdAnalyze
/-!
# C14 — table-usage analysis reports exactly the tables a query reads

`AN.allUsedTables` is the reflective walk of `analyzer/base.py` over the generic value; `Spec.tablesOf` is the
specification on the typed tree.  The theorems say that for **every** query tree the walk over `toVal q`
returns exactly the specified list (no error, no extra, no missing entry, same order), and likewise for the
FROM-only and JOIN-only variants.
-/
namespace C14
open Ast AN Spec

/-- the class facts behind the model's name comparisons hold of the class table regenerated from `/repo` -/
theorem schema_ok : AN.schemaOK Gen.schema = true := by decide +kernel

abbrev R (l : List Tbl) : Except Err (List Val) := .ok (l.map Tbl.toVal)

attribute [local simp] allUsedTables allUsedTablesL allUsedTablesF getattr bind Except.bind pure Except.pure
  List.map_append Tbl.toVal Val.optStr Val.ofOpt

theorem ints_ok : ∀ l : List Int, allUsedTablesL (l.map Val.int) = .ok []
  | [] => by simp
  | _ :: r => by simp [ints_ok r]
theorem strs_ok : ∀ l : List String, allUsedTablesL (l.map Val.str) = .ok []
  | [] => by simp
  | _ :: r => by simp [strs_ok r]

theorem fnil : allUsedTablesF [] = R [] := by simp
theorem fcons {n : String} {v : Val} {r : List (String × Val)} {x y : List Tbl}
    (h1 : allUsedTables v = R x) (h2 : allUsedTablesF r = R y) : allUsedTablesF ((n, v) :: r) = R (x ++ y) := by
  simp_all
theorem node_ok {cls : String} {fs : List (String × Val)} {x : List Tbl}
    (h : (cls == "ASTTableNameExpression") = false) (h2 : allUsedTablesF fs = R x) : allUsedTables (.node cls fs) = R x := by
  simp_all

mutual
theorem expr_ok : ∀ e : Expr, allUsedTables e.toVal = R (tablesE e)
  | .column t _ => by cases t <;> simp [Expr.toVal, tablesE]
  | .literal _ => by simp [Expr.toVal, tablesE]
  | .wildcard t => by cases t <;> simp [Expr.toVal, tablesE]
  | .func s n ps => by
    have := exprs_ok ps
    cases s <;> simp_all [Expr.toVal, tablesE, fnName]
  | .agg n ps d => by
    have := exprs_ok ps
    simp_all [Expr.toVal, tablesE, fnName]
  | .cast e sg ty ps => by
    have := expr_ok e
    cases ps <;> simp_all [Expr.toVal, tablesE, fnName, ints_ok]
  | .extract n e => by
    have := expr_ok n; have := expr_ok e
    simp_all [Expr.toVal, tablesE, fnName]
  | .window fn part ord rows => by
    have := expr_ok fn; have := exprs_ok part; have := orders_ok ord
    rcases rows with _ | ⟨a, b⟩
    · simp_all [Expr.toVal, tablesE]
    · cases a <;> cases b <;> simp_all [Expr.toVal, tablesE, RowItem.toVal]
  | .caseCond cs els => by
    have := arms_ok "ASTCaseConditionItem" (by decide) cs; have := optExpr_ok els
    simp_all [Expr.toVal, tablesE]
  | .caseVal v cs els => by
    have := expr_ok v; have := arms_ok "ASTCaseValueItem" (by decide) cs; have := optExpr_ok els
    simp_all [Expr.toVal, tablesE]
  | .subValue vs => by
    have := exprs_ok vs
    simp_all [Expr.toVal, tablesE]
  | .subQuery q => by
    have := query_ok q
    simp_all [Expr.toVal, tablesE]
  | .exists_ v => by
    have := expr_ok v
    simp_all [Expr.toVal, tablesE]
  | .index a i => by
    have := expr_ok a; have := expr_ok i
    simp_all [Expr.toVal, tablesE]
  | .unary _ e => by
    have := expr_ok e
    simp_all [Expr.toVal, tablesE]
  | .compute l _ r => by
    have := expr_ok l; have := expr_ok r
    simp_all [Expr.toVal, tablesE]
  | .kw k _ l r => by
    have := expr_ok l; have := expr_ok r
    cases k <;> simp_all [Expr.toVal, tablesE, KwKind.cls]
  | .between _ b f t => by
    have := expr_ok b; have := expr_ok f; have := expr_ok t
    simp_all [Expr.toVal, tablesE]
  | .compare _ l r => by
    have := expr_ok l; have := expr_ok r
    simp_all [Expr.toVal, tablesE]
  | .not_ e => by
    have := expr_ok e
    simp_all [Expr.toVal, tablesE]
  | .and_ l r => by
    have := expr_ok l; have := expr_ok r
    simp_all [Expr.toVal, tablesE]
  | .xor l r => by
    have := expr_ok l; have := expr_ok r
    simp_all [Expr.toVal, tablesE]
  | .or_ l r => by
    have := expr_ok l; have := expr_ok r
    simp_all [Expr.toVal, tablesE]
  | .mybatis _ => by simp [Expr.toVal, tablesE]
theorem exprs_ok : ∀ es : List Expr, allUsedTablesL (exprs es) = R (tablesEs es)
  | [] => by simp [exprs, tablesEs]
  | e :: r => by
    have := expr_ok e; have := exprs_ok r
    simp_all [exprs, tablesEs]
theorem optExpr_ok : ∀ e : Option Expr, allUsedTables (optExpr e) = R (tablesOE e)
  | none => by simp [optExpr, tablesOE]
  | some e => by
    have := expr_ok e
    simp_all [optExpr, tablesOE]
theorem arms_ok (cls : String) (hc : (cls == "ASTTableNameExpression") = false) :
    ∀ cs : List (Expr × Expr), allUsedTablesL (arms cls cs) = R (tablesArms cs)
  | [] => by simp [arms, tablesArms]
  | (w, t) :: r => by
    have := expr_ok w; have := expr_ok t; have := arms_ok cls hc r
    simp_all [arms, tablesArms]
theorem order_ok : ∀ o : OrderItem, allUsedTables o.toVal = R (tablesO o)
  | .mk e _ _ _ => by
    have := expr_ok e
    simp_all [OrderItem.toVal, tablesO]
theorem orders_ok : ∀ os : List OrderItem, allUsedTablesL (orders os) = R (tablesOs os)
  | [] => by simp [orders, tablesOs]
  | o :: r => by
    have := order_ok o; have := orders_ok r
    simp_all [orders, tablesOs]
theorem ref_ok : ∀ t : TableRef, allUsedTables t.toVal = R (tablesRef t)
  | .table s n => by cases s <;> simp [TableRef.toVal, tablesRef, tableNameVal, standardTable]
  | .sub q => by
    have := query_ok q
    simp_all [TableRef.toVal, tablesRef]
theorem fromTable_ok : ∀ t : FromTable, allUsedTables t.toVal = R (tablesFT t)
  | .mk t a => by
    have := ref_ok t
    cases a <;> simp_all [FromTable.toVal, tablesFT, alias]
theorem fromTables_ok : ∀ ts : List FromTable, allUsedTablesL (fromTables ts) = R (tablesFTs ts)
  | [] => by simp [fromTables, tablesFTs]
  | t :: r => by
    have := fromTable_ok t; have := fromTables_ok r
    simp_all [fromTables, tablesFTs]
theorem rule_ok : ∀ r : JoinRule, allUsedTables r.toVal = R (tablesRule r)
  | .on e => by
    have := expr_ok e
    simp_all [JoinRule.toVal, tablesRule]
  | .using f => by
    have := expr_ok f
    simp_all [JoinRule.toVal, tablesRule]
theorem join_ok : ∀ j : Join, allUsedTables j.toVal = R (tablesJ j)
  | .mk _ t rule => by
    have := fromTable_ok t
    rcases rule with _ | r
    · simp_all [Join.toVal, tablesJ]
    · have := rule_ok r
      simp_all [Join.toVal, tablesJ]
theorem joins_ok : ∀ js : List Join, allUsedTablesL (joins js) = R (tablesJs js)
  | [] => by simp [joins, tablesJs]
  | j :: r => by
    have := join_ok j; have := joins_ok r
    simp_all [joins, tablesJs]
theorem exprLists_ok : ∀ l : List (List Expr), allUsedTablesL (exprLists l) = R (tablesEss l)
  | [] => by simp [exprLists, tablesEss]
  | g :: r => by
    have := exprs_ok g; have := exprLists_ok r
    simp_all [exprLists, tablesEss]
theorem group_ok : ∀ g : GroupBy, allUsedTables g.toVal = R (tablesG g)
  | .mk cols sets _ _ => by
    have := exprs_ok cols
    rcases sets with _ | l
    · simp_all [GroupBy.toVal, tablesG]
    · have := exprLists_ok l
      simp_all [GroupBy.toVal, tablesG]
theorem lateral_ok : ∀ l : Lateral, allUsedTables l.toVal = R (tablesLat l)
  | .mk _ fn _ as => by
    have := expr_ok fn
    simp_all [Lateral.toVal, tablesLat, Val.strs, strs_ok]
theorem laterals_ok : ∀ ls : List Lateral, allUsedTablesL (laterals ls) = R (tablesLats ls)
  | [] => by simp [laterals, tablesLats]
  | l :: r => by
    have := lateral_ok l; have := laterals_ok r
    simp_all [laterals, tablesLats]
theorem withTable_ok : ∀ w : WithTable, allUsedTables w.toVal = R (tablesW w)
  | .mk _ q => by
    have := query_ok q
    simp_all [WithTable.toVal, tablesW]
theorem withTables_ok : ∀ ws : List WithTable, allUsedTablesL (withTables ws) = R (tablesWs ws)
  | [] => by simp [withTables, tablesWs]
  | w :: r => by
    have := withTable_ok w; have := withTables_ok r
    simp_all [withTables, tablesWs]
theorem withs_ok : ∀ ws : Option (List WithTable), allUsedTables (withsVal ws) = R (tablesWiths ws)
  | none => by simp [withsVal, tablesWiths]
  | some ws => by
    have := withTables_ok ws
    simp_all [withsVal, tablesWiths]
theorem cols_ok : ∀ cs : List (Expr × Option String), allUsedTablesL (selectCols cs) = R (tablesCols cs)
  | [] => by simp [selectCols, tablesCols]
  | (e, a) :: r => by
    have := expr_ok e; have := cols_ok r
    cases a <;> simp_all [selectCols, tablesCols, alias]
theorem fromClause_ok : ∀ fr : Option (List FromTable), allUsedTables (fromClauseVal fr) = R (tablesOFTs fr)
  | none => by simp [fromClauseVal, tablesOFTs, tablesOFTs]
  | some l => by simp [fromClauseVal, tablesOFTs, fromTables_ok l]
theorem whereClause_ok : ∀ wh : Option Expr, allUsedTables (whereClauseVal wh) = R (tablesOE wh)
  | none => by simp [whereClauseVal, tablesOE, tablesOE]
  | some e => by simp [whereClauseVal, tablesOE, expr_ok e]
theorem groupByClause_ok : ∀ gb : Option GroupBy, allUsedTables (groupByClauseVal gb) = R (tablesOG gb)
  | none => by simp [groupByClauseVal, tablesOG, tablesOG]
  | some g => by simp [groupByClauseVal, tablesOG, group_ok g]
theorem havingClause_ok : ∀ hv : Option Expr, allUsedTables (havingClauseVal hv) = R (tablesOE hv)
  | none => by simp [havingClauseVal, tablesOE, tablesOE]
  | some e => by simp [havingClauseVal, tablesOE, expr_ok e]
theorem orderByClause_ok : ∀ ob : Option (List OrderItem), allUsedTables (orderByClauseVal ob) = R (tablesOOs ob)
  | none => by simp [orderByClauseVal, tablesOOs, tablesOOs]
  | some l => by simp [orderByClauseVal, tablesOOs, orders_ok l]
theorem sortByClause_ok : ∀ sb : Option (List OrderItem), allUsedTables (sortByClauseVal sb) = R (tablesOOs sb)
  | none => by simp [sortByClauseVal, tablesOOs, tablesOOs]
  | some l => by simp [sortByClauseVal, tablesOOs, orders_ok l]
theorem distributeByClause_ok : ∀ db : Option (List Expr), allUsedTables (distributeByClauseVal db) = R (tablesOEs db)
  | none => by simp [distributeByClauseVal, tablesOEs, tablesOEs]
  | some l => by simp [distributeByClauseVal, tablesOEs, exprs_ok l]
theorem clusterByClause_ok : ∀ cb : Option (List Expr), allUsedTables (clusterByClauseVal cb) = R (tablesOEs cb)
  | none => by simp [clusterByClauseVal, tablesOEs, tablesOEs]
  | some l => by simp [clusterByClauseVal, tablesOEs, exprs_ok l]
theorem select_ok : ∀ s : Select, allUsedTables s.toVal = R (tablesS s)
  | .mk ws dist cols fr lats js wh gb hv ob sb db cb lm => by
    have this_cols := cols_ok cols
    have hlats : allUsedTables (.tuple (laterals lats)) = R (tablesLats lats) := by simp [laterals_ok lats]
    have hjs : allUsedTables (.tuple (joins js)) = R (tablesJs js) := by simp [joins_ok js]
    have hlm : allUsedTables (limitVal lm) = R [] := by
      rcases lm with _ | ⟨a, o⟩
      · simp [limitVal]
      · cases o <;> simp [limitVal, Val.optInt]
    have hsel : allUsedTables (.node "ASTSelectClause" [("distinct", .bool dist), ("columns", .tuple (selectCols cols))]) = R (tablesCols cols) := by
      simp [this_cols]
    simp only [Select.toVal, tablesS]
    refine (node_ok (by decide) (fcons (withs_ok ws) (fcons hsel (fcons (fromClause_ok fr) (fcons hlats (fcons hjs
      (fcons (whereClause_ok wh) (fcons (groupByClause_ok gb) (fcons (havingClause_ok hv) (fcons (orderByClause_ok ob)
      (fcons (sortByClause_ok sb) (fcons (distributeByClause_ok db) (fcons (clusterByClause_ok cb) (fcons hlm fnil)))))))))))))).trans ?_
    simp [R]
theorem union_ok : ∀ us : List (String × Select), allUsedTablesL (unionElems us) = R (tablesU us)
  | [] => by simp [unionElems, tablesU]
  | (_, s) :: r => by
    have := select_ok s; have := union_ok r
    simp_all [unionElems, tablesU]
theorem query_ok : ∀ q : Query, allUsedTables q.toVal = R (tablesQ q)
  | .single s => by
    have := select_ok s
    simp_all [Query.toVal, tablesQ]
  | .union ws s us => by
    have := withs_ok ws; have := select_ok s; have := union_ok us
    simp_all [Query.toVal, tablesQ]
end

/-! ## the statements -/

/-- **C14, all levels.**  For every query tree the reflective walk returns exactly the tables the specification
lists: every table named in a FROM or JOIN at any depth, once per occurrence, in textual order, schema and name
separated, and nothing else.  (No hypothesis: it holds of the model for every tree.) -/
theorem all_tables_exact (q : Query) : allUsedTables q.toVal = .ok ((tablesOf q).map Tbl.toVal) := query_ok q

/-- the same for a SELECT given as a statement -/
theorem all_tables_exact_stmt (q : Query) : allUsedTables (Stmt.select q).toVal = .ok ((tablesOf q).map Tbl.toVal) := by
  simpa [Stmt.toVal, tablesOf] using query_ok q

theorem from_single (s : Select) : fromClauseTables s.toVal = R (fromOfSelect s) := by
  cases s with
  | mk ws dist cols fr lats js wh gb hv ob sb db cb lm =>
    simp [fromClauseTables, selectToList, Select.toVal, fromOfSelect, fromClause_ok fr]

theorem join_single (s : Select) : joinClauseTables s.toVal = R (joinOfSelect s) := by
  cases s with
  | mk ws dist cols fr lats js wh gb hv ob sb db cb lm =>
    simp [joinClauseTables, selectToList, Select.toVal, joinOfSelect, joins_ok js]

/-- what `selectToList single` does on a single SELECT's value -/
theorem selectToList_select (single : List (String × Val) → Except Err (List Val)) (s : Select) :
    ∃ fs, s.toVal = .node "ASTSingleSelectStatement" fs ∧ selectToList single s.toVal = single fs := by
  cases s with
  | mk ws dist cols fr lats js wh gb hv ob sb db cb lm =>
    simp only [Select.toVal]
    exact ⟨_, rfl, by simp [selectToList]⟩

theorem unionLoop_elems (single : List (String × Val) → Except Err (List Val)) (f : Select → List Tbl)
    (h : ∀ s : Select, selectToList single s.toVal = R (f s)) :
    ∀ us : List (String × Select), unionLoop single (unionElems us) = R (us.flatMap fun p => f p.2)
  | [] => by simp [unionElems, unionLoop]
  | (t, s) :: r => by
    obtain ⟨fs, h1, h2⟩ := selectToList_select single s
    have h3 := h s
    rw [h2] at h3
    simp [unionElems, unionLoop, h1, h3, unionLoop_elems single f h r]

theorem selectToList_query (single : List (String × Val) → Except Err (List Val)) (f : Select → List Tbl)
    (h : ∀ s : Select, selectToList single s.toVal = R (f s)) :
    ∀ q : Query, selectToList single q.toVal = R ((branches q).flatMap f)
  | .single s => by simpa [Query.toVal, branches] using h s
  | .union ws s us => by
    obtain ⟨fs, h1, h2⟩ := selectToList_select single s
    have h3 := h s
    rw [h2] at h3
    have h4 := unionLoop_elems single f h us
    simp [Query.toVal, selectToList, unionLoop, h1, h3, h4, branches, List.flatMap_map]

/-- **C14, FROM-only variant.**  For each top-level SELECT branch, the tables reachable through its FROM clause. -/
theorem from_tables_exact (q : Query) : fromClauseTables q.toVal = .ok ((fromTablesOf q).map Tbl.toVal) :=
  selectToList_query _ fromOfSelect from_single q

/-- **C14, JOIN-only variant.** -/
theorem join_tables_exact (q : Query) : joinClauseTables q.toVal = .ok ((joinTablesOf q).map Tbl.toVal) :=
  selectToList_query _ joinOfSelect join_single q

/-- the FROM-only and JOIN-only variants never report a table the all-levels analysis does not report -/
theorem from_sub_all (s : Select) : ∀ t ∈ fromOfSelect s, t ∈ tablesS s := by
  cases s with
  | mk ws dist cols fr lats js wh gb hv ob sb db cb lm => intro t h; simp [fromOfSelect] at h; simp [tablesS, h]
theorem join_sub_all (s : Select) : ∀ t ∈ joinOfSelect s, t ∈ tablesS s := by
  cases s with
  | mk ws dist cols fr lats js wh gb hv ob sb db cb lm => intro t h; simp [joinOfSelect] at h; simp [tablesS, h]

/-! ## non-vacuity: a nested query with every kind of placement -/

/-- `WITH w AS (SELECT a FROM base) SELECT (SELECT 1 FROM s1) FROM s.t, (SELECT * FROM d1) x JOIN u ON u.a IN (SELECT b FROM p1)
    WHERE EXISTS (SELECT 1 FROM p2) UNION SELECT a FROM w` -/
def sample : Query :=
  let sel (cols : List (Expr × Option String)) (fr : List FromTable) (js : List Join) (wh : Option Expr) : Select :=
    .mk (some []) false cols (some fr) [] js wh none none none none none none none
  let q1 (t : String) : Query := .single (sel [(.literal "1", none)] [.mk (.table none t) none] [] none)
  .union (some [.mk "w" (q1 "base")])
    (sel [(.subQuery (q1 "s1"), none)] [.mk (.table (some "s") "t") none, .mk (.sub (q1 "d1")) (some "x")]
      [.mk "JOIN" (.mk (.table none "u") none) (some (.on (.kw .in_ false (.column (some "u") "a") (.subQuery (q1 "p1")))))]
      (some (.exists_ (.subQuery (q1 "p2")))))
    [("UNION", sel [(.column none "a", none)] [.mk (.table none "w") none] [] none)]

example : (tablesOf sample).map (fun t => (t.schema, t.name)) =
    [(none, "base"), (none, "s1"), (some "s", "t"), (none, "d1"), (none, "u"), (none, "p1"), (none, "p2"), (none, "w")] := by decide
example : (fromTablesOf sample).map (fun t => (t.schema, t.name)) = [(some "s", "t"), (none, "d1"), (none, "w")] := by decide
example : (joinTablesOf sample).map (fun t => (t.schema, t.name)) = [(none, "u"), (none, "p1")] := by decide

/-! ## Known finding F-C14-1 (composition with the parser)

The theorems above are exact on trees.  On *text* the property also needs the parser to separate schema and name
correctly, and it does not for one back-quoted name containing a dot: `_parse_table_name_expression`
(`parser.py:316-318`) splits the token text at the dot.  `String.splitOn` does not reduce in the kernel, so the
witness is an evaluation of the model (it fails the build if the model stops exhibiting the defect), not a theorem. -/

/-- the tables the model reports for the first statement of a text -/
def tablesOfText (d : Gen.D) (t : String) : Option (List (Option String × String)) :=
  match Drv.firstStmt d t.toList with
  | .ok s => match AN.allUsedTables s.toVal with
    | .ok vs => some (vs.filterMap fun v => match v with
      | .node _ [(_, .none), (_, .str t)] => some (none, t)
      | .node _ [(_, .str s), (_, .str t)] => some (some s, t)
      | _ => none)
    | .error _ => none
  | .error _ => none

def quotedDotSplits : Bool := tablesOfText .MYSQL "SELECT a FROM `a.b`" == some [(some "a", "b")]
#guard quotedDotSplits
#guard tablesOfText .MYSQL "SELECT a FROM `x.y.z`, `s`.`t`, s2.t2, `plain`" == some [(none, "x.y.z"), (some "s", "t"), (some "s2", "t2"), (none, "plain")]

end C14
