import MsqProofs.Lemmas.ParseNoPyStmt
import MsqProofs.Oblig.LexNoPyCfg
/-!
# C07 — malformed input fails closed: outcome typing of the parser and lexer models

What the correspondence ties to `metasequoia_sql/core/parser.py` and `lexical/fsm_machine.py` is a total function into
`Except Err _`; the property is that the only errors are the library's own family.  Here that is proved for the MODEL, on
every input, by typing:

* `parser_error_kinds` / `parser_no_foreign` — every function of the parser model (the 80-function expression / SELECT
  block, the helpers, the statement level, every entry of `PM.entries`), for every dialect, every fuel, every token list:
  an error is `.parse` (`SqlParseError`), `.fuel` (the model's own budget) or `.unmodelled _` — never `.py _`, and
  neither `.lexical`, `.notSupported`, `.analyzer`, `.diverges`.  The ONE function that can return a foreign exception
  is the model of Python's `int(str)` (`pyInt_leaks_ValueError`, exact); its two callers catch it (`_pop_as_int`) or test
  `is_int_literal` first (`as_int`), which is part of what is proved.
* `lexer_fails_closed` — `FSMMachine.parse` with the shipped table returns tokens or `.lexical` on every text.
* `text_error_kinds` / `text_no_foreign` — `SQLParser.parse_statements(text)` and every `SQLParser.parse_<entry>(text)`:
  lexer + dialect pre-pass + parser.
* `fuel_mono_text`, `fuel_mono_entries`, `fuel_deterministic` are in `C07Fuel.lean` (they need the monotonicity lemmas).

The proofs of the parser part are generated (`tools/gen_nopy.py` → `Lemmas/ParseNoPy.lean`, `Lemmas/ParseNoPyStmt.lean`)
and re-checked by the kernel on every build, so a model edit that introduces `.error (.py _)` anywhere breaks the build
at the function that does it.
-/
namespace C07
open Lex PM

/-- the three kinds, spelled out -/
theorem kinds (x : Err) : x.parserKind = true ↔ x = .parse ∨ x = .fuel ∨ ∃ w, x = .unmodelled w := Err.parserKind_iff x

/-! ## 1. the parser model -/

/-- **Every function of the parser model**, every dialect `d`, every fuel `f`, all arguments: the error, if any, is
`.parse`, `.fuel` or `.unmodelled _`.  `NoPyF d f` has one field per function of the mutual block of `Parse/Expr.lean`
(80), `NoPyS d f` one per other function of `Parse/{Expr,Stmt,Entry}.lean` (72); the cursor primitives of `Parse/Prim.lean`
are `PM.pop_nopy`, `matchKw_nopy`, `matchSeq_nopy`, `popSrc_nopy`, `headChildren_nopy`, `popInt_nopy`, `asInt_nopy`,
`popAsInt_nopy`, `closed_nopy`, `eachClosed_nopy`. -/
theorem parser_error_kinds (d : Gen.D) (f : Nat) : NoPyF d f ∧ NoPyS d f := ⟨noPyF d f, noPyS d f⟩

/-- every entry point of the model (the table `PM.entries` = the public `parse_*` methods after lexing) -/
theorem entries_error_kinds (name : String) (p : Entry) (hp : (name, p) ∈ entries) (d : Gen.D) (f : Nat) (ts : List Tok) (x : Err)
    (h : p d f ts = .error x) : x = .parse ∨ x = .fuel ∨ ∃ w, x = .unmodelled w := by
  rw [← Err.parserKind_iff]
  cases hk : x.parserKind with
  | true => rfl
  | false => exact absurd h (entries_nopy _ hp d f ts x hk)

/-- **C07.parser_no_foreign**: no function of the parser model returns a foreign Python exception (`IndexError`,
`KeyError`, `AttributeError`, `ValueError`, `TypeError`, …) — for every dialect, every fuel, every token list.  The first two
components give it for every function (instantiate the field with `Err.py e`, `rfl`); the last two spell it out for the
entry points and for `parse_statements`. -/
theorem parser_no_foreign (d : Gen.D) (f : Nat) :
    NoPyF d f ∧ NoPyS d f ∧
    (∀ p ∈ entries, ∀ ts e, p.2 d f ts ≠ .error (.py e)) ∧
    (∀ ts e, pStatements d f ts ≠ .error (.py e)) :=
  ⟨noPyF d f, noPyS d f, fun p hp ts e => entries_nopy p hp d f ts (.py e) rfl, fun ts e => pStatements_nopy d f ts (.py e) rfl⟩

/-- how the fields are used: e.g. `_parse_logical_or_level_expression` and `_parse_create_table_statement` -/
example (d : Gen.D) (f : Nat) (ts : List Tok) (e : Py.Exc) : pOr d f ts ≠ .error (.py e) := (parser_no_foreign d f).1.pOr ts _ rfl
example (d : Gen.D) (f : Nat) (ts : List Tok) (e : Py.Exc) : pCreateTable d f ts ≠ .error (.py e) := (parser_no_foreign d f).2.1.pCreateTable ts _ rfl
example (d : Gen.D) (f : Nat) (ts : List Tok) : pLimit ts ≠ .error (.py .ValueError) := (parser_no_foreign d f).2.1.pLimit ts _ rfl

/-- The one place where a foreign exception exists in the model: `int(str)` raises `ValueError` exactly on ASCII text that
is not an integer literal (`int('x')`) or is one with more than 4300 digits (`sys.get_int_max_str_digits()`), and nothing
else.  It does not escape: see `PM.popInt_nopy`, `PM.asInt_nopy` (`as_int` catches it since the repair 26a7a5d; before it,
`LIMIT` followed by 4301 digits escaped as `ValueError`). -/
theorem pyInt_leaks_ValueError (s : String) (e : Py.Exc) :
    pyInt s = .error (.py e) ↔
      e = .ValueError ∧ hasNonAscii s = false ∧
        (isAsciiIntBody (intBody s.toList) = false ∨ 4300 < ((intBody s.toList).filter Char.isDigit).length) := by
  rw [pyInt_error]
  simp only [tooManyDigits, decide_eq_true_eq]
  constructor
  · rintro (⟨_, h⟩ | ⟨h1, h2, h3⟩)
    · cases h
    · cases h3; exact ⟨rfl, h1, h2⟩
  · rintro ⟨rfl, h1, h2⟩; exact .inr ⟨h1, h2, rfl⟩

/-- `as_int` on an integer literal (`^[+-]?\d+$`, ASCII): the integer `int()` gives, or — more than 4300 digits — the
library's parse error -/
theorem asInt_on_int_literal (s : String) (hna : hasNonAscii s = false) (hlit : isIntLiteral s = true) :
    (((intBody s.toList).filter Char.isDigit).length ≤ 4300 ∧ ∃ n, asInt s = .ok n ∧ pyInt s = .ok n) ∨
    (4300 < ((intBody s.toList).filter Char.isDigit).length ∧ asInt s = .error .parse) := by
  rcases asInt_of_isIntLiteral s hna hlit with ⟨h, r⟩ | ⟨h, r⟩
  · left; simp only [tooManyDigits, decide_eq_false_iff_not, Nat.not_lt] at h; exact ⟨h, r⟩
  · right; simp only [tooManyDigits, decide_eq_true_eq] at h; exact ⟨h, r⟩

/-! ## 2. lexer, and text to tree -/

/-- **The lexer fails closed** on every text: tokens or `LexicalParseError`. -/
theorem lexer_fails_closed (text : List Char) : (∃ ts, lex Gen.cfgS text = .ok ts) ∨ lex Gen.cfgS text = .error .lexical :=
  lex_ok_or_lexical Oblig.noPyOK_shipped text

/-- … and for each of the eight option settings of the lexer (`IGNORE_SPACE`, `IGNORE_LINEBREAK`, `IGNORE_COMMENT`) -/
theorem lexer_fails_closed_all (text : List Char) :
    ∀ cfg ∈ [Gen.Cfg0.cfg, Gen.Cfg1.cfg, Gen.Cfg2.cfg, Gen.Cfg3.cfg, Gen.Cfg4.cfg, Gen.Cfg5.cfg, Gen.Cfg6.cfg, Gen.Cfg7.cfg],
      (∃ ts, lex cfg text = .ok ts) ∨ lex cfg text = .error .lexical := by
  intro cfg h
  simp only [List.mem_cons, List.not_mem_nil, or_false] at h
  rcases h with rfl | rfl | rfl | rfl | rfl | rfl | rfl | rfl
  · exact lex_ok_or_lexical Oblig.noPyOK_cfg0 text
  · exact lex_ok_or_lexical Oblig.noPyOK_cfg1 text
  · exact lex_ok_or_lexical Oblig.noPyOK_cfg2 text
  · exact lex_ok_or_lexical Oblig.noPyOK_cfg3 text
  · exact lex_ok_or_lexical Oblig.noPyOK_cfg4 text
  · exact lex_ok_or_lexical Oblig.noPyOK_cfg5 text
  · exact lex_ok_or_lexical Oblig.noPyOK_cfg6 text
  · exact lex_ok_or_lexical Oblig.noPyOK_cfg7 text

/-- the error kinds of a whole call: the library's lexical error, the library's parse error, or one of the model's two
markers (`.fuel`: see fuel adequacy; `.unmodelled _`: the correspondence skips and counts the input) -/
def textKind : Err → Bool
  | .lexical | .parse | .fuel | .unmodelled _ => true
  | _ => false

theorem textKind_iff (x : Err) : textKind x = true ↔ x = .lexical ∨ x = .parse ∨ x = .fuel ∨ ∃ w, x = .unmodelled w := by
  cases x <;> simp [textKind]

theorem textKind_of_parserKind (x : Err) (h : x.parserKind = true) : textKind x = true := by
  cases x <;> simp_all [textKind, Err.parserKind]

/-- `SQLParser.parse_statements(text, sql_type)`: every dialect, every text -/
theorem statements_error_kinds (d : Gen.D) (text : List Char) (x : Err) (h : parseStatementsText d text = .error x) :
    x = .lexical ∨ x = .parse ∨ x = .fuel ∨ ∃ w, x = .unmodelled w := by
  rw [← textKind_iff]
  unfold parseStatementsText at h
  split at h
  · rename_i e he
    cases h
    rw [lex_error_lexical Oblig.noPyOK_shipped _ _ he]; rfl
  · rename_i ts _
    cases hk : x.parserKind with
    | true => exact textKind_of_parserKind x hk
    | false => exact absurd h (pStatements_nopy d _ ts x hk)

/-- `SQLParser.parse_<entry>(text, sql_type)`: every entry-point name, every dialect, every text (a name that is not in the
table is `.unmodelled`) -/
theorem entry_error_kinds (entry : String) (d : Gen.D) (text : List Char) (x : Err) (h : parseText entry d text = .error x) :
    x = .lexical ∨ x = .parse ∨ x = .fuel ∨ ∃ w, x = .unmodelled w := by
  rw [← textKind_iff]
  unfold parseText at h
  split at h
  · cases h; rfl
  · rename_i name p hf
    have hmem := List.mem_of_find?_eq_some hf
    split at h
    · rename_i e he
      cases h
      rw [lex_error_lexical Oblig.noPyOK_shipped _ _ he]; rfl
    · rename_i ts _
      split at h
      · cases h
      · rename_i e he
        cases h
        cases hk : x.parserKind with
        | true => exact textKind_of_parserKind x hk
        | false => exact absurd he (entries_nopy _ hmem d _ ts x hk)

/-- **C07.text_no_foreign**: from text to tree, no foreign exception — `parse_statements` and every `parse_<entry>`, every
dialect, every text. -/
theorem text_no_foreign (d : Gen.D) (text : List Char) :
    (∀ e, parseStatementsText d text ≠ .error (.py e)) ∧ (∀ entry e, parseText entry d text ≠ .error (.py e)) := by
  refine ⟨fun e h => ?_, fun entry e h => ?_⟩
  · have := statements_error_kinds d text _ h; simp at this
  · have := entry_error_kinds entry d text _ h; simp at this

/-- the outcome is in the library's family, or one of the model's two markers: the form the check's oracle uses
(`FAMILY = OK | LEX | PARSE | NOTSUP`) -/
theorem text_in_family (d : Gen.D) (text : List Char) :
    (match parseStatementsText d text with
     | .ok _ => True
     | .error x => x.inFamily = true ∨ x = .fuel ∨ ∃ w, x = .unmodelled w) := by
  split
  · trivial
  · rename_i x h
    rcases statements_error_kinds d text x h with rfl | rfl | rfl | ⟨w, rfl⟩
    · exact .inl rfl
    · exact .inl rfl
    · exact .inr (.inl rfl)
    · exact .inr (.inr ⟨w, rfl⟩)

/-! ## non-vacuity (kernel-evaluated) -/

/-- accepted (no `LIMIT n` here: the kernel cannot evaluate `String.contains` with a string pattern, which `pyInt` uses for
`int('1__0')`; compiled evaluation — the driver — can) -/
example : (match parseStatementsText .MYSQL "SELECT a, COUNT(b) AS n FROM s.t WHERE c IN (1, 2) GROUP BY a ORDER BY n DESC; USE db".toList with
    | .ok ss => ss.length == 2 | .error _ => false) = true := by decide +kernel
/-- rejected with the library's parse error: the property's own example (`SELECT` alone reached `elements[pos]` past the
end before the repair of `TokenScanner`), a non-integer `LIMIT`, a non-integer window bound, an unclosed CASE -/
example : (match parseStatementsText .MYSQL "SELECT".toList with | .error .parse => true | _ => false) = true := by decide +kernel
example : (match parseStatementsText .MYSQL "SELECT a FROM t LIMIT x".toList with | .error .parse => true | _ => false) = true := by decide +kernel
example : (match parseStatementsText .HIVE "SELECT SUM(a) OVER (ORDER BY b ROWS BETWEEN x PRECEDING AND CURRENT ROW) FROM t".toList with
    | .error .parse => true | _ => false) = true := by decide +kernel
example : (match parseText "case_expression" .MYSQL "CASE WHEN a THEN 1".toList with | .error .parse => true | _ => false) = true := by decide +kernel
/-- rejected by the lexer -/
example : (match parseStatementsText .MYSQL "SELECT 'abc".toList with | .error .lexical => true | _ => false) = true := by decide +kernel
example : (match parseStatementsText .MYSQL "SELECT a)".toList with | .error .lexical => true | _ => false) = true := by decide +kernel
/-- an entry point that stops early reports what it left (no error) -/
example : (match parseText "compute_expression" .MYSQL "a + 1 FROM".toList with | .ok (_, n) => n == 1 | .error _ => false) = true := by decide +kernel

/-- the 4301-digit case (compiled evaluation; the kernel cannot reduce `String.contains` with a string pattern): `int()`
refuses, `as_int` and the whole statement answer with the library's parse error; 4300 digits are accepted -/
def digits (n : Nat) : String := String.ofList (List.replicate n '7')
#guard (match pyInt (digits 4301) with | .error (.py .ValueError) => true | _ => false)
#guard (match asInt (digits 4301) with | .error .parse => true | _ => false)
#guard (match asInt (digits 4300) with | .ok _ => true | _ => false)
#guard (match parseStatementsText .MYSQL ("SELECT a FROM t LIMIT " ++ digits 4301).toList with | .error .parse => true | _ => false)
#guard (match parseStatementsText .MYSQL ("SELECT a FROM t LIMIT " ++ digits 4300).toList with | .ok ss => ss.length == 1 | _ => false)
#guard (match parseStatementsText .MYSQL "SELECT a FROM t LIMIT 3".toList with | .ok ss => ss.length == 1 | _ => false)

end C07
