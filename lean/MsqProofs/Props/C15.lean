import MsqModel.Analyze.Columns
import MsqModel.Analyze.ColumnsSpec
/-!
# C15 — per-clause column usage is exact, level-local and resolves aliases and ordinals
-/
namespace C15
open Ast AN Spec

abbrev R (l : List QCol) : Except Err (List QCol) := .ok l

attribute [local simp] nodeColsV nodeColsL nodeColsF getattr bind Except.bind pure Except.pure
  Val.optStr Val.ofOpt optStrOf

theorem ints_ok : ∀ l : List Int, nodeColsL (l.map Val.int) = .ok []
  | [] => by simp
  | _ :: r => by simp [ints_ok r]
theorem strs_ok : ∀ l : List String, nodeColsL (l.map Val.str) = .ok []
  | [] => by simp
  | _ :: r => by simp [strs_ok r]

/-- the model's test (`column_name.upper()` in the repository's `GLOBAL_VARIABLE_NAME_SET`, no qualifier) is the
specification's: an unqualified dialect variable in any letter case -/
theorem isGlobalVariable_eq (t : Option String) (c : String) : isGlobalVariable t c = isGlobal t c := by
  unfold isGlobalVariable isGlobal
  generalize Gen.pyUpperS c = u
  cases t <;> simp [Gen.globalVarNames]
  by_cases h1 : u = "CURRENT_DATE" <;> by_cases h2 : u = "CURRENT_TIME" <;> by_cases h3 : u = "CURRENT_TIMESTAMP" <;>
    by_cases h4 : u = "CURRENT DATE" <;> by_cases h5 : u = "CURRENT TIME" <;> by_cases h6 : u = "CURRENT TIMESTAMP" <;> simp [*]

/-- the class of a CASE arm is none of the special-cased classes -/
def plainClass (cls : String) : Bool :=
  !(cls == "ASTAggregationFunction" || cls == "ASTWildcardExpression" || cls == "ASTColumnNameExpression"
    || cls == "ASTGroupByClause" || cls == "ASTOrderByClause" || cls == "ASTSubQueryExpression" || cls == "ASTWithClause")

mutual
theorem expr_ok : ∀ e : Expr, nodeColsV e.toVal = R (colsE e)
  | .column t n => by
    cases t <;> simp [Expr.toVal, colsE, isGlobalVariable_eq] <;> split <;> simp_all
  | .literal _ => by simp [Expr.toVal, colsE]
  | .wildcard t => by cases t <;> simp [Expr.toVal, colsE]
  | .func s n ps => by
    have := exprs_ok ps
    cases s <;> simp_all [Expr.toVal, colsE, fnName]
  | .agg n ps d => by
    have := exprs_ok ps
    simp_all [Expr.toVal, colsE, fnName, anon]
    split <;> rfl
  | .cast e sg ty ps => by
    have := expr_ok e
    cases ps <;> simp_all [Expr.toVal, colsE, fnName, ints_ok]
  | .extract n e => by
    have := expr_ok n; have := expr_ok e
    simp_all [Expr.toVal, colsE, fnName]
  | .window fn part ord rows => by
    have := expr_ok fn; have := exprs_ok part; have := orders_ok ord
    rcases rows with _ | ⟨a, b⟩
    · simp_all [Expr.toVal, colsE]
    · cases a <;> cases b <;> simp_all [Expr.toVal, colsE, RowItem.toVal]
  | .caseCond cs els => by
    have := arms_ok "ASTCaseConditionItem" (by decide) cs; have := optExpr_ok els
    simp_all [Expr.toVal, colsE]
  | .caseVal v cs els => by
    have := expr_ok v; have := arms_ok "ASTCaseValueItem" (by decide) cs; have := optExpr_ok els
    simp_all [Expr.toVal, colsE]
  | .subValue vs => by
    have := exprs_ok vs
    simp_all [Expr.toVal, colsE]
  | .subQuery q => by simp [Expr.toVal, colsE]
  | .exists_ v => by
    have := expr_ok v
    simp_all [Expr.toVal, colsE]
  | .index a i => by
    have := expr_ok a; have := expr_ok i
    simp_all [Expr.toVal, colsE]
  | .unary _ e => by
    have := expr_ok e
    simp_all [Expr.toVal, colsE]
  | .compute l _ r => by
    have := expr_ok l; have := expr_ok r
    simp_all [Expr.toVal, colsE]
  | .kw k _ l r => by
    have := expr_ok l; have := expr_ok r
    cases k <;> simp_all [Expr.toVal, colsE, KwKind.cls]
  | .between _ b f t => by
    have := expr_ok b; have := expr_ok f; have := expr_ok t
    simp_all [Expr.toVal, colsE]
  | .compare _ l r => by
    have := expr_ok l; have := expr_ok r
    simp_all [Expr.toVal, colsE]
  | .not_ e => by
    have := expr_ok e
    simp_all [Expr.toVal, colsE]
  | .and_ l r => by
    have := expr_ok l; have := expr_ok r
    simp_all [Expr.toVal, colsE]
  | .xor l r => by
    have := expr_ok l; have := expr_ok r
    simp_all [Expr.toVal, colsE]
  | .or_ l r => by
    have := expr_ok l; have := expr_ok r
    simp_all [Expr.toVal, colsE]
  | .mybatis _ => by simp [Expr.toVal, colsE]
theorem exprs_ok : ∀ es : List Expr, nodeColsL (exprs es) = R (colsEs es)
  | [] => by simp [exprs, colsEs]
  | e :: r => by
    have := expr_ok e; have := exprs_ok r
    simp_all [exprs, colsEs]
theorem optExpr_ok : ∀ e : Option Expr, nodeColsV (optExpr e) = R (colsOE e)
  | none => by simp [optExpr, colsOE]
  | some e => by
    have := expr_ok e
    simp_all [optExpr, colsOE]
theorem arms_ok (cls : String) (hc : plainClass cls = true) :
    ∀ cs : List (Expr × Expr), nodeColsL (arms cls cs) = R (colsArms cs)
  | [] => by simp [arms, colsArms]
  | (w, t) :: r => by
    have := expr_ok w; have := expr_ok t; have := arms_ok cls hc r
    simp [plainClass] at hc
    simp_all [arms, colsArms]
theorem order_ok : ∀ o : OrderItem, nodeColsV o.toVal = R (colsO o)
  | .mk e _ _ _ => by
    have := expr_ok e
    simp_all [OrderItem.toVal, colsO]
theorem orders_ok : ∀ os : List OrderItem, nodeColsL (orders os) = R (colsOs os)
  | [] => by simp [orders, colsOs]
  | o :: r => by
    have := order_ok o; have := orders_ok r
    simp_all [orders, colsOs]
end

/-! ## clause level -/

theorem exprLists_ok : ∀ l : List (List Expr), nodeColsL (exprLists l) = R (colsEss l)
  | [] => by simp [exprLists, colsEss]
  | g :: r => by simp [exprLists, colsEss, exprs_ok g, exprLists_ok r]

theorem selectCols_ok : ∀ cs : List (Expr × Option String), nodeColsL (selectCols cs) = R (colsSelectItems cs)
  | [] => by simp [selectCols, colsSelectItems]
  | (e, a) :: r => by cases a <;> simp [selectCols, colsSelectItems, alias, expr_ok e, selectCols_ok r]

theorem selectClause_ok (dist : Bool) (cols : List (Expr × Option String)) :
    nodeColsV (selectClauseVal dist cols) = R (colsSelectItems cols) := by
  simp [selectClauseVal, selectCols_ok cols]

/-- a FROM / JOIN table reference contributes no column: a table name has none, a derived table is a nested query -/
theorem fromTable_nil : ∀ t : FromTable, nodeColsV t.toVal = R []
  | .mk (.table s n) a => by cases s <;> cases a <;> simp [FromTable.toVal, TableRef.toVal, tableNameVal, alias]
  | .mk (.sub q) a => by cases a <;> simp [FromTable.toVal, TableRef.toVal, alias]

theorem fromTables_nil : ∀ ts : List FromTable, nodeColsL (fromTables ts) = R []
  | [] => by simp [fromTables]
  | t :: r => by simp [fromTables, fromTable_nil t, fromTables_nil r]

theorem join_ok : ∀ j : Join, nodeColsV j.toVal = R (colsJoin j)
  | .mk _ t none => by simp [Join.toVal, colsJoin, fromTable_nil t]
  | .mk _ t (some (.on e)) => by simp [Join.toVal, JoinRule.toVal, colsJoin, fromTable_nil t, expr_ok e]
  | .mk _ t (some (.using f)) => by simp [Join.toVal, JoinRule.toVal, colsJoin, fromTable_nil t, expr_ok f]

theorem joins_ok : ∀ js : List Join, nodeColsL (joins js) = R (colsJoins js)
  | [] => by simp [joins, colsJoins]
  | j :: r => by simp [joins, colsJoins, join_ok j, joins_ok r]

theorem where_ok : ∀ wh : Option Expr, nodeColsV (whereClauseVal wh) = R (colsOE wh)
  | none => by simp [whereClauseVal, colsOE]
  | some e => by simp [whereClauseVal, colsOE, expr_ok e]

theorem having_ok : ∀ hv : Option Expr, nodeColsV (havingClauseVal hv) = R (colsOE hv)
  | none => by simp [havingClauseVal, colsOE]
  | some e => by simp [havingClauseVal, colsOE, expr_ok e]

/-- the only texts outside the modelled fragment: an integer-looking literal written with non-ASCII digits (Python's `\d`
and `int()` accept them).  Every other item — in particular every non-literal — satisfies this. -/
def OrdinalFaithful : Expr → Prop
  | .literal v => ∃ k, ordinalOfSource v = .ok k
  | _ => True

theorem ordinalOrCols_ok (e : Expr) (v : Val) (h : OrdinalFaithful e) (hv : nodeColsV v = R (colsE e)) :
    ordinalOrCols e v = R (itemRefs e) := by
  unfold ordinalOrCols itemRefs
  cases e with
  | literal s =>
    obtain ⟨k, hk⟩ := h
    simp only [hk, ordinalOfExpr, bind, Except.bind]
    cases k <;> simp [hv]
  | _ => simp [ordinalOfExpr, hv]

theorem groupItems_ok : ∀ es : List Expr, (∀ e ∈ es, OrdinalFaithful e) → groupItems es = R (colsGroupItems es)
  | [], _ => by simp [groupItems, colsGroupItems]
  | e :: r, h => by
    have h1 := ordinalOrCols_ok e e.toVal (h e (by simp)) (expr_ok e)
    have h2 := groupItems_ok r (fun x hx => h x (by simp [hx]))
    simp [groupItems, colsGroupItems, h1, h2]

def groupItemsOf : Option GroupBy → List Expr
  | none => []
  | some (.mk cols _ _ _) => cols

theorem group_ok : ∀ gb : Option GroupBy, (∀ e ∈ groupItemsOf gb, OrdinalFaithful e) → nodeColsGroup gb = R (colsGroup gb)
  | none, _ => by simp [nodeColsGroup, colsGroup]
  | some (.mk cols none _ _), h => by simp [nodeColsGroup, colsGroup, groupItems_ok cols h]
  | some (.mk cols (some l) _ _), h => by simp [nodeColsGroup, colsGroup, groupItems_ok cols h, exprLists_ok l]

def orderExprs : Option (List OrderItem) → List Expr
  | none => []
  | some l => l.map fun | .mk e _ _ _ => e

theorem orderItems_ok : ∀ os : List OrderItem, (∀ e ∈ orderExprs (some os), OrdinalFaithful e) → orderItems os = R (colsOrderItems os)
  | [], _ => by simp [orderItems, colsOrderItems]
  | .mk e d nf nl :: r, h => by
    have h1 := ordinalOrCols_ok e (OrderItem.mk e d nf nl).toVal (h e (by simp [orderExprs])) (by simpa [colsO] using order_ok (.mk e d nf nl))
    have h2 := orderItems_ok r (fun x hx => h x (by simp [orderExprs] at hx ⊢; exact Or.inr hx))
    simp [orderItems, colsOrderItems, h1, h2]

theorem order_clause_ok : ∀ ob : Option (List OrderItem), (∀ e ∈ orderExprs ob, OrdinalFaithful e) → nodeColsOrder ob = R (colsOrder ob)
  | none, _ => by simp [nodeColsOrder, colsOrder]
  | some l, h => by simp [nodeColsOrder, colsOrder, orderItems_ok l h]

/-! ## alias / ordinal substitution -/

theorem dictGet_dictSet {κ ν : Type} [BEq κ] [LawfulBEq κ] (d : List (κ × ν)) (k k' : κ) (v : ν) :
    dictGet? (dictSet d k v) k' = if k == k' then some v else dictGet? d k' := by
  induction d with
  | nil => simp [dictSet, dictGet?, List.find?]
  | cons p r ih =>
    obtain ⟨k0, v0⟩ := p
    unfold dictSet
    by_cases h0 : k0 == k
    · have : k0 = k := by simpa using h0
      subst this
      simp [dictGet?, List.find?]
      by_cases h1 : k0 == k' <;> simp [h1]
    · simp only [h0]
      by_cases h1 : k0 == k'
      · have e1 : k0 = k' := by simpa using h1
        have : (k == k') = false := by
          subst e1
          cases hk : k == k0 with
          | false => rfl
          | true => exact absurd (by simpa using hk : k = k0).symm (by simpa using h0)
        simp [dictGet?, List.find?, h1, this]
      · have ih' := ih
        simp only [dictGet?] at ih' ⊢
        simp [List.find?, h1, ih']

/-- the alias step as a function on what the dictionary answers for one key -/
def aliasStep (c : QCol) (a : Option (List QCol)) (it : Expr × Option String) : Option (List QCol) :=
  match it.2 with
  | some al => if (⟨none, some al, none⟩ : QCol) == c then some (colsE it.1) else a
  | none => a

theorem aliasHash_ok : ∀ (items : List (Expr × Option String)) (acc : List (QCol × List QCol)),
    ∃ d, aliasHash items acc = .ok d ∧ ∀ c, dictGet? d c = items.foldl (aliasStep c) (dictGet? acc c)
  | [], acc => ⟨acc, by simp [aliasHash], by simp⟩
  | (e, none) :: r, acc => by
    obtain ⟨d, h1, h2⟩ := aliasHash_ok r acc
    exact ⟨d, by simp [aliasHash, h1], by intro c; simp [h2 c, aliasStep]⟩
  | (e, some a) :: r, acc => by
    obtain ⟨d, h1, h2⟩ := aliasHash_ok r (dictSet acc ⟨none, some a, none⟩ (colsE e))
    refine ⟨d, by simp [aliasHash, expr_ok e, h1], ?_⟩
    intro c
    rw [h2 c, dictGet_dictSet]
    simp [aliasStep]

/-- the ordinal step: the item at (0-based) position `i` answers for key `i + 1` -/
theorem indexHash_ok : ∀ (items : List (Expr × Option String)) (i : Nat) (acc : List (QCol × List QCol)),
    ∃ d, indexHash items i acc = .ok d ∧
      (∀ k : Int, dictGet? d ⟨none, none, some k⟩ =
        if (i : Int) < k ∧ k ≤ (i : Int) + items.length then (items[(k - i - 1).toNat]?).map (fun it => colsE it.1)
        else dictGet? acc ⟨none, none, some k⟩) ∧
      (∀ c : QCol, (c.table ≠ none ∨ c.name ≠ none ∨ c.idx = none) → dictGet? d c = dictGet? acc c)
  | [], i, acc => ⟨acc, by simp [indexHash], by intro k; simp; omega, by simp⟩
  | (e, a) :: r, i, acc => by
    obtain ⟨d, h1, h2, h3⟩ := indexHash_ok r (i + 1) (dictSet acc ⟨none, none, some (Int.ofNat (i + 1))⟩ (colsE e))
    refine ⟨d, ?_, ?_, ?_⟩
    · unfold indexHash
      simp only [expr_ok e, R, bind, Except.bind]
      exact h1
    · intro k
      rw [h2 k, dictGet_dictSet]
      have hlen : (((e, a) :: r).length : Int) = r.length + 1 := by simp
      by_cases hk : k = (i : Int) + 1
      · have c1 : ¬ (((i + 1 : Nat) : Int) < k ∧ k ≤ ((i + 1 : Nat) : Int) + r.length) := by omega
        have c2 : (i : Int) < k ∧ k ≤ (i : Int) + (((e, a) :: r).length : Int) := by omega
        have hkey : ((⟨none, none, some (Int.ofNat (i + 1))⟩ : QCol) == ⟨none, none, some k⟩) = true := by
          subst hk; simp
        rw [if_neg c1, if_pos c2, if_pos hkey]
        have : (k - (i : Int) - 1).toNat = 0 := by omega
        rw [this]; rfl
      · have hkey : ((⟨none, none, some (Int.ofNat (i + 1))⟩ : QCol) == ⟨none, none, some k⟩) = false := by
          simp; omega
        rw [hkey]
        simp only [Bool.false_eq_true, if_false]
        by_cases hin : ((i + 1 : Nat) : Int) < k ∧ k ≤ ((i + 1 : Nat) : Int) + r.length
        · have c2 : (i : Int) < k ∧ k ≤ (i : Int) + (((e, a) :: r).length : Int) := by omega
          rw [if_pos hin, if_pos c2]
          have : (k - (i : Int) - 1).toNat = (k - ((i + 1 : Nat) : Int) - 1).toNat + 1 := by omega
          rw [this, List.getElem?_cons_succ]
        · have c2 : ¬ ((i : Int) < k ∧ k ≤ (i : Int) + (((e, a) :: r).length : Int)) := by omega
          rw [if_neg hin, if_neg c2]
    · intro c hc
      rw [h3 c hc, dictGet_dictSet]
      have hkey : ((⟨none, none, some (Int.ofNat (i + 1))⟩ : QCol) == c) = false := by
        cases c with
        | mk t n ix =>
          simp only [beq_eq_false_iff_ne, ne_eq, QCol.mk.injEq, not_and]
          intro ht hn hi
          subst ht; subst hn; subst hi
          simp at hc
      rw [hkey]
      simp

theorem aliasFold_alias (n : String) : ∀ (items : List (Expr × Option String)) (init : Option (List QCol)),
    items.foldl (aliasStep ⟨none, some n, none⟩) init
      = items.foldl (fun acc it => if it.2 == some n then some (colsE it.1) else acc) init
  | [], _ => rfl
  | (e, none) :: r, init => by simp [aliasStep, aliasFold_alias n r]
  | (e, some al) :: r, init => by
    simp only [List.foldl_cons, aliasStep]
    rw [aliasFold_alias n r]
    by_cases h : al = n <;> simp [h]

theorem aliasFold_other (c : QCol) (hc : c.table ≠ none ∨ c.name = none ∨ c.idx ≠ none) :
    ∀ (items : List (Expr × Option String)) (init : Option (List QCol)), items.foldl (aliasStep c) init = init
  | [], _ => rfl
  | (e, none) :: r, init => by simp [aliasStep, aliasFold_other c hc r]
  | (e, some al) :: r, init => by
    simp only [List.foldl_cons, aliasStep]
    have : ((⟨none, some al, none⟩ : QCol) == c) = false := by
      cases c with
      | mk t n ix =>
        simp only [beq_eq_false_iff_ne, ne_eq, QCol.mk.injEq, not_and]
        intro ht hn hi
        subst ht; subst hn; subst hi
        simp at hc
    rw [this]
    simpa using aliasFold_other c hc r init

theorem dictGet_nil (c : QCol) : dictGet? ([] : List (QCol × List QCol)) c = none := rfl

/-- **`_format_quote_columns` is `resolve`**: alias lookup (last item carrying the alias), then position lookup, else unchanged -/
theorem format_ok (s : Select) (q : List QCol) : formatQuoteColumns q s = .ok (resolve (Select.cols s) q) := by
  obtain ⟨da, ha1, ha2⟩ := aliasHash_ok (Select.cols s) []
  obtain ⟨di, hi1, hi2, hi3⟩ := indexHash_ok (Select.cols s) 0 []
  unfold formatQuoteColumns
  simp only [ha1, hi1, bind, Except.bind, pure, Except.pure]
  congr 1
  induction q with
  | nil => simp [formatLoop, resolve]
  | cons c r ih =>
    have hstep : formatOne da di c = resolve1 (Select.cols s) c := by
      unfold formatOne
      obtain ⟨t, n, ix⟩ := c
      cases t with
      | some t' =>
        rw [ha2, aliasFold_other _ (by simp), dictGet_nil, hi3 _ (by simp), dictGet_nil]
        simp [resolve1]
      | none =>
        cases n with
        | some n' =>
          cases ix with
          | none =>
            rw [ha2, aliasFold_alias, dictGet_nil, hi3 _ (by simp), dictGet_nil]
            simp only [resolve1, aliasRefs]
            cases List.foldl (fun acc it => if it.2 == some n' then some (colsE it.1) else acc) none (Select.cols s) <;> simp
          | some k =>
            rw [ha2, aliasFold_other _ (by simp), dictGet_nil, hi3 _ (by simp), dictGet_nil]
            simp [resolve1]
        | none =>
          cases ix with
          | none =>
            rw [ha2, aliasFold_other _ (by simp), dictGet_nil, hi3 _ (by simp), dictGet_nil]
            simp [resolve1]
          | some k =>
            rw [ha2, aliasFold_other _ (by simp), dictGet_nil, hi2 k, dictGet_nil]
            simp only [resolve1, ordinalRefs]
            by_cases h1 : 1 ≤ k
            · by_cases h2 : k ≤ ((Select.cols s).length : Int)
              · have : ((0 : Nat) : Int) < k ∧ k ≤ ((0 : Nat) : Int) + ((Select.cols s).length : Int) := by omega
                rw [if_pos this, if_pos h1]
                have : (k - ((0 : Nat) : Int) - 1).toNat = (k - 1).toNat := by omega
                rw [this]
                cases (Select.cols s)[(k - 1).toNat]? <;> simp
              · have : ¬ (((0 : Nat) : Int) < k ∧ k ≤ ((0 : Nat) : Int) + ((Select.cols s).length : Int)) := by omega
                rw [if_neg this, if_pos h1]
                have : (Select.cols s)[(k - 1).toNat]? = none := by
                  apply List.getElem?_eq_none; omega
                rw [this]; simp
            · have : ¬ (((0 : Nat) : Int) < k ∧ k ≤ ((0 : Nat) : Int) + ((Select.cols s).length : Int)) := by omega
              rw [if_neg this, if_neg h1]; simp
    simp only [formatLoop, resolve, List.flatMap_cons] at ih ⊢
    rw [hstep, ih]

/-- the top-level SELECT branches of a query -/
def branchesOf : Query → List Select
  | .single s => [s]
  | .union _ s us => s :: us.map (·.2)

/-! ## the statements -/

/-- the ordinal test is faithful on the GROUP BY items of `s` (true whenever they are literals or do not print as integers) -/
def GroupFaithful : Select → Prop
  | .mk _ _ _ _ _ _ _ gb _ _ _ _ _ _ => ∀ e ∈ groupItemsOf gb, OrdinalFaithful e
def OrderFaithful : Select → Prop
  | .mk _ _ _ _ _ _ _ _ _ ob _ _ _ _ => ∀ e ∈ orderExprs ob, OrdinalFaithful e

/-- **the excluded case of F-C15-1**: no reference written in clause `c` is rewritten by the alias / position
substitution, i.e. none is an unqualified name equal to a select-list alias -/
def Clean (c : Clause) (s : Select) : Prop := ∀ r ∈ colsOf c s, resolve1 (Select.cols s) r = [r]

/-- **the excluded Hive clauses**: the SELECT has no LATERAL VIEW, SORT BY, DISTRIBUTE BY or CLUSTER BY (their references are
reported by the all-clauses analyzer although they belong to none of the six clauses).  WITH tables are no longer excluded:
since bed929d the collection does not enter the WITH clause (F-C15-2, fixed). -/
def Plain : Select → Prop
  | .mk _ _ _ _ lats _ _ _ _ _ sb db cb _ => lats = [] ∧ sb = none ∧ db = none ∧ cb = none

/-- what each clause analyzer passes to the substitution: exactly the references written in that clause
(level-local: `colsOf` never looks into a sub-query) -/
theorem clause_select (s : Select) : clauseCols .select s = .ok (colsOf .select s) := by
  cases s; simp [clauseCols, colsOf, selectClause_ok]
theorem clause_join (s : Select) : clauseCols .join s = .ok (colsOf .join s) := by
  cases s with
  | mk ws dist cols fr lats js wh gb hv ob sb db cb lm => simp [clauseCols, colsOf, joins_ok js]
theorem clause_where (s : Select) : clauseCols .where_ s = .ok (colsOf .where_ s) := by
  cases s; simp [clauseCols, colsOf, where_ok]
theorem clause_having (s : Select) : clauseCols .having s = .ok (colsOf .having s) := by
  cases s; simp [clauseCols, colsOf, having_ok]
theorem clause_group (s : Select) (h : GroupFaithful s) : clauseCols .group s = .ok (colsOf .group s) := by
  cases s with
  | mk ws dist cols fr lats js wh gb hv ob sb db cb lm => simp [clauseCols, colsOf, group_ok gb h]
theorem clause_order (s : Select) (h : OrderFaithful s) : clauseCols .order s = .ok (colsOf .order s) := by
  cases s with
  | mk ws dist cols fr lats js wh gb hv ob sb db cb lm => simp [clauseCols, colsOf, order_clause_ok ob h]

theorem resolve_clean (items : List (Expr × Option String)) :
    ∀ refs : List QCol, (∀ r ∈ refs, resolve1 items r = [r]) → resolve items refs = refs
  | [], _ => rfl
  | r :: rest, h => by
    have h1 := h r (by simp)
    have h2 := resolve_clean items rest (fun x hx => h x (by simp [hx]))
    simp only [resolve, List.flatMap_cons] at h2 ⊢
    rw [h1, h2]; rfl

theorem resolve_append (items : List (Expr × Option String)) (a b : List QCol) :
    resolve items (a ++ b) = resolve items a ++ resolve items b := by
  simp [resolve, List.flatMap_append]

theorem run_ok (c : Clause) (s : Select) (h : clauseCols c s = .ok (colsOf c s)) :
    currentColsSelect c s = .ok (resolve (Select.cols s) (colsOf c s)) := by
  simp [currentColsSelect, h, format_ok]

/-- **GROUP BY, HAVING, ORDER BY**: exactly the references written in the clause, aliases and positions replaced by the
references of the select item they denote -/
theorem group_exact (s : Select) (h : GroupFaithful s) : currentColsSelect .group s = .ok (spec .group s) :=
  run_ok _ s (clause_group s h)
theorem having_exact (s : Select) : currentColsSelect .having s = .ok (spec .having s) :=
  run_ok _ s (clause_having s)
theorem order_exact (s : Select) (h : OrderFaithful s) : currentColsSelect .order s = .ok (spec .order s) :=
  run_ok _ s (clause_order s h)

/-- **select list, JOIN, WHERE** — partial: the implementation applies the substitution here too (F-C15-1), so the result
is the specified one only if no reference of the clause clashes with a select alias -/
theorem select_exact_partial (s : Select) (h : Clean .select s) : currentColsSelect .select s = .ok (spec .select s) := by
  rw [run_ok _ s (clause_select s), resolve_clean _ _ h]; rfl
theorem join_exact_partial (s : Select) (h : Clean .join s) : currentColsSelect .join s = .ok (spec .join s) := by
  rw [run_ok _ s (clause_join s), resolve_clean _ _ h]; rfl
theorem where_exact_partial (s : Select) (h : Clean .where_ s) : currentColsSelect .where_ s = .ok (spec .where_ s) := by
  rw [run_ok _ s (clause_where s), resolve_clean _ _ h]; rfl

/-- what the implementation returns for the select list / JOIN / WHERE in general: the substituted list -/
theorem where_actual (s : Select) : currentColsSelect .where_ s = .ok (resolve (Select.cols s) (colsOf .where_ s)) :=
  run_ok _ s (clause_where s)
theorem select_actual (s : Select) : currentColsSelect .select s = .ok (resolve (Select.cols s) (colsOf .select s)) :=
  run_ok _ s (clause_select s)
theorem join_actual (s : Select) : currentColsSelect .join s = .ok (resolve (Select.cols s) (colsOf .join s)) :=
  run_ok _ s (clause_join s)

theorem fromClause_nil : ∀ fr : Option (List FromTable), nodeColsV (fromClauseVal fr) = R []
  | none => by simp [fromClauseVal]
  | some l => by simp [fromClauseVal, fromTables_nil l]

theorem limit_nil : ∀ lm : Option (Int × Option Int), nodeColsV (limitVal lm) = R []
  | none => by simp [limitVal]
  | some (a, none) => by simp [limitVal, Val.optInt]
  | some (a, some o) => by simp [limitVal, Val.optInt]

/-- the all-clauses analyzer on a plain SELECT passes on the concatenation of the six clauses -/
theorem clause_all (s : Select) (hp : Plain s) (hg : GroupFaithful s) (ho : OrderFaithful s) :
    clauseCols .all s = .ok (colsOf .all s) := by
  cases s with
  | mk ws dist cols fr lats js wh gb hv ob sb db cb lm =>
    obtain ⟨hl, hsb, hdb, hcb⟩ := hp
    subst hl; subst hsb; subst hdb; subst hcb
    simp only [clauseCols, nodeColsSelect, selectClause_ok, fromClause_nil, joins_ok js, where_ok, group_ok gb hg, having_ok,
      order_clause_ok ob ho, limit_nil, laterals, sortByClauseVal, distributeByClauseVal, clusterByClauseVal, nodeColsV, nodeColsL,
      R, bind, Except.bind, pure, Except.pure]
    simp [colsOf, colsOf.colsOf']

/-- **the union of the six clauses** — partial: a plain SELECT (no WITH tables / Hive clauses, F-C15-2) without alias
clashes in the select list, JOIN and WHERE (F-C15-1) -/
theorem all_exact_partial (s : Select) (hp : Plain s) (hg : GroupFaithful s) (ho : OrderFaithful s)
    (h1 : Clean .select s) (h2 : Clean .join s) (h3 : Clean .where_ s) :
    currentColsSelect .all s = .ok (spec .all s) := by
  rw [run_ok _ s (clause_all s hp hg ho)]
  cases s with
  | mk ws dist cols fr lats js wh gb hv ob sb db cb lm =>
    simp only [colsOf, colsOf.colsOf', spec, resolve_append]
    have e1 := resolve_clean _ _ h1
    have e2 := resolve_clean _ _ h2
    have e3 := resolve_clean _ _ h3
    simp only [colsOf] at e1 e2 e3
    rw [e1, e2, e3]

/-- the hypotheses under which clause `c` of a branch is analysed as specified -/
def Good (c : Clause) (s : Select) : Prop :=
  match c with
  | .select | .join | .where_ => Clean c s
  | .having => True
  | .group => GroupFaithful s
  | .order => OrderFaithful s
  | .all => Plain s ∧ GroupFaithful s ∧ OrderFaithful s ∧ Clean .select s ∧ Clean .join s ∧ Clean .where_ s

theorem branch_ok (c : Clause) (s : Select) (h : Good c s) : currentColsSelect c s = .ok (spec c s) := by
  cases c with
  | all => obtain ⟨a, b, c', d, e, f⟩ := h; exact all_exact_partial s a b c' d e f
  | select => exact select_exact_partial s h
  | join => exact join_exact_partial s h
  | where_ => exact where_exact_partial s h
  | group => exact group_exact s h
  | having => exact having_exact s
  | order => exact order_exact s h

theorem union_ok (c : Clause) : ∀ us : List (String × Select), (∀ p ∈ us, Good c p.2) →
    currentColsUnion c us = .ok (us.flatMap fun p => spec c p.2)
  | [], _ => by simp [currentColsUnion]
  | (t, s) :: r, h => by
    have h1 := branch_ok c s (h (t, s) (by simp))
    have h2 := union_ok c r (fun p hp => h p (by simp [hp]))
    simp [currentColsUnion, h1, h2]

/-- **C15 on a query**: every top-level branch is analysed on its own and the results are concatenated -/
theorem query_exact_partial (c : Clause) (q : Query) (h : ∀ s ∈ branchesOf q, Good c s) :
    currentCols c q = .ok (specQuery c q) := by
  cases q with
  | single s => exact branch_ok c s (h s (by simp [branchesOf]))
  | union ws s us =>
    have h1 := branch_ok c s (h s (by simp [branchesOf]))
    have h2 := union_ok c us (fun p hp => h p.2 (by simp [branchesOf]; exact Or.inr ⟨p.1, hp⟩))
    simp [currentCols, specQuery, h1, h2]

/-- every literal whose ordinal test does not leave the modelled fragment is faithful; every non-literal is -/
theorem literal_faithful (v : String) (h : ∃ k, ordinalOfSource v = .ok k) : OrdinalFaithful (.literal v) := h
theorem nonliteral_faithful (e : Expr) (h : ∀ v, e ≠ .literal v) : OrdinalFaithful e := by
  cases e <;> simp [OrdinalFaithful] at h ⊢

/-! ## level-locality: the references of an expression do not depend on the bodies of its sub-queries -/

mutual
/-- replace the body of every sub-query of an expression by `q0` -/
def eraseE (q0 : Query) : Expr → Expr
  | .column t n => .column t n
  | .literal v => .literal v
  | .wildcard t => .wildcard t
  | .func s n ps => .func s n (eraseEs q0 ps)
  | .agg n ps d => .agg n (eraseEs q0 ps) d
  | .cast e sg ty ps => .cast (eraseE q0 e) sg ty ps
  | .extract n e => .extract (eraseE q0 n) (eraseE q0 e)
  | .window fn part ord rows => .window (eraseE q0 fn) (eraseEs q0 part) (eraseOs q0 ord) rows
  | .caseCond cs els => .caseCond (eraseArms q0 cs) (eraseOE q0 els)
  | .caseVal v cs els => .caseVal (eraseE q0 v) (eraseArms q0 cs) (eraseOE q0 els)
  | .subValue vs => .subValue (eraseEs q0 vs)
  | .subQuery _ => .subQuery q0
  | .exists_ v => .exists_ (eraseE q0 v)
  | .index a i => .index (eraseE q0 a) (eraseE q0 i)
  | .unary o e => .unary o (eraseE q0 e)
  | .compute l o r => .compute (eraseE q0 l) o (eraseE q0 r)
  | .kw k n l r => .kw k n (eraseE q0 l) (eraseE q0 r)
  | .between n b f t => .between n (eraseE q0 b) (eraseE q0 f) (eraseE q0 t)
  | .compare o l r => .compare o (eraseE q0 l) (eraseE q0 r)
  | .not_ e => .not_ (eraseE q0 e)
  | .and_ l r => .and_ (eraseE q0 l) (eraseE q0 r)
  | .xor l r => .xor (eraseE q0 l) (eraseE q0 r)
  | .or_ l r => .or_ (eraseE q0 l) (eraseE q0 r)
  | .mybatis s => .mybatis s
def eraseEs (q0 : Query) : List Expr → List Expr
  | [] => []
  | e :: r => eraseE q0 e :: eraseEs q0 r
def eraseOE (q0 : Query) : Option Expr → Option Expr
  | none => none
  | some e => some (eraseE q0 e)
def eraseArms (q0 : Query) : List (Expr × Expr) → List (Expr × Expr)
  | [] => []
  | (w, t) :: r => (eraseE q0 w, eraseE q0 t) :: eraseArms q0 r
def eraseO (q0 : Query) : OrderItem → OrderItem
  | .mk e d nf nl => .mk (eraseE q0 e) d nf nl
def eraseOs (q0 : Query) : List OrderItem → List OrderItem
  | [] => []
  | o :: r => eraseO q0 o :: eraseOs q0 r
end

mutual
/-- **level-locality**: whatever the nested queries contain, the references reported for the expression are the same -/
theorem colsE_erase (q0 : Query) : ∀ e : Expr, colsE (eraseE q0 e) = colsE e
  | .column _ _ => by simp [eraseE]
  | .literal _ => by simp [eraseE]
  | .wildcard _ => by simp [eraseE]
  | .func _ _ ps => by simp [eraseE, colsE, colsEs_erase q0 ps]
  | .agg _ ps _ => by simp [eraseE, colsE, colsEs_erase q0 ps]
  | .cast e _ _ _ => by simp [eraseE, colsE, colsE_erase q0 e]
  | .extract n e => by simp [eraseE, colsE, colsE_erase q0 n, colsE_erase q0 e]
  | .window fn part ord _ => by simp [eraseE, colsE, colsE_erase q0 fn, colsEs_erase q0 part, colsOs_erase q0 ord]
  | .caseCond cs els => by simp [eraseE, colsE, colsArms_erase q0 cs, colsOE_erase q0 els]
  | .caseVal v cs els => by simp [eraseE, colsE, colsE_erase q0 v, colsArms_erase q0 cs, colsOE_erase q0 els]
  | .subValue vs => by simp [eraseE, colsE, colsEs_erase q0 vs]
  | .subQuery _ => by simp [eraseE, colsE]
  | .exists_ v => by simp [eraseE, colsE, colsE_erase q0 v]
  | .index a i => by simp [eraseE, colsE, colsE_erase q0 a, colsE_erase q0 i]
  | .unary _ e => by simp [eraseE, colsE, colsE_erase q0 e]
  | .compute l _ r => by simp [eraseE, colsE, colsE_erase q0 l, colsE_erase q0 r]
  | .kw _ _ l r => by simp [eraseE, colsE, colsE_erase q0 l, colsE_erase q0 r]
  | .between _ b f t => by simp [eraseE, colsE, colsE_erase q0 b, colsE_erase q0 f, colsE_erase q0 t]
  | .compare _ l r => by simp [eraseE, colsE, colsE_erase q0 l, colsE_erase q0 r]
  | .not_ e => by simp [eraseE, colsE, colsE_erase q0 e]
  | .and_ l r => by simp [eraseE, colsE, colsE_erase q0 l, colsE_erase q0 r]
  | .xor l r => by simp [eraseE, colsE, colsE_erase q0 l, colsE_erase q0 r]
  | .or_ l r => by simp [eraseE, colsE, colsE_erase q0 l, colsE_erase q0 r]
  | .mybatis _ => by simp [eraseE]
theorem colsEs_erase (q0 : Query) : ∀ es : List Expr, colsEs (eraseEs q0 es) = colsEs es
  | [] => by simp [eraseEs]
  | e :: r => by simp [eraseEs, colsEs, colsE_erase q0 e, colsEs_erase q0 r]
theorem colsOE_erase (q0 : Query) : ∀ e : Option Expr, colsOE (eraseOE q0 e) = colsOE e
  | none => by simp [eraseOE]
  | some e => by simp [eraseOE, colsOE, colsE_erase q0 e]
theorem colsArms_erase (q0 : Query) : ∀ cs : List (Expr × Expr), colsArms (eraseArms q0 cs) = colsArms cs
  | [] => by simp [eraseArms]
  | (w, t) :: r => by simp [eraseArms, colsArms, colsE_erase q0 w, colsE_erase q0 t, colsArms_erase q0 r]
theorem colsO_erase (q0 : Query) : ∀ o : OrderItem, colsO (eraseO q0 o) = colsO o
  | .mk e _ _ _ => by simp [eraseO, colsO, colsE_erase q0 e]
theorem colsOs_erase (q0 : Query) : ∀ os : List OrderItem, colsOs (eraseOs q0 os) = colsOs os
  | [] => by simp [eraseOs]
  | o :: r => by simp [eraseOs, colsOs, colsO_erase q0 o, colsOs_erase q0 r]
end

/-- and so does the analyzer: the collection over an expression is unchanged when its sub-queries are replaced -/
theorem nodeCols_level_local (q0 : Query) (e : Expr) : nodeColsV (eraseE q0 e).toVal = nodeColsV e.toVal := by
  rw [expr_ok, expr_ok, colsE_erase]

/-! ## Known findings on the model -/

/-- `SELECT b AS a FROM t WHERE a > 0` -/
def wAlias : Select :=
  .mk (some []) false [(.column none "b", some "a")] (some [.mk (.table none "t") none]) [] []
    (some (.compare "GREATER" (.column none "a") (.literal "0"))) none none none none none none none

/-- **F-C15-1**: the WHERE analysis of `SELECT b AS a FROM t WHERE a > 0` reports `b`; the clause reads column `a` -/
theorem witness_where_alias :
    currentColsSelect .where_ wAlias = .ok [⟨none, some "b", none⟩] ∧ spec .where_ wAlias = [⟨none, some "a", none⟩] := by
  rw [where_actual]
  refine ⟨congrArg _ ?_, ?_⟩ <;> decide +kernel

/-- `WITH w AS (SELECT x FROM t) SELECT a FROM w` -/
def wWith : Select :=
  .mk (some [.mk "w" (.single (.mk (some []) false [(.column none "x", none)] (some [.mk (.table none "t") none]) [] []
      none none none none none none none none))]) false [(.column none "a", none)] (some [.mk (.table none "w") none]) [] []
    none none none none none none none none

/-- **F-C15-2 (fixed by bed929d)**: the all-clauses analysis of `WITH w AS (SELECT x FROM t) SELECT a FROM w` reports `a` only -/
theorem fixed_with_leak :
    (match currentColsSelect .all wWith with | .ok l => l | .error _ => []) = [⟨none, some "a", none⟩]
      ∧ spec .all wWith = [⟨none, some "a", none⟩] := by
  decide +kernel

/-- **F-C15-3 (fixed by 07335d7)**: a dialect variable is not a column in any letter case -/
theorem fixed_lower_case_variable :
    nodeColsV (Expr.column none "current_date").toVal = .ok [] ∧ nodeColsV (Expr.column none "CURRENT_DATE").toVal = .ok []
      ∧ nodeColsV (Expr.column (some "t") "current_date").toVal = .ok [⟨some "t", some "current_date", none⟩] := by
  rw [expr_ok, expr_ok, expr_ok]
  refine ⟨congrArg _ ?_, congrArg _ ?_, congrArg _ ?_⟩ <;> decide +kernel

/-- `SELECT a FROM t ORDER BY e[1]` -/
def wIndex : Select :=
  .mk (some []) false [(.column none "a", none)] (some [.mk (.table none "t") none]) [] [] none none none
    (some [.mk (.index (.column none "e") (.literal "1")) false false false]) none none none none

/-- **F-C15-4 (fixed by ed4e409)**: the ORDER BY analysis of `SELECT a FROM t ORDER BY e[1]` reports `e`; no hypothesis on the
item is needed any more (`OrderFaithful` holds of every non-literal) -/
theorem fixed_array_index_order : currentColsSelect .order wIndex = .ok [⟨none, some "e", none⟩] := by
  rw [order_exact wIndex (by simp [OrderFaithful, orderExprs, wIndex, OrdinalFaithful])]
  exact congrArg _ (by decide +kernel)

/-! ## non-vacuity -/

/-- `SELECT b AS a, c FROM t JOIN u ON t.k = u.k WHERE c > 0 GROUP BY 1, c HAVING COUNT(1) > 2 ORDER BY a, 2` -/
def sample : Select :=
  .mk (some []) false [(.column none "b", some "a"), (.column none "c", none)] (some [.mk (.table none "t") none]) []
    [.mk "JOIN" (.mk (.table none "u") none) (some (.on (.compare "EQUAL_TO" (.column (some "t") "k") (.column (some "u") "k"))))]
    (some (.compare "GREATER" (.column none "c") (.literal "0")))
    (some (.mk [.literal "1", .column none "c"] none false false))
    (some (.compare "GREATER" (.agg "COUNT" [.literal "1"] false) (.literal "2")))
    (some [.mk (.column none "a") false false false, .mk (.literal "2") false false false]) none none none none

example : spec .group sample = [⟨none, some "b", none⟩, ⟨none, some "c", none⟩] := by decide +kernel
example : spec .having sample = [⟨none, none, none⟩] := by decide +kernel
example : spec .order sample = [⟨none, some "b", none⟩, ⟨none, some "c", none⟩] := by decide +kernel
example : spec .join sample = [⟨some "t", some "k", none⟩, ⟨some "u", some "k", none⟩] := by decide +kernel
example : Clean .where_ sample := by unfold Clean; decide +kernel

end C15
