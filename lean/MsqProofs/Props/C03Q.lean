import MsqProofs.Lemmas.TQueryM
import MsqProofs.Lemmas.TQueryJ
import MsqModel.Driver.ShowVal
/-!
# C03 / C02 / C01 — T-parse closed under nesting: queries and expressions, one mutually recursive fragment

**Fragment** (three mutually recursive `Bool`s over the model's `Ast`, Lemmas/TQuery0.lean; any size, any nesting depth):
* `TQ.FragE3 d e` — expressions: everything of `TP2.Frag2` (Props/C02T2.lean: names, qualified columns, literals, `*`, `t.*`, unary and
  binary operators of the regenerated tables, comparisons, `[NOT] LIKE / RLIKE / REGEXP / IS / BETWEEN`, `[NOT] IN (v, …)` with short
  values, NOT / AND / XOR / OR, calls `f(…)`, `s.f(…)`, aggregates, both CASE forms) and in addition the three bracketed sub-query
  positions: scalar sub-query `(q)`, `e [NOT] IN (q)`, `EXISTS (q)`, with `q` a fragment QUERY.  One restriction: the left operand of
  a comparison / keyword operator / BETWEEN is not itself an `EXISTS` (its first word is no operand token).
* `TQ.FragS3 d s` — a single SELECT: the clauses of `TS.FragS` (Props/C03T.lean) with fragment expressions at every expression
  position (items incl. wildcard items, ON, WHERE, GROUP BY keys, HAVING, ORDER BY keys), FROM / JOIN items additionally
  schema-qualified tables (`` `s.n` ``, `tblOK`) and DERIVED TABLES `(q) [AS alias]` with `q` a fragment query.
* `TQ.FragQ d q` — a query: a single SELECT, or a left-nested chain `s UNION [ALL] / EXCEPT / INTERSECT / MINUS s₁ …` of single SELECTs
  over EVERY set operator of the regenerated table `Gen.unionTypes` (`all_union_types_ok`), WITH slot `some []`.
Not covered: WITH clauses, `JOIN … USING`, LATERAL VIEW, SORT / DISTRIBUTE / CLUSTER BY, window functions, CAST / EXTRACT / IF,
bracketed SELECTs as branches of a set operation.

**Token-level printer** `TQ.toksQ d ch q` / `toksS3` / `toksE3`: `PR.prQ` / `prS` / `prE` as tokens; a sub-query is ONE bracket group
holding the tokens of the query.  `#guard`s below check `lex (prQ d q) = toksQ d noX q` for nested queries in several dialects.

**Theorems** (every dialect; `rest` with `TQ.stopsQ d rest`: empty, or the head continues neither an expression nor a SELECT nor a set
operation — e.g. `;`, a closing context):
* `C03.tquery` : `FragQ d q → stopsQ d rest → 20 * sizeL (toksQ d noX q) + 9 ≤ fuel →
  pSelectStmt d fuel none (toksQ d noX q ++ rest) = ok (q, rest)`; `tquery_entry_fuel` (the entry points' fuel dominates the bound);
  `tquery_ch` (the same for any choice `ch` of redundant brackets satisfying `TQ.ChOK`);
* `C03.tquery_statement` : the same through `pStatement` (one iteration of the loop of `parse_statements`): `ok (.select q, rest)`;
* `C02.tparse3` : the expression half — `FragE3 d e → stops2 d rest → 20 * sizeL (toksE3 d noX e) + 15 ≤ fuel →
  pOr d fuel (toksE3 d noX e ++ rest) = ok (e, rest)`; `C02.scalar_subquery`, `C02.exists_subquery`, `C02.in_subquery` : the
  three sub-query positions (the child cursor holds exactly the query and is closed); `TQ.frag2_sub_all` : `Frag2 ⊆ FragE3` with equal
  renderings, `C02.tparse2_instance` : the old theorem as an instance;
* `C03.set_operation_chain` : `s op₁ s₁ op₂ s₂ …` parses to `.union (some []) s [(op₁, s₁), (op₂, s₂), …]` — branches in order, each
  operator in its slot; `C03.set_operation_slots`;
* `C03.derived_table` : `SELECT … FROM (q) AS a` parses to the SELECT whose FROM slot is `[.mk (.sub q) a]` — body and alias;
* `C03.fragS_sub_query` : `FragS ⊆ FragQ` with equal renderings; `C03.tselect_instance`, `C03.tselect_statement_instance` : the old
  theorems as instances (fuel bound `+ 6` instead of `+ 30`);
* `C03.rendering_determines_query` : equal renderings, equal trees;
* `C01.query_round_trip_tokens` : `pSelectStmt d fuel none (toksQ d noX q) = ok (q, [])`.
-/
set_option linter.unusedVariables false
set_option linter.unusedSimpArgs false
open Lex PM Ast TP TS TQ

namespace TQ
/-- every set operator of the regenerated table, in every dialect, satisfies the side condition of the fragment -/
theorem all_union_types_ok : Gen.allD.all (fun d => Gen.unionTypes.all (fun e => unionTyOK d e.1)) = true := by decide

/-- `_parse_select_statement` with the WITH slot already consumed (as `pStatement` calls it) -/
theorem stmt_some {d : Gen.D} {ch : Expr → Bool} (hch : ChOK d ch) (q : Query) (hq : FragQ d q = true) (rest : List Tok) (hr : stopsQ d rest = true) :
    OkAt (fun f => pSelectStmt d f (some []) (toksQ d ch q ++ rest)) (20 * sizeL (toksQ d ch q) + 9) (q, rest) := by
  cases q with
  | single s =>
    simp only [FragQ] at hq
    have := stmt_core (some []) (Or.inr rfl) s [] (srec_of hch s hq) trivial rest hr
    simpa [toksQ, toksUn] using this
  | union ws s us =>
    cases ws with
    | none => simp [FragQ] at hq
    | some l =>
      cases l with
      | cons _ _ => simp [FragQ] at hq
      | nil =>
        simp only [FragQ, Bool.and_eq_true, Bool.not_eq_true', Bool.true_and] at hq
        have := stmt_core (some []) (Or.inr rfl) s us (srec_of hch s hq.1.1) (unrec_of hch us hq.1.2) rest hr
        simpa [toksQ, hq.2] using this
theorem toksQ_head {d : Gen.D} {ch : Expr → Bool} (hch : ChOK d ch) (q : Query) (hq : FragQ d q = true) : ∃ x, toksQ d ch q = opTok "SELECT" :: x :=
  (qt hch q hq).head

def branchesOf : Query → List Select
  | .single s => [s]
  | .union _ s us => s :: us.map (·.2)
def operatorsOf : Query → List String
  | .single _ => []
  | .union _ _ us => us.map (·.1)
end TQ

namespace C03
/-- **T-parse, queries.**  Parsing the token rendering of a fragment query — SELECTs over nested expressions, set operations, derived
tables, sub-queries in expressions, to any depth — returns exactly that tree, in front of every continuation that continues neither a
SELECT nor a set operation, at every fuel above an explicit linear bound -/
theorem tquery (d : Gen.D) (q : Query) (hq : FragQ d q = true) (rest : List Tok) (hr : stopsQ d rest = true)
    (fuel : Nat) (hfuel : 20 * sizeL (toksQ d noX q) + 9 ≤ fuel) : pSelectStmt d fuel none (toksQ d noX q ++ rest) = .ok (q, rest) :=
  (qt chOK_noX q hq).parse rest hr fuel hfuel
/-- the same for any choice of redundant brackets around sub-expressions that keeps the two first-word side conditions -/
theorem tquery_ch (d : Gen.D) (ch : Expr → Bool) (hch : ChOK d ch) (q : Query) (hq : FragQ d q = true) (rest : List Tok) (hr : stopsQ d rest = true)
    (fuel : Nat) (hfuel : 20 * sizeL (toksQ d ch q) + 9 ≤ fuel) : pSelectStmt d fuel none (toksQ d ch q ++ rest) = .ok (q, rest) :=
  (qt hch q hq).parse rest hr fuel hfuel
/-- the fuel the public entry points compute from the token list dominates the bound -/
theorem tquery_entry_fuel (d : Gen.D) (q : Query) (hq : FragQ d q = true) (rest : List Tok) (hr : stopsQ d rest = true) :
    pSelectStmt d (fuelFor (toksQ d noX q ++ rest)) none (toksQ d noX q ++ rest) = .ok (q, rest) :=
  tquery d q hq rest hr _ (by simp only [fuelFor, sizeL_append]; omega)

/-- **the same through the statement level**: one iteration of the loop of `parse_statements` (before the optional `;`) on the
rendering of a fragment query returns the SELECT statement with that tree -/
theorem tquery_statement (d : Gen.D) (q : Query) (hq : FragQ d q = true) (rest : List Tok) (hr : stopsQ d rest = true)
    (fuel : Nat) (hfuel : 20 * sizeL (toksQ d noX q) + 9 ≤ fuel) :
    pStatement d fuel (toksQ d noX q ++ rest) = .ok (.select q, rest) := by
  obtain ⟨x, hx⟩ := toksQ_head chOK_noX q hq
  obtain ⟨g, rfl⟩ : ∃ g, fuel = g + 1 := ⟨fuel - 1, by omega⟩
  have hsel := stmt_some chOK_noX q hq rest hr (g + 1) (by omega)
  rw [hx] at hsel ⊢
  simp only [List.cons_append] at hsel ⊢
  have k : ∀ w : String, w ≠ "SELECT" → (opTok "SELECT").srcEqUp w = false := by
    intro w hw
    have : up (opTok "SELECT").src = "SELECT" := by decide
    simp only [Tok.srcEqUp, this, beq_eq_false_iff_ne, ne_eq]
    exact fun h => hw h.symm
  have s1 : ∀ w : String, w ≠ "SELECT" → searchStrUp (opTok "SELECT" :: (x ++ rest)) w = false := by
    intro w hw; simpa [searchStrUp] using k w hw
  have s2 : ∀ a b : String, a ≠ "SELECT" → searchTwoUp (opTok "SELECT" :: (x ++ rest)) a b = false := by
    intro a b ha
    cases hxr : x ++ rest <;> simp [searchTwoUp, hxr, k a ha]
  have s3 : ∀ a b c : String, a ≠ "SELECT" → searchThreeUp (opTok "SELECT" :: (x ++ rest)) a b c = false := by
    intro a b c ha
    rcases hxr : x ++ rest with _ | ⟨y, _ | ⟨z, r⟩⟩ <;> simp [searchThreeUp, hxr, k a ha]
  have sS : searchStrUp (opTok "SELECT" :: (x ++ rest)) "SELECT" = true := by
    have : (opTok "SELECT").srcEqUp "SELECT" = true := by decide
    simpa [searchStrUp] using this
  have hw := with_absent (d := d) (x ++ rest) g
  unfold pStatement
  simp only [s1 "SET" (by decide), s2 "DELETE" "FROM" (by decide), s2 "DROP" "TABLE" (by decide), s2 "CREATE" "TABLE" (by decide),
    s2 "ANALYZE" "TABLE" (by decide), s2 "ALTER" "TABLE" (by decide), s3 "MSCK" "REPAIR" "TABLE" (by decide), s1 "USE" (by decide),
    s2 "TRUNCATE" "TABLE" (by decide), s2 "SHOW" "DATABASES" (by decide), s2 "SHOW" "TABLES" (by decide), s2 "SHOW" "COLUMNS" (by decide),
    Bool.false_eq_true, if_false, hw, sS, if_true, hsel]

/-- **set operations: branches in order, each operator in its slot.**  The rendering `s op₁ s₁ op₂ s₂ …` (each `opᵢ` the words of a set
operator of the regenerated table, each branch a fragment SELECT) parses to the union of `s` with the list `[(op₁, s₁), (op₂, s₂), …]` -/
theorem set_operation_chain (d : Gen.D) (s : Select) (us : List (String × Select)) (hs : FragS3 d s = true) (hus : FragUn d us = true)
    (hne : us.isEmpty = false) (rest : List Tok) (hr : stopsQ d rest = true)
    (fuel : Nat) (hfuel : 20 * sizeL (toksS3 d noX s ++ toksUn d noX us) + 9 ≤ fuel) :
    pSelectStmt d fuel none (toksS3 d noX s ++ (toksUn d noX us ++ rest)) = .ok (.union (some []) s us, rest) := by
  have := stmt_core none (Or.inl rfl) s us (srec_of chOK_noX s hs) (unrec_of chOK_noX us hus) rest hr fuel hfuel
  simpa [hne] using this
/-- one more branch at the end of a chain: the rendering grows by the operator's words and the branch, the tree by one entry at the end -/
theorem toksUn_append (d : Gen.D) (ch : Expr → Bool) (us : List (String × Select)) (t : String) (s : Select) :
    toksUn d ch (us ++ [(t, s)]) = toksUn d ch us ++ (unionWords t ++ toksS3 d ch s) := by
  induction us with
  | nil => simp [toksUn]
  | cons p r ih => obtain ⟨t', s'⟩ := p; simp only [List.cons_append, toksUn, ih, List.append_assoc]
theorem set_operation_slots (d : Gen.D) (q : Query) (hq : FragQ d q = true) (rest : List Tok) (hr : stopsQ d rest = true)
    (fuel : Nat) (hfuel : 20 * sizeL (toksQ d noX q) + 9 ≤ fuel) :
    ∃ p, pSelectStmt d fuel none (toksQ d noX q ++ rest) = .ok (p, rest) ∧ branchesOf p = branchesOf q ∧ operatorsOf p = operatorsOf q :=
  ⟨q, tquery d q hq rest hr fuel hfuel, rfl, rfl⟩

/-- **derived tables: body and alias.**  `SELECT items FROM (q) [AS a]` — the bracket group holds exactly the tokens of `q` — parses to
the SELECT whose FROM slot is the derived table with body `q` and alias `a` -/
theorem derived_table (d : Gen.D) (cols : List (Expr × Option String)) (q : Query) (a : Option String)
    (hs : FragS3 d (.mk (some []) false cols (some [.mk (.sub q) a]) [] [] none none none none none none none none) = true)
    (rest : List Tok) (hr : stopsQ d rest = true) (fuel : Nat)
    (hfuel : 20 * sizeL (opTok "SELECT" :: (toksCols3 d noX cols ++ opTok "FROM" :: grp (toksQ d noX q) :: aliasToks a)) + 9 ≤ fuel) :
    pSelectStmt d fuel none (opTok "SELECT" :: (toksCols3 d noX cols ++ opTok "FROM" :: grp (toksQ d noX q) :: (aliasToks a ++ rest))) =
      .ok (.single (.mk (some []) false cols (some [.mk (.sub q) a]) [] [] none none none none none none none none), rest) := by
  have e : toksQ d noX (.single (.mk (some []) false cols (some [.mk (.sub q) a]) [] [] none none none none none none none none)) =
      opTok "SELECT" :: (toksCols3 d noX cols ++ opTok "FROM" :: grp (toksQ d noX q) :: aliasToks a) := by
    simp [toksQ, toksS3, toksFrom3, toksTable3, toksRef3, toksTablesTail3, toksJoins3, toksOptE3, toksGroup3, toksOrder3, toksLimit]
  have := tquery d (.single (.mk (some []) false cols (some [.mk (.sub q) a]) [] [] none none none none none none none none))
    (by simpa [FragQ] using hs) rest hr fuel (by rw [e]; exact hfuel)
  rw [e] at this
  simpa using this

/-- equal renderings, equal trees -/
theorem rendering_determines_query (d : Gen.D) (q q' : Query) (hq : FragQ d q = true) (hq' : FragQ d q' = true)
    (h : toksQ d noX q = toksQ d noX q') : q = q' := by
  have a := tquery d q hq [] rfl (20 * sizeL (toksQ d noX q) + 9) (Nat.le_refl _)
  have b := tquery d q' hq' [] rfl (20 * sizeL (toksQ d noX q) + 9) (by rw [h]; exact Nat.le_refl _)
  rw [← h, a] at b
  simp only [Except.ok.injEq, Prod.mk.injEq, and_true] at b
  exact b
end C03

namespace C02
/-- **T-parse, expressions with sub-queries** (the expression half of the mutual induction) -/
theorem tparse3 (d : Gen.D) (e : Expr) (hf : FragE3 d e = true) (rest : List Tok) (hr : TP2.stops2 d rest = true)
    (fuel : Nat) (hfuel : 20 * sizeL (toksE3 d noX e) + 15 ≤ fuel) : pOr d fuel (toksE3 d noX e ++ rest) = .ok (e, rest) :=
  (rt3 chOK_noX e hf).own.s14 rest hr fuel hfuel
/-- scalar sub-query: a bracket group holding exactly the tokens of a fragment query is the sub-query expression of that query -/
theorem scalar_subquery (d : Gen.D) (q : Query) (hq : FragQ d q = true) (rest : List Tok) (hr : TP2.stops2 d rest = true)
    (fuel : Nat) (hfuel : 20 * sizeL [grp (toksQ d noX q)] + 15 ≤ fuel) :
    pOr d fuel (grp (toksQ d noX q) :: rest) = .ok (.subQuery q, rest) := by
  have := tparse3 d (.subQuery q) (by simpa [FragE3] using hq) rest hr fuel (by simpa [toksE3] using hfuel)
  simpa [toksE3] using this
/-- `EXISTS (q)` -/
theorem exists_subquery (d : Gen.D) (q : Query) (hq : FragQ d q = true) (rest : List Tok) (hr : TP2.stops2 d rest = true)
    (fuel : Nat) (hfuel : 20 * sizeL [opTok "EXISTS", grp (toksQ d noX q)] + 15 ≤ fuel) :
    pOr d fuel (opTok "EXISTS" :: grp (toksQ d noX q) :: rest) = .ok (.exists_ (.subQuery q), rest) := by
  have := tparse3 d (.exists_ (.subQuery q)) (by simpa [FragE3, isSubQ] using hq) rest hr fuel (by simpa [toksE3] using hfuel)
  simpa [toksE3] using this
/-- `l [NOT] IN (q)`: the left operand and the query land in their slots, the negation flag is kept -/
theorem in_subquery (d : Gen.D) (n0 : Bool) (l : Expr) (q : Query) (hf : FragE3 d (.kw .in_ n0 l (.subQuery q)) = true)
    (rest : List Tok) (hr : TP2.stops2 d rest = true) (fuel : Nat)
    (hfuel : 20 * sizeL (toksE3 d noX (.kw .in_ n0 l (.subQuery q))) + 15 ≤ fuel) :
    pOr d fuel (toksE3 d noX (.kw .in_ n0 l (.subQuery q)) ++ rest) = .ok (.kw .in_ n0 l (.subQuery q), rest) :=
  tparse3 d _ hf rest hr fuel hfuel
end C02

namespace TQ
/-- the nested expression fragment contains the larger expression fragment of Props/C02T2.lean (hence the operator fragment of
Props/C02T.lean: `TP2.frag_sub_all`), and on it the token printers agree -/
theorem frag2_sub_all (d : Gen.D) (ch : Expr → Bool) (e : Expr) (h : TP2.Frag2 d e = true) :
    FragE3 d e = true ∧ toksE3 d ch e = TP2.toksE2 d ch e :=
  let r := frag2_sub (d := d) (ch := ch) (TP2.sz2 e) e (Nat.le_refl _) h
  ⟨r.1, r.2.1⟩
end TQ
namespace C03
/-- **`FragS ⊆ FragQ`**: every SELECT of the fragment of `C03.tselect` is (as a single-SELECT query) in the nested fragment, with the same
rendering -/
theorem fragS_sub_query (d : Gen.D) (s : Select) (hs : FragS d s = true) :
    FragQ d (.single s) = true ∧ toksQ d noX (.single s) = toksS d s := by
  obtain ⟨h1, h2⟩ := fragS_sub s hs
  exact ⟨by simpa [FragQ] using h1, by simpa [toksQ] using h2⟩
/-- `C03.tselect` (Props/C03T.lean) as an instance of the SELECT half of the nested development, with the smaller fuel bound `+ 6`
(continuations of the nested fragment: additionally not `OVER`) -/
theorem tselect_instance (d : Gen.D) (s : Select) (hs : FragS d s = true) (rest : List Tok) (hr : Bd3 d 7 rest = true)
    (fuel : Nat) (hfuel : 20 * sizeL (toksS d s) + 6 ≤ fuel) : pSingle d fuel [] (toksS d s ++ rest) = .ok (s, rest) := by
  obtain ⟨h1, h2⟩ := fragS_sub s hs
  rw [← h2] at hfuel ⊢
  exact (srec_of chOK_noX s h1).parse rest hr fuel hfuel
/-- `C03.tselect_statement` as an instance of `tquery_statement` -/
theorem tselect_statement_instance (d : Gen.D) (s : Select) (hs : FragS d s = true) (rest : List Tok) (hr : stopsQ d rest = true)
    (fuel : Nat) (hfuel : 20 * sizeL (toksS d s) + 9 ≤ fuel) : pStatement d fuel (toksS d s ++ rest) = .ok (.select (.single s), rest) := by
  obtain ⟨h1, h2⟩ := fragS_sub_query d s hs
  rw [← h2] at hfuel ⊢
  exact tquery_statement d (.single s) h1 rest hr fuel hfuel
end C03

namespace C02
/-- `C02.tparse2` (Props/C02T2.lean, without redundant brackets) as an instance of `tparse3` -/
theorem tparse2_instance (d : Gen.D) (e : Expr) (hf : TP2.Frag2 d e = true) (rest : List Tok) (hr : TP2.stops2 d rest = true)
    (fuel : Nat) (hfuel : 20 * sizeL (TP2.toksE2 d noX e) + 15 ≤ fuel) : pOr d fuel (TP2.toksE2 d noX e ++ rest) = .ok (e, rest) := by
  obtain ⟨h1, h2⟩ := frag2_sub_all d noX e hf
  rw [← h2] at hfuel ⊢
  exact tparse3 d e h1 rest hr fuel hfuel
end C02

namespace C01
/-- **print / parse round trip of a query, token level** -/
theorem query_round_trip_tokens (d : Gen.D) (q : Query) (hq : FragQ d q = true) (fuel : Nat) (hfuel : 20 * sizeL (toksQ d noX q) + 9 ≤ fuel) :
    pSelectStmt d fuel none (toksQ d noX q) = .ok (q, []) := by
  have := C03.tquery d q hq [] rfl fuel hfuel
  simpa using this
end C01

/-! ### non-vacuity (compiled evaluation) -/
namespace C03
/-- the token-level printer agrees with the lexer on the printer's text, and the tree is in the fragment -/
def agreesQ (d : Gen.D) (q : Query) : Bool :=
  match PR.prQ d q with
  | .ok x => eqbL (lexed x) (toksQ d noX q) && FragQ d q
  | .error _ => false
def roundTripsQ (d : Gen.D) (q : Query) : Bool :=
  match pSelectStmt d (20 * sizeL (toksQ d noX q) + 9) none (toksQ d noX q) with
  | .ok (p, []) => Drv.showVal p.toVal == Drv.showVal q.toVal
  | _ => false
def sel (cols : List (Expr × Option String)) (fr : Option (List FromTable)) (wh : Option Expr := none) (js : List Join := []) : Select :=
  .mk (some []) false cols fr [] js wh none none none none none none none
def qcol (t c : String) : Expr := .column (some t) c
/-- `SELECT b FROM u` -/
def qa : Query := .single (sel [(col "b", none)] (some [tb "u"]))
/-- scalar sub-query, `IN (q)`, `EXISTS (q)` with a correlated condition, `NOT IN (q)` -/
def q1 : Query := .single (sel [(col "a", none), (.subQuery (.single (sel [(.agg "max" [col "b"] false, none)] (some [tb "u"]))), some "m")]
  (some [tb "t"])
  (some (.and_ (.kw .in_ false (col "a") (.subQuery (.single (sel [(col "c", none)] (some [tb "v"])))))
    (.and_ (.exists_ (.subQuery (.single (sel [(.wildcard none, none)] (some [tb "w"]) (some (.compare "EQ" (qcol "w" "x") (qcol "t" "a")))))))
      (.kw .in_ true (col "b") (.subQuery qa))))))
/-- derived table whose body is a set operation, joined with a schema-qualified table -/
def q2 : Query := .single (sel [(.wildcard (some "d"), none), (.wildcard none, none)]
  (some [.mk (.sub (.union (some []) (sel [(col "a", none)] (some [tb "t"])) [("UNION_ALL", sel [(col "b", none)] (some [tb "u"]))])) (some "d")])
  none [.mk "LEFT_JOIN" (.mk (.table (some "s") "tbl") (some "x")) (some (.on (.compare "EQ" (qcol "d" "a") (qcol "x" "a")))),
        .mk "JOIN" (.mk (.sub qa) (some "y")) none])
/-- a chain over every set operator -/
def q3 : Query := .union (some []) (sel [(col "a", none)] (some [tb "t"]))
  [("UNION", sel [(col "b", none)] (some [tb "u"])), ("UNION_ALL", sel [(lit "1", none)] none), ("EXCEPT", sel [(col "c", some "k")] (some [tb "v"])),
   ("INTERSECT", sel [(col "d", none)] (some [tb "w"]) (some (.compare "GT" (col "d") (lit "0")))), ("MINUS", sel [(col "e", none)] (some [tb "z"]))]
/-- three levels: a sub-query in a derived table in a sub-query -/
def q4 : Query := .single (sel [(.compute (.subQuery (.single (sel [(.agg "count" [.wildcard none] false, none)]
    (some [.mk (.sub (.single (sel [(col "a", none)] (some [tb "t"]) (some (.not_ (.exists_ (.subQuery qa))))))) (some "i")])))) "PLUS" (lit "1"), some "n")] none)
def q5 : Query := .union (some []) (sel [(col "a", none)] (some [.mk (.sub qa) (some "d")]) (some (.kw .in_ false (col "a") (.subQuery qa))))
  [("UNION", sel [(lit "1", none)] none)]
def q6 : Query := .single (sel [(.exists_ (.subQuery qa), some "e")] none)
#guard [q1, q2, q3, q4, q5, q6, qa].all (agreesQ .MYSQL) && [q1, q2, q3, q4, q5, q6].all (agreesQ .HIVE) && [q1, q2, q3, q4, q5, q6].all (agreesQ .ORACLE) &&
  [q1, q2, q3, q4, q5, q6].all (agreesQ .DEFAULT) && [q1, q2, q3, q4].all (agreesQ .POSTGRE_SQL)
#guard [q1, q2, q3, q4, q5, q6, qa].all (roundTripsQ .MYSQL) && [q1, q2, q3, q4, q5, q6].all (roundTripsQ .HIVE) && [q1, q2, q3, q4].all (roundTripsQ .DB2)
-- what may follow a query: a separator, the end; not a set operator, a clause word, OVER, a comma
#guard stopsQ .MYSQL (lexed "; SELECT 2") && stopsQ .MYSQL [] && !stopsQ .MYSQL (lexed "UNION ALL SELECT 2") && !stopsQ .MYSQL (lexed "WHERE a") &&
  !stopsQ .MYSQL (lexed "OVER (x)") && !stopsQ .MYSQL (lexed ", b")
-- outside the fragment: EXISTS as the left operand of a comparison, JOIN … USING, a WITH slot that is not `some []`, an unknown operator
#guard !FragQ .MYSQL (.single (sel [(.compare "EQ" (.exists_ (.subQuery qa)) (lit "1"), none)] none)) &&
  !FragQ .MYSQL (.single (sel [(col "a", none)] (some [tb "t"]) none [.mk "JOIN" (tb "u") (some (.using (col "a")))])) &&
  !FragQ .MYSQL (.union none (sel [(col "a", none)] none) [("UNION", sel [(col "a", none)] none)]) &&
  !FragQ .MYSQL (.union (some []) (sel [(col "a", none)] none) [("UNION DISTINCT", sel [(col "a", none)] none)])
-- operators and branches in order, on lexed text
#guard (match pSelectStmt .MYSQL 2000 none (lexed "SELECT `a` FROM (SELECT `b` FROM `u`) AS d UNION ALL SELECT 1 EXCEPT SELECT 2") with
  | .ok (p, []) => operatorsOf p == ["UNION_ALL", "EXCEPT"] && (branchesOf p).length == 3 | _ => false)
-- instances of the theorems (hypotheses decided by the kernel, conclusions the theorems')
set_option maxRecDepth 100000 in
example : pSelectStmt .MYSQL (fuelFor (toksQ .MYSQL noX q5 ++ lexed "; x")) none (toksQ .MYSQL noX q5 ++ lexed "; x") = .ok (q5, lexed "; x") :=
  tquery_entry_fuel .MYSQL q5 (by decide) _ (by decide)
set_option maxRecDepth 100000 in
example : pStatement .HIVE 2000 (toksQ .HIVE noX q6 ++ lexed ";") = .ok (.select q6, lexed ";") :=
  tquery_statement .HIVE q6 (by decide) _ (by decide) 2000 (by decide)
end C03
