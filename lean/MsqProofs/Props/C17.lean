import MsqProofs.Lemmas.CacheLemmas
/-!
# C17 — schema lookups are minimal, consistently keyed and cache-transparent

Theorems about the state-machine model of `CreateTableStatementGetter` (`MsqModel/Cache.lean`), for every schema
provider `prov` and every parser `parse`.  The hypotheses that the proofs force are visible in the statements
(`Good n`: the name has no `/` and no NUL; `Clean n`: `.sql` does not occur in it; `hnl`: the provider's texts
contain no carriage return; no crash between `open` and `close`); each of them is matched by a witness theorem
below that shows the property failing on the model without it, and the witnesses are replayed on the real class
by `tools/harness/props/c17.py`.
-/
namespace C17
open Cache

section
variable {σ : Type} (prov : Name → Text) (parse : Text → Except Err σ)

/-- the result `get_statement` must produce: whatever the provider's text parses to -/
def expected (n : Name) : Res σ :=
  match parse (prov n) with
  | .ok st => .ok st
  | .error e => .fail (.parse e)

/-- consistency of the volatile state with the provider and with the directory -/
structure Inv (s : St σ) : Prop where
  mem : ∀ n st, mget s.mem n = some st → parse (prov n) = .ok st
  disk : s.useDisk = true → ∀ n, n ∈ s.listed → Good n = true ∧ fget s.files (n ++ ext) = some (prov n)

/-- restart safety of a directory: every file is `<m>.sql` for a good clean name `m` and holds the provider's text -/
def DirOK (files : Files) : Prop :=
  ∀ f t, fget files f = some t → ∃ m, Good m = true ∧ Clean m = true ∧ f = m ++ ext ∧ t = prov m

theorem finish_expected (s : St σ) (n : Name) :
    (finish parse s n (prov n)).1 = expected prov parse n := by
  unfold finish expected
  cases parse (prov n) <;> rfl

theorem finish_inv (s : St σ) (n : Name) (hI : Inv prov parse s) (_hmiss : mget s.mem n = none) :
    Inv prov parse (finish parse s n (prov n)).2 := by
  unfold finish
  cases hp : parse (prov n) with
  | error e => exact hI
  | ok st =>
    refine ⟨?_, hI.disk⟩
    intro m st' hm
    simp only [mget_append] at hm
    cases hmm : mget s.mem m with
    | some x =>
      rw [hmm] at hm
      injection hm with hm
      subst hm
      exact hI.mem m x hmm
    | none =>
      rw [hmm] at hm
      by_cases hnm : n = m
      · subst hnm
        simp at hm
        subst hm
        exact hp
      · simp [hnm] at hm

theorem finish_frame (s : St σ) (n : Name) (sql : Text) :
    (finish parse s n sql).2.calls = s.calls ∧ (finish parse s n sql).2.useDisk = s.useDisk
      ∧ (finish parse s n sql).2.files = s.files ∧ (finish parse s n sql).2.parent = s.parent
      ∧ (finish parse s n sql).2.listed = s.listed := by
  unfold finish
  cases parse sql <;> simp

/-- closed form of an uninterrupted request for a good name -/
theorem get_none_good (s : St σ) (n : Name) (hg : Good n = true) :
    Cache.get prov parse none s n =
      match mget s.mem n with
      | some st => (.ok st, s)
      | none =>
        if s.useDisk then
          if s.listed.contains n then
            match fget s.files (n ++ ext) with
            | some t => finish parse s n (newlines t)
            | none => (.fail .fileNotFound, s)
          else finish parse { s with calls := s.calls ++ [n], listed := n :: s.listed,
                                     files := fset (fset s.files (n ++ ext) []) (n ++ ext) (prov n) } n (prov n)
        else finish parse { s with calls := s.calls ++ [n] } n (prov n) := by
  unfold Cache.get load openW
  simp only [resolve_good _ _ hg, dies, Bool.false_eq_true, ↓reduceIte, putFile]
  cases mget s.mem n with
  | some st => rfl
  | none =>
    simp only
    split
    · split
      · cases fget s.files (n ++ ext) <;> rfl
      · rfl
    · rfl

theorem dirOK_fset (files : Files) (n : Name) (hD : DirOK prov files) (hg : Good n = true) (hc : Clean n = true) :
    DirOK prov (fset (fset files (n ++ ext) []) (n ++ ext) (prov n)) := by
  intro f t hft
  by_cases hf : f = n ++ ext
  · subst hf
    rw [fget_fset_same] at hft
    injection hft with hft
    exact ⟨n, hg, hc, rfl, hft.symm⟩
  · rw [fget_fset_other _ _ _ _ hf, fget_fset_other _ _ _ _ hf] at hft
    exact hD f t hft

/-- **C17 (cache transparency, one request).**  In a consistent state, for a good name and a provider whose texts
survive the text-mode read: `get_statement` returns what the provider's text parses to, keeps the state consistent,
asks the provider not at all when the name is cached and exactly once otherwise, and touches nothing else. -/
theorem get_spec (hnl : ∀ n, newlines (prov n) = prov n) (s : St σ) (n : Name)
    (hI : Inv prov parse s) (hg : Good n = true) :
    (Cache.get prov parse none s n).1 = expected prov parse n
      ∧ Inv prov parse (Cache.get prov parse none s n).2
      ∧ (Cache.get prov parse none s n).2.calls = (if cached s n then s.calls else s.calls ++ [n])
      ∧ (Cache.get prov parse none s n).2.useDisk = s.useDisk
      ∧ (Cache.get prov parse none s n).2.parent = s.parent := by
  rw [get_none_good prov parse s n hg]
  unfold cached
  obtain ⟨useDisk, mem, listed, files, parent, calls⟩ := s
  cases hm : mget mem n with
  | some st =>
    have := hI.mem n st hm
    simp [expected, this, hI]
  | none =>
    cases useDisk with
    | false =>
      simp only [Bool.false_eq_true, ↓reduceIte, Option.isSome_none, Bool.false_and, Bool.or_self]
      have hfr := finish_frame parse ({ useDisk := false, mem := mem, listed := listed, files := files, parent := parent,
                                         calls := calls ++ [n] } : St σ) n (prov n)
      refine ⟨finish_expected prov parse _ n, ?_, hfr.1, hfr.2.1, hfr.2.2.2.1⟩
      apply finish_inv prov parse _ n _ hm
      exact ⟨hI.mem, fun h => by simp at h⟩
    | true =>
      cases hl : listed.contains n with
      | true =>
        have hmem : n ∈ listed := by simpa using hl
        obtain ⟨_, hfile⟩ := hI.disk rfl n hmem
        simp only at hfile
        simp only [↓reduceIte, hfile, hnl, Option.isSome_none, Bool.false_or, Bool.and_self]
        have hfr := finish_frame parse ({ useDisk := true, mem := mem, listed := listed, files := files, parent := parent,
                                           calls := calls } : St σ) n (prov n)
        exact ⟨finish_expected prov parse _ n, finish_inv prov parse _ n hI hm, hfr.1, hfr.2.1, hfr.2.2.2.1⟩
      | false =>
        simp only [Bool.false_eq_true, ↓reduceIte, Option.isSome_none, Bool.false_or, Bool.and_false]
        have hfr := finish_frame parse
          ({ useDisk := true, mem := mem, listed := n :: listed, files := fset (fset files (n ++ ext) []) (n ++ ext) (prov n),
             parent := parent, calls := calls ++ [n] } : St σ) n (prov n)
        refine ⟨finish_expected prov parse _ n, ?_, hfr.1, hfr.2.1, hfr.2.2.2.1⟩
        apply finish_inv prov parse _ n _ hm
        refine ⟨hI.mem, ?_⟩
        intro _ m hmm
        rcases List.mem_cons.1 hmm with h | h
        · subst h
          exact ⟨hg, fget_fset_same _ _ _⟩
        · obtain ⟨g1, g2⟩ := hI.disk rfl m h
          refine ⟨g1, ?_⟩
          have hne : m ++ ext ≠ n ++ ext := by
            intro he
            have := append_ext_inj he
            subst this
            have : listed.contains m = true := by simpa using h
            rw [this] at hl
            cases hl
          show fget (fset (fset files (n ++ ext) []) (n ++ ext) (prov n)) (m ++ ext) = some (prov m)
          rw [fget_fset_other _ _ _ _ hne, fget_fset_other _ _ _ _ hne]
          exact g2

/-- the directory stays restart-safe when a good clean name is requested -/
theorem get_dirOK (s : St σ) (n : Name) (hD : DirOK prov s.files) (hg : Good n = true) (hc : Clean n = true) :
    DirOK prov (Cache.get prov parse none s n).2.files := by
  rw [get_none_good prov parse s n hg]
  obtain ⟨useDisk, mem, listed, files, parent, calls⟩ := s
  cases mget mem n with
  | some st => exact hD
  | none =>
    simp only
    split
    · split
      · cases fget files (n ++ ext) with
        | none => exact hD
        | some t =>
          simp only
          rw [(finish_frame parse _ n _).2.2.1]
          exact hD
      · rw [(finish_frame parse _ n _).2.2.1]
        exact dirOK_fset prov files n hD hg hc
    · rw [(finish_frame parse _ n _).2.2.1]
      exact hD

/-- **C17 (re-instantiation).**  A new process over a restart-safe directory starts in a consistent state: every
derived name is the name the file was saved under and the file holds the provider's text. -/
theorem init_inv (useDisk : Bool) (files parent : Files) (calls : List Name) (hD : DirOK prov files) :
    Inv prov parse (init (σ := σ) useDisk files parent calls) := by
  refine ⟨?_, ?_⟩
  · intro n st h
    simp [init, mget] at h
  · intro hd n hn
    have hd' : useDisk = true := hd
    simp only [init, hd', ↓reduceIte, List.mem_map] at hn
    obtain ⟨⟨f, t⟩, hmem, hder⟩ := hn
    obtain ⟨t', ht'⟩ := fget_of_mem files f t hmem
    obtain ⟨m, hg, hc, hf, hcont⟩ := hD f t' ht'
    have : n = m := by
      rw [← hder]
      show derive f = m
      rw [hf, derive_clean m hc]
    subst this
    refine ⟨hg, ?_⟩
    show fget files (n ++ ext) = some (prov n)
    rw [← hf, ht', hcont]

/-- the operations of a crash-free history over good clean names -/
def GoodOp : Op → Bool
  | .init _ => true
  | .get n => Good n && Clean n
  | .crash _ _ => false

theorem step_inv (hnl : ∀ n, newlines (prov n) = prov n) (s : St σ) (o : Op) (ho : GoodOp o = true)
    (hI : Inv prov parse s) (hD : DirOK prov s.files) :
    Inv prov parse (step prov parse s o) ∧ DirOK prov (step prov parse s o).files := by
  cases o with
  | init b => exact ⟨init_inv prov parse b _ _ _ hD, hD⟩
  | get n =>
    have hg : Good n = true := by
      simp only [GoodOp] at ho
      cases h : Good n <;> simp_all
    have hc : Clean n = true := by
      simp only [GoodOp] at ho
      cases h : Clean n <;> simp_all
    exact ⟨(get_spec prov parse hnl s n hI hg).2.1, get_dirOK prov parse s n hD hg hc⟩
  | crash n c => simp [GoodOp] at ho

/-- **C17 (histories).**  After ANY crash-free history of re-instantiations (with or without a directory) and
requests for good clean names, started in any consistent state, the state is consistent and the directory is
restart-safe — in particular after `init` in a later process. -/
theorem history_inv (hnl : ∀ n, newlines (prov n) = prov n) (ops : List Op) (hops : ∀ o ∈ ops, GoodOp o = true)
    (s : St σ) (hI : Inv prov parse s) (hD : DirOK prov s.files) :
    Inv prov parse (run prov parse s ops) ∧ DirOK prov (run prov parse s ops).files := by
  induction ops generalizing s with
  | nil => exact ⟨hI, hD⟩
  | cons o r ih =>
    obtain ⟨h1, h2⟩ := step_inv prov parse hnl s o (hops o (by simp)) hI hD
    exact ih (fun o' ho' => hops o' (by simp [ho'])) _ h1 h2

theorem fresh_ok (b : Bool) : Inv prov parse (fresh (σ := σ) b) ∧ DirOK prov (fresh (σ := σ) b).files := by
  refine ⟨init_inv prov parse b [] [] [] ?_, ?_⟩ <;> intro f t h <;> simp [fresh, init, fget] at h

/-- what the requests of a history must answer: each one what the provider's text parses to, whatever came before -/
def specResults : List Op → List (Res σ)
  | [] => []
  | .init _ :: r => specResults r
  | .get n :: r => expected prov parse n :: specResults r
  | .crash n _ :: r => expected prov parse n :: specResults r

theorem results_spec_from (hnl : ∀ n, newlines (prov n) = prov n) (ops : List Op) (hops : ∀ o ∈ ops, GoodOp o = true)
    (s : St σ) (hI : Inv prov parse s) (hD : DirOK prov s.files) :
    results prov parse s ops = specResults prov parse ops := by
  induction ops generalizing s with
  | nil => rfl
  | cons o r ih =>
    have ho := hops o (by simp)
    obtain ⟨h1, h2⟩ := step_inv prov parse hnl s o ho hI hD
    have hr := ih (fun o' ho' => hops o' (by simp [ho'])) _ h1 h2
    cases o with
    | init b => simpa [results, specResults] using hr
    | get n =>
      have hg : Good n = true := by
        simp only [GoodOp] at ho
        cases h : Good n <;> simp_all
      simp only [results, specResults]
      rw [(get_spec prov parse hnl s n hI hg).1, hr]
    | crash n c => simp [GoodOp] at ho

/-- **C17 (cache transparency, histories).**  In every crash-free history over good clean names, started by a first
process over an empty directory, every request answers what the provider's text parses to — whether it is served
from memory, from the directory, or freshly fetched, in this or an earlier process.  Requesting twice, or after
other requests, gives the same answer. -/
theorem results_spec (hnl : ∀ n, newlines (prov n) = prov n) (b : Bool) (ops : List Op) (hops : ∀ o ∈ ops, GoodOp o = true) :
    results prov parse (fresh b) ops = specResults prov parse ops :=
  results_spec_from prov parse hnl ops hops _ (fresh_ok prov parse b).1 (fresh_ok prov parse b).2

theorem cached_iff_warm (s : St σ) (n : Name) : cached s n = s.abs.warm.contains n := by
  unfold cached St.abs
  apply Bool.eq_iff_iff.2
  simp only [Bool.or_eq_true, Bool.and_eq_true, List.contains_iff_mem, List.mem_append]
  rw [mget_isSome_iff]
  cases s.useDisk <;> simp

theorem finish_ok (s : St σ) (n : Name) (sql : Text) (st : σ) (hp : parse sql = .ok st) :
    finish parse s n sql = (.ok st, { s with mem := s.mem ++ [(n, st)] }) := by
  unfold finish
  rw [hp]

/-- **C17 (refinement of the abstract cache).**  When the provider's text parses, one concrete request simulates one
request of `AbsCache`: same answer, same provider call log, same set of warm names. -/
theorem get_refines (hnl : ∀ n, newlines (prov n) = prov n) (s : St σ) (n : Name) (st : σ)
    (hI : Inv prov parse s) (hg : Good n = true) (hp : parse (prov n) = .ok st) :
    (Cache.get prov parse none s n).1 = .ok st
      ∧ (Abs.get prov parse s.abs n).1 = .ok st
      ∧ (Cache.get prov parse none s n).2.abs.calls = (Abs.get prov parse s.abs n).2.calls
      ∧ ∀ m, m ∈ (Cache.get prov parse none s n).2.abs.warm ↔ m ∈ (Abs.get prov parse s.abs n).2.warm := by
  obtain ⟨h1, _, h3, _, _⟩ := get_spec prov parse hnl s n hI hg
  have hres : (Cache.get prov parse none s n).1 = .ok st := by
    rw [h1]
    simp [expected, hp]
  have hw := cached_iff_warm s n
  refine ⟨hres, by simp [Abs.get, hp], ?_, ?_⟩
  · show (Cache.get prov parse none s n).2.calls = _
    rw [h3, hw]
    unfold Abs.get
    cases s.abs.warm.contains n <;> simp [St.abs]
  · intro m
    rw [get_none_good prov parse s n hg]
    unfold Abs.get
    rw [← hw]
    unfold cached
    obtain ⟨useDisk, mem, listed, files, parent, calls⟩ := s
    cases hm : mget mem n with
    | some x => simp
    | none =>
      cases useDisk with
      | false =>
        simp only [Bool.false_eq_true, ↓reduceIte, finish_ok parse _ n _ st hp, Option.isSome_none, Bool.false_and, Bool.or_self]
        simp only [St.abs, Bool.false_eq_true, ↓reduceIte, List.append_nil, List.map_append, List.map_cons, List.map_nil,
          List.mem_append, List.mem_cons, List.not_mem_nil, or_false]
        exact Or.comm
      | true =>
        cases hl : listed.contains n with
        | true =>
          have hmem : n ∈ listed := by simpa using hl
          obtain ⟨_, hfile⟩ := hI.disk rfl n hmem
          simp only at hfile
          simp only [↓reduceIte, hfile, hnl, finish_ok parse _ n _ st hp, Option.isSome_none, Bool.false_or, Bool.and_self]
          simp only [St.abs, ↓reduceIte, List.map_append, List.map_cons, List.map_nil, List.mem_append, List.mem_cons,
            List.not_mem_nil, or_false]
          constructor
          · rintro ((h | h) | h)
            · exact Or.inl h
            · subst h
              exact Or.inr hmem
            · exact Or.inr h
          · rintro (h | h)
            · exact Or.inl (Or.inl h)
            · exact Or.inr h
        | false =>
          simp only [Bool.false_eq_true, ↓reduceIte, finish_ok parse _ n _ st hp, Option.isSome_none, Bool.false_or, Bool.and_false]
          simp only [St.abs, ↓reduceIte, List.map_append, List.map_cons, List.map_nil, List.mem_append, List.mem_cons,
            List.not_mem_nil, or_false]
          constructor
          · rintro ((h | h) | h | h)
            · exact Or.inr (Or.inl h)
            · exact Or.inl h
            · exact Or.inl h
            · exact Or.inr (Or.inr h)
          · rintro (h | h | h)
            · exact Or.inl (Or.inr h)
            · exact Or.inl (Or.inl h)
            · exact Or.inr (Or.inr h)

/-- **C17 (crash points that are safe), `…_partial`.**  A process death during a request leaves a restart-safe
directory at every point EXCEPT between the truncating `open` and the end of `close` (step 3, and step 4 with an
incomplete flush) — the excluded points are exactly `witness_truncated_file_trusted` / `witness_partial_file_trusted`. -/
theorem crash_dirOK_partial (s : St σ) (n : Name) (c : Crash) (hD : DirOK prov s.files) (hg : Good n = true) (hc : Clean n = true)
    (h3 : c.steps ≠ 3) (h4 : c.steps = 4 → (prov n).length ≤ c.flushed) :
    DirOK prov (Cache.get prov parse (some c) s n).2.files := by
  unfold Cache.get load openW
  simp only [resolve_good _ _ hg, putFile]
  obtain ⟨useDisk, mem, listed, files, parent, calls⟩ := s
  have key : ∀ t, t = prov n → DirOK prov (fset (fset files (n ++ ext) []) (n ++ ext) t) := by
    intro t ht
    rw [ht]
    exact dirOK_fset prov files n hD hg hc
  have h3' : dies (some c) 3 = false := by
    simp only [dies]
    exact Bool.eq_false_iff.2 (fun h => h3 (by simpa using h))
  cases mget mem n with
  | some st => exact hD
  | none =>
    simp only [h3', Bool.false_eq_true, ↓reduceIte]
    split
    · split
      · cases fget files (n ++ ext) with
        | none => exact hD
        | some t =>
          simp only
          rw [(finish_frame parse _ n _).2.2.1]
          exact hD
      · split
        · exact hD
        · split
          · exact hD
          · split
            · rename_i h4'
              have : c.steps = 4 := by simpa [dies] using h4'
              exact key _ (List.take_of_length_le (h4 this))
            · split
              · exact key _ rfl
              · rw [(finish_frame parse _ n _).2.2.1]
                exact key _ rfl
    · split
      · exact hD
      · rw [(finish_frame parse _ n _).2.2.1]
        exact hD

end

/-! ## non-vacuity and witnesses (kernel-evaluated on a small instance of the model)

`tprov n = "DDL:" ++ n`, `tparse` accepts every non-empty text and returns it. -/

def tprov (n : Name) : Text := "DDL:".toList ++ n
def tparse (t : Text) : Except Err Text := if t.isEmpty then .error .parse else .ok t

/-- non-vacuity of `results_spec`: a history with a memory hit, a disk hit in a second process, a process without
directory and names with schema, dots and back-quotes satisfies the hypotheses … -/
example : (([.get "s.t".toList, .get "s.t".toList, .init true, .get "s.t".toList, .get "`a b`".toList, .init false,
    .get "s.t".toList, .init true, .get "x.sq".toList] : List Op).all GoodOp) = true := by decide +kernel
/-- … and the provider is asked exactly once per name per cold state in it -/
example : (run tprov tparse (fresh true) [.get "s.t".toList, .get "s.t".toList, .init true, .get "s.t".toList, .get "`a b`".toList,
    .init false, .get "s.t".toList, .init true, .get "x.sq".toList]).calls
    = ["s.t".toList, "`a b`".toList, "s.t".toList, "x.sq".toList] := by decide +kernel

/-- F-C17-1: a file truncated by `open(…, "w")` and never written (process death at step 3) is trusted by the next
process: the request fails in the parser on the empty text and the provider is NOT asked again. -/
theorem witness_truncated_file_trusted :
    results tprov tparse (fresh true) [.crash "b".toList ⟨3, 0⟩, .init true, .get "b".toList, .get "b".toList]
        = [.fail .crashed, .fail (.parse .parse), .fail (.parse .parse)]
      ∧ (run tprov tparse (fresh true) [.crash "b".toList ⟨3, 0⟩, .init true, .get "b".toList, .get "b".toList]).calls = ["b".toList] := by
  decide +kernel

/-- F-C17-1 (partial flush): a prefix of the provider's text is served as if it were the provider's text -/
theorem witness_partial_file_trusted :
    results tprov tparse (fresh true) [.crash "b".toList ⟨4, 2⟩, .init true, .get "b".toList]
      = [.fail .crashed, .ok "DD".toList] := by decide +kernel

/-- F-C17-2: a name containing `.sql` is saved as `a.sql.b.sql`, which the next process lists as `a.b`: the table that
IS on disk is fetched again … -/
theorem witness_dotsql_fetched_again :
    (run tprov tparse (fresh true) [.get "a.sql.b".toList, .init true, .get "a.sql.b".toList]).calls
      = ["a.sql.b".toList, "a.sql.b".toList] := by decide +kernel

/-- … and the table `a.b` that is NOT on disk is believed to be: `load_from_disk` raises `FileNotFoundError` and the
provider is never asked for it -/
theorem witness_dotsql_phantom :
    results tprov tparse (fresh true) [.get "a.sql.b".toList, .init true, .get "a.b".toList]
        = [.ok (tprov "a.sql.b".toList), .fail .fileNotFound]
      ∧ (run tprov tparse (fresh true) [.get "a.sql.b".toList, .init true, .get "a.b".toList]).calls = ["a.sql.b".toList] := by
  decide +kernel

/-- F-C17-3: a name with `/` — the provider is asked, `open` raises `FileNotFoundError`, the name stays in
`_disk_cache`, so the second request fails in `load_from_disk` without asking -/
theorem witness_slash :
    results tprov tparse (fresh true) [.get "s/t".toList, .get "s/t".toList] = [.fail .fileNotFound, .fail .fileNotFound]
      ∧ (run tprov tparse (fresh true) [.get "s/t".toList, .get "s/t".toList]).calls = ["s/t".toList] := by decide +kernel

/-- F-C17-3 (aliasing): `./a` is saved as `a.sql`; the next process serves it as table `a` without asking the provider -/
theorem witness_dot_slash_alias :
    results tprov tparse (fresh true) [.get "./a".toList, .init true, .get "a".toList]
        = [.ok (tprov "./a".toList), .ok (tprov "./a".toList)]
      ∧ (run tprov tparse (fresh true) [.get "./a".toList, .init true, .get "a".toList]).calls = ["./a".toList] := by decide +kernel

/-- F-C17-3 (escape): `../x` is written above the cache directory -/
theorem witness_escape :
    (run tprov tparse (fresh true) [.get "../x".toList]).parent = [("x.sql".toList, tprov "../x".toList)] := by decide +kernel

/-- F-C17-3 (NUL): `ValueError` from `open`, after the provider was asked -/
theorem witness_nul :
    results tprov tparse (fresh true) [.get ['a', '\x00']] = [.fail .valueError] := by decide +kernel

/-- F-C17-4: a carriage return in the provider's text comes back as a line feed from the directory (text-mode read):
the same request answers differently in the next process -/
theorem witness_carriage_return :
    results (fun _ => "x\ry".toList) tparse (fresh true) [.get "a".toList, .init true, .get "a".toList]
      = [.ok "x\ry".toList, .ok "x\ny".toList] := by decide +kernel

/-- F-C17-5: the INSERT target is requested under its printed, back-quoted form, source tables under the bare dotted
form: one table, two keys -/
theorem witness_insert_target_key :
    (insertKey (some "s") "t" == sourceKey (some "s") "t") = false
      ∧ (insertKey none "t" == sourceKey none "t") = false := by decide +kernel

end C17
