import MsqProofs.Lemmas.CacheLemmas
/-!
# C17 — schema lookups are minimal, consistently keyed and cache-transparent

Theorems about the state-machine model of `CreateTableStatementGetter` (`MsqModel/Cache.lean`, the code as of /repo 4e42ffc),
for every schema provider `prov` and every parser `parse`.  The one hypothesis the proofs force is visible in the statements:
`Good n` — the table name has no `/` and no NUL (findings F-C17-4…7, witness theorems below, replayed on the real class by
`tools/harness/props/c17.py`).  The hypotheses the first version of these theorems needed are gone with the repairs of
F-C17-1 (truncated file trusted: the file is now written under a temporary name and renamed — `crash_dirOK` holds at EVERY crash
point), F-C17-2/3 (`.sql` inside a name: only the suffix is removed now) and F-C17-8 (carriage return: no newline translation);
their witnesses became the regression theorems `regress_*`.
-/
namespace C17
open Cache

section
variable {σ : Type} (prov : Name → Text) (parse : Text → Except Err σ)

/-- the result `get_statement` must produce: whatever the provider's text parses to -/
def expected (n : Name) : Res σ :=
  match parse (prov n) with
  | .ok st => .ok st
  | .error e => .fail (.parse e)

/-- consistency of the volatile state with the provider and with the directory -/
structure Inv (s : St σ) : Prop where
  mem : ∀ n st, mget s.mem n = some st → parse (prov n) = .ok st
  disk : s.useDisk = true → ∀ n, n ∈ s.listed → Good n = true ∧ fget s.files (n ++ ext) = some (prov n)

/-- restart safety of a directory: every `*.sql` entry is `<m>.sql` for a good name `m` and holds the provider's text
(other entries — temporary files of interrupted runs, foreign files — are never looked at) -/
def DirOK (files : Files) : Prop :=
  ∀ f t m, fget files f = some t → stripSql f = some m → Good m = true ∧ t = prov m

theorem finish_expected (s : St σ) (n : Name) :
    (finish parse s n (prov n)).1 = expected prov parse n := by
  unfold finish expected
  cases parse (prov n) <;> rfl

theorem finish_inv (s : St σ) (n : Name) (hI : Inv prov parse s) (_hmiss : mget s.mem n = none) :
    Inv prov parse (finish parse s n (prov n)).2 := by
  unfold finish
  cases hp : parse (prov n) with
  | error e => exact hI
  | ok st =>
    refine ⟨?_, hI.disk⟩
    intro m st' hm
    simp only [mget_append] at hm
    cases hmm : mget s.mem m with
    | some x =>
      rw [hmm] at hm
      injection hm with hm
      subst hm
      exact hI.mem m x hmm
    | none =>
      rw [hmm] at hm
      by_cases hnm : n = m
      · subst hnm
        simp at hm
        subst hm
        exact hp
      · simp [hnm] at hm

theorem finish_frame (s : St σ) (n : Name) (sql : Text) :
    (finish parse s n sql).2.calls = s.calls ∧ (finish parse s n sql).2.useDisk = s.useDisk
      ∧ (finish parse s n sql).2.files = s.files ∧ (finish parse s n sql).2.parent = s.parent
      ∧ (finish parse s n sql).2.listed = s.listed := by
  unfold finish
  cases parse sql <;> simp

/-- closed form of an uninterrupted request for a good name -/
theorem get_none_good (s : St σ) (n : Name) (hg : Good n = true) :
    Cache.get prov parse none s n =
      match mget s.mem n with
      | some st => (.ok st, s)
      | none =>
        if s.useDisk then
          if s.listed.contains n then
            match fget s.files (n ++ ext) with
            | some t => finish parse s n t
            | none => (.fail .fileNotFound, s)
          else finish parse { s with calls := s.calls ++ [n], listed := n :: s.listed, files := saved s.files n (prov n) } n (prov n)
        else finish parse { s with calls := s.calls ++ [n] } n (prov n) := by
  unfold Cache.get load openTmp
  simp only [resolve_good _ _ hg, resolveTmp_good _ _ hg, dies, Bool.false_eq_true, ↓reduceIte, putFile, replaceFile, saved]
  cases mget s.mem n with
  | some st => rfl
  | none =>
    simp only
    split
    · split
      · cases fget s.files (n ++ ext) <;> rfl
      · rfl
    · rfl

theorem dirOK_fset_tmp (files : Files) (x : Name) (t : Text) (hD : DirOK prov files) : DirOK prov (fset files (x ++ tmpExt) t) := by
  intro f u m hf hm
  by_cases h : f = x ++ tmpExt
  · subst h
    rw [stripSql_tmp] at hm
    cases hm
  · rw [fget_fset_other _ _ _ _ h] at hf
    exact hD f u m hf hm

theorem dirOK_saved (files : Files) (n : Name) (hD : DirOK prov files) (hg : Good n = true) : DirOK prov (saved files n (prov n)) := by
  intro f u m hf hm
  by_cases h1 : f = n ++ ext
  · subst h1
    rw [fget_saved_final] at hf
    injection hf with hf
    rw [stripSql_ext] at hm
    injection hm with hm
    subst hm
    exact ⟨hg, hf.symm⟩
  · by_cases h2 : f = n ++ ext ++ tmpExt
    · subst h2
      rw [fget_saved_tmp] at hf
      cases hf
    · rw [fget_saved_other _ _ _ _ h1 h2] at hf
      exact hD f u m hf hm

/-- **C17 (cache transparency, one request).**  In a consistent state, for a good name: `get_statement` returns what the
provider's text parses to, keeps the state consistent, asks the provider not at all when the name is cached and exactly once
otherwise, and touches nothing else. -/
theorem get_spec (s : St σ) (n : Name) (hI : Inv prov parse s) (hg : Good n = true) :
    (Cache.get prov parse none s n).1 = expected prov parse n
      ∧ Inv prov parse (Cache.get prov parse none s n).2
      ∧ (Cache.get prov parse none s n).2.calls = (if cached s n then s.calls else s.calls ++ [n])
      ∧ (Cache.get prov parse none s n).2.useDisk = s.useDisk
      ∧ (Cache.get prov parse none s n).2.parent = s.parent := by
  rw [get_none_good prov parse s n hg]
  unfold cached
  obtain ⟨useDisk, mem, listed, files, parent, calls⟩ := s
  cases hm : mget mem n with
  | some st =>
    have := hI.mem n st hm
    simp [expected, this, hI]
  | none =>
    cases useDisk with
    | false =>
      simp only [Bool.false_eq_true, ↓reduceIte, Option.isSome_none, Bool.false_and, Bool.or_self]
      have hfr := finish_frame parse ({ useDisk := false, mem := mem, listed := listed, files := files, parent := parent,
                                         calls := calls ++ [n] } : St σ) n (prov n)
      refine ⟨finish_expected prov parse _ n, ?_, hfr.1, hfr.2.1, hfr.2.2.2.1⟩
      apply finish_inv prov parse _ n _ hm
      exact ⟨hI.mem, fun h => by simp at h⟩
    | true =>
      cases hl : listed.contains n with
      | true =>
        have hmem : n ∈ listed := by simpa using hl
        obtain ⟨_, hfile⟩ := hI.disk rfl n hmem
        simp only at hfile
        simp only [↓reduceIte, hfile, Option.isSome_none, Bool.false_or, Bool.and_self]
        have hfr := finish_frame parse ({ useDisk := true, mem := mem, listed := listed, files := files, parent := parent,
                                           calls := calls } : St σ) n (prov n)
        exact ⟨finish_expected prov parse _ n, finish_inv prov parse _ n hI hm, hfr.1, hfr.2.1, hfr.2.2.2.1⟩
      | false =>
        simp only [Bool.false_eq_true, ↓reduceIte, Option.isSome_none, Bool.false_or, Bool.and_false]
        have hfr := finish_frame parse
          ({ useDisk := true, mem := mem, listed := n :: listed, files := saved files n (prov n),
             parent := parent, calls := calls ++ [n] } : St σ) n (prov n)
        refine ⟨finish_expected prov parse _ n, ?_, hfr.1, hfr.2.1, hfr.2.2.2.1⟩
        apply finish_inv prov parse _ n _ hm
        refine ⟨hI.mem, ?_⟩
        intro _ m hmm
        rcases List.mem_cons.1 hmm with h | h
        · subst h
          exact ⟨hg, fget_saved_final _ _ _⟩
        · obtain ⟨g1, g2⟩ := hI.disk rfl m h
          refine ⟨g1, ?_⟩
          have hne : m ++ ext ≠ n ++ ext := by
            intro he
            have := append_ext_inj he
            subst this
            have : listed.contains m = true := by simpa using h
            rw [this] at hl
            cases hl
          show fget (saved files n (prov n)) (m ++ ext) = some (prov m)
          rw [fget_saved_other _ _ _ _ hne (Ne.symm (tmp_ne_final n m))]
          exact g2

/-- the directory stays restart-safe when a good name is requested -/
theorem get_dirOK (s : St σ) (n : Name) (hD : DirOK prov s.files) (hg : Good n = true) :
    DirOK prov (Cache.get prov parse none s n).2.files := by
  rw [get_none_good prov parse s n hg]
  obtain ⟨useDisk, mem, listed, files, parent, calls⟩ := s
  cases mget mem n with
  | some st => exact hD
  | none =>
    simp only
    split
    · split
      · cases fget files (n ++ ext) with
        | none => exact hD
        | some t =>
          simp only
          rw [(finish_frame parse _ n _).2.2.1]
          exact hD
      · rw [(finish_frame parse _ n _).2.2.1]
        exact dirOK_saved prov files n hD hg
    · rw [(finish_frame parse _ n _).2.2.1]
      exact hD

/-- **C17 (re-instantiation).**  A new process over a restart-safe directory starts in a consistent state: every listed name is
the name a `*.sql` file was saved under and the file holds the provider's text. -/
theorem init_inv (useDisk : Bool) (files parent : Files) (calls : List Name) (hD : DirOK prov files) :
    Inv prov parse (init (σ := σ) useDisk files parent calls) := by
  refine ⟨?_, ?_⟩
  · intro n st h
    simp [init, mget] at h
  · intro hd n hn
    have hd' : useDisk = true := hd
    simp only [init, hd', ↓reduceIte, List.mem_filterMap] at hn
    obtain ⟨⟨f, t⟩, hmem, hstrip⟩ := hn
    obtain ⟨t', ht'⟩ := fget_of_mem files f t hmem
    obtain ⟨hg, hcont⟩ := hD f t' n ht' hstrip
    refine ⟨hg, ?_⟩
    show fget files (n ++ ext) = some (prov n)
    rw [← stripSql_some f n hstrip, ht', hcont]

/-- the operations of a crash-free history over good names -/
def GoodOp : Op → Bool
  | .init _ => true
  | .get n => Good n
  | .crash _ _ => false

theorem step_inv (s : St σ) (o : Op) (ho : GoodOp o = true) (hI : Inv prov parse s) (hD : DirOK prov s.files) :
    Inv prov parse (step prov parse s o) ∧ DirOK prov (step prov parse s o).files := by
  cases o with
  | init b => exact ⟨init_inv prov parse b _ _ _ hD, hD⟩
  | get n => exact ⟨(get_spec prov parse s n hI ho).2.1, get_dirOK prov parse s n hD ho⟩
  | crash n c => simp [GoodOp] at ho

/-- **C17 (histories).**  After ANY crash-free history of re-instantiations (with or without a directory) and requests for good
names, started in any consistent state, the state is consistent and the directory is restart-safe — in particular after `init` in
a later process. -/
theorem history_inv (ops : List Op) (hops : ∀ o ∈ ops, GoodOp o = true)
    (s : St σ) (hI : Inv prov parse s) (hD : DirOK prov s.files) :
    Inv prov parse (run prov parse s ops) ∧ DirOK prov (run prov parse s ops).files := by
  induction ops generalizing s with
  | nil => exact ⟨hI, hD⟩
  | cons o r ih =>
    obtain ⟨h1, h2⟩ := step_inv prov parse s o (hops o (by simp)) hI hD
    exact ih (fun o' ho' => hops o' (by simp [ho'])) _ h1 h2

theorem fresh_ok (b : Bool) : Inv prov parse (fresh (σ := σ) b) ∧ DirOK prov (fresh (σ := σ) b).files := by
  refine ⟨init_inv prov parse b [] [] [] ?_, ?_⟩ <;> intro f t m h <;> simp [fresh, init, fget] at h

/-- what the requests of a history must answer: each one what the provider's text parses to, whatever came before -/
def specResults : List Op → List (Res σ)
  | [] => []
  | .init _ :: r => specResults r
  | .get n :: r => expected prov parse n :: specResults r
  | .crash n _ :: r => expected prov parse n :: specResults r

theorem results_spec_from (ops : List Op) (hops : ∀ o ∈ ops, GoodOp o = true)
    (s : St σ) (hI : Inv prov parse s) (hD : DirOK prov s.files) :
    results prov parse s ops = specResults prov parse ops := by
  induction ops generalizing s with
  | nil => rfl
  | cons o r ih =>
    have ho := hops o (by simp)
    obtain ⟨h1, h2⟩ := step_inv prov parse s o ho hI hD
    have hr := ih (fun o' ho' => hops o' (by simp [ho'])) _ h1 h2
    cases o with
    | init b => simpa [results, specResults] using hr
    | get n =>
      simp only [results, specResults]
      rw [(get_spec prov parse s n hI ho).1, hr]
    | crash n c => simp [GoodOp] at ho

/-- **C17 (cache transparency, histories).**  In every crash-free history over good names, started by a first process over an
empty directory, every request answers what the provider's text parses to — whether it is served from memory, from the directory,
or freshly fetched, in this or an earlier process.  Requesting twice, or after other requests, gives the same answer. -/
theorem results_spec (b : Bool) (ops : List Op) (hops : ∀ o ∈ ops, GoodOp o = true) :
    results prov parse (fresh b) ops = specResults prov parse ops :=
  results_spec_from prov parse ops hops _ (fresh_ok prov parse b).1 (fresh_ok prov parse b).2

theorem cached_iff_warm (s : St σ) (n : Name) : cached s n = s.abs.warm.contains n := by
  unfold cached St.abs
  apply Bool.eq_iff_iff.2
  simp only [Bool.or_eq_true, Bool.and_eq_true, List.contains_iff_mem, List.mem_append]
  rw [mget_isSome_iff]
  cases s.useDisk <;> simp

theorem finish_ok (s : St σ) (n : Name) (sql : Text) (st : σ) (hp : parse sql = .ok st) :
    finish parse s n sql = (.ok st, { s with mem := s.mem ++ [(n, st)] }) := by
  unfold finish
  rw [hp]

/-- **C17 (refinement of the abstract cache).**  When the provider's text parses, one concrete request simulates one request of
`AbsCache`: same answer, same provider call log, same set of warm names. -/
theorem get_refines (s : St σ) (n : Name) (st : σ)
    (hI : Inv prov parse s) (hg : Good n = true) (hp : parse (prov n) = .ok st) :
    (Cache.get prov parse none s n).1 = .ok st
      ∧ (Abs.get prov parse s.abs n).1 = .ok st
      ∧ (Cache.get prov parse none s n).2.abs.calls = (Abs.get prov parse s.abs n).2.calls
      ∧ ∀ m, m ∈ (Cache.get prov parse none s n).2.abs.warm ↔ m ∈ (Abs.get prov parse s.abs n).2.warm := by
  obtain ⟨h1, _, h3, _, _⟩ := get_spec prov parse s n hI hg
  have hres : (Cache.get prov parse none s n).1 = .ok st := by
    rw [h1]
    simp [expected, hp]
  have hw := cached_iff_warm s n
  refine ⟨hres, by simp [Abs.get, hp], ?_, ?_⟩
  · show (Cache.get prov parse none s n).2.calls = _
    rw [h3, hw]
    unfold Abs.get
    cases s.abs.warm.contains n <;> simp [St.abs]
  · intro m
    rw [get_none_good prov parse s n hg]
    unfold Abs.get
    rw [← hw]
    unfold cached
    obtain ⟨useDisk, mem, listed, files, parent, calls⟩ := s
    cases hm : mget mem n with
    | some x => simp
    | none =>
      cases useDisk with
      | false =>
        simp only [Bool.false_eq_true, ↓reduceIte, finish_ok parse _ n _ st hp, Option.isSome_none, Bool.false_and, Bool.or_self]
        simp only [St.abs, Bool.false_eq_true, ↓reduceIte, List.append_nil, List.map_append, List.map_cons, List.map_nil,
          List.mem_append, List.mem_cons, List.not_mem_nil, or_false]
        exact Or.comm
      | true =>
        cases hl : listed.contains n with
        | true =>
          have hmem : n ∈ listed := by simpa using hl
          obtain ⟨_, hfile⟩ := hI.disk rfl n hmem
          simp only at hfile
          simp only [↓reduceIte, hfile, finish_ok parse _ n _ st hp, Option.isSome_none, Bool.false_or, Bool.and_self]
          simp only [St.abs, ↓reduceIte, List.map_append, List.map_cons, List.map_nil, List.mem_append, List.mem_cons,
            List.not_mem_nil, or_false]
          constructor
          · rintro ((h | h) | h)
            · exact Or.inl h
            · subst h
              exact Or.inr hmem
            · exact Or.inr h
          · rintro (h | h)
            · exact Or.inl (Or.inl h)
            · exact Or.inr h
        | false =>
          simp only [Bool.false_eq_true, ↓reduceIte, finish_ok parse _ n _ st hp, Option.isSome_none, Bool.false_or, Bool.and_false]
          simp only [St.abs, ↓reduceIte, List.map_append, List.map_cons, List.map_nil, List.mem_append, List.mem_cons,
            List.not_mem_nil, or_false]
          constructor
          · rintro ((h | h) | h | h)
            · exact Or.inr (Or.inl h)
            · exact Or.inl h
            · exact Or.inl h
            · exact Or.inr (Or.inr h)
          · rintro (h | h | h)
            · exact Or.inl (Or.inr h)
            · exact Or.inl (Or.inl h)
            · exact Or.inr (Or.inr h)

/-- **C17 (crash safety).**  A process death at ANY point of a request for a good name leaves a restart-safe directory: the text is
written under a temporary name that no later process looks at, and appears under its final name only complete
(`os.replace`).  So the next process starts in a consistent state (`init_inv`) and answers every request correctly
(`results_spec_from`).  (Before /repo 4e42ffc this held only outside the window between the truncating `open` and `close`: F-C17-1.) -/
theorem crash_dirOK (s : St σ) (n : Name) (c : Crash) (hD : DirOK prov s.files) (hg : Good n = true) :
    DirOK prov (Cache.get prov parse (some c) s n).2.files := by
  unfold Cache.get load openTmp
  simp only [resolve_good _ _ hg, resolveTmp_good _ _ hg, putFile, replaceFile]
  obtain ⟨useDisk, mem, listed, files, parent, calls⟩ := s
  have k1 : ∀ t, DirOK prov (fset files (n ++ ext ++ tmpExt) t) := fun t => dirOK_fset_tmp prov files (n ++ ext) t hD
  have k2 : ∀ t u, DirOK prov (fset (fset files (n ++ ext ++ tmpExt) t) (n ++ ext ++ tmpExt) u) :=
    fun t u => dirOK_fset_tmp prov _ (n ++ ext) u (k1 t)
  have k3 : DirOK prov (fset (fdel (fset (fset files (n ++ ext ++ tmpExt) []) (n ++ ext ++ tmpExt) (prov n)) (n ++ ext ++ tmpExt)) (n ++ ext) (prov n)) :=
    dirOK_saved prov files n hD hg
  cases mget mem n with
  | some st => exact hD
  | none =>
    simp only
    split
    · split
      · cases fget files (n ++ ext) with
        | none => exact hD
        | some t =>
          simp only
          rw [(finish_frame parse _ n _).2.2.1]
          exact hD
      · split
        · exact hD
        · split
          · exact k1 _
          · split
            · exact k2 _ _
            · split
              · exact k2 _ _
              · split
                · exact k3
                · rw [(finish_frame parse _ n _).2.2.1]
                  exact k3
    · split
      · exact hD
      · rw [(finish_frame parse _ n _).2.2.1]
        exact hD

/-- … and so every history, WITH process deaths at arbitrary points, keeps the directory restart-safe -/
def GoodOpC : Op → Bool
  | .init _ => true
  | .get n => Good n
  | .crash n _ => Good n

theorem history_dirOK_with_crashes (ops : List Op) (hops : ∀ o ∈ ops, GoodOpC o = true) (s : St σ) (hD : DirOK prov s.files) :
    DirOK prov (run prov parse s ops).files := by
  induction ops generalizing s with
  | nil => exact hD
  | cons o r ih =>
    apply ih (fun o' ho' => hops o' (by simp [ho']))
    have ho := hops o (by simp)
    cases o with
    | init b => exact hD
    | get n => exact get_dirOK prov parse s n hD ho
    | crash n c => exact crash_dirOK prov parse s n c hD ho

end

/-! ## non-vacuity, regression examples and witnesses (kernel-evaluated on a small instance of the model)

`tprov n = "DDL:" ++ n`, `tparse` accepts every non-empty text and returns it. -/

def tprov (n : Name) : Text := "DDL:".toList ++ n
def tparse (t : Text) : Except Err Text := if t.isEmpty then .error .parse else .ok t

/-- non-vacuity of `results_spec`: a history with a memory hit, a disk hit in a second process, a process without directory and
names with schema, dots, back-quotes and `.sql` inside satisfies the hypotheses … -/
example : (([.get "s.t".toList, .get "s.t".toList, .init true, .get "s.t".toList, .get "`a b`".toList, .init false,
    .get "s.t".toList, .init true, .get "a.sql.b".toList] : List Op).all GoodOp) = true := by decide +kernel
/-- … and the provider is asked exactly once per name per cold state in it -/
example : (run tprov tparse (fresh true) [.get "s.t".toList, .get "s.t".toList, .init true, .get "s.t".toList, .get "`a b`".toList,
    .init false, .get "s.t".toList, .init true, .get "a.sql.b".toList]).calls
    = ["s.t".toList, "`a b`".toList, "s.t".toList, "a.sql.b".toList] := by decide +kernel

/-- regression for F-C17-1 (fixed in /repo 4e42ffc): a process death right after the temporary file was created (step 2), in the
middle of `write` (step 3) or after `close` (step 4) leaves nothing a later process trusts — the table is fetched again and
answered correctly -/
theorem regress_interrupted_save :
    results tprov tparse (fresh true) [.crash "b".toList ⟨2, 0⟩, .init true, .get "b".toList, .crash "c".toList ⟨3, 2⟩, .init true, .get "c".toList,
        .crash "d".toList ⟨4, 0⟩, .init true, .get "d".toList]
      = [.fail .crashed, .ok (tprov "b".toList), .fail .crashed, .ok (tprov "c".toList), .fail .crashed, .ok (tprov "d".toList)] := by
  decide +kernel

/-- … and a death after `os.replace` (step 5) leaves the complete file, which the next process serves without asking again -/
theorem regress_completed_save :
    results tprov tparse (fresh true) [.crash "b".toList ⟨5, 0⟩, .init true, .get "b".toList] = [.fail .crashed, .ok (tprov "b".toList)]
      ∧ (run tprov tparse (fresh true) [.crash "b".toList ⟨5, 0⟩, .init true, .get "b".toList]).calls = ["b".toList] := by decide +kernel

/-- regression for F-C17-2/3 (fixed in /repo 646d98b): a name containing `.sql` is found again by the next process (asked once),
and the name `a.b` is not believed to be on disk (the provider is asked for it) -/
theorem regress_dotsql :
    (run tprov tparse (fresh true) [.get "a.sql.b".toList, .init true, .get "a.sql.b".toList]).calls = ["a.sql.b".toList]
      ∧ results tprov tparse (fresh true) [.get "a.sql.b".toList, .init true, .get "a.b".toList]
          = [.ok (tprov "a.sql.b".toList), .ok (tprov "a.b".toList)] := by decide +kernel

/-- regression for F-C17-8 (fixed in /repo 8f5dd66): a carriage return in the provider's text comes back from the directory unchanged -/
theorem regress_carriage_return :
    results (fun _ => "x\ry".toList) tparse (fresh true) [.get "a".toList, .init true, .get "a".toList]
      = [.ok "x\ry".toList, .ok "x\ry".toList] := by decide +kernel

/-- regression for F-C17-9 (fixed in /repo be71fec): the INSERT target is requested under the key of source tables; the old key was
the printed back-quoted form -/
theorem regress_insert_target_key :
    (insertKey (some "s") "t" == sourceKey (some "s") "t") = true ∧ (insertKey none "t" == sourceKey none "t") = true
      ∧ (insertKeyOld (some "s") "t" == sourceKey (some "s") "t") = false := by decide +kernel

/-- F-C17-4: a name with `/` — the provider is asked, `open` raises `FileNotFoundError`; every request asks and fails again -/
theorem witness_slash :
    results tprov tparse (fresh true) [.get "s/t".toList, .get "s/t".toList] = [.fail .fileNotFound, .fail .fileNotFound]
      ∧ (run tprov tparse (fresh true) [.get "s/t".toList, .get "s/t".toList]).calls = ["s/t".toList, "s/t".toList] := by decide +kernel

/-- F-C17-4 (aliasing): `./a` is saved as `a.sql`; the next process serves it as table `a` without asking the provider -/
theorem witness_dot_slash_alias :
    results tprov tparse (fresh true) [.get "./a".toList, .init true, .get "a".toList]
        = [.ok (tprov "./a".toList), .ok (tprov "./a".toList)]
      ∧ (run tprov tparse (fresh true) [.get "./a".toList, .init true, .get "a".toList]).calls = ["./a".toList] := by decide +kernel

/-- F-C17-5: … and the table `./a` itself is not found on disk by the next process (it is listed as `a`): asked again -/
theorem witness_slash_fetched_again :
    (run tprov tparse (fresh true) [.get "./a".toList, .init true, .get "./a".toList]).calls = ["./a".toList, "./a".toList] := by decide +kernel

/-- F-C17-6 (escape): `../x` is written above the cache directory -/
theorem witness_escape :
    (run tprov tparse (fresh true) [.get "../x".toList]).parent = [("x.sql".toList, tprov "../x".toList)] := by decide +kernel

/-- F-C17-7 (NUL): `ValueError` from `open`, after the provider was asked -/
theorem witness_nul :
    results tprov tparse (fresh true) [.get ['a', '\x00']] = [.fail .valueError]
      ∧ (run tprov tparse (fresh true) [.get ['a', '\x00']]).calls = [['a', '\x00']] := by decide +kernel

end C17
