import MsqProofs.Lemmas.CacheLemmas
/-!
# C17 — schema lookups are minimal, consistently keyed and cache-transparent

Theorems about the state-machine model of `CreateTableStatementGetter` (`MsqModel/Cache.lean`, the code as of /repo 69f92c3),
for every schema provider `prov`, every parser `parse` and EVERY table name (any sequence of Unicode scalar values: `/`, `../`, NUL,
`%`, blanks, non-ASCII, the empty name, `.` and `..` included).  The hypotheses earlier versions of these theorems needed are gone
with the repairs of F-C17-1 (truncated file trusted: the file is now written under a temporary name and renamed — `crash_dirOK` holds
at EVERY crash point), F-C17-2/3 (`.sql` inside a name: only the suffix is removed now), F-C17-8 (carriage return: no newline
translation) and F-C17-4…7 (`Good n` — no `/`, no NUL in the name: the file of a table is now named by the injective encoding
`Cache.enc` = `urllib.parse.quote(name, safe="")`, whose image has no separator and no NUL: `files_stay_inside`,
`names_do_not_collide`); their witnesses became the regression theorems `regress_*`.
-/
namespace C17
open Cache

section
variable {σ : Type} (prov : Name → Text) (parse : Text → Except Err σ)

/-- the result `get_statement` must produce: whatever the provider's text parses to -/
def expected (n : Name) : Res σ :=
  match parse (prov n) with
  | .ok st => .ok st
  | .error e => .fail (.parse e)

/-- consistency of the volatile state with the provider and with the directory -/
structure Inv (s : St σ) : Prop where
  mem : ∀ n st, mget s.mem n = some st → parse (prov n) = .ok st
  disk : s.useDisk = true → ∀ n, n ∈ s.listed → fget s.files (enc n ++ ext) = some (prov n)

/-- restart safety of a directory: every entry that `__init__` reads as table `m` (= the file `<enc m>.sql`) holds the provider's
text for `m` (other entries — temporary files of interrupted runs, foreign files, `*.sql` files whose stem is no canonical encoding —
are never looked at) -/
def DirOK (files : Files) : Prop :=
  ∀ f t m, fget files f = some t → entryName f = some m → t = prov m

theorem finish_expected (s : St σ) (n : Name) :
    (finish parse s n (prov n)).1 = expected prov parse n := by
  unfold finish expected
  cases parse (prov n) <;> rfl

theorem finish_inv (s : St σ) (n : Name) (hI : Inv prov parse s) (_hmiss : mget s.mem n = none) :
    Inv prov parse (finish parse s n (prov n)).2 := by
  unfold finish
  cases hp : parse (prov n) with
  | error e => exact hI
  | ok st =>
    refine ⟨?_, hI.disk⟩
    intro m st' hm
    simp only [mget_append] at hm
    cases hmm : mget s.mem m with
    | some x =>
      rw [hmm] at hm
      injection hm with hm
      subst hm
      exact hI.mem m x hmm
    | none =>
      rw [hmm] at hm
      by_cases hnm : n = m
      · subst hnm
        simp at hm
        subst hm
        exact hp
      · simp [hnm] at hm

theorem finish_frame (s : St σ) (n : Name) (sql : Text) :
    (finish parse s n sql).2.calls = s.calls ∧ (finish parse s n sql).2.useDisk = s.useDisk
      ∧ (finish parse s n sql).2.files = s.files ∧ (finish parse s n sql).2.parent = s.parent
      ∧ (finish parse s n sql).2.listed = s.listed := by
  unfold finish
  cases parse sql <;> simp

/-- closed form of an uninterrupted request -/
theorem get_none_closed (s : St σ) (n : Name) :
    Cache.get prov parse none s n =
      match mget s.mem n with
      | some st => (.ok st, s)
      | none =>
        if s.useDisk then
          if s.listed.contains n then
            match fget s.files (enc n ++ ext) with
            | some t => finish parse s n t
            | none => (.fail .fileNotFound, s)
          else finish parse { s with calls := s.calls ++ [n], listed := n :: s.listed, files := saved s.files n (prov n) } n (prov n)
        else finish parse { s with calls := s.calls ++ [n] } n (prov n) := by
  unfold Cache.get load openTmp
  simp only [resolve_enc, resolveTmp_enc, dies, Bool.false_eq_true, ↓reduceIte, putFile, replaceFile, saved]
  cases mget s.mem n with
  | some st => rfl
  | none =>
    simp only
    split
    · split
      · cases fget s.files (enc n ++ ext) <;> rfl
      · rfl
    · rfl

theorem dirOK_fset_tmp (files : Files) (x : Name) (t : Text) (hD : DirOK prov files) : DirOK prov (fset files (x ++ tmpExt) t) := by
  intro f u m hf hm
  by_cases h : f = x ++ tmpExt
  · subst h
    rw [entryName_tmp] at hm
    cases hm
  · rw [fget_fset_other _ _ _ _ h] at hf
    exact hD f u m hf hm

theorem dirOK_saved (files : Files) (n : Name) (hD : DirOK prov files) : DirOK prov (saved files n (prov n)) := by
  intro f u m hf hm
  by_cases h1 : f = enc n ++ ext
  · subst h1
    rw [fget_saved_final] at hf
    injection hf with hf
    rw [entryName_enc] at hm
    injection hm with hm
    subst hm
    exact hf.symm
  · by_cases h2 : f = enc n ++ ext ++ tmpExt
    · subst h2
      rw [fget_saved_tmp] at hf
      cases hf
    · rw [fget_saved_other _ _ _ _ h1 h2] at hf
      exact hD f u m hf hm

/-- **C17 (cache transparency, one request).**  In a consistent state, for EVERY name: `get_statement` returns what the
provider's text parses to, keeps the state consistent, asks the provider not at all when the name is cached and exactly once
otherwise, and touches nothing else. -/
theorem get_spec (s : St σ) (n : Name) (hI : Inv prov parse s) :
    (Cache.get prov parse none s n).1 = expected prov parse n
      ∧ Inv prov parse (Cache.get prov parse none s n).2
      ∧ (Cache.get prov parse none s n).2.calls = (if cached s n then s.calls else s.calls ++ [n])
      ∧ (Cache.get prov parse none s n).2.useDisk = s.useDisk
      ∧ (Cache.get prov parse none s n).2.parent = s.parent := by
  rw [get_none_closed prov parse s n]
  unfold cached
  obtain ⟨useDisk, mem, listed, files, parent, calls⟩ := s
  cases hm : mget mem n with
  | some st =>
    have := hI.mem n st hm
    simp [expected, this, hI]
  | none =>
    cases useDisk with
    | false =>
      simp only [Bool.false_eq_true, ↓reduceIte, Option.isSome_none, Bool.false_and, Bool.or_self]
      have hfr := finish_frame parse ({ useDisk := false, mem := mem, listed := listed, files := files, parent := parent,
                                         calls := calls ++ [n] } : St σ) n (prov n)
      refine ⟨finish_expected prov parse _ n, ?_, hfr.1, hfr.2.1, hfr.2.2.2.1⟩
      apply finish_inv prov parse _ n _ hm
      exact ⟨hI.mem, fun h => by simp at h⟩
    | true =>
      cases hl : listed.contains n with
      | true =>
        have hmem : n ∈ listed := by simpa using hl
        have hfile := hI.disk rfl n hmem
        simp only at hfile
        simp only [↓reduceIte, hfile, Option.isSome_none, Bool.false_or, Bool.and_self]
        have hfr := finish_frame parse ({ useDisk := true, mem := mem, listed := listed, files := files, parent := parent,
                                           calls := calls } : St σ) n (prov n)
        exact ⟨finish_expected prov parse _ n, finish_inv prov parse _ n hI hm, hfr.1, hfr.2.1, hfr.2.2.2.1⟩
      | false =>
        simp only [Bool.false_eq_true, ↓reduceIte, Option.isSome_none, Bool.false_or, Bool.and_false]
        have hfr := finish_frame parse
          ({ useDisk := true, mem := mem, listed := n :: listed, files := saved files n (prov n),
             parent := parent, calls := calls ++ [n] } : St σ) n (prov n)
        refine ⟨finish_expected prov parse _ n, ?_, hfr.1, hfr.2.1, hfr.2.2.2.1⟩
        apply finish_inv prov parse _ n _ hm
        refine ⟨hI.mem, ?_⟩
        intro _ m hmm
        rcases List.mem_cons.1 hmm with h | h
        · subst h
          exact fget_saved_final _ _ _
        · have g2 := hI.disk rfl m h
          have hne : enc m ++ ext ≠ enc n ++ ext := by
            intro he
            have := file_inj he
            subst this
            have : listed.contains m = true := by simpa using h
            rw [this] at hl
            cases hl
          show fget (saved files n (prov n)) (enc m ++ ext) = some (prov m)
          rw [fget_saved_other _ _ _ _ hne (Ne.symm (tmp_ne_final (enc n) (enc m)))]
          exact g2

/-- the directory stays restart-safe, whatever name is requested -/
theorem get_dirOK (s : St σ) (n : Name) (hD : DirOK prov s.files) :
    DirOK prov (Cache.get prov parse none s n).2.files := by
  rw [get_none_closed prov parse s n]
  obtain ⟨useDisk, mem, listed, files, parent, calls⟩ := s
  cases mget mem n with
  | some st => exact hD
  | none =>
    simp only
    split
    · split
      · cases fget files (enc n ++ ext) with
        | none => exact hD
        | some t =>
          simp only
          rw [(finish_frame parse _ n _).2.2.1]
          exact hD
      · rw [(finish_frame parse _ n _).2.2.1]
        exact dirOK_saved prov files n hD
    · rw [(finish_frame parse _ n _).2.2.1]
      exact hD

/-- **C17 (re-instantiation).**  A new process over a restart-safe directory starts in a consistent state: every listed name is
the name a `*.sql` file was saved under (the decoding of its canonical stem) and the file holds the provider's text. -/
theorem init_inv (useDisk : Bool) (files parent : Files) (calls : List Name) (hD : DirOK prov files) :
    Inv prov parse (init (σ := σ) useDisk files parent calls) := by
  refine ⟨?_, ?_⟩
  · intro n st h
    simp [init, mget] at h
  · intro hd n hn
    have hd' : useDisk = true := hd
    simp only [init, hd', ↓reduceIte, List.mem_filterMap] at hn
    obtain ⟨⟨f, t⟩, hmem, hstrip⟩ := hn
    obtain ⟨t', ht'⟩ := fget_of_mem files f t hmem
    have hcont := hD f t' n ht' hstrip
    show fget files (enc n ++ ext) = some (prov n)
    rw [← entryName_some f n hstrip, ht', hcont]

/-- the operations of a crash-free history (any names) -/
def CrashFree : Op → Bool
  | .init _ => true
  | .get _ => true
  | .crash _ _ => false

theorem step_inv (s : St σ) (o : Op) (ho : CrashFree o = true) (hI : Inv prov parse s) (hD : DirOK prov s.files) :
    Inv prov parse (step prov parse s o) ∧ DirOK prov (step prov parse s o).files := by
  cases o with
  | init b => exact ⟨init_inv prov parse b _ _ _ hD, hD⟩
  | get n => exact ⟨(get_spec prov parse s n hI).2.1, get_dirOK prov parse s n hD⟩
  | crash n c => simp [CrashFree] at ho

/-- **C17 (histories).**  After ANY crash-free history of re-instantiations (with or without a directory) and requests for any
names, started in any consistent state, the state is consistent and the directory is restart-safe — in particular after `init` in
a later process. -/
theorem history_inv (ops : List Op) (hops : ∀ o ∈ ops, CrashFree o = true)
    (s : St σ) (hI : Inv prov parse s) (hD : DirOK prov s.files) :
    Inv prov parse (run prov parse s ops) ∧ DirOK prov (run prov parse s ops).files := by
  induction ops generalizing s with
  | nil => exact ⟨hI, hD⟩
  | cons o r ih =>
    obtain ⟨h1, h2⟩ := step_inv prov parse s o (hops o (by simp)) hI hD
    exact ih (fun o' ho' => hops o' (by simp [ho'])) _ h1 h2

theorem fresh_ok (b : Bool) : Inv prov parse (fresh (σ := σ) b) ∧ DirOK prov (fresh (σ := σ) b).files := by
  refine ⟨init_inv prov parse b [] [] [] ?_, ?_⟩ <;> intro f t m h <;> simp [fresh, init, fget] at h

/-- what the requests of a history must answer: each one what the provider's text parses to, whatever came before -/
def specResults : List Op → List (Res σ)
  | [] => []
  | .init _ :: r => specResults r
  | .get n :: r => expected prov parse n :: specResults r
  | .crash n _ :: r => expected prov parse n :: specResults r

theorem results_spec_from (ops : List Op) (hops : ∀ o ∈ ops, CrashFree o = true)
    (s : St σ) (hI : Inv prov parse s) (hD : DirOK prov s.files) :
    results prov parse s ops = specResults prov parse ops := by
  induction ops generalizing s with
  | nil => rfl
  | cons o r ih =>
    have ho := hops o (by simp)
    obtain ⟨h1, h2⟩ := step_inv prov parse s o ho hI hD
    have hr := ih (fun o' ho' => hops o' (by simp [ho'])) _ h1 h2
    cases o with
    | init b => simpa [results, specResults] using hr
    | get n =>
      simp only [results, specResults]
      rw [(get_spec prov parse s n hI).1, hr]
    | crash n c => simp [CrashFree] at ho

/-- **C17 (cache transparency, histories).**  In every crash-free history, over ALL names, started by a first process over an
empty directory, every request answers what the provider's text parses to — whether it is served from memory, from the directory,
or freshly fetched, in this or an earlier process.  Requesting twice, or after other requests, gives the same answer. -/
theorem results_spec (b : Bool) (ops : List Op) (hops : ∀ o ∈ ops, CrashFree o = true) :
    results prov parse (fresh b) ops = specResults prov parse ops :=
  results_spec_from prov parse ops hops _ (fresh_ok prov parse b).1 (fresh_ok prov parse b).2

theorem cached_iff_warm (s : St σ) (n : Name) : cached s n = s.abs.warm.contains n := by
  unfold cached St.abs
  apply Bool.eq_iff_iff.2
  simp only [Bool.or_eq_true, Bool.and_eq_true, List.contains_iff_mem, List.mem_append]
  rw [mget_isSome_iff]
  cases s.useDisk <;> simp

theorem finish_ok (s : St σ) (n : Name) (sql : Text) (st : σ) (hp : parse sql = .ok st) :
    finish parse s n sql = (.ok st, { s with mem := s.mem ++ [(n, st)] }) := by
  unfold finish
  rw [hp]

/-- **C17 (refinement of the abstract cache).**  When the provider's text parses, one concrete request simulates one request of
`AbsCache`: same answer, same provider call log, same set of warm names. -/
theorem get_refines (s : St σ) (n : Name) (st : σ)
    (hI : Inv prov parse s) (hp : parse (prov n) = .ok st) :
    (Cache.get prov parse none s n).1 = .ok st
      ∧ (Abs.get prov parse s.abs n).1 = .ok st
      ∧ (Cache.get prov parse none s n).2.abs.calls = (Abs.get prov parse s.abs n).2.calls
      ∧ ∀ m, m ∈ (Cache.get prov parse none s n).2.abs.warm ↔ m ∈ (Abs.get prov parse s.abs n).2.warm := by
  obtain ⟨h1, _, h3, _, _⟩ := get_spec prov parse s n hI
  have hres : (Cache.get prov parse none s n).1 = .ok st := by
    rw [h1]
    simp [expected, hp]
  have hw := cached_iff_warm s n
  refine ⟨hres, by simp [Abs.get, hp], ?_, ?_⟩
  · show (Cache.get prov parse none s n).2.calls = _
    rw [h3, hw]
    unfold Abs.get
    cases s.abs.warm.contains n <;> simp [St.abs]
  · intro m
    rw [get_none_closed prov parse s n]
    unfold Abs.get
    rw [← hw]
    unfold cached
    obtain ⟨useDisk, mem, listed, files, parent, calls⟩ := s
    cases hm : mget mem n with
    | some x => simp
    | none =>
      cases useDisk with
      | false =>
        simp only [Bool.false_eq_true, ↓reduceIte, finish_ok parse _ n _ st hp, Option.isSome_none, Bool.false_and, Bool.or_self]
        simp only [St.abs, Bool.false_eq_true, ↓reduceIte, List.append_nil, List.map_append, List.map_cons, List.map_nil,
          List.mem_append, List.mem_cons, List.not_mem_nil, or_false]
        exact Or.comm
      | true =>
        cases hl : listed.contains n with
        | true =>
          have hmem : n ∈ listed := by simpa using hl
          have hfile := hI.disk rfl n hmem
          simp only at hfile
          simp only [↓reduceIte, hfile, finish_ok parse _ n _ st hp, Option.isSome_none, Bool.false_or, Bool.and_self]
          simp only [St.abs, ↓reduceIte, List.map_append, List.map_cons, List.map_nil, List.mem_append, List.mem_cons,
            List.not_mem_nil, or_false]
          constructor
          · rintro ((h | h) | h)
            · exact Or.inl h
            · subst h
              exact Or.inr hmem
            · exact Or.inr h
          · rintro (h | h)
            · exact Or.inl (Or.inl h)
            · exact Or.inr h
        | false =>
          simp only [Bool.false_eq_true, ↓reduceIte, finish_ok parse _ n _ st hp, Option.isSome_none, Bool.false_or, Bool.and_false]
          simp only [St.abs, ↓reduceIte, List.map_append, List.map_cons, List.map_nil, List.mem_append, List.mem_cons,
            List.not_mem_nil, or_false]
          constructor
          · rintro ((h | h) | h | h)
            · exact Or.inr (Or.inl h)
            · exact Or.inl h
            · exact Or.inl h
            · exact Or.inr (Or.inr h)
          · rintro (h | h | h)
            · exact Or.inl (Or.inr h)
            · exact Or.inl (Or.inl h)
            · exact Or.inr (Or.inr h)

/-- **C17 (crash safety).**  A process death at ANY point of a request for ANY name leaves a restart-safe directory: the text is
written under a temporary name that no later process looks at, and appears under its final name only complete
(`os.replace`).  So the next process starts in a consistent state (`init_inv`) and answers every request correctly
(`results_spec_from`).  (Before /repo 4e42ffc this held only outside the window between the truncating `open` and `close`: F-C17-1.) -/
theorem crash_dirOK (s : St σ) (n : Name) (c : Crash) (hD : DirOK prov s.files) :
    DirOK prov (Cache.get prov parse (some c) s n).2.files := by
  unfold Cache.get load openTmp
  simp only [resolve_enc, resolveTmp_enc, putFile, replaceFile]
  obtain ⟨useDisk, mem, listed, files, parent, calls⟩ := s
  have k1 : ∀ t, DirOK prov (fset files (enc n ++ ext ++ tmpExt) t) := fun t => dirOK_fset_tmp prov files (enc n ++ ext) t hD
  have k2 : ∀ t u, DirOK prov (fset (fset files (enc n ++ ext ++ tmpExt) t) (enc n ++ ext ++ tmpExt) u) :=
    fun t u => dirOK_fset_tmp prov _ (enc n ++ ext) u (k1 t)
  have k3 : DirOK prov (fset (fdel (fset (fset files (enc n ++ ext ++ tmpExt) []) (enc n ++ ext ++ tmpExt) (prov n)) (enc n ++ ext ++ tmpExt)) (enc n ++ ext) (prov n)) :=
    dirOK_saved prov files n hD
  cases mget mem n with
  | some st => exact hD
  | none =>
    simp only
    split
    · split
      · cases fget files (enc n ++ ext) with
        | none => exact hD
        | some t =>
          simp only
          rw [(finish_frame parse _ n _).2.2.1]
          exact hD
      · split
        · exact hD
        · split
          · exact k1 _
          · split
            · exact k2 _ _
            · split
              · exact k2 _ _
              · split
                · exact k3
                · rw [(finish_frame parse _ n _).2.2.1]
                  exact k3
    · split
      · exact hD
      · rw [(finish_frame parse _ n _).2.2.1]
        exact hD

/-- … and so EVERY history — any names, re-instantiations, process deaths at arbitrary points — keeps the directory restart-safe -/
theorem history_dirOK_with_crashes (ops : List Op) (s : St σ) (hD : DirOK prov s.files) :
    DirOK prov (run prov parse s ops).files := by
  induction ops generalizing s with
  | nil => exact hD
  | cons o r ih =>
    apply ih
    cases o with
    | init b => exact hD
    | get n => exact get_dirOK prov parse s n hD
    | crash n c => exact crash_dirOK prov parse s n c hD

/-! ## the file names: inside the directory, one per table name -/

/-- **C17 (nothing outside the cache directory).**  For EVERY table name and at EVERY crash point: the cache file and the temporary
file of a request resolve (`os.path.join` + path resolution of the operating system, `Cache.resolveP`) to the entries `<enc n>.sql` and
`<enc n>.sql.tmp` directly IN the cache directory, because the encoded name has no path separator and no NUL; the request leaves
everything above the directory as it was and, inside the directory, touches no entry but these two.
(Before /repo 69f92c3 the name itself was pasted into the path: `../x` was written above the directory — F-C17-6.) -/
theorem files_stay_inside (crash : Option Crash) (s : St σ) (n : Name) :
    resolve s.files n = .inDir (enc n ++ ext) ∧ resolveTmp s.files n = .inDir (enc n ++ ext ++ tmpExt)
      ∧ (∀ x ∈ enc n, x ≠ '/' ∧ x ≠ '\x00')
      ∧ (Cache.get prov parse crash s n).2.parent = s.parent
      ∧ ∀ f, f ≠ enc n ++ ext → f ≠ enc n ++ ext ++ tmpExt → fget (Cache.get prov parse crash s n).2.files f = fget s.files f := by
  refine ⟨resolve_enc _ _, resolveTmp_enc _ _, enc_chars n, ?_⟩
  unfold Cache.get load openTmp
  simp only [resolve_enc, resolveTmp_enc, putFile, replaceFile]
  obtain ⟨useDisk, mem, listed, files, parent, calls⟩ := s
  have k1 : ∀ t f, f ≠ enc n ++ ext → f ≠ enc n ++ ext ++ tmpExt → fget (fset files (enc n ++ ext ++ tmpExt) t) f = fget files f :=
    fun t f _ h2 => fget_fset_other _ _ _ _ h2
  have k2 : ∀ t u f, f ≠ enc n ++ ext → f ≠ enc n ++ ext ++ tmpExt →
      fget (fset (fset files (enc n ++ ext ++ tmpExt) t) (enc n ++ ext ++ tmpExt) u) f = fget files f :=
    fun t u f h1 h2 => by rw [fget_fset_other _ _ _ _ h2, k1 t f h1 h2]
  have k3 : ∀ f, f ≠ enc n ++ ext → f ≠ enc n ++ ext ++ tmpExt →
      fget (fset (fdel (fset (fset files (enc n ++ ext ++ tmpExt) []) (enc n ++ ext ++ tmpExt) (prov n)) (enc n ++ ext ++ tmpExt)) (enc n ++ ext) (prov n)) f
        = fget files f := fun f h1 h2 => fget_saved_other files n (prov n) f h1 h2
  cases mget mem n with
  | some st => exact ⟨rfl, fun _ _ _ => rfl⟩
  | none =>
    simp only
    split
    · split
      · cases fget files (enc n ++ ext) with
        | none => exact ⟨rfl, fun _ _ _ => rfl⟩
        | some t =>
          simp only
          rw [(finish_frame parse _ n _).2.2.1, (finish_frame parse _ n _).2.2.2.1]
          exact ⟨rfl, fun _ _ _ => rfl⟩
      · split
        · exact ⟨rfl, fun _ _ _ => rfl⟩
        · split
          · exact ⟨rfl, k1 _⟩
          · split
            · exact ⟨rfl, k2 _ _⟩
            · split
              · exact ⟨rfl, k2 _ _⟩
              · split
                · exact ⟨rfl, k3⟩
                · rw [(finish_frame parse _ n _).2.2.1, (finish_frame parse _ n _).2.2.2.1]
                  exact ⟨rfl, k3⟩
    · split
      · exact ⟨rfl, fun _ _ _ => rfl⟩
      · rw [(finish_frame parse _ n _).2.2.1, (finish_frame parse _ n _).2.2.2.1]
        exact ⟨rfl, fun _ _ _ => rfl⟩

/-- … over whole histories: no sequence of instantiations, requests and process deaths, for whatever names, changes anything above
the cache directory -/
theorem history_stays_inside (ops : List Op) (s : St σ) : (run prov parse s ops).parent = s.parent := by
  induction ops generalizing s with
  | nil => rfl
  | cons o r ih =>
    show (run prov parse (step prov parse s o) r).parent = s.parent
    rw [ih]
    cases o with
    | init b => rfl
    | get n => exact (files_stay_inside prov parse none s n).2.2.2.1
    | crash n c => exact (files_stay_inside prov parse (some c) s n).2.2.2.1

/-- **C17 (one file per table name).**  The encoding is injective, so two different table names never share a cache file or a
temporary file, no temporary file is any table's cache file, the entry `<enc n>.sql` is read back by `__init__` as table `n` (the
decoding of a canonical stem is the name it was saved under), and an entry is read as table `n` ONLY if it is that file.
(Before /repo 69f92c3: `./a` and `a` shared `a.sql`, and `./a` was listed as `a` — F-C17-4/5.) -/
theorem names_do_not_collide (n m : Name) :
    (enc n = enc m → n = m)
      ∧ (enc n ++ ext = enc m ++ ext → n = m)
      ∧ (enc n ++ ext ++ tmpExt = enc m ++ ext ++ tmpExt → n = m)
      ∧ enc n ++ ext ++ tmpExt ≠ enc m ++ ext
      ∧ dec (enc n) = some n
      ∧ entryName (enc n ++ ext) = some n
      ∧ (∀ f, entryName f = some n → f = enc n ++ ext) :=
  ⟨fun h => enc_injective h, file_inj, fun h => file_inj (List.append_cancel_right h), tmp_ne_final _ _, dec_enc n, entryName_enc n,
   fun f h => entryName_some f n h⟩

theorem mem_of_fget (fs : Files) (f : Name) (t : Text) (h : fget fs f = some t) : (f, t) ∈ fs := by
  induction fs with
  | nil => simp [fget] at h
  | cons p r ih =>
    obtain ⟨g, u⟩ := p
    by_cases hg : g = f
    · subst hg
      simp only [fget, ↓reduceIte] at h
      injection h with h
      subst h
      simp
    · simp only [fget, hg, ↓reduceIte] at h
      exact List.mem_cons_of_mem _ (ih h)

/-- a table whose file is in the directory is listed by the next process (and so is served without asking the provider), whatever its
name: the other half of `init_inv` -/
theorem init_lists_saved (files parent : Files) (calls : List Name) (n : Name) (t : Text) (h : fget files (enc n ++ ext) = some t) :
    n ∈ (init (σ := σ) true files parent calls).listed := by
  simp only [init, ↓reduceIte, List.mem_filterMap]
  exact ⟨(enc n ++ ext, t), mem_of_fget _ _ _ h, entryName_enc n⟩

/-- the operations of a crash-free history in which every process uses the directory -/
def DiskOp : Op → Bool
  | .init b => b
  | .get _ => true
  | .crash _ _ => false

/-- what "asked at most once" rests on: every name the provider was asked for is listed, and every listed name has its file -/
structure Once (s : St σ) : Prop where
  disk : s.useDisk = true
  nodup : s.calls.Nodup
  asked : ∀ n, n ∈ s.calls → n ∈ s.listed
  file : ∀ n, n ∈ s.listed → ∃ t, fget s.files (enc n ++ ext) = some t

theorem once_step (s : St σ) (o : Op) (ho : DiskOp o = true) (hO : Once s) : Once (step prov parse s o) := by
  cases o with
  | crash n c => simp [DiskOp] at ho
  | init b =>
    have hb : b = true := ho
    subst hb
    refine ⟨rfl, hO.nodup, ?_, ?_⟩
    · intro n hn
      obtain ⟨t, ht⟩ := hO.file n (hO.asked n hn)
      exact init_lists_saved s.files s.parent s.calls n t ht
    · intro n hn
      simp only [step, init, ↓reduceIte, List.mem_filterMap] at hn
      obtain ⟨⟨f, t⟩, hmem, he⟩ := hn
      obtain ⟨t', ht'⟩ := fget_of_mem s.files f t hmem
      exact ⟨t', by rw [← entryName_some f n he]; exact ht'⟩
  | get n =>
    show Once (Cache.get prov parse none s n).2
    rw [get_none_closed prov parse s n]
    obtain ⟨useDisk, mem, listed, files, parent, calls⟩ := s
    have hd : useDisk = true := hO.disk
    subst hd
    cases mget mem n with
    | some st => exact hO
    | none =>
      simp only [↓reduceIte]
      cases hl : listed.contains n with
      | true =>
        simp only [↓reduceIte]
        cases fget files (enc n ++ ext) with
        | none => exact hO
        | some t =>
          simp only
          obtain ⟨a, b, c, _, e⟩ := finish_frame parse
            ({ useDisk := true, mem := mem, listed := listed, files := files, parent := parent, calls := calls } : St σ) n t
          exact ⟨b, by rw [a]; exact hO.nodup, by rw [a, e]; exact hO.asked, by rw [e, c]; exact hO.file⟩
      | false =>
        simp only [Bool.false_eq_true, ↓reduceIte]
        have hnl : n ∉ listed := by
          intro hm
          have : listed.contains n = true := by simpa using hm
          rw [this] at hl
          cases hl
        obtain ⟨a, b, c, _, e⟩ := finish_frame parse
          ({ useDisk := true, mem := mem, listed := n :: listed, files := saved files n (prov n), parent := parent,
             calls := calls ++ [n] } : St σ) n (prov n)
        refine ⟨b, ?_, ?_, ?_⟩
        · rw [a]
          have hO2 := hO.nodup
          have hO3 := hO.asked
          simp only at hO2 hO3 ⊢
          rw [List.nodup_append]
          refine ⟨hO2, by simp, ?_⟩
          intro x hx y hy
          simp only [List.mem_cons, List.not_mem_nil, or_false] at hy
          subst hy
          intro hxy
          subst hxy
          exact hnl (hO3 x hx)
        · rw [a, e]
          intro m hm
          rcases List.mem_append.1 hm with h | h
          · exact List.mem_cons_of_mem _ (hO.asked m h)
          · simp only [List.mem_cons, List.not_mem_nil, or_false] at h
            subst h
            exact List.mem_cons_self
        · rw [e, c]
          intro m hm
          rcases List.mem_cons.1 hm with h | h
          · subst h
            exact ⟨prov m, fget_saved_final _ _ _⟩
          · obtain ⟨t, ht⟩ := hO.file m h
            have hne : enc m ++ ext ≠ enc n ++ ext := by
              intro he
              have := file_inj he
              subst this
              exact hnl h
            exact ⟨t, by
              show fget (saved files n (prov n)) (enc m ++ ext) = some t
              rw [fget_saved_other _ _ _ _ hne (Ne.symm (tmp_ne_final (enc n) (enc m)))]
              exact ht⟩

/-- **C17 (minimal across processes).**  In every crash-free history in which every process uses the directory — any number of
re-instantiations, requests for ANY names in any order — the provider is asked AT MOST ONCE per table name over the whole history:
what one process saved, every later process finds.  (Before /repo 69f92c3 false for names with `/`: F-C17-5.) -/
theorem asked_once_across_restarts (ops : List Op) (hops : ∀ o ∈ ops, DiskOp o = true) :
    (run prov parse (fresh (σ := σ) true) ops).calls.Nodup := by
  have key : ∀ (ops : List Op) (s : St σ), (∀ o ∈ ops, DiskOp o = true) → Once s → Once (run prov parse s ops) := by
    intro ops
    induction ops with
    | nil => intro s _ h; exact h
    | cons o r ih =>
      intro s ho h
      exact ih _ (fun o' ho' => ho o' (by simp [ho'])) (once_step prov parse s o (ho o (by simp)) h)
  refine (key ops _ hops ⟨rfl, ?_, ?_, ?_⟩).nodup
  · simp [fresh, init]
  · intro n hn; simp [fresh, init] at hn
  · intro n hn; simp [fresh, init] at hn
end

/-! ## non-vacuity, regression examples and witnesses (kernel-evaluated on a small instance of the model)

`tprov n = "DDL:" ++ n`, `tparse` accepts every non-empty text and returns it. -/

def tprov (n : Name) : Text := "DDL:".toList ++ n
def tparse (t : Text) : Except Err Text := if t.isEmpty then .error .parse else .ok t

/-- non-vacuity of `results_spec`: a history with a memory hit, a disk hit in a second process, a process without directory and
names with schema, dots, back-quotes, `.sql` inside, `/`, `../`, NUL, `%`, blanks and non-ASCII characters is crash-free … -/
example : (([.get "s.t".toList, .get "s.t".toList, .init true, .get "s.t".toList, .get "`a b`".toList, .init false,
    .get "s.t".toList, .init true, .get "a.sql.b".toList, .get "../x".toList, .get ['a', '\x00'], .get "é表%".toList] : List Op).all CrashFree)
      = true := by decide +kernel
/-- … and the provider is asked exactly once per name per cold state in it -/
example : (run tprov tparse (fresh true) [.get "s.t".toList, .get "s.t".toList, .init true, .get "s.t".toList, .get "`a b`".toList,
    .init false, .get "s.t".toList, .init true, .get "a.sql.b".toList, .get "`a b`".toList, .get "../x".toList, .init true, .get "../x".toList]).calls
    = ["s.t".toList, "`a b`".toList, "s.t".toList, "a.sql.b".toList, "../x".toList] := by decide +kernel

/-- regression for F-C17-1 (fixed in /repo 4e42ffc): a process death right after the temporary file was created (step 2), in the
middle of `write` (step 3) or after `close` (step 4) leaves nothing a later process trusts — the table is fetched again and
answered correctly -/
theorem regress_interrupted_save :
    results tprov tparse (fresh true) [.crash "b".toList ⟨2, 0⟩, .init true, .get "b".toList, .crash "c".toList ⟨3, 2⟩, .init true, .get "c".toList,
        .crash "d".toList ⟨4, 0⟩, .init true, .get "d".toList]
      = [.fail .crashed, .ok (tprov "b".toList), .fail .crashed, .ok (tprov "c".toList), .fail .crashed, .ok (tprov "d".toList)] := by
  decide +kernel

/-- … and a death after `os.replace` (step 5) leaves the complete file, which the next process serves without asking again -/
theorem regress_completed_save :
    results tprov tparse (fresh true) [.crash "b".toList ⟨5, 0⟩, .init true, .get "b".toList] = [.fail .crashed, .ok (tprov "b".toList)]
      ∧ (run tprov tparse (fresh true) [.crash "b".toList ⟨5, 0⟩, .init true, .get "b".toList]).calls = ["b".toList] := by decide +kernel

/-- regression for F-C17-2/3 (fixed in /repo 646d98b): a name containing `.sql` is found again by the next process (asked once),
and the name `a.b` is not believed to be on disk (the provider is asked for it) -/
theorem regress_dotsql :
    (run tprov tparse (fresh true) [.get "a.sql.b".toList, .init true, .get "a.sql.b".toList]).calls = ["a.sql.b".toList]
      ∧ results tprov tparse (fresh true) [.get "a.sql.b".toList, .init true, .get "a.b".toList]
          = [.ok (tprov "a.sql.b".toList), .ok (tprov "a.b".toList)] := by decide +kernel

/-- regression for F-C17-8 (fixed in /repo 8f5dd66): a carriage return in the provider's text comes back from the directory unchanged -/
theorem regress_carriage_return :
    results (fun _ => "x\ry".toList) tparse (fresh true) [.get "a".toList, .init true, .get "a".toList]
      = [.ok "x\ry".toList, .ok "x\ry".toList] := by decide +kernel

/-- regression for F-C17-9 (fixed in /repo be71fec): the INSERT target is requested under the key of source tables; the old key was
the printed back-quoted form -/
theorem regress_insert_target_key :
    (insertKey (some "s") "t" == sourceKey (some "s") "t") = true ∧ (insertKey none "t" == sourceKey none "t") = true
      ∧ (insertKeyOld (some "s") "t" == sourceKey (some "s") "t") = false := by decide +kernel

/-- regression for F-C17-4 (fixed in /repo 69f92c3): a name with `/` is saved (as `s%2Ft.sql`) and answered; the second request does not
ask again (before: `FileNotFoundError` from `open` after the provider was asked, on every request) -/
theorem regress_slash :
    results tprov tparse (fresh true) [.get "s/t".toList, .get "s/t".toList, .init true, .get "s/t".toList]
        = [.ok (tprov "s/t".toList), .ok (tprov "s/t".toList), .ok (tprov "s/t".toList)]
      ∧ (run tprov tparse (fresh true) [.get "s/t".toList, .get "s/t".toList, .init true, .get "s/t".toList]).calls = ["s/t".toList]
      ∧ (run tprov tparse (fresh true) [.get "s/t".toList]).files = [("s%2Ft.sql".toList, tprov "s/t".toList)] := by decide +kernel

/-- regression for F-C17-4 (aliasing): `./a` is saved as `.%2Fa.sql`, not as `a.sql`; the next process asks the provider for table `a`
and answers with ITS text (before: table `a` was served the text of `./a` without asking) -/
theorem regress_dot_slash_alias :
    results tprov tparse (fresh true) [.get "./a".toList, .init true, .get "a".toList]
        = [.ok (tprov "./a".toList), .ok (tprov "a".toList)]
      ∧ (run tprov tparse (fresh true) [.get "./a".toList, .init true, .get "a".toList]).calls = ["./a".toList, "a".toList] := by decide +kernel

/-- regression for F-C17-5: … and the table `./a` itself is found on disk by the next process (listed under its own name): asked once -/
theorem regress_slash_found_again :
    (run tprov tparse (fresh true) [.get "./a".toList, .init true, .get "./a".toList]).calls = ["./a".toList]
      ∧ (init (σ := Text) true (run tprov tparse (fresh true) [.get "./a".toList]).files [] []).listed = ["./a".toList] := by decide +kernel

/-- regression for F-C17-6 (escape): `../x` and the absolute name `/x` are written INTO the cache directory (`..%2Fx.sql`, `%2Fx.sql`),
nothing above it -/
theorem regress_escape :
    (run tprov tparse (fresh true) [.get "../x".toList, .get "/x".toList]).parent = []
      ∧ (run tprov tparse (fresh true) [.get "../x".toList, .get "/x".toList]).files
          = [("..%2Fx.sql".toList, tprov "../x".toList), ("%2Fx.sql".toList, tprov "/x".toList)] := by decide +kernel

/-- regression for F-C17-7 (NUL): answered, saved as `a%00.sql`, served from the directory by the next process (before: `ValueError`
from `open` after the provider was asked, on every request) -/
theorem regress_nul :
    results tprov tparse (fresh true) [.get ['a', '\x00'], .init true, .get ['a', '\x00']] = [.ok (tprov ['a', '\x00']), .ok (tprov ['a', '\x00'])]
      ∧ (run tprov tparse (fresh true) [.get ['a', '\x00'], .init true, .get ['a', '\x00']]).calls = [['a', '\x00']] := by decide +kernel

/-- `a%2Fb` and `a/b` are different tables with different files (`a%252Fb.sql`, `a%2Fb.sql`); the empty name, `.` and `..` are the plain
entries `.sql`, `..sql`, `...sql` of the directory -/
theorem regress_percent_and_dots :
    (run tprov tparse (fresh true) [.get "a%2Fb".toList, .get "a/b".toList, .get [], .get ".".toList, .get "..".toList, .init true,
        .get "a/b".toList, .get "a%2Fb".toList, .get [], .get ".".toList, .get "..".toList]).calls
        = ["a%2Fb".toList, "a/b".toList, [], ".".toList, "..".toList]
      ∧ (run tprov tparse (fresh true) [.get "a%2Fb".toList, .get "a/b".toList, .get [], .get ".".toList, .get "..".toList]).files.map (·.1)
        = ["a%252Fb.sql".toList, "a%2Fb.sql".toList, ".sql".toList, "..sql".toList, "...sql".toList] := by decide +kernel

/-- a file of an earlier version whose raw name is not a canonical encoding (`a b.sql`, `é.sql`), a lower-case escape (`a%2fb.sql`), an
incomplete or non-UTF-8 escape and the temporary file of an interrupted run are ignored by `__init__`; the table `a b` is fetched again
and saved as `a%20b.sql`; the legacy file stays untouched -/
theorem regress_legacy_files :
    (init (σ := Text) true [("a b.sql".toList, "old".toList), ("é.sql".toList, []), ("a%2fb.sql".toList, []), ("%2.sql".toList, []),
        ("%FF.sql".toList, []), ("%C0%AF.sql".toList, []), ("q.sql.tmp".toList, []), ("x.sql".toList, tprov "x".toList)] [] []).listed = ["x".toList]
      ∧ (run tprov tparse (init true [("a b.sql".toList, "old".toList)] [] []) [.get "a b".toList]).calls = ["a b".toList]
      ∧ (run tprov tparse (init true [("a b.sql".toList, "old".toList)] [] []) [.get "a b".toList]).files
          = [("a b.sql".toList, "old".toList), ("a%20b.sql".toList, tprov "a b".toList)] := by decide +kernel

/-! `Cache.enc` against values computed by the real `urllib.parse.quote(·, safe="")` (tests; the correspondence compares it on every
history — the `dir=` listing — and on generated names: `QUOTE`, `STEM`) -/
#guard String.ofList (enc "s.t".toList) == "s.t"
#guard String.ofList (enc "a/b".toList) == "a%2Fb"
#guard String.ofList (enc "../x".toList) == "..%2Fx"
#guard String.ofList (enc "/abs".toList) == "%2Fabs"
#guard String.ofList (enc "a%2Fb".toList) == "a%252Fb"
#guard String.ofList (enc "a b".toList) == "a%20b"
#guard String.ofList (enc [Char.ofNat 233, Char.ofNat 34920]) == "%C3%A9%E8%A1%A8"
#guard String.ofList (enc [Char.ofNat 128512]) == "%F0%9F%98%80"
#guard String.ofList (enc [Char.ofNat 97, Char.ofNat 0, Char.ofNat 98]) == "a%00b"
#guard String.ofList (enc "~_-.".toList) == "~_-."
#guard String.ofList (enc "".toList) == ""
#guard String.ofList (enc "`s`.`t`".toList) == "%60s%60.%60t%60"
#guard String.ofList (enc "a\\b".toList) == "a%5Cb"
#guard String.ofList (enc [Char.ofNat 127, Char.ofNat 128, Char.ofNat 2047, Char.ofNat 2048, Char.ofNat 65535, Char.ofNat 65536, Char.ofNat 1114111]) == "%7F%C2%80%DF%BF%E0%A0%80%EF%BF%BF%F0%90%80%80%F4%8F%BF%BF"
#guard (decStem "%F4%8F%BF%BF%20a".toList).map String.ofList == some (String.ofList [Char.ofNat 1114111, ' ', 'a'])
#guard decStem "a%2fb".toList == none && decStem "a b".toList == none && decStem "%C0%AF".toList == none && decStem "%41".toList == none

/-- non-vacuity of `asked_once_across_restarts` -/
example : (([.get "./a".toList, .init true, .get "a".toList, .get "./a".toList, .init true, .get "a".toList] : List Op).all DiskOp) = true := by
  decide +kernel

end C17
