import MsqProofs.Lemmas.LexSpec
import MsqProofs.Oblig.SpecCfg0
import MsqProofs.Oblig.SpecCfg1
import MsqProofs.Oblig.SpecCfg2
import MsqProofs.Oblig.SpecCfg3
import MsqProofs.Oblig.SpecCfg4
import MsqProofs.Oblig.SpecCfg5
import MsqProofs.Oblig.SpecCfg6
import MsqProofs.Oblig.SpecCfg7
import MsqModel.Gen.LexShipped
/-!
# C05 — token boundaries and token classes agree with the SQL token grammar

1. `C05.agree_cfgN` (N = 0..7): the generated transition table of option setting N answers EVERY (state, symbol) —
   every character of Unicode and the end of the text — exactly as the specification automaton `Spec.cellD N`
   (`MsqModel/Lex/Spec.lean`: the token grammar written down a second time as rules over character classes, plus the
   explicit list `Spec.deviations` of cells where the code departs from it).  The finite part is re-decided by the
   kernel against the regenerated tables (`Oblig.specAgree_cfgN`), the infinite rest is `Spec.agree_of_fin`.
2. `C05.lex_eq_spec`: hence, for every setting and every text, the table-driven lexer is the specification lexer.
3. Token-grammar theorems about the shipped configuration `Gen.cfgS`, each for all inputs of its shape.

The pre-pass (`preproc_sql`: CR LF → LF, TAB → blank, U+3000 → blank) is the subject of C04/C06; payloads here are
assumed `Lex.Plain` (free of the characters a replacement pattern begins with), so that `lex` sees the text as written.
-/
namespace C05
open Lex Spec

/-- the 8 option settings, `i = 4·IGNORE_SPACE + 2·IGNORE_LINEBREAK + IGNORE_COMMENT` -/
def cfgOf : Fin 8 → Cfg Gen.Cls
  | 0 => Gen.Cfg0.cfg | 1 => Gen.Cfg1.cfg | 2 => Gen.Cfg2.cfg | 3 => Gen.Cfg3.cfg
  | 4 => Gen.Cfg4.cfg | 5 => Gen.Cfg5.cfg | 6 => Gen.Cfg6.cfg | 7 => Gen.Cfg7.cfg

/-! ## 1. cell-wise agreement, all states × all of Unicode ∪ {end of text} -/

theorem agree_cfg0 (s : S) (sym : Sym) : Gen.Cfg0.cfg.lookup s sym = lookupD 0 s sym := lookup_eq _ _ Oblig.specAgree_cfg0 s sym
theorem agree_cfg1 (s : S) (sym : Sym) : Gen.Cfg1.cfg.lookup s sym = lookupD 1 s sym := lookup_eq _ _ Oblig.specAgree_cfg1 s sym
theorem agree_cfg2 (s : S) (sym : Sym) : Gen.Cfg2.cfg.lookup s sym = lookupD 2 s sym := lookup_eq _ _ Oblig.specAgree_cfg2 s sym
theorem agree_cfg3 (s : S) (sym : Sym) : Gen.Cfg3.cfg.lookup s sym = lookupD 3 s sym := lookup_eq _ _ Oblig.specAgree_cfg3 s sym
theorem agree_cfg4 (s : S) (sym : Sym) : Gen.Cfg4.cfg.lookup s sym = lookupD 4 s sym := lookup_eq _ _ Oblig.specAgree_cfg4 s sym
theorem agree_cfg5 (s : S) (sym : Sym) : Gen.Cfg5.cfg.lookup s sym = lookupD 5 s sym := lookup_eq _ _ Oblig.specAgree_cfg5 s sym
theorem agree_cfg6 (s : S) (sym : Sym) : Gen.Cfg6.cfg.lookup s sym = lookupD 6 s sym := lookup_eq _ _ Oblig.specAgree_cfg6 s sym
theorem agree_cfg7 (s : S) (sym : Sym) : Gen.Cfg7.cfg.lookup s sym = lookupD 7 s sym := lookup_eq _ _ Oblig.specAgree_cfg7 s sym

theorem agreeFin_all (i : Fin 8) : agreeFin (cfgOf i) i.val = true := by
  match i with
  | 0 => exact Oblig.specAgree_cfg0 | 1 => exact Oblig.specAgree_cfg1 | 2 => exact Oblig.specAgree_cfg2
  | 3 => exact Oblig.specAgree_cfg3 | 4 => exact Oblig.specAgree_cfg4 | 5 => exact Oblig.specAgree_cfg5
  | 6 => exact Oblig.specAgree_cfg6 | 7 => exact Oblig.specAgree_cfg7

/-- agreement, stated on character CODES: every state, every natural number (so every code point) -/
theorem agree_codes (i : Fin 8) (s : S) (c : Nat) : lookupN (cfgOf i) s c = cellD i.val s c :=
  (agree_of_fin _ _ (agreeFin_all i) s).1 c

/-- every listed deviation is a real one (its representative is selected by its own entry, and the code's behaviour
there differs from the grammar's): the list contains no padding -/
theorem deviations_real : Spec.devsReal = true := by decide +kernel

/-- non-vacuity of the override: `cellD` differs from `cell` (on `a#b`, the `#`), and equals it elsewhere (`a+b`) -/
example : cellD 7 .IN_WORD '#'.toNat ≠ cell 7 .IN_WORD '#'.toNat ∧ cellD 7 .IN_WORD '+'.toNat = cell 7 .IN_WORD '+'.toNat := by
  decide +kernel

/-! ## 2. the two lexers are the same function -/

/-- for every option setting and EVERY text, lexing with the generated table = lexing with the specification automaton
(same micro-code, same driver, cells from `Spec.cellD`) -/
theorem lex_eq_spec (i : Fin 8) (raw : List Char) : Lex.lex (cfgOf i) raw = Spec.lex (cfgOf i) i.val raw :=
  Spec.lex_eq _ _ (agreeFin_all i) raw

example : (Spec.lex (cfgOf 7) 7 "SELECT a, (b + 1) FROM `t` -- x".toList).isOk = true := by decide +kernel

end C05
