import MsqProofs.Lemmas.LexSpec
import MsqProofs.Oblig.SpecCfg0
import MsqProofs.Oblig.SpecCfg1
import MsqProofs.Oblig.SpecCfg2
import MsqProofs.Oblig.SpecCfg3
import MsqProofs.Oblig.SpecCfg4
import MsqProofs.Oblig.SpecCfg5
import MsqProofs.Oblig.SpecCfg6
import MsqProofs.Oblig.SpecCfg7
import MsqModel.Gen.LexShipped
/-!
# C05 — token boundaries and token classes agree with the SQL token grammar

1. `C05.agree_cfgN` (N = 0..7): the generated transition table of option setting N answers EVERY (state, symbol) —
   every character of Unicode and the end of the text — exactly as the specification automaton `Spec.cellD N`
   (`MsqModel/Lex/Spec.lean`: the token grammar written down a second time as rules over character classes, plus the
   explicit list `Spec.deviations` of cells where the code departs from it).  The finite part is re-decided by the
   kernel against the regenerated tables (`Oblig.specAgree_cfgN`), the infinite rest is `Spec.agree_of_fin`.
2. `C05.lex_eq_spec`: hence, for every setting and every text, the table-driven lexer is the specification lexer.
3. Token-grammar theorems about the shipped configuration `Gen.cfgS`, each for all inputs of its shape.

The pre-pass (`preproc_sql`: CR LF → LF, TAB → blank, U+3000 → blank) is the subject of C04/C06; payloads here are
assumed `Lex.Plain` (free of the characters a replacement pattern begins with), so that `lex` sees the text as written.
-/
namespace C05
open Lex Spec

/-- the 8 option settings, `i = 4·IGNORE_SPACE + 2·IGNORE_LINEBREAK + IGNORE_COMMENT` -/
def cfgOf : Fin 8 → Cfg Gen.Cls
  | 0 => Gen.Cfg0.cfg | 1 => Gen.Cfg1.cfg | 2 => Gen.Cfg2.cfg | 3 => Gen.Cfg3.cfg
  | 4 => Gen.Cfg4.cfg | 5 => Gen.Cfg5.cfg | 6 => Gen.Cfg6.cfg | 7 => Gen.Cfg7.cfg

/-! ## 1. cell-wise agreement, all states × all of Unicode ∪ {end of text} -/

theorem agree_cfg0 (s : S) (sym : Sym) : Gen.Cfg0.cfg.lookup s sym = lookupD 0 s sym := lookup_eq _ _ Oblig.specAgree_cfg0 s sym
theorem agree_cfg1 (s : S) (sym : Sym) : Gen.Cfg1.cfg.lookup s sym = lookupD 1 s sym := lookup_eq _ _ Oblig.specAgree_cfg1 s sym
theorem agree_cfg2 (s : S) (sym : Sym) : Gen.Cfg2.cfg.lookup s sym = lookupD 2 s sym := lookup_eq _ _ Oblig.specAgree_cfg2 s sym
theorem agree_cfg3 (s : S) (sym : Sym) : Gen.Cfg3.cfg.lookup s sym = lookupD 3 s sym := lookup_eq _ _ Oblig.specAgree_cfg3 s sym
theorem agree_cfg4 (s : S) (sym : Sym) : Gen.Cfg4.cfg.lookup s sym = lookupD 4 s sym := lookup_eq _ _ Oblig.specAgree_cfg4 s sym
theorem agree_cfg5 (s : S) (sym : Sym) : Gen.Cfg5.cfg.lookup s sym = lookupD 5 s sym := lookup_eq _ _ Oblig.specAgree_cfg5 s sym
theorem agree_cfg6 (s : S) (sym : Sym) : Gen.Cfg6.cfg.lookup s sym = lookupD 6 s sym := lookup_eq _ _ Oblig.specAgree_cfg6 s sym
theorem agree_cfg7 (s : S) (sym : Sym) : Gen.Cfg7.cfg.lookup s sym = lookupD 7 s sym := lookup_eq _ _ Oblig.specAgree_cfg7 s sym

theorem agreeFin_all (i : Fin 8) : agreeFin (cfgOf i) i.val = true := by
  match i with
  | 0 => exact Oblig.specAgree_cfg0 | 1 => exact Oblig.specAgree_cfg1 | 2 => exact Oblig.specAgree_cfg2
  | 3 => exact Oblig.specAgree_cfg3 | 4 => exact Oblig.specAgree_cfg4 | 5 => exact Oblig.specAgree_cfg5
  | 6 => exact Oblig.specAgree_cfg6 | 7 => exact Oblig.specAgree_cfg7

/-- agreement, stated on character CODES: every state, every natural number (so every code point) -/
theorem agree_codes (i : Fin 8) (s : S) (c : Nat) : lookupN (cfgOf i) s c = cellD i.val s c :=
  (agree_of_fin _ _ (agreeFin_all i) s).1 c

/-- every listed deviation is a real one (its representative is selected by its own entry, and the code's behaviour
there differs from the grammar's): the list contains no padding -/
theorem deviations_real : Spec.devsReal = true := by decide +kernel

/-- non-vacuity of the override: `cellD` differs from `cell` (on `a#b`, the `#`), and equals it elsewhere (`a+b`) -/
example : cellD 7 .IN_WORD '#'.toNat ≠ cell 7 .IN_WORD '#'.toNat ∧ cellD 7 .IN_WORD '+'.toNat = cell 7 .IN_WORD '+'.toNat := by
  decide +kernel

/-! ## 2. the two lexers are the same function -/

/-- for every option setting and EVERY text, lexing with the generated table = lexing with the specification automaton
(same micro-code, same driver, cells from `Spec.cellD`) -/
theorem lex_eq_spec (i : Fin 8) (raw : List Char) : Lex.lex (cfgOf i) raw = Spec.lex (cfgOf i) i.val raw :=
  Spec.lex_eq _ _ (agreeFin_all i) raw

example : (Spec.lex (cfgOf 7) 7 "SELECT a, (b + 1) FROM `t` -- x".toList).isOk = true := by decide +kernel

/-! ## 3. token-grammar theorems about the shipped configuration -/

/-- facts about the generated data that the statements below rely on (`rfl`: re-checked on every regeneration) -/
theorem shipped_code : Gen.cfgS.code = Gen.Cls.code := rfl
theorem shipped_depth : Gen.cfgS.depthLimit = 1 := rfl
theorem shipped_end : Gen.cfgS.endStatus = .END := rfl
theorem shipped_pre : Gen.cfgS.preChain = Gen.preChain := rfl

/-- the class marks of a bare word: `HANDLE_WORD_TO_MARK_HASH.get(source.upper(), NAME)` — the model's own `Marks.word` -/
def wordMark (w : List Char) : Nat := resolveMarks Gen.cfgS.upper Gen.cfgS.wordMarks 0 w (.word Gen.mark_NAME)

/-- a character the pre-pass leaves alone -/
abbrev plain (c : Char) : Bool := Plain Gen.preChain c

/-- lookup of the shipped table on a character, through the specification -/
theorem look {s : S} {c : Char} {o : Op} (h : cellD 7 s c.toNat = some o) : Gen.cfgS.lookup s (.ch c) = some o :=
  (agree_cfg7 s (.ch c)).trans h

theorem lookEnd {s : S} {o : Op} (h : atEndD 7 s = some o) : Gen.cfgS.lookup s .eof = some o :=
  (agree_cfg7 s .eof).trans h

/-- lookup on a whole character class, from a finite check -/
theorem lookClass (s : S) (P : Nat → Bool) (o : Op)
    (h : (ascii.all fun n => !P n || cellD 7 s n == some o) = true)
    (h' : (cellD 7 s other == some o) = true ∨ ∀ n, n ∉ ascii → P n = false)
    (c : Char) (hc : P c.toNat = true) : Gen.cfgS.lookup s (.ch c) = some o :=
  look (cellD_class 7 s P (some o) h h' c.toNat hc)

theorem digit_ascii (n : Nat) (h : n ∉ ascii) : isDigit n = false := by
  cases hd : isDigit n with
  | false => rfl
  | true =>
    refine absurd ((isAscii_iff n).mp ?_) h
    simp only [isDigit, between, Bool.and_eq_true, Nat.ble_eq] at hd
    simp only [isAscii, Bool.or_eq_true, Bool.and_eq_true, Nat.beq_eq, Nat.ble_eq]
    have h0 : '0'.toNat = 48 := by decide
    have h9 : '9'.toNat = 57 := by decide
    omega

theorem digit_plain (c : Char) (h : isDigit c.toNat = true) : plain c = true := by
  have : ∀ p0 : Char, isDigit p0.toNat = false → (p0 != c) = true := by
    intro p0 hp
    cases hb : p0 != c with
    | true => rfl
    | false =>
      have : p0 = c := by simpa using hb
      rw [this, h] at hp; cases hp
  simp only [plain, Plain, Gen.preChain, List.all_cons, List.all_nil, Bool.and_true, Bool.and_eq_true]
  exact ⟨this _ (by decide), this _ (by decide), this _ (by decide)⟩

/-- between tokens: an ignored blank is skipped, the end of the text finishes -/
theorem wait_blank : Gen.cfgS.lookup .WAIT (.ch ' ') = some skip := look (by decide +kernel)
theorem wait_newline : Gen.cfgS.lookup .WAIT (.ch '\n') = some skip := look (by decide +kernel)
theorem wait_end : Gen.cfgS.lookup .WAIT .eof = some Spec.finish := lookEnd (by decide +kernel)

/-! ### integer literals -/

/-- the two states in which the window holds a non-empty string of digits -/
def intSt (q : S) : Prop := q = .AFTER_0 ∨ q = .IN_INT

theorem int_first (c : Char) (h : isDigit c.toNat = true) :
    ∃ q, intSt q ∧ Gen.cfgS.lookup .WAIT (.ch c) = some (addTo q) := by
  by_cases h0 : c = '0'
  · subst h0; exact ⟨.AFTER_0, Or.inl rfl, look (by decide +kernel)⟩
  · refine ⟨.IN_INT, Or.inr rfl, lookClass .WAIT (fun n => isDigit n && !(n =ᶜ '0')) _ (by decide +kernel)
      (Or.inr fun n hn => by simp [digit_ascii n hn]) c ?_⟩
    simp [h, isCh_toNat, h0]

theorem int_next (q : S) (hq : intSt q) (c : Char) (h : isDigit c.toNat = true) :
    Gen.cfgS.lookup q (.ch c) = some (addTo .IN_INT) := by
  rcases hq with rfl | rfl
  · exact lookClass .AFTER_0 isDigit _ (by decide +kernel) (Or.inr digit_ascii) c h
  · exact lookClass .IN_INT isDigit _ (by decide +kernel) (Or.inr digit_ascii) c h

theorem int_run (text : List Char) (ds : List Char) (hd : ∀ c ∈ ds, isDigit c.toNat = true) (q : S) (hq : intSt q)
    (st nw : Nat) (stk : List (List Tok)) :
    ∃ q', intSt q' ∧ feedAllWith (handle Gen.cfgS text) ds ⟨st, nw, q, stk⟩ = .ok ⟨st, nw + ds.length, q', stk⟩ := by
  induction ds generalizing q nw with
  | nil => exact ⟨q, hq, rfl⟩
  | cons c cs ih =>
    have h1 := handle_addTo shipped_code (text := text) (m := ⟨st, nw, q, stk⟩) (int_next q hq c (hd c (by simp)))
    obtain ⟨q', hq', hrun⟩ := ih (fun d hm => hd d (by simp [hm])) .IN_INT (Or.inr rfl) (nw + 1)
    refine ⟨q', hq', ?_⟩
    simp only [feedAllWith, feedWith_adv h1, hrun, List.length_cons]
    congr 2; omega

/-- after the digits `ds` read from the start of the text -/
theorem int_prefix (text : List Char) (ds : List Char) (hne : ds ≠ []) (hd : ∀ c ∈ ds, isDigit c.toNat = true) :
    ∃ q, intSt q ∧ feedAllWith (handle Gen.cfgS text) ds {} = .ok ⟨0, ds.length, q, [[]]⟩ := by
  cases ds with
  | nil => exact absurd rfl hne
  | cons c cs =>
    obtain ⟨q0, hq0, hl⟩ := int_first c (hd c (by simp))
    have h1 := handle_addTo shipped_code (text := text) (m := ({} : Mem)) hl
    obtain ⟨q, hq, hrun⟩ := int_run text cs (fun d hm => hd d (by simp [hm])) q0 hq0 0 1 [[]]
    refine ⟨q, hq, ?_⟩
    simp only [feedAllWith, feedWith_adv h1]
    show feedAllWith (handle Gen.cfgS text) cs ⟨0, 0 + 1, q0, [[]]⟩ = _
    rw [hrun]; simp only [List.length_cons]; congr 2; omega

/-- **C05.int_literal**: every non-empty string of digits lexes to exactly one leaf token, whose source is the whole
string and whose marks are LITERAL|LITERAL_INT — at the end of the text and before a blank alike. -/
theorem int_literal (ds : List Char) (hne : ds ≠ []) (hd : ∀ c ∈ ds, isDigit c.toNat = true) :
    lex Gen.cfgS ds = .ok [.single ds (Gen.mark_LITERAL ||| Gen.mark_LITERAL_INT)] ∧
    lex Gen.cfgS (ds ++ [' ']) = .ok [.single ds (Gen.mark_LITERAL ||| Gen.mark_LITERAL_INT)] := by
  constructor
  · rw [lex_plain _ _ (fun c hc => digit_plain c (hd c hc))]
    obtain ⟨q, hq, hrun⟩ := int_prefix ds ds hne hd
    have he : Gen.cfgS.lookup q .eof = some (emitAtEnd mInt) := by
      rcases hq with rfl | rfl <;> exact lookEnd (by decide +kernel)
    rw [lexText_ok hrun (handle_emitAtEnd shipped_code (m := ⟨0, ds.length, q, [[]]⟩) he rfl)]
    rw [finish_end _ shipped_depth shipped_end, win_all]
    rfl
  · have hp : ∀ c ∈ ds ++ [' '], plain c = true := by
      intro c hc
      rcases List.mem_append.mp hc with h | h
      · exact digit_plain c (hd c h)
      · have : c = ' ' := by simpa using h
        subst this; decide
    rw [lex_plain _ _ hp]
    obtain ⟨q, hq, hrun⟩ := int_prefix (ds ++ [' ']) ds hne hd
    have hb : Gen.cfgS.lookup q (.ch ' ') = some (emitBefore mInt) := by
      rcases hq with rfl | rfl <;> exact look (by decide +kernel)
    have h1 := handle_emitBefore shipped_code (text := ds ++ [' ']) (m := ⟨0, ds.length, q, [[]]⟩) hb rfl
    have h2 := handle_skip shipped_code (text := ds ++ [' '])
      (m := ⟨ds.length, ds.length, .WAIT, [[] ++ [.single (win (ds ++ [' ']) ⟨0, ds.length, q, [[]]⟩ ds.length) mInt]]⟩)
      (sym := .ch ' ') wait_blank
    have hfeed : feedAllWith (handle Gen.cfgS (ds ++ [' '])) (ds ++ [' ']) {} =
        .ok ⟨ds.length + 1, ds.length + 1, .WAIT, [[.single ds mInt]]⟩ := by
      rw [feedAllWith_append_ok hrun, feedAllWith_one, feedWith_retry h1, h2, win_init]
      rfl
    rw [lexText_ok hfeed (handle_finish shipped_code (m := ⟨ds.length + 1, ds.length + 1, .WAIT, [[.single ds mInt]]⟩)
      wait_end)]
    exact finish_end _ shipped_depth shipped_end _ _ _

/-- non-vacuity: `0`, `007` and `42` are such strings; the result is what the kernel computes -/
example : lexesTo (lex Gen.cfgS "42".toList) [.single "42".toList 72] = true ∧
    lexesTo (lex Gen.cfgS "007 ".toList) [.single "007".toList 72] = true ∧
    (∀ c ∈ "007".toList, isDigit c.toNat = true) := by decide +kernel

/-! ### words -/

/-- a character that can be part of a bare word: not a blank, bracket, quote, operator / punctuation character or `#`
(so: letters, digits, `_ $ @ ? : \ { }`, control characters, everything non-ASCII) -/
def wordChar (c : Char) : Bool := isWordChar c.toNat
/-- … and can begin a plain word: not a digit (that begins a number) and not `b B x X` (those may begin `b'01'`, `x'1F'`) -/
def startsWord (c : Char) : Bool := isWordChar c.toNat && !isDigit c.toNat && !isBitPrefix c.toNat && !isHexPrefix c.toNat
/-- the exact side condition of `word_token` -/
def isWord : List Char → Bool
  | [] => false
  | c :: cs => startsWord c && cs.all wordChar
/-- a character at which a word ends: blank, bracket, quote, operator / punctuation — `#` excepted (KNOWN deviation:
the code does not end a word at `#`, see `Spec.deviations`) -/
def endsWord (d : Char) : Bool := isWordEnd d.toNat && !(d.toNat =ᶜ '#')

theorem wordEnd_ascii (n : Nat) (h : n ∉ ascii) : isWordEnd n = false := by
  cases hd : isWordEnd n with
  | false => rfl
  | true =>
    refine absurd ((isAscii_iff n).mp ?_) h
    simp [isWordEnd, isBlank, isBracket, isQuote, isOpChar, oneOf, isCh] at hd
    simp only [isAscii, Bool.or_eq_true, Bool.and_eq_true, Nat.beq_eq, Nat.ble_eq]
    omega

theorem word_first (c : Char) (h : startsWord c = true) : Gen.cfgS.lookup .WAIT (.ch c) = some (addTo .IN_WORD) :=
  lookClass .WAIT (fun n => isWordChar n && !isDigit n && !isBitPrefix n && !isHexPrefix n) _ (by decide +kernel)
    (Or.inl (by decide +kernel)) c h

theorem word_next (c : Char) (h : wordChar c = true) : Gen.cfgS.lookup .IN_WORD (.ch c) = some (addTo .IN_WORD) :=
  lookClass .IN_WORD isWordChar _ (by decide +kernel) (Or.inl (by decide +kernel)) c h

theorem word_stop (d : Char) (h : endsWord d = true) : Gen.cfgS.lookup .IN_WORD (.ch d) = some emitWordBefore :=
  lookClass .IN_WORD (fun n => isWordEnd n && !(n =ᶜ '#')) _ (by decide +kernel)
    (Or.inr fun n hn => by simp [wordEnd_ascii n hn]) d h

/-- reading a word from between tokens: all of it goes into the window -/
theorem word_run (text w : List Char) (hw : isWord w = true) (n : Nat) (stk : List (List Tok)) :
    feedAllWith (handle Gen.cfgS text) w ⟨n, n, .WAIT, stk⟩ = .ok ⟨n, n + w.length, .IN_WORD, stk⟩ := by
  cases w with
  | nil => cases hw
  | cons c cs =>
    simp only [isWord, Bool.and_eq_true, List.all_eq_true] at hw
    have h1 := handle_addTo shipped_code (text := text) (m := ⟨n, n, .WAIT, stk⟩) (word_first c hw.1)
    simp only [feedAllWith, feedWith_adv h1]
    rw [feedAll_loop shipped_code (fun c => wordChar c = true) word_next cs hw.2]
    simp only [List.length_cons]; congr 2; omega

/-- **C05.word_boundary** (maximal munch, both directions): a word that begins between tokens extends over ALL its word
characters and ends EXACTLY at the first character `d` that ends a word: after `w` and `d` the lexer is where it would
be had it read `d` afresh between tokens at that position, with the one token `w` (marks: the model's own `Marks.word`
— keyword table, default NAME) appended to the current frame. -/
theorem word_boundary (pfx w rest : List Char) (d : Char) (hw : isWord w = true) (hd : endsWord d = true)
    (f : List Tok) (fs : List (List Tok)) :
    feedAllWith (handle Gen.cfgS (pfx ++ w ++ d :: rest)) (w ++ [d]) ⟨pfx.length, pfx.length, .WAIT, f :: fs⟩ =
      (match handle Gen.cfgS (pfx ++ w ++ d :: rest)
          ⟨pfx.length + w.length, pfx.length + w.length, .WAIT, (f ++ [.single w (wordMark w)]) :: fs⟩ (.ch d) with
        | .error e => .error e
        | .ok (m, _) => .ok m) := by
  rw [feedAllWith_append_ok (word_run _ w hw _ _), feedAllWith_one]
  have h1 := handle_emitWordBefore shipped_code (text := pfx ++ w ++ d :: rest)
    (m := ⟨pfx.length, pfx.length + w.length, .IN_WORD, f :: fs⟩) (word_stop d hd) rfl
  rw [feedWith_retry h1, win_mid]
  rfl

/-- **C05.word_token**: every word (`isWord`: non-empty, word characters only, not beginning with a digit or `b B x X`)
lexes to exactly one token, whose source is the word and whose marks are the keyword's marks / NAME. -/
theorem word_token (w : List Char) (hw : isWord w = true) (hp : ∀ c ∈ w, plain c = true) :
    lex Gen.cfgS w = .ok [.single w (wordMark w)] := by
  rw [lex_plain _ _ hp]
  have hrun := word_run w w hw 0 [[]]
  have he : Gen.cfgS.lookup .IN_WORD .eof = some emitWordAtEnd := lookEnd (by decide +kernel)
  rw [lexText_ok (m := ⟨0, 0 + w.length, .IN_WORD, [[]]⟩) hrun
    (handle_emitWordAtEnd shipped_code (m := ⟨0, 0 + w.length, .IN_WORD, [[]]⟩) he rfl)]
  rw [finish_end _ shipped_depth shipped_end]
  simp only [Nat.zero_add, win_all]
  rfl

/-- a word that is no keyword is a NAME -/
example : wordMark "tbl_1".toList = Gen.mark_NAME ∧ isWord "tbl_1".toList = true ∧ isWord "naïve_表".toList = true := by
  decide +kernel

/-- maximal munch on `ab+cd`: `ab`, `+`, `cd` (and the hypotheses of `word_boundary` hold of it) -/
example : lexesTo (lex Gen.cfgS "ab+cd".toList) [.single "ab".toList 2, .single "+".toList 0, .single "cd".toList 2] = true ∧
    isWord "ab".toList = true ∧ endsWord '+' = true := by decide +kernel

/-- the side condition is exact in the direction that matters: `#` does not end a word (KNOWN deviation) — `a#b` is one word -/
theorem witness_hash_in_word : lexesTo (lex Gen.cfgS "a#b".toList) [.single "a#b".toList 2] = true := by decide +kernel

/-! ### quoted strings and back-quoted names -/

theorem plain_cons_snoc (q : Char) (p : List Char) (hq : plain q = true) (hp : ∀ c ∈ p, plain c = true) :
    (∀ c ∈ q :: p, plain c = true) ∧ (∀ c ∈ q :: (p ++ [q]), plain c = true) := by
  constructor
  · intro c hc
    rcases List.mem_cons.mp hc with rfl | h
    · exact hq
    · exact hp c h
  · intro c hc
    rcases List.mem_cons.mp hc with rfl | h
    · exact hq
    · rcases List.mem_append.mp h with h | h
      · exact hp c h
      · have : c = q := by simpa using h
        subst this; exact hq

/-- the common shape of the two string kinds: `q` opens (`sIn`), any character but `q` and the backslash is payload,
`q` closes (`sAfter`), and the decision "complete" is taken at the next symbol -/
theorem string_shape (q : Char) (sIn sAfter : S)
    (hopen : Gen.cfgS.lookup .WAIT (.ch q) = some (addTo sIn))
    (hbody : ∀ c : Char, (c ≠ q ∧ c ≠ '\\') → Gen.cfgS.lookup sIn (.ch c) = some (addTo sIn))
    (hclose : Gen.cfgS.lookup sIn (.ch q) = some (addTo sAfter))
    (hend : Gen.cfgS.lookup sAfter .eof = some (emitAtEnd (mString ||| mName)))
    (hopenEnd : Gen.cfgS.lookup sIn .eof = some reject)
    (hq : plain q = true)
    (p : List Char) (hp : ∀ c ∈ p, c ≠ q ∧ c ≠ '\\') (hpl : ∀ c ∈ p, plain c = true) :
    lex Gen.cfgS (q :: (p ++ [q])) = .ok [.single (q :: (p ++ [q])) (Gen.mark_LITERAL ||| Gen.mark_NAME)] ∧
    lex Gen.cfgS (q :: p) = .error .lexical := by
  obtain ⟨hpl1, hpl2⟩ := plain_cons_snoc q p hq hpl
  have hfeed : ∀ text, feedAllWith (handle Gen.cfgS text) (q :: p) {} = .ok ⟨0, 1 + p.length, sIn, [[]]⟩ := by
    intro text
    have h1 := handle_addTo shipped_code (text := text) (m := ({} : Mem)) hopen
    simp only [feedAllWith, feedWith_adv h1]
    exact feedAll_loop shipped_code (fun c => c ≠ q ∧ c ≠ '\\') hbody p hp 0 (0 + 1) [[]] |>.trans (by simp)
  constructor
  · rw [lex_plain _ _ hpl2]
    have h2 := handle_addTo shipped_code (text := q :: (p ++ [q])) (m := ⟨0, 1 + p.length, sIn, [[]]⟩) hclose
    have hall : feedAllWith (handle Gen.cfgS (q :: (p ++ [q]))) (q :: (p ++ [q])) {} =
        .ok ⟨0, 1 + p.length + 1, sAfter, [[]]⟩ := by
      show feedAllWith (handle Gen.cfgS (q :: (p ++ [q]))) ((q :: p) ++ [q]) {} = _
      rw [feedAllWith_append_ok (hfeed _), feedAllWith_one, feedWith_adv h2]
    rw [lexText_ok hall (handle_emitAtEnd shipped_code (m := ⟨0, 1 + p.length + 1, sAfter, [[]]⟩) hend rfl)]
    rw [finish_end _ shipped_depth shipped_end]
    have hw : win (q :: (p ++ [q])) ⟨0, 1 + p.length + 1, sAfter, [[]]⟩ (1 + p.length + 1) = q :: (p ++ [q]) := by
      have : 1 + p.length + 1 = (q :: (p ++ [q])).length := by simp; omega
      rw [this]; exact win_all _ _ _ _
    rw [hw]; rfl
  · rw [lex_plain _ _ hpl1]
    exact lexText_err_eof (hfeed _) (handle_reject shipped_code (m := ⟨0, 1 + p.length, sIn, [[]]⟩) hopenEnd)

theorem ne_of_isCh {c ch : Char} (h : c ≠ ch) : (c.toNat =ᶜ ch) = false := by simp [isCh_toNat, h]

/-- **C05.single_quoted**: for every payload `p` that contains neither the quote nor a backslash, `'p'` is one token
whose source is the whole text, marked LITERAL (and NAME: a HARMLESS deviation, see `Spec.deviations`); the unterminated
`'p` is rejected. -/
theorem single_quoted (p : List Char) (hp : ∀ c ∈ p, c ≠ '\'' ∧ c ≠ '\\') (hpl : ∀ c ∈ p, plain c = true) :
    lex Gen.cfgS ('\'' :: (p ++ ['\''])) = .ok [.single ('\'' :: (p ++ ['\''])) (Gen.mark_LITERAL ||| Gen.mark_NAME)] ∧
    lex Gen.cfgS ('\'' :: p) = .error .lexical :=
  string_shape '\'' .IN_SINGLE_QUOTE .IN_SINGLE_QUOTE_AFTER_27 (look (by decide +kernel))
    (fun c hc => lookClass .IN_SINGLE_QUOTE (fun n => !(n =ᶜ '\'') && !(n =ᶜ '\\')) _ (by decide +kernel)
      (Or.inl (by decide +kernel)) c (by simp [ne_of_isCh hc.1, ne_of_isCh hc.2]))
    (look (by decide +kernel)) (lookEnd (by decide +kernel)) (lookEnd (by decide +kernel)) (by decide) p hp hpl

/-- **C05.double_quoted**: the same for `"p"` -/
theorem double_quoted (p : List Char) (hp : ∀ c ∈ p, c ≠ '"' ∧ c ≠ '\\') (hpl : ∀ c ∈ p, plain c = true) :
    lex Gen.cfgS ('"' :: (p ++ ['"'])) = .ok [.single ('"' :: (p ++ ['"'])) (Gen.mark_LITERAL ||| Gen.mark_NAME)] ∧
    lex Gen.cfgS ('"' :: p) = .error .lexical :=
  string_shape '"' .IN_DOUBLE_QUOTE .IN_DOUBLE_QUOTE_AFTER_22 (look (by decide +kernel))
    (fun c hc => lookClass .IN_DOUBLE_QUOTE (fun n => !(n =ᶜ '"') && !(n =ᶜ '\\')) _ (by decide +kernel)
      (Or.inl (by decide +kernel)) c (by simp [ne_of_isCh hc.1, ne_of_isCh hc.2]))
    (look (by decide +kernel)) (lookEnd (by decide +kernel)) (lookEnd (by decide +kernel)) (by decide) p hp hpl

/-- **C05.back_quoted**: for every payload without a back-quote (a backslash is an ordinary character here), `` `p` `` is
one NAME token whose source is the whole text; the unterminated `` `p `` is rejected. -/
theorem back_quoted (p : List Char) (hp : ∀ c ∈ p, c ≠ '`') (hpl : ∀ c ∈ p, plain c = true) :
    lex Gen.cfgS ('`' :: (p ++ ['`'])) = .ok [.single ('`' :: (p ++ ['`'])) Gen.mark_NAME] ∧
    lex Gen.cfgS ('`' :: p) = .error .lexical := by
  obtain ⟨hpl1, hpl2⟩ := plain_cons_snoc '`' p (by decide) hpl
  have hbody : ∀ c : Char, c ≠ '`' → Gen.cfgS.lookup .IN_BACK_QUOTE (.ch c) = some (addTo .IN_BACK_QUOTE) :=
    fun c hc => lookClass .IN_BACK_QUOTE (fun n => !(n =ᶜ '`')) _ (by decide +kernel) (Or.inl (by decide +kernel)) c
      (by simp [ne_of_isCh hc])
  have hfeed : ∀ text, feedAllWith (handle Gen.cfgS text) ('`' :: p) {} = .ok ⟨0, 1 + p.length, .IN_BACK_QUOTE, [[]]⟩ := by
    intro text
    have h1 := handle_addTo shipped_code (text := text) (m := ({} : Mem)) (q := .IN_BACK_QUOTE) (sym := .ch '`')
      (look (by decide +kernel))
    simp only [feedAllWith, feedWith_adv h1]
    exact feedAll_loop shipped_code (fun c => c ≠ '`') hbody p hp 0 (0 + 1) [[]] |>.trans (by simp)
  constructor
  · rw [lex_plain _ _ hpl2]
    have hclose : Gen.cfgS.lookup .IN_BACK_QUOTE (.ch '`') = some (emitWith mName) := look (by decide +kernel)
    have h2 := handle_emitWith shipped_code (text := '`' :: (p ++ ['`'])) (m := ⟨0, 1 + p.length, .IN_BACK_QUOTE, [[]]⟩)
      hclose rfl
    have hw : win ('`' :: (p ++ ['`'])) ⟨0, 1 + p.length, .IN_BACK_QUOTE, [[]]⟩ (1 + p.length + 1) = '`' :: (p ++ ['`']) := by
      have : 1 + p.length + 1 = ('`' :: (p ++ ['`'])).length := by simp; omega
      rw [this]; exact win_all _ _ _ _
    have hall : feedAllWith (handle Gen.cfgS ('`' :: (p ++ ['`']))) ('`' :: (p ++ ['`'])) {} =
        .ok ⟨1 + p.length + 1, 1 + p.length + 1, .WAIT, [[.single ('`' :: (p ++ ['`'])) mName]]⟩ := by
      show feedAllWith (handle Gen.cfgS ('`' :: (p ++ ['`']))) (('`' :: p) ++ ['`']) {} = _
      rw [feedAllWith_append_ok (hfeed _), feedAllWith_one, feedWith_adv h2]
      show Except.ok (⟨1 + p.length + 1, 1 + p.length + 1, .WAIT,
        [[] ++ [.single (win ('`' :: (p ++ ['`'])) ⟨0, 1 + p.length, .IN_BACK_QUOTE, [[]]⟩ (1 + p.length + 1)) mName]]⟩ : Mem) = _
      rw [hw]
      rfl
    rw [lexText_ok hall (handle_finish shipped_code (m := ⟨_, _, .WAIT, _⟩) wait_end)]
    exact finish_end _ shipped_depth shipped_end _ _ _
  · rw [lex_plain _ _ hpl1]
    have hopenEnd : Gen.cfgS.lookup .IN_BACK_QUOTE .eof = some reject := lookEnd (by decide +kernel)
    exact lexText_err_eof (hfeed _) (handle_reject shipped_code (m := ⟨0, 1 + p.length, .IN_BACK_QUOTE, [[]]⟩) hopenEnd)

/-- non-vacuity: payloads with blanks, operators, comment openers, the other quote kinds and non-ASCII text -/
example : (∀ c ∈ "it`s \"x\" -- /* 表".toList, (c ≠ '\'' ∧ c ≠ '\\') ∧ plain c = true) ∧
    lexesTo (lex Gen.cfgS "'it`s \"x\" -- /* 表'".toList) [.single "'it`s \"x\" -- /* 表'".toList 10] = true ∧
    lexesTo (lex Gen.cfgS "`a b`".toList) [.single "`a b`".toList 2] = true := by decide +kernel

/-! ### comments -/

/-- `closesFrom star p`: reading `p` inside a block comment (`star`: the previous body character was a `*`) meets the
terminator `*/` -/
def closesFrom : Bool → List Char → Bool
  | _, [] => false
  | star, c :: r => (star && c == '/') || closesFrom (c == '*') r
/-- the comment body `p` contains `*/` -/
def hasBlockEnd (p : List Char) : Bool := closesFrom false p

def blkSt (star : Bool) : S := if star then .IN_EXPLAIN_2_AFTER_2A else .IN_EXPLAIN_2

theorem blk_step (star : Bool) (c : Char) (h : (star && c == '/') = false) :
    Gen.cfgS.lookup (blkSt star) (.ch c) = some (addTo (blkSt (c == '*'))) := by
  by_cases hs : c = '*'
  · subst hs
    cases star
    · exact look (by decide +kernel)
    · exact look (by decide +kernel)
  · have hs' : (c == '*') = false := by simpa using hs
    rw [hs']
    cases star with
    | false =>
      exact lookClass .IN_EXPLAIN_2 (fun n => !(n =ᶜ '*')) _ (by decide +kernel) (Or.inl (by decide +kernel)) c
        (by simp [ne_of_isCh hs])
    | true =>
      have hn : c ≠ '/' := by simpa using h
      exact lookClass .IN_EXPLAIN_2_AFTER_2A (fun n => !(n =ᶜ '*') && !(n =ᶜ '/')) _ (by decide +kernel)
        (Or.inl (by decide +kernel)) c (by simp [ne_of_isCh hs, ne_of_isCh hn])

theorem blk_run (text p : List Char) (star : Bool) (h : closesFrom star p = false) (st nw : Nat) (stk : List (List Tok)) :
    ∃ star', feedAllWith (handle Gen.cfgS text) p ⟨st, nw, blkSt star, stk⟩ = .ok ⟨st, nw + p.length, blkSt star', stk⟩ := by
  induction p generalizing star nw with
  | nil => exact ⟨star, rfl⟩
  | cons c cs ih =>
    simp only [closesFrom, Bool.or_eq_false_iff] at h
    have h1 := handle_addTo shipped_code (text := text) (m := ⟨st, nw, blkSt star, stk⟩) (blk_step star c h.1)
    obtain ⟨star', hrun⟩ := ih (c == '*') h.2 (nw + 1)
    refine ⟨star', ?_⟩
    simp only [feedAllWith, feedWith_adv h1, hrun, List.length_cons]
    congr 2; omega

/-- **C05.block_comment_unterminated**: `/*` followed by any text without `*/` is rejected. -/
theorem block_comment_unterminated (p : List Char) (h : hasBlockEnd p = false) (hpl : ∀ c ∈ p, plain c = true) :
    lex Gen.cfgS ('/' :: '*' :: p) = .error .lexical := by
  have hp : ∀ c ∈ '/' :: '*' :: p, plain c = true := by
    intro c hc
    rcases List.mem_cons.mp hc with rfl | hc
    · decide
    · rcases List.mem_cons.mp hc with rfl | hc
      · decide
      · exact hpl c hc
  rw [lex_plain _ _ hp]
  have h1 := handle_addTo shipped_code (text := '/' :: '*' :: p) (m := ({} : Mem)) (q := .AFTER_2F) (sym := .ch '/')
    (look (by decide +kernel))
  have h2 := handle_addTo shipped_code (text := '/' :: '*' :: p) (m := ⟨0, 1, .AFTER_2F, [[]]⟩) (q := .IN_EXPLAIN_2)
    (sym := .ch '*') (look (by decide +kernel))
  obtain ⟨star', hrun⟩ := blk_run ('/' :: '*' :: p) p false h 0 2 [[]]
  have hfeed : feedAllWith (handle Gen.cfgS ('/' :: '*' :: p)) ('/' :: '*' :: p) {} = .ok ⟨0, 2 + p.length, blkSt star', [[]]⟩ := by
    rw [feedAllWith_cons_adv h1, feedAllWith_cons_adv h2]
    exact hrun
  have he : Gen.cfgS.lookup (blkSt star') .eof = some reject := by
    cases star' <;> exact lookEnd (by decide +kernel)
  exact lexText_err_eof hfeed (handle_reject shipped_code (m := ⟨0, 2 + p.length, blkSt star', [[]]⟩) he)

/-- non-vacuity: a body with stars and slashes but no terminator; and with the terminator the comment is removed -/
example : hasBlockEnd "* a / ** b".toList = false ∧ hasBlockEnd "a */".toList = true ∧
    lexesTo (lex Gen.cfgS "/*** a / ** b **/ x".toList) [.single ['x'] 2] = true := by decide +kernel

/-- the shape of a line comment under any table with the generated micro-code: `opener` leads into the comment state,
every character but the line break is body; at the line break the comment is complete and `onBreak` happens -/
theorem line_comment_shape (cfg : Cfg Gen.Cls) (hc : cfg.code = Gen.Cls.code) (hd : cfg.depthLimit = 1)
    (he : cfg.endStatus = .END) (opener p : List Char)
    (hopen : ∀ text, feedAllWith (handle cfg text) opener {} = .ok ⟨0, opener.length, .IN_EXPLAIN_1, [[]]⟩)
    (hbody : ∀ c : Char, c ≠ '\n' → cfg.lookup .IN_EXPLAIN_1 (.ch c) = some (addTo .IN_EXPLAIN_1))
    (hskip : cfg.lookup .WAIT (.ch '\n') = some skip) (hfin : cfg.lookup .WAIT .eof = some Spec.finish)
    (hp : ∀ c ∈ p, c ≠ '\n') :
    (cfg.lookup .IN_EXPLAIN_1 (.ch '\n') = some dropBefore → lexText cfg (opener ++ p ++ ['\n']) = .ok []) ∧
    (cfg.lookup .IN_EXPLAIN_1 (.ch '\n') = some (emitBefore mComment) →
      lexText cfg (opener ++ p ++ ['\n']) = .ok [.single (opener ++ p) Gen.mark_COMMENT]) := by
  have hrun : ∀ text, feedAllWith (handle cfg text) (opener ++ p) {} =
      .ok ⟨0, opener.length + p.length, .IN_EXPLAIN_1, [[]]⟩ := fun text => by
    rw [feedAllWith_append_ok (hopen text)]
    exact feedAll_loop hc (fun c => c ≠ '\n') hbody p hp 0 opener.length [[]]
  constructor
  · intro hnl
    have h1 := handle_dropBefore hc (text := opener ++ p ++ ['\n']) (m := ⟨0, opener.length + p.length, .IN_EXPLAIN_1, [[]]⟩) hnl
    have h2 := handle_skip hc (text := opener ++ p ++ ['\n'])
      (m := ⟨opener.length + p.length, opener.length + p.length, .WAIT, [[]]⟩) (sym := .ch '\n') hskip
    have hfeed : feedAllWith (handle cfg (opener ++ p ++ ['\n'])) (opener ++ p ++ ['\n']) {} =
        .ok ⟨opener.length + p.length + 1, opener.length + p.length + 1, .WAIT, [[]]⟩ := by
      rw [feedAllWith_append_ok (hrun _), feedAllWith_one, feedWith_retry h1, h2]
    rw [lexText_ok hfeed (handle_finish hc (m := ⟨_, _, .WAIT, _⟩) hfin)]
    exact finish_end _ hd he _ _ _
  · intro hnl
    have h1 := handle_emitBefore hc (text := opener ++ p ++ ['\n']) (m := ⟨0, opener.length + p.length, .IN_EXPLAIN_1, [[]]⟩)
      hnl rfl
    have h2 := handle_skip hc (text := opener ++ p ++ ['\n'])
      (m := ⟨opener.length + p.length, opener.length + p.length, .WAIT,
        [[] ++ [.single (win (opener ++ p ++ ['\n']) ⟨0, opener.length + p.length, .IN_EXPLAIN_1, [[]]⟩ (opener.length + p.length)) mComment]]⟩)
      (sym := .ch '\n') hskip
    have hw : win (opener ++ p ++ ['\n']) ⟨0, opener.length + p.length, .IN_EXPLAIN_1, [[]]⟩ (opener.length + p.length) = opener ++ p := by
      have := win_init (opener ++ p) ['\n'] (opener.length + p.length) .IN_EXPLAIN_1 [[]]
      simpa using this
    have hfeed : feedAllWith (handle cfg (opener ++ p ++ ['\n'])) (opener ++ p ++ ['\n']) {} =
        .ok ⟨opener.length + p.length + 1, opener.length + p.length + 1, .WAIT, [[.single (opener ++ p) mComment]]⟩ := by
      rw [feedAllWith_append_ok (hrun _), feedAllWith_one, feedWith_retry h1, h2, hw]
      rfl
    rw [lexText_ok hfeed (handle_finish hc (m := ⟨_, _, .WAIT, _⟩) hfin)]
    exact finish_end _ hd he _ _ _

/-- the configuration that ignores blanks and line breaks but RETAINS comments -/
abbrev cfgKeep : Cfg Gen.Cls := Gen.Cfg6.cfg

theorem look6 {s : S} {c : Char} {o : Op} (h : cellD 6 s c.toNat = some o) : cfgKeep.lookup s (.ch c) = some o :=
  (agree_cfg6 s (.ch c)).trans h

theorem open_dashes (cfg : Cfg Gen.Cls) (hc : cfg.code = Gen.Cls.code)
    (h1 : cfg.lookup .WAIT (.ch '-') = some (addTo .AFTER_2D)) (h2 : cfg.lookup .AFTER_2D (.ch '-') = some (addTo .IN_EXPLAIN_1))
    (text : List Char) : feedAllWith (handle cfg text) ['-', '-'] {} = .ok ⟨0, ['-', '-'].length, .IN_EXPLAIN_1, [[]]⟩ := by
  have e1 := handle_addTo hc (text := text) (m := ({} : Mem)) h1
  have e2 := handle_addTo hc (text := text) (m := ⟨0, 1, .AFTER_2D, [[]]⟩) h2
  rw [feedAllWith_cons_adv e1, feedAllWith_cons_adv e2]; rfl

theorem open_hash (cfg : Cfg Gen.Cls) (hc : cfg.code = Gen.Cls.code)
    (h1 : cfg.lookup .WAIT (.ch '#') = some (addTo .IN_EXPLAIN_1))
    (text : List Char) : feedAllWith (handle cfg text) ['#'] {} = .ok ⟨0, ['#'].length, .IN_EXPLAIN_1, [[]]⟩ := by
  have e1 := handle_addTo hc (text := text) (m := ({} : Mem)) h1
  rw [feedAllWith_cons_adv e1]; rfl

theorem plain_wrap (a p b : List Char) (ha : ∀ c ∈ a, plain c = true) (hp : ∀ c ∈ p, plain c = true)
    (hb : ∀ c ∈ b, plain c = true) : ∀ c ∈ a ++ p ++ b, plain c = true := by
  intro c hc
  rcases List.mem_append.mp hc with h | h
  · rcases List.mem_append.mp h with h | h
    · exact ha c h
    · exact hp c h
  · exact hb c h

/-- **C05.line_comment**: for every `p` without a line break, `--p⏎` and `#p⏎` (so in particular `-- p⏎`) produce no
token under the shipped configuration (comments removed) and exactly one COMMENT token, whose source is the comment
without the line break, under the configuration that retains comments. -/
theorem line_comment (p : List Char) (hp : ∀ c ∈ p, c ≠ '\n') (hpl : ∀ c ∈ p, plain c = true) :
    lex Gen.cfgS ("--".toList ++ p ++ ['\n']) = .ok [] ∧ lex Gen.cfgS ("#".toList ++ p ++ ['\n']) = .ok [] ∧
    lex cfgKeep ("--".toList ++ p ++ ['\n']) = .ok [.single ("--".toList ++ p) Gen.mark_COMMENT] ∧
    lex cfgKeep ("#".toList ++ p ++ ['\n']) = .ok [.single ("#".toList ++ p) Gen.mark_COMMENT] := by
  have hd : ∀ c ∈ "--".toList, plain c = true := by decide
  have hh : ∀ c ∈ "#".toList, plain c = true := by decide
  have hn : ∀ c ∈ ['\n'], plain c = true := by decide
  have body7 : ∀ c : Char, c ≠ '\n' → Gen.cfgS.lookup .IN_EXPLAIN_1 (.ch c) = some (addTo .IN_EXPLAIN_1) :=
    fun c hc => lookClass .IN_EXPLAIN_1 (fun n => !(n =ᶜ '\n')) _ (by decide +kernel) (Or.inl (by decide +kernel)) c
      (by simp [ne_of_isCh hc])
  have body6 : ∀ c : Char, c ≠ '\n' → cfgKeep.lookup .IN_EXPLAIN_1 (.ch c) = some (addTo .IN_EXPLAIN_1) :=
    fun c hc => look6 (cellD_class 6 .IN_EXPLAIN_1 (fun n => !(n =ᶜ '\n')) _ (by decide +kernel)
      (Or.inl (by decide +kernel)) c.toNat (by simp [ne_of_isCh hc]))
  have fin6 : cfgKeep.lookup .WAIT .eof = some Spec.finish := (agree_cfg6 .WAIT .eof).trans (by decide +kernel)
  refine ⟨?_, ?_, ?_, ?_⟩
  · rw [lex_plain _ _ (plain_wrap _ p _ hd hpl hn)]
    exact (line_comment_shape Gen.cfgS shipped_code shipped_depth shipped_end "--".toList p
      (open_dashes _ shipped_code (look (by decide +kernel)) (look (by decide +kernel))) body7 wait_newline wait_end hp).1
      (look (by decide +kernel))
  · rw [lex_plain _ _ (plain_wrap _ p _ hh hpl hn)]
    exact (line_comment_shape Gen.cfgS shipped_code shipped_depth shipped_end "#".toList p
      (open_hash _ shipped_code (look (by decide +kernel))) body7 wait_newline wait_end hp).1 (look (by decide +kernel))
  · rw [lex_plain _ _ (plain_wrap _ p _ hd hpl hn)]
    exact (line_comment_shape cfgKeep rfl rfl rfl "--".toList p
      (open_dashes _ rfl (look6 (by decide +kernel)) (look6 (by decide +kernel))) body6 (look6 (by decide +kernel)) fin6 hp).2
      (look6 (by decide +kernel))
  · rw [lex_plain _ _ (plain_wrap _ p _ hh hpl hn)]
    exact (line_comment_shape cfgKeep rfl rfl rfl "#".toList p
      (open_hash _ rfl (look6 (by decide +kernel))) body6 (look6 (by decide +kernel)) fin6 hp).2 (look6 (by decide +kernel))

example : lexesTo (lex Gen.cfgS "-- a 'b /* c\n".toList) [] = true ∧
    lexesTo (lex cfgKeep "# a 'b\n".toList) [.single "# a 'b".toList 256] = true := by decide +kernel

/-! ### operators and punctuation -/

/-- the multi-character operators and the single-character operators / punctuation of the property -/
def operatorList : List String :=
  ["<=>", "<=", ">=", "<>", "!=", "<<", ">>", "&&", "||",
   "=", "<", ">", "+", "-", "*", "/", "%", "^", "&", "|", "~", "!", ",", ";", "."]

/-- **C05.operators**: each operator, written between two words WITHOUT separators, lexes to exactly: word, that one
operator token (no class marks), word — in particular no multi-character operator is split (maximal munch: `<=>` is
one token, not `<=` `>` or `<` `=>`), and no word swallows an operator character. -/
theorem operators : (operatorList.all fun o =>
    lexesTo (lex Gen.cfgS ("ab".toList ++ o.toList ++ "cd".toList))
      [.single "ab".toList Gen.mark_NAME, .single o.toList Gen.mark_NONE, .single "cd".toList Gen.mark_NAME]) = true := by
  decide +kernel

/-- … and likewise at the very end of the text (an operator may be the last token) and between numbers -/
theorem operators_at_end : (operatorList.all fun o =>
    lexesTo (lex Gen.cfgS ("1".toList ++ o.toList)) [.single "1".toList 72, .single o.toList Gen.mark_NONE] &&
    lexesTo (lex Gen.cfgS ("1".toList ++ o.toList ++ "2".toList))
      [.single "1".toList 72, .single o.toList Gen.mark_NONE, .single "2".toList 72] || o == ".") = true := by
  decide +kernel

/-- the excluded case of `operators_at_end`: a point after an integer continues a decimal literal (`1.` and `1.2` are
one LITERAL_FLOAT token each: the property lists decimal literals in all spellings) -/
example : lexesTo (lex Gen.cfgS "1.".toList) [.single "1.".toList 136] = true ∧
    lexesTo (lex Gen.cfgS "1.2".toList) [.single "1.2".toList 136] = true := by decide +kernel

/-- maximal munch continues after the longest operator: `<=>>` is `<=>` `>`, `<<<` is `<<` `<`, `|||` is `||` `|` -/
example : lexesTo (lex Gen.cfgS "a<=>>b".toList) [.single ['a'] 2, .single "<=>".toList 0, .single ">".toList 0, .single ['b'] 2] = true ∧
    lexesTo (lex Gen.cfgS "a<<<b".toList) [.single ['a'] 2, .single "<<".toList 0, .single "<".toList 0, .single ['b'] 2] = true ∧
    lexesTo (lex Gen.cfgS "a|||b".toList) [.single ['a'] 2, .single "||".toList 0, .single "|".toList 0, .single ['b'] 2] = true := by
  decide +kernel

/-! ### TRUE / FALSE / NULL in any letter case -/

/-- all letter-case variants of a word -/
def caseVariants : List Char → List (List Char)
  | [] => [[]]
  | c :: r => (caseVariants r).flatMap fun v => [c.toLower :: v, c.toUpper :: v]

/-- **C05.literal_words**: every letter-case variant of TRUE (2⁴), FALSE (2⁵), NULL (2⁴) lexes to exactly one token
carrying the LITERAL mark (and not NAME). -/
theorem literal_words : (["TRUE", "FALSE", "NULL"].all fun w =>
    (caseVariants w.toList).all fun v => lexesTo (lex Gen.cfgS v) [.single v Gen.mark_LITERAL]) = true := by
  decide +kernel

example : (caseVariants "TRUE".toList).length = 16 ∧ (caseVariants "FALSE".toList).length = 32 ∧
    "tRuE".toList ∈ caseVariants "TRUE".toList ∧ "null".toList ∈ caseVariants "NULL".toList := by decide +kernel

/-- … via the general theorem: they are words, so `word_token` applies and the marks are the keyword table's -/
example : isWord "nUlL".toList = true ∧ wordMark "nUlL".toList = Gen.mark_LITERAL ∧ wordMark "nul".toList = Gen.mark_NAME := by
  decide +kernel

/-! ### unbalanced brackets -/

theorem plain_of_word_paren : plain '(' = true ∧ plain ')' = true := by decide

/-- **C05.unbalanced_rejected**: for every word `w`, the texts `(w` (bracket never closed) and `w)` (bracket never
opened) are rejected. -/
theorem unbalanced_rejected (w : List Char) (hw : isWord w = true) (hp : ∀ c ∈ w, plain c = true) :
    lex Gen.cfgS ('(' :: w) = .error .lexical ∧ lex Gen.cfgS (w ++ [')']) = .error .lexical := by
  constructor
  · have hpl : ∀ c ∈ '(' :: w, plain c = true := by
      intro c hc
      rcases List.mem_cons.mp hc with rfl | h
      · decide
      · exact hp c h
    rw [lex_plain _ _ hpl]
    have hopen : Gen.cfgS.lookup .WAIT (.ch '(') = some openParen := look (by decide +kernel)
    have h1 := handle_openParen shipped_code (text := '(' :: w) (m := ({} : Mem)) hopen
    have hfeed : feedAllWith (handle Gen.cfgS ('(' :: w)) ('(' :: w) {} = .ok ⟨1, 1 + w.length, .IN_WORD, [[], []]⟩ := by
      rw [feedAllWith_cons_adv h1]
      exact word_run _ w hw 1 [[], []]
    have he : Gen.cfgS.lookup .IN_WORD .eof = some emitWordAtEnd := lookEnd (by decide +kernel)
    rw [lexText_ok hfeed (handle_emitWordAtEnd shipped_code (m := ⟨1, 1 + w.length, .IN_WORD, [[], []]⟩) he rfl)]
    exact finish_open _ shipped_depth shipped_end _ _ _ _ _
  · have hpl : ∀ c ∈ w ++ [')'], plain c = true := by
      intro c hc
      rcases List.mem_append.mp hc with h | h
      · exact hp c h
      · have : c = ')' := by simpa using h
        subst this; decide
    rw [lex_plain _ _ hpl]
    have hstop := word_stop ')' (by decide +kernel)
    have h1 := handle_emitWordBefore shipped_code (text := w ++ [')']) (m := ⟨0, 0 + w.length, .IN_WORD, [[]]⟩) hstop rfl
    have hclose : Gen.cfgS.lookup .WAIT (.ch ')') = some closeParen := look (by decide +kernel)
    have h2 := handle_closeParen_top shipped_code (text := w ++ [')'])
      (m := ⟨0 + w.length, 0 + w.length, .WAIT,
        [[] ++ [.single (win (w ++ [')']) ⟨0, 0 + w.length, .IN_WORD, [[]]⟩ (0 + w.length))
          (resolveMarks Gen.cfgS.upper Gen.cfgS.wordMarks 0 (win (w ++ [')']) ⟨0, 0 + w.length, .IN_WORD, [[]]⟩ (0 + w.length)) (.word 2))]]⟩)
      (sym := .ch ')') hclose rfl
    apply lexText_err_feed
    rw [feedAllWith_append_ok (word_run _ w hw 0 [[]]), feedAllWith_one, feedWith_retry h1, h2]

/-- `r` is the lexical error -/
def rejected (r : Except Err (List Tok)) : Bool := match r with | .error .lexical => true | _ => false

example : rejected (lex Gen.cfgS "(a".toList) = true ∧ rejected (lex Gen.cfgS "a)".toList) = true ∧
    (lex Gen.cfgS "(a)".toList).isOk = true := by decide +kernel

/-! ### decimal, hex and bit literals -/

/-- a literal that runs to the end of the text: `pre` leads into the state `sLoop`, in which every character of class
`P` is taken; at the end of the text the window is emitted with marks `k` -/
theorem lit_at_end (pre : List Char) (sLoop : S) (P : Char → Prop) (k : Nat)
    (hpre : ∀ text, feedAllWith (handle Gen.cfgS text) pre {} = .ok ⟨0, pre.length, sLoop, [[]]⟩)
    (hloop : ∀ c, P c → Gen.cfgS.lookup sLoop (.ch c) = some (addTo sLoop))
    (hend : Gen.cfgS.lookup sLoop .eof = some (emitAtEnd k))
    (body : List Char) (hb : ∀ c ∈ body, P c) (hpl : ∀ c ∈ pre ++ body, plain c = true) :
    lex Gen.cfgS (pre ++ body) = .ok [.single (pre ++ body) k] := by
  rw [lex_plain _ _ hpl]
  have hrun : feedAllWith (handle Gen.cfgS (pre ++ body)) (pre ++ body) {} =
      .ok ⟨0, pre.length + body.length, sLoop, [[]]⟩ := by
    rw [feedAllWith_append_ok (hpre _)]
    exact feedAll_loop shipped_code P hloop body hb 0 pre.length [[]]
  rw [lexText_ok hrun (handle_emitAtEnd shipped_code (m := ⟨0, pre.length + body.length, sLoop, [[]]⟩) hend rfl)]
  rw [finish_end _ shipped_depth shipped_end]
  have hw : win (pre ++ body) ⟨0, pre.length + body.length, sLoop, [[]]⟩ (pre.length + body.length) = pre ++ body := by
    have := win_all (pre ++ body) (pre.length + body.length) sLoop [[]]
    simpa using this
  rw [hw]; rfl

/-- a literal closed by a quote character `q` -/
theorem lit_closed (pre : List Char) (sLoop : S) (P : Char → Prop) (k : Nat) (q : Char)
    (hpre : ∀ text, feedAllWith (handle Gen.cfgS text) pre {} = .ok ⟨0, pre.length, sLoop, [[]]⟩)
    (hloop : ∀ c, P c → Gen.cfgS.lookup sLoop (.ch c) = some (addTo sLoop))
    (hclose : Gen.cfgS.lookup sLoop (.ch q) = some (emitWith k))
    (hopenEnd : Gen.cfgS.lookup sLoop .eof = some reject)
    (body : List Char) (hb : ∀ c ∈ body, P c) (hpl : ∀ c ∈ pre ++ body ++ [q], plain c = true) :
    lex Gen.cfgS (pre ++ body ++ [q]) = .ok [.single (pre ++ body ++ [q]) k] ∧
    lex Gen.cfgS (pre ++ body) = .error .lexical := by
  have hrun : ∀ text, feedAllWith (handle Gen.cfgS text) (pre ++ body) {} =
      .ok ⟨0, pre.length + body.length, sLoop, [[]]⟩ := fun text => by
    rw [feedAllWith_append_ok (hpre _)]
    exact feedAll_loop shipped_code P hloop body hb 0 pre.length [[]]
  constructor
  · rw [lex_plain _ _ hpl]
    have h2 := handle_emitWith shipped_code (text := pre ++ body ++ [q]) (m := ⟨0, pre.length + body.length, sLoop, [[]]⟩)
      hclose rfl
    have hw : win (pre ++ body ++ [q]) ⟨0, pre.length + body.length, sLoop, [[]]⟩ (pre.length + body.length + 1) =
        pre ++ body ++ [q] := by
      have hlen : pre.length + body.length + 1 = (pre ++ body ++ [q]).length := by simp; omega
      rw [hlen]; exact win_all _ _ _ _
    have hall : feedAllWith (handle Gen.cfgS (pre ++ body ++ [q])) (pre ++ body ++ [q]) {} =
        .ok ⟨pre.length + body.length + 1, pre.length + body.length + 1, .WAIT, [[.single (pre ++ body ++ [q]) k]]⟩ := by
      rw [feedAllWith_append_ok (hrun _), feedAllWith_one, feedWith_adv h2]
      show Except.ok (⟨pre.length + body.length + 1, pre.length + body.length + 1, .WAIT,
        [[] ++ [.single (win (pre ++ body ++ [q]) ⟨0, pre.length + body.length, sLoop, [[]]⟩ (pre.length + body.length + 1)) k]]⟩ : Mem) = _
      rw [hw]; rfl
    rw [lexText_ok hall (handle_finish shipped_code (m := ⟨_, _, .WAIT, _⟩) wait_end)]
    exact finish_end _ shipped_depth shipped_end _ _ _
  · rw [lex_plain _ _ (fun c hc => hpl c (by simp only [List.mem_append] at hc ⊢; exact Or.inl hc))]
    exact lexText_err_eof (hrun _) (handle_reject shipped_code (m := ⟨0, pre.length + body.length, sLoop, [[]]⟩) hopenEnd)

theorem two_steps (a b : Char) (s1 s2 : S) (h1 : Gen.cfgS.lookup .WAIT (.ch a) = some (addTo s1))
    (h2 : Gen.cfgS.lookup s1 (.ch b) = some (addTo s2)) (text : List Char) :
    feedAllWith (handle Gen.cfgS text) [a, b] {} = .ok ⟨0, [a, b].length, s2, [[]]⟩ := by
  have e1 := handle_addTo shipped_code (text := text) (m := ({} : Mem)) h1
  have e2 := handle_addTo shipped_code (text := text) (m := ⟨0, 1, s1, [[]]⟩) h2
  rw [feedAllWith_cons_adv e1, feedAllWith_cons_adv e2]; rfl

theorem hex_ascii (n : Nat) (h : n ∉ ascii) : isHexDigit n = false := by
  cases hd : isHexDigit n with
  | false => rfl
  | true =>
    refine absurd ((isAscii_iff n).mp ?_) h
    simp only [isHexDigit, isDigit, between, Bool.or_eq_true, Bool.and_eq_true, Nat.ble_eq] at hd
    simp only [isAscii, Bool.or_eq_true, Bool.and_eq_true, Nat.beq_eq, Nat.ble_eq]
    have : '0'.toNat = 48 ∧ '9'.toNat = 57 ∧ 'A'.toNat = 65 ∧ 'F'.toNat = 70 ∧ 'a'.toNat = 97 ∧ 'f'.toNat = 102 := by decide
    omega

theorem bit_ascii (n : Nat) (h : n ∉ ascii) : isBit n = false := by
  cases hd : isBit n with
  | false => rfl
  | true =>
    refine absurd ((isAscii_iff n).mp ?_) h
    simp only [isBit, isCh, Bool.or_eq_true, Nat.beq_eq] at hd
    simp only [isAscii, Bool.or_eq_true, Bool.and_eq_true, Nat.beq_eq, Nat.ble_eq]
    have : '0'.toNat = 48 ∧ '1'.toNat = 49 := by decide
    omega

theorem hex_plain (c : Char) (h : isHexDigit c.toNat = true) : plain c = true := by
  have : ∀ p0 : Char, isHexDigit p0.toNat = false → (p0 != c) = true := by
    intro p0 hp
    cases hb : p0 != c with
    | true => rfl
    | false =>
      have : p0 = c := by simpa using hb
      rw [this, h] at hp; cases hp
  simp only [plain, Plain, Gen.preChain, List.all_cons, List.all_nil, Bool.and_true, Bool.and_eq_true]
  exact ⟨this _ (by decide), this _ (by decide), this _ (by decide)⟩

theorem bit_hex (n : Nat) (h : isBit n = true) : isHexDigit n = true := by
  simp only [isBit, isCh, Bool.or_eq_true, Nat.beq_eq] at h
  rcases h with rfl | rfl <;> decide

theorem plain_app {a b : List Char} (ha : ∀ c ∈ a, plain c = true) (hb : ∀ c ∈ b, plain c = true) :
    ∀ c ∈ a ++ b, plain c = true := by
  intro c hc
  rcases List.mem_append.mp hc with h | h
  · exact ha c h
  · exact hb c h

/-- **C05.decimal_literal**: digits, a point, digits (possibly none: `1.` is a decimal literal) lex to exactly one
LITERAL|LITERAL_FLOAT token. -/
theorem decimal_literal (ds fs : List Char) (hne : ds ≠ []) (hd : ∀ c ∈ ds, isDigit c.toNat = true)
    (hf : ∀ c ∈ fs, isDigit c.toNat = true) :
    lex Gen.cfgS (ds ++ ['.'] ++ fs) = .ok [.single (ds ++ ['.'] ++ fs) (Gen.mark_LITERAL ||| Gen.mark_LITERAL_FLOAT)] := by
  have hpre : ∀ text, feedAllWith (handle Gen.cfgS text) (ds ++ ['.']) {} = .ok ⟨0, (ds ++ ['.']).length, .IN_FLOAT, [[]]⟩ := by
    intro text
    obtain ⟨q, hq, hrun⟩ := int_prefix text ds hne hd
    have hdot : Gen.cfgS.lookup q (.ch '.') = some (addTo .IN_FLOAT) := by
      rcases hq with rfl | rfl <;> exact look (by decide +kernel)
    have h1 := handle_addTo shipped_code (text := text) (m := ⟨0, ds.length, q, [[]]⟩) hdot
    rw [feedAllWith_append_ok hrun, feedAllWith_one, feedWith_adv h1]
    simp
  exact lit_at_end (ds ++ ['.']) .IN_FLOAT (fun c => isDigit c.toNat = true) _ hpre
    (fun c hc => lookClass .IN_FLOAT isDigit _ (by decide +kernel) (Or.inr digit_ascii) c hc)
    (lookEnd (by decide +kernel)) fs hf
    (plain_app (plain_app (fun c hc => digit_plain c (hd c hc)) (by decide)) (fun c hc => digit_plain c (hf c hc)))

/-- **C05.hex_literal**: `0x` + hex digits is one LITERAL|LITERAL_HEX token; so are `x'…'`, `X'…'`, `x"…"`, `X"…"` around
hex digits, and the unterminated forms of the latter are rejected.  (KNOWN: the digits may be none — `0x` alone is
accepted as a literal, see `Spec.notExpressible`.) -/
theorem hex_literal (hs : List Char) (hh : ∀ c ∈ hs, isHexDigit c.toNat = true) :
    lex Gen.cfgS ("0x".toList ++ hs) = .ok [.single ("0x".toList ++ hs) (Gen.mark_LITERAL ||| Gen.mark_LITERAL_HEX)] ∧
    (∀ x ∈ ['x', 'X'], ∀ q ∈ ['\'', '"'],
      lex Gen.cfgS ([x, q] ++ hs ++ [q]) = .ok [.single ([x, q] ++ hs ++ [q]) (Gen.mark_LITERAL ||| Gen.mark_LITERAL_HEX)] ∧
      lex Gen.cfgS ([x, q] ++ hs) = .error .lexical) := by
  have hpl : ∀ c ∈ hs, plain c = true := fun c hc => hex_plain c (hh c hc)
  constructor
  · exact lit_at_end "0x".toList .IN_HEX_LITERAL_AFTER_0X (fun c => isHexDigit c.toNat = true) _
      (two_steps '0' 'x' .AFTER_0 _ (look (by decide +kernel)) (look (by decide +kernel)))
      (fun c hc => lookClass .IN_HEX_LITERAL_AFTER_0X isHexDigit _ (by decide +kernel) (Or.inr hex_ascii) c hc)
      (lookEnd (by decide +kernel)) hs hh (plain_app (by decide) hpl)
  · intro x hx q hq
    have hsq := fun c hc => lookClass .IN_HEX_LITERAL_OF_SINGLE_QUOTE isHexDigit (addTo .IN_HEX_LITERAL_OF_SINGLE_QUOTE)
      (by decide +kernel) (Or.inr hex_ascii) c hc
    have hdq := fun c hc => lookClass .IN_HEX_LITERAL_OF_DOUBLE_QUOTE isHexDigit (addTo .IN_HEX_LITERAL_OF_DOUBLE_QUOTE)
      (by decide +kernel) (Or.inr hex_ascii) c hc
    simp only [List.mem_cons, List.mem_nil_iff, or_false] at hx hq
    rcases hx with rfl | rfl <;> rcases hq with rfl | rfl
    · exact lit_closed ['x', '\''] .IN_HEX_LITERAL_OF_SINGLE_QUOTE (fun c => isHexDigit c.toNat = true) _ '\''
        (two_steps 'x' '\'' .AFTER_X _ (look (by decide +kernel)) (look (by decide +kernel))) hsq
        (look (by decide +kernel)) (lookEnd (by decide +kernel)) hs hh (plain_app (plain_app (by decide) hpl) (by decide))
    · exact lit_closed ['x', '"'] .IN_HEX_LITERAL_OF_DOUBLE_QUOTE (fun c => isHexDigit c.toNat = true) _ '"'
        (two_steps 'x' '"' .AFTER_X _ (look (by decide +kernel)) (look (by decide +kernel))) hdq
        (look (by decide +kernel)) (lookEnd (by decide +kernel)) hs hh (plain_app (plain_app (by decide) hpl) (by decide))
    · exact lit_closed ['X', '\''] .IN_HEX_LITERAL_OF_SINGLE_QUOTE (fun c => isHexDigit c.toNat = true) _ '\''
        (two_steps 'X' '\'' .AFTER_X _ (look (by decide +kernel)) (look (by decide +kernel))) hsq
        (look (by decide +kernel)) (lookEnd (by decide +kernel)) hs hh (plain_app (plain_app (by decide) hpl) (by decide))
    · exact lit_closed ['X', '"'] .IN_HEX_LITERAL_OF_DOUBLE_QUOTE (fun c => isHexDigit c.toNat = true) _ '"'
        (two_steps 'X' '"' .AFTER_X _ (look (by decide +kernel)) (look (by decide +kernel))) hdq
        (look (by decide +kernel)) (lookEnd (by decide +kernel)) hs hh (plain_app (plain_app (by decide) hpl) (by decide))

/-- **C05.bit_literal**: `0b` + binary digits is one LITERAL|LITERAL_BIT token; so are `b'…'`, `B'…'`, `b"…"`, `B"…"`
around binary digits, and the unterminated forms of the latter are rejected. -/
theorem bit_literal (bs : List Char) (hb : ∀ c ∈ bs, isBit c.toNat = true) :
    lex Gen.cfgS ("0b".toList ++ bs) = .ok [.single ("0b".toList ++ bs) (Gen.mark_LITERAL ||| Gen.mark_LITERAL_BIT)] ∧
    (∀ x ∈ ['b', 'B'], ∀ q ∈ ['\'', '"'],
      lex Gen.cfgS ([x, q] ++ bs ++ [q]) = .ok [.single ([x, q] ++ bs ++ [q]) (Gen.mark_LITERAL ||| Gen.mark_LITERAL_BIT)] ∧
      lex Gen.cfgS ([x, q] ++ bs) = .error .lexical) := by
  have hpl : ∀ c ∈ bs, plain c = true := fun c hc => hex_plain c (bit_hex _ (hb c hc))
  constructor
  · exact lit_at_end "0b".toList .IN_BIT_LITERAL_AFTER_0B (fun c => isBit c.toNat = true) _
      (two_steps '0' 'b' .AFTER_0 _ (look (by decide +kernel)) (look (by decide +kernel)))
      (fun c hc => lookClass .IN_BIT_LITERAL_AFTER_0B isBit _ (by decide +kernel) (Or.inr bit_ascii) c hc)
      (lookEnd (by decide +kernel)) bs hb (plain_app (by decide) hpl)
  · intro x hx q hq
    have hsq := fun c hc => lookClass .IN_BIT_LITERAL_OF_SINGLE_QUOTE isBit (addTo .IN_BIT_LITERAL_OF_SINGLE_QUOTE)
      (by decide +kernel) (Or.inr bit_ascii) c hc
    have hdq := fun c hc => lookClass .IN_BIT_LITERAL_OF_DOUBLE_QUOTE isBit (addTo .IN_BIT_LITERAL_OF_DOUBLE_QUOTE)
      (by decide +kernel) (Or.inr bit_ascii) c hc
    simp only [List.mem_cons, List.mem_nil_iff, or_false] at hx hq
    rcases hx with rfl | rfl <;> rcases hq with rfl | rfl
    · exact lit_closed ['b', '\''] .IN_BIT_LITERAL_OF_SINGLE_QUOTE (fun c => isBit c.toNat = true) _ '\''
        (two_steps 'b' '\'' .AFTER_B _ (look (by decide +kernel)) (look (by decide +kernel))) hsq
        (look (by decide +kernel)) (lookEnd (by decide +kernel)) bs hb (plain_app (plain_app (by decide) hpl) (by decide))
    · exact lit_closed ['b', '"'] .IN_BIT_LITERAL_OF_DOUBLE_QUOTE (fun c => isBit c.toNat = true) _ '"'
        (two_steps 'b' '"' .AFTER_B _ (look (by decide +kernel)) (look (by decide +kernel))) hdq
        (look (by decide +kernel)) (lookEnd (by decide +kernel)) bs hb (plain_app (plain_app (by decide) hpl) (by decide))
    · exact lit_closed ['B', '\''] .IN_BIT_LITERAL_OF_SINGLE_QUOTE (fun c => isBit c.toNat = true) _ '\''
        (two_steps 'B' '\'' .AFTER_B _ (look (by decide +kernel)) (look (by decide +kernel))) hsq
        (look (by decide +kernel)) (lookEnd (by decide +kernel)) bs hb (plain_app (plain_app (by decide) hpl) (by decide))
    · exact lit_closed ['B', '"'] .IN_BIT_LITERAL_OF_DOUBLE_QUOTE (fun c => isBit c.toNat = true) _ '"'
        (two_steps 'B' '"' .AFTER_B _ (look (by decide +kernel)) (look (by decide +kernel))) hdq
        (look (by decide +kernel)) (lookEnd (by decide +kernel)) bs hb (plain_app (plain_app (by decide) hpl) (by decide))

/-- non-vacuity, and the marks as numbers: FLOAT 136, HEX 24, BIT 40 -/
example : lexesTo (lex Gen.cfgS "3.14".toList) [.single "3.14".toList 136] = true ∧
    lexesTo (lex Gen.cfgS "0x1fA".toList) [.single "0x1fA".toList 24] = true ∧
    lexesTo (lex Gen.cfgS "X\"1F\"".toList) [.single "X\"1F\"".toList 24] = true ∧
    lexesTo (lex Gen.cfgS "b'0110'".toList) [.single "b'0110'".toList 40] = true ∧
    lexesTo (lex Gen.cfgS "0b01".toList) [.single "0b01".toList 40] = true ∧
    rejected (lex Gen.cfgS "x'1F".toList) = true ∧ rejected (lex Gen.cfgS "x'1G'".toList) = true := by decide +kernel

/-- KNOWN departures that are not cells of the automaton (`Spec.notExpressible`), exhibited on the model: `.5` is two
tokens, `1e5` is a NAME word, `0x` without digits is a hex literal, and the bracket stack is untyped (`(a]`) -/
theorem witness_not_expressible :
    lexesTo (lex Gen.cfgS ".5".toList) [.single ['.'] 0, .single ['5'] 72] = true ∧
    lexesTo (lex Gen.cfgS "1e5".toList) [.single "1e5".toList 2] = true ∧
    lexesTo (lex Gen.cfgS "0x".toList) [.single "0x".toList 24] = true ∧
    rejected (lex Gen.cfgS "1.5e3".toList) = true ∧
    lexesTo (lex Gen.cfgS "(a]".toList) [.group .slice [.single ['a'] 2] 512] = true := by decide +kernel

end C05
