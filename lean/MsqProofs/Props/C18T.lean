import MsqProofs.Lemmas.TDdlMain
import MsqProofs.Props.C18
/-!
# C18 / C03 / C01 — T-parse for CREATE TABLE as the MySQL and Hive printers emit it; print for Hive → parse → same schema view

**Token-level printer** `TD.toksCreate d c` (`MsqProofs/Lemmas/TDdl0.lean`): for `d = MYSQL` what `PR.prCreateMysql c` prints, for every other
dialect what `PR.prCreateHive c` prints (the printer model serves HIVE only), as the tokens the lexer makes of the text: `CREATE TABLE
[IF NOT EXISTS]`, ONE back-quoted token for the (schema-qualified) table name, one bracket group with the comma-separated lines, the
table options.  The link `lex (prStmt d (.createTable c)) = toksCreate d c` is the lexer's business and is NOT proved; `#guard`s at the end
check it by compiled evaluation on concrete tables (comments with quotes inside, zero-valued options, names needing back-quotes,
schema-qualified names, every option).

**Fragment** `TD.FragCreate d c : Bool`:
* table name: the one back-quoted token `schema.name` is split into the same schema and table (`tblOK`; excludes F-C18-3, dots inside
  the parts); `IF NOT EXISTS` free;
* columns (`colOK`): the back-quoted name reads back (`nameOK`), ANY type word with no parameters or a parameter list of expression-fragment
  trees, each bracketed by the printer when above the compute level (integers in practice; any number of parameters — 0, 1, 2, …),
  for MySQL EVERY attribute of `prDefCol` in the printer's order: UNSIGNED, ZEROFILL, CHARACTER SET s, COLLATE s,
  GENERATED ALWAYS AS (e) VIRTUAL|STORED, NULL, NOT NULL, AUTO_INCREMENT, DEFAULT e, ON UPDATE e (`e` any tree of the C02 expression
  fragment, bracketed by the printer when above the compute level), COMMENT s; for the Hive rendering only COMMENT (the Hive printer writes nothing else:
  the other attributes must be unset — see `hiveProj` for tables that have them), and parameters only where the Hive printer keeps them;
* MySQL: `PRIMARY KEY (cols)`, `UNIQUE KEY n (cols)`*, `KEY n (cols)`*, `FULLTEXT KEY n (cols)`* with prefix lengths `(n)`, `USING m`,
  `COMMENT s`, `KEY_BLOCK_SIZE=n`; `CONSTRAINT n FOREIGN KEY (cols) REFERENCES t (cols) [ON DELETE a] [ON UPDATE a]`* with the four actions
  the parser knows; options ENGINE, AUTO_INCREMENT, DEFAULT CHARSET, COLLATE, ROW_FORMAT, STATS_PERSISTENT, COMMENT; none of the
  Hive-only fields — i.e. EVERYTHING the MySQL printer can write;
* Hive: table COMMENT, PARTITIONED BY (cols), ROW FORMAT SERDE, ROW FORMAT DELIMITED FIELDS TERMINATED BY, STORED AS INPUTFORMAT,
  STORED AS TEXTFILE, OUTPUTFORMAT, LOCATION, TBLPROPERTIES (k=v, …); none of the keys and MySQL-only options; a blank-separated option
  value is not the token `=` (`valOK`);
* no line of the bracket (resp. of a parameter / partition / property list) is empty or has a `,` at its top level (`segsOK`, a check on the
  printed tokens: it fails only for raw strings that are themselves a comma).
F-C08-4 (a repeated attribute) cannot occur in a printed rendering (each attribute is printed once); F-C08-5 (a bracket as a column name)
is excluded by the back-quoted name token; F-C18-1/2 concern `change_type`, not printing (`convert_round_trip` takes its result).

**Theorems** (explicit fuel `20 * sizeL tokens + 2`, every dialect, every continuation `rest` that is empty or starts with `;`):
* `C03.tcreate` : `pStatement d fuel (toksCreate d c ++ rest) = ok (createTable c, rest without its leading ';')` — the `;` is swallowed
  by `_parse_create_table_statement` itself (`parser.py:2017`), so `rest' = (moveStr rest ";").2`; `tcreate_entry_fuel` (the fuel of the
  public entry points), `tcreate_statements` (through the loop of `parse_statements`, with or without the final `;`);
* `C03.create_slots` : every component of the parsed statement is the printed one (columns in order, each key list, each option);
  `C03.rendering_determines_create` : two fragment tables with the same rendering are equal;
* `C01.create_round_trip_tokens` : `pStatement d fuel (toksCreate d c) = ok (createTable c, [])`;
* `C18.toks_hiveProj` : the Hive rendering of ANY table is the Hive rendering of its projection `hiveProj c` (MySQL-only attributes,
  keys and options dropped, parameters kept only for DECIMAL / VARCHAR / CHAR); `C18.view_hiveProj` : `view (hiveProj c) = (view c).hive`;
* `C18.convert_round_trip` : `changeTypeT Gen.mysqlToHive rp c = ok c'` → `FragCreate HIVE (hiveProj c')` →
  `pStatement HIVE fuel (toksCreate HIVE c' ++ rest) = ok (createTable (hiveProj c'), …)`;
* `C18.schema_preserved` : … and the view of the parsed table is the mapped view of `c`, as far as Hive DDL can state it: same schema,
  table, column names in order, comments, types mapped by the shipped map, parameters only where Hive has them, same partition columns
  and table comment;
* `C18.fragHive_of_conv` : a sufficient condition on the converted table's parts for `FragCreate HIVE (hiveProj c')`.
-/
set_option linter.unusedVariables false
set_option linter.unusedSimpArgs false
set_option maxHeartbeats 1000000
open Lex PM Ast TP TS TD Conv

namespace C03
/-- **T-parse, CREATE TABLE.**  The statement parser returns exactly the table definition from its token rendering (MySQL rendering for
`d = MYSQL`, Hive rendering otherwise), in front of the end of input or a `;` (which it swallows), at every fuel above a linear bound -/
theorem tcreate (d : Gen.D) (c : CreateTable) (hc : FragCreate d c = true) (rest : List Tok) (hr : endsC rest = true) (fuel : Nat)
    (hfuel : 20 * sizeL (toksCreate d c) + 2 ≤ fuel) :
    pStatement d fuel (toksCreate d c ++ rest) = .ok (.createTable c, (moveStr rest ";").2) :=
  pStatement_create c hc rest hr fuel hfuel

/-- with the fuel the public entry points compute from the token list -/
theorem tcreate_entry_fuel (d : Gen.D) (c : CreateTable) (hc : FragCreate d c = true) (rest : List Tok) (hr : endsC rest = true) :
    pStatement d (fuelFor (toksCreate d c ++ rest)) (toksCreate d c ++ rest) = .ok (.createTable c, (moveStr rest ";").2) :=
  tcreate d c hc rest hr _ (by simp only [fuelFor, sizeL_append]; omega)

/-- the entry point `parse_create_table_statement` itself -/
theorem tcreate_entry (d : Gen.D) (c : CreateTable) (hc : FragCreate d c = true) (rest : List Tok) (hr : endsC rest = true) (fuel : Nat)
    (hfuel : 20 * sizeL (toksCreate d c) + 2 ≤ fuel) :
    pCreateTable d fuel (toksCreate d c ++ rest) = .ok (.createTable c, (moveStr rest ";").2) :=
  pCreateTable_ok c hc rest hr fuel hfuel

theorem toksCreate_ne (d : Gen.D) (c : CreateTable) (rest : List Tok) : (toksCreate d c ++ rest).isEmpty = false := rfl

/-- through the loop of `parse_statements`: the printed statement, with or without a final `;`, is a script of exactly this statement -/
theorem tcreate_statements (d : Gen.D) (c : CreateTable) (hc : FragCreate d c = true) (semi : Bool) (fuel : Nat)
    (hfuel : 20 * sizeL (toksCreate d c) + 2 ≤ fuel) :
    pStatements d fuel (toksCreate d c ++ (if semi then [opTok ";"] else [])) = .ok [.createTable c] := by
  have hr : endsC (if semi then [opTok ";"] else []) = true := by cases semi <;> decide
  have hm : (moveStr (if semi then [opTok ";"] else []) ";").2 = [] := by cases semi <;> decide
  have h := tcreate d c hc _ hr fuel hfuel
  rw [hm] at h
  unfold pStatements
  have hl : ∃ k, (toksCreate d c ++ (if semi then [opTok ";"] else [])).length + 1 = k + 2 := by
    refine ⟨(toksCreate d c ++ (if semi then [opTok ";"] else [])).length - 1, ?_⟩
    simp only [toksCreate, List.length_cons, List.length_append]; omega
  obtain ⟨k, hk⟩ := hl
  rw [hk]
  simp only [statementsLoop, toksCreate_ne, Bool.false_eq_true, if_false, h, moveStr, searchStr, List.isEmpty_nil, if_true, List.nil_append]

/-- **every column, key and option in its slot**: the parsed statement is a CREATE TABLE whose components are the printed ones -/
theorem create_slots (d : Gen.D) (c : CreateTable) (hc : FragCreate d c = true) (rest : List Tok) (hr : endsC rest = true) (fuel : Nat)
    (hfuel : 20 * sizeL (toksCreate d c) + 2 ≤ fuel) :
    ∃ c' r, pStatement d fuel (toksCreate d c ++ rest) = .ok (.createTable c', r) ∧
      c'.table = c.table ∧ c'.ifNotExists = c.ifNotExists ∧ c'.columns = c.columns ∧ c'.primaryKey = c.primaryKey ∧
      c'.uniqueKey = c.uniqueKey ∧ c'.key = c.key ∧ c'.fulltextKey = c.fulltextKey ∧ c'.partitionedBy = c.partitionedBy ∧
      c'.comment = c.comment ∧ c'.engine = c.engine ∧ c'.autoIncrement = c.autoIncrement ∧ c'.defaultCharset = c.defaultCharset ∧
      c'.collate = c.collate ∧ c'.rowFormat = c.rowFormat ∧ c'.statesPersistent = c.statesPersistent ∧
      c'.rowFormatSerde = c.rowFormatSerde ∧ c'.rowFormatDelimited = c.rowFormatDelimited ∧
      c'.storedAsInputformat = c.storedAsInputformat ∧ c'.storedAsTextfile = c.storedAsTextfile ∧ c'.outputformat = c.outputformat ∧
      c'.location = c.location ∧ c'.tblproperties = c.tblproperties :=
  ⟨c, _, tcreate d c hc rest hr fuel hfuel, rfl, rfl, rfl, rfl, rfl, rfl, rfl, rfl, rfl, rfl, rfl, rfl, rfl, rfl, rfl, rfl, rfl, rfl, rfl,
    rfl, rfl, rfl⟩

/-- the rendering determines the table: two tables of the fragment with the same token rendering are equal -/
theorem rendering_determines_create (d : Gen.D) (c c' : CreateTable) (hc : FragCreate d c = true) (hc' : FragCreate d c' = true)
    (h : toksCreate d c = toksCreate d c') : c = c' := by
  have a := tcreate d c hc [] rfl _ (Nat.le_refl _)
  have b := tcreate d c' hc' [] rfl (20 * sizeL (toksCreate d c) + 2) (by rw [h]; exact Nat.le_refl _)
  rw [← h, a] at b
  simp only [Except.ok.injEq, Prod.mk.injEq, Stmt.createTable.injEq, and_true] at b
  exact b
end C03

namespace C01
/-- **print / parse round trip of CREATE TABLE, token level**: parsing the printer's rendering gives the tree back, nothing left -/
theorem create_round_trip_tokens (d : Gen.D) (c : CreateTable) (hc : FragCreate d c = true) (fuel : Nat)
    (hfuel : 20 * sizeL (toksCreate d c) + 2 ≤ fuel) : pStatement d fuel (toksCreate d c) = .ok (.createTable c, []) := by
  have := C03.tcreate d c hc [] rfl fuel hfuel
  simpa [moveStr, searchStr] using this
end C01

namespace C18
/-! ### what the Hive DDL states -/
theorem toksDefCol_hiveCol (col : DefCol) : toksDefCol .HIVE (hiveCol col) = toksDefCol .HIVE col := by
  obtain ⟨n, ⟨tn, ps⟩, us, zf, cs, co, gen, an, nn, ai, df, ou, cm⟩ := col
  have hk : hiveDrops .HIVE ⟨tn, ps⟩ = !hiveKeepsParams tn := by simp [hiveDrops, hiveKeepsParams]
  have hk' : ∀ ps', hiveDrops .HIVE ⟨tn, ps'⟩ = !hiveKeepsParams tn := by intro ps'; simp [hiveDrops, hiveKeepsParams]
  simp only [toksDefCol, hiveCol, toksAttrs, toksType, toksParams]
  cases ps with
  | none => simp
  | some l =>
    cases hkp : hiveKeepsParams tn with
    | false => simp [hk', hkp]
    | true => simp [hk', hkp]

/-- **the Hive rendering of a table is the Hive rendering of its projection**: whatever MySQL-only attribute, key or option the table
has, the Hive printer does not state it -/
theorem toks_hiveProj (c : CreateTable) : toksCreate .HIVE (hiveProj c) = toksCreate .HIVE c := by
  have hm : ∀ l : List DefCol, (l.map hiveCol).map (toksDefCol .HIVE) = l.map (toksDefCol .HIVE) := by
    intro l; simp only [List.map_map]; apply List.map_congr_left; intro a _; exact toksDefCol_hiveCol a
  have he : ∀ l : List DefCol, (l.map hiveCol).isEmpty = l.isEmpty := by intro l; cases l <;> rfl
  simp only [toksCreate, toksLines, toksOpts, toksHiveOpts, toksPartitioned, hiveProj, emptyCreate, hm, he]
  rfl

theorem colView_hiveCol (col : DefCol) : colView (hiveCol col) = (colView col).hive := rfl

/-- the view of the projection is the Hive view -/
theorem view_hiveProj (c : CreateTable) : view (hiveProj c) = (view c).hive := by
  simp [view, View.hive, hiveProj, emptyCreate, colView_hiveCol]

/-- **print for Hive → parse**: the statement parser reads the Hive rendering of a converted table back as its Hive projection -/
theorem convert_round_trip (rp : Bool) (c c' : CreateTable) (h : changeTypeT Gen.mysqlToHive rp c = .ok c')
    (hf : FragCreate .HIVE (hiveProj c') = true) (rest : List Tok) (hr : endsC rest = true) (fuel : Nat)
    (hfuel : 20 * sizeL (toksCreate .HIVE c') + 2 ≤ fuel) :
    pStatement .HIVE fuel (toksCreate .HIVE c' ++ rest) = .ok (.createTable (hiveProj c'), (moveStr rest ";").2) := by
  rw [← toks_hiveProj c'] at hfuel ⊢
  exact C03.tcreate .HIVE (hiveProj c') hf rest hr fuel hfuel

/-- the same for any table printed for Hive (no conversion): helper edits (`set_table_name`, `append_column`,
`append_partition_by_column`) included -/
theorem hive_round_trip (c : CreateTable) (hf : FragCreate .HIVE (hiveProj c) = true) (rest : List Tok) (hr : endsC rest = true) (fuel : Nat)
    (hfuel : 20 * sizeL (toksCreate .HIVE c) + 2 ≤ fuel) :
    pStatement .HIVE fuel (toksCreate .HIVE c ++ rest) = .ok (.createTable (hiveProj c), (moveStr rest ";").2) := by
  rw [← toks_hiveProj c] at hfuel ⊢
  exact C03.tcreate .HIVE (hiveProj c) hf rest hr fuel hfuel

/-- **convert → print for Hive → parse → same schema view**: the parsed table declares the table name, the column names in order, the
comments, the types mapped by `HASHMAP_MYSQL_TO_HIVE` with parameters only where Hive has them, the partition columns and the table
comment of the MySQL table -/
theorem schema_preserved (rp : Bool) (c c' : CreateTable) (h : changeTypeT Gen.mysqlToHive rp c = .ok c')
    (hf : FragCreate .HIVE (hiveProj c') = true) (rest : List Tok) (hr : endsC rest = true) (fuel : Nat)
    (hfuel : 20 * sizeL (toksCreate .HIVE c') + 2 ≤ fuel) :
    ∃ p r cols, pStatement .HIVE fuel (toksCreate .HIVE c' ++ rest) = .ok (.createTable p, r) ∧
      mapCols Gen.mysqlToHive rp (view c).cols = some cols ∧
      view p = ⟨(view c).schema, (view c).table, cols.map ColView.hive, (view c).parts.map ColView.hive, (view c).comment⟩ := by
  obtain ⟨h1, h2, h3, h4, h5⟩ := C18.changeTypeT_view Gen.mysqlToHive rp c c' h
  refine ⟨hiveProj c', _, (view c').cols, convert_round_trip rp c c' h hf rest hr fuel hfuel, h1, ?_⟩
  rw [view_hiveProj, ← h2, ← h3, ← h4, ← h5]
  rfl

/-! ### a sufficient condition for the Hive fragment -/
/-- a column the Hive DDL can state: name reads back, parameters (where Hive keeps them) are fragment trees, the rendering has no
top-level comma -/
def hiveColOK (col : DefCol) : Bool := colOK .HIVE (hiveCol col) && noComma (toksDefCol .HIVE col)
/-- the conditions on the parts of a table for its Hive rendering to be in the fragment -/
def hiveOK (c : CreateTable) : Bool :=
  tblOK c.table && c.columns.all hiveColOK && c.partitionedBy.all hiveColOK && segsOK (c.tblproperties.map toksProp) &&
    valOK c.comment && valOK c.rowFormatSerde && valOK c.rowFormatDelimited && valOK c.storedAsInputformat && valOK c.outputformat &&
    valOK c.location

theorem segsOK_cols (l : List DefCol) (h : l.all hiveColOK = true) : segsOK ((l.map hiveCol).map (toksDefCol .HIVE)) = true := by
  simp only [segsOK, List.all_map, List.all_eq_true, Function.comp] at h ⊢
  intro col hc
  have := h col hc
  simp only [hiveColOK, Bool.and_eq_true] at this
  rw [toksDefCol_hiveCol]
  simp only [Bool.and_eq_true, Bool.not_eq_true']
  exact ⟨rfl, this.2⟩
theorem colOK_cols (l : List DefCol) (h : l.all hiveColOK = true) : (l.map hiveCol).all (colOK .HIVE) = true := by
  simp only [List.all_map, List.all_eq_true, Function.comp] at h ⊢
  intro col hc
  have := h col hc
  simp only [hiveColOK, Bool.and_eq_true] at this
  exact this.1

/-- the Hive projection of a table whose parts satisfy `hiveOK` is in the Hive fragment -/
theorem fragHive_of_conv (c : CreateTable) (h : hiveOK c = true) : FragCreate .HIVE (hiveProj c) = true := by
  simp only [hiveOK, Bool.and_eq_true] at h
  obtain ⟨⟨⟨⟨⟨⟨⟨⟨⟨h1, h2⟩, h3⟩, h4⟩, h5⟩, h6⟩, h7⟩, h8⟩, h9⟩, h10⟩ := h
  have hl : toksLines .HIVE (hiveProj c) = (c.columns.map hiveCol).map (toksDefCol .HIVE) := by
    simp [toksLines, hiveProj, emptyCreate]
  simp only [FragCreate, hl]
  simp only [hiveProj, emptyCreate, h1, colOK_cols _ h2, segsOK_cols _ h2, colOK_cols _ h3, segsOK_cols _ h3, h4, h5, h6, h7, h8, h9, h10]
  rfl
end C18

/-! ### non-vacuity and the lexer link (compiled evaluation: `String` operations do not reduce in the kernel) -/
namespace C18
def lexed (s : String) : List Tok := match Lex.lex Gen.cfgS s.toList with | .ok ts => ts | .error _ => []
def parseMy (ddl : String) : Option CreateTable :=
  match PM.parseStatementsText .MYSQL ddl.toList with | .ok [.createTable c] => some c | _ => none
def showCT (c : CreateTable) : String := Drv.showVal c.toVal
/-- the token-level printer agrees with the lexer on the printer's text, and the table is in the fragment -/
def agrees (d : Gen.D) (c : CreateTable) : Bool :=
  match PR.prStmt d (.createTable c) with
  | .ok s => eqbL (lexed s) (toksCreate d c) && FragCreate d c
  | .error _ => false
/-- the theorem's conclusion, evaluated -/
def roundTrips (d : Gen.D) (c : CreateTable) : Bool :=
  match pStatement d (20 * sizeL (toksCreate d c) + 2) (toksCreate d c ++ lexed "; SELECT 1") with
  | .ok (.createTable c', r) => showCT c' == showCT c && eqbL r (lexed "SELECT 1")
  | _ => false
/-- parse as MySQL, then both checks for MySQL -/
def okMy (ddl : String) : Bool := match parseMy ddl with | some c => agrees .MYSQL c && roundTrips .MYSQL c | none => false
/-- parse as MySQL, convert, then: the lexer on the Hive text gives `toksCreate HIVE c'`, the projection is in the fragment (by the
sufficient condition), and the parse of the tokens is the projection -/
def okConv (ddl : String) (rp : Bool) : Bool :=
  match parseMy ddl with
  | some c => (match changeTypeT Gen.mysqlToHive rp c with
    | .ok c' => (match PR.prStmt .HIVE (.createTable c') with
      | .ok s => eqbL (lexed s) (toksCreate .HIVE c') && hiveOK c' && FragCreate .HIVE (hiveProj c') &&
          (match pStatement .HIVE (20 * sizeL (toksCreate .HIVE c') + 2) (toksCreate .HIVE c') with
           | .ok (.createTable p, []) => showCT p == showCT (hiveProj c')
           | _ => false)
      | .error _ => false)
    | .error _ => false)
  | none => false

def ddl1 : String :=
  "CREATE TABLE IF NOT EXISTS `s`.`o` (`id` bigint(20) unsigned zerofill NOT NULL AUTO_INCREMENT COMMENT 'p''k', " ++
  "`n` varchar(32) CHARACTER SET utf8 COLLATE utf8_bin NULL DEFAULT NULL COMMENT \"it's\", `p` decimal(10,2) DEFAULT -1 + 2, " ++
  "`select` int DEFAULT 0 ON UPDATE 1, `a b` text, `c` datetime, " ++
  "PRIMARY KEY (`id`), UNIQUE KEY `uk` (`n`(10),`p`) USING BTREE COMMENT 'x' KEY_BLOCK_SIZE=0, UNIQUE KEY u2 (`c`), KEY k2 (p), " ++
  "FULLTEXT KEY ft (`n`) COMMENT 'f') " ++
  "ENGINE=InnoDB AUTO_INCREMENT=0 DEFAULT CHARSET=utf8mb4 COLLATE=utf8mb4_bin ROW_FORMAT=DYNAMIC STATS_PERSISTENT=0 COMMENT='c, ''q'''"
def ddl2 : String := "CREATE TABLE t (a int)"
def ddl3 : String := "CREATE TABLE `t-1` (`x` char(1) COMMENT ',', y varchar(8) DEFAULT 'a,b')"
def ddl5 : String := "CREATE TABLE t (a DECIMAL((1 = 1), 2) DEFAULT (1 OR 2), b enum('x','y,z') NOT NULL, " ++
  "g int GENERATED ALWAYS AS ((a OR 1)) VIRTUAL NOT NULL COMMENT 'g', h int GENERATED ALWAYS AS (a + 1) STORED)"
def ddl6 : String := "CREATE TABLE c (a int, b int, `p` int, KEY k (a), CONSTRAINT fk1 FOREIGN KEY (a, `b`) REFERENCES p (x, y) ON DELETE CASCADE " ++
  "ON UPDATE SET NULL, CONSTRAINT `fk2` FOREIGN KEY (p) REFERENCES q (z) ON UPDATE NO ACTION, CONSTRAINT fk3 FOREIGN KEY (p) REFERENCES q (z) " ++
  "ON DELETE RESTRICT, CONSTRAINT fk4 FOREIGN KEY (p) REFERENCES q (z)) ENGINE=InnoDB"
def ddl4 : String := "CREATE TABLE db.t (`id` bigint(20) NOT NULL COMMENT 'pk', v DECIMAL(10,2) COMMENT 'v', w double, z tinyint(1)) COMMENT='tc'"

#guard okMy ddl1 && okMy ddl2 && okMy ddl3 && okMy ddl4 && okMy ddl5 && okMy ddl6
-- a raw comment string that IS the comma token (no parse produces it) is outside the fragment (`segsOK`)
#guard (match parseMy ddl2 with | some c => FragCreate .MYSQL c && !FragCreate .MYSQL { c with comment := some "=" , columns := c.columns.map fun x => { x with comment := some "," } } | none => false)
#guard okConv ddl1 false && okConv ddl1 true && okConv ddl2 true && okConv ddl4 false && okConv ddl4 true && okConv ddl5 false && okConv ddl6 true

/-- a Hive table with every Hive option, built from a converted table by the helpers -/
def hiveFull : Option CreateTable :=
  match parseMy ddl4 with
  | some c => (match changeTypeT Gen.mysqlToHive false c with
    | .ok c' => some { appendPartitionByColumnT { name := "dt", type := ⟨"string", none⟩, comment := some "'day'" }
        (appendPartitionByColumnT { name := "h", type := ⟨"varchar", some [.literal "2"]⟩ } (setTableNameT ⟨some "ods", "t_h"⟩ c')) with
        rowFormatSerde := some "'org.apache.hadoop.hive.ql.io.orc.OrcSerde'", storedAsInputformat := some "'x.In'",
        outputformat := some "'x.Out'", location := some "'/warehouse/t'",
        tblproperties := [⟨"'orc.compress'", "'SNAPPY'"⟩, ⟨"'k'", "'0'"⟩] }
    | .error _ => none)
  | none => none
def hiveText : Option CreateTable :=
  match parseMy ddl2 with
  | some c => some { c with rowFormatDelimited := some "'\\t'", storedAsTextfile := true, comment := some "'c'" }
  | none => none
#guard (match hiveFull with | some c => agrees .HIVE (hiveProj c) && roundTrips .HIVE (hiveProj c) && hiveOK c &&
    (match PR.prStmt .HIVE (.createTable c) with | .ok s => eqbL (lexed s) (toksCreate .HIVE c) | .error _ => false) | none => false)
#guard (match hiveText with | some c => agrees .HIVE (hiveProj c) && roundTrips .HIVE (hiveProj c) && hiveOK c | none => false)
-- the `;` is swallowed by the CREATE TABLE parser itself; something else after the statement is refused by the option loop
#guard endsC (lexed "; SELECT 1") && endsC [] && !endsC (lexed "SELECT 1")
-- F-C18-3: a dotted part is outside the fragment
#guard !tblOK ⟨some "s", "a.b"⟩ && tblOK ⟨some "s", "ab"⟩ && tblOK ⟨none, "t-1"⟩ && !tblOK ⟨none, "a.b"⟩
#guard intOK 0 && intOK 20 && !intOK (-1)

/-- one column of type `name` with `n` integer parameters -/
def typeTable (name : String) (n : Nat) : CreateTable :=
  { emptyCreate ⟨none, "t"⟩ false with
    columns := [{ name := "c", type := ⟨name, if n == 0 then none else some ((List.range n).map fun i => .literal (toString (i + 1)))⟩,
                  comment := some "'c'" }] }
/-- **every type of the regenerated catalogue, with 0, 1 and 2 parameters** (upper and lower case): the MySQL rendering is what the
lexer gives and is read back; converted with the shipped map (parameters kept), the Hive rendering is what the lexer gives, is read
back as the projection, and its view is the mapped view -/
def typeOKAll (name : String) (n : Nat) : Bool :=
  let c := typeTable name n
  agrees .MYSQL c && roundTrips .MYSQL c &&
    (match changeTypeT Gen.mysqlToHive false c with
     | .ok c' => hiveOK c' && agrees .HIVE (hiveProj c') && roundTrips .HIVE (hiveProj c') &&
         (match PR.prStmt .HIVE (.createTable c') with | .ok s => eqbL (lexed s) (toksCreate .HIVE c') | .error _ => false)
     | .error _ => false)
#guard Gen.mysqlDataTypes.all fun t => [0, 1, 2].all fun n => typeOKAll t.1 n && typeOKAll t.1.toLower n
-- every image of the map as a Hive column / partition type
#guard Gen.mysqlToHive.all fun p => [0, 2].all fun n => agrees .HIVE (hiveProj (appendPartitionByColumnT { name := "p", type := ⟨p.2, none⟩ } (typeTable p.2 n)))

/-! instances of the theorems (no evaluation of the parser: the hypotheses are decided in the kernel, the conclusion is the theorem's) -/
def t1 : CreateTable :=
  { emptyCreate ⟨none, "t"⟩ true with
    columns := [{ name := "id", type := ⟨"BIGINT", none⟩, comment := some "'pk'" },
                { name := "v", type := ⟨"DECIMAL", some [.literal "10", .literal "2"]⟩ }],
    partitionedBy := [{ name := "dt", type := ⟨"STRING", none⟩ }], comment := some "'c'", storedAsTextfile := true }
def t2 : CreateTable :=
  { emptyCreate ⟨none, "t"⟩ false with
    columns := [{ name := "id", type := ⟨"bigint", some [.literal "20"]⟩, unsigned := true, notNull := true, autoInc := true },
                { name := "n", type := ⟨"varchar", some [.literal "8"]⟩, charset := some "utf8", default := some (.literal "NULL"),
                  comment := some "'n'" }],
    primaryKey := some ⟨.primary, none, [⟨"id", none⟩], none, none, none⟩,
    key := [⟨.normal, some "k", [⟨"n", none⟩], some "BTREE", none, none⟩], engine := some "InnoDB", comment := some "'c'" }
example : pStatement .HIVE 1000 (toksCreate .HIVE t1 ++ [opTok ";"]) = .ok (.createTable t1, []) :=
  C03.tcreate .HIVE t1 (by decide) _ (by decide) 1000 (by decide)
example : pStatement .MYSQL 1000 (toksCreate .MYSQL t2) = .ok (.createTable t2, []) :=
  C01.create_round_trip_tokens .MYSQL t2 (by decide) 1000 (by decide)
#guard agrees .HIVE t1 && agrees .MYSQL t2
end C18
