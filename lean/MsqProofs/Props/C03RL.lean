import MsqProofs.Lemmas.LexLinkAny
import MsqProofs.Props.C03R
import MsqProofs.Props.C18L
/-!
# C03 / C01 / C10 at TEXT level for the WHOLE union fragment `TR.FragAny`

`Props/C03R.lean` proves T-parse on TOKENS for every statement class (`C03.tstatement_any`: the rendering `TR.toksAny d s` parses to `s`).
Here the link to TEXT for every class, and ONE script theorem on texts:

* `C03.lex_prStmt2` : DELETE / UPDATE / INSERT … VALUES / INSERT … query / a query, each with an optional `WITH name AS (q), …` in front,
  over the LARGER query fragment (`TDM2.FragStmt` over `TQ2.FragQ2` / `FragE4`: window functions, CAST, GROUPING SETS, LATERAL VIEW … inside
  data-change statements and under WITH): the printer succeeds, prints the mirror `LL2.Any.stmtL d s`, lexing gives `TDM2.toksStmt d s`
  (Lemmas/LexLinkAnyD0-2.lean, derived from `LexLinkDml0-2.lean` by `tools/dev/gen_lexlink_any.py`);
* `C03.lex_prRest` : the classes of `TR.FragRest` — ALTER TABLE with every clause, DROP / TRUNCATE / MSCK REPAIR TABLE, USE, SHOW DATABASES /
  TABLES, SET, ANALYZE TABLE, SHOW COLUMNS, CREATE TABLE [IF NOT EXISTS] … AS [WITH …] query (Lemmas/LexLinkAnyR0-3.lean);
* `C03.lex_prAny` : the union (with CREATE TABLE from `C18.lex_prCreate`): `FragAny d s → printableAny d s → LeafAny d s →
  ∃ str, PR.prStmt d s = ok str ∧ str.toList = anyL d s ∧ lex str = toksAny d s`; `lex_prAny_in_context`; `printed_any_not_open`;
* `C03.tstatement_any_text` : text → dialect pre-pass → lexer → `pStatement` (entry fuel) gives `s`, nothing left, and the model of
  `parse_statements(text, dialect)` returns `[s]`;
* `C01.statement_round_trip_text_any` : printing the parsed statement gives the same text (print ∘ parse ∘ print = print);
* `C03.tscript_any_text` / `C10.script_of_printed_statements` : the printed texts of ANY list of fragment statements, each followed by a
  separator text of `Props/C10T.lean` (blanks / line breaks around one `;`; after the last one possibly only blanks or nothing), parse through
  the model of `parse_statements` to exactly that list (every dialect but DB2; `tscript_any_text_prep` for DB2 with the commutation of the
  pre-passes as a hypothesis).  CREATE TABLE swallows the `;` behind it itself (`parser.py:2017`; `TR.restAfter`): the loop of `C10.script_concat`
  handles both shapes, so nothing special is visible in the statement;
* `C03.hive_pre_stmt2` : for HIVE the pre-pass hypothesis of the statements over `FragQ2` holds when no payload contains `==`; for the other
  classes it is `C01.hivePre_no_occ` on the concrete text (`hive_pre_of_occ`); for every dialect but HIVE and DB2 it holds outright (`pre_any_id`).

**Hypotheses** besides the fragment: `LL2.Any.printableAny d s` (a `Bool`: what the PRINTER needs — `INSERT OVERWRITE` only for HIVE / DEFAULT,
CREATE TABLE only for MYSQL / HIVE, ANALYZE TABLE only for HIVE / MYSQL: the printer raises otherwise, there is no text) and the payload
hypotheses `LL2.Any.LeafAny d s` (none assumes the link; `C03.AnyText.leafAnyB` is a decidable sufficient condition):
queries / data-change statements `On2 (leafOK2 d) (leavesStmt s)` as in Props/C03QL2.lean (incl. the guards of the Q2 link: array index and
SORT BY … for HIVE only, LATERAL VIEW for HIVE / DEFAULT, index expressions complete before `]`, single grouping-set elements); CREATE TABLE
`LD.LeafC` as in Props/C18L.lean; target tables `nameLex` (no back-quote, no TAB / CR / U+3000); `USE s`: `s` a raw-source payload
(`LD.srcLex`: digits, a quoted string, a back-quoted name, a plain word — at token level `C03.tuse` takes any string, but the lexer must
read it as ONE token); ALTER clauses: partition items as in INSERT, column names `nameLex`, column definitions / keys / foreign keys as in
CREATE TABLE (`LD.LeafCol` / `LeafIdx` / `LeafFk`; column definitions for EVERY dialect: `LL2.Any.prDefCol_other`); SHOW COLUMNS: the
payloads of its tables and filter.

**SET (restriction, stated):** `LL2.Any.cfgLex` on key and value — every piece between `.` / `-` a plain word, or the whole string ONE
raw-source token.  Excluded at text level: decimal numbers (`0.5`; no lexer lemma for floats) and strings such as `x-1.5`, where the
token-level printer's split (`TR.toksCfg`: ONE token, because the piece `1` is no word) differs from the lexer's (`x`, `-`, `1.5`): the
rendering of Props/C03R.lean is then NOT what the lexer makes of the printed text.  The PARSER still rebuilds the same string from the lexer's
pieces (evaluated below: `SET a=x-1.5` round-trips on the model), so this is a gap of the token-level rendering, not a defect of the code.
-/
set_option linter.unusedVariables false
set_option linter.unusedSimpArgs false
open Lex PM Ast TP TS LexLink TQ2 LL2 LL2.Any TR

namespace LL2.Any
instance : QWc occKit := ⟨qw2_occ⟩

/-- every payload of a statement over `FragQ2` satisfies `leafOK2` (incl. the guards) -/
def LeafStmt2 (d : Gen.D) (s : Stmt) : Prop := On2 (leafOK2 d) (leavesStmt s)
/-- no payload contains `==` -/
def NoEqStmt2 (s : Stmt) : Prop := On2 noEq2 (leavesStmt s)
end LL2.Any

namespace C03

/-- **C03.lex_prAny**: on every statement of the union fragment that the printer prints, with lexable payloads, `PR.prStmt d s` succeeds,
prints the mirror `anyL d s`, and lexing the text gives exactly the token rendering `toksAny d s` of Props/C03R.lean. -/
theorem lex_prAny (d : Gen.D) (s : Stmt) (hs : FragAny d s = true) (hp : printableAny d s = true) (hl : LeafAny d s) :
    ∃ str : String, PR.prStmt d s = .ok str ∧ str.toList = anyL d s ∧ Lex.lex Gen.cfgS str.toList = .ok (toksAny d s) := by
  have g := good_any d s hs hp hl
  refine ⟨String.ofList (anyL d s), g.pr, String.toList_ofList, ?_⟩
  rw [String.toList_ofList, Lex.lex_plain _ _ (fun c hc => (List.all_eq_true.mp g.q) c hc)]
  exact C01.lexText_of_lx g.lx

/-- the link in context: inside any text, between tokens, before a delimiter, under any bracket nesting -/
theorem lex_prAny_in_context (d : Gen.D) (s : Stmt) (hs : FragAny d s = true) (hp : printableAny d s = true) (hl : LeafAny d s) :
    Lx (anyL d s) (toksAny d s) := (good_any d s hs hp hl).lx

/-- the printed text contains no character the lexer's pre-pass rewrites -/
theorem any_text_plain (d : Gen.D) (s : Stmt) (hs : FragAny d s = true) (hp : printableAny d s = true) (hl : LeafAny d s) :
    allP (anyL d s) = true := (good_any d s hs hp hl).q

/-- the printed text of a statement never ends inside a line comment -/
theorem printed_any_not_open (d : Gen.D) (s : Stmt) (hs : FragAny d s = true) (hp : printableAny d s = true) (hl : LeafAny d s) :
    C10.EndsOpen Gen.cfgS (anyL d s) = false :=
  C10.not_open_of_lx (lex_prAny_in_context d s hs hp hl) (any_text_plain d s hs hp hl)

/-- **C03.lex_prStmt2**: data-change statements and WITH over the larger query fragment -/
theorem lex_prStmt2 (d : Gen.D) (s : Stmt) (hs : TDM2.FragStmt d s = true) (hp : LLD.printableStmt d s = true) (hl : LeafStmt2 d s) :
    ∃ str : String, PR.prStmt d s = .ok str ∧ str.toList = stmtL d s ∧ Lex.lex Gen.cfgS str.toList = .ok (TDM2.toksStmt d s) := by
  have g := good_stmt (K := plainKit) LLD.dw_plain s hs hp (lv2_plain hl)
  refine ⟨String.ofList (stmtL d s), g.pr, String.toList_ofList, ?_⟩
  rw [String.toList_ofList, Lex.lex_plain _ _ (fun c hc => (List.all_eq_true.mp g.q) c hc)]
  exact C01.lexText_of_lx g.lx
theorem lex_prStmt2_in_context (d : Gen.D) (s : Stmt) (hs : TDM2.FragStmt d s = true) (hp : LLD.printableStmt d s = true)
    (hl : LeafStmt2 d s) : Lx (stmtL d s) (TDM2.toksStmt d s) := (good_stmt (K := plainKit) LLD.dw_plain s hs hp (lv2_plain hl)).lx

/-- the classes of `FragRest` are in the union, with their own rendering -/
theorem fragAny_of_fragRest (d : Gen.D) (s : Stmt) (hs : FragRest d s = true) : FragAny d s = true ∧ toksAny d s = toksRest d s := by
  refine ⟨by simp only [FragAny, hs, Bool.or_true], ?_⟩
  cases s <;> first | rfl | simp [FragRest] at hs

/-- **C03.lex_prRest**: ALTER TABLE, DROP / TRUNCATE / MSCK REPAIR TABLE, USE, SHOW DATABASES / TABLES / COLUMNS, SET, ANALYZE TABLE,
CREATE TABLE … AS -/
theorem lex_prRest (d : Gen.D) (s : Stmt) (hs : FragRest d s = true) (hp : printableAny d s = true) (hl : LeafAny d s) :
    ∃ str : String, PR.prStmt d s = .ok str ∧ str.toList = anyL d s ∧ Lex.lex Gen.cfgS str.toList = .ok (toksRest d s) := by
  obtain ⟨h1, h2⟩ := fragAny_of_fragRest d s hs
  rw [← h2]
  exact lex_prAny d s h1 hp hl

/-- **C03.tstatement_any_text**: T-parse of every statement class at TEXT level, with the entry points' own fuel. -/
theorem tstatement_any_text (d : Gen.D) (s : Stmt) (hs : FragAny d s = true) (hp : printableAny d s = true) (hl : LeafAny d s)
    (hpre : dialectPre d (anyL d s) = anyL d s) :
    ∃ (str : String) (ts : List Tok), PR.prStmt d s = .ok str ∧
      Lex.lex Gen.cfgS (dialectPre d str.toList) = .ok ts ∧ ts = toksAny d s ∧
      pStatement d (fuelFor ts) ts = .ok (s, []) ∧
      parseStatementsText d str.toList = .ok [s] := by
  obtain ⟨str, h1, h2, h3⟩ := lex_prAny d s hs hp hl
  have hlex : Lex.lex Gen.cfgS (dialectPre d str.toList) = .ok (toksAny d s) := by rw [h2, hpre, ← h2]; exact h3
  have hp2 : pStatement d (fuelFor (toksAny d s)) (toksAny d s) = .ok (s, []) := by
    have := tstatement_any_entry_fuel d s hs [] rfl
    simpa [restAfter_nil] using this
  exact ⟨str, toksAny d s, h1, hlex, rfl, hp2, C10.alone d str.toList (toksAny d s) s hlex hp2⟩

/-- the dialect pre-pass is the identity for every dialect but DB2 and HIVE -/
theorem pre_any_id (d : Gen.D) (h1 : d ≠ .DB2) (h2 : d ≠ .HIVE) (s : Stmt) : dialectPre d (anyL d s) = anyL d s :=
  C01.dialectPre_id d h1 h2 _
/-- for HIVE it leaves a text without `==` alone (a decidable condition on the concrete text) -/
theorem hive_pre_of_occ (s : Stmt) (h : C01.occ (anyL .HIVE s) = false) : dialectPre .HIVE (anyL .HIVE s) = anyL .HIVE s :=
  C01.hivePre_no_occ _ h
/-- … which holds for statements over `FragQ2` whenever no payload contains `==` -/
theorem hive_pre_stmt2 (s : Stmt) (hs : TDM2.FragStmt .HIVE s = true) (hp : LLD.printableStmt .HIVE s = true) (hl : LeafStmt2 .HIVE s)
    (hno : NoEqStmt2 s) : dialectPre .HIVE (stmtL .HIVE s) = stmtL .HIVE s :=
  C01.hivePre_no_occ _ (good_stmt (K := occKit) LLD.dw_occ s hs hp (lv2_occ hl hno)).q

/-! ### scripts -/

/-- the part of a script that is the printed statement `it.1` followed by the separator text `it.2` -/
def anyPart (d : Gen.D) (it : Stmt × List Char) : C10.Part := ⟨anyL d it.1, it.2, toksAny d it.1, it.1⟩

/-- **C03.tscript_any_text**: the printed texts of ANY fragment statements — queries, data-change statements, WITH, CREATE TABLE, ALTER TABLE,
DROP / TRUNCATE / MSCK, USE, SET, ANALYZE, SHOW …, CREATE TABLE AS, in any mixture — each followed by a separator (blanks and line breaks
around one `;`; the last one possibly without `;`), parse through the model of `parse_statements(text, dialect)` to exactly the statements -/
theorem tscript_any_text (d : Gen.D) (hd : d ≠ .DB2) (items : List (Stmt × List Char))
    (h : ∀ it ∈ items, FragAny d it.1 = true ∧ printableAny d it.1 = true ∧ LeafAny d it.1 ∧
      dialectPre d (anyL d it.1) = anyL d it.1 ∧ ∀ c ∈ it.2, C10.isSepChar c = true)
    (hseps : C10.SepsOK (items.map (anyPart d))) :
    (∀ it ∈ items, PR.prStmt d it.1 = .ok (String.ofList (anyL d it.1))) ∧
    parseStatementsText d (C10.scriptOf C10.Part.text (items.map (anyPart d))) = .ok (items.map (·.1)) := by
  refine ⟨fun it hit => (good_any d it.1 (h it hit).1 (h it hit).2.1 (h it hit).2.2.1).pr, ?_⟩
  have := C10.script_text_std d hd (items.map (anyPart d)) (fun p hp => by
    obtain ⟨it, hit, rfl⟩ := List.mem_map.mp hp
    obtain ⟨hs, hpr, hl, hpre, hsep⟩ := h it hit
    simp only [anyPart]
    rw [hpre]
    refine ⟨?_, ?_, Or.inl (printed_any_not_open d it.1 hs hpr hl), hsep, ?_⟩
    · obtain ⟨str, _, h2, h3⟩ := lex_prAny d it.1 hs hpr hl
      rw [← h2]; exact h3
    · have := tstatement_any_entry_fuel d it.1 hs [] rfl
      simpa [restAfter_nil] using this
    · intro hc
      have hm : '\r' ∈ anyL d it.1 := List.mem_of_getLast? hc
      have := List.all_eq_true.mp (any_text_plain d it.1 hs hpr hl) _ hm
      revert this; decide) hseps
  simpa [List.map_map, Function.comp_def, anyPart] using this

/-- the same for every dialect (DB2 included), the commutation of the pre-passes with cutting the script at the separators as a hypothesis
(a decidable equation on each concrete script) -/
theorem tscript_any_text_prep (d : Gen.D) (items : List (Stmt × List Char))
    (h : ∀ it ∈ items, FragAny d it.1 = true ∧ printableAny d it.1 = true ∧ LeafAny d it.1 ∧
      dialectPre d (anyL d it.1) = anyL d it.1 ∧ ∀ c ∈ it.2, C10.isSepChar c = true)
    (hseps : C10.SepsOK (items.map (anyPart d)))
    (hprep : C10.prep d (C10.scriptOf C10.Part.text (items.map (anyPart d))) =
      C10.scriptOf (fun p => C10.prep d p.text) (items.map (anyPart d))) :
    parseStatementsText d (C10.scriptOf C10.Part.text (items.map (anyPart d))) = .ok (items.map (·.1)) := by
  have := C10.script_text d (items.map (anyPart d)) (fun p hp => by
    obtain ⟨it, hit, rfl⟩ := List.mem_map.mp hp
    obtain ⟨hs, hpr, hl, hpre, hsep⟩ := h it hit
    simp only [anyPart]
    rw [hpre]
    refine ⟨?_, ?_, Or.inl (printed_any_not_open d it.1 hs hpr hl), hsep⟩
    · obtain ⟨str, _, h2, h3⟩ := lex_prAny d it.1 hs hpr hl
      rw [← h2]; exact h3
    · have := tstatement_any_entry_fuel d it.1 hs [] rfl
      simpa [restAfter_nil] using this) hseps hprep
  simpa [List.map_map, Function.comp_def, anyPart] using this

end C03

namespace C10
/-- the text the printer writes for `s` (empty where it raises) -/
def printedText (d : Gen.D) (s : Stmt) : List Char := match PR.prStmt d s with | .ok x => x.toList | .error _ => []

/-- **C10.script_of_printed_statements**: print every statement of a list of fragment statements, write the texts one after the other, each
followed by its separator text: `parse_statements` returns exactly that list — stated on the printer's own output -/
theorem script_of_printed_statements (d : Gen.D) (hd : d ≠ .DB2) (items : List (Stmt × List Char))
    (h : ∀ it ∈ items, FragAny d it.1 = true ∧ printableAny d it.1 = true ∧ LeafAny d it.1 ∧
      dialectPre d (anyL d it.1) = anyL d it.1 ∧ ∀ c ∈ it.2, C10.isSepChar c = true)
    (hseps : C10.SepsOK (items.map (C03.anyPart d))) :
    parseStatementsText d (C10.scriptOf C10.Part.text (items.map fun it => ⟨printedText d it.1, it.2, toksAny d it.1, it.1⟩)) =
      .ok (items.map (·.1)) := by
  obtain ⟨h1, h2⟩ := C03.tscript_any_text d hd items h hseps
  have e : (items.map fun it => (⟨printedText d it.1, it.2, toksAny d it.1, it.1⟩ : C10.Part)) = items.map (C03.anyPart d) := by
    refine List.map_congr_left fun it hit => ?_
    simp only [C03.anyPart, printedText, h1 it hit, String.toList_ofList]
  rw [e]; exact h2
end C10

namespace C01

/-- **C01.statement_round_trip_text_any**: print, then the text pipeline (dialect pre-pass, lexer, parser) gives the statement back; printing
what was parsed gives the same text again — for every statement class of the union fragment -/
theorem statement_round_trip_text_any (d : Gen.D) (s : Stmt) (hs : FragAny d s = true) (hp : printableAny d s = true) (hl : LeafAny d s)
    (hpre : dialectPre d (anyL d s) = anyL d s) :
    ∃ (str : String) (ts : List Tok), PR.prStmt d s = .ok str ∧ Lex.lex Gen.cfgS (dialectPre d str.toList) = .ok ts ∧
      pStatement d (fuelFor ts) ts = .ok (s, []) ∧
      (∀ s', pStatement d (fuelFor ts) ts = .ok (s', []) → PR.prStmt d s' = .ok str) ∧
      parseStatementsText d str.toList = .ok [s] ∧
      (∀ sts, parseStatementsText d str.toList = .ok sts → sts.map (PR.prStmt d) = [.ok str]) := by
  obtain ⟨str, ts, h1, h2, _, h3, h5⟩ := C03.tstatement_any_text d s hs hp hl hpre
  refine ⟨str, ts, h1, h2, h3, ?_, h5, ?_⟩
  · intro s' hs'
    rw [h3] at hs'
    simp only [Except.ok.injEq, Prod.mk.injEq, and_true] at hs'
    rw [← hs']; exact h1
  · intro sts hsts
    rw [h5] at hsts
    simp only [Except.ok.injEq] at hsts
    rw [← hsts]
    simp [h1]

end C01

/-! ## a decidable form of the payload hypotheses, non-vacuity -/
namespace C03.AnyText
open C03.Rest C03.Q2Text

def tblLeafB (t : TableName) : Bool := C18.optB C03.nameLexB t.schema && C03.nameLexB t.name
def cfgLexB (s : String) : Bool :=
  (plainL (cfgSplit s).1.toList && (cfgSplit s).2.all fun x => plainL x.2.toList) ||
  ((cfgSplit s).2.isEmpty && C18.srcLexB (cfgSplit s).1 && !isDecimal (cfgSplit s).1)
def coiLeafB (d : Gen.D) : ColOrIdx → Bool
  | .col c => C18.leafColB d c
  | .idx i => C18.leafIdxB i
  | .fk k => C18.leafFkB k
def opLeafB (d : Gen.D) : AlterOp → Bool
  | .addPartition _ p => (leavesL4 p).all (leafOK2B d)
  | .add x => coiLeafB d x
  | .modify x => coiLeafB d x
  | .change f t => C03.nameLexB f && coiLeafB d t
  | .renameColumn f t => C03.nameLexB f && C03.nameLexB t
  | .dropColumn c => C03.nameLexB c
  | .dropPartition _ p => (leavesL4 p).all (leafOK2B d)
/-- `LeafAny d s`, decidable -/
def leafAnyB (d : Gen.D) : Stmt → Bool
  | .createTable c => C18.leafCB d c
  | .dropTable _ t => tblLeafB t
  | .truncate t => tblLeafB t
  | .msck t => tblLeafB t
  | .use s => C18.srcLexB s
  | .set c => cfgLexB c.name && cfgLexB c.value
  | .analyze t p _ _ _ => tblLeafB t && (leavesPart p).all (leafOK2B d)
  | .alter t ops => tblLeafB t && ops.all (opLeafB d)
  | .showDatabases => true
  | .showTables => true
  | .showColumns fr wh => (leavesTables4 fr ++ leavesO4 wh).all (leafOK2B d)
  | .createTableAs t _ q => tblLeafB t && (leavesStmt (.select q)).all (leafOK2B d)
  | s => (leavesStmt s).all (leafOK2B d)

theorem on2_of_B (d : Gen.D) (l : List Leaf2) (h : l.all (leafOK2B d) = true) : On2 (leafOK2 d) l :=
  fun x hx => leafOK2_of_B d x ((List.all_eq_true.mp h) x hx)
theorem tblLeaf_of_B (t : TableName) (h : tblLeafB t = true) : tblLeaf t := by
  simp only [tblLeafB, Bool.and_eq_true] at h
  refine ⟨?_, C18.nameLex_of_B _ h.2⟩
  cases hs : t.schema with
  | none => trivial
  | some x => rw [hs] at h; exact C18.nameLex_of_B _ h.1
theorem cfgLex_of_B (s : String) (h : cfgLexB s = true) : cfgLex s := by
  simp only [cfgLexB, Bool.or_eq_true, Bool.and_eq_true, List.all_eq_true, List.isEmpty_iff, Bool.not_eq_true'] at h
  rcases h with h | h
  · exact Or.inl h
  · exact Or.inr ⟨h.1.1, C18.srcLex_of_B _ h.1.2, h.2⟩
theorem coiLeaf_of_B (d : Gen.D) (x : ColOrIdx) (h : coiLeafB d x = true) : coiLeaf d x := by
  cases x with
  | col c => exact C18.leafCol_of_B d c h
  | idx i => exact C18.leafIdx_of_B i h
  | fk k => exact C18.leafFk_of_B k h
theorem opLeaf_of_B (d : Gen.D) (o : AlterOp) (h : opLeafB d o = true) : opLeaf d o := by
  cases o with
  | addPartition b p => exact on2_of_B d _ h
  | dropPartition b p => exact on2_of_B d _ h
  | add x => exact coiLeaf_of_B d x h
  | modify x => exact coiLeaf_of_B d x h
  | change f t =>
    simp only [opLeafB, Bool.and_eq_true] at h
    exact ⟨C18.nameLex_of_B _ h.1, coiLeaf_of_B d t h.2⟩
  | renameColumn f t =>
    simp only [opLeafB, Bool.and_eq_true] at h
    exact ⟨C18.nameLex_of_B _ h.1, C18.nameLex_of_B _ h.2⟩
  | dropColumn c => exact C18.nameLex_of_B _ h
theorem leafAny_of_B (d : Gen.D) (s : Stmt) (h : leafAnyB d s = true) : LeafAny d s := by
  cases s with
  | select q => exact on2_of_B d _ h
  | insertValues hd vs => exact on2_of_B d _ h
  | insertSelect hd q => exact on2_of_B d _ h
  | update ws t sets wh ob lm => exact on2_of_B d _ h
  | delete t wh ob lm => exact on2_of_B d _ h
  | createTable c => exact C18.leafC_of_B d c h
  | dropTable b t => exact tblLeaf_of_B t h
  | truncate t => exact tblLeaf_of_B t h
  | msck t => exact tblLeaf_of_B t h
  | use s => exact C18.srcLex_of_B s h
  | set c =>
    simp only [leafAnyB, Bool.and_eq_true] at h
    exact ⟨cfgLex_of_B _ h.1, cfgLex_of_B _ h.2⟩
  | analyze t p fc cm ns =>
    simp only [leafAnyB, Bool.and_eq_true] at h
    exact ⟨tblLeaf_of_B t h.1, on2_of_B d _ h.2⟩
  | alter t ops =>
    simp only [leafAnyB, Bool.and_eq_true] at h
    exact ⟨tblLeaf_of_B t h.1, fun o ho => opLeaf_of_B d o ((List.all_eq_true.mp h.2) o ho)⟩
  | showDatabases => trivial
  | showTables => trivial
  | showColumns fr wh => exact on2_of_B d _ h
  | createTableAs t ine q =>
    simp only [leafAnyB, Bool.and_eq_true] at h
    exact ⟨tblLeaf_of_B t h.1, on2_of_B d _ h.2⟩

/-- the mirror is the printer's text, the hypotheses hold, the lexer gives the rendering, the text has no `==` (compiled evaluation, a test) -/
def agreesA (d : Gen.D) (s : Stmt) : Bool :=
  FragAny d s && printableAny d s && leafAnyB d s &&
    (match PR.prStmt d s with | .ok x => x.toList == anyL d s && eqbL (lexed x) (toksAny d s) | .error _ => false)
/-- the model of the public entry point on the printed text gives the statement back -/
def parsesBack (d : Gen.D) (s : Stmt) : Bool :=
  match PM.parseStatementsText d (anyL d s) with
  | .ok [st] => Drv.showVal st.toVal == Drv.showVal s.toVal
  | _ => false
-- every class, MYSQL and HIVE (`a1`: every kind of ALTER clause; `st1`–`st3`: dotted / dashed / quoted configuration strings; `l1`–`l6`:
-- data-change statements and WITH over the larger query fragment; `C18.t1` / `t2`: CREATE TABLE)
#guard [a1, a3, dr1, dr2, tr1, ms1, us1, us2, st1, st2, st3, an2, sc1, sc2, ca1, ca2, ca3, .showDatabases, .showTables, l1, l2, C03.Dml.d1, C03.Dml.u1,
    C03.Dml.i1, C03.Dml.w1, .select q2w1, .select q2w2, .createTable C18.t2].all (agreesA .MYSQL) &&
  [a2, a3, dr1, dr2, tr1, ms1, us1, us2, st1, st2, st3, an1, an2, an3, an4, sc1, sc2, ca1, ca2, ca3, .showDatabases, .showTables, l1, l2, l3, l5,
    C03.Dml.d1, C03.Dml.i3, C03.Dml.w1, .select q2w2, .createTable C18.t1].all (agreesA .HIVE) &&
  [a2, dr1, st1, sc1, ca1, l2].all (agreesA .ORACLE) && [a2, dr1, us1, sc2, ca2, l1].all (agreesA .POSTGRE_SQL)
#guard [a1, a3, dr1, tr1, ms1, us1, us2, st1, st2, st3, an2, sc1, sc2, ca1, ca3, .showDatabases, l1, l2, .createTable C18.t2].all (parsesBack .MYSQL) &&
  [a2, dr2, us1, st1, an1, an3, an4, sc1, ca1, ca3, .showTables, l3, l5, .createTable C18.t1].all (parsesBack .HIVE)
-- what the printer writes
#guard anyL .MYSQL a3 == "ALTER TABLE `t` \nDROP COLUMN `c`".toList && anyL .HIVE an4 == "ANALYZE TABLE `t`  COMPUTE STATISTICS FOR COLUMNS".toList &&
  anyL .HIVE an1 == "ANALYZE TABLE `t` PARTITION (`dt` = '1')  COMPUTE STATISTICS FOR COLUMNS CACHE METADATA NOSCAN".toList &&
  anyL .MYSQL st1 == "SET hive.exec.dynamic-partition.mode=nonstrict".toList && anyL .MYSQL dr1 == "DROP TABLE IF EXISTS `s.t`".toList &&
  anyL .MYSQL sc2 == "SHOW COLUMNS FROM `t`".toList
-- outside: the printer raises (ANALYZE for ORACLE, CREATE TABLE for ORACLE); SET values the lexer splits differently from the token printer
#guard !printableAny .ORACLE an2 && (match PR.prStmt .ORACLE an2 with | .error .notSupported => true | _ => false) &&
  !printableAny .ORACLE (.createTable C18.t2) && (match PR.prStmt .ORACLE (.createTable C18.t2) with | .error _ => true | _ => false) &&
  FragAny .MYSQL st4 && !leafAnyB .MYSQL st4 && !cfgLexB "x-1.5" && cfgOK "x-1.5" && cfgLexB "a_b.c-d" && cfgLexB "'x.y'" && cfgLexB "12"
/-- **the SET restriction is needed (the token rendering, not the code):** `SET a=x-1.5` — the token-level printer renders the value as ONE
token, the lexer reads three (`x`, `-`, `1.5`); the parser rebuilds the same string from them, so the statement round-trips all the same -/
def stX : Stmt := .set ⟨"a", "x-1.5"⟩
#guard FragAny .MYSQL stX && (match PR.prStmt .MYSQL stX with | .ok x => !eqbL (lexed x) (toksAny .MYSQL stX) && (lexed x).length == 6 | _ => false) &&
  (match PM.parseStatementsText .MYSQL "SET a=x-1.5".toList with | .ok [.set c] => c.name == "a" && c.value == "x-1.5" | _ => false)
-- a script mixing nine classes, separators with layout; the printer's own output (`C10.printedText`)
def mix : List (Stmt × List Char) :=
  [(us1, ";\n".toList), (st1, " ; ".toList), (.createTable C18.t2, ";\n\n".toList), (a1, "\n;\n".toList), (l1, ";".toList),
   (an2, " ;".toList), (C03.Dml.u1, ";\n".toList), (sc1, ";".toList), (ca3, ";  ".toList), (dr1, "\n".toList)]
#guard (match PM.parseStatementsText .MYSQL (C10.scriptOf C10.Part.text (mix.map fun it => ⟨C10.printedText .MYSQL it.1, it.2, toksAny .MYSQL it.1, it.1⟩)) with
  | .ok sts => sts.length == 10 && (sts.zip mix).all fun p => Drv.showVal p.1.toVal == Drv.showVal p.2.1.toVal
  | _ => false)
#guard (match PM.parseStatementsText .HIVE (C10.scriptOf C10.Part.text ([(us1, ";\n".toList), (.createTable C18.t1, " ;\n".toList), (a2, ";".toList),
    (l5, ";\n".toList), (an1, ";".toList), (ms1, ";".toList), (ca1, [])].map (C03.anyPart .HIVE))) with
  | .ok [.use _, .createTable _, .alter _ _, .insertValues _ _, .analyze _ (some _) true true true, .msck _, .createTableAs _ true _] => true
  | _ => false)


/-! instances of the theorems (hypotheses decided by the kernel, conclusions the theorems'): no qualified table, no LIMIT, no SET
(`String.splitOn`, `toString` of integers do not reduce in the kernel) -/
set_option maxRecDepth 100000 in
example : ∃ str ts, PR.prStmt .HIVE k1 = .ok str ∧ Lex.lex Gen.cfgS (dialectPre .HIVE str.toList) = .ok ts ∧ ts = toksAny .HIVE k1 ∧
    pStatement .HIVE (fuelFor ts) ts = .ok (k1, []) ∧ parseStatementsText .HIVE str.toList = .ok [k1] :=
  C03.tstatement_any_text .HIVE k1 (by decide) (by decide) (leafAny_of_B _ _ (by decide +kernel)) (C03.hive_pre_of_occ _ (by decide +kernel))
/-- the five hypotheses on one item of a script, for HIVE / for a dialect without pre-pass patterns -/
macro "hive_item" : tactic =>
  `(tactic| exact ⟨by decide, by decide, leafAny_of_B _ _ (by decide +kernel), C03.hive_pre_of_occ _ (by decide +kernel), by decide⟩)
macro "my_item" : tactic =>
  `(tactic| exact ⟨by decide, by decide, leafAny_of_B _ _ (by decide +kernel), C03.pre_any_id _ (by decide) (by decide) _, by decide⟩)
/-- the items of a script mixing eight classes: ALTER TABLE, DROP TABLE, a DELETE, CREATE TABLE (which swallows its `;` itself), a query of
`FragQ2`, ANALYZE TABLE, SHOW COLUMNS, CREATE TABLE … AS — separators with layout, the last statement without `;` -/
def kmix : List (Stmt × List Char) :=
  [(k1, " ;\n".toList), (k2, ";".toList), (C03.Dml.d0, ";\n".toList), (.createTable C18.t1, "\n;\n".toList), (.select q2w2c, ";".toList),
   (k3, "; ".toList), (k4, ";".toList), (k5, "\n".toList)]
set_option maxRecDepth 100000 in
example : parseStatementsText .HIVE (C10.scriptOf C10.Part.text (kmix.map (C03.anyPart .HIVE))) = .ok (kmix.map (·.1)) :=
  (C03.tscript_any_text .HIVE (by decide) kmix
    (by
      intro it hit
      simp only [kmix, List.mem_cons, List.not_mem_nil, or_false] at hit
      rcases hit with rfl | rfl | rfl | rfl | rfl | rfl | rfl | rfl <;> hive_item)
    ⟨by decide, by decide, by decide, by decide, by decide, by decide, by decide, (by decide : (C10.semis "\n".toList).length ≤ 1)⟩).2
set_option maxRecDepth 100000 in
/-- `C01.statement_round_trip_text_any` on an ALTER TABLE for MYSQL (a column with attributes, a key, a foreign key) and on a data-change
statement over the larger fragment (`DELETE … WHERE m['k'] = 1` is HIVE-only: here `DELETE … WHERE EXTRACT(year FROM ts) > 2000`) -/
def k6 : Stmt := .alter (tn "t") [.add (.col { name := "a", type := ⟨"int", none⟩, notNull := true, comment := some "'x'" }),
  .add (.idx ⟨.normal, some "k", [⟨"a", none⟩], some "BTREE", none, none⟩), .add (.fk ⟨"fk", ["a"], "p", ["x"], some "CASCADE", none⟩),
  .renameColumn "c" "d"]
set_option maxRecDepth 100000 in
example : ∃ str ts, PR.prStmt .MYSQL k6 = .ok str ∧ Lex.lex Gen.cfgS (dialectPre .MYSQL str.toList) = .ok ts ∧
    pStatement .MYSQL (fuelFor ts) ts = .ok (k6, []) ∧ (∀ s', pStatement .MYSQL (fuelFor ts) ts = .ok (s', []) → PR.prStmt .MYSQL s' = .ok str) ∧
    parseStatementsText .MYSQL str.toList = .ok [k6] ∧
    (∀ sts, parseStatementsText .MYSQL str.toList = .ok sts → sts.map (PR.prStmt .MYSQL) = [.ok str]) :=
  C01.statement_round_trip_text_any .MYSQL k6 (by decide) (by decide) (leafAny_of_B _ _ (by decide +kernel)) (C03.pre_any_id _ (by decide) (by decide) _)
set_option maxRecDepth 100000 in
example : parseStatementsText .MYSQL (C10.scriptOf C10.Part.text ([(k6, ";\n".toList), (l7, " ; ".toList), (k2, [])].map
    fun it => ⟨C10.printedText .MYSQL it.1, it.2, toksAny .MYSQL it.1, it.1⟩)) = .ok [k6, l7, k2] :=
  C10.script_of_printed_statements .MYSQL (by decide) [(k6, ";\n".toList), (l7, " ; ".toList), (k2, [])]
    (by
      intro it hit
      simp only [List.mem_cons, List.not_mem_nil, or_false] at hit
      rcases hit with rfl | rfl | rfl <;> my_item)
    ⟨by decide, by decide, (by decide : (C10.semis []).length ≤ 1)⟩
end C03.AnyText
