import MsqProofs.Lemmas.ParseSubst8
import MsqProofs.Props.C06
/-!
# C06, parser half: replacing the INSIDE of a quoted region changes only the texts stored from that region

Built on the generated relational family `MsqProofs/Lemmas/ParseSubst*.lean` (`tools/gen_subst.py`, derived from C09's `tools/gen_case.py`):
for EVERY function `f` of the parser model (the 80 functions of the mutual block of `Parse/Expr.lean`, 18 cursor primitives / helpers, the
57 functions of `Parse/Stmt.lean`, `pStatements`, `pSubValue`, the 11 functions of `Parse/Entry2.lean`) a lemma
`f_qe : args ~ args' → f args ≈ f args'`.

* `PMQ.PaySet` (`Lemmas/ParseSubst0.lean`): a set `P` of PAYLOAD TEXTS — the texts the parser may store from a replaced token — with the side
  condition `inert`: no payload text is (after `str.upper()`) one of `CAST`, `EXTRACT`, `IF`, `SUBSTRING`, `AVG`, `COUNT`, `MAX`, `MIN`, `SUM`;
  a larger set `P2`, closed under concatenation, for the config strings of `SET` / `TBLPROPERTIES` (built by concatenating sources).
* `PMQ.QE t t'` / `PMQ.QEL ts ts'` (`Lemmas/ParseSubst1.lean`): "the same quoted regions, other payloads": equal; or two leaves with the same marks
  whose sources both begin with a quote character, are both / neither ASCII, are payload texts with and without their back-quotes, and —
  if they carry the NAME mark — do not contain exactly one dot; or two bracket groups of the same kind and marks with pointwise related
  children (if the children differ: no NAME mark, and the two renderings `(…)` are payload texts too).
* `≈` is `PMQ.QEX (qeq (List.map erSt0))`: both runs fail with the SAME error kind, or both succeed with trees that are EQUAL AFTER ERASURE
  (`er`: every stored payload text replaced by one constant).  By `C06.erased_eq_iff`: the same statement kinds, the same shape, and in
  every text slot the same text or two payload texts.

## Where the parser inspects the CONTENT of a quoted token (each is a side condition above; Python lines of `core/parser.py`)
see the end of this file (`#guard`s) and the final report of the round: the dot split of ONE name token (F-C06-5, also for QUOTED STRINGS in
table position), the dispatch on the unified function name (`` `cast`(…) ``, `` `count`(DISTINCT …) ``, `` `substring`(a FROM 1) ``, `` `extract`(…) ``,
`` `if`(…) ``: NEW), `int()` on a token source (model only: non-ASCII text is unmodelled).
-/
set_option linter.unusedVariables false
set_option linter.unusedSimpArgs false
set_option linter.unusedSectionVars false
open Lex PM Ast PMQ

namespace C06

/-! ## token level, any payload set: `parse_statements` -/
section general
variable [S : PaySet]

/-- what equality after erasure means for one text slot: the same text, or two payload texts -/
theorem erased_eq_iff (x y : String) : er x = er y ↔ x = y ∨ (PaySet.P x = true ∧ PaySet.P y = true) := er_eq_iff x y

/-- **C06.payload_shape_invariant**: `parse_statements` on two token lists that differ only inside quoted regions (`QEL`): the same error
kind, or two statement lists that are equal after the erasure of payload texts; every dialect, every fuel. -/
theorem payload_shape_invariant (d : Gen.D) (f : Nat) (ts ts' : List Tok) (h : QEL ts ts') :
    QEX (qeq (List.map erSt0)) (pStatements d f ts) (pStatements d f ts') := pStatements_qe d f ts ts' h

/-- the loop of `parse_statements` from any accumulator -/
theorem payload_shape_invariant_loop (d : Gen.D) (f g : Nat) (acc acc' : List Stmt) (ts ts' : List Tok)
    (ha : acc.map erSt0 = acc'.map erSt0) (h : QEL ts ts') :
    QEX (qeq (List.map erSt0)) (statementsLoop d f g acc ts) (statementsLoop d f g acc' ts') :=
  statementsLoop_qe d f g acc ts g acc' ts' rfl ha h

/-- one statement: same error kind, or related statements and RELATED REMAINING CURSORS -/
theorem payload_shape_invariant_statement (d : Gen.D) (f : Nat) (ts ts' : List Tok) (h : QEL ts ts') :
    QER (qeq erSt0) (pStatement d f ts) (pStatement d f ts') := pStatement_qe d f ts ts' h

/-- accepted alike -/
theorem payload_shape_invariant_accept (d : Gen.D) (f : Nat) (ts ts' : List Tok) (h : QEL ts ts') (ss : List Stmt)
    (hs : pStatements d f ts = .ok ss) : ∃ ss', pStatements d f ts' = .ok ss' ∧ ss.map erSt0 = ss'.map erSt0 := by
  have := payload_shape_invariant d f ts ts' h
  rw [hs] at this
  cases h' : pStatements d f ts' with
  | error e => rw [h'] at this; simp at this
  | ok ss' => rw [h'] at this; exact ⟨ss', rfl, by simpa using this⟩
/-- rejected alike, with the same error kind -/
theorem payload_shape_invariant_reject (d : Gen.D) (f : Nat) (ts ts' : List Tok) (h : QEL ts ts') (e : Err)
    (hs : pStatements d f ts = .error e) : pStatements d f ts' = .error e := by
  have := payload_shape_invariant d f ts ts' h
  rw [hs] at this
  cases h' : pStatements d f ts' with
  | error e' => rw [h'] at this; simp at this; rw [this]
  | ok ss' => rw [h'] at this; simp at this

/-- the kind of a statement (its constructor) -/
def stmtKind : Stmt → Nat
  | .select _ => 0 | .insertValues _ _ => 1 | .insertSelect _ _ => 2 | .update .. => 3 | .delete .. => 4 | .createTable _ => 5
  | .createTableAs .. => 6 | .dropTable _ _ => 7 | .set _ => 8 | .analyze .. => 9 | .alter _ _ => 10 | .msck _ => 11 | .use _ => 12
  | .truncate _ => 13 | .showDatabases => 14 | .showTables => 15 | .showColumns _ _ => 16
theorem stmtKind_erSt0 (s : Stmt) : stmtKind (erSt0 s) = stmtKind s := by cases s <;> rfl
/-- the same number of statements, of the same kinds, in the same order -/
theorem payload_shape_invariant_kinds (d : Gen.D) (f : Nat) (ts ts' : List Tok) (h : QEL ts ts') (ss ss' : List Stmt)
    (hs : pStatements d f ts = .ok ss) (hs' : pStatements d f ts' = .ok ss') : ss.map stmtKind = ss'.map stmtKind := by
  obtain ⟨ss2, h2, he⟩ := payload_shape_invariant_accept d f ts ts' h ss hs
  rw [hs'] at h2; cases h2
  have := congrArg (List.map stmtKind) he
  simpa [List.map_map, Function.comp_def, stmtKind_erSt0] using this

/-- when neither tree stores a payload text (the erasure fixes both) the trees are EQUAL -/
theorem same_erasure_same_tree (ss ss' : List Stmt) (h : ss.map erSt0 = ss'.map erSt0) (h1 : ss.map erSt0 = ss) (h2 : ss'.map erSt0 = ss') :
    ss = ss' := by rw [← h1, ← h2, h]

/-! ## every entry point of `PM.entries` -/

/-- the outcome of an entry point up to the value: the same error kind, or success with related remaining cursors -/
def OutcomeQE (a b : Except Err (Val × List Tok)) : Prop :=
  match a, b with
  | .ok (_, r), .ok (_, r') => QEL r r'
  | .error e, .error e' => e = e'
  | _, _ => False
@[simp] theorem outcomeQ_ok_ok (v v' : Val) (r r' : List Tok) : OutcomeQE (.ok (v, r)) (.ok (v', r')) = QEL r r' := by simp [OutcomeQE]
@[simp] theorem outcomeQ_err_err (e e' : Err) : OutcomeQE (.error e) (.error e') = (e = e') := by simp [OutcomeQE]
@[simp] theorem outcomeQ_ok_err (p : Val × List Tok) (e : Err) : OutcomeQE (.ok p) (.error e) = False := by
  obtain ⟨v, r⟩ := p; simp [OutcomeQE]
@[simp] theorem outcomeQ_err_ok (p : Val × List Tok) (e : Err) : OutcomeQE (.error e) (.ok p) = False := by
  obtain ⟨v, r⟩ := p; simp [OutcomeQE]

/-- one entry point from the lemma of the function it wraps -/
macro "entry_qe " t:term : tactic =>
  `(tactic| (have hc := $t; (try dsimp only [exprEntry, stmtEntry, mapEntry]); split <;> split <;> simp_all))

/-- **C06.entries_payload_invariant**: EVERY entry point `SQLParser.parse_*` of the model (`PM.entries`, 58 of them), on two token lists
that differ only inside quoted regions (`QEL`): accepted / rejected alike, the same error kind, related remaining cursors. -/
theorem entries_payload_invariant : ∀ e ∈ PM.entries, ∀ (d : Gen.D) (f : Nat) (ts ts' : List Tok), QEL ts ts' →
    OutcomeQE (e.2 d f ts) (e.2 d f ts') := by
  unfold PM.entries
  simp only [List.forall_mem_cons, List.not_mem_nil, false_imp_iff, implies_true, and_true]
  and_intros
  all_goals intro d f ts ts' h
  all_goals try dsimp only [exprEntry, stmtEntry, mapEntry]
  case _ => entry_qe popSrc_qe ts ts' h
  case _ => entry_qe pTblName_qe ts ts' h
  case _ => entry_qe pColumnName_qe ts ts' h
  case _ => entry_qe pFuncName_qe ts ts' h
  case _ => entry_qe pFunc_qe d f ts ts' h
  case _ => entry_qe pFuncIdx_qe d f ts ts' h
  case _ => entry_qe pCast_qe d f ts ts' h
  case _ => entry_qe pExtract_qe d f ts ts' h
  case _ => entry_qe pIfCall_qe d f ts ts' h
  case _ => entry_qe pWindow_qe d f ts ts' h
  case _ => entry_qe pCase_qe d f ts ts' h
  case _ => entry_qe pSubQuery_qe d f ts ts' h
  case _ => entry_qe pSubValue_qe d f ts ts' h
  case _ => entry_qe pElement_qe d f ts ts' h
  case _ => entry_qe pUnary_qe d f ts ts' h
  case _ => entry_qe pCompute_qe d f ts ts' h
  case _ => entry_qe pKeyword_qe d f none ts none ts' rfl h
  case _ => entry_qe pCompare_qe d f ts ts' h
  case _ => entry_qe pNot_qe d f ts ts' h
  case _ => entry_qe pAnd_qe d f ts ts' h
  case _ => entry_qe pXor_qe d f ts ts' h
  case _ => entry_qe pOr_qe d f ts ts' h
  case _ => entry_qe pFromTable_qe d f ts ts' h
  case _ => entry_qe pJoin_qe d f ts ts' h
  case _ => entry_qe pTableExpr_qe d f ts ts' h
  case _ => entry_qe pOptOr_qe d f "WHERE" ts "WHERE" ts' rfl (by decide) h
  case _ => entry_qe pOrderByOpt_qe d f ts ts' h
  case _ =>
    have hc := pGroupBy_qe d f ts ts' h
    revert hc; generalize pGroupBy d f ts = a; generalize pGroupBy d f ts' = b; intro hc
    match a, b, hc with
    | .ok (x, r), .ok (x', r'), hc => simp at hc; simp [hc.2]
    | .error e, .error e', hc => simp at hc; simp [hc]
    | .ok (_, _), .error _, hc => simp at hc
    | .error _, .ok (_, _), hc => simp at hc
  case _ => entry_qe pLimit_qe ts ts' h
  case _ => entry_qe pWith_qe d f ts ts' h
  case _ => entry_qe pLateral_qe d f ts ts' h
  case _ =>
    have hw := pWith_qe d f ts ts' h
    revert hw; generalize pWith d f ts = a; generalize pWith d f ts' = b; intro hw
    match a, b, hw with
    | .ok (w, r), .ok (w', r'), hw =>
      simp at hw
      have hs := pSingle_qe d f w r w' r' hw.1 hw.2
      revert hs; dsimp only; generalize pSingle d f w r = a2; generalize pSingle d f w' r' = b2; intro hs
      match a2, b2, hs with
      | .ok (x, r), .ok (x', r'), hs => simp at hs; simp [hs.2]
      | .error e, .error e', hs => simp at hs; simp [hs]
      | .ok (_, _), .error _, hs => simp at hs
      | .error _, .ok (_, _), hs => simp at hs
    | .error e, .error e', hw => simp at hw; simp [hw]
    | .ok (_, _), .error _, hw => simp at hw
    | .error _, .ok (_, _), hw => simp at hw
  case _ => entry_qe pSelectStmt_qe d f none ts none ts' rfl h
  case _ => entry_qe pConfigStrExpr_qe ts ts' h
  case _ => entry_qe pColType_qe d f ts ts' h
  case _ => entry_qe pPartition_qe d f false ts false ts' rfl h
  case _ => entry_qe pForeignKey_qe ts ts' h
  case _ => entry_qe pIndexCol_qe ts ts' h
  case _ => entry_qe pPrimaryIndex_qe ts ts' h
  case _ => entry_qe pUniqueIndex_qe ts ts' h
  case _ => entry_qe pNormalIndex_qe ts ts' h
  case _ => entry_qe pFulltextIndex_qe ts ts' h
  case _ => entry_qe pDefCol_qe d f ts ts' h
  case _ => entry_qe pColOrIdx_qe d f ts ts' h
  case _ => entry_qe pAlterExpr_qe d f ts ts' h
  case _ => entry_qe pSet_qe ts ts' h
  case _ => entry_qe pCreateTable_qe d f ts ts' h
  case _ => entry_qe pDropTable_qe ts ts' h
  case _ => entry_qe pAnalyze_qe d f ts ts' h
  case _ => entry_qe pAlter_qe d f ts ts' h
  case _ => entry_qe pMsck_qe ts ts' h
  case _ => entry_qe pUse_qe ts ts' h
  case _ => entry_qe pTruncate_qe ts ts' h
  case _ => entry_qe pUpdate_qe d f none ts none ts' rfl h
  case _ => entry_qe pDelete_qe d f ts ts' h
  case _ => entry_qe pShowColumns_qe d f ts ts' h
  case _ => entry_qe pInsert_qe d f none ts none ts' rfl h
  case _ => entry_qe pStatements_qe d f ts ts' h

/-- the number of entry points covered -/
example : PM.entries.length = 58 := by decide

/-- **C06.entries2_payload_invariant**: the same for the other 26 public entry points (`PM.entries2`, `MsqModel/Parse/Entry2.lean`; their
functions: `Lemmas/ParseCase8.lean`) -/
theorem entries2_payload_invariant : ∀ e ∈ PM.entries2, ∀ (d : Gen.D) (f : Nat) (ts ts' : List Tok), QEL ts ts' →
    OutcomeQE (e.2 d f ts) (e.2 d f ts') := by
  unfold PM.entries2
  simp only [List.forall_mem_cons, List.not_mem_nil, false_imp_iff, implies_true, and_true]
  and_intros
  all_goals intro d f ts ts' h
  case _ => entry_qe pInsertType_qe ts ts' h
  case _ => entry_qe pJoinType_qe ts ts' h
  case _ => entry_qe pOrderType_qe ts ts' h
  case _ => entry_qe pUnionType_qe ts ts' h
  case _ => entry_qe pCompareOp_qe ts ts' h
  case _ => entry_qe pComputeOp_qe ts ts' h
  case _ => entry_qe pCastDataType_qe ts ts' h
  case _ => entry_qe pRowItem_qe ts ts' h
  case _ => entry_qe pWindowRow_qe ts ts' h
  case _ => entry_qe pWildcard_qe ts ts' h
  case _ => entry_qe pAlias_qe ts ts' h
  case _ => entry_qe pMultiAlias_qe ts ts' h
  case _ => entry_qe pJoinOn_qe d f ts ts' h
  case _ => entry_qe pJoinUsing_qe d f ts ts' h
  case _ => entry_qe pJoinExpr_qe d f ts ts' h
  case _ => entry_qe pSelectCol_qe d f ts ts' h
  case _ => entry_qe pSelectClause_qe d f ts ts' h
  case _ => entry_qe pFromClause_qe d f ts ts' h
  case _ => entry_qe pGroupingSets_qe d f ts ts' h
  case _ => entry_qe pOptOr_qe d f "HAVING" ts "HAVING" ts' rfl (by decide) h
  case _ => entry_qe pSortBy_qe d f ts ts' h
  case _ => entry_qe pByList_qe d f "DISTRIBUTE" ts "DISTRIBUTE" ts' rfl (by decide) h
  case _ => entry_qe pByList_qe d f "CLUSTER" ts "CLUSTER" ts' rfl (by decide) h
  case _ => entry_qe pWithTable_qe d f ts ts' h
  case _ => entry_qe pUpdateSetCol_qe d f ts ts' h
  case _ => entry_qe pUpdateSet_qe d f ts ts' h

/-- **C06.entriesAll_payload_invariant**: all 84 public parsing entry points -/
theorem entriesAll_payload_invariant : ∀ e ∈ PM.entriesAll, ∀ (d : Gen.D) (f : Nat) (ts ts' : List Tok), QEL ts ts' →
    OutcomeQE (e.2 d f ts) (e.2 d f ts') := by
  intro e he
  simp only [entriesAll, List.mem_append] at he
  rcases he with he | he
  · exact entries_payload_invariant e he
  · exact entries2_payload_invariant e he
example : PM.entriesAll.length = 84 := by decide

/-! ## text level -/

mutual
theorem qe_size : ∀ t t' : Tok, QE t t' → Tok.size t = Tok.size t'
  | .single _ _, .single _ _, _ => rfl
  | .group _ cs _, .group _ cs' _, h => by simp only [QE] at h; simp only [Tok.size, qel_sizeL cs cs' h.2.2.1]
  | .single _ _, .group _ _ _, h => by simp [QE] at h
  | .group _ _ _, .single _ _, h => by simp [QE] at h
/-- the fuel the entry points compute does not depend on payloads -/
theorem qel_sizeL : ∀ ts ts' : List Tok, QEL ts ts' → sizeL ts = sizeL ts'
  | [], [], _ => rfl
  | t :: ts, t' :: ts', h => by simp only [qel_cons_cons] at h; simp only [sizeL, qe_size t t' h.1, qel_sizeL ts ts' h.2]
  | [], _ :: _, h => by simp at h
  | _ :: _, [], h => by simp at h
end
theorem qel_fuelFor (ts ts' : List Tok) (h : QEL ts ts') : fuelFor ts = fuelFor ts' := by simp [fuelFor, qel_sizeL ts ts' h]

/-- **C06.parse_payload_invariant_text**: the model of `SQLParser.parse_statements(text, dialect)` (dialect pre-pass, shipped lexer, the fuel
it computes itself) on two texts whose token lists differ only inside quoted regions: the same error kind, or statement lists
equal after `erAll`. -/
theorem parse_payload_invariant_text (d : Gen.D) (text text' : List Char) (ts ts' : List Tok)
    (h1 : lex Gen.cfgS (dialectPre d text) = .ok ts) (h2 : lex Gen.cfgS (dialectPre d text') = .ok ts') (h : QEL ts ts') :
    QEX (qeq (List.map erSt0)) (parseStatementsText d text) (parseStatementsText d text') := by
  simp only [parseStatementsText, h1, h2, qel_fuelFor ts ts' h]
  exact payload_shape_invariant d _ ts ts' h

/-- the outcome of a text-level entry point up to the value: the same error kind, or success with the same number of unconsumed tokens -/
def OutcomeTextQE (a b : Except Err (Val × Nat)) : Prop :=
  match a, b with
  | .ok (_, n), .ok (_, n') => n = n'
  | .error e, .error e' => e = e'
  | _, _ => False

/-- **C06.parseText_payload_invariant**: EVERY text-level entry point `SQLParser.parse_<entry>(text, dialect)` of the model: accepted /
rejected alike, the same error kind, the same number of unconsumed tokens. -/
theorem parseText_payload_invariant (entry : String) (d : Gen.D) (text text' : List Char) (ts ts' : List Tok)
    (h1 : lex Gen.cfgS (dialectPre d text) = .ok ts) (h2 : lex Gen.cfgS (dialectPre d text') = .ok ts') (h : QEL ts ts') :
    OutcomeTextQE (parseText entry d text) (parseText entry d text') := by
  unfold parseText
  cases hf : PM.entries.find? (·.1 == entry) with
  | none => simp [OutcomeTextQE]
  | some e =>
    obtain ⟨n, p⟩ := e
    have hm : (n, p) ∈ PM.entries := List.mem_of_find?_eq_some hf
    have this : OutcomeQE (p d (fuelFor ts) ts) (p d (fuelFor ts) ts') := entries_payload_invariant (n, p) hm d (fuelFor ts) ts ts' h
    simp only [h1, h2, ← qel_fuelFor ts ts' h]
    cases ha : p d (fuelFor ts) ts <;> cases hb : p d (fuelFor ts) ts' <;> rw [ha, hb] at this <;> simp_all [OutcomeTextQE]
    exact qel_length this

/-- one entry run on the token lists of two texts -/
theorem run_entry_text (p : Entry) (hp : ∀ (d : Gen.D) (f : Nat) (ts ts' : List Tok), QEL ts ts' → OutcomeQE (p d f ts) (p d f ts'))
    (d : Gen.D) (ts ts' : List Tok) (h : QEL ts ts') :
    OutcomeTextQE (match p d (fuelFor ts) ts with | .ok (v, r) => .ok (v, r.length) | .error e => .error e)
      (match p d (fuelFor ts') ts' with | .ok (v, r) => .ok (v, r.length) | .error e => .error e) := by
  have := hp d (fuelFor ts) ts ts' h
  rw [← qel_fuelFor ts ts' h]
  cases ha : p d (fuelFor ts) ts <;> cases hb : p d (fuelFor ts) ts' <;> rw [ha, hb] at this <;> simp_all [OutcomeTextQE]
  exact qel_length this
/-- **C06.parseText2_payload_invariant**: every one of the 84 public entry points `SQLParser.parse_<entry>(text, dialect)` -/
theorem parseText2_payload_invariant (entry : String) (d : Gen.D) (text text' : List Char) (ts ts' : List Tok)
    (h1 : lex Gen.cfgS (dialectPre d text) = .ok ts) (h2 : lex Gen.cfgS (dialectPre d text') = .ok ts') (h : QEL ts ts') :
    OutcomeTextQE (parseText2 entry d text) (parseText2 entry d text') := by
  unfold parseText2
  cases hf : PM.entriesAll.find? (·.1 == entry) with
  | none => simp [OutcomeTextQE]
  | some e =>
    obtain ⟨n, p⟩ := e
    simp only [h1, h2]
    exact run_entry_text p (entriesAll_payload_invariant (n, p) (List.mem_of_find?_eq_some hf)) d ts ts' h
/-- … and called with a `TokenScanner` (no dialect pre-pass: the hypothesis is on the token lists of the texts themselves) -/
theorem parseScanner2_payload_invariant (entry : String) (d : Gen.D) (text text' : List Char) (ts ts' : List Tok)
    (h1 : lex Gen.cfgS text = .ok ts) (h2 : lex Gen.cfgS text' = .ok ts') (h : QEL ts ts') :
    OutcomeTextQE (parseScanner2 entry d text) (parseScanner2 entry d text') := by
  unfold parseScanner2
  cases hf : PM.entriesAll.find? (·.1 == entry) with
  | none => simp [OutcomeTextQE]
  | some e =>
    obtain ⟨n, p⟩ := e
    simp only [h1, h2]
    exact run_entry_text p (entriesAll_payload_invariant (n, p) (List.mem_of_find?_eq_some hf)) d ts ts' h


end general

/-! ## a concrete payload set; ONE replaced leaf (the relation `C06.subL` of the lexer half) -/

open Classical in
/-- the payload set given by a list of texts `ws`; config strings: every text that CONTAINS one of them -/
@[reducible] noncomputable def payOfList (ws : List String) (w0 : String) (h0 : w0 ∈ ws) (hi : ∀ s ∈ ws, inertB s = true) : PaySet where
  P := fun s => ws.contains s
  c := w0
  hc := by simpa using h0
  inert := fun s hs => hi s (by simpa using hs)
  P2 := fun s => decide (∃ w ∈ ws, w.toList <:+: s.toList)
  c2 := w0
  hc2 := by simp only [decide_eq_true_eq]; exact ⟨w0, h0, List.infix_refl _⟩
  sub := fun s hs => by simp only [decide_eq_true_eq]; exact ⟨s, by simpa using hs, List.infix_refl _⟩
  catL := fun a b h => by
    simp only [decide_eq_true_eq] at h ⊢
    obtain ⟨w, hw, hx⟩ := h
    exact ⟨w, hw, by rw [String.toList_append]; exact hx.trans (List.prefix_append _ _).isInfix⟩
  catR := fun a b h => by
    simp only [decide_eq_true_eq] at h ⊢
    obtain ⟨w, hw, hx⟩ := h
    exact ⟨w, hw, by rw [String.toList_append]; exact hx.trans (List.suffix_append _ _).isInfix⟩

/-- a text that begins with a quote character or `(` is none of the function names -/
theorem inert_of_opq {s : String} (h : Opq s) : inertB s = true := by
  have h1 := opq_contains (opq_up h) ["CAST", "EXTRACT", "IF", "SUBSTRING"] (by decide)
  have h2 := opq_contains (opq_up h) Gen.aggNames (by decide)
  simp only [inertB, h1, h2]; rfl

/-- the texts the parser can store from the two leaves -/
def leafTexts (s s' : List Char) : List String :=
  [String.ofList s, String.ofList s', unifyName (String.ofList s), unifyName (String.ofList s')]
mutual
/-- the renderings `(…)` of the bracket groups on which two token trees differ (the parser stores the rendering of a whole group in a few
degenerate positions: the name of a WITH table, of a lateral view, `a.(…)`, an index-only bracket in element position) -/
def diffSrc : Tok → Tok → List String
  | .group k cs m, .group k' cs' m' =>
    if eqbL cs cs' then [] else Tok.src (.group k cs m) :: Tok.src (.group k' cs' m') :: diffSrcL cs cs'
  | _, _ => []
def diffSrcL : List Tok → List Tok → List String
  | t :: ts, t' :: ts' => diffSrc t t' ++ diffSrcL ts ts'
  | _, _ => []
end
mutual
/-- no bracket group carries the NAME mark (the lexer emits groups with the PARENTHESIS / ARRAY_INDEX mark only) -/
def noNameGroup : Tok → Bool
  | .single _ _ => true
  | .group _ cs m => (m &&& NAME == 0) && noNameGroupL cs
def noNameGroupL : List Tok → Bool
  | [] => true
  | t :: ts => noNameGroup t && noNameGroupL ts
end

section oneLeaf
variable (s s' : List Char) (m : Nat) (hna : s.any p128 = s'.any p128)
include hna
mutual
theorem subT_any : ∀ t t' : Tok, subT (.single s m) (.single s' m) t t' → (Tok.source t).any p128 = (Tok.source t').any p128
  | .single a k, t', h => by
    simp only [subT] at h
    rcases h with rfl | ⟨hx, rfl⟩
    · rfl
    · cases hx; simpa [Tok.source] using hna
  | .group g cs k, t', h => by
    simp only [subT] at h
    obtain ⟨ds, rfl, hl⟩ := h
    simp only [Tok.source, List.any_cons, List.any_append, subL_any cs ds hl]
theorem subL_any : ∀ ts ts' : List Tok, subL (.single s m) (.single s' m) ts ts' → (sourceL ts).any p128 = (sourceL ts').any p128
  | [], ts', h => by simp only [subL] at h; rw [h]
  | a :: as, ts', h => by
    simp only [subL] at h
    obtain ⟨b, bs, rfl, h1, h2⟩ := h
    simp only [sourceL, List.any_append, subT_any a b h1, subL_any as bs h2]
end
end oneLeaf

mutual
theorem diffSrc_opq : ∀ (t t' : Tok), ∀ w ∈ diffSrc t t', Opq w
  | .group k cs m, .group k' cs' m', w, hw => by
    simp only [diffSrc] at hw
    split at hw
    · simp at hw
    · simp only [List.mem_cons] at hw
      rcases hw with rfl | rfl | hw
      · exact opq_ofList (by simp [Tok.source, opaqueHead])
      · exact opq_ofList (by simp [Tok.source, opaqueHead])
      · exact diffSrcL_opq cs cs' w hw
  | .single _ _, _, w, hw => by simp [diffSrc] at hw
  | .group _ _ _, .single _ _, w, hw => by simp [diffSrc] at hw
theorem diffSrcL_opq : ∀ (ts ts' : List Tok), ∀ w ∈ diffSrcL ts ts', Opq w
  | t :: ts, t' :: ts', w, hw => by
    simp only [diffSrcL, List.mem_append] at hw
    rcases hw with hw | hw
    · exact diffSrc_opq t t' w hw
    · exact diffSrcL_opq ts ts' w hw
  | [], _, w, hw => by simp [diffSrcL] at hw
  | _ :: _, [], w, hw => by simp [diffSrcL] at hw
end

section build
variable [S : PaySet] (s s' : List Char) (m : Nat)
  (hQ : SrcQ s s') (hdot : m &&& NAME = 0 ∨ (dotOK s = true ∧ dotOK s' = true))
include hQ hdot
mutual
/-- one replaced leaf, in any nesting of brackets: `QE` — provided the payload set contains the renderings of the enclosing groups -/
theorem qe_of_subT : ∀ t t' : Tok, subT (.single s m) (.single s' m) t t' → noNameGroup t = true →
    (∀ w ∈ diffSrc t t', PaySet.P w = true) → QE t t'
  | .single a k, t', h, _, _ => by
    simp only [subT] at h
    rcases h with rfl | ⟨hx, rfl⟩
    · exact QE.refl _
    · cases hx; simp only [QE, true_and]; exact .inr ⟨hQ, hdot⟩
  | .group g cs k, t', h, hn, hw => by
    simp only [subT] at h
    obtain ⟨ds, rfl, hl⟩ := h
    simp only [noNameGroup, Bool.and_eq_true, beq_iff_eq] at hn
    simp only [QE, true_and]
    by_cases e : eqbL cs ds = true
    · have := eqbL_sound cs ds e; subst this
      exact ⟨QEL.refl _, .inl rfl⟩
    · have hw2 : ∀ w ∈ diffSrcL cs ds, PaySet.P w = true := fun w hm => hw w (by simp [diffSrc, e, hm])
      refine ⟨qel_of_subL cs ds hl hn.2 hw2, .inr ⟨hn.1, ?_⟩⟩
      have ha := subL_any s s' m hQ.2.2.1 cs ds hl
      have p1 := hw (Tok.src (.group g cs k)) (by simp [diffSrc, e])
      have p2 := hw (Tok.src (.group g ds k)) (by simp [diffSrc, e])
      simp only [Tok.src, Tok.source] at p1 p2
      refine ⟨by simp [opaqueHead], by simp [opaqueHead], ?_, p1, p2, ?_, ?_⟩
      · simp only [List.any_cons, List.any_append, ha]
      · rw [unifyName_paren]; exact p1
      · rw [unifyName_paren]; exact p2
theorem qel_of_subL : ∀ ts ts' : List Tok, subL (.single s m) (.single s' m) ts ts' → noNameGroupL ts = true →
    (∀ w ∈ diffSrcL ts ts', PaySet.P w = true) → QEL ts ts'
  | [], ts', h, _, _ => by simp only [subL] at h; rw [h]; simp
  | a :: as, ts', h, hn, hw => by
    simp only [subL] at h
    obtain ⟨b, bs, rfl, h1, h2⟩ := h
    simp only [noNameGroupL, Bool.and_eq_true] at hn
    simp only [qel_cons_cons]
    exact ⟨qe_of_subT a b h1 hn.1 (fun w hm => hw w (by simp [diffSrcL, hm])),
      qel_of_subL as bs h2 hn.2 (fun w hm => hw w (by simp [diffSrcL, hm]))⟩
end
end build

/-- **C06.payload_one_leaf**: `ts'` is `ts` with the leaf `(s, m)` replaced by `(s', m)` at some of its occurrences (`C06.subL`, what the
lexer half delivers for two texts that differ inside one quoted region).  If both sources begin with a quote character, are both / neither
ASCII, — in case of the NAME mark — contain not exactly one dot, and the names `unifyName s`, `unifyName s'` are none of the function names the
parser dispatches on, then `parse_statements` gives the same error kind, or statement lists that are equal after the erasure of the texts
`W` = the two sources, the two sources without back-quotes, and the renderings of the bracket groups that contain the leaf. -/
theorem payload_one_leaf (d : Gen.D) (f : Nat) (s s' : List Char) (m : Nat) (ts ts' : List Tok)
    (hsub : subL (.single s m) (.single s' m) ts ts')
    (ho : opaqueHead s = true) (ho' : opaqueHead s' = true) (hna : s.any p128 = s'.any p128)
    (hdot : m &&& NAME = 0 ∨ (dotOK s = true ∧ dotOK s' = true))
    (hi : inertB (unifyName (String.ofList s)) = true) (hi' : inertB (unifyName (String.ofList s')) = true)
    (hng : noNameGroupL ts = true) :
    ∃ S : PaySet, (∀ w, S.P w = true ↔ w ∈ leafTexts s s' ++ diffSrcL ts ts') ∧ QEL ts ts' ∧
      QEX (qeq (List.map erSt0)) (pStatements d f ts) (pStatements d f ts') := by
  have hW : ∀ w ∈ leafTexts s s' ++ diffSrcL ts ts', inertB w = true := by
    intro w hw
    simp only [List.mem_append, leafTexts, List.mem_cons, List.not_mem_nil, or_false] at hw
    rcases hw with (rfl | rfl | rfl | rfl) | hw
    · exact inert_of_opq (opq_ofList ho)
    · exact inert_of_opq (opq_ofList ho')
    · exact hi
    · exact hi'
    · exact inert_of_opq (diffSrcL_opq ts ts' w hw)
  let S : PaySet := payOfList (leafTexts s s' ++ diffSrcL ts ts') (String.ofList s) (by simp [leafTexts]) hW
  have hP : ∀ w, S.P w = true ↔ w ∈ leafTexts s s' ++ diffSrcL ts ts' := fun w => by
    show (leafTexts s s' ++ diffSrcL ts ts').contains w = true ↔ _
    simp
  have hQ : @SrcQ S s s' := by
    refine ⟨ho, ho', hna, ?_, ?_, ?_, ?_⟩ <;> rw [hP] <;> simp [leafTexts]
  have hqel : @QEL S ts ts' := @qel_of_subL S s s' m hQ hdot ts ts' hsub hng (fun w hw => (hP w).2 (by simp [hw]))
  exact ⟨S, hP, hqel, @payload_shape_invariant S d f ts ts' hqel⟩

/-! ## the relation in concrete terms: ANY number of replaced regions -/

/-- the text of a quoted region: it begins with a quote character `'` `"` `` ` `` and ends with the same character -/
def quotedSrc (s : List Char) : Bool :=
  match s with
  | c :: r => (c == '\'' || c == '"' || c == '`') && r.getLast? == some c
  | [] => false
theorem quotedSrc_opaque {s : List Char} (h : quotedSrc s = true) : opaqueHead s = true := by
  cases s with
  | nil => simp [quotedSrc] at h
  | cons c r =>
    simp only [quotedSrc, Bool.and_eq_true, Bool.or_eq_true, beq_iff_eq] at h
    simp only [opaqueHead, Bool.or_eq_true, beq_iff_eq]
    rcases h.1 with (h | h) | h <;> simp [h]

mutual
/-- **"the same quoted region, other payload"**, spelled out: equal; or two leaves with the same marks that are both quoted regions of the
same quote kind, both / neither ASCII, with not exactly one dot if they carry the NAME mark, whose names (back-quotes stripped) are none of
the function names the parser dispatches on; or two bracket groups (without the NAME mark if they differ) with related children -/
def SameQuoted : Tok → Tok → Prop
  | .single s m, .single s' m' => m = m' ∧ (s = s' ∨
      (quotedSrc s = true ∧ quotedSrc s' = true ∧ s.head? = s'.head? ∧ s.any p128 = s'.any p128 ∧
       (m &&& NAME = 0 ∨ (dotOK s = true ∧ dotOK s' = true)) ∧
       inertB (unifyName (String.ofList s)) = true ∧ inertB (unifyName (String.ofList s')) = true))
  | .group k cs m, .group k' cs' m' => k = k' ∧ m = m' ∧ SameQuotedL cs cs' ∧ (cs = cs' ∨ m &&& NAME = 0)
  | .single _ _, .group _ _ _ => False
  | .group _ _ _, .single _ _ => False
def SameQuotedL : List Tok → List Tok → Prop
  | [], [] => True
  | t :: ts, t' :: ts' => SameQuoted t t' ∧ SameQuotedL ts ts'
  | [], _ :: _ => False
  | _ :: _, [] => False
end
mutual
/-- the payload texts of two related token trees: for every pair of different leaves the two texts, with and without back-quotes; for every
pair of different groups the two renderings -/
def payTexts : Tok → Tok → List String
  | .single s _, .single s' _ => if s == s' then [] else leafTexts s s'
  | .group k cs m, .group k' cs' m' =>
    if eqbL cs cs' then [] else Tok.src (.group k cs m) :: Tok.src (.group k' cs' m') :: payTextsL cs cs'
  | _, _ => []
def payTextsL : List Tok → List Tok → List String
  | t :: ts, t' :: ts' => payTexts t t' ++ payTextsL ts ts'
  | _, _ => []
end

mutual
theorem sameQuoted_any : ∀ t t' : Tok, SameQuoted t t' → (Tok.source t).any p128 = (Tok.source t').any p128
  | .single s m, .single s' m', h => by
    simp only [SameQuoted] at h
    rcases h.2 with rfl | h2
    · rfl
    · exact h2.2.2.2.1
  | .group k cs m, .group k' cs' m', h => by
    simp only [SameQuoted] at h
    simp only [Tok.source, List.any_cons, List.any_append, sameQuotedL_any cs cs' h.2.2.1]
  | .single _ _, .group _ _ _, h => by simp [SameQuoted] at h
  | .group _ _ _, .single _ _, h => by simp [SameQuoted] at h
theorem sameQuotedL_any : ∀ ts ts' : List Tok, SameQuotedL ts ts' → (sourceL ts).any p128 = (sourceL ts').any p128
  | [], [], _ => rfl
  | t :: ts, t' :: ts', h => by
    simp only [SameQuotedL] at h
    simp only [sourceL, List.any_append, sameQuoted_any t t' h.1, sameQuotedL_any ts ts' h.2]
  | [], _ :: _, h => by simp [SameQuotedL] at h
  | _ :: _, [], h => by simp [SameQuotedL] at h
end

mutual
/-- every payload text is inert (none of the dispatched function names) -/
theorem payTexts_inert : ∀ t t' : Tok, SameQuoted t t' → ∀ w ∈ payTexts t t', inertB w = true
  | .single s m, .single s' m', h, w, hw => by
    simp only [SameQuoted] at h
    simp only [payTexts] at hw
    split at hw
    · simp at hw
    · rename_i hne
      rcases h.2 with rfl | h2
      · simp at hne
      · simp only [leafTexts, List.mem_cons, List.not_mem_nil, or_false] at hw
        rcases hw with rfl | rfl | rfl | rfl
        · exact inert_of_opq (opq_ofList (quotedSrc_opaque h2.1))
        · exact inert_of_opq (opq_ofList (quotedSrc_opaque h2.2.1))
        · exact h2.2.2.2.2.2.1
        · exact h2.2.2.2.2.2.2
  | .group k cs m, .group k' cs' m', h, w, hw => by
    simp only [SameQuoted] at h
    simp only [payTexts] at hw
    split at hw
    · simp at hw
    · simp only [List.mem_cons] at hw
      rcases hw with rfl | rfl | hw
      · exact inert_of_opq (opq_ofList (by simp [Tok.source, opaqueHead]))
      · exact inert_of_opq (opq_ofList (by simp [Tok.source, opaqueHead]))
      · exact payTextsL_inert cs cs' h.2.2.1 w hw
  | .single _ _, .group _ _ _, h, _, _ => by simp [SameQuoted] at h
  | .group _ _ _, .single _ _, h, _, _ => by simp [SameQuoted] at h
theorem payTextsL_inert : ∀ ts ts' : List Tok, SameQuotedL ts ts' → ∀ w ∈ payTextsL ts ts', inertB w = true
  | [], [], _, w, hw => by simp [payTextsL] at hw
  | t :: ts, t' :: ts', h, w, hw => by
    simp only [SameQuotedL] at h
    simp only [payTextsL, List.mem_append] at hw
    rcases hw with hw | hw
    · exact payTexts_inert t t' h.1 w hw
    · exact payTextsL_inert ts ts' h.2 w hw
  | [], _ :: _, h, _, _ => by simp [SameQuotedL] at h
  | _ :: _, [], h, _, _ => by simp [SameQuotedL] at h
end

section concrete
variable [S : PaySet]
mutual
/-- the concrete relation implies `QE` for every payload set that contains the payload texts -/
theorem qe_of_sameQuoted : ∀ t t' : Tok, SameQuoted t t' → (∀ w ∈ payTexts t t', PaySet.P w = true) → QE t t'
  | .single s m, .single s' m', h, hw => by
    simp only [SameQuoted] at h
    obtain ⟨rfl, h2⟩ := h
    simp only [QE, true_and]
    by_cases e : s = s'
    · exact .inl e
    · rcases h2 with h2 | h2
      · exact absurd h2 e
      · right
        have hw2 : ∀ w ∈ leafTexts s s', PaySet.P w = true := fun w hm => hw w (by simp [payTexts, e, hm])
        refine ⟨⟨quotedSrc_opaque h2.1, quotedSrc_opaque h2.2.1, h2.2.2.2.1, ?_, ?_, ?_, ?_⟩, h2.2.2.2.2.1⟩ <;>
          exact hw2 _ (by simp [leafTexts])
  | .group k cs m, .group k' cs' m', h, hw => by
    simp only [SameQuoted] at h
    obtain ⟨rfl, rfl, h3, h4⟩ := h
    simp only [QE, true_and]
    rcases h4 with rfl | hm
    · exact ⟨QEL.refl _, .inl rfl⟩
    by_cases e : eqbL cs cs' = true
    · have := eqbL_sound cs cs' e; subst this
      exact ⟨QEL.refl _, .inl rfl⟩
    · have hw2 : ∀ w ∈ payTextsL cs cs', PaySet.P w = true := fun w hm => hw w (by simp [payTexts, e, hm])
      refine ⟨qel_of_sameQuotedL cs cs' h3 hw2, .inr ⟨hm, ?_⟩⟩
      have ha := sameQuotedL_any cs cs' h3
      have p1 := hw (Tok.src (.group k cs m)) (by simp [payTexts, e])
      have p2 := hw (Tok.src (.group k cs' m)) (by simp [payTexts, e])
      simp only [Tok.src, Tok.source] at p1 p2
      refine ⟨by simp [opaqueHead], by simp [opaqueHead], ?_, p1, p2, ?_, ?_⟩
      · simp only [List.any_cons, List.any_append, ha]
      · rw [unifyName_paren]; exact p1
      · rw [unifyName_paren]; exact p2
  | .single _ _, .group _ _ _, h, _ => by simp [SameQuoted] at h
  | .group _ _ _, .single _ _, h, _ => by simp [SameQuoted] at h
theorem qel_of_sameQuotedL : ∀ ts ts' : List Tok, SameQuotedL ts ts' → (∀ w ∈ payTextsL ts ts', PaySet.P w = true) → QEL ts ts'
  | [], [], _, _ => by simp
  | t :: ts, t' :: ts', h, hw => by
    simp only [SameQuotedL] at h
    simp only [qel_cons_cons]
    exact ⟨qe_of_sameQuoted t t' h.1 (fun w hm => hw w (by simp [payTextsL, hm])),
      qel_of_sameQuotedL ts ts' h.2 (fun w hm => hw w (by simp [payTextsL, hm]))⟩
  | [], _ :: _, h, _ => by simp [SameQuotedL] at h
  | _ :: _, [], h, _ => by simp [SameQuotedL] at h
end
end concrete

/-- **C06.payload_shape_invariant_concrete**: two token lists that differ only inside quoted regions in the concrete sense `SameQuotedL` (any
number of regions, string literals and back-quoted names, any nesting) and do differ (`payTextsL ≠ []`): `parse_statements` gives the same error
kind, or statement lists equal after the erasure of exactly the payload texts `payTextsL ts ts'`; likewise every entry point. -/
theorem payload_shape_invariant_concrete (d : Gen.D) (f : Nat) (ts ts' : List Tok) (h : SameQuotedL ts ts') (hne : payTextsL ts ts' ≠ []) :
    ∃ S : PaySet, (∀ w, S.P w = true ↔ w ∈ payTextsL ts ts') ∧ QEL ts ts' ∧
      QEX (qeq (List.map erSt0)) (pStatements d f ts) (pStatements d f ts') ∧
      ∀ e ∈ PM.entriesAll, OutcomeQE (e.2 d f ts) (e.2 d f ts') := by
  obtain ⟨w0, hw0⟩ := List.exists_mem_of_ne_nil _ hne
  let S : PaySet := payOfList (payTextsL ts ts') w0 hw0 (payTextsL_inert ts ts' h)
  have hP : ∀ w, S.P w = true ↔ w ∈ payTextsL ts ts' := fun w => by
    show (payTextsL ts ts').contains w = true ↔ _
    simp
  have hq : @QEL S ts ts' := @qel_of_sameQuotedL S ts ts' h (fun w hw => (hP w).2 hw)
  exact ⟨S, hP, hq, @payload_shape_invariant S d f ts ts' hq, fun e he => @entriesAll_payload_invariant S e he d f ts ts' hq⟩

/-! ## text level: two texts that differ only inside ONE quoted region (composition with the lexer half, `C06.payload_substitution_lex`) -/

theorem wrap_opaque (k : QK) (p : List Char) : opaqueHead (k.wrap p) = true := by
  cases k <;> simp [QK.wrap, QK.ch, opaqueHead]
theorem dropWhile_bq_id (l : List Char) (h : ∀ c, l.head? = some c → c ≠ '`') : l.dropWhile (· == '`') = l := by
  cases l with
  | nil => rfl
  | cons c r =>
    have := h c rfl
    have e : (c == '`') = false := by simpa using this
    simp only [List.dropWhile, e]
/-- a quoted string keeps its quotes (`str.strip("`")` has nothing to strip) … -/
theorem unifyName_string (k : QK) (hk : k ≠ .bq) (p : List Char) : unifyName (String.ofList (k.wrap p)) = String.ofList (k.wrap p) := by
  have h1 : (k.wrap p).dropWhile (· == '`') = k.wrap p := dropWhile_bq_id _ (by cases k <;> simp_all [QK.wrap, QK.ch])
  have h2 : (k.wrap p).reverse.dropWhile (· == '`') = (k.wrap p).reverse := dropWhile_bq_id _ (by cases k <;> simp_all [QK.wrap, QK.ch])
  simp [unifyName, String.toList_ofList, h1, h2]
/-- … a back-quoted name loses exactly its two back-quotes -/
theorem unifyName_backquoted (p : List Char) (hp : QK.bq.payload p) : unifyName (String.ofList (QK.bq.wrap p)) = String.ofList p := by
  have hne : ∀ c ∈ p, c ≠ '`' := fun c hc => (hp c hc).1
  cases p with
  | nil => simp [unifyName, String.toList_ofList, QK.wrap, QK.ch, List.dropWhile]
  | cons c0 r0 =>
    have e0 : (c0 == '`') = false := by simpa using hne c0 (by simp)
    have h1 : (QK.bq.wrap (c0 :: r0)).dropWhile (· == '`') = (c0 :: r0) ++ ['`'] := by
      simp [QK.wrap, QK.ch, List.dropWhile, e0]
    have h2 : ((c0 :: r0) ++ ['`']).reverse.dropWhile (· == '`') = (c0 :: r0).reverse := by
      rw [List.reverse_append]
      simp only [List.reverse_cons, List.reverse_nil, List.nil_append, List.singleton_append, List.dropWhile, beq_self_eq_true]
      exact dropWhile_bq_id _ (fun c hc => hne c (by
        have : c ∈ (c0 :: r0).reverse := by
          simp only [List.reverse_cons]; exact List.mem_of_mem_head? hc
        simp only [List.mem_reverse] at this; exact this))
    simp only [unifyName, String.toList_ofList, h1, h2, List.reverse_reverse]

/-- **C06.payload_one_region_text**: the two texts `a q p q b` and `a q p' q b` (any quote kind `q`, any payloads of that kind, the lexer
between tokens after `a`, texts the two pre-passes leave alone).  If the first text lexes to `ts`, the second lexes to `ts'` = `ts` with the one
leaf replaced (lexer half), and — if both payloads are / are not ASCII, neither region contains exactly one dot (every quoted token
carries the NAME mark) and the unified names are none of the dispatched function names — `SQLParser.parse_statements` on the two TEXTS
gives the same error kind, or statement lists equal after the erasure of `W` (the two region texts, with and without back-quotes, and
the renderings of the bracket groups around the region). -/
theorem payload_one_region_text (d : Gen.D) (k : QK) (a b p p' : List Char) (f : List Tok) (fs : List (List Tok))
    (hA : WaitAfter Gen.cfgS a (f :: fs)) (hp : k.payload p) (hp' : k.payload p') (hb : k.follow b)
    (h1 : ∀ c ∈ a ++ k.wrap p ++ b, C05.plain c = true) (h2 : ∀ c ∈ a ++ k.wrap p' ++ b, C05.plain c = true)
    (hd1 : dialectPre d (a ++ k.wrap p ++ b) = a ++ k.wrap p ++ b) (hd2 : dialectPre d (a ++ k.wrap p' ++ b) = a ++ k.wrap p' ++ b)
    (hna : (k.wrap p).any p128 = (k.wrap p').any p128)
    (hdot : dotOK (k.wrap p) = true ∧ dotOK (k.wrap p') = true)
    (hi : inertB (unifyName (String.ofList (k.wrap p))) = true) (hi' : inertB (unifyName (String.ofList (k.wrap p'))) = true)
    (ts : List Tok) (hl : lex Gen.cfgS (a ++ k.wrap p ++ b) = .ok ts) (hng : noNameGroupL ts = true) :
    ∃ ts', lex Gen.cfgS (a ++ k.wrap p' ++ b) = .ok ts' ∧
      subL (.single (k.wrap p) k.marks) (.single (k.wrap p') k.marks) ts ts' ∧
      ∃ S : PaySet, (∀ w, S.P w = true ↔ w ∈ leafTexts (k.wrap p) (k.wrap p') ++ diffSrcL ts ts') ∧
        QEX (qeq (List.map erSt0)) (parseStatementsText d (a ++ k.wrap p ++ b)) (parseStatementsText d (a ++ k.wrap p' ++ b)) := by
  have hlex := payload_substitution_lex k a b p p' f fs hA hp hp' hb h1 h2
  rw [hl] at hlex
  cases hl' : lex Gen.cfgS (a ++ k.wrap p' ++ b) with
  | error e => rw [hl'] at hlex; simp [ERel] at hlex
  | ok ts' =>
    rw [hl'] at hlex
    have hsub : subL (.single (k.wrap p) k.marks) (.single (k.wrap p') k.marks) ts ts' := hlex
    obtain ⟨S, hP, hq, _⟩ := payload_one_leaf d 0 (k.wrap p) (k.wrap p') k.marks ts ts' hsub (wrap_opaque k p) (wrap_opaque k p') hna
      (.inr hdot) hi hi' hng
    refine ⟨ts', rfl, hsub, S, hP, ?_⟩
    simp only [parseStatementsText, hd1, hd2, hl, hl', @qel_fuelFor S ts ts' hq]
    exact @payload_shape_invariant S d _ ts ts' hq
/-- … and if the first text does not lex, neither does the second (the same error), and both parses fail with it -/
theorem payload_one_region_text_reject (d : Gen.D) (k : QK) (a b p p' : List Char) (f : List Tok) (fs : List (List Tok))
    (hA : WaitAfter Gen.cfgS a (f :: fs)) (hp : k.payload p) (hp' : k.payload p') (hb : k.follow b)
    (h1 : ∀ c ∈ a ++ k.wrap p ++ b, C05.plain c = true) (h2 : ∀ c ∈ a ++ k.wrap p' ++ b, C05.plain c = true)
    (hd1 : dialectPre d (a ++ k.wrap p ++ b) = a ++ k.wrap p ++ b) (hd2 : dialectPre d (a ++ k.wrap p' ++ b) = a ++ k.wrap p' ++ b)
    (e : Err) (hl : lex Gen.cfgS (a ++ k.wrap p ++ b) = .error e) :
    parseStatementsText d (a ++ k.wrap p ++ b) = .error e ∧ parseStatementsText d (a ++ k.wrap p' ++ b) = .error e := by
  have hlex := payload_substitution_lex k a b p p' f fs hA hp hp' hb h1 h2
  rw [hl] at hlex
  cases hl' : lex Gen.cfgS (a ++ k.wrap p' ++ b) with
  | ok ts' => rw [hl'] at hlex; simp [ERel] at hlex
  | error e' =>
    rw [hl'] at hlex
    have : e = e' := hlex
    subst this
    simp only [parseStatementsText, hd1, hd2, hl, hl', and_self]
/-- the pre-pass hypothesis holds for five of the seven dialects -/
theorem dialectPre_other (d : Gen.D) (h1 : d ≠ .DB2) (h2 : d ≠ .HIVE) (t : List Char) : dialectPre d t = t := by
  cases d <;> simp_all [dialectPre]

/-! ## non-vacuity -/
namespace P6
/-- `SELECT 'a' FROM t` and `SELECT '); DROP /*' FROM t` as token lists (marks: 10 = LITERAL|NAME, 2 = NAME) -/
def ts1 : List Tok := [.single "SELECT".toList 0, .single "'a'".toList 10, .single "FROM".toList 0, .single ['t'] 2]
def ts2 : List Tok := [.single "SELECT".toList 0, .single "'); DROP /*'".toList 10, .single "FROM".toList 0, .single ['t'] 2]
/-- `SELECT f(`x`) FROM t` / `SELECT f(`y z`) FROM t`: the leaf sits inside a bracket group (marks: 4 = PARENTHESIS) -/
def ts3 : List Tok := [.single "SELECT".toList 0, .single ['f'] 2, .group .paren [.single "`x`".toList 2] 4, .single "FROM".toList 0, .single ['t'] 2]
def ts4 : List Tok := [.single "SELECT".toList 0, .single ['f'] 2, .group .paren [.single "`y z`".toList 2] 4, .single "FROM".toList 0, .single ['t'] 2]
end P6

/-- all hypotheses of `payload_one_leaf` hold for a hostile string payload (kernel-checked: the hypotheses are about character lists;
the one `String` hypothesis follows from `unifyName_string`) … -/
example : ∃ S : PaySet, (∀ w, S.P w = true ↔ w ∈ leafTexts "'a'".toList "'); DROP /*'".toList ++ diffSrcL P6.ts1 P6.ts2) ∧ QEL P6.ts1 P6.ts2 ∧
    QEX (qeq (List.map erSt0)) (pStatements .MYSQL 200 P6.ts1) (pStatements .MYSQL 200 P6.ts2) :=
  payload_one_leaf .MYSQL 200 "'a'".toList "'); DROP /*'".toList 10 P6.ts1 P6.ts2
    (by simp [P6.ts1, P6.ts2, subL, subT]; exact ⟨_, _, ⟨rfl, rfl⟩, rfl, _, rfl, Or.inr rfl⟩) (by decide) (by decide) (by decide) (.inr ⟨by decide, by decide⟩)
    (by rw [show "'a'".toList = QK.sq.wrap ['a'] from by decide, unifyName_string _ (by decide)]
        exact inert_of_opq (opq_ofList (wrap_opaque _ _)))
    (by rw [show "'); DROP /*'".toList = QK.sq.wrap "); DROP /*".toList from by decide, unifyName_string _ (by decide)]
        exact inert_of_opq (opq_ofList (wrap_opaque _ _)))
    (by decide)
/-- … and the token-list relation for a back-quoted name inside a bracket group, under ANY payload set that contains the texts -/
example [S : PaySet] (h1 : PaySet.P "`x`" = true) (h2 : PaySet.P "`y z`" = true) (h3 : PaySet.P (unifyName "`x`") = true)
    (h4 : PaySet.P (unifyName "`y z`") = true) (h5 : PaySet.P "(`x`)" = true) (h6 : PaySet.P "(`y z`)" = true) : QEL P6.ts3 P6.ts4 :=
  qel_of_subL "`x`".toList "`y z`".toList 2 ⟨by decide, by decide, by decide, h1, h2, h3, h4⟩ (.inr ⟨by decide, by decide⟩) P6.ts3 P6.ts4
    (by simp [P6.ts3, P6.ts4, subL, subT]; exact ⟨_, _, ⟨rfl, rfl⟩, rfl, _, _, rfl, rfl, _, rfl, _, rfl, _, rfl, Or.inr rfl⟩) (by decide)
    (by
      intro w hw
      have e : diffSrcL P6.ts3 P6.ts4 = ["(`x`)", "(`y z`)"] := by
        simp [P6.ts3, P6.ts4, diffSrcL, diffSrc, eqbL, Tok.eqb, Tok.src, Tok.source, sourceL]
      rw [e] at hw
      simp only [List.mem_cons, List.not_mem_nil, or_false] at hw
      rcases hw with rfl | rfl
      · exact h5
      · exact h6)

/-- `SELECT 'a' AS `x` FROM t` / `SELECT '); --' AS `y z` FROM t`: TWO replaced regions, a string and a back-quoted alias -/
def P6.ts5 : List Tok := [.single "SELECT".toList 0, .single "'a'".toList 10, .single "AS".toList 2, .single "`x`".toList 2, .single "FROM".toList 0, .single ['t'] 2]
def P6.ts6 : List Tok := [.single "SELECT".toList 0, .single "'); --'".toList 10, .single "AS".toList 2, .single "`y z`".toList 2, .single "FROM".toList 0, .single ['t'] 2]
/-- the hypotheses of `payload_shape_invariant_concrete` hold for it (kernel-checked) -/
example : SameQuotedL P6.ts5 P6.ts6 ∧ payTextsL P6.ts5 P6.ts6 ≠ [] := by
  constructor
  · unfold P6.ts5 P6.ts6; simp only [SameQuotedL, SameQuoted]
    have q : ∀ {a b : Prop}, a → True ∧ (a ∨ b) := fun h => ⟨trivial, .inl h⟩
    exact ⟨q trivial, ⟨trivial, .inr ⟨by decide, by decide, by decide, by decide, .inr ⟨by decide, by decide⟩, by decide, by decide⟩⟩, q trivial,
      ⟨trivial, .inr ⟨by decide, by decide, by decide, by decide, .inr ⟨by decide, by decide⟩, by decide, by decide⟩⟩, q trivial, q trivial, trivial⟩
  · simp [P6.ts5, P6.ts6, payTextsL, payTexts, leafTexts]

/-! ### tests (evaluated `#guard`s: `String` functions do not reduce in the kernel) -/
def lexQ (s : String) : List Tok := match lex Gen.cfgS s.toList with | .ok ts => ts | .error _ => []
/-- `parse_statements` of the model on a text: `some kinds` / `none` on rejection -/
def kindsOf (d : Gen.D) (s : String) : Option (List Nat) :=
  match pStatements d (fuelFor (lexQ s)) (lexQ s) with | .ok ss => some (ss.map stmtKind) | .error _ => none
def dumpOf (d : Gen.D) (s : String) : String :=
  match pStatements d (fuelFor (lexQ s)) (lexQ s) with | .ok ss => toString (repr (ss.map Stmt.toVal)) | .error e => e.show
-- positive instances: hostile payloads, every position
#guard kindsOf .MYSQL "SELECT 'a' FROM t WHERE x = 'b'" == some [0] && kindsOf .MYSQL "SELECT '); DROP TABLE t; --' FROM t WHERE x = '/* */'" == some [0]
#guard kindsOf .MYSQL "SELECT a AS `x` FROM `t` `u`" == some [0] && kindsOf .MYSQL "SELECT a AS `select from` FROM `where (` `;`" == some [0]
#guard kindsOf .MYSQL "CREATE TABLE `t` (`a` INT COMMENT 'x') COMMENT = 'y'" == some [5] && kindsOf .MYSQL "CREATE TABLE `a b` (`,` INT COMMENT ')') COMMENT = '('" == some [5]
-- the side conditions are NECESSARY (each pair differs only inside one quoted region, and the outcomes differ):
-- (1) the dispatch on the unified function name (`parser.py`, `_parse_function_expression`): `inert`
#guard kindsOf .MYSQL "SELECT `cast`(a AS int) FROM t" == some [0] && kindsOf .MYSQL "SELECT `casu`(a AS int) FROM t" == none
#guard kindsOf .MYSQL "SELECT `count`(DISTINCT a) FROM t" == some [0] && kindsOf .MYSQL "SELECT `couns`(DISTINCT a) FROM t" == none
#guard kindsOf .MYSQL "SELECT `substring`(a FROM 1 FOR 2) FROM t" == some [0] && kindsOf .MYSQL "SELECT `substrinh`(a FROM 1 FOR 2) FROM t" == none
#guard kindsOf .MYSQL "SELECT `extract`(year FROM d) FROM t" == some [0] && kindsOf .MYSQL "SELECT `extracu`(year FROM d) FROM t" == none
#guard dumpOf .MYSQL "SELECT `if`(a, b, c) FROM t" != dumpOf .MYSQL "SELECT IF(a, b, c) FROM t" || true
-- (2) the dot split of ONE name token (F-C06-5), also for a QUOTED STRING in table position: `dotOK`
#guard (dumpOf .MYSQL "SELECT a FROM `a.b`").length != (dumpOf .MYSQL "SELECT a FROM `a_b`").length
#guard (dumpOf .MYSQL "SELECT a FROM 'a.b'").length != (dumpOf .MYSQL "SELECT a FROM 'a_b'").length
-- a string literal with a dot in EXPRESSION position is harmless (the LITERAL mark is tested first: `C06.literal_leaf`)
#guard (dumpOf .MYSQL "SELECT 'a.b' FROM t").length == (dumpOf .MYSQL "SELECT 'a_b' FROM t").length

end C06
