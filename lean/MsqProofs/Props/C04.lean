import MsqProofs.Lemmas.LexLossless
import MsqProofs.Oblig.LexCfg0
import MsqProofs.Oblig.LexCfg1
import MsqProofs.Oblig.LexCfg2
import MsqProofs.Oblig.LexCfg3
import MsqProofs.Oblig.LexCfg4
import MsqProofs.Oblig.LexCfg5
import MsqProofs.Oblig.LexCfg6
import MsqProofs.Oblig.LexCfg7
/-!
# C04 — tokenisation is lossless and brackets are faithfully nested

Property theorems only; helper lemmas live in `MsqProofs/Lemmas`, table obligations in `MsqProofs/Oblig`.
-/
namespace C04
open Lex

/-- the 8 option settings, `i = 4·IGNORE_SPACE + 2·IGNORE_LINEBREAK + IGNORE_COMMENT` -/
def cfgOf : Fin 8 → Cfg Gen.Cls
  | 0 => Gen.Cfg0.cfg | 1 => Gen.Cfg1.cfg | 2 => Gen.Cfg2.cfg | 3 => Gen.Cfg3.cfg
  | 4 => Gen.Cfg4.cfg | 5 => Gen.Cfg5.cfg | 6 => Gen.Cfg6.cfg | 7 => Gen.Cfg7.cfg

/-- C04(a): for every option setting and every text the lexer accepts, the leaf tokens in order are
consecutive, non-overlapping slices of the pre-processed input, and everything between them is
empty, a blank, a bracket character, or text beginning with a comment opener. -/
theorem cover (i : Fin 8) (raw : List Char) (toks : List Tok) (h : lex (cfgOf i) raw = .ok toks) :
    ∃ segs : List Seg, (segs.map Seg.text).flatten = (cfgOf i).pre raw ∧ tokTexts segs = leavesL toks
      ∧ ∀ g ∈ gapTexts segs, gapOKb g = true := by
  match i with
  | 0 => exact lex_lossless _ _ _ Oblig.tableOK_cfg0 Oblig.depth_cfg0 raw toks h
  | 1 => exact lex_lossless _ _ _ Oblig.tableOK_cfg1 Oblig.depth_cfg1 raw toks h
  | 2 => exact lex_lossless _ _ _ Oblig.tableOK_cfg2 Oblig.depth_cfg2 raw toks h
  | 3 => exact lex_lossless _ _ _ Oblig.tableOK_cfg3 Oblig.depth_cfg3 raw toks h
  | 4 => exact lex_lossless _ _ _ Oblig.tableOK_cfg4 Oblig.depth_cfg4 raw toks h
  | 5 => exact lex_lossless _ _ _ Oblig.tableOK_cfg5 Oblig.depth_cfg5 raw toks h
  | 6 => exact lex_lossless _ _ _ Oblig.tableOK_cfg6 Oblig.depth_cfg6 raw toks h
  | 7 => exact lex_lossless _ _ _ Oblig.tableOK_cfg7 Oblig.depth_cfg7 raw toks h

/-- non-vacuity: a non-trivial text is accepted under the shipped setting -/
example : (lex (cfgOf 7) "SELECT a, (b + 1) FROM `t` -- x".toList).isOk = true := by decide +kernel

/-! ## Known findings: the model exhibits each violation on the recorded witness (kernel-evaluated) -/

/-- F-C04-1: the bracket stack is untyped — `(a]` is accepted, as one *slice* group (`fsm_operate.py:290-337`) -/
theorem witness_mixed_brackets :
    lexesTo (lex (cfgOf 7) "(a]".toList) [.group .slice [.single ['a'] 2] 512] = true := by decide +kernel

/-- F-C04-2: a slice group renders with round brackets (`amt_node.py:115`): `a[1]` has source `a(1)` -/
theorem witness_slice_renders_round :
    (match lex (cfgOf 7) "a[1]".toList with | .ok ts => sourceL ts == "a(1)".toList | .error _ => false) = true := by
  decide +kernel

/-- F-C04-3: with every retention option on, a TAB does not come back (it is rewritten by the pre-pass) -/
theorem witness_tab_not_retained :
    (match lex (cfgOf 0) "a\tb".toList with | .ok ts => sourceL ts == "a b".toList | .error _ => false) = true := by
  decide +kernel

end C04
