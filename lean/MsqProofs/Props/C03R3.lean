import MsqProofs.Lemmas.TRestG3
import MsqProofs.Props.C03R
/-!
# C03 / C02 / C01 — T-parse over the THIRD fragment: back-quoted aliases, decimal / hexadecimal / bit literals (token level)

Why: the measurement of Tools/FragWhy.lean (DESIGN §12.9, "what keeps statements outside the fragments") ranks, on the harness's
grammar-shaped statements, two restrictions of the PROOF (not of the grammar, not of the printer) first:
1. an alias had to be printed BARE (`TS.aliasOK`: `quoteName a = a`), so `AS \`q r\``, `AS \`select\`` (what `quoteName` back-quotes) were
   outside — 62 % of the statements outside `TR.FragAny` contain one;
2. a literal had to be an integer, a quoted string or a literal word (`TP.litMark`), so `2.5`, `x'1F'`, `0x1F`, `b'01'`, `0b01` were outside.

Built NEXT to the developments over `FragQ2` / `FragE4` (all unchanged): namespaces `TQ3` (Lemmas/TQuery3*.lean), `TDM3` (Lemmas/TDmlR0–4.lean),
`TR3` (Lemmas/TRestG0–3.lean) are DERIVED from `TQ2` / `TDM2` / `TR` by tools/dev/gen_tquery3.py (copy into a new namespace in which the four
leaf definitions `litTok`, `litOK`, `aliasToks`, `optAliasOK` are re-declared, six hand patches in tools/dev/gen_tquery3_patches.py).
* `TQ3.litTok v` : the marks of `TP.litTok`, and LITERAL ||| LITERAL_FLOAT for `digits.digits`, LITERAL ||| LITERAL_HEX for `0x…` / `x'…'` /
  `X'…'`, LITERAL ||| LITERAL_BIT for `0b…` / `b'…'` / `B'…'` (`TQ3.numMark`; the marks the lexer gives: `#guard`s below);
* `TQ3.aliasToks (some a) = [AS, qTok a]` (bare or back-quoted, as `quoteName` decides), `TQ3.aliasOK a` : the token is a NAME and reads back;
* `TQ3.FragQ3` / `FragE5` / `FragS5`, `TQ3.toksQ3` / `toksE5`: the definitions of `TQ2` over these leaves; `TDM3.FragStmt`, `TR3.FragRest`,
  `TR3.FragAny`, `TR3.toksAny`: the statement level over them.

**Theorems** (every dialect, explicit linear fuel; same shape as the registered ones over `FragQ2`):
* `C02.tparse5`, `C03.tquery3`, `C03.tquery3_statement`, `C01.query_round_trip_tokens3` (Lemmas/TQuery3P.lean, derived);
* `C03.tstatement_any3` : `TR3.FragAny d s → TR3.stopsAny d rest → 20 * sizeL (TR3.toksAny d s) + 16 ≤ fuel →
  pStatement d fuel (TR3.toksAny d s ++ rest) = ok (s, TR3.restAfter s rest)`; `tstatement_any3_entry_fuel`; `tscript_any3`;
* `C01.statement_round_trip_tokens_any3`;
* the union with the registered fragment: `C03.FragU3 d s = TR.FragAny d s || TR3.FragAny d s`, printer `toksU3` (the old rendering on the old
  fragment); `C03.fragAny_sub_fragU3` (inclusion with equal rendering), `C03.tstatement_union3`.
NOT proved: `TR.FragAny d s → TR3.FragAny d s ∧ TR3.toksAny d s = TR.toksAny d s` (true on every one of the ≥ 4000 statements of the
measurement: Tools/FragCov.lean reports a statement in the old fragment and outside the third one as `MISMATCH`); the TEXT level for the new
leaves (the lexer link for back-quoted aliases and the three literal shapes: the `#guard`s below evaluate it on samples).
-/
set_option linter.unusedVariables false
set_option linter.unusedSimpArgs false
open Lex PM Ast TP TS

namespace C03
/-- **T-parse, every statement class, third fragment.** -/
theorem tstatement_any3 (d : Gen.D) (s : Stmt) (hs : TR3.FragAny d s = true) (rest : List Tok) (hr : TR3.stopsAny d rest = true) (fuel : Nat)
    (hfuel : 20 * sizeL (TR3.toksAny d s) + 16 ≤ fuel) : pStatement d fuel (TR3.toksAny d s ++ rest) = .ok (s, TR3.restAfter s rest) :=
  TR3.any_ok s hs rest hr fuel hfuel
/-- the fuel the public entry points compute from the token list dominates the bound -/
theorem tstatement_any3_entry_fuel (d : Gen.D) (s : Stmt) (hs : TR3.FragAny d s = true) (rest : List Tok) (hr : TR3.stopsAny d rest = true) :
    pStatement d (fuelFor (TR3.toksAny d s ++ rest)) (TR3.toksAny d s ++ rest) = .ok (s, TR3.restAfter s rest) :=
  tstatement_any3 d s hs rest hr _ (by simp only [fuelFor, C10.sizeL_append]; omega)
theorem restAfter3_nil (s : Stmt) : TR3.restAfter s [] = [] := by cases s <;> rfl
/-- the continuations and what is left are those of the registered theorem -/
theorem stopsAny3_eq (d : Gen.D) (rest : List Tok) : TR3.stopsAny d rest = TR.stopsAny d rest := rfl
theorem restAfter3_eq (s : Stmt) (rest : List Tok) : TR3.restAfter s rest = TR.restAfter s rest := by cases s <;> rfl
/-- **scripts over the third fragment**: the token list `s₁ ; s₂ ; … ; sₙ [;]` parses, through `parse_statements`' loop with the entry
point's own fuel, to `[s₁, …, sₙ]` -/
theorem tscript_any3 (d : Gen.D) (ss : List Stmt) (hss : ∀ s ∈ ss, TR3.FragAny d s = true) (fin : Bool) :
    pStatements d (fuelFor (C10.script TDM.semiTok (ss.map (TR3.toksAny d)) fin)) (C10.script TDM.semiTok (ss.map (TR3.toksAny d)) fin) = .ok ss := by
  have h := C10.script_concat_entry PM.isSemi_lexed d (ss.map (fun s => (TR3.toksAny d s, s))) (by
    intro p hp
    obtain ⟨s, hs, rfl⟩ := List.mem_map.1 hp
    have := tstatement_any3_entry_fuel d s (hss s hs) [] rfl
    simpa [restAfter3_nil] using this) fin
  simpa [TDM.semiTok, List.map_map, Function.comp_def] using h

/-! ### the union with the registered fragment -/
/-- the registered union fragment, or the third one -/
def FragU3 (d : Gen.D) (s : Stmt) : Bool := TR.FragAny d s || TR3.FragAny d s
/-- the registered rendering on the registered fragment, the third one's elsewhere -/
def toksU3 (d : Gen.D) (s : Stmt) : List Tok := if TR.FragAny d s then TR.toksAny d s else TR3.toksAny d s
/-- **`TR.FragAny ⊆ FragU3`** with the same rendering: `C03.tstatement_any` is an instance of `C03.tstatement_union3` -/
theorem fragAny_sub_fragU3 (d : Gen.D) (s : Stmt) (hs : TR.FragAny d s = true) : FragU3 d s = true ∧ toksU3 d s = TR.toksAny d s := by
  simp [FragU3, toksU3, hs]
/-- the third fragment is in the union; outside the registered fragment with its own rendering -/
theorem fragAny3_sub_fragU3 (d : Gen.D) (s : Stmt) (hs : TR3.FragAny d s = true) :
    FragU3 d s = true ∧ (TR.FragAny d s = false → toksU3 d s = TR3.toksAny d s) := by
  refine ⟨by simp [FragU3, hs], fun h => by simp [toksU3, h]⟩
/-- **T-parse over the union of the registered and the third fragment** -/
theorem tstatement_union3 (d : Gen.D) (s : Stmt) (hs : FragU3 d s = true) (rest : List Tok) (hr : TR.stopsAny d rest = true) (fuel : Nat)
    (hfuel : 20 * sizeL (toksU3 d s) + 16 ≤ fuel) : pStatement d fuel (toksU3 d s ++ rest) = .ok (s, TR.restAfter s rest) := by
  by_cases h1 : TR.FragAny d s = true
  · simp only [toksU3, h1, if_true] at hfuel ⊢
    exact C03.tstatement_any d s h1 rest hr fuel hfuel
  · have h3 : TR3.FragAny d s = true := by simpa [FragU3, h1] using hs
    simp only [toksU3, h1, Bool.false_eq_true, if_false] at hfuel ⊢
    rw [← restAfter3_eq]
    exact tstatement_any3 d s h3 rest hr fuel hfuel
end C03

namespace C01
/-- **print / parse round trip of any statement of the third fragment, token level** -/
theorem statement_round_trip_tokens_any3 (d : Gen.D) (s : Stmt) (hs : TR3.FragAny d s = true) (fuel : Nat)
    (hfuel : 20 * sizeL (TR3.toksAny d s) + 16 ≤ fuel) :
    pStatement d fuel (TR3.toksAny d s) = .ok (s, []) ∧
    ∀ p r, pStatement d fuel (TR3.toksAny d s) = .ok (p, r) → TR3.toksAny d p = TR3.toksAny d s ∧ r = [] := by
  have h := C03.tstatement_any3 d s hs [] rfl fuel hfuel
  simp only [List.append_nil, C03.restAfter3_nil] at h
  refine ⟨h, fun p r hp => ?_⟩
  rw [h] at hp
  simp only [Except.ok.injEq, Prod.mk.injEq] at hp
  exact ⟨by rw [← hp.1], hp.2.symm⟩
end C01

/-! ### non-vacuity (compiled evaluation: `String` operations do not reduce in the kernel) -/
namespace C03.Third
open C03.Rest
/-- the token-level printer of the third fragment agrees with the LEXER on the printer's text, and the statement is in the third fragment -/
def agrees3 (d : Gen.D) (s : Stmt) : Bool :=
  match PR.prStmt d s with
  | .ok x => eqbL (lexed x) (TR3.toksAny d s) && TR3.FragAny d s
  | .error _ => false
/-- the conclusion of `tstatement_any3`, evaluated -/
def roundTrips3 (d : Gen.D) (s : Stmt) : Bool :=
  match pStatement d (20 * sizeL (TR3.toksAny d s) + 16) (TR3.toksAny d s ++ lexed "; SELECT 1") with
  | .ok (p, r) => Drv.showVal p.toVal == Drv.showVal s.toVal && eqbL r (TR3.restAfter s (lexed "; SELECT 1"))
  | _ => false
def sel (cols : List (Expr × Option String)) (fr : Option (List FromTable)) (wh : Option Expr := none) : Select :=
  .mk (some []) false cols fr [] [] wh none none none none none none none
/-- `SELECT 2.5 AS \`q r\`, x'1F' AS \`select\`, b'01' AS al, 0x1F, 0b01 FROM \`t\` AS \`z z\` WHERE \`a\` < 00.50` -/
def g1 : Stmt := .select (.single (sel [(lit "2.5", some "q r"), (lit "x'1F'", some "select"), (lit "b'01'", some "al"), (lit "0x1F", none), (lit "0b01", none)]
  (some [.mk (.table none "t") (some "z z")]) (some (.compare "LT" (col "a") (lit "00.50")))))
/-- a derived table with a back-quoted alias, `X'…'` / `B'…'` -/
def g2 : Stmt := .select (.single (sel [(.wildcard none, none)]
  (some [.mk (.sub (.single (sel [(lit "X'ab'", some "from"), (lit "B'1'", some "a b")] none))) (some "q 2")])))
def g3 : Stmt := .update (some []) (tn "t") [("a", lit "2.5"), ("b", .compute (col "b") "PLUS" (lit "x'0F'"))] (some (.compare "EQ" (col "c") (lit "b'01'"))) none none
def g4 : Stmt := .delete (tn "t") (some (.kw .in_ false (col "a") (.subValue [lit "1.5", lit "0x1F", lit "3"]))) none none
def g5 : Stmt := .insertValues (C03.Dml.ih "INSERT_INTO" (tn "t")) [[lit "2.5", lit "b'0'"], [lit "0.0", lit "x''"]]
def g6 : Stmt := .createTableAs (tn "t") true (match g1 with | .select q => q | _ => qa)
def g7 : Stmt := .insertSelect (C03.Dml.ih "INSERT_INTO" (tn "t")) (match g2 with | .select q => q | _ => qa)
def g8 : Stmt := .showColumns [.mk (.table none "t") (some "my t")] (some (eqp "a" "1.5"))
#guard [g1, g2, g3, g4, g5, g6, g7, g8].all (agrees3 .MYSQL) && [g1, g2, g3, g4, g5, g6, g7, g8].all (agrees3 .HIVE) &&
  [g1, g2, g3, g4, g5, g6, g7, g8].all (roundTrips3 .MYSQL) && [g1, g2, g3, g4, g5, g6, g7, g8].all (roundTrips3 .HIVE) && [g1, g3, g8].all (roundTrips3 .ORACLE)
-- none of them is in the registered fragment
#guard [g1, g2, g3, g4, g5, g6, g7, g8].all (fun s => !TR.FragAny .MYSQL s && !TR.FragAny .HIVE s && FragU3 .MYSQL s)
-- the registered samples are in the third fragment too, with the same rendering (the inclusion, evaluated)
#guard [a1, a3, dr1, dr2, tr1, ms1, us1, us2, st1, st2, st3, an2, sc1, sc2, ca1, ca2, ca3, .showDatabases, .showTables, l1, l2, l3, l4, l5, l6, .select q2w1,
    .select q2w2, .select q2w4, C03.Dml.d1, C03.Dml.u1, C03.Dml.i1, C03.Dml.w1, .createTable C18.t2].all
  (fun s => TR.FragAny .MYSQL s == TR3.FragAny .MYSQL s && eqbL (TR.toksAny .MYSQL s) (TR3.toksAny .MYSQL s) &&
            TR.FragAny .HIVE s == TR3.FragAny .HIVE s && eqbL (TR.toksAny .HIVE s) (TR3.toksAny .HIVE s))
-- the literal shapes: what the lexer gives is `TQ3.litTok`; not a literal: `0X1F` (the lexer reads a NAME), `1.2.3`, `x'1G'`, `1e5`
#guard ["2.5", "00.50", "5.", "0x1F", "x'1F'", "X'1f'", "x''", "0b01", "b'01'", "B'01'", "b''", "12", "'a'", "\"b\"", "NULL", "true"].all
    (fun v => eqbL (lexed v) [TQ3.litTok v] && TQ3.litOK .MYSQL v && TQ3.litOK .HIVE v) &&
  ["0X1F", "0B01", "1.2.3", "x'1G'", "b'12'", "1e5", ".5", "-1", "a"].all (fun v => !TQ3.litOK .MYSQL v)
-- aliases: bare, back-quoted because of a blank / a keyword / a dot (a back-quote inside is fine at token level: no lexer produces that
-- token, the text level has to exclude it)
#guard ["al", "q r", "select", "a.b", "é1", "From"].all TQ3.aliasOK && !TS.aliasOK "q r" && !TS.aliasOK "select"
-- still outside: a WITH clause inside a sub-query, `EXISTS (…) = 1`, SUBSTRING(…)
#guard !TR3.FragAny .MYSQL (.select (.single (sel [(.func none "SUBSTRING" [col "a", lit "1"], none)] none)))

/-! an instance of the theorem (hypotheses decided by the kernel): a script of the third fragment -/
def k6 : Stmt := .select (.single (sel [(lit "2.5", some "q r"), (lit "x'1F'", some "select")] (some [.mk (.table none "t") (some "z z")])))
def k7 : Stmt := .delete (tn "t") (some (.compare "EQ" (col "c") (lit "b'01'"))) none none
set_option maxRecDepth 100000 in
example : pStatements .HIVE (fuelFor (C10.script TDM.semiTok ([k6, k7, k2].map (TR3.toksAny .HIVE)) true))
    (C10.script TDM.semiTok ([k6, k7, k2].map (TR3.toksAny .HIVE)) true) = .ok [k6, k7, k2] :=
  tscript_any3 .HIVE _ (by decide) true
end C03.Third
