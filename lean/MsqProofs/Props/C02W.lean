import MsqProofs.Lemmas.ParseWNSkelK
import MsqProofs.Lemmas.ParseWNCovStmt2
import MsqProofs.Lemmas.ParseMono
import MsqModel.Parse.Entry
import MsqModel.Driver.ShowVal
/-!
# C02 — for EVERY accepted token list: the returned tree is the one the documented grammar derives from the consumed tokens

`WNG.Derives d L ts e` (MsqProofs/Lemmas/ParseWN0.lean, ~130 lines, written from the property text, no reference to the recursive
parser functions) is the documented expression grammar as an inductive relation between a token list and a tree:
one production per precedence level, `left : L`, `right : L - 1` (left associativity), a bracket group re-enters at the top level.

* `C02.parse_derives` : `pOr d f ts = ok (e, rest) → ∃ used, ts = used ++ rest ∧ Derives d 14 used e` — every dialect, every fuel, every
  token list, every result; no fragment.  `parse_derives_xor` … `parse_derives_element`: the same for every public entry point of
  the expression block (`parse_logical_xor_level_expression` … `parse_element_level_expression`) at its own level; `parse_derives_case`,
  `…_function`, `…_function_index`, `…_window`: the element entry points.  Since the statements hold for EVERY call (all `f`, `ts`), they
  apply to every call the SELECT / statement level makes (`pOr` for select columns, WHERE, ON, HAVING, CASE arms, call arguments;
  `pCompute` for GROUP BY / ORDER BY / PARTITION BY items, IN lists, BETWEEN bounds, partition specs, column defaults).
* `C02.brackets_reenter`, `C02.redundant_brackets_parse` : a bracket group whose content is accepted as a whole with tree `e` is an
  element with the SAME tree `e` (at the parser: `pElement d (f+2) (g :: rest) = ok (e, rest)`), whatever the level of `e`:
  brackets only change where the tree may stand, never the tree.
* `C02.parse_text_derives` : the same from the TEXT (pre-pass, lexer, entry-point fuel) for `parse_logical_or_level_expression`.
* `C02.derives_shape` : `Derives d L ts e → PR.lvl e ≤ max L 2 ∨ ts is one bracket group` — the operand invariant in terms of the
  printer's level function, valid at every sub-derivation; `parse_shape_*`: at the parser.
* `C02.parse_deterministic` : the tree and the rest do not depend on the fuel.
Deviations of the code from the documented table that `Derives` has to admit (each with the Python line) are listed in
ParseWN0.lean (DEVIATION 1–5); `C02.binary_bang_witness` / `reserved_word_column_witness` are evaluated witnesses on the model.
* `C02.derives_unique_logic`, `derives_unique_keyword`, `derives_unique_compute` (+ `logic_skeleton_exists` / `_derives`, `keyword_…`, `compute_…`,
  `parse_unique_over_operands`, `parse_tree_well_nested`, `parse_compute_tree_well_nested`):
  uniqueness for the operator layers — once it is fixed which token runs are the operands (level 9 resp. elements), the documented
  levels leave exactly one tree (`OPG.unique`, MsqProofs/Lemmas/OpGrammar.lean: an operator grammar with prefix and left-associative
  binary levels over opaque operands is unambiguous).
* `C02.select_exprs_derive`, `subquery_exprs_derive`, `window_items_derive`, `where_clause_derives` … : the opaque leaves opened — every
  expression at a clause position of a parsed SELECT (recursively through FROM sub-queries, WITH tables, set operations) is derived
  by `Derives` from a contiguous run of tokens inside the cursor (`WNG.Cov`; MsqProofs/Lemmas/ParseWNCov*.lean, 42 functions).
* `C02.statements_exprs_derive`, `statements_text_exprs_derive`, `partition_spec_derives`, `column_definition_derives`: the same for every
  statement of a script (`parse_statements`): partition specs, column defaults, VALUES rows, UPDATE … SET values, … (`WNG.exprsStmt`).
What is NOT here: uniqueness of `Derives` as a whole (see `derives_not_unique_witness`: WHICH tokens are elements is not determined
where an operator sign is read as a column name; the three skeleton theorems are not composed into ONE statement over elements), a SELECT / statement GRAMMAR (which clause a token run belongs
to is C03's T-parse, not stated here).
-/
set_option linter.unusedVariables false
open Lex PM Ast WNG

namespace C02

/-- **C02, every accepted token list.**  Whatever `_parse_logical_or_level_expression` returns, the documented grammar derives it at
level 14 from exactly the tokens that were consumed. -/
theorem parse_derives (d : Gen.D) (f : Nat) (ts : List Tok) (e : Expr) (rest : List Tok) (h : pOr d f ts = .ok (e, rest)) :
    ∃ used, ts = used ++ rest ∧ Derives d 14 used e := by
  obtain ⟨u, hu, hd⟩ := (wf_all d f).pOr ts e rest h
  exact ⟨u, hu, by simpa using hd⟩

/-- a cursor that was consumed completely (`close()`): the whole token list derives the tree -/
theorem parse_derives_closed (d : Gen.D) (f : Nat) (ts : List Tok) (e : Expr) (h : pOr d f ts = .ok (e, [])) : Derives d 14 ts e := by
  obtain ⟨u, hu, hd⟩ := parse_derives d f ts e [] h
  simp only [List.append_nil] at hu
  exact hu ▸ hd

theorem parse_derives_xor (d : Gen.D) (f : Nat) (ts : List Tok) (e : Expr) (rest : List Tok) (h : pXor d f ts = .ok (e, rest)) :
    ∃ used, ts = used ++ rest ∧ Derives d 13 used e := by
  obtain ⟨u, hu, hd⟩ := (wf_all d f).pXor ts e rest h
  exact ⟨u, hu, by simpa using hd⟩
theorem parse_derives_and (d : Gen.D) (f : Nat) (ts : List Tok) (e : Expr) (rest : List Tok) (h : pAnd d f ts = .ok (e, rest)) :
    ∃ used, ts = used ++ rest ∧ Derives d 12 used e := by
  obtain ⟨u, hu, hd⟩ := (wf_all d f).pAnd ts e rest h
  exact ⟨u, hu, by simpa using hd⟩
theorem parse_derives_not (d : Gen.D) (f : Nat) (ts : List Tok) (e : Expr) (rest : List Tok) (h : pNot d f ts = .ok (e, rest)) :
    ∃ used, ts = used ++ rest ∧ Derives d 11 used e := by
  obtain ⟨u, hu, hd⟩ := (wf_all d f).pNot ts e rest h
  exact ⟨u, hu, by simpa using hd⟩
theorem parse_derives_compare (d : Gen.D) (f : Nat) (ts : List Tok) (e : Expr) (rest : List Tok) (h : pCompare d f ts = .ok (e, rest)) :
    ∃ used, ts = used ++ rest ∧ Derives d 10 used e := by
  obtain ⟨u, hu, hd⟩ := (wf_all d f).pCompare ts e rest h
  exact ⟨u, hu, by simpa using hd⟩
theorem parse_derives_keyword (d : Gen.D) (f : Nat) (ts : List Tok) (e : Expr) (rest : List Tok) (h : pKeyword d f none ts = .ok (e, rest)) :
    ∃ used, ts = used ++ rest ∧ Derives d 9 used e := by
  obtain ⟨u, hu, hd⟩ := (wf_all d f).pKeyword none [] ts rfl e rest h
  exact ⟨u, hu, by simpa using hd⟩
/-- `_parse_compute_expression`: also every GROUP BY / ORDER BY / PARTITION BY item, IN-list member, BETWEEN bound, CAST operand -/
theorem parse_derives_compute (d : Gen.D) (f : Nat) (ts : List Tok) (e : Expr) (rest : List Tok) (h : pCompute d f ts = .ok (e, rest)) :
    ∃ used, ts = used ++ rest ∧ Derives d 8 used e := by
  obtain ⟨u, hu, hd⟩ := (wf_all d f).pCompute ts e rest h
  exact ⟨u, hu, by simpa using hd⟩
theorem parse_derives_unary (d : Gen.D) (f : Nat) (ts : List Tok) (e : Expr) (rest : List Tok) (h : pUnary d f ts = .ok (e, rest)) :
    ∃ used, ts = used ++ rest ∧ Derives d 1 used e := by
  obtain ⟨u, hu, hd⟩ := (wf_all d f).pUnary ts e rest h
  exact ⟨u, hu, by simpa using hd⟩
theorem parse_derives_element (d : Gen.D) (f : Nat) (ts : List Tok) (e : Expr) (rest : List Tok) (h : pElement d f ts = .ok (e, rest)) :
    ∃ used, ts = used ++ rest ∧ Derives d 0 used e := by
  obtain ⟨u, hu, hd⟩ := (wf_all d f).pElement ts e rest h
  exact ⟨u, hu, by simpa using hd⟩
theorem parse_derives_case (d : Gen.D) (f : Nat) (ts : List Tok) (e : Expr) (rest : List Tok) (h : pCase d f ts = .ok (e, rest)) :
    ∃ used, ts = used ++ rest ∧ Derives d 0 used e := by
  obtain ⟨u, hu, hd⟩ := (wf_all d f).pCase ts e rest h
  exact ⟨u, hu, by simpa using hd⟩
theorem parse_derives_function (d : Gen.D) (f : Nat) (ts : List Tok) (e : Expr) (rest : List Tok) (h : pFunc d f ts = .ok (e, rest)) :
    ∃ used, ts = used ++ rest ∧ Derives d 0 used e := by
  obtain ⟨u, hu, hd⟩ := (wf_all d f).pFunc ts e rest h
  exact ⟨u, hu, by simpa using hd⟩
theorem parse_derives_function_index (d : Gen.D) (f : Nat) (ts : List Tok) (e : Expr) (rest : List Tok) (h : pFuncIdx d f ts = .ok (e, rest)) :
    ∃ used, ts = used ++ rest ∧ Derives d 0 used e := by
  obtain ⟨u, hu, hd⟩ := (wf_all d f).pFuncIdx ts e rest h
  exact ⟨u, hu, by simpa using hd⟩
theorem parse_derives_window (d : Gen.D) (f : Nat) (ts : List Tok) (e : Expr) (rest : List Tok) (h : pWindow d f ts = .ok (e, rest)) :
    ∃ used, ts = used ++ rest ∧ Derives d 0 used e := by
  obtain ⟨u, hu, hd⟩ := (wf_all d f).pWindow ts e rest h
  exact ⟨u, hu, by simpa using hd⟩
/-- the members of an IN list (`_parse_sub_value_expression`): one compute-level derivation per comma-separated segment -/
theorem parse_derives_in_list (d : Gen.D) (f : Nat) (cs : List Tok) (vs : List Expr) (h : pSplit d f [] [] cs = .ok vs) :
    Segs d (splitBy "," cs [] []) vs := by
  obtain ⟨vs', hv, hs⟩ := (wf_all d f).pSplit [] [] cs vs h
  simp only [List.nil_append] at hv
  exact hv ▸ hs

/-! ### explicit brackets -/

/-- **brackets re-enter at the top level**: if the content of a bracket group is accepted as a whole with the tree `e`
(of ANY level), the group is an ELEMENT with the tree `e` -/
theorem brackets_reenter (d : Gen.D) (f : Nat) (g : Tok) (e : Expr) (hl : g.has LITERAL = false) (hp : g.has PAREN = true)
    (hs : startsSelect g.children = false) (h : pOr d f g.children = .ok (e, [])) : Derives d 0 [g] e :=
  .paren hl hp hs (parse_derives_closed d f _ e h)

/-- the same at the parser: the bracket group parses, as an element and therefore at every level and in every operand position,
to the tree of its content -/
theorem redundant_brackets_parse (d : Gen.D) (f : Nat) (g : Tok) (e : Expr) (rest : List Tok) (hl : g.has LITERAL = false)
    (hp : g.has PAREN = true) (hs : startsSelect g.children = false) (h : pOr d f g.children = .ok (e, [])) :
    pElement d (f + 2) (g :: rest) = .ok (e, rest) := by
  simp only [pElement, hl, hp, pParen, hs, h]
  simp

/-- on the side of the grammar: whatever derives at level 0 from `ts` … derives from the group around `ts` (redundant brackets) -/
theorem redundant_brackets_derive (d : Gen.D) (L : Nat) (g : Tok) (e : Expr) (hl : g.has LITERAL = false) (hp : g.has PAREN = true)
    (hs : startsSelect g.children = false) (hL : L ≤ 14) (h : Derives d L g.children e) : Derives d 0 [g] e :=
  .paren hl hp hs (h.up hL)

/-- the result does not depend on the fuel: the tree is a function of the token list -/
theorem parse_deterministic (d : Gen.D) (f f' : Nat) (ts : List Tok) (e e' : Expr) (r r' : List Tok)
    (h : pOr d f ts = .ok (e, r)) (h' : pOr d f' ts = .ok (e', r')) : e = e' ∧ r = r' := by
  have a := (monoF d f).pOr ts _ (max f f') h (Nat.le_max_left _ _)
  have b := (monoF d f').pOr ts _ (max f f') h' (Nat.le_max_right _ _)
  rw [a] at b
  simp only [Except.ok.injEq, Prod.mk.injEq] at b
  exact b


/-! ### `Derives` and the printer's level function: the shape of every operand -/

/-- **shape of an operand** (restated from `WNG.derives_shape`): a tree derived at level `L` has `PR.lvl ≤ L` (≤ 2 at the prefix
level 1) unless the whole token list is ONE bracket group.  Read at the operand positions of the productions of `Derives`: the
right operand of an OR node derives at level 13 — it is no OR node unless it was written in brackets; the left one may be
(left associativity); the same at every level of the table. -/
theorem derives_shape (d : Gen.D) (L : Nat) (ts : List Tok) (e : Expr) (h : Derives d L ts e) :
    PR.lvl e ≤ max L 2 ∨ ∃ g, ts = [g] ∧ g.has PAREN = true := WNG.derives_shape h

/-- at the parser, e.g. for `_parse_compute_expression` (GROUP BY / ORDER BY items, IN-list members, BETWEEN bounds …): the tree is
of a compute level, or the consumed tokens are one bracket group -/
theorem parse_shape_compute (d : Gen.D) (f : Nat) (ts : List Tok) (e : Expr) (rest : List Tok) (h : pCompute d f ts = .ok (e, rest)) :
    ∃ used, ts = used ++ rest ∧ (PR.lvl e ≤ 8 ∨ ∃ g, used = [g] ∧ g.has PAREN = true) := by
  obtain ⟨u, hu, hd⟩ := parse_derives_compute d f ts e rest h
  exact ⟨u, hu, by simpa using WNG.derives_shape hd⟩
theorem parse_shape_keyword (d : Gen.D) (f : Nat) (ts : List Tok) (e : Expr) (rest : List Tok) (h : pKeyword d f none ts = .ok (e, rest)) :
    ∃ used, ts = used ++ rest ∧ (PR.lvl e ≤ 9 ∨ ∃ g, used = [g] ∧ g.has PAREN = true) := by
  obtain ⟨u, hu, hd⟩ := parse_derives_keyword d f ts e rest h
  exact ⟨u, hu, by simpa using WNG.derives_shape hd⟩
theorem parse_shape_not (d : Gen.D) (f : Nat) (ts : List Tok) (e : Expr) (rest : List Tok) (h : pNot d f ts = .ok (e, rest)) :
    ∃ used, ts = used ++ rest ∧ (PR.lvl e ≤ 11 ∨ ∃ g, used = [g] ∧ g.has PAREN = true) := by
  obtain ⟨u, hu, hd⟩ := parse_derives_not d f ts e rest h
  exact ⟨u, hu, by simpa using WNG.derives_shape hd⟩

/-! ### uniqueness for the operator layers: given the operands, the table dictates the tree

`Derives` as a whole is not functional (`derives_not_unique_witness` below: WHICH tokens are elements is not determined where the
code accepts an operator sign as a column name).  What the precedence table, left associativity and the brackets are
responsible for is determined: -/

/-- every level-14 derivation has a LOGICAL SKELETON: a segmentation of its tokens into operands of the keyword level (token run +
tree, each derived at level 9) and OR / XOR / AND / NOT / comparison tokens along which the operator grammar `OPG.G` with the
documented levels derives the tree (`WNG.SkelL`) — and conversely every skeleton is a derivation -/
theorem logic_skeleton_exists (d : Gen.D) (L : Nat) (ts : List Tok) (e : Expr) (h : Derives d L ts e) :
    ∃ items, SkelL d ts e items := skelL_exists h
theorem logic_skeleton_derives (d : Gen.D) (ts : List Tok) (e : Expr) (items : List It) (h : SkelL d ts e items) :
    ∃ L, Derives d L ts e := by
  obtain ⟨L, x, f, g, he, ha⟩ := h
  exact ⟨max L 9, f ▸ he ▸ derives_of_GL g ha⟩
/-- **`derives_unique` for the logical layers**: two derivations with the same operands (same items) have the same tree — no
other nesting of OR / XOR / AND / NOT / comparison operators over these operands is derivable -/
theorem derives_unique_logic (d : Gen.D) (ts ts' : List Tok) (e e' : Expr) (items : List It)
    (h : SkelL d ts e items) (h' : SkelL d ts' e' items) : e = e' ∧ ts = ts' := skelL_unique h h'

/-- the same for the COMPUTE layers: operands are elements (level 0), operators the prefix signs and the binary operators of
levels 2 … 8 -/
theorem compute_skeleton_exists (d : Gen.D) (L : Nat) (ts : List Tok) (e : Expr) (h : Derives d L ts e) (hL : L ≤ 8) :
    ∃ items, SkelC d ts e items := skelC_exists h hL
theorem compute_skeleton_derives (d : Gen.D) (ts : List Tok) (e : Expr) (items : List It) (h : SkelC d ts e items) :
    ∃ L, Derives d L ts e := by
  obtain ⟨L, x, f, g, he, ha⟩ := h
  exact ⟨L, f ▸ he ▸ derives_of_GC g ha⟩
theorem derives_unique_compute (d : Gen.D) (ts ts' : List Tok) (e e' : Expr) (items : List It)
    (h : SkelC d ts e items) (h' : SkelC d ts' e' items) : e = e' ∧ ts = ts' := skelC_unique h h'

/-- the same for the KEYWORD-PREDICATE layer (level 9): operands are compute-level expressions (and the bracket groups of IN /
EXISTS with what they stand for), operators the keyword tokens; a chain of predicate tails `[NOT] BETWEEN f AND t`, `[NOT] IS a`,
`IS NOT a`, `[NOT] LIKE / RLIKE / REGEXP a`, `[NOT] IN g`, each taking everything to its left as its left operand -/
theorem keyword_skeleton_exists (d : Gen.D) (L : Nat) (ts : List Tok) (e : Expr) (h : Derives d L ts e) (hL : L ≤ 9) :
    ∃ items, flatI items = ts ∧ KD d items e ∧ ∀ u a, OPG.Item.atom (u, a) ∈ items → AtomK d u a := skelK_of h hL
theorem derives_unique_keyword (d : Gen.D) (items : List It) (e e' : Expr) (h : KD d items e) (h' : KD d items e') : e = e' :=
  h.unique h'

/-- **the returned tree is THE well-nested operator tree over its operands** (the tree-level form, `OPG.Tr.WN`: at every binary
node of level k the left operand has level ≤ k and the right operand level < k, under NOT the operand has level ≤ 11; an operand —
whatever it is: a bracket group, a keyword predicate … — has level 0): the tree `pOr` returns is the image of an operator tree `x`
over operands of the keyword level that is well nested w.r.t. the documented levels (OR 14, XOR 13, AND 12, NOT 11, comparison 10),
whose items are exactly the consumed tokens, and every well-nested tree with the same items is `x` -/
theorem parse_tree_well_nested (d : Gen.D) (f : Nat) (ts : List Tok) (e : Expr) (rest : List Tok) (h : pOr d f ts = .ok (e, rest)) :
    ∃ (x : OPG.Tr Atom Tok), ts = flatI x.flat ++ rest ∧ embL x = e ∧ x.WN (logicSig d) ∧
      (∀ u a, OPG.Item.atom (u, a) ∈ x.flat → Derives d 9 u a) ∧ ∀ y : OPG.Tr Atom Tok, y.WN (logicSig d) → y.flat = x.flat → y = x := by
  obtain ⟨u, hu, hd⟩ := parse_derives d f ts e rest h
  obtain ⟨items, x, hf, hg, he, ha⟩ := skelL_of hd
  have hx := hg.flat_eq
  exact ⟨x, by rw [hx, hf]; exact hu, he, hg.wn, by rw [hx]; exact ha, fun y hy hyf => OPG.WN_unique hy hg.wn hyf⟩
/-- the same for `_parse_compute_expression`: operands are elements, levels are the table's (prefix signs 1, binary 2 … 8) — this is
`C02.precedence_tree_unique` for the run of the parser itself, prefix operators included -/
theorem parse_compute_tree_well_nested (d : Gen.D) (f : Nat) (ts : List Tok) (e : Expr) (rest : List Tok) (h : pCompute d f ts = .ok (e, rest)) :
    ∃ (x : OPG.Tr Atom Tok), ts = flatI x.flat ++ rest ∧ embC x = e ∧ x.WN (computeSig d) ∧
      (∀ u a, OPG.Item.atom (u, a) ∈ x.flat → Derives d 0 u a) ∧ ∀ y : OPG.Tr Atom Tok, y.WN (computeSig d) → y.flat = x.flat → y = x := by
  obtain ⟨u, hu, hd⟩ := parse_derives_compute d f ts e rest h
  obtain ⟨items, x, hf, hg, he, ha⟩ := skelC_of hd (Nat.le_refl _)
  have hx := hg.flat_eq
  exact ⟨x, by rw [hx, hf]; exact hu, he, hg.wn, by rw [hx]; exact ha, fun y hy hyf => OPG.WN_unique hy hg.wn hyf⟩

/-- for the parser: what `pOr` returns is the ONLY tree over the operands of its logical skeleton -/
theorem parse_unique_over_operands (d : Gen.D) (f : Nat) (ts : List Tok) (e : Expr) (rest : List Tok) (h : pOr d f ts = .ok (e, rest)) :
    ∃ used items, ts = used ++ rest ∧ SkelL d used e items ∧ ∀ us e', SkelL d us e' items → e' = e := by
  obtain ⟨u, hu, hd⟩ := parse_derives d f ts e rest h
  obtain ⟨items, hs⟩ := skelL_exists hd
  exact ⟨u, items, hu, hs, fun us e' h' => (skelL_unique h' hs).1⟩

/-! ### every expression CONTAINED in a parsed SELECT (the opaque leaves of `Derives`, opened)

`WNG.Cov d T e`: `e` is derived by `Derives`, at some level, from a CONTIGUOUS run of tokens of `T` or of the content of a bracket
group inside `T` (any depth: `WNG.Sub`).  `WNG.exprsQ q`: the expressions at the clause positions of `q` — select items, ON
conditions / USING calls, LATERAL VIEW calls, WHERE, GROUP BY columns and grouping sets, HAVING, ORDER / SORT / DISTRIBUTE /
CLUSTER BY items — recursively through sub-queries in FROM, WITH tables and the branches of set operations. -/

/-- **C02 at every expression position of a SELECT statement** (`_parse_select_statement`, any dialect / fuel / tokens) -/
theorem select_exprs_derive (d : Gen.D) (f : Nat) (ts : List Tok) (q : Query) (rest : List Tok)
    (h : pSelectStmt d f none ts = .ok (q, rest)) : ∀ e ∈ exprsQ q, Cov d ts e :=
  (cv_all d f).pSelectStmt ts none ts q rest .refl (by simpa [exprsOW] using CovL.nil) h
/-- a sub-query element / `IN (SELECT …)` / `EXISTS (SELECT …)` (the leaf `SubQ` of `Derives`): the same for its clauses -/
theorem subquery_exprs_derive (d : Gen.D) (g : Tok) (q : Query) (h : SubQ d g q) : ∀ e ∈ exprsQ q, Cov d g.children e :=
  subQ_covered h
/-- the specification of a window (the leaf `WinSpec`): its PARTITION BY and ORDER BY items -/
theorem window_items_derive (d : Gen.D) (fn w : Expr) (cs : List Tok) (h : WinSpec d fn cs w) :
    ∃ part ord rows, w = .window fn part ord rows ∧ ∀ e ∈ part ++ ord.map oiE, Cov d cs e := winSpec_covered h
/-- clause entry points: `parse_where_clause` / HAVING, `parse_group_by_clause`, `parse_order_by_clause`, `parse_join_clause` -/
theorem where_clause_derives (d : Gen.D) (f : Nat) (kw : String) (ts : List Tok) (v : Option Expr) (rest : List Tok)
    (h : pOptOr d f kw ts = .ok (v, rest)) : ∀ e ∈ v.toList, Cov d ts e := (cv_all d f).pOptOr ts kw ts v rest .refl h
theorem group_by_clause_derives (d : Gen.D) (f : Nat) (ts : List Tok) (v : Option GroupBy) (rest : List Tok)
    (h : pGroupBy d f ts = .ok (v, rest)) : ∀ e ∈ ogbE v, Cov d ts e := (cv_all d f).pGroupBy ts ts v rest .refl h
theorem order_by_clause_derives (d : Gen.D) (f : Nat) (ts : List Tok) (v : Option (List OrderItem)) (rest : List Tok)
    (h : pOrderByOpt d f ts = .ok (v, rest)) : ∀ e ∈ oiEs v, Cov d ts e := (cv_all d f).pOrderByOpt ts ts v rest .refl h
theorem join_clause_derives (d : Gen.D) (f : Nat) (ts : List Tok) (v : Join) (rest : List Tok)
    (h : pJoin d f ts = .ok (v, rest)) : ∀ e ∈ exprsJ v, Cov d ts e := (cv_all d f).pJoin ts ts v rest .refl h

/-! ### every expression contained in a parsed STATEMENT (`parse_statements`)

`WNG.exprsStmt s`: the expressions of `s` — everything `exprsQ` collects for the queries inside (SELECT, INSERT … SELECT, CREATE TABLE …
AS, WITH tables of INSERT / UPDATE), plus partition specifications (INSERT, ANALYZE, ALTER … ADD / DROP PARTITION), VALUES rows,
UPDATE … SET values, WHERE / ORDER BY of UPDATE and DELETE, SHOW COLUMNS … WHERE, and of every column definition (CREATE TABLE
columns and PARTITIONED BY columns, ALTER … ADD / MODIFY / CHANGE) its type parameters, DEFAULT, ON UPDATE and GENERATED ALWAYS AS
expressions. -/

/-- **C02 at every expression position of every statement of a script** (token level) -/
theorem statements_exprs_derive (d : Gen.D) (f : Nat) (ts : List Tok) (ss : List Stmt) (h : pStatements d f ts = .ok ss) :
    ∀ s ∈ ss, ∀ e ∈ exprsStmt s, Cov d ts e :=
  cv_statementsLoop _ [] ts ss .refl (fun s hs => by cases hs) h
/-- one statement (`pStatement`: the body of the loop of `parse_statements`) -/
theorem statement_exprs_derive (d : Gen.D) (f : Nat) (ts : List Tok) (s : Stmt) (rest : List Tok) (h : pStatement d f ts = .ok (s, rest)) :
    ∀ e ∈ exprsStmt s, Cov d ts e := cv_pStatement .refl h
/-- the same from the TEXT: `SQLParser.parse_statements(text, sql_type)` -/
theorem statements_text_exprs_derive (d : Gen.D) (text : List Char) (ss : List Stmt) (h : parseStatementsText d text = .ok ss) :
    ∃ ts, lex Gen.cfgS (dialectPre d text) = .ok ts ∧ ∀ s ∈ ss, ∀ e ∈ exprsStmt s, Cov d ts e := by
  unfold parseStatementsText at h
  split at h
  · cases h
  · rename_i ts hl
    exact ⟨ts, hl, statements_exprs_derive d _ ts ss h⟩
/-- partition specifications: `PARTITION (a = 1, b)` — the comparison node is built outside the expression block
(`_parse_partition_expression`), from two compute-level operands: it derives at level 10 -/
theorem partition_spec_derives (d : Gen.D) (f : Nat) (already : Bool) (ts : List Tok) (v : List Expr) (rest : List Tok)
    (h : pPartition d f already ts = .ok (v, rest)) : ∀ e ∈ v, Cov d ts e := cv_pPartition .refl h
/-- column definitions: type parameters, DEFAULT, ON UPDATE, GENERATED ALWAYS AS -/
theorem column_definition_derives (d : Gen.D) (f : Nat) (ts : List Tok) (v : DefCol) (rest : List Tok)
    (h : pDefCol d f ts = .ok (v, rest)) : ∀ e ∈ exprsDC v, Cov d ts e := (cv_pDefCol .refl h).covL

/-! ### at text level: the public entry point, lexer included -/
theorem W02.entry_or : entries.find? (·.1 == "logical_or_level_expression") = some ("logical_or_level_expression", exprEntry pOr) := by
  rfl
/-- **C02 for every accepted TEXT** (`SQLParser.parse_logical_or_level_expression(text, sql_type)` = dialect pre-pass ∘ lexer ∘ parser
with the fuel the entry point computes): whatever value it returns is the tree the documented grammar derives from the tokens the
lexer produced, minus the `k` unconsumed ones. -/
theorem parse_text_derives (d : Gen.D) (text : List Char) (v : Val) (k : Nat)
    (h : parseText "logical_or_level_expression" d text = .ok (v, k)) :
    ∃ ts used rest e, lex Gen.cfgS (dialectPre d text) = .ok ts ∧ ts = used ++ rest ∧ rest.length = k ∧ v = e.toVal ∧
      Derives d 14 used e := by
  unfold parseText at h
  rw [W02.entry_or] at h
  simp only at h
  split at h
  · cases h
  · rename_i ts hl
    simp only [exprEntry] at h
    split at h
    · rename_i v' r hp
      split at hp
      · rename_i e r' hq
        simp only [Except.ok.injEq, Prod.mk.injEq] at hp h
        obtain ⟨rfl, rfl⟩ := hp
        obtain ⟨rfl, rfl⟩ := h
        obtain ⟨u, hu, hd⟩ := parse_derives d _ ts e r' hq
        exact ⟨ts, u, r', e, hl, hu, rfl, rfl, hd⟩
      · cases hp
    · cases h

/-! ### non-vacuity and witnesses -/
namespace W02
def ta : Tok := Tok.single "a".toList 2
def tb : Tok := Tok.single "b".toList 2
def tor : Tok := Tok.single "OR".toList 0
def tmi : Tok := Tok.single "-".toList 0
def ca : Expr := .column none "a"
def cb : Expr := .column none "b"
theorem da : Derives .MYSQL 0 [ta] ca := Derives.column (t := ta) (by rfl) (by rfl)
theorem db : Derives .MYSQL 0 [tb] cb := Derives.column (t := tb) (by rfl) (by rfl)
end W02
open W02

/-- non-vacuity of `parse_derives` (kernel-checked run of the model on tokens) and of `Derives` (a derivation built by hand) -/
example : ∃ used, [ta, tor, tb] = used ++ [] ∧ Derives .MYSQL 14 used (.or_ ca cb) :=
  parse_derives .MYSQL 30 [ta, tor, tb] _ [] (by rfl)
example : Derives .MYSQL 14 [ta, tor, tb] (.or_ ca cb) :=
  Derives.or_ (l := [ta]) (da.up (by omega)) (by rfl) (db.up (by omega))

/-- non-vacuity of `select_exprs_derive` (kernel-checked run of the model on the tokens of `SELECT a OR b WHERE a`) -/
def W02.tsel : Tok := Tok.single "SELECT".toList 0
def W02.twh : Tok := Tok.single "WHERE".toList 0
def W02.q0 : Query := .single (.mk (some []) false [(.or_ ca cb, none)] none [] [] (some ca) none none none none none none none)
example : Cov .MYSQL [W02.tsel, ta, tor, tb, W02.twh, ta] (.or_ ca cb) :=
  select_exprs_derive .MYSQL 40 _ W02.q0 [] (by rfl) _ (by simp [W02.q0, exprsQ, exprsS])

/-- **`Derives` is not functional** (why there is no `derives_unique` for the relation as it stands): the code accepts ANY token as
a column name (DEVIATION 2), so `a - - - b` also derives `(a - "-") - b`, with the second `-` read as a column; the parser
returns `a - (-(-b))` (`parse_derives` only says the returned tree is ONE of the derivable ones). -/
theorem derives_not_unique_witness :
    ∃ (ts : List Tok) (e e' : Expr), Derives .MYSQL 8 ts e ∧ Derives .MYSQL 8 ts e' ∧ e ≠ e' := by
  have hop : computeOp? (up tmi.src) = some ("SUBTRACT", 5) := by rfl
  have hun : isUnary .MYSQL tmi = true := by rfl
  have u1 : Derives .MYSQL 1 [tmi, tb] (.unary "SUBTRACT" cb) := .unary hun hop (db.up (by omega))
  have u2 : Derives .MYSQL 1 [tmi, tmi, tb] (.unary "SUBTRACT" (.unary "SUBTRACT" cb)) := .unary hun hop u1
  have d1 : Derives .MYSQL 5 ([ta] ++ tmi :: [tmi, tmi, tb]) (.compute ca "SUBTRACT" (.unary "SUBTRACT" (.unary "SUBTRACT" cb))) :=
    .compute hop (da.up (by omega)) (u2.up (by omega))
  have cm : Derives .MYSQL 0 [tmi] (.column none (unifyName tmi.src)) := .column (by rfl) (by rfl)
  have i2 : Derives .MYSQL 5 ([ta] ++ tmi :: [tmi]) (.compute ca "SUBTRACT" (.column none (unifyName tmi.src))) :=
    .compute hop (da.up (by omega)) (cm.up (by omega))
  have d2 : Derives .MYSQL 5 (([ta] ++ tmi :: [tmi]) ++ tmi :: [tb]) (.compute (.compute ca "SUBTRACT" (.column none (unifyName tmi.src))) "SUBTRACT" cb) :=
    .compute hop i2 (db.up (by omega))
  refine ⟨[ta, tmi, tmi, tmi, tb], _, _, d1.up (by omega), d2.up (by omega), ?_⟩
  intro h
  injection h with h1 _ _
  simp [ca] at h1

/-! evaluated witnesses on the model (tests: `String` functions do not reduce in the kernel), each confirmed on the real code:
DEVIATION 1 — `a ~ b ^ c` is `(a ~ b) ^ c`, `a ! b` is accepted (MySQL); DEVIATION 2 — `a + AND` is `a + "AND"`;
DEVIATION 3 — `a NOT IS NOT b` stops after `a IS NOT "NOT"` (one token left); DEVIATION 4 — `a IN (1,,2)` = `a IN (1,2)`. -/
private def showOr (d : Gen.D) (s : String) : String :=
  match parseText "logical_or_level_expression" d s.toList with | .ok (v, k) => Drv.showVal v ++ s!" /{k}" | .error e => "ERR " ++ e.show
#guard showOr .MYSQL "a ~ b ^ c" == showOr .MYSQL "(a ~ b) ^ c"
#guard showOr .MYSQL "a ~ b ^ c" != showOr .MYSQL "a ~ (b ^ c)"
#guard (showOr .MYSQL "a ! b").startsWith "ASTComputeExpression"
#guard showOr .MYSQL "a + AND" == showOr .MYSQL "a + `AND`"
#guard (showOr .MYSQL "a NOT IS NOT b").endsWith " /1"
#guard showOr .MYSQL "a IN (1,,2)" == showOr .MYSQL "a IN (1,2)"
#guard showOr .MYSQL "a - - - b" == showOr .MYSQL "a - (-(-b))"
#guard showOr .MYSQL "(a)" == showOr .MYSQL "a" && showOr .MYSQL "((a OR b))" == showOr .MYSQL "a OR b"
#guard showOr .MYSQL "(a OR b) AND c" != showOr .MYSQL "a OR b AND c" && showOr .MYSQL "a OR (b AND c)" == showOr .MYSQL "a OR b AND c"

end C02
