import MsqProofs.Props.C03RL
/-!
# C03 / C01 — a WEAKER decidable sufficient condition for the payload hypotheses `LeafAny` of the text-level theorems

The measurement of Tools/FragWhy.lean (DESIGN §12.9) shows 6 % of the grammar-shaped statements at token level ONLY because an unqualified
column name is no plain name (`` `k y` ``, `é1`, `` `a.b` ``): `C01.colLexB` asks `PR.isPlainName c`, the hypothesis `colLex d c` of the theorems only
asks that the printer writes the name back-quoted verbatim and that it contains no back-quote and no character the lexer's pre-pass rewrites.
`colLexB2` decides exactly that; `leafAnyB2` is `leafAnyB` with it, `leafAny_of_B2 : leafAnyB2 d s = true → LeafAny d s`.  So
`C01.statement_round_trip_text_any` / `C03.tstatement_any_text` apply wherever `FragAny`, `printableAny`, `leafAnyB2` and the pre-pass condition
evaluate to `true` (`C01.statement_round_trip_text_any_B2`).  The statements of the registered theorems are unchanged. -/
set_option linter.unusedVariables false
set_option linter.unusedSimpArgs false
open Lex PM Ast TP TS LexLink TQ2 LL2 LL2.Any TR

namespace C03.AnyText
open C03.Rest C03.Q2Text

/-- `colLex d c`, decided directly: the printer's text is the back-quoted name, no back-quote and no pre-pass character inside -/
def colLexB2 (d : Gen.D) (c : String) : Bool :=
  (PR.columnSrc d none c).toList == '`' :: (c.toList ++ ['`']) && c.toList.all (fun x => x != '`' && C05.plain x)
theorem colLex_of_B2 (d : Gen.D) (c : String) (h : colLexB2 d c = true) : colLex d c := by
  simp only [colLexB2, Bool.and_eq_true, beq_iff_eq, List.all_eq_true, bne_iff_ne, ne_eq] at h
  exact ⟨h.1, fun x hx => h.2 x hx⟩
/-- `C03.leafOKB` with the weaker column condition -/
def leafOKB2 (d : Gen.D) : LeafItem → Bool
  | .col none c => colLexB2 d c
  | x => C03.leafOKB d x
theorem leafOK_of_B2 (d : Gen.D) (x : LeafItem) (h : leafOKB2 d x = true) : leafOK d x := by
  cases x with
  | col t c =>
    cases t with
    | none => exact colLex_of_B2 d c h
    | some t => exact C03.leafOK_of_B d _ h
  | _ => exact C03.leafOK_of_B d _ h
def leafOK2B2 (d : Gen.D) : Leaf2 → Bool
  | .old x => leafOKB2 d x
  | .guard p => p d
theorem leafOK2_of_B2 (d : Gen.D) (x : Leaf2) (h : leafOK2B2 d x = true) : leafOK2 d x := by
  cases x with
  | old y => exact leafOK_of_B2 d y h
  | guard p => exact h
def opLeafB2 (d : Gen.D) : AlterOp → Bool
  | .addPartition _ p => (leavesL4 p).all (leafOK2B2 d)
  | .add x => coiLeafB d x
  | .modify x => coiLeafB d x
  | .change f t => C03.nameLexB f && coiLeafB d t
  | .renameColumn f t => C03.nameLexB f && C03.nameLexB t
  | .dropColumn c => C03.nameLexB c
  | .dropPartition _ p => (leavesL4 p).all (leafOK2B2 d)
/-- `LeafAny d s`, decidable -/
def leafAnyB2 (d : Gen.D) : Stmt → Bool
  | .createTable c => C18.leafCB d c
  | .dropTable _ t => tblLeafB t
  | .truncate t => tblLeafB t
  | .msck t => tblLeafB t
  | .use s => C18.srcLexB s
  | .set c => cfgLexB c.name && cfgLexB c.value
  | .analyze t p _ _ _ => tblLeafB t && (leavesPart p).all (leafOK2B2 d)
  | .alter t ops => tblLeafB t && ops.all (opLeafB2 d)
  | .showDatabases => true
  | .showTables => true
  | .showColumns fr wh => (leavesTables4 fr ++ leavesO4 wh).all (leafOK2B2 d)
  | .createTableAs t _ q => tblLeafB t && (leavesStmt (.select q)).all (leafOK2B2 d)
  | s => (leavesStmt s).all (leafOK2B2 d)

theorem on2_of_B2 (d : Gen.D) (l : List Leaf2) (h : l.all (leafOK2B2 d) = true) : On2 (leafOK2 d) l :=
  fun x hx => leafOK2_of_B2 d x ((List.all_eq_true.mp h) x hx)
theorem opLeaf_of_B2 (d : Gen.D) (o : AlterOp) (h : opLeafB2 d o = true) : opLeaf d o := by
  cases o with
  | addPartition b p => exact on2_of_B2 d _ h
  | dropPartition b p => exact on2_of_B2 d _ h
  | add x => exact coiLeaf_of_B d x h
  | modify x => exact coiLeaf_of_B d x h
  | change f t =>
    simp only [opLeafB2, Bool.and_eq_true] at h
    exact ⟨C18.nameLex_of_B _ h.1, coiLeaf_of_B d t h.2⟩
  | renameColumn f t =>
    simp only [opLeafB2, Bool.and_eq_true] at h
    exact ⟨C18.nameLex_of_B _ h.1, C18.nameLex_of_B _ h.2⟩
  | dropColumn c => exact C18.nameLex_of_B _ h
theorem leafAny_of_B2 (d : Gen.D) (s : Stmt) (h : leafAnyB2 d s = true) : LeafAny d s := by
  cases s with
  | select q => exact on2_of_B2 d _ h
  | insertValues hd vs => exact on2_of_B2 d _ h
  | insertSelect hd q => exact on2_of_B2 d _ h
  | update ws t sets wh ob lm => exact on2_of_B2 d _ h
  | delete t wh ob lm => exact on2_of_B2 d _ h
  | createTable c => exact C18.leafC_of_B d c h
  | dropTable b t => exact tblLeaf_of_B t h
  | truncate t => exact tblLeaf_of_B t h
  | msck t => exact tblLeaf_of_B t h
  | use s => exact C18.srcLex_of_B s h
  | set c =>
    simp only [leafAnyB2, Bool.and_eq_true] at h
    exact ⟨cfgLex_of_B _ h.1, cfgLex_of_B _ h.2⟩
  | analyze t p fc cm ns =>
    simp only [leafAnyB2, Bool.and_eq_true] at h
    exact ⟨tblLeaf_of_B t h.1, on2_of_B2 d _ h.2⟩
  | alter t ops =>
    simp only [leafAnyB2, Bool.and_eq_true] at h
    exact ⟨tblLeaf_of_B t h.1, fun o ho => opLeaf_of_B2 d o ((List.all_eq_true.mp h.2) o ho)⟩
  | showDatabases => trivial
  | showTables => trivial
  | showColumns fr wh => exact on2_of_B2 d _ h
  | createTableAs t ine q =>
    simp only [leafAnyB2, Bool.and_eq_true] at h
    exact ⟨tblLeaf_of_B t h.1, on2_of_B2 d _ h.2⟩

end C03.AnyText

namespace C01
open C03.AnyText
/-- **`C01.statement_round_trip_text_any` with every hypothesis a `Bool`** (the weaker payload condition `leafAnyB2`) -/
theorem statement_round_trip_text_any_B2 (d : Gen.D) (s : Stmt) (hs : FragAny d s = true) (hp : printableAny d s = true) (hl : leafAnyB2 d s = true)
    (hpre : dialectPre d (anyL d s) = anyL d s) :
    ∃ (str : String) (ts : List Tok), PR.prStmt d s = .ok str ∧ Lex.lex Gen.cfgS (dialectPre d str.toList) = .ok ts ∧
      pStatement d (fuelFor ts) ts = .ok (s, []) ∧
      (∀ s', pStatement d (fuelFor ts) ts = .ok (s', []) → PR.prStmt d s' = .ok str) ∧
      parseStatementsText d str.toList = .ok [s] ∧
      (∀ sts, parseStatementsText d str.toList = .ok sts → sts.map (PR.prStmt d) = [.ok str]) :=
  statement_round_trip_text_any d s hs hp (leafAny_of_B2 d s hl) hpre
end C01

namespace C03.AnyText
open C03.Rest
/-- `SELECT \`k y\`, \`é1\` FROM \`t\` WHERE \`a.b\` = 1`: back-quoted column names that are no plain names -/
def c2 : Stmt := .select (.single (.mk (some []) false [(col "k y", none), (col "é1", none)] (some [tb "t"]) [] [] (some (eqp "a.b" "1")) none none none none none none none))
#guard FragAny .MYSQL c2 && !leafAnyB .MYSQL c2 && leafAnyB2 .MYSQL c2 && leafAnyB2 .HIVE c2 && agreesA .MYSQL c2 == false &&
  (match PR.prStmt .MYSQL c2 with | .ok x => x.toList == anyL .MYSQL c2 && eqbL (lexed x) (toksAny .MYSQL c2) | .error _ => false) && parsesBack .MYSQL c2 &&
  !leafAnyB2 .MYSQL (.select (.single (.mk (some []) false [(col "a`b", none)] none [] [] none none none none none none none none))) &&
  !leafAnyB2 .DB2 (.select (.single (.mk (some []) false [(col "CURRENT_DATE", none)] none [] [] none none none none none none none none)))
end C03.AnyText
