import MsqProofs.Lemmas.TSelectMain
import MsqModel.Driver.ShowVal
/-!
# C03 / C01 — T-parse for the SELECT skeleton: every clause of a single SELECT lands in its slot, for ALL trees of a fragment

**Fragment** (`TS.FragS d s : Bool` over the model's `Ast.Select`; any number of items / tables / joins / keys, any expression depth):
* `WITH` slot `some []` (what `_parse_single_select_statement` is handed for a plain SELECT), optional `DISTINCT`;
* ≥ 1 select items, each an expression of the operator fragment (`TP.Frag`, see Props/C02T.lean) with an optional alias that the
  printer prints bare after `AS` (`aliasOK`: every plain name that is no word of `Gen.wordMarks`, `aliasOK_of_plain`);
* optional `FROM` with ≥ 1 unqualified table names (`tableOK`: every plain name, `tableOK_of_plain`), each with optional alias;
* any number of JOINs of EVERY join type of the regenerated table `Gen.joinTypes` (`all_join_types_ok`), each on an unqualified table
  with optional alias, with `ON <fragment expression>` or without a rule;
* optional `WHERE`, `HAVING` (fragment expressions); optional `GROUP BY` (plain list of ≥ 1 fragment expressions, no GROUPING SETS /
  CUBE / ROLLUP); optional `ORDER BY` with ≥ 1 keys, each ascending (printed without a word) or `DESC`, no `NULLS FIRST / LAST`;
  optional `LIMIT n` / `LIMIT m, n` (the printer's only spelling; `n`, `m` non-negative integers whose decimal text `asInt` reads
  back — `limOK`, a decidable check, true below Python's 4300-digit limit);
* no LATERAL VIEW, no SORT / DISTRIBUTE / CLUSTER BY, no `USING`, no sub-queries, no schema-qualified tables.
Two decidable side conditions that hold for every rendering but are checked rather than proved: the first select item does not begin
with the word DISTINCT (when the statement has none) and the first GROUP BY key does not begin with the word GROUPING.

**Token-level printer** `TS.toksS d s`: `PR.prS d s` clause by clause as tokens (expressions by `TP.toksE d TP.noX`; GROUP BY / ORDER BY
keys at the printer's bound 8).  The link `lex (prS d s) = toksS d s` is the lexer's business; `#guard`s below check it by compiled
evaluation for concrete SELECTs in four dialects.

**Theorems** (every dialect; `rest` with `TS.stopsS d rest`: empty, or the head does not continue an expression, carries no NAME or
PARENTHESIS mark and is none of the clause / continuation words — e.g. `;`, `UNION`, a closing context):
* `C03.tselect` : `FragS d s → stopsS d rest → 20 * sizeL (toksS d s) + 30 ≤ fuel → pSingle d fuel [] (toksS d s ++ rest) = ok (s, rest)`;
  `tselect_entry_fuel` (the fuel the entry points compute);
* `C03.tselect_statement` : the same through `pStatement` (the loop body of `parse_statements`): `ok (.select (.single s), rest)`;
* `C03.clause_slots` : the parse of the rendering has, slot by slot, exactly the content of `s` (items in order with aliases, tables
  with aliases, joins with types and rules, WHERE / HAVING trees, GROUP BY and ORDER BY lists in order with directions, LIMIT count
  and offset not swapped) — so two fragment SELECTs that differ in one clause have parses that differ in that slot only;
* `C03.clause_absent` : an omitted optional clause gives the empty slot;
* `C03.rendering_determines_select` : equal renderings, equal trees;
* `C01.select_round_trip_tokens` : `pSingle d fuel [] (toksS d s) = ok (s, [])`.
-/
set_option linter.unusedVariables false
set_option linter.unusedSimpArgs false
open Lex PM Ast TP TS

namespace TS
/-! ### the operator-free side conditions hold for plain names and for the whole join table -/
theorem all_join_types_ok : Gen.allD.all (fun d => Gen.joinTypes.all (fun e => joinTyOK d e.1)) = true := by decide

theorem unifyName_plain (a : String) (h : PR.isPlainName a = true) : unifyName a = a := by
  obtain ⟨p1, p2, p3⟩ := plain_chars a h
  unfold unifyName
  rw [dropWhile_bq_plain _ p2, dropWhile_bq_plain _ p3, List.reverse_reverse, String.ofList_toList]
theorem aliasOK_of_plain (a : String) (h : PR.isPlainName a = true) (hw : Gen.wordMarks.any (·.1 == Gen.pyUpperS a) = false) :
    aliasOK a = true := by
  have hq : PR.quoteName a = a := by simp [PR.quoteName, h, hw]
  have hfind : Gen.wordMarks.find? (·.1 == up a) = none := by
    rw [List.find?_eq_none]
    intro x hx
    have := List.any_eq_false.1 hw x hx
    simpa [up] using this
  have hword : isWordS a = true := by
    unfold PR.isPlainName at h
    unfold isWordS
    cases hc : a.toList with
    | nil => rw [hc] at h; simp at h
    | cons c r => rw [hc] at h; simp only [Bool.and_eq_true] at h; simpa using h.1
  have hm : (opTok a).has NAME = true := by
    simp only [opTok, wordMark, hfind, hword, if_true, Tok.has, Tok.marks]; decide
  simp only [aliasOK, hm, src_opTok, unifyName_plain a h, hq, beq_self_eq_true]; rfl
theorem tableOK_of_plain (n : String) (a : Option String) (h : PR.isPlainName n = true) (ha : optAliasOK a = true) :
    tableOK (.mk (.table none n) a) = true := by
  obtain ⟨p1, p2, p3⟩ := plain_chars n h
  have hnodot : ∀ x ∈ n.toList, (x == '.') = false := by
    unfold PR.isPlainName at h
    cases hc : n.toList with
    | nil => intro x hx; simp at hx
    | cons c r =>
      rw [hc] at h
      simp only [Bool.and_eq_true, List.all_eq_true] at h
      intro x hx
      simp only [List.mem_cons] at hx
      rcases hx with rfl | hx
      · cases hq : (x == '.') with
        | false => rfl
        | true => simp only [beq_iff_eq] at hq; subst hq; exact absurd h.1 (by decide)
      · cases hq : (x == '.') with
        | false => rfl
        | true => simp only [beq_iff_eq] at hq; subst hq; exact absurd (h.2 _ hx) (by decide)
  have hfil : ((nameTok n).src.toList.filter (· == '.')) = [] := by
    rw [toList_src_nameTok]
    simp only [List.filter_cons, List.filter_append, List.filter_nil]
    have : n.toList.filter (· == '.') = [] := List.filter_eq_nil_iff.2 (fun x hx => by simpa using hnodot x hx)
    simp [this]
  have hs : splitName (nameTok n).src = .ok (none, n) := by
    unfold splitName
    simp [hfil, unifyName_nameTok n p1 p2 p3]
  simp only [tableOK, hs, isOkNone, ha, beq_self_eq_true]; rfl

/-! ### the slots of a SELECT -/
def distinctOf : Select → Bool | .mk _ x _ _ _ _ _ _ _ _ _ _ _ _ => x
def itemsOf : Select → List (Expr × Option String) | .mk _ _ x _ _ _ _ _ _ _ _ _ _ _ => x
def fromOf : Select → Option (List FromTable) | .mk _ _ _ x _ _ _ _ _ _ _ _ _ _ => x
def joinsOf : Select → List Join | .mk _ _ _ _ _ x _ _ _ _ _ _ _ _ => x
def whereOf : Select → Option Expr | .mk _ _ _ _ _ _ x _ _ _ _ _ _ _ => x
def groupOf : Select → Option GroupBy | .mk _ _ _ _ _ _ _ x _ _ _ _ _ _ => x
def havingOf : Select → Option Expr | .mk _ _ _ _ _ _ _ _ x _ _ _ _ _ => x
def orderOf : Select → Option (List OrderItem) | .mk _ _ _ _ _ _ _ _ _ x _ _ _ _ => x
def limitOf : Select → Option (Int × Option Int) | .mk _ _ _ _ _ _ _ _ _ _ _ _ _ x => x
end TS

namespace C03
/-- **T-parse, single SELECT.**  Parsing the token rendering of a fragment SELECT returns exactly that tree — every clause in its slot
with its content — in front of every continuation that does not continue a SELECT, at every fuel above an explicit linear bound -/
theorem tselect (d : Gen.D) (s : Select) (hs : FragS d s = true) (rest : List Tok) (hr : stopsS d rest = true)
    (fuel : Nat) (hfuel : 20 * sizeL (toksS d s) + 30 ≤ fuel) : pSingle d fuel [] (toksS d s ++ rest) = .ok (s, rest) := by
  obtain ⟨ws, dist, cols, fr, lats, js, wh, gb, hv, ob, sb, db, cb, lm⟩ := s
  cases ws with
  | none => simp [FragS] at hs
  | some w =>
    cases w with
    | cons x y => simp [FragS] at hs
    | nil =>
      cases cols with
      | nil => simp [FragS] at hs
      | cons c cs =>
        cases lats with
        | cons x y => simp [FragS] at hs
        | nil =>
          cases sb with
          | some x => simp [FragS] at hs
          | none =>
            cases db with
            | some x => simp [FragS] at hs
            | none =>
              cases cb with
              | some x => simp [FragS] at hs
              | none =>
                simp only [FragS, Bool.and_eq_true, List.all_eq_true] at hs
                obtain ⟨⟨⟨⟨⟨⟨⟨⟨⟨hc, hcs⟩, hdist⟩, hfr⟩, hjs⟩, hwh⟩, hgb⟩, hhv⟩, hob⟩, hlm⟩ := hs
                exact single dist c cs fr js wh gb hv ob lm hc hcs hdist hfr hjs hwh hgb hhv hob hlm rest hr fuel hfuel
/-- with the fuel the public entry points compute from the token list -/
theorem tselect_entry_fuel (d : Gen.D) (s : Select) (hs : FragS d s = true) (rest : List Tok) (hr : stopsS d rest = true) :
    pSingle d (fuelFor (toksS d s ++ rest)) [] (toksS d s ++ rest) = .ok (s, rest) :=
  tselect d s hs rest hr _ (by simp only [fuelFor, sizeL_append]; omega)

/-- the rendering of a fragment SELECT starts with the SELECT keyword -/
theorem toksS_head (d : Gen.D) (s : Select) (hs : FragS d s = true) : ∃ x, toksS d s = opTok "SELECT" :: x := by
  obtain ⟨ws, dist, cols, fr, lats, js, wh, gb, hv, ob, sb, db, cb, lm⟩ := s
  cases cols with
  | nil => cases ws with
    | none => simp [FragS] at hs
    | some w => cases w <;> simp [FragS] at hs
  | cons c cs => exact ⟨_, rfl⟩

/-- **the same through the statement level**: one iteration of the loop of `parse_statements` (before the optional `;`) on the
rendering of a fragment SELECT returns the SELECT statement with that tree, when no set operator follows -/
theorem tselect_statement (d : Gen.D) (s : Select) (hs : FragS d s = true) (rest : List Tok) (hr : stopsS d rest = true)
    (hu : setOpHead rest = false) (fuel : Nat) (hfuel : 20 * sizeL (toksS d s) + 31 ≤ fuel) :
    pStatement d fuel (toksS d s ++ rest) = .ok (.select (.single s), rest) := by
  obtain ⟨x, hx⟩ := toksS_head d s hs
  obtain ⟨g, rfl⟩ : ∃ g, fuel = g + 1 := ⟨fuel - 1, by omega⟩
  have h1 := tselect d s hs rest hr g (by omega)
  rw [hx] at h1 ⊢
  simp only [List.cons_append] at h1 ⊢
  have k : ∀ w : String, w ≠ "SELECT" → (opTok "SELECT").srcEqUp w = false := by
    intro w hw
    have : up (opTok "SELECT").src = "SELECT" := by decide
    simp only [Tok.srcEqUp, this, beq_eq_false_iff_ne, ne_eq]
    exact fun h => hw h.symm
  have s1 : ∀ w : String, w ≠ "SELECT" → searchStrUp (opTok "SELECT" :: (x ++ rest)) w = false := by
    intro w hw; simpa [searchStrUp] using k w hw
  have s2 : ∀ a b : String, a ≠ "SELECT" → searchTwoUp (opTok "SELECT" :: (x ++ rest)) a b = false := by
    intro a b ha
    cases hxr : x ++ rest <;> simp [searchTwoUp, hxr, k a ha]
  have s3 : ∀ a b c : String, a ≠ "SELECT" → searchThreeUp (opTok "SELECT" :: (x ++ rest)) a b c = false := by
    intro a b c ha
    rcases hxr : x ++ rest with _ | ⟨y, _ | ⟨z, r⟩⟩ <;> simp [searchThreeUp, hxr, k a ha]
  have sS : searchStrUp (opTok "SELECT" :: (x ++ rest)) "SELECT" = true := by
    have : (opTok "SELECT").srcEqUp "SELECT" = true := by decide
    simpa [searchStrUp] using this
  have hw : pWith d (g + 1) (opTok "SELECT" :: (x ++ rest)) = .ok ([], opTok "SELECT" :: (x ++ rest)) := by
    unfold pWith
    simp [s1 "WITH" (by decide)]
  have hun : pUnions d g [] [] rest = .ok ([], rest) := by
    obtain ⟨g', rfl⟩ : ∃ g', g = g' + 1 := ⟨g - 1, by omega⟩
    unfold pUnions
    simp [hu]
  have hsel : pSelectStmt d (g + 1) (some []) (opTok "SELECT" :: (x ++ rest)) = .ok (.single s, rest) := by
    unfold pSelectStmt
    simp only [h1, hun]
    rfl
  unfold pStatement
  simp only [s1 "SET" (by decide), s2 "DELETE" "FROM" (by decide), s2 "DROP" "TABLE" (by decide), s2 "CREATE" "TABLE" (by decide),
    s2 "ANALYZE" "TABLE" (by decide), s2 "ALTER" "TABLE" (by decide), s3 "MSCK" "REPAIR" "TABLE" (by decide), s1 "USE" (by decide),
    s2 "TRUNCATE" "TABLE" (by decide), s2 "SHOW" "DATABASES" (by decide), s2 "SHOW" "TABLES" (by decide), s2 "SHOW" "COLUMNS" (by decide),
    Bool.false_eq_true, if_false, hw, sS, if_true, hsel]

/-- **every clause in its slot**: the parse of the rendering has, slot by slot, the content of the tree -/
theorem clause_slots (d : Gen.D) (s : Select) (hs : FragS d s = true) (rest : List Tok) (hr : stopsS d rest = true)
    (fuel : Nat) (hfuel : 20 * sizeL (toksS d s) + 30 ≤ fuel) :
    ∃ p, pSingle d fuel [] (toksS d s ++ rest) = .ok (p, rest) ∧ distinctOf p = distinctOf s ∧ itemsOf p = itemsOf s ∧ fromOf p = fromOf s ∧
      joinsOf p = joinsOf s ∧ whereOf p = whereOf s ∧ groupOf p = groupOf s ∧ havingOf p = havingOf s ∧ orderOf p = orderOf s ∧
      limitOf p = limitOf s :=
  ⟨s, tselect d s hs rest hr fuel hfuel, rfl, rfl, rfl, rfl, rfl, rfl, rfl, rfl, rfl⟩
/-- two fragment SELECTs that differ in the WHERE clause only have parses that differ in the where slot only (the other clauses
likewise: `clause_slots`) -/
theorem where_slot_only (d : Gen.D) (s s' : Select) (hs : FragS d s = true) (hs' : FragS d s' = true)
    (hsame : distinctOf s = distinctOf s' ∧ itemsOf s = itemsOf s' ∧ fromOf s = fromOf s' ∧ joinsOf s = joinsOf s' ∧ groupOf s = groupOf s' ∧
      havingOf s = havingOf s' ∧ orderOf s = orderOf s' ∧ limitOf s = limitOf s')
    (fuel : Nat) (hfuel : 20 * sizeL (toksS d s) + 30 ≤ fuel) (hfuel' : 20 * sizeL (toksS d s') + 30 ≤ fuel) :
    ∃ p p', pSingle d fuel [] (toksS d s) = .ok (p, []) ∧ pSingle d fuel [] (toksS d s') = .ok (p', []) ∧
      whereOf p = whereOf s ∧ whereOf p' = whereOf s' ∧
      distinctOf p = distinctOf p' ∧ itemsOf p = itemsOf p' ∧ fromOf p = fromOf p' ∧ joinsOf p = joinsOf p' ∧ groupOf p = groupOf p' ∧
      havingOf p = havingOf p' ∧ orderOf p = orderOf p' ∧ limitOf p = limitOf p' := by
  have a := tselect d s hs [] rfl fuel hfuel
  have b := tselect d s' hs' [] rfl fuel hfuel'
  simp only [List.append_nil] at a b
  exact ⟨s, s', a, b, rfl, rfl, hsame.1, hsame.2.1, hsame.2.2.1, hsame.2.2.2.1, hsame.2.2.2.2.1, hsame.2.2.2.2.2.1, hsame.2.2.2.2.2.2.1,
    hsame.2.2.2.2.2.2.2⟩
/-- **an omitted optional clause gives the empty slot**, never a default from another clause: when the rendering has no tokens for a
clause (`toksFrom`, `toksOpt`, `toksGroup`, `toksOrder`, `toksLimit` of the slot are empty) the parsed slot is empty -/
theorem clause_absent (d : Gen.D) (s : Select) (hs : FragS d s = true) (rest : List Tok) (hr : stopsS d rest = true)
    (fuel : Nat) (hfuel : 20 * sizeL (toksS d s) + 30 ≤ fuel) :
    ∃ p, pSingle d fuel [] (toksS d s ++ rest) = .ok (p, rest) ∧
      (toksFrom (fromOf s) = [] → fromOf p = none) ∧ (toksJoins d (joinsOf s) = [] → joinsOf p = []) ∧
      (toksOpt d "WHERE" (whereOf s) = [] → whereOf p = none) ∧ (toksGroup d (groupOf s) = [] → groupOf p = none) ∧
      (toksOpt d "HAVING" (havingOf s) = [] → havingOf p = none) ∧ (toksOrder d (orderOf s) = [] → orderOf p = none) ∧
      (toksLimit (limitOf s) = [] → limitOf p = none) := by
  refine ⟨s, tselect d s hs rest hr fuel hfuel, ?_⟩
  obtain ⟨ws, dist, cols, fr, lats, js, wh, gb, hv, ob, sb, db, cb, lm⟩ := s
  cases ws with
  | none => simp [FragS] at hs
  | some w =>
    cases w with
    | cons x y => simp [FragS] at hs
    | nil =>
      cases cols with
      | nil => simp [FragS] at hs
      | cons c cs =>
        cases lats with
        | cons x y => simp [FragS] at hs
        | nil =>
          cases sb with
          | some x => simp [FragS] at hs
          | none =>
            cases db with
            | some x => simp [FragS] at hs
            | none =>
              cases cb with
              | some x => simp [FragS] at hs
              | none =>
                simp only [FragS, Bool.and_eq_true, List.all_eq_true] at hs
                obtain ⟨⟨⟨⟨⟨⟨⟨⟨⟨hc, hcs⟩, hdist⟩, hfr⟩, hjs⟩, hwh⟩, hgb⟩, hhv⟩, hob⟩, hlm⟩ := hs
                simp only [fromOf, joinsOf, whereOf, groupOf, havingOf, orderOf, limitOf]
                refine ⟨?_, ?_, ?_, ?_, ?_, ?_, ?_⟩
                · intro h
                  cases fr with
                  | none => rfl
                  | some l => cases l with
                    | nil => simp [fromOK] at hfr
                    | cons t ts => simp [toksFrom] at h
                · intro h
                  cases js with
                  | nil => rfl
                  | cons j js =>
                    have := sizeL_toksJoin_pos (d := d) j
                    simp only [toksJoins, List.append_eq_nil_iff] at h
                    rw [h.1] at this; simp [sizeL] at this
                · intro h; cases wh with | none => rfl | some e => simp [toksOpt] at h
                · intro h
                  cases gb with
                  | none => rfl
                  | some g =>
                    obtain ⟨gc, x1, x2, x3⟩ := g
                    cases gc with
                    | nil => simp [groupOK] at hgb
                    | cons e es => simp [toksGroup] at h
                · intro h; cases hv with | none => rfl | some e => simp [toksOpt] at h
                · intro h
                  cases ob with
                  | none => rfl
                  | some l => cases l with
                    | nil => simp [orderOK] at hob
                    | cons o os => simp [toksOrder] at h
                · intro h
                  cases lm with
                  | none => rfl
                  | some p => obtain ⟨n, o⟩ := p; cases o <;> simp [toksLimit] at h
/-- equal renderings, equal trees: the token rendering determines every slot -/
theorem rendering_determines_select (d : Gen.D) (s s' : Select) (hs : FragS d s = true) (hs' : FragS d s' = true)
    (h : toksS d s = toksS d s') : s = s' := by
  have a := tselect d s hs [] rfl (20 * sizeL (toksS d s) + 30) (Nat.le_refl _)
  have b := tselect d s' hs' [] rfl (20 * sizeL (toksS d s) + 30) (by rw [h]; exact Nat.le_refl _)
  rw [← h, a] at b
  simp only [Except.ok.injEq, Prod.mk.injEq, and_true] at b
  exact b
end C03

namespace C01
/-- **print / parse round trip of a single SELECT, token level** -/
theorem select_round_trip_tokens (d : Gen.D) (s : Select) (hs : FragS d s = true) (fuel : Nat) (hfuel : 20 * sizeL (toksS d s) + 30 ≤ fuel) :
    pSingle d fuel [] (toksS d s) = .ok (s, []) := by
  have := C03.tselect d s hs [] rfl fuel hfuel
  simpa using this
end C01

/-! ### non-vacuity (compiled evaluation) -/
namespace C03
def lexed (s : String) : List Tok := match Lex.lex Gen.cfgS s.toList with | .ok ts => ts | .error _ => []
def col (c : String) : Expr := .column none c
def lit (v : String) : Expr := .literal v
def tb (n : String) (a : Option String := none) : FromTable := .mk (.table none n) a
/-- the token-level printer agrees with the lexer on the printer's text, and the tree is in the fragment -/
def agrees (d : Gen.D) (s : Select) : Bool :=
  match PR.prS d s with
  | .ok x => eqbL (lexed x) (toksS d s) && FragS d s
  | .error _ => false
def roundTrips (d : Gen.D) (s : Select) : Bool :=
  match pSingle d (20 * sizeL (toksS d s) + 30) [] (toksS d s) with
  | .ok (p, []) => Drv.showVal p.toVal == Drv.showVal s.toVal
  | _ => false

def s1 : Select := .mk (some []) true [(.compute (col "a") "PLUS" (lit "1"), some "x"), (col "b", none)]
  (some [tb "t" (some "u"), tb "v"])
  [] [.mk "LEFT_OUTER_JOIN" (tb "w" (some "ww")) (some (.on (.compare "EQ" (col "a") (col "c")))), .mk "CROSS_JOIN" (tb "z") none,
      .mk "JOIN" (tb "y") (some (.on (.or_ (col "p") (.not_ (col "q")))))]
  (some (.and_ (.compare "GT" (col "a") (lit "1")) (.kw .is true (col "b") (lit "NULL"))))
  (some (.mk [col "a", .compute (col "b") "MULTIPLE" (lit "2")] none false false))
  (some (.compare "LT" (col "a") (lit "9")))
  (some [.mk (col "a") true false false, .mk (.compute (col "b") "PLUS" (lit "1")) false false false])
  none none none (some (10, some 5))
def s2 : Select := .mk (some []) false [(lit "1", none)] none [] [] none none none none none none none none                -- SELECT 1
def s3 : Select := .mk (some []) false [(col "a", some "k"), (lit "'x'", some "v")] (some [tb "t"]) [] [] (some (.kw .like true (col "a") (lit "'%z'")))
  none none (some [.mk (.and_ (col "a") (col "b")) true false false]) none none none (some (3, none))
def s4 : Select := .mk (some []) false [(.unary "SUBTRACT" (col "a"), none)] (some [tb "t"]) []
  [.mk "INNER_JOIN" (tb "u") (some (.on (lit "TRUE"))), .mk "RIGHT_SEMI_JOIN" (tb "v" (some "vv")) none, .mk "FULL_OUTER_JOIN" (tb "w") none]
  none (some (.mk [.or_ (col "a") (col "b")] none false false)) (some (.between true (col "a") (lit "1") (lit "2"))) none none none none none

def s5 : Select := .mk (some []) true [(col "a", some "k"), (lit "'x'", none)] (some [tb "t" (some "u")]) []
  [.mk "LEFT_JOIN" (tb "v") (some (.on (.compare "EQ" (col "a") (col "b"))))] (some (.kw .like true (col "a") (lit "'%z'")))
  none none (some [.mk (.compute (col "a") "PLUS" (col "b")) true false false, .mk (col "c") false false false]) none none none none
#guard [s1, s2, s3, s4].all (agrees .MYSQL) && [s1, s2, s3, s4].all (agrees .HIVE) && [s1, s2, s3, s4].all (agrees .ORACLE) &&
  [s1, s2, s3, s4].all (agrees .DEFAULT)
#guard [s1, s2, s3, s4, s5].all (roundTrips .MYSQL) && [s1, s2, s3, s4, s5].all (roundTrips .HIVE) && agrees .MYSQL s5 && agrees .DB2 s5
-- what may follow: a separator, a set operator, the end; not a clause word, an alias, a comma
#guard stopsS .MYSQL (lexed "; SELECT 2") && stopsS .MYSQL (lexed "UNION ALL SELECT 2") && stopsS .MYSQL [] &&
  !stopsS .MYSQL (lexed "WHERE a") && !stopsS .MYSQL (lexed "x") && !stopsS .MYSQL (lexed ", b") && !stopsS .MYSQL (lexed "OFFSET 3")
-- LIMIT arguments, aliases, tables
#guard limOK 0 && limOK 10 && limOK 123456789012345678901234567890 && !limOK (-1) && aliasOK "x" && !aliasOK "from" && !aliasOK "a b"
-- the slots are not swapped: LIMIT m, n stores count n and offset m
#guard (match pSingle .MYSQL 400 [] (lexed "SELECT `a` FROM `t` LIMIT 5, 10") with | .ok (p, []) => limitOf p == some (10, some 5) | _ => false)
/-- instances of the theorems (hypotheses decided, conclusions the theorems') -/
-- (the kernel does not evaluate `toString` on integers: the kernel-checked instances have no LIMIT; `s1`, `s3` above are evaluated)
example : pSingle .MYSQL (fuelFor (toksS .MYSQL s5 ++ lexed "; x")) [] (toksS .MYSQL s5 ++ lexed "; x") = .ok (s5, lexed "; x") :=
  tselect_entry_fuel .MYSQL s5 (by decide) _ (by decide)
example : pStatement .HIVE 2000 (toksS .HIVE s4 ++ lexed ";") = .ok (.select (.single s4), lexed ";") :=
  tselect_statement .HIVE s4 (by decide) _ (by decide) (by decide) 2000 (by decide)
end C03
