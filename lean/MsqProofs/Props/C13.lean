import MsqProofs.Lemmas.PrintLemmas
/-!
# C13 (printer half) — refusals propagate from any depth; the dialect matters only at the listed constructs

Theorems about the printer model `PR.prE / prS / prQ / prStmt` (`MsqModel/Print.lean`, tied to `node.py` by the C01/C13
correspondence), for ALL typed trees, by structural induction (no depth bound).

The printer tests its dialect argument at exactly these places (`grep 'd ==\|d !=' MsqModel/Print.lean`):

| construct family                         | where                         | dialects that print it (`….ok`)         |
|------------------------------------------|-------------------------------|------------------------------------------|
| `%` operator (member `MOD`)              | `computeOpSrc` (node.py:296)  | DEFAULT, MYSQL, SQL_SERVER, HIVE         |
| array index `a[i]`                       | `prE … .index` (node.py:709)  | HIVE                                     |
| SORT BY / DISTRIBUTE BY / CLUSTER BY     | `prS` guard 1                 | HIVE                                     |
| LATERAL VIEW                             | `prS` guard 2                 | HIVE, DEFAULT                            |
| INSERT OVERWRITE                         | `prInsertHead`                | HIVE, DEFAULT                            |
| ANALYZE TABLE                            | `prStmt … .analyze`           | HIVE, MYSQL (two different texts)        |
| CREATE TABLE                             | `prStmt … .createTable`       | MYSQL, HIVE (two different texts; others: parse error) |
| column text containing `CURRENT_DATE/TIME/TIMESTAMP` | `columnSrc`       | all; DB2 respells it with a blank        |
| `INSERT INTO` vs `INSERT INTO TABLE`     | `prInsertHead`                | all; HIVE adds `TABLE`                   |
| column definitions (CREATE / ALTER)      | `prDefCol`, `prColType`       | all; MYSQL-only attributes, HIVE drops type parameters |

* `refusal_propagates…` — a construct at ANY position and depth, printed for a dialect outside its set: an error, never text.
* `printed_ok_means_supported…` — contrapositive.
* `dialects_agree…` / `dialect_irrelevant_otherwise…` — two dialects print a tree identically unless it contains a
  construct of the table on which the two dialects differ; a tree with none of them prints identically everywhere;
  `same_class_same_text`: on query trees the printer distinguishes only five classes of dialects.
* `refusal_is_notSupported…` / `refusal_in_family` — on well-formed trees the refusal is exactly the not-supported error
  (statements: an error of the library's parse-error family).
* `printable_iff` / `printable_stmt` / `C01.print_total_on_default…` — exactly which trees each dialect prints.

Not covered (visible as hypotheses `stmtIll`, `stmtDep`, and in `PR.anyStmt`'s doc): the expressions inside column
definitions of CREATE / ALTER TABLE and the PARTITION of ANALYZE TABLE — dialects skip them on purpose (C18's subject).
-/
namespace C13
open Ast PR

/-! ## the construct families and their supported sets (the tests the printer itself makes) -/

/-- `computeOpSrc` (`Print.lean`, `node.py:296-302`) -/
def modOk (d : Gen.D) : Bool := d == .DEFAULT || d == .MYSQL || d == .SQL_SERVER || d == .HIVE
/-- `prE … (.index a i)` (`node.py:709-713`) -/
def indexOk (d : Gen.D) : Bool := d == .HIVE
/-- first guard of `prS` -/
def hiveClausesOk (d : Gen.D) : Bool := d == .HIVE
/-- second guard of `prS` -/
def lateralOk (d : Gen.D) : Bool := d == .HIVE || d == .DEFAULT
/-- guard of `prInsertHead` -/
def insertOverwriteOk (d : Gen.D) : Bool := d == .HIVE || d == .DEFAULT
/-- `prStmt … (.analyze …)` (`node.py:1715-1726`) -/
def analyzeOk (d : Gen.D) : Bool := d == .HIVE || d == .MYSQL
/-- `prStmt … (.createTable …)` (`node.py:1600-1606`): the other dialects get the library's parse error -/
def createTableOk (d : Gen.D) : Bool := d == .MYSQL || d == .HIVE

def isMod : Expr → Bool
  | .unary o _ => o == "MOD"
  | .compute _ o _ => o == "MOD"
  | _ => false
def isIndex : Expr → Bool
  | .index _ _ => true
  | _ => false
def hasHiveClauses : Select → Bool
  | .mk _ _ _ _ _ _ _ _ _ _ sb db cb _ => sb.isSome || db.isSome || cb.isSome
def hasLateral : Select → Bool
  | .mk _ _ _ _ lats _ _ _ _ _ _ _ _ _ => !lats.isEmpty
/-- a column reference whose text DB2's `CURRENT_DATE → CURRENT DATE` (… TIME, TIMESTAMP) replacement changes -/
def db2Respelled : Expr → Bool
  | .column t c => columnSrc .DB2 t c != columnSrc .DEFAULT t c
  | _ => false

/-- the four construct families that can sit at any depth of a query tree -/
inductive Construct | mod | index | hiveClauses | lateralView
  deriving DecidableEq, Repr

def Construct.all : List Construct := [.mod, .index, .hiveClauses, .lateralView]

def Construct.loc : Construct → Loc
  | .mod => { e := isMod }
  | .index => { e := isIndex }
  | .hiveClauses => { s := hasHiveClauses }
  | .lateralView => { s := hasLateral }

def Construct.ok : Construct → Gen.D → Bool
  | .mod => modOk | .index => indexOk | .hiveClauses => hiveClausesOk | .lateralView => lateralOk

/-- the construct occurs somewhere in the expression / SELECT / query / statement (any position, any depth) -/
def usesE (c : Construct) : Expr → Bool := anyE c.loc
def usesS (c : Construct) : Select → Bool := anyS c.loc
def usesQ (c : Construct) : Query → Bool := anyQ c.loc
def uses (c : Construct) : Stmt → Bool := anyStmt c.loc

abbrev usesMod := uses .mod
abbrev usesIndex := uses .index
abbrev usesHiveClauses := uses .hiveClauses
abbrev usesLateralView := uses .lateralView

/-- statement-level families -/
def usesInsertOverwrite : Stmt → Bool
  | .insertValues h _ => h.type == "INSERT_OVERWRITE"
  | .insertSelect h _ => h.type == "INSERT_OVERWRITE"
  | _ => false
def usesAnalyze : Stmt → Bool
  | .analyze _ _ _ _ _ => true
  | _ => false
def usesCreateTable : Stmt → Bool
  | .createTable _ => true
  | _ => false

/-- some construct of the table occurs in the statement and `d` is outside its set -/
def unsupported (d : Gen.D) (st : Stmt) : Bool :=
  (Construct.all.any fun c => !c.ok d && uses c st)
    || (!insertOverwriteOk d && usesInsertOverwrite st) || (!analyzeOk d && usesAnalyze st) || (!createTableOk d && usesCreateTable st)

/-! ## 1. refusals propagate -/

theorem Construct.refused (c : Construct) (d : Gen.D) (h : c.ok d = false) : c.loc.Refused d := by
  cases c
  · refine ⟨?_, by simp [Construct.loc], by simp [Construct.loc], by simp [Construct.loc], by simp [Construct.loc]⟩
    intro x hx s hs
    have hd : (d == .DEFAULT || d == .MYSQL || d == .SQL_SERVER || d == .HIVE) = false := h
    cases x <;> simp only [Construct.loc, isMod, Bool.false_eq_true, beq_iff_eq] at hx
    all_goals (subst hx; simp [prE, computeOpSrc, hd, bind_eq_ok] at hs)
  · refine ⟨?_, by simp [Construct.loc], by simp [Construct.loc], by simp [Construct.loc], by simp [Construct.loc]⟩
    intro x hx s hs
    have hd : ¬ d = .HIVE := by simpa [Construct.ok, indexOk] using h
    cases x <;> simp only [Construct.loc, isIndex, Bool.false_eq_true] at hx
    simp [prE, hd] at hs
  · refine ⟨by simp [Construct.loc], ?_, by simp [Construct.loc], by simp [Construct.loc], by simp [Construct.loc]⟩
    intro x hx s hs
    have hd : ¬ d = .HIVE := by simpa [Construct.ok, hiveClausesOk] using h
    obtain ⟨ws, dist, cols, fr, lats, js, wh, gb, hv, ob, sb, db, cb, lm⟩ := x
    rw [prS_eq] at hs
    obtain ⟨w, -, hs⟩ := (bind_eq_ok _ _ _).1 hs
    obtain ⟨_, hg, -⟩ := (bind_eq_ok _ _ _).1 hs
    have hx' : (sb.isSome || db.isSome || cb.isSome) = true := hx
    simp [prSGuard, hd, hx'] at hg
  · refine ⟨by simp [Construct.loc], ?_, by simp [Construct.loc], by simp [Construct.loc], by simp [Construct.loc]⟩
    intro x hx s hs
    have hd : (d == .HIVE || d == .DEFAULT) = false := h
    obtain ⟨ws, dist, cols, fr, lats, js, wh, gb, hv, ob, sb, db, cb, lm⟩ := x
    rw [prS_eq] at hs
    obtain ⟨w, -, hs⟩ := (bind_eq_ok _ _ _).1 hs
    obtain ⟨_, hg, -⟩ := (bind_eq_ok _ _ _).1 hs
    have hx' : (!lats.isEmpty) = true := hx
    unfold prSGuard at hg
    rw [hd, hx'] at hg
    split at hg <;> simp at hg

/-- **C13.refusal_propagates**, expressions: a construct of family `c` anywhere inside `e` (function argument, CASE arm,
sub-query, window clause, printer-inserted parenthesis … any depth) and a dialect outside `c`'s set: printing fails. -/
theorem refusal_propagates_expr (c : Construct) (d : Gen.D) (e : Expr) (hu : usesE c e = true) (hd : c.ok d = false) :
    ∃ err, prE d e = .error err :=
  (not_ok_iff_error _).1 (bad_E (c.refused d hd) e hu)

theorem refusal_propagates_select (c : Construct) (d : Gen.D) (x : Select) (hu : usesS c x = true) (hd : c.ok d = false) :
    ∃ err, prS d x = .error err :=
  (not_ok_iff_error _).1 (bad_S (c.refused d hd) x hu)

theorem refusal_propagates_query (c : Construct) (d : Gen.D) (q : Query) (hu : usesQ c q = true) (hd : c.ok d = false) :
    ∃ err, prQ d q = .error err :=
  (not_ok_iff_error _).1 (bad_Q (c.refused d hd) q hu)

/-- statements: SELECT, INSERT (rows, PARTITION, WITH, source query), UPDATE (WITH, SET values, WHERE, ORDER BY), DELETE,
CREATE TABLE AS, ALTER … PARTITION, SHOW COLUMNS — every child every dialect prints (see `PR.anyStmt`) -/
theorem refusal_propagates_family (c : Construct) (d : Gen.D) (st : Stmt) (hu : uses c st = true) (hd : c.ok d = false) :
    ∃ err, prStmt d st = .error err :=
  (not_ok_iff_error _).1 (bad_Stmt (c.refused d hd) st hu)

theorem insertOverwrite_refused (d : Gen.D) (st : Stmt) (hu : usesInsertOverwrite st = true) (hd : insertOverwriteOk d = false) :
    ∀ s, prStmt d st ≠ .ok s := by
  have hd' : (d == .HIVE || d == .DEFAULT) = false := hd
  have key : ∀ h : InsertHead, h.type = "INSERT_OVERWRITE" → ∀ s, prInsertHead d h ≠ .ok s := by
    intro h ht s hs
    rw [prInsertHead_eq] at hs
    obtain ⟨_, hg, -⟩ := (bind_eq_ok _ _ _).1 hs
    simp [headGuard, ht, hd'] at hg
  intro s hs
  cases st <;> simp only [usesInsertOverwrite, Bool.false_eq_true, beq_iff_eq] at hu
  · simp only [prStmt, bind_eq_ok] at hs
    obtain ⟨_, -, x, hx, -⟩ := hs
    exact key _ hu x hx
  · simp only [prStmt, bind_eq_ok] at hs
    obtain ⟨x, hx, -⟩ := hs
    exact key _ hu x hx

theorem analyze_refused (d : Gen.D) (st : Stmt) (hu : usesAnalyze st = true) (hd : analyzeOk d = false) :
    prStmt d st = .error .notSupported := by
  cases st <;> simp only [usesAnalyze, Bool.false_eq_true] at hu
  cases d <;> first | (simp [analyzeOk] at hd; done) | rfl

theorem createTable_refused (d : Gen.D) (st : Stmt) (hu : usesCreateTable st = true) (hd : createTableOk d = false) :
    prStmt d st = .error .parse := by
  cases st <;> simp only [usesCreateTable, Bool.false_eq_true] at hu
  cases d <;> first | (simp [createTableOk] at hd; done) | rfl

/-- **C13.refusal_propagates**: if any construct of the table occurs anywhere in the statement and the dialect is outside
the construct's supported set, printing returns an error — never text. -/
theorem refusal_propagates (d : Gen.D) (st : Stmt) (h : unsupported d st = true) : ∃ err, prStmt d st = .error err := by
  simp only [unsupported, Bool.or_eq_true, Bool.and_eq_true, Bool.not_eq_true', List.any_eq_true, or_assoc] at h
  rcases h with ⟨c, -, hd, hu⟩ | ⟨hd, hu⟩ | ⟨hd, hu⟩ | ⟨hd, hu⟩
  · exact refusal_propagates_family c d st hu hd
  · exact (not_ok_iff_error _).1 (insertOverwrite_refused d st hu hd)
  · exact ⟨_, analyze_refused d st hu hd⟩
  · exact ⟨_, createTable_refused d st hu hd⟩

/-! ## 3. contrapositive: printed text means every construct in the tree is supported by the dialect -/

/-- **C13.printed_ok_means_supported** -/
theorem printed_ok_means_supported (d : Gen.D) (st : Stmt) (s : String) (h : prStmt d st = .ok s) : unsupported d st = false := by
  cases hu : unsupported d st with
  | false => rfl
  | true => obtain ⟨e, he⟩ := refusal_propagates d st hu; rw [he] at h; cases h

theorem printed_ok_means_supported_family (c : Construct) (d : Gen.D) (st : Stmt) (s : String) (h : prStmt d st = .ok s)
    (hu : uses c st = true) : c.ok d = true := by
  cases hd : c.ok d with
  | true => rfl
  | false => obtain ⟨e, he⟩ := refusal_propagates_family c d st hu hd; rw [he] at h; cases h

theorem printed_ok_means_supported_expr (c : Construct) (d : Gen.D) (e : Expr) (s : String) (h : prE d e = .ok s)
    (hu : usesE c e = true) : c.ok d = true := by
  cases hd : c.ok d with
  | true => rfl
  | false => obtain ⟨x, hx⟩ := refusal_propagates_expr c d e hu hd; rw [hx] at h; cases h

theorem printed_ok_means_supported_query (c : Construct) (d : Gen.D) (q : Query) (s : String) (h : prQ d q = .ok s)
    (hu : usesQ c q = true) : c.ok d = true := by
  cases hd : c.ok d with
  | true => rfl
  | false => obtain ⟨x, hx⟩ := refusal_propagates_query c d q hu hd; rw [hx] at h; cases h

/-! ## 2. the dialect matters only at the listed constructs -/

theorem columnSrc_cases (d : Gen.D) (t : Option String) (c : String) :
    columnSrc d t c = if d == .DB2 then columnSrc .DB2 t c else columnSrc .DEFAULT t c := by
  cases d <;> rfl

theorem computeOpSrc_congr (d d' : Gen.D) (o : String) (h : (o == "MOD") = false ∨ modOk d = modOk d') :
    computeOpSrc d o = computeOpSrc d' o := by
  unfold computeOpSrc
  rcases h with h | h
  · simp only [h, Bool.false_and, Bool.false_eq_true, if_false]
  · have h' : (d == .DEFAULT || d == .MYSQL || d == .SQL_SERVER || d == .HIVE) = (d' == .DEFAULT || d' == .MYSQL || d' == .SQL_SERVER || d' == .HIVE) := h
    simp only [h']

/-- the nodes at which the printers for `d` and `d'` can take different branches: a construct of the table whose
test the two dialects answer differently -/
def depLoc (d d' : Gen.D) : Loc where
  e := fun x => (isMod x && (modOk d != modOk d')) || (isIndex x && (indexOk d != indexOk d'))
    || (db2Respelled x && ((d == .DB2) != (d' == .DB2)))
  s := fun x => (hasHiveClauses x && (hiveClausesOk d != hiveClausesOk d')) || (hasLateral x && (lateralOk d != lateralOk d'))

/-- every dialect-dependent construct of a query tree, whatever the two dialects -/
def depAll : Loc where
  e := fun x => isMod x || isIndex x || db2Respelled x
  s := fun x => hasHiveClauses x || hasLateral x

theorem depLoc_covers (d d' : Gen.D) : (depLoc d d').Covers d d' where
  col := by
    intro t c h
    simp only [depLoc, isMod, isIndex, db2Respelled, Bool.false_and, Bool.false_or, Bool.and_eq_false_iff, bne_eq_false_iff_eq] at h
    rw [columnSrc_cases d, columnSrc_cases d']
    rcases h with h | h
    · simp only [h, ite_self]
    · simp only [h]
  un := by
    intro o e h
    simp only [depLoc, isMod, isIndex, db2Respelled, Bool.false_and, Bool.or_false, Bool.and_eq_false_iff, bne_eq_false_iff_eq] at h
    exact computeOpSrc_congr d d' o h
  bin := by
    intro l o r h
    simp only [depLoc, isMod, isIndex, db2Respelled, Bool.false_and, Bool.or_false, Bool.and_eq_false_iff, bne_eq_false_iff_eq] at h
    exact computeOpSrc_congr d d' o h
  idx := by
    intro a i h
    simp only [depLoc, isMod, isIndex, db2Respelled, Bool.false_and, Bool.or_false, Bool.false_or, Bool.true_and, bne_eq_false_iff_eq, indexOk] at h
    simp only [bne, h]
  hive := by
    intro ws dist cols fr lats js wh gb hv ob sb db cb lm h
    simp only [depLoc, Bool.or_eq_false_iff, Bool.and_eq_false_iff, bne_eq_false_iff_eq, hasHiveClauses, hiveClausesOk] at h
    rcases h.1 with h | h
    · right; cases sb <;> cases db <;> cases cb <;> simp_all
    · left; exact h
  lat := by
    intro ws dist cols fr lats js wh gb hv ob sb db cb lm h
    simp only [depLoc, Bool.or_eq_false_iff, Bool.and_eq_false_iff, bne_eq_false_iff_eq, hasLateral, lateralOk] at h
    rcases h.2 with h | h
    · right; cases lats <;> simp_all
    · left; exact h

theorem depAll_covers (d d' : Gen.D) : depAll.Covers d d' where
  col := by
    intro t c h
    simp only [depAll, isMod, isIndex, db2Respelled, Bool.false_or, bne_eq_false_iff_eq] at h
    rw [columnSrc_cases d, columnSrc_cases d', h, ite_self, ite_self]
  un := by
    intro o e h
    simp only [depAll, isMod, isIndex, db2Respelled, Bool.or_false] at h
    exact computeOpSrc_congr d d' o (.inl h)
  bin := by
    intro l o r h
    simp only [depAll, isMod, isIndex, db2Respelled, Bool.or_false] at h
    exact computeOpSrc_congr d d' o (.inl h)
  idx := by
    intro a i h
    simp [depAll, isMod, isIndex, db2Respelled] at h
  hive := by
    intro ws dist cols fr lats js wh gb hv ob sb db cb lm h
    simp only [depAll, Bool.or_eq_false_iff, hasHiveClauses] at h
    right; cases sb <;> cases db <;> cases cb <;> simp_all
  lat := by
    intro ws dist cols fr lats js wh gb hv ob sb db cb lm h
    simp only [depAll, Bool.or_eq_false_iff, hasLateral] at h
    right; cases lats <;> simp_all

/-- **C13.dialects_agree**, expressions: `d` and `d'` print `e` identically (same text or same error) unless `e` contains,
at some depth, a `%` / array index / respelled column / Hive clause / LATERAL VIEW on whose test `d` and `d'` differ. -/
theorem dialects_agree_expr (d d' : Gen.D) (e : Expr) (h : anyE (depLoc d d') e = false) : prE d e = prE d' e :=
  eq_E (depLoc_covers d d') e h
theorem dialects_agree_select (d d' : Gen.D) (x : Select) (h : anyS (depLoc d d') x = false) : prS d x = prS d' x :=
  eq_S (depLoc_covers d d') x h
theorem dialects_agree_query (d d' : Gen.D) (q : Query) (h : anyQ (depLoc d d') q = false) : prQ d q = prQ d' q :=
  eq_Q (depLoc_covers d d') q h

/-- **C13.dialect_irrelevant_otherwise**, expressions / SELECTs / queries: a tree that contains none of `%`, array index,
respelled column, SORT/DISTRIBUTE/CLUSTER BY, LATERAL VIEW at any depth prints identically for ALL dialects. -/
theorem dialect_irrelevant_otherwise_expr (e : Expr) (h : anyE depAll e = false) (d d' : Gen.D) : prE d e = prE d' e :=
  eq_E (depAll_covers d d') e h
theorem dialect_irrelevant_otherwise_select (x : Select) (h : anyS depAll x = false) (d d' : Gen.D) : prS d x = prS d' x :=
  eq_S (depAll_covers d d') x h
theorem dialect_irrelevant_otherwise_query (q : Query) (h : anyQ depAll q = false) (d d' : Gen.D) : prQ d q = prQ d' q :=
  eq_Q (depAll_covers d d') q h

/-- two dialects that answer all of the printer's query-level tests alike -/
def sameClass (d d' : Gen.D) : Bool :=
  modOk d == modOk d' && indexOk d == indexOk d' && hiveClausesOk d == hiveClausesOk d' && lateralOk d == lateralOk d'
    && (d == .DB2) == (d' == .DB2)

theorem depLoc_empty (d d' : Gen.D) (h : sameClass d d' = true) : (depLoc d d').Empty := by
  simp only [sameClass, Bool.and_eq_true, beq_iff_eq] at h
  obtain ⟨⟨⟨⟨h1, h2⟩, h3⟩, h4⟩, h5⟩ := h
  refine ⟨fun x => ?_, fun x => ?_, fun _ => rfl, fun _ => rfl, fun _ => rfl⟩
  · simp [depLoc, h1, h2, h5]
  · simp [depLoc, h3, h4]

/-- **C13.same_class_same_text**: the printer distinguishes only five classes of dialects on query trees —
{MYSQL, SQL_SERVER}, {ORACLE, POSTGRE_SQL}, {DB2}, {HIVE}, {DEFAULT}: within a class EVERY query tree is printed
identically (same text or same error). -/
theorem same_class_same_text (d d' : Gen.D) (h : sameClass d d' = true) (q : Query) : prQ d q = prQ d' q :=
  dialects_agree_query d d' q (none_Q (depLoc_empty d d' h) q)

theorem mysql_sqlserver_agree (q : Query) : prQ .MYSQL q = prQ .SQL_SERVER q := same_class_same_text _ _ (by decide) q
theorem oracle_postgres_agree (q : Query) : prQ .ORACLE q = prQ .POSTGRE_SQL q := same_class_same_text _ _ (by decide) q
/-- the five classes are exactly the classes of `sameClass` -/
theorem sameClass_classes : (Gen.allD.map fun d => Gen.allD.filter (sameClass d)) =
    [[.MYSQL, .SQL_SERVER], [.HIVE], [.ORACLE, .POSTGRE_SQL], [.DB2], [.ORACLE, .POSTGRE_SQL], [.MYSQL, .SQL_SERVER], [.DEFAULT]] := by
  decide

/-! ### statements -/

/-- the explicit column list of an INSERT contains a name DB2 respells -/
def headColsRespelled (h : InsertHead) : Bool :=
  match h.columns with
  | some cs => cs.any fun tc => columnSrc .DB2 tc.1 tc.2 != columnSrc .DEFAULT tc.1 tc.2
  | none => false

/-- statement-level dialect tests of an INSERT head on which `d` and `d'` differ: Hive's `INSERT INTO TABLE`,
INSERT OVERWRITE, respelled column names -/
def headDep (d d' : Gen.D) (h : InsertHead) : Bool :=
  ((d == .HIVE) != (d' == .HIVE)) || (h.type == "INSERT_OVERWRITE" && (insertOverwriteOk d != insertOverwriteOk d'))
    || (headColsRespelled h && ((d == .DB2) != (d' == .DB2)))

def hasColumnDef : AlterOp → Bool
  | .add (.col _) => true
  | .modify (.col _) => true
  | .change _ (.col _) => true
  | _ => false

/-- statement-level constructs on which `d` and `d'` differ.  CREATE TABLE and ANALYZE TABLE have a MySQL text, a Hive
text and a refusal; an ALTER TABLE carrying a column definition is counted as dependent whenever `d ≠ d'` (column
definitions print MySQL-only attributes and Hive drops type parameters — that conversion is C18's subject). -/
def stmtDep (d d' : Gen.D) : Stmt → Bool
  | .insertValues h _ => headDep d d' h
  | .insertSelect h _ => headDep d d' h
  | .createTable _ => ((d == .MYSQL) != (d' == .MYSQL)) || ((d == .HIVE) != (d' == .HIVE))
  | .analyze _ _ _ _ _ => ((d == .MYSQL) != (d' == .MYSQL)) || ((d == .HIVE) != (d' == .HIVE))
  | .alter _ ops => ops.any hasColumnDef && d != d'
  | _ => false

theorem headGuard_congr (d d' : Gen.D) (ty : String)
    (h : (ty == "INSERT_OVERWRITE") = false ∨ insertOverwriteOk d = insertOverwriteOk d') : headGuard d ty = headGuard d' ty := by
  unfold headGuard
  rcases h with h | h
  · simp only [h, Bool.false_and, Bool.false_eq_true, if_false]
  · have h' : (d == .HIVE || d == .DEFAULT) = (d' == .HIVE || d' == .DEFAULT) := h
    simp only [h']

theorem eq_Ps {d d' : Gen.D} {L : Loc} (hC : L.Covers d d') : ∀ es, anyEs L es = false → prPartList d es = prPartList d' es
  | [] => by intro _; simp [prPartList]
  | e :: r => by
    intro hb
    simp only [anyEs, Bool.or_eq_false_iff] at hb
    have i2 := eq_Ps hC r hb.2
    have i1 : prPartItem d e = prPartItem d' e := by
      cases e with
      | compare o l r =>
        have h := hb.1
        simp only [anyE, Bool.or_eq_false_iff] at h
        simp only [prPartItem, eq_E hC l h.1.2, eq_E hC r h.2]
      | _ => simp only [prPartItem, eq_E hC _ hb.1]
    simp only [prPartList, i1, i2]

theorem eq_OptPartition {d d' : Gen.D} {L : Loc} (hC : L.Covers d d') : ∀ p, anyOEs L p = false → prOptPartition d p = prOptPartition d' p
  | none => fun _ => rfl
  | some p => fun hb => by simp only [prOptPartition, prPartition, eq_Ps hC p (by simpa only [anyOEs] using hb)]

theorem eq_Head {d d' : Gen.D} {L : Loc} (hC : L.Covers d d') (h : InsertHead) (hd : headDep d d' h = false) (hb : anyHead L h = false) :
    prInsertHead d h = prInsertHead d' h := by
  simp only [headDep, Bool.or_eq_false_iff, Bool.and_eq_false_iff, bne_eq_false_iff_eq] at hd
  obtain ⟨⟨hh, hio⟩, hc⟩ := hd
  simp only [anyHead, Bool.or_eq_false_iff] at hb
  have hmap : ∀ cs, h.columns = some cs →
      (cs.map fun (tc : Option String × String) => columnSrc d tc.1 tc.2) = cs.map fun tc => columnSrc d' tc.1 tc.2 := by
    intro cs hcs
    apply List.map_congr_left
    intro tc htc
    rw [columnSrc_cases d, columnSrc_cases d']
    rcases hc with hc | hc
    · simp only [headColsRespelled, hcs, List.any_eq_false, bne_iff_ne, ne_eq, Decidable.not_not] at hc
      simp only [hc tc htc, ite_self]
    · simp only [hc]
  rw [prInsertHead_eq, prInsertHead_eq, headGuard_congr d d' h.type hio]
  simp only [prHeadRest, eq_OptPartition hC _ hb.1, eq_W hC "\n" _ hb.2, hh]
  cases hcs : h.columns with
  | none => rfl
  | some cs => simp only [hmap cs hcs]

theorem eq_Tail {d d' : Gen.D} {L : Loc} (hC : L.Covers d d') (wh : Option Expr) (ob : Option (List OrderItem)) (lm : Option (Int × Option Int))
    (hb : (anyOE L wh || anyOOs L ob) = false) : prTail d wh ob lm = prTail d' wh ob lm := by
  simp only [Bool.or_eq_false_iff] at hb
  have e1 : prOptWhereS d wh = prOptWhereS d' wh := by
    cases wh with
    | none => rfl
    | some e => simp only [prOptWhereS, eq_E hC e (by simpa only [anyOE] using hb.1)]
  have e2 : prOptOrderS d ob = prOptOrderS d' ob := by
    cases ob with
    | none => rfl
    | some l => simp only [prOptOrderS, eq_Os hC l (by simpa only [anyOOs] using hb.2)]
  rw [prTail_eq, prTail_eq, e1, e2]

theorem eq_AlterOp {d d' : Gen.D} {L : Loc} (hC : L.Covers d d') : ∀ o, hasColumnDef o = false → anyAlterOp L o = false →
    prAlterOp d o = prAlterOp d' o
  | .addPartition _ p, _, hb => by simp only [prAlterOp, prPartition, eq_Ps hC p hb]
  | .dropPartition _ p, _, hb => by simp only [prAlterOp, prPartition, eq_Ps hC p hb]
  | .renameColumn _ _, _, _ => rfl
  | .dropColumn _, _, _ => rfl
  | .add (.col _), hc, _ => by simp [hasColumnDef] at hc
  | .add (.idx _), _, _ => rfl
  | .add (.fk _), _, _ => rfl
  | .modify (.col _), hc, _ => by simp [hasColumnDef] at hc
  | .modify (.idx _), _, _ => rfl
  | .modify (.fk _), _, _ => rfl
  | .change _ (.col _), hc, _ => by simp [hasColumnDef] at hc
  | .change _ (.idx _), _, _ => rfl
  | .change _ (.fk _), _, _ => rfl

theorem eq_Stmt {d d' : Gen.D} {L : Loc} (hC : L.Covers d d') : ∀ st, stmtDep d d' st = false → anyStmt L st = false →
    prStmt d st = prStmt d' st
  | .select q, _, hb => eq_Q hC q hb
  | .insertValues h vs, hs, hb => by
    simp only [anyStmt, Bool.or_eq_false_iff, List.any_eq_false, Bool.not_eq_true] at hb
    have e1 : mapM' (fun r => (prList8 d r).map fun p => s!"({joinS ", " p})") vs
        = mapM' (fun r => (prList8 d' r).map fun p => s!"({joinS ", " p})") vs :=
      mapM'_congr _ _ vs (fun r hr => by simp only [eq_Es8 hC r (hb.1 r hr)])
    simp only [prStmt, e1, eq_Head hC h hs hb.2]
  | .insertSelect h q, hs, hb => by
    simp only [anyStmt, Bool.or_eq_false_iff] at hb
    simp only [prStmt, eq_Head hC h hs hb.1, eq_Q hC q hb.2]
  | .update ws t sets wh ob lm, _, hb => by
    simp only [anyStmt, Bool.or_eq_false_iff, List.any_eq_false, Bool.not_eq_true, and_assoc] at hb
    obtain ⟨h1, h2, h3, h4⟩ := hb
    have e1 : mapM' (fun (cv : String × Expr) => (prE d cv.2).map fun x => s!"`{cv.1}` = {x}") sets
        = mapM' (fun (cv : String × Expr) => (prE d' cv.2).map fun x => s!"`{cv.1}` = {x}") sets :=
      mapM'_congr _ _ sets (fun cv hcv => by simp only [eq_E hC cv.2 (h2 cv hcv)])
    simp only [prStmt, e1, eq_W hC "\n\n" ws h1, eq_Tail hC wh ob lm (by simp only [h3, h4, Bool.or_false])]
  | .delete t wh ob lm, _, hb => by
    simp only [prStmt, eq_Tail hC wh ob lm hb]
  | .createTable c, hs, _ => by
    simp only [stmtDep, Bool.or_eq_false_iff, bne_eq_false_iff_eq] at hs
    simp only [prStmt, beq_iff_eq] at hs ⊢
    cases d <;> cases d' <;> simp_all
  | .createTableAs t ine q, _, hb => by simp only [prStmt, eq_Q hC q hb]
  | .dropTable _ _, _, _ => rfl
  | .set _, _, _ => rfl
  | .analyze t p fc cm ns, hs, _ => by
    simp only [stmtDep, Bool.or_eq_false_iff, bne_eq_false_iff_eq] at hs
    cases d <;> cases d' <;> first | rfl | (simp at hs)
  | .alter t ops, hs, hb => by
    simp only [stmtDep, Bool.and_eq_false_iff, List.any_eq_false, Bool.not_eq_true, bne_eq_false_iff_eq] at hs
    rcases hs with hs | rfl
    · simp only [anyStmt, List.any_eq_false, Bool.not_eq_true] at hb
      simp only [prStmt, mapM'_congr (prAlterOp d) (prAlterOp d') ops (fun o ho => eq_AlterOp hC o (hs o ho) (hb o ho))]
    · rfl
  | .msck _, _, _ => rfl
  | .use _, _, _ => rfl
  | .truncate _, _, _ => rfl
  | .showDatabases, _, _ => rfl
  | .showTables, _, _ => rfl
  | .showColumns fr none, _, hb => by
    simp only [anyStmt, Bool.or_eq_false_iff] at hb
    simp only [prStmt, eq_Fs hC fr hb.2]
  | .showColumns fr (some e), _, hb => by
    simp only [anyStmt, Bool.or_eq_false_iff, anyOE] at hb
    simp only [prStmt, eq_E hC e hb.1, eq_Fs hC fr hb.2]

/-- **C13.dialects_agree**: two dialects print a statement identically (same text or same error) unless it contains a
construct of the table on whose test they differ. -/
theorem dialects_agree (d d' : Gen.D) (st : Stmt) (hs : stmtDep d d' st = false) (hq : anyStmt (depLoc d d') st = false) :
    prStmt d st = prStmt d' st :=
  eq_Stmt (depLoc_covers d d') st hs hq

/-- statements whose text depends on the dialect at statement level for SOME pair of dialects: every INSERT (Hive writes
`INSERT INTO TABLE`), CREATE TABLE, ANALYZE TABLE, ALTER TABLE with a column definition -/
def stmtDepAny : Stmt → Bool
  | .insertValues _ _ => true
  | .insertSelect _ _ => true
  | .createTable _ => true
  | .analyze _ _ _ _ _ => true
  | .alter _ ops => ops.any hasColumnDef
  | _ => false

/-- **C13.dialect_irrelevant_otherwise**: a statement that is none of INSERT / CREATE TABLE / ANALYZE TABLE / ALTER with a
column definition, and whose query trees contain none of `%`, array index, respelled column, SORT/DISTRIBUTE/CLUSTER BY,
LATERAL VIEW at any depth, is printed identically (same text or same error) by ALL dialects. -/
theorem dialect_irrelevant_otherwise (st : Stmt) (hs : stmtDepAny st = false) (hq : anyStmt depAll st = false) (d d' : Gen.D) :
    prStmt d st = prStmt d' st := by
  refine eq_Stmt (depAll_covers d d') st ?_ hq
  cases st <;> simp_all [stmtDepAny, stmtDep]

/-- INSERT between two non-Hive dialects (the `TABLE` keyword is the only unconditional difference) -/
theorem insert_agree_outside_hive (d d' : Gen.D) (h : InsertHead) (q : Query) (hd : d ≠ .HIVE) (hd' : d' ≠ .HIVE)
    (ht : h.type ≠ "INSERT_OVERWRITE") (hc : headColsRespelled h = false)
    (hq : anyStmt depAll (.insertSelect h q) = false) : prStmt d (.insertSelect h q) = prStmt d' (.insertSelect h q) := by
  refine eq_Stmt (depAll_covers d d') _ ?_ hq
  have h1 : (d == .HIVE) = false := by simpa using hd
  have h2 : (d' == .HIVE) = false := by simpa using hd'
  have h3 : (h.type == "INSERT_OVERWRITE") = false := by simpa using ht
  simp [stmtDep, headDep, h1, h2, h3, hc]

/-! ## 4. which error, and exactly when text — query trees

The printer can also fail for reasons that have nothing to do with the dialect: a node built by hand (not by the parser)
may carry an enum member name outside the generated tables (`UNMODELLED`), `None` where `ASTSelectStatement.with_clause`
is dereferenced (`AttributeError`).  `illFormed` flags exactly those nodes.  (An empty grouping set was a third reason
until the repair 1fd5412 of `ASTGroupingSets.source`; it now prints `()` and is well-formed.) -/

def unknownName {β : Type} (tbl : List (String × β)) (n : String) : Bool := (tbl.find? (·.1 == n)).isNone

def illFormed : Loc where
  e := fun
    | .unary o _ => unknownName Gen.computeEnum o
    | .compute _ o _ => unknownName Gen.computeEnum o
    | .compare o _ _ => unknownName Gen.compareEnum o
    | .cast _ _ ty _ => unknownName Gen.castTypes ty
    | _ => false
  s := fun | .mk ws _ _ _ _ _ _ _ _ _ _ _ _ _ => ws.isNone
  j := fun | .mk ty _ _ => unknownName Gen.joinTypes ty
  q := fun
    | .single _ => false
    | .union ws _ us => ws.isNone || us.any fun p => unknownName Gen.unionTypes p.1

/-- the nodes dialect `d` refuses -/
def refusedLoc (d : Gen.D) : Loc where
  e := fun x => (isMod x && !modOk d) || (isIndex x && !indexOk d)
  s := fun x => (hasHiveClauses x && !hiveClausesOk d) || (hasLateral x && !lateralOk d)

/-- every node at which printing for `d` fails locally -/
def notPrintable (d : Gen.D) : Loc where
  e := fun x => illFormed.e x || (refusedLoc d).e x
  s := fun x => illFormed.s x || (refusedLoc d).s x
  j := illFormed.j
  q := illFormed.q

theorem computeOpSrc_res (d : Gen.D) (o : String) (h : unknownName Gen.computeEnum o = false) :
    computeOpSrc d o = .error .notSupported ∨ ∃ s, computeOpSrc d o = .ok s := by
  unfold computeOpSrc
  split
  · exact .inl rfl
  · right
    simp only [unknownName, Option.isNone_eq_false_iff, Option.isSome_iff_exists] at h
    obtain ⟨x, hx⟩ := h
    exact ⟨x.2.1, by simp only [hx]⟩

theorem computeOpSrc_ok (d : Gen.D) (o : String) (h : unknownName Gen.computeEnum o = false)
    (hm : (o == "MOD") = false ∨ modOk d = true) : ∃ s, computeOpSrc d o = .ok s := by
  rcases computeOpSrc_res d o h with he | hok
  · exfalso
    unfold computeOpSrc at he
    have hm' : (o == "MOD" && !(d == .DEFAULT || d == .MYSQL || d == .SQL_SERVER || d == .HIVE)) = false := by
      rcases hm with hm | hm
      · simp only [hm, Bool.false_and]
      · have : (d == .DEFAULT || d == .MYSQL || d == .SQL_SERVER || d == .HIVE) = true := hm
        simp only [this, Bool.not_true, Bool.and_false]
    simp only [hm', Bool.false_eq_true, if_false] at he
    simp only [unknownName, Option.isNone_eq_false_iff, Option.isSome_iff_exists] at h
    obtain ⟨x, hx⟩ := h
    simp only [hx] at he
    cases he
  · exact hok

theorem wordsSrc_ok (tbl : List (String × List String)) (n : String) (h : unknownName tbl n = false) : ∃ s, wordsSrc tbl n = .ok s := by
  simp only [unknownName, Option.isNone_eq_false_iff, Option.isSome_iff_exists] at h
  obtain ⟨x, hx⟩ := h
  exact ⟨joinS " " x.2, by simp only [wordsSrc, hx]⟩
theorem valueSrc_ok (tbl : List (String × String)) (n : String) (h : unknownName tbl n = false) : ∃ s, valueSrc tbl n = .ok s := by
  simp only [unknownName, Option.isNone_eq_false_iff, Option.isSome_iff_exists] at h
  obtain ⟨x, hx⟩ := h
  exact ⟨x.2, by simp only [valueSrc, hx]⟩
theorem compareOpSrc_ok (n : String) (h : unknownName Gen.compareEnum n = false) : ∃ s, compareOpSrc n = .ok s := by
  simp only [unknownName, Option.isNone_eq_false_iff, Option.isSome_iff_exists] at h
  obtain ⟨x, hx⟩ := h
  exact ⟨joinS " " x.2, by simp only [compareOpSrc, hx]⟩

theorem okOr_of_ok {E : Err → Prop} {α : Type} {x : Except Err α} (h : ∃ s, x = .ok s) : OkOr E x := by
  obtain ⟨s, hs⟩ := h; rw [hs]; exact OkOr.ok _

theorem prSGuard_res (d : Gen.D) (lats : List Lateral) (sb : Option (List OrderItem)) (db cb : Option (List Expr)) :
    OkOr (· = .notSupported) (prSGuard d lats sb db cb) := by
  unfold prSGuard
  split
  · exact OkOr.error rfl
  · split
    · exact OkOr.error rfl
    · exact OkOr.ok _

theorem illFormed_qry {E : Err → Prop} (ws : Option (List WithTable)) (x : Select) (us : List (String × Select))
    (h : illFormed.q (.union ws x us) = false) : ws ≠ none ∧ ∀ p ∈ us, OkOr E (wordsSrc Gen.unionTypes p.1) := by
  simp only [illFormed, Bool.or_eq_false_iff, List.any_eq_false] at h
  refine ⟨by intro hn; rw [hn] at h; simp at h, fun p hp => okOr_of_ok ?_⟩
  have := h.2 p hp
  exact wordsSrc_ok Gen.unionTypes p.1 (by simpa using this)

/-- on a well-formed tree the only error the printer's local steps can produce is the not-supported error -/
theorem illFormed_clean (d : Gen.D) : illFormed.Clean d (· = .notSupported) where
  un := by
    intro o e h
    rcases computeOpSrc_res d o h with he | hok
    · rw [he]; exact OkOr.error rfl
    · exact okOr_of_ok hok
  bin := by
    intro l o r h
    rcases computeOpSrc_res d o h with he | hok
    · rw [he]; exact OkOr.error rfl
    · exact okOr_of_ok hok
  cmp := by
    intro o l r h
    exact okOr_of_ok (compareOpSrc_ok o h)
  cast := by
    intro e sg ty ps h
    exact okOr_of_ok (valueSrc_ok Gen.castTypes ty h)
  idx := fun _ _ _ => .inr rfl
  sel := by
    intro ws dist cols fr lats js wh gb hv ob sb db cb lm h
    refine ⟨by intro hn; rw [hn] at h; simp [illFormed] at h, prSGuard_res d lats sb db cb⟩
  join := by
    intro ty t rule h
    exact okOr_of_ok (wordsSrc_ok Gen.joinTypes ty h)
  qry := illFormed_qry

/-- **C13.refusal_is_notSupported**: on a well-formed query tree, a construct of family `c` at any depth printed for a
dialect outside `c`'s set yields exactly the library's not-supported error (the sharp form of `refusal_propagates`). -/
theorem refusal_is_notSupported_query (c : Construct) (d : Gen.D) (q : Query) (hw : anyQ illFormed q = false)
    (hu : usesQ c q = true) (hd : c.ok d = false) : prQ d q = .error .notSupported := by
  obtain ⟨e, he⟩ := refusal_propagates_query c d q hu hd
  rw [he, res_Q (illFormed_clean d) q hw e he]

theorem refusal_is_notSupported_expr (c : Construct) (d : Gen.D) (e : Expr) (hw : anyE illFormed e = false)
    (hu : usesE c e = true) (hd : c.ok d = false) : prE d e = .error .notSupported := by
  obtain ⟨x, hx⟩ := refusal_propagates_expr c d e hu hd
  rw [hx, res_E (illFormed_clean d) e hw x hx]

/-- a well-formed query tree is printed or refused with the not-supported error; nothing else can happen -/
theorem wellFormed_text_or_notSupported (d : Gen.D) (q : Query) (hw : anyQ illFormed q = false) :
    (∃ s, prQ d q = .ok s) ∨ prQ d q = .error .notSupported := by
  cases h : prQ d q with
  | ok s => exact .inl ⟨s, rfl⟩
  | error e => right; rw [res_Q (illFormed_clean d) q hw e h]

theorem notPrintable_clean (d : Gen.D) : (notPrintable d).Clean d (fun _ => False) where
  un := by
    intro o e h
    simp only [notPrintable, refusedLoc, illFormed, isMod, isIndex, Bool.false_and, Bool.or_false, Bool.or_eq_false_iff,
      Bool.and_eq_false_iff, Bool.not_eq_false'] at h
    exact okOr_of_ok (computeOpSrc_ok d o h.1 h.2)
  bin := by
    intro l o r h
    simp only [notPrintable, refusedLoc, illFormed, isMod, isIndex, Bool.false_and, Bool.or_false, Bool.or_eq_false_iff,
      Bool.and_eq_false_iff, Bool.not_eq_false'] at h
    exact okOr_of_ok (computeOpSrc_ok d o h.1 h.2)
  cmp := by
    intro o l r h
    simp only [notPrintable, refusedLoc, illFormed, isMod, isIndex, Bool.false_and, Bool.or_false] at h
    exact okOr_of_ok (compareOpSrc_ok o h)
  cast := by
    intro e sg ty ps h
    simp only [notPrintable, refusedLoc, illFormed, isMod, isIndex, Bool.false_and, Bool.or_false] at h
    exact okOr_of_ok (valueSrc_ok Gen.castTypes ty h)
  idx := by
    intro a i h
    simp only [notPrintable, refusedLoc, illFormed, isMod, isIndex, indexOk, Bool.false_and, Bool.false_or, Bool.true_and,
      Bool.not_eq_false', beq_iff_eq] at h
    exact .inl h
  sel := by
    intro ws dist cols fr lats js wh gb hv ob sb db cb lm h
    simp only [notPrintable, refusedLoc, illFormed, hasHiveClauses, hasLateral, hiveClausesOk, lateralOk, Bool.or_eq_false_iff,
      Bool.and_eq_false_iff, Bool.not_eq_false'] at h
    obtain ⟨hws, hh, hl⟩ := h
    refine ⟨by intro hn; rw [hn] at hws; simp at hws, ?_⟩
    have h1 : (d != .HIVE && (sb.isSome || db.isSome || cb.isSome)) = false := by
      rcases hh with ⟨⟨a, b⟩, c⟩ | hh
      · rw [a, b, c]; simp
      · simp [bne, hh]
    have h2 : (!(d == .HIVE || d == .DEFAULT) && !lats.isEmpty) = false := by
      rcases hl with hl | hl
      · rw [hl]; simp
      · rw [hl]; simp
    unfold prSGuard
    simp only [h1, h2, Bool.false_eq_true, if_false]
    exact OkOr.ok _
  join := by
    intro ty t rule h
    exact okOr_of_ok (wordsSrc_ok Gen.joinTypes ty h)
  qry := illFormed_qry

theorem unknown_find {β : Type} (tbl : List (String × β)) (n : String) (h : unknownName tbl n = true) :
    tbl.find? (·.1 == n) = none := by
  simpa only [unknownName, Option.isNone_iff_eq_none] using h

theorem computeOpSrc_unknown (d : Gen.D) (o : String) (h : unknownName Gen.computeEnum o = true) : ∀ s, computeOpSrc d o ≠ .ok s := by
  intro s hs
  unfold computeOpSrc at hs
  split at hs
  · cases hs
  · rw [unknown_find _ _ h] at hs; cases hs

theorem notPrintable_refused (d : Gen.D) : (notPrintable d).Refused d where
  e := by
    intro x hx s hs
    simp only [notPrintable, Bool.or_eq_true] at hx
    rcases hx with hx | hx
    · cases x <;> simp only [illFormed, Bool.false_eq_true] at hx
      · simp [prE, bind_eq_ok, map_eq_ok, fmap_eq_ok, valueSrc, unknown_find _ _ hx] at hs
      · simp only [prE, bind_eq_ok] at hs
        obtain ⟨a, ha, -⟩ := hs
        exact computeOpSrc_unknown d _ hx a ha
      · simp only [prE, bind_eq_ok] at hs
        obtain ⟨_, -, b, hb, -⟩ := hs
        exact computeOpSrc_unknown d _ hx b hb
      · simp [prE, bind_eq_ok, map_eq_ok, fmap_eq_ok, compareOpSrc, unknown_find _ _ hx] at hs
    · simp only [refusedLoc, Bool.or_eq_true, Bool.and_eq_true, Bool.not_eq_true'] at hx
      rcases hx with ⟨hx, hd⟩ | ⟨hx, hd⟩
      · exact (Construct.refused .mod d hd).e x hx s hs
      · exact (Construct.refused .index d hd).e x hx s hs
  s := by
    intro x hx s hs
    simp only [notPrintable, Bool.or_eq_true] at hx
    rcases hx with hx | hx
    · obtain ⟨ws, dist, cols, fr, lats, js, wh, gb, hv, ob, sb, db, cb, lm⟩ := x
      simp only [illFormed, Option.isNone_iff_eq_none] at hx
      subst hx
      rw [prS_eq] at hs
      obtain ⟨w, hw, -⟩ := (bind_eq_ok _ _ _).1 hs
      simp [prWithPrefix] at hw
    · simp only [refusedLoc, Bool.or_eq_true, Bool.and_eq_true, Bool.not_eq_true'] at hx
      rcases hx with ⟨hx, hd⟩ | ⟨hx, hd⟩
      · exact (Construct.refused .hiveClauses d hd).s x hx s hs
      · exact (Construct.refused .lateralView d hd).s x hx s hs
  j := by
    intro x hx s hs
    obtain ⟨ty, t, rule⟩ := x
    have hx' : unknownName Gen.joinTypes ty = true := hx
    rcases rule with _ | ⟨c | u⟩ <;> simp [prJoin, bind_eq_ok, fmap_eq_ok, wordsSrc, unknown_find _ _ hx'] at hs
  g := by
    intro x hx; simp [notPrintable] at hx
  q := by
    intro x hx s hs
    cases x with
    | single x => simp [notPrintable, illFormed] at hx
    | union ws x us =>
      simp only [notPrintable, illFormed, Bool.or_eq_true, Option.isNone_iff_eq_none, List.any_eq_true] at hx
      simp only [prQ, bind_eq_ok] at hs
      obtain ⟨w, hw, a, -, b, hb, -⟩ := hs
      rcases hx with rfl | ⟨p, hp, hu⟩
      · simp [prWithPrefix] at hw
      · have key : ∀ (us : List (String × Select)), p ∈ us → ∀ b, prUnions d us ≠ .ok b := by
          intro us
          induction us with
          | nil => simp
          | cons u r ih =>
            intro hp b hb
            obtain ⟨t, x⟩ := u
            simp only [prUnions, bind_eq_ok] at hb
            obtain ⟨_, hw, _, -, z, hz, -⟩ := hb
            rcases List.mem_cons.1 hp with rfl | hp
            · simp [wordsSrc, unknown_find _ _ hu] at hw
            · exact ih hp z hz
        exact key us hp b hb

/-- **C13.printable_iff**: the printer model produces text for a query tree under dialect `d` exactly when no node of the
tree (at any depth) is ill-formed or is a construct `d` refuses. -/
theorem printable_iff (d : Gen.D) (q : Query) : (∃ s, prQ d q = .ok s) ↔ anyQ (notPrintable d) q = false := by
  constructor
  · rintro ⟨s, hs⟩
    cases hb : anyQ (notPrintable d) q with
    | false => rfl
    | true => exact (bad_Q (notPrintable_refused d) q hb s hs).elim
  · intro hb
    exact OkOr.total (res_Q (notPrintable_clean d) q hb)

theorem printable_iff_expr (d : Gen.D) (e : Expr) : (∃ s, prE d e = .ok s) ↔ anyE (notPrintable d) e = false := by
  constructor
  · rintro ⟨s, hs⟩
    cases hb : anyE (notPrintable d) e with
    | false => rfl
    | true => exact (bad_E (notPrintable_refused d) e hb s hs).elim
  · intro hb
    exact OkOr.total (res_E (notPrintable_clean d) e hb)

/-! ### statements: the refusal is in the library's parse-error family; exactly which statements are printed -/

/-- statement-level ill-formedness (missing WITH object, INSERT type outside the table) — and the DDL whose column
definitions / partition this theorem does not analyse (CREATE TABLE for MySQL / Hive, ANALYZE … PARTITION for Hive,
ALTER TABLE with a column definition): flagged, i.e. excluded -/
def stmtIll (d : Gen.D) : Stmt → Bool
  | .insertValues h _ => h.withs.isNone || unknownName Gen.insertTypes h.type
  | .insertSelect h _ => h.withs.isNone || unknownName Gen.insertTypes h.type
  | .update ws _ _ _ _ _ => ws.isNone
  | .createTable _ => d == .MYSQL || d == .HIVE
  | .analyze _ p _ _ _ => d == .HIVE && p.isSome
  | .alter _ ops => ops.any hasColumnDef
  | _ => false

/-- the statement-level refusals of dialect `d` -/
def stmtRefused (d : Gen.D) (st : Stmt) : Bool :=
  (!insertOverwriteOk d && usesInsertOverwrite st) || (!analyzeOk d && usesAnalyze st) || (!createTableOk d && usesCreateTable st)

theorem headGuard_res (d : Gen.D) (ty : String) : OkOr (· = .notSupported) (headGuard d ty) := by
  unfold headGuard
  split
  · exact OkOr.error rfl
  · exact OkOr.ok _

theorem alter_noColumnDef (ops : List AlterOp) (h : ops.any hasColumnDef = false) :
    ∀ o ∈ ops, ∀ c, o ≠ .add (.col c) ∧ o ≠ .modify (.col c) ∧ ∀ f, o ≠ .change f (.col c) := by
  intro o ho c
  have := (List.any_eq_false.1 h) o ho
  refine ⟨?_, ?_, ?_⟩
  · rintro rfl; simp [hasColumnDef] at this
  · rintro rfl; simp [hasColumnDef] at this
  · rintro f rfl; simp [hasColumnDef] at this

theorem inFamily_notSupported : ∀ e : Err, e = .notSupported → e.inFamily = true := by
  rintro _ rfl; rfl

theorem stmtClean_family (d : Gen.D) (st : Stmt) (h : stmtIll d st = false) : StmtClean d (fun e => e.inFamily = true) st := by
  cases st <;> simp only [StmtClean]
  case insertValues hd vs =>
    simp only [stmtIll, Bool.or_eq_false_iff] at h
    exact ⟨by intro hn; rw [hn] at h; simp at h, (headGuard_res d _).mono inFamily_notSupported, okOr_of_ok (wordsSrc_ok _ _ h.2)⟩
  case insertSelect hd q =>
    simp only [stmtIll, Bool.or_eq_false_iff] at h
    exact ⟨by intro hn; rw [hn] at h; simp at h, (headGuard_res d _).mono inFamily_notSupported, okOr_of_ok (wordsSrc_ok _ _ h.2)⟩
  case update ws t sets wh ob lm =>
    intro hn; rw [hn] at h; simp [stmtIll] at h
  case createTable c =>
    cases d <;> first | (simp [stmtIll] at h; done) | exact OkOr.error (e := Err.parse) rfl
  case analyze t p fc cm ns =>
    cases d
    case HIVE =>
      cases p with
      | some p => simp [stmtIll] at h
      | none => exact OkOr.ok _
    case MYSQL => exact OkOr.ok _
    all_goals exact OkOr.error (e := Err.notSupported) rfl
  case alter t ops => exact alter_noColumnDef ops h

theorem stmtClean_total (d : Gen.D) (st : Stmt) (h : stmtIll d st = false) (hr : stmtRefused d st = false) :
    StmtClean d (fun _ => False) st := by
  simp only [stmtRefused, Bool.or_eq_false_iff, Bool.and_eq_false_iff, Bool.not_eq_false'] at hr
  obtain ⟨⟨hio, han⟩, hct⟩ := hr
  have hg : ∀ hd : InsertHead, (insertOverwriteOk d = true ∨ (hd.type == "INSERT_OVERWRITE") = false) → OkOr (fun _ => False) (headGuard d hd.type) := by
    intro hd hh
    have : (hd.type == "INSERT_OVERWRITE" && !(d == .HIVE || d == .DEFAULT)) = false := by
      rcases hh with hh | hh
      · have : (d == .HIVE || d == .DEFAULT) = true := hh
        rw [this]; simp
      · rw [hh]; simp
    unfold headGuard
    simp only [this, Bool.false_eq_true, if_false]
    exact OkOr.ok _
  cases st <;> simp only [StmtClean]
  case insertValues hd vs =>
    simp only [stmtIll, Bool.or_eq_false_iff] at h
    exact ⟨by intro hn; rw [hn] at h; simp at h, hg hd hio, okOr_of_ok (wordsSrc_ok _ _ h.2)⟩
  case insertSelect hd q =>
    simp only [stmtIll, Bool.or_eq_false_iff] at h
    exact ⟨by intro hn; rw [hn] at h; simp at h, hg hd hio, okOr_of_ok (wordsSrc_ok _ _ h.2)⟩
  case update ws t sets wh ob lm =>
    intro hn; rw [hn] at h; simp [stmtIll] at h
  case createTable c =>
    exfalso
    cases d <;> simp [stmtIll, createTableOk, usesCreateTable] at h hct
  case analyze t p fc cm ns =>
    cases d
    case HIVE =>
      cases p with
      | some p => simp [stmtIll] at h
      | none => exact OkOr.ok _
    case MYSQL => exact OkOr.ok _
    all_goals (exfalso; simp [analyzeOk, usesAnalyze] at han)
  case alter t ops => exact alter_noColumnDef ops h

/-- **C13.wellFormed_stmt_text_or_family**: a well-formed statement (outside the DDL exclusions of `stmtIll`) is either
printed or refused with an error of the library's parse-error family — for every dialect; no foreign exception, no
other outcome. -/
theorem wellFormed_stmt_text_or_family (d : Gen.D) (st : Stmt) (h1 : stmtIll d st = false) (h2 : anyStmt illFormed st = false) :
    (∃ s, prStmt d st = .ok s) ∨ ∃ e, prStmt d st = .error e ∧ e.inFamily = true := by
  have := res_Stmt ((illFormed_clean d).mono inFamily_notSupported) st (stmtClean_family d st h1) h2
  cases h : prStmt d st with
  | ok s => exact .inl ⟨s, rfl⟩
  | error e => exact .inr ⟨e, rfl, this e h⟩

/-- **C13.refusal_in_family** (DESIGN §8 C13 (c)): a well-formed statement containing, anywhere, a construct the dialect
lacks is refused with an error of the library's parse-error family. -/
theorem refusal_in_family (d : Gen.D) (st : Stmt) (h1 : stmtIll d st = false) (h2 : anyStmt illFormed st = false)
    (hu : unsupported d st = true) : ∃ e, prStmt d st = .error e ∧ e.inFamily = true := by
  rcases wellFormed_stmt_text_or_family d st h1 h2 with ⟨s, hs⟩ | h
  · obtain ⟨e, he⟩ := refusal_propagates d st hu; rw [he] at hs; cases hs
  · exact h

/-- **C13.printable_stmt**: a statement with no ill-formed node, no construct refused by `d` at any depth and no
statement-level refusal is printed. -/
theorem printable_stmt (d : Gen.D) (st : Stmt) (h1 : stmtIll d st = false) (h2 : anyStmt (notPrintable d) st = false)
    (h3 : stmtRefused d st = false) : ∃ s, prStmt d st = .ok s :=
  OkOr.total (res_Stmt (notPrintable_clean d) st (stmtClean_total d st h1 h3) h2)

end C13

namespace C01
open Ast PR C13

/-- what the DEFAULT printer flags, spelled out: ill-formed nodes, array index, SORT/DISTRIBUTE/CLUSTER BY — `%` and LATERAL
VIEW are printed -/
theorem default_flags_expr (x : Expr) : (notPrintable .DEFAULT).e x = (illFormed.e x || isIndex x) := by
  simp [notPrintable, refusedLoc, modOk, indexOk, (by decide : (Gen.D.DEFAULT == Gen.D.HIVE) = false)]
theorem default_flags_select (x : Select) : (notPrintable .DEFAULT).s x = (illFormed.s x || hasHiveClauses x) := by
  simp [notPrintable, refusedLoc, hiveClausesOk, lateralOk, (by decide : (Gen.D.DEFAULT == Gen.D.HIVE) = false)]

/-- **C01.print_total_on_default**: for the DEFAULT dialect the printer model produces text for EVERY query tree that has no
ill-formed node, no array index and no SORT/DISTRIBUTE/CLUSTER BY clause at any depth — and for no other tree. -/
theorem print_total_on_default (q : Query) : (∃ s, prQ .DEFAULT q = .ok s) ↔ anyQ (notPrintable .DEFAULT) q = false :=
  printable_iff .DEFAULT q

/-- **C01.print_total_on_default_stmt**: the DEFAULT printer yields text for every statement other than CREATE TABLE /
ANALYZE TABLE (which it always refuses) / ALTER with a column definition (not analysed here) whose trees have no
ill-formed node, no array index and no SORT/DISTRIBUTE/CLUSTER BY at any depth — INSERT OVERWRITE, `%` and LATERAL VIEW
included. -/
theorem print_total_on_default_stmt (st : Stmt) (h1 : stmtIll .DEFAULT st = false) (h2 : anyStmt (notPrintable .DEFAULT) st = false)
    (h3 : usesAnalyze st = false) (h4 : usesCreateTable st = false) : ∃ s, prStmt .DEFAULT st = .ok s :=
  printable_stmt .DEFAULT st h1 h2 (by simp [stmtRefused, h3, h4, insertOverwriteOk])

theorem notPrintable_hive : notPrintable .HIVE = illFormed := by
  have e1 : (notPrintable .HIVE).e = illFormed.e := by funext x; simp [notPrintable, refusedLoc, modOk, indexOk]
  have e2 : (notPrintable .HIVE).s = illFormed.s := by funext x; simp [notPrintable, refusedLoc, hiveClausesOk, lateralOk]
  show Loc.mk (notPrintable .HIVE).e (notPrintable .HIVE).s illFormed.j illFormed.g illFormed.q
    = Loc.mk illFormed.e illFormed.s illFormed.j illFormed.g illFormed.q
  rw [e1, e2]

/-- Hive refuses nothing: every well-formed query tree is printed -/
theorem print_total_on_hive (q : Query) (h : anyQ illFormed q = false) : ∃ s, prQ .HIVE q = .ok s :=
  (printable_iff .HIVE q).2 (by rw [notPrintable_hive]; exact h)

end C01

namespace C13
open Ast PR

/-! ## non-vacuity

`example … := by decide` is checked by the kernel (the structural predicates reduce there); the printed texts are
compared by `#guard`, i.e. by evaluation of the compiled model, because the kernel does not reduce `String`
concatenation of this size in reasonable time. -/

def sel (cols : List (Expr × Option String)) (tbl : String) (wh : Option Expr := none) : Select :=
  .mk (some []) false cols (some [.mk (.table none tbl) none]) [] [] wh none none none none none none none

def isOkText (r : PR.P) (t : String) : Bool := match r with | .ok s => s == t | .error _ => false
def isErr (r : PR.P) (e : Err) : Bool := match r with | .ok _ => false | .error x => x == e

/-- `SELECT f(CASE WHEN (SELECT a % 2 FROM t) THEN 1 END) FROM u`: `%` inside a sub-query inside a CASE arm inside a
function argument -/
def deepModQ : Query :=
  .single (sel [(.func none "f" [.caseCond [(.subQuery (.single (sel [(.compute (.column none "a") "MOD" (.literal "2"), none)] "t")),
    .literal "1")] none], none)] "u")
def deepMod : Stmt := .select deepModQ

/-- kernel-checked through the theorem (no evaluation of the printer): exactly the not-supported error -/
example : prQ .ORACLE deepModQ = .error .notSupported :=
  refusal_is_notSupported_query .mod .ORACLE deepModQ (by decide) (by decide) (by decide)
/-- … and text for the four dialects that have `%` (again through the theorem) -/
example : ∃ s, prQ .SQL_SERVER deepModQ = .ok s := (printable_iff _ _).2 (by decide)
example : ∃ s, prQ .DEFAULT deepModQ = .ok s := (C01.print_total_on_default _).2 (by decide)
example : ¬ ∃ s, prQ .DB2 deepModQ = .ok s := fun h => absurd ((printable_iff _ _).1 h) (by decide)

example : usesMod deepMod = true := by decide
example : unsupported .ORACLE deepMod = true := by decide
example : ∃ err, prStmt .ORACLE deepMod = .error err := refusal_propagates _ _ (by decide)
example : unsupported .MYSQL deepMod = false := by decide
#guard isErr (prStmt .ORACLE deepMod) .notSupported
#guard isErr (prStmt .DB2 deepMod) .notSupported
#guard isErr (prStmt .POSTGRE_SQL deepMod) .notSupported
#guard isOkText (prStmt .MYSQL deepMod) "SELECT f(CASE WHEN (SELECT `a` % 2\nFROM `t`) THEN 1 END)\nFROM `u`"
/-- MySQL and Hive answer the `%` test alike, and nothing else in the tree is dialect-dependent: same text -/
example : prStmt .MYSQL deepMod = prStmt .HIVE deepMod := dialects_agree _ _ _ (by decide) (by decide)
example : anyStmt depAll deepMod = true := by decide

/-- `UPDATE t SET a = 1 WHERE EXISTS (SELECT 1 FROM v WHERE x[0] > 1)`: array index in an EXISTS sub-query of an UPDATE filter -/
def deepIndex : Stmt :=
  .update (some []) ⟨none, "t"⟩ [("a", .literal "1")]
    (some (.exists_ (.subQuery (.single (sel [(.literal "1", none)] "v"
      (some (.compare "GT" (.index (.column none "x") (.literal "0")) (.literal "1")))))))) none none

example : usesIndex deepIndex = true := by decide
example : unsupported .DEFAULT deepIndex = true := by decide
example : ∃ err, prStmt .DEFAULT deepIndex = .error err := refusal_propagates _ _ (by decide)
example : unsupported .HIVE deepIndex = false := by decide
#guard Gen.allD.all fun d => d == .HIVE || isErr (prStmt d deepIndex) .notSupported
#guard isOkText (prStmt .HIVE deepIndex) "UPDATE `t` SET `a` = 1 WHERE EXISTS (SELECT 1\nFROM `v`\nWHERE `x`[0] > 1)"

/-- through the theorems (kernel-checked, no evaluation of the printer): refused within the library's error family by
MySQL, printed by Hive -/
example : ∃ e, prStmt .MYSQL deepIndex = .error e ∧ e.inFamily = true := refusal_in_family _ _ (by decide) (by decide) (by decide)
example : ∃ s, prStmt .HIVE deepIndex = .ok s := printable_stmt _ _ (by decide) (by decide) (by decide)

/-- `SELECT a FROM (SELECT b FROM u DISTRIBUTE BY b) AS q`: a Hive-only clause in a derived table -/
def deepDistribute : Stmt :=
  .select (.single (.mk (some []) false [(.column none "a", none)]
    (some [.mk (.sub (.single (.mk (some []) false [(.column none "b", none)] (some [.mk (.table none "u") none]) [] [] none none none none
      none (some [.column none "b"]) none none))) (some "q")]) [] [] none none none none none none none none))

example : usesHiveClauses deepDistribute = true := by decide
example : ∃ err, prStmt .DEFAULT deepDistribute = .error err := refusal_propagates _ _ (by decide)
#guard Gen.allD.all fun d => d == .HIVE || isErr (prStmt d deepDistribute) .notSupported
#guard isOkText (prStmt .HIVE deepDistribute) "SELECT `a`\nFROM (SELECT `b`\nFROM `u`\nDISTRIBUTE BY `b`) AS q"

/-- `WITH w AS (SELECT a FROM t LATERAL VIEW explode(x) v AS c) SELECT * FROM w`: LATERAL VIEW in a WITH body -/
def deepLateral : Stmt :=
  .select (.single (.mk (some [.mk "w" (.single (.mk (some []) false [(.column none "a", none)] (some [.mk (.table none "t") none])
      [.mk false (.func none "explode" [.column none "x"]) "v" ["c"]] [] none none none none none none none none))])
    false [(.wildcard none, none)] (some [.mk (.table none "w") none]) [] [] none none none none none none none none))

example : usesLateralView deepLateral = true := by decide
example : ∃ err, prStmt .MYSQL deepLateral = .error err := refusal_propagates _ _ (by decide)
example : unsupported .DEFAULT deepLateral = false := by decide
#guard Gen.allD.all fun d => d == .HIVE || d == .DEFAULT || isErr (prStmt d deepLateral) .notSupported
#guard isOkText (prStmt .DEFAULT deepLateral) "WITH w AS (SELECT `a`\nFROM `t`\nLATERAL VIEW explode(`x`) v AS c)\nSELECT *\nFROM `w`"

/-- `INSERT OVERWRITE t SELECT a FROM u` -/
def overwrite : Stmt := .insertSelect ⟨some [], "INSERT_OVERWRITE", ⟨none, "t"⟩, none, none⟩ (.single (sel [(.column none "a", none)] "u"))

example : usesInsertOverwrite overwrite = true := by decide
example : ∃ err, prStmt .MYSQL overwrite = .error err := refusal_propagates _ _ (by decide)
#guard Gen.allD.all fun d => d == .HIVE || d == .DEFAULT || isErr (prStmt d overwrite) .notSupported
#guard isOkText (prStmt .HIVE overwrite) "INSERT OVERWRITE TABLE `t`  SELECT `a`\nFROM `u`"
#guard isOkText (prStmt .DEFAULT overwrite) "INSERT OVERWRITE `t`  SELECT `a`\nFROM `u`"

example : ∃ s, prStmt .DEFAULT overwrite = .ok s := C01.print_total_on_default_stmt _ (by decide) (by decide) (by decide) (by decide)
example : ∃ e, prStmt .ORACLE overwrite = .error e ∧ e.inFamily = true := refusal_in_family _ _ (by decide) (by decide) (by decide)

/-- `SELECT a + 1 FROM t WHERE b IN (SELECT c FROM u)`: none of the constructs -/
def plain : Stmt :=
  .select (.single (sel [(.compute (.column none "a") "PLUS" (.literal "1"), none)] "t"
    (some (.kw .in_ false (.column none "b") (.subQuery (.single (sel [(.column none "c", none)] "u")))))))

example : stmtDepAny plain = false ∧ anyStmt depAll plain = false := by decide
example (d d' : Gen.D) : prStmt d plain = prStmt d' plain := dialect_irrelevant_otherwise plain (by decide) (by decide) d d'
example (d : Gen.D) : unsupported d plain = false := by cases d <;> decide
#guard Gen.allD.all fun d => isOkText (prStmt d plain) "SELECT `a` + 1\nFROM `t`\nWHERE `b` IN (SELECT `c`\nFROM `u`)"

/-- an ill-formed tree (operator member name outside `EnumComputeOperator`): flagged, and no dialect prints it -/
def illQ : Query := .single (sel [(.compute (.column none "a") "NO_SUCH_MEMBER" (.literal "1"), none)] "t")
example : anyQ illFormed illQ = true := by decide
example (d : Gen.D) : ¬ ∃ s, prQ d illQ = .ok s := fun h => absurd ((printable_iff d illQ).1 h) (by cases d <;> decide)
/-- grouping sets after the repair 1fd5412: an EMPTY group is well-formed and printed `()` by every dialect (through the
theorem, kernel-checked); a one-element group whose text starts with `(` keeps the group brackets -/
def gsel (g : GroupBy) : Query :=
  .single (.mk (some []) false [(.column none "a", none)] (some [.mk (.table none "t") none]) [] [] none (some g) none none none none none none)
def emptyGroupQ : Query := gsel (.mk [.column none "a"] (some [[], [.column none "a"]]) false false)
def bracketGroupQ : Query := gsel (.mk [.column none "a"]
  (some [[.compute (.compute (.column none "a") "PLUS" (.column none "b")) "MULTIPLE" (.column none "c")], [.column none "d"]]) false false)
example : anyQ illFormed emptyGroupQ = false := by decide
example (d : Gen.D) : ∃ s, prQ d emptyGroupQ = .ok s := (printable_iff d _).2 (by cases d <;> decide)
example (d d' : Gen.D) : prQ d bracketGroupQ = prQ d' bracketGroupQ := dialect_irrelevant_otherwise_query _ (by decide) d d'
#guard Gen.allD.all fun d => isOkText (prQ d emptyGroupQ) "SELECT `a`\nFROM `t`\nGROUP BY `a` GROUPING SETS ((), `a`)"
#guard Gen.allD.all fun d => isOkText (prQ d bracketGroupQ) "SELECT `a`\nFROM `t`\nGROUP BY `a` GROUPING SETS (((`a` + `b`) * `c`), `d`)"
/-- a refused construct inside an (otherwise empty-neighboured) grouping set still propagates -/
def modInGroupQ : Query := gsel (.mk [.column none "a"] (some [[], [.compute (.column none "a") "MOD" (.literal "2")]]) false false)
example : prQ .ORACLE modInGroupQ = .error .notSupported :=
  refusal_is_notSupported_query .mod .ORACLE modInGroupQ (by decide) (by decide) (by decide)

/-- DEFAULT refuses the array index at depth, Hive prints it (C01.print_total_on_default / print_total_on_hive) -/
def deepIndexQ : Query := .single (sel [(.literal "1", none)] "v"
  (some (.exists_ (.subQuery (.single (sel [(.literal "1", none)] "w" (some (.index (.column none "x") (.literal "0")))))))))
example : ¬ ∃ s, prQ .DEFAULT deepIndexQ = .ok s := fun h => absurd ((C01.print_total_on_default _).1 h) (by decide)
example : ∃ s, prQ .HIVE deepIndexQ = .ok s := C01.print_total_on_hive _ (by decide)

/-- `SELECT CURRENT_DATE FROM t`: the one construct DB2 spells differently (the theorem's hypothesis fails, and so does its
conclusion) -/
def currentDate : Stmt := .select (.single (sel [(.column none "CURRENT_DATE", none)] "t"))
#guard anyStmt depAll currentDate
#guard isOkText (prStmt .DB2 currentDate) "SELECT CURRENT DATE\nFROM `t`"
#guard isOkText (prStmt .MYSQL currentDate) "SELECT CURRENT_DATE\nFROM `t`"

end C13
