import MsqProofs.Lemmas.TRest3
/-!
# C03 / C01 — T-parse for the remaining statement classes, and ONE theorem over the union of all statement fragments

Built NEXT to Props/C03Q2.lean (queries, `TQ2`), Props/C03D.lean (data-change statements and WITH over `FragQ`, `TDM`) and Props/C18T.lean
(CREATE TABLE, `TD`), all unchanged; definitions in Lemmas/TRest0.lean (namespace `TR`), proofs in Lemmas/TRest1–3.lean.  The data-change
development is LIFTED to the larger query fragment: Lemmas/TDmlQ0–4.lean (namespace `TDM2`, generated from TDml0–4 by
tools/dev/gen_tdml2.py: `FragE3 → FragE4`, `FragQ → FragQ2`, the finer clause numbering `Bd4`, six hand patches), and
Lemmas/TDmlQI.lean proves `TDM.FragStmt ⊆ TDM2.FragStmt` with equal renderings.

**New classes** — fragment `TR.FragRest d s`, token printer `TR.toksRest d s` (mirrors `PR.prStmt`; `#guard`s below check
`lex (prStmt d s) = toksRest d s` for every class in MYSQL and HIVE):
* `ALTER TABLE t clause, …` (one or more clauses, EVERY `AlterOp` of the model): `ADD [IF NOT EXISTS] PARTITION (…)`,
  `DROP [IF EXISTS] PARTITION (…)` (static items `k = v` or dynamic items `k`, as in INSERT: `TDM.partOK`); `ADD x`, `MODIFY x`,
  ``CHANGE `old` x`` with `x` a column definition of `TD.colOK` (for MYSQL every attribute the printer writes, for the other dialects
  type and COMMENT — what `prDefCol` prints), a key `PRIMARY KEY | UNIQUE KEY n | KEY n | FULLTEXT KEY n (cols) [USING] [COMMENT]
  [KEY_BLOCK_SIZE=n]` (`TD.idxOK`) or a foreign key `CONSTRAINT n FOREIGN KEY (…) REFERENCES t (…) [ON DELETE a] [ON UPDATE a]`
  (`TD.fkOK`); ``RENAME COLUMN `a` TO `b` ``; ``DROP COLUMN `c` ``.  The model (and the parser) has no `RENAME TO` and no `ADD COLUMN`.
* `DROP TABLE [IF EXISTS] t`, `TRUNCATE TABLE t`, `MSCK REPAIR TABLE t` (`t` plain or schema-qualified: `TDM.tblOKD`), `USE s` (any raw
  string), `SHOW DATABASES`, `SHOW TABLES`;
* `SET k=v`: `k` and `v` configuration strings — words joined by `.` and `-` (`hive.exec.dynamic.partition`), or ONE token of any
  other shape (a quoted string, a decimal number) — `TR.cfgOK`: the parser's concatenation of the pieces is the stored string;
* `ANALYZE TABLE t [PARTITION (…)] COMPUTE STATISTICS [FOR COLUMNS] [CACHE METADATA] [NOSCAN]` for HIVE (every combination of the
  three flags); for the other dialects the bare `ANALYZE TABLE t` the MySQL printer writes — partition and flags must be unset, the
  MySQL rendering does not state them (see the note on the information loss at the end);
* `SHOW COLUMNS FROM t [alias], … [WHERE e]`: tables (also derived tables) and filter of the larger query fragment (`TQ2.fromOK4`, `TQ2.FragO4`);
  the model (and the parser) has no second `FROM db`;
* `CREATE TABLE t AS [WITH name AS (q), …] <query of FragQ2>` (`TR.selOK`; `_parse_select_statement` finds the WITH clause itself there:
  `TR.with_query_select2`).

**The union** `TR.FragAny d s` = a query of `FragQ2` ∨ a statement of `TDM2.FragStmt` (DELETE / UPDATE / INSERT / WITH … over `FragQ2` and
`FragE4`: window functions, CAST, GROUPING SETS, LATERAL VIEW … inside data-change statements and under WITH; it contains
`TDM.FragStmt`, the same over `FragQ`, with the same rendering: `C03.fragStmt_sub_fragStmt2`, `fragAny_of_fragStmt`) ∨ a CREATE TABLE of
`TD.FragCreate` ∨ `FragRest`; printer `TR.toksAny`; continuation `TR.stopsAny d rest`: empty, or a head with source `;`
that continues nothing (`sa_nil`, `sa_semi`); `TR.restAfter s rest`: CREATE TABLE swallows one `;` itself (`parser.py:2017`, C10), every
other statement leaves it to the loop.

**Theorems** (every dialect, explicit linear fuel):
* `C03.tstatement_rest`, and by class `talter`, `tdrop_table`, `ttruncate`, `tmsck`, `tuse`, `tset`, `tanalyze`, `tshow_columns`,
  `tcreate_table_as`; slot corollaries `alter_slots` (the clauses in order, each with its kind and arguments), `alter_clause`
  (`_parse_alter_expression` on one clause), `analyze_slots`, `set_slots`, `show_columns_slots`;
* `C03.tstatement2` : `C03.tstatement` (Props/C03D.lean) over the larger fragment; `C03.fragStmt_sub_fragStmt2`;
* `C03.tstatement_any` : `FragAny d s → stopsAny d rest → 20 * sizeL (toksAny d s) + 16 ≤ fuel →
  pStatement d fuel (toksAny d s ++ rest) = ok (s, restAfter s rest)`; `tstatement_any_entry_fuel`;
* `C03.tscript_any` : the renderings of ANY list of fragment statements joined by `;` (with / without a final one) parse, through
  `parse_statements`' loop with the entry point's own fuel, to exactly that list; `tscript_any_loop` (explicit fuels);
* `C01.statement_round_trip_tokens_any`; `C03.rendering_determines_statement_any`.
Not covered: the restrictions of the component fragments (a WITH clause inside a sub-query or a WITH body, bracketed SELECTs as branches
of a set operation, …); the accounting theorem `C08.dml_accounted` stays over `TDM.FragStmt`.
-/
set_option linter.unusedVariables false
set_option linter.unusedSimpArgs false
open Lex PM Ast TP TS TR

namespace C03
/-- **T-parse, the remaining statement classes.**  One iteration of the loop of `parse_statements` on the token rendering of an
ALTER TABLE, DROP TABLE, TRUNCATE TABLE, MSCK REPAIR TABLE, USE, SET, ANALYZE TABLE, SHOW DATABASES / TABLES / COLUMNS or CREATE TABLE … AS
statement of the fragment returns exactly that statement, in front of the end of input or a `;`, at every fuel above a linear bound -/
theorem tstatement_rest (d : Gen.D) (s : Stmt) (hs : FragRest d s = true) (rest : List Tok) (hr : stopsAny d rest = true) (fuel : Nat)
    (hfuel : 20 * sizeL (toksRest d s) + 16 ≤ fuel) : pStatement d fuel (toksRest d s ++ rest) = .ok (s, rest) :=
  rest_ok s hs rest hr fuel hfuel

theorem talter (d : Gen.D) (t : TableName) (ops : List AlterOp) (hs : FragRest d (.alter t ops) = true) (rest : List Tok)
    (hr : stopsAny d rest = true) (fuel : Nat) (hfuel : 20 * sizeL (toksAlter d t ops) + 16 ≤ fuel) :
    pStatement d fuel (toksAlter d t ops ++ rest) = .ok (.alter t ops, rest) := tstatement_rest d _ hs rest hr fuel hfuel
theorem tdrop_table (d : Gen.D) (b : Bool) (t : TableName) (hs : FragRest d (.dropTable b t) = true) (rest : List Tok)
    (hr : stopsAny d rest = true) (fuel : Nat) : pStatement d fuel (toksDrop b t ++ rest) = .ok (.dropTable b t, rest) :=
  drop_ok b t hs rest hr fuel
theorem ttruncate (d : Gen.D) (t : TableName) (hs : FragRest d (.truncate t) = true) (rest : List Tok) (hr : stopsAny d rest = true)
    (fuel : Nat) : pStatement d fuel (toksTruncate t ++ rest) = .ok (.truncate t, rest) := truncate_ok t hs rest hr fuel
theorem tmsck (d : Gen.D) (t : TableName) (hs : FragRest d (.msck t) = true) (rest : List Tok) (hr : stopsAny d rest = true)
    (fuel : Nat) : pStatement d fuel (toksMsck t ++ rest) = .ok (.msck t, rest) := msck_ok t hs rest hr fuel
/-- `USE s`: any stored string, any continuation, any fuel -/
theorem tuse (d : Gen.D) (s : String) (rest : List Tok) (fuel : Nat) : pStatement d fuel (toksUse s ++ rest) = .ok (.use s, rest) :=
  use_ok s rest fuel
theorem tset (d : Gen.D) (c : ConfigStr) (hs : FragRest d (.set c) = true) (rest : List Tok) (hr : stopsAny d rest = true) (fuel : Nat) :
    pStatement d fuel (toksSet c ++ rest) = .ok (.set c, rest) := by
  simp only [FragRest, Bool.and_eq_true] at hs
  exact set_ok c hs.1 hs.2 rest hr fuel
theorem tanalyze (d : Gen.D) (t : TableName) (p : Option (List Expr)) (fc cm ns : Bool) (hs : FragRest d (.analyze t p fc cm ns) = true)
    (rest : List Tok) (hr : stopsAny d rest = true) (fuel : Nat) (hfuel : 20 * sizeL (toksAnalyze d t p fc cm ns) + 16 ≤ fuel) :
    pStatement d fuel (toksAnalyze d t p fc cm ns ++ rest) = .ok (.analyze t p fc cm ns, rest) := tstatement_rest d _ hs rest hr fuel hfuel
theorem tshow_columns (d : Gen.D) (fr : List FromTable) (wh : Option Expr) (hs : FragRest d (.showColumns fr wh) = true)
    (rest : List Tok) (hr : stopsAny d rest = true) (fuel : Nat) (hfuel : 20 * sizeL (toksShowColumns d fr wh) + 16 ≤ fuel) :
    pStatement d fuel (toksShowColumns d fr wh ++ rest) = .ok (.showColumns fr wh, rest) := tstatement_rest d _ hs rest hr fuel hfuel
theorem tcreate_table_as (d : Gen.D) (t : TableName) (ine : Bool) (q : Query) (hs : FragRest d (.createTableAs t ine q) = true)
    (rest : List Tok) (hr : stopsAny d rest = true) (fuel : Nat) (hfuel : 20 * sizeL (toksCreateAs d t ine q) + 16 ≤ fuel) :
    pStatement d fuel (toksCreateAs d t ine q ++ rest) = .ok (.createTableAs t ine q, rest) := tstatement_rest d _ hs rest hr fuel hfuel

/-! ### slots -/
def alterOpsOf : Stmt → List AlterOp
  | .alter _ ops => ops
  | _ => []
def alterTableOf : Stmt → Option TableName
  | .alter t _ => some t
  | _ => none
/-- **ALTER TABLE: every clause in order, each with its kind and its arguments; the target from the table token** -/
theorem alter_slots (d : Gen.D) (t : TableName) (ops : List AlterOp) (hs : FragRest d (.alter t ops) = true) (rest : List Tok)
    (hr : stopsAny d rest = true) (fuel : Nat) (hfuel : 20 * sizeL (toksAlter d t ops) + 16 ≤ fuel) :
    ∃ p, pStatement d fuel (opTok "ALTER" :: opTok "TABLE" :: tbl t :: (toksAlterOps d ops ++ rest)) = .ok (p, rest) ∧
      alterOpsOf p = ops ∧ alterTableOf p = some t := by
  refine ⟨.alter t ops, ?_, rfl, rfl⟩
  have := talter d t ops hs rest hr fuel hfuel
  simpa [toksAlter] using this
/-- one clause, through `_parse_alter_expression`: followed by the `,` of the next clause or by the end of the statement -/
theorem alter_clause (d : Gen.D) (o : AlterOp) (ho : alterOpOK d o = true) (r : List Tok)
    (hr : (∃ x, r = commaTok :: x) ∨ stopsAny d r = true) (fuel : Nat) (hfuel : 20 * sizeL (toksAlterOp d o) + 2 ≤ fuel) :
    pAlterExpr d fuel (toksAlterOp d o ++ r) = .ok (o, r) := alterOp_ok o ho r hr fuel hfuel
/-- a column definition / key / foreign key inside a clause, through `_parse_column_or_index` -/
theorem alter_column_or_index (d : Gen.D) (x : ColOrIdx) (hx : colOrIdxOK d x = true) (r : List Tok)
    (hr : (∃ y, r = commaTok :: y) ∨ stopsAny d r = true) (fuel : Nat) (hfuel : 20 * sizeL (toksColOrIdx d x) + 2 ≤ fuel) :
    pColOrIdx d fuel (toksColOrIdx d x ++ r) = .ok (x, r) := colOrIdx_ok x hx r hr fuel hfuel
def analyzeOf : Stmt → Option (TableName × Option (List Expr) × Bool × Bool × Bool)
  | .analyze t p fc cm ns => some (t, p, fc, cm, ns)
  | _ => none
/-- **ANALYZE TABLE (Hive rendering): the partition list and each of the three flags from its own words** -/
theorem analyze_slots (t : TableName) (p : Option (List Expr)) (fc cm ns : Bool) (hs : FragRest .HIVE (.analyze t p fc cm ns) = true)
    (rest : List Tok) (hr : stopsAny .HIVE rest = true) (fuel : Nat) (hfuel : 20 * sizeL (toksAnalyze .HIVE t p fc cm ns) + 16 ≤ fuel) :
    ∃ s, pStatement .HIVE fuel (opTok "ANALYZE" :: opTok "TABLE" :: tbl t :: (TDM2.toksPart .HIVE noX p ++ (opTok "COMPUTE" :: opTok "STATISTICS" ::
        (TD.flag fc [opTok "FOR", opTok "COLUMNS"] ++ (TD.flag cm [opTok "CACHE", opTok "METADATA"] ++ (TD.flag ns [opTok "NOSCAN"] ++ rest)))))) =
        .ok (s, rest) ∧ analyzeOf s = some (t, p, fc, cm, ns) := by
  refine ⟨.analyze t p fc cm ns, ?_, rfl⟩
  have := tanalyze .HIVE t p fc cm ns hs rest hr fuel hfuel
  simpa [toksAnalyze] using this
def configOf : Stmt → Option ConfigStr
  | .set c => some c
  | _ => none
/-- **SET: key and value are the concatenations of the pieces on either side of `=`** -/
theorem set_slots (d : Gen.D) (k v : String) (hk : cfgOK k = true) (hv : cfgOK v = true) (rest : List Tok) (hr : stopsAny d rest = true)
    (fuel : Nat) : ∃ s, pStatement d fuel (opTok "SET" :: (toksCfg k ++ TD.eqTok :: (toksCfg v ++ rest))) = .ok (s, rest) ∧
      configOf s = some ⟨k, v⟩ := by
  refine ⟨.set ⟨k, v⟩, ?_, rfl⟩
  have := set_ok (d := d) ⟨k, v⟩ hk hv rest hr fuel
  simpa [toksSet] using this
def showOf : Stmt → Option (List FromTable × Option Expr)
  | .showColumns fr wh => some (fr, wh)
  | _ => none
/-- **SHOW COLUMNS: the tables after FROM in order, the filter after WHERE** -/
theorem show_columns_slots (d : Gen.D) (fr : List FromTable) (wh : Option Expr) (hs : FragRest d (.showColumns fr wh) = true)
    (rest : List Tok) (hr : stopsAny d rest = true) (fuel : Nat) (hfuel : 20 * sizeL (toksShowColumns d fr wh) + 16 ≤ fuel) :
    ∃ s, pStatement d fuel (opTok "SHOW" :: opTok "COLUMNS" :: (TQ2.toksFrom4 d noX (some fr) ++ (TQ2.toksOptE4 d noX "WHERE" wh ++ rest))) =
      .ok (s, rest) ∧ showOf s = some (fr, wh) := by
  refine ⟨.showColumns fr wh, ?_, rfl⟩
  have := tshow_columns d fr wh hs rest hr fuel hfuel
  simpa [toksShowColumns] using this

/-! ### data-change statements over the larger query fragment -/
/-- **T-parse, data-change statements over `FragQ2` / `FragE4`** (`C03.tstatement` lifted): DELETE, UPDATE, INSERT … VALUES, INSERT … query,
a query, the last four with an optional WITH clause — expressions and queries of the LARGER fragment -/
theorem tstatement2 (d : Gen.D) (s : Stmt) (hs : TDM2.FragStmt d s = true) (rest : List Tok) (hr : TDM2.stopsStmt d rest = true)
    (fuel : Nat) (hfuel : 20 * sizeL (TDM2.toksStmt d s) + 16 ≤ fuel) : pStatement d fuel (TDM2.toksStmt d s ++ rest) = .ok (s, rest) :=
  TDM2.stmt_ok TQ2.chOK_noX (d == .HIVE) s hs rest hr fuel hfuel
/-- the same with redundant brackets inside expressions and the optional word `TABLE` written or not -/
theorem tstatement2_ch (d : Gen.D) (ch : Expr → Bool) (hch : TQ2.ChOK d ch) (tb : Bool) (s : Stmt) (hs : TDM2.FragStmt d s = true)
    (rest : List Tok) (hr : TDM2.stopsStmt d rest = true) (fuel : Nat) (hfuel : 20 * sizeL (TDM2.toksStmtG d ch tb s) + 16 ≤ fuel) :
    pStatement d fuel (TDM2.toksStmtG d ch tb s ++ rest) = .ok (s, rest) :=
  TDM2.stmt_ok hch tb s hs rest hr fuel hfuel
/-- **`TDM.FragStmt ⊆ TDM2.FragStmt`** with equal renderings (any redundant brackets, `TABLE` written or not): `C03.tstatement` is an
instance of `C03.tstatement2` -/
theorem fragStmt_sub_fragStmt2 (d : Gen.D) (ch : Expr → Bool) (tb : Bool) (s : Stmt) (hs : TDM.FragStmt d s = true) :
    TDM2.FragStmt d s = true ∧ TDM2.toksStmtG d ch tb s = TDM.toksStmtG d ch tb s := TDM2.fragStmt_sub d ch tb s hs

/-! ### the union of all statement fragments -/
/-- **T-parse, every statement class.**  One iteration of the loop of `parse_statements` on the token rendering of ANY statement of
the union fragment — a query (`FragQ2`), DELETE / UPDATE / INSERT / WITH … (`TDM.FragStmt`), CREATE TABLE (`TD.FragCreate`), or one of
the classes above — returns exactly that statement and leaves the continuation (CREATE TABLE: without its leading `;`) -/
theorem tstatement_any (d : Gen.D) (s : Stmt) (hs : FragAny d s = true) (rest : List Tok) (hr : stopsAny d rest = true) (fuel : Nat)
    (hfuel : 20 * sizeL (toksAny d s) + 16 ≤ fuel) : pStatement d fuel (toksAny d s ++ rest) = .ok (s, restAfter s rest) :=
  any_ok s hs rest hr fuel hfuel
/-- the fuel the public entry points compute from the token list dominates the bound -/
theorem tstatement_any_entry_fuel (d : Gen.D) (s : Stmt) (hs : FragAny d s = true) (rest : List Tok) (hr : stopsAny d rest = true) :
    pStatement d (fuelFor (toksAny d s ++ rest)) (toksAny d s ++ rest) = .ok (s, restAfter s rest) :=
  tstatement_any d s hs rest hr _ (by simp only [fuelFor, C10.sizeL_append]; omega)
/-- the union contains the data-change fragment of Props/C03D.lean, with its rendering -/
theorem fragAny_of_fragStmt (d : Gen.D) (s : Stmt) (hs : TDM.FragStmt d s = true) : FragAny d s = true ∧ toksAny d s = TDM.toksStmt d s :=
  any_of_fragStmt s hs
/-- … and the queries of `FragQ2`, with their rendering -/
theorem fragAny_of_fragQ2 (d : Gen.D) (q : Query) (hq : TQ2.FragQ2 d q = true) :
    FragAny d (.select q) = true ∧ toksAny d (.select q) = TQ2.toksQ2 d noX q := any_of_fragQ2 q hq
theorem restAfter_nil (s : Stmt) : restAfter s [] = [] := by cases s <;> rfl
/-- the two continuations the statement loop produces -/
theorem stopsAny_nil (d : Gen.D) : stopsAny d [] = true := rfl
theorem stopsAny_semi (d : Gen.D) (x : List Tok) : stopsAny d (TDM.semiTok :: x) = true := sa_semi x

/-- **scripts that mix every statement class.**  The token list `s₁ ; s₂ ; … ; sₙ [;]` of statements of the union fragment parses,
through `parse_statements`' loop with the entry point's own fuel, to `[s₁, …, sₙ]` -/
theorem tscript_any (d : Gen.D) (ss : List Stmt) (hss : ∀ s ∈ ss, FragAny d s = true) (fin : Bool) :
    pStatements d (fuelFor (C10.script TDM.semiTok (ss.map (toksAny d)) fin)) (C10.script TDM.semiTok (ss.map (toksAny d)) fin) = .ok ss := by
  have h := C10.script_concat_entry PM.isSemi_lexed d (ss.map (fun s => (toksAny d s, s))) (by
    intro p hp
    obtain ⟨s, hs, rfl⟩ := List.mem_map.1 hp
    have := tstatement_any_entry_fuel d s (hss s hs) [] rfl
    simpa [restAfter_nil] using this) fin
  simpa [TDM.semiTok, List.map_map, Function.comp_def] using h
/-- the loop itself, explicit fuels: parser fuel above the bound of every statement, loop fuel above the number of statements -/
theorem tscript_any_loop (d : Gen.D) (ss : List Stmt) (hss : ∀ s ∈ ss, FragAny d s = true) (fin : Bool)
    (f : Nat) (hf : ∀ s ∈ ss, 20 * sizeL (toksAny d s) + 16 ≤ f) :
    ∃ g₀, ∀ g, g₀ ≤ g → statementsLoop d (f + 1) g [] (C10.script TDM.semiTok (ss.map (toksAny d)) fin) = .ok ss := by
  obtain ⟨g₀, h⟩ := C10.script_concat PM.isSemi_lexed d (f := f) (f' := f + 1) (by omega) (ss.map (fun s => (toksAny d s, s))) (by
    intro p hp
    obtain ⟨s, hs, rfl⟩ := List.mem_map.1 hp
    have := tstatement_any d s (hss s hs) [] rfl f (hf s hs)
    simpa [restAfter_nil] using this) fin
  exact ⟨g₀, fun g hg => by simpa [TDM.semiTok, List.map_map, Function.comp_def] using h g hg⟩

/-- equal renderings, equal statements — across all classes -/
theorem rendering_determines_statement_any (d : Gen.D) (s s' : Stmt) (hs : FragAny d s = true) (hs' : FragAny d s' = true)
    (h : toksAny d s = toksAny d s') : s = s' := by
  have a := tstatement_any d s hs [] rfl (20 * sizeL (toksAny d s) + 16) (Nat.le_refl _)
  have b := tstatement_any d s' hs' [] rfl (20 * sizeL (toksAny d s) + 16) (by rw [h]; exact Nat.le_refl _)
  rw [← h, a] at b
  simp only [Except.ok.injEq, Prod.mk.injEq] at b
  exact b.1
end C03

namespace C01
/-- **print / parse round trip of any fragment statement, token level**: the rendering parses to the statement with nothing left, and
(hence) the rendering of whatever the parser returns is the rendering one started from -/
theorem statement_round_trip_tokens_any (d : Gen.D) (s : Stmt) (hs : FragAny d s = true) (fuel : Nat)
    (hfuel : 20 * sizeL (toksAny d s) + 16 ≤ fuel) :
    pStatement d fuel (toksAny d s) = .ok (s, []) ∧
    ∀ p r, pStatement d fuel (toksAny d s) = .ok (p, r) → toksAny d p = toksAny d s ∧ r = [] := by
  have h := C03.tstatement_any d s hs [] rfl fuel hfuel
  simp only [List.append_nil, C03.restAfter_nil] at h
  refine ⟨h, fun p r hp => ?_⟩
  rw [h] at hp
  simp only [Except.ok.injEq, Prod.mk.injEq] at hp
  exact ⟨by rw [← hp.1], hp.2.symm⟩
end C01

/-! ### non-vacuity (compiled evaluation: `String` operations do not reduce in the kernel) -/
namespace C03.Rest
/-- the token-level printer agrees with the lexer on the printer's text, and the statement is in the union fragment -/
def agreesAny (d : Gen.D) (s : Stmt) : Bool :=
  match PR.prStmt d s with
  | .ok x => eqbL (lexed x) (toksAny d s) && FragAny d s
  | .error _ => false
/-- the conclusion of `tstatement_any`, evaluated -/
def roundTripsAny (d : Gen.D) (s : Stmt) : Bool :=
  match pStatement d (20 * sizeL (toksAny d s) + 16) (toksAny d s ++ lexed "; SELECT 1") with
  | .ok (p, r) => Drv.showVal p.toVal == Drv.showVal s.toVal && eqbL r (restAfter s (lexed "; SELECT 1"))
  | _ => false
def tn (n : String) (s : Option String := none) : TableName := ⟨s, n⟩
def eqp (k v : String) : Expr := .compare "EQ" (col k) (lit v)
/-- every kind of clause: column with attributes, DROP / RENAME COLUMN, partitions, CHANGE, keys, a foreign key -/
def a1 : Stmt := .alter (tn "t")
  [.add (.col { name := "a", type := ⟨"int", none⟩, notNull := true, default := some (lit "1"), comment := some "'x'" }), .dropColumn "b",
   .renameColumn "c" "d", .addPartition true [eqp "dt" "'1'", eqp "hr" "2"], .dropPartition false [col "dt"],
   .change "a" (.col { name := "b", type := ⟨"varchar", some [lit "3"]⟩, unsigned := true, charset := some "utf8" }),
   .modify (.idx ⟨.normal, some "k", [⟨"a", some 3⟩, ⟨"b", none⟩], some "BTREE", some "'c'", some 4⟩),
   .add (.idx ⟨.primary, none, [⟨"a", none⟩], none, none, none⟩), .add (.idx ⟨.unique, some "u", [⟨"a", none⟩], none, none, none⟩),
   .add (.idx ⟨.fulltext, some "ft", [⟨"a", none⟩], none, some "'f'", none⟩),
   .add (.fk ⟨"fk", ["a"], "p", ["x", "y"], some "CASCADE", some "SET NULL"⟩), .add (.fk ⟨"fk2", ["a"], "p", ["x"], none, none⟩),
   .addPartition false [eqp "dt" "'3'"], .dropPartition true [eqp "dt" "'1'"]]
/-- what the Hive printer can state of a column: type and comment -/
def a2 : Stmt := .alter (tn "t" (some "s")) [.add (.col { name := "a", type := ⟨"decimal", some [lit "10", lit "2"]⟩, comment := some "'x'" }),
  .dropPartition true [eqp "dt" "'1'"], .modify (.col { name := "select", type := ⟨"string", none⟩ })]
def a3 : Stmt := .alter (tn "t") [.dropColumn "c"]
def dr1 : Stmt := .dropTable true (tn "t" (some "s"))
def dr2 : Stmt := .dropTable false (tn "t")
def tr1 : Stmt := .truncate (tn "t")
def ms1 : Stmt := .msck (tn "t" (some "db"))
def us1 : Stmt := .use "db"
def us2 : Stmt := .use "`my db`"
def st1 : Stmt := .set ⟨"hive.exec.dynamic-partition.mode", "nonstrict"⟩
def st2 : Stmt := .set ⟨"a", "'x.y'"⟩
def st3 : Stmt := .set ⟨"mapred.job.name", "a-b.c"⟩
def st4 : Stmt := .set ⟨"hive.map.aggr.hash.percentmemory", "0.5"⟩
def an1 : Stmt := .analyze (tn "t") (some [eqp "dt" "'1'"]) true true true
def an2 : Stmt := .analyze (tn "t") none false false false
def an3 : Stmt := .analyze (tn "t" (some "s")) (some [col "dt"]) false false true
def an4 : Stmt := .analyze (tn "t") none true false false
def sc1 : Stmt := .showColumns [tb "t", .mk (.table (some "s") "u") (some "x")] (some (eqp "a" "1"))
def sc2 : Stmt := .showColumns [tb "t"] none
def ca1 : Stmt := .createTableAs (tn "t" (some "s")) true q2w2
def ca2 : Stmt := .createTableAs (tn "t") false q3
/-- `CREATE TABLE t AS WITH x AS (…), y AS (…) SELECT … UNION ALL SELECT …` -/
def ca3 : Stmt := match C03.Dml.w1 with | .select q => .createTableAs (tn "t") false q | s => s
-- every new class in MYSQL and HIVE
#guard [a1, a3, dr1, dr2, tr1, ms1, us1, us2, st1, st2, st3, st4, an2, sc1, sc2, ca1, ca2, ca3, .showDatabases, .showTables].all (agreesAny .MYSQL) &&
  [a2, a3, dr1, dr2, tr1, ms1, us1, us2, st1, st2, st3, st4, an1, an2, an3, an4, sc1, sc2, ca1, ca2, ca3, .showDatabases, .showTables].all (agreesAny .HIVE)
#guard [a1, a2, a3, dr1, dr2, tr1, ms1, us1, us2, st1, st2, st3, an2, sc1, sc2, ca1, ca2, .showDatabases, .showTables].all (roundTripsAny .MYSQL) &&
  [a2, a3, dr1, dr2, tr1, ms1, us1, us2, st1, st2, st3, an1, an2, an3, an4, sc1, sc2, ca1, ca2, ca3, .showDatabases, .showTables].all (roundTripsAny .HIVE) &&
  [a2, dr1, st1, an2, sc1, ca1].all (roundTripsAny .ORACLE)
-- the old classes through the union printer: queries of the larger fragment, data-change statements, WITH, CREATE TABLE
#guard [.select q2w1, .select q2w2, .select q2w4, C03.Dml.d1, C03.Dml.u1, C03.Dml.i1, C03.Dml.i4, C03.Dml.w1, C03.Dml.w2, .createTable C18.t2].all (agreesAny .MYSQL) &&
  [.select q2w3, C03.Dml.d1, C03.Dml.u2, C03.Dml.i3, C03.Dml.w1, .createTable C18.t1].all (agreesAny .HIVE)
#guard [.select q2w1, C03.Dml.d1, C03.Dml.u1, C03.Dml.i1, C03.Dml.w1, .createTable C18.t2].all (roundTripsAny .MYSQL) &&
  [.select q2w3, C03.Dml.d1, C03.Dml.i3, C03.Dml.w2, .createTable C18.t1].all (roundTripsAny .HIVE)
/-- data-change statements over the LARGER fragment: INSERT … a query with window functions / CAST / EXTRACT; UPDATE with CAST, an array index
and a window-free IF; DELETE with EXTRACT; WITH over a query with USING / GROUPING SETS; INSERT … VALUES with CAST -/
def l1 : Stmt := .insertSelect (C03.Dml.ih "INSERT_INTO" (tn "t")) q2w1
def l2 : Stmt := .update (some []) (tn "t") [("a", .cast (col "b") false "DECIMAL" (some [10, 2])), ("c", .func none "IF" [eqp "a" "1", lit "1", lit "2"])]
  (some (.compare "GT" (.extract (col "year") (col "ts")) (lit "2000"))) none none
def l3 : Stmt := .delete (tn "t") (some (.compare "EQ" (.index (col "m") (lit "'k'")) (lit "1"))) none none
def l4 : Stmt := .select (.single (.mk (some [.mk "x" q2w2, .mk "y" q2w3]) false [(.wildcard none, none)] (some [tb "x"]) [] [] none none none none none none none none))
def l5 : Stmt := .insertValues (C03.Dml.ih "INSERT_OVERWRITE" (tn "t") (some [eqp "dt" "'1'"])) [[.cast (lit "1") true "INT" none, lit "2"]]
def l6 : Stmt := .createTableAs (tn "t") true (match l4 with | .select q => q | _ => qa)
#guard [l1, l2].all (agreesAny .MYSQL) && [l1, l2, l3, l4, l5, l6].all (agreesAny .HIVE) && [l1, l2, l3, l4, l5, l6].all (roundTripsAny .HIVE) &&
  [l1, l2, l3, l4, l5, l6].all (roundTripsAny .MYSQL) && !TDM.FragStmt .HIVE l1 && !TDM.FragStmt .HIVE l2 && !TDM.FragStmt .HIVE l4
-- what may follow a statement of the union: the end, a `;`; nothing else
#guard stopsAny .MYSQL (lexed "; SELECT 2") && stopsAny .HIVE [] && !stopsAny .MYSQL (lexed "SELECT 2") && !stopsAny .MYSQL (lexed ", x") &&
  !stopsAny .MYSQL (lexed ". x")
-- a mixed script on lexed text: the script printer of C10 on `toksAny` is what the lexer makes of the printed texts joined by `;`
#guard eqbL (C10.script TDM.semiTok ([dr1, C03.Dml.d2, us1, a3].map (toksAny .MYSQL)) true)
  (lexed "DROP TABLE IF EXISTS `s.t`; DELETE FROM `s.t`; USE db; ALTER TABLE `t` \nDROP COLUMN `c`;")
#guard (match pStatements .HIVE 4000 (lexed ("USE db; SET hive.exec.dynamic.partition=true; CREATE TABLE t (a int) COMMENT 'c'; " ++
    "ALTER TABLE t ADD PARTITION (dt='1'); INSERT INTO t PARTITION (dt='1') VALUES (1); ANALYZE TABLE t PARTITION (dt='1') COMPUTE STATISTICS NOSCAN; " ++
    "SELECT a FROM t; MSCK REPAIR TABLE t; TRUNCATE TABLE t; DROP TABLE IF EXISTS t")) with
  | .ok [.use _, .set _, .createTable _, .alter _ [.addPartition false _], .insertValues _ _, .analyze _ (some _) false false true, .select _, .msck _,
      .truncate _, .dropTable true _] => true
  | _ => false)
-- outside the fragment: no clause, a mixed partition list, the MySQL rendering of an ANALYZE with a flag (the printer drops it), a key
-- whose kind has no name where one is needed, a configuration string the parser would rebuild differently
#guard !FragAny .MYSQL (.alter (tn "t") []) && !FragAny .HIVE (.alter (tn "t") [.addPartition false [eqp "dt" "1", col "hr"]]) &&
  !FragAny .MYSQL an1 && FragAny .HIVE an1 && !FragAny .MYSQL (.alter (tn "t") [.add (.idx ⟨.normal, none, [⟨"a", none⟩], none, none, none⟩)])
#guard cfgOK "hive.exec-x" && cfgOK "'a.b'" && cfgOK "1.5" && eqbL (toksCfg "1.5") [cfgTok "1.5"] && (toksCfg "a.b-c").length == 5

/-! **information loss of the MySQL rendering of ANALYZE TABLE (C01; on the real code).**  `ANALYZE TABLE t CACHE METADATA` (also with
`PARTITION (…)`, `FOR COLUMNS`, `NOSCAN`) parses to a statement with the flag set; `source(SQLType.MYSQL)` prints `` ANALYZE TABLE `t` ``,
which parses to the statement with every flag unset: print → parse is not the identity on these trees (the Hive rendering keeps them;
the MySQL fragment excludes them).  Evaluated on the model: the printed text of `an4` for MYSQL reads back as `an2` -/
#guard (match PR.prStmt .MYSQL an4 with
  | .ok x => (match pStatement .MYSQL 2000 (lexed x) with
    | .ok (p, []) => Drv.showVal p.toVal == Drv.showVal an2.toVal && Drv.showVal p.toVal != Drv.showVal an4.toVal | _ => false)
  | .error _ => false)

/-! instances of the theorems (hypotheses decided by the kernel, conclusions the theorems'): no qualified table, no LIMIT, no SET
(`String.splitOn`, `toString`, `String.toList` do not reduce in the kernel) -/
def k1 : Stmt := .alter (tn "t") [.add (.col { name := "a", type := ⟨"int", none⟩, comment := some "'x'" }), .dropColumn "b",
  .addPartition true [eqp "dt" "'1'"], .renameColumn "c" "d"]
def k2 : Stmt := .dropTable true (tn "t")
def k3 : Stmt := .analyze (tn "t") (some [eqp "dt" "'1'"]) true false true
def k4 : Stmt := .showColumns [tb "t"] (some (eqp "a" "1"))
def k5 : Stmt := .createTableAs (tn "t") true qa
set_option maxRecDepth 100000 in
example : pStatement .HIVE (fuelFor (toksAny .HIVE k1 ++ lexed "; x")) (toksAny .HIVE k1 ++ lexed "; x") = .ok (k1, lexed "; x") :=
  tstatement_any_entry_fuel .HIVE k1 (by decide) _ (by decide)
set_option maxRecDepth 100000 in
/-- a script mixing seven classes: ALTER, DROP, a DELETE of the DML fragment, a CREATE TABLE of the DDL fragment, a query of `FragQ2`,
ANALYZE, SHOW COLUMNS, CREATE TABLE AS -/
example : pStatements .HIVE (fuelFor (C10.script TDM.semiTok ([k1, k2, C03.Dml.d0, .createTable C18.t1, .select q2w2c, k3, k4, k5].map (toksAny .HIVE)) true))
    (C10.script TDM.semiTok ([k1, k2, C03.Dml.d0, .createTable C18.t1, .select q2w2c, k3, k4, k5].map (toksAny .HIVE)) true) =
    .ok [k1, k2, C03.Dml.d0, .createTable C18.t1, .select q2w2c, k3, k4, k5] :=
  tscript_any .HIVE _ (by decide) true
def l7 : Stmt := .delete (tn "t") (some (.compare "GT" (.extract (col "year") (col "ts")) (lit "2000"))) none none
set_option maxRecDepth 100000 in
/-- data-change statements outside the old fragment: `DELETE FROM t WHERE m['k'] = 1` (an array index), `DELETE … WHERE EXTRACT(year FROM ts) > 2000` -/
example : pStatements .HIVE (fuelFor (C10.script TDM.semiTok ([l3, l7].map (toksAny .HIVE)) false)) (C10.script TDM.semiTok ([l3, l7].map (toksAny .HIVE)) false) =
    .ok [l3, l7] :=
  tscript_any .HIVE _ (by decide) false
end C03.Rest
