import MsqProofs.Props.C05
import MsqProofs.Lemmas.LexSim
/-!
# C06 — quoted text is opaque (lexer half)

All statements are about the shipped table `Gen.cfgS`, for ALL contexts: any text before (as long as the lexer is between
tokens after it), any text after, any frame stack, any position.  They are stated about `lexText` — the lexer after the
pre-pass, `lex cfg raw = lexText cfg (cfg.pre raw)` — with corollaries for `lex` on texts the pre-pass leaves alone
(`plain`); what the pre-pass does to TAB / CR LF / U+3000 inside quotes is finding F-C04-3 / F-C06 and not repeated here.

* `quoted_in_context`: read from between tokens, `q p q` becomes exactly ONE token, whatever the payload contains;
* `payload_substitution`: replacing the payload changes only that one leaf of the token tree (or both texts are rejected
  with the same error);
* `comment_in_context`, `comment_body_irrelevant`: a comment leaves no trace; two texts that differ only in a comment lex
  identically.

The two ingredients (`MsqProofs/Lemmas/LexSim.lean`) hold for any table: the part of a run before the quoted region does
not depend on what follows (`feedAllWith_context`), and the part after it depends on the frame stack only up to a
congruence on tokens and on the text only through the windows it slices (`runTail_ctx`).
-/
namespace C06
open Lex Spec C05

theorem shipped_good : GoodCode Gen.cfgS := by
  intro c; cases c <;> decide

/-! ## the three quote kinds -/

inductive QK | sq | dq | bq deriving DecidableEq, Repr

/-- the quote character -/
def QK.ch : QK → Char | .sq => '\'' | .dq => '"' | .bq => '`'
/-- the class marks of the token: strings LITERAL (|NAME: HARMLESS deviation of C05), back-quoted names NAME -/
def QK.marks : QK → Nat | .bq => Gen.mark_NAME | _ => Gen.mark_LITERAL ||| Gen.mark_NAME
/-- the quoted region as written -/
def QK.wrap (k : QK) (p : List Char) : List Char := k.ch :: (p ++ [k.ch])
/-- a payload: free of the quote character and — in strings, where it escapes — of the backslash; anything else goes:
comment openers, brackets, semicolons, operators, keywords, the other quote characters, non-ASCII -/
def QK.payload (k : QK) (p : List Char) : Prop := ∀ c ∈ p, c ≠ k.ch ∧ (k ≠ .bq → c ≠ '\\')
/-- what may follow the region: for strings not the same quote again (that would be the doubled-quote escape, i.e. the
region is not over) -/
def QK.follow (k : QK) (b : List Char) : Prop := k = .bq ∨ b.head? ≠ some k.ch
/-- the state inside the region / after its closing quote (strings: the token is emitted at the next symbol) -/
def QK.inside : QK → S | .sq => .IN_SINGLE_QUOTE | .dq => .IN_DOUBLE_QUOTE | .bq => .IN_BACK_QUOTE
def QK.pending : QK → S | .sq => .IN_SINGLE_QUOTE_AFTER_27 | .dq => .IN_DOUBLE_QUOTE_AFTER_22 | .bq => .WAIT

theorem wrap_length (k : QK) (p : List Char) : (k.wrap p).length = p.length + 2 := by simp [QK.wrap]

/-! ## table facts (through the specification automaton, `C05.look`) -/

theorem q_open (k : QK) : Gen.cfgS.lookup .WAIT (.ch k.ch) = some (addTo k.inside) := by
  cases k <;> exact look (by decide +kernel)

theorem q_body (k : QK) (c : Char) (h : c ≠ k.ch ∧ (k ≠ .bq → c ≠ '\\')) :
    Gen.cfgS.lookup k.inside (.ch c) = some (addTo k.inside) := by
  cases k with
  | sq =>
    exact lookClass .IN_SINGLE_QUOTE (fun n => !(n =ᶜ '\'') && !(n =ᶜ '\\')) (addTo .IN_SINGLE_QUOTE) (by decide +kernel)
      (Or.inl (by decide +kernel)) c (by simp [ne_of_isCh (ch := '\'') h.1, ne_of_isCh (h.2 (by decide))])
  | dq =>
    exact lookClass .IN_DOUBLE_QUOTE (fun n => !(n =ᶜ '"') && !(n =ᶜ '\\')) (addTo .IN_DOUBLE_QUOTE) (by decide +kernel)
      (Or.inl (by decide +kernel)) c (by simp [ne_of_isCh (ch := '"') h.1, ne_of_isCh (h.2 (by decide))])
  | bq =>
    exact lookClass .IN_BACK_QUOTE (fun n => !(n =ᶜ '`')) (addTo .IN_BACK_QUOTE) (by decide +kernel)
      (Or.inl (by decide +kernel)) c (by simp [ne_of_isCh (ch := '`') h.1])

theorem s_close (k : QK) (hk : k ≠ .bq) : Gen.cfgS.lookup k.inside (.ch k.ch) = some (addTo k.pending) := by
  cases k with
  | sq => exact look (by decide +kernel)
  | dq => exact look (by decide +kernel)
  | bq => exact absurd rfl hk

theorem b_close : Gen.cfgS.lookup .IN_BACK_QUOTE (.ch '`') = some (emitWith mName) := look (by decide +kernel)

theorem s_next (k : QK) (hk : k ≠ .bq) (d : Char) (hd : d ≠ k.ch) :
    Gen.cfgS.lookup k.pending (.ch d) = some (emitBefore (mString ||| mName)) := by
  cases k with
  | sq =>
    exact lookClass .IN_SINGLE_QUOTE_AFTER_27 (fun n => !(n =ᶜ '\'')) (emitBefore (mString ||| mName)) (by decide +kernel)
      (Or.inl (by decide +kernel)) d (by simp [ne_of_isCh (ch := '\'') hd])
  | dq =>
    exact lookClass .IN_DOUBLE_QUOTE_AFTER_22 (fun n => !(n =ᶜ '"')) (emitBefore (mString ||| mName)) (by decide +kernel)
      (Or.inl (by decide +kernel)) d (by simp [ne_of_isCh (ch := '"') hd])
  | bq => exact absurd rfl hk

theorem s_end (k : QK) (hk : k ≠ .bq) : Gen.cfgS.lookup k.pending .eof = some (emitAtEnd (mString ||| mName)) := by
  cases k with
  | sq => exact lookEnd (by decide +kernel)
  | dq => exact lookEnd (by decide +kernel)
  | bq => exact absurd rfl hk

/-- between tokens no operation asks for a retry: every cell of the WAIT row returns `True` (or raises) -/
theorem wait_no_retry (c : Char) :
    ∃ o, Gen.cfgS.lookup .WAIT (.ch c) = some o ∧ retVal (Gen.Cls.code o.cls) ≠ some false := by
  have h := cellD_all 7 .WAIT (fun o => match o with
    | some o => retVal (Gen.Cls.code o.cls) != some false
    | none => false) (by decide +kernel) c.toNat
  have hl : Gen.cfgS.lookup .WAIT (.ch c) = cellD 7 .WAIT c.toNat := agree_cfg7 .WAIT (.ch c)
  rw [← hl] at h
  cases ho : Gen.cfgS.lookup .WAIT (.ch c) with
  | none => rw [ho] at h; cases h
  | some o => rw [ho] at h; exact ⟨o, rfl, by simpa using h⟩

/-- … so feeding a character between tokens is one `handle` call -/
theorem feedWith_wait (T : List Char) (st nw : Nat) (stk : List (List Tok)) (d : Char) :
    feedWith (handle Gen.cfgS T) ⟨st, nw, .WAIT, stk⟩ d = dropFlag (handle Gen.cfgS T ⟨st, nw, .WAIT, stk⟩ (.ch d)) := by
  simp only [feedWith, dropFlag]
  cases e : handle Gen.cfgS T ⟨st, nw, .WAIT, stk⟩ (.ch d) with
  | error x => rfl
  | ok x =>
    obtain ⟨m1, b⟩ := x
    cases b with
    | true => rfl
    | false =>
      obtain ⟨o, ho, hr⟩ := wait_no_retry d
      simp only [Lex.handle, ho] at e
      exact absurd (exec_now _ _ _ _ _ _ _ _ _ e).2 hr

/-! ## a quoted region read from between tokens -/

/-- the opening quote and the payload: everything goes into the window -/
theorem open_run (k : QK) (T p : List Char) (hp : k.payload p) (n : Nat) (stk : List (List Tok)) :
    feedAllWith (handle Gen.cfgS T) (k.ch :: p) ⟨n, n, .WAIT, stk⟩ = .ok ⟨n, n + (p.length + 1), k.inside, stk⟩ := by
  have h1 := handle_addTo shipped_code (text := T) (m := ⟨n, n, .WAIT, stk⟩) (q_open k)
  rw [feedAllWith_cons_adv h1, feedAll_loop shipped_code (fun c => c ≠ k.ch ∧ (k ≠ .bq → c ≠ '\\')) (q_body k) p hp]
  show Except.ok (⟨n, n + 1 + p.length, k.inside, stk⟩ : Mem) = _
  congr 2; omega

/-- **C06.quoted_in_context**, strings.  For every text before (`pfx`), every text after (`rest`), every frame stack
`f :: fs`, and every payload: from between tokens at position `|pfx|`, reading `q p q`
(1) puts the whole region into the window and waits for one more symbol (`'a''b'` is one string);
(2) on any next character `d ≠ q` exactly ONE token `q p q` is appended to the current frame and `d` is read again
    between tokens;
(3) at the end of the text the same token is appended and the lexer finishes. -/
theorem string_in_context (k : QK) (hk : k ≠ .bq) (pfx p rest : List Char) (hp : k.payload p)
    (f : List Tok) (fs : List (List Tok)) :
    let T := pfx ++ k.wrap p ++ rest
    let n' := pfx.length + (k.wrap p).length
    feedAllWith (handle Gen.cfgS T) (k.wrap p) ⟨pfx.length, pfx.length, .WAIT, f :: fs⟩ =
      .ok ⟨pfx.length, n', k.pending, f :: fs⟩ ∧
    (∀ d : Char, d ≠ k.ch → handle Gen.cfgS T ⟨pfx.length, n', k.pending, f :: fs⟩ (.ch d) =
      .ok (⟨n', n', .WAIT, (f ++ [.single (k.wrap p) k.marks]) :: fs⟩, false)) ∧
    handle Gen.cfgS T ⟨pfx.length, n', k.pending, f :: fs⟩ .eof =
      .ok (⟨n', n', .END, (f ++ [.single (k.wrap p) k.marks]) :: fs⟩, true) := by
  intro T n'
  have hm : k.marks = (mString ||| mName) := by cases k <;> first | rfl | exact absurd rfl hk
  have hw : win T ⟨pfx.length, n', k.pending, f :: fs⟩ n' = k.wrap p := win_mid pfx (k.wrap p) rest n' _ _
  refine ⟨?_, fun d hd => ?_, ?_⟩
  · have hsplit : k.wrap p = (k.ch :: p) ++ [k.ch] := by simp [QK.wrap]
    have h2 := handle_addTo shipped_code (text := T) (m := ⟨pfx.length, pfx.length + (p.length + 1), k.inside, f :: fs⟩)
      (s_close k hk)
    rw [hsplit, feedAllWith_append_ok (open_run k T p hp _ _), feedAllWith_one, feedWith_adv h2]
    simp only [n', wrap_length]
    congr 2
  · rw [handle_emitBefore shipped_code (m := ⟨pfx.length, n', k.pending, f :: fs⟩) (s_next k hk d hd) rfl, hw, hm]
  · rw [handle_emitAtEnd shipped_code (m := ⟨pfx.length, n', k.pending, f :: fs⟩) (s_end k hk) rfl, hw, hm]

/-- **C06.quoted_in_context**, back-quoted names: reading `` `p` `` from between tokens appends exactly ONE NAME token
and returns between tokens — in any context, whatever the payload contains. -/
theorem backquote_in_context (pfx p rest : List Char) (hp : QK.bq.payload p) (f : List Tok) (fs : List (List Tok)) :
    feedAllWith (handle Gen.cfgS (pfx ++ QK.bq.wrap p ++ rest)) (QK.bq.wrap p) ⟨pfx.length, pfx.length, .WAIT, f :: fs⟩ =
      .ok ⟨pfx.length + (QK.bq.wrap p).length, pfx.length + (QK.bq.wrap p).length, .WAIT,
        (f ++ [.single (QK.bq.wrap p) Gen.mark_NAME]) :: fs⟩ := by
  have hsplit : QK.bq.wrap p = (QK.bq.ch :: p) ++ ['`'] := by simp [QK.wrap, QK.ch]
  have h2 := handle_emitWith shipped_code (text := pfx ++ QK.bq.wrap p ++ rest)
    (m := ⟨pfx.length, pfx.length + (p.length + 1), QK.bq.inside, f :: fs⟩) b_close rfl
  have hw : win (pfx ++ QK.bq.wrap p ++ rest) ⟨pfx.length, pfx.length + (p.length + 1), QK.bq.inside, f :: fs⟩
      (pfx.length + (p.length + 1) + 1) = QK.bq.wrap p := by
    have : pfx.length + (p.length + 1) + 1 = pfx.length + (QK.bq.wrap p).length := by rw [wrap_length]; omega
    rw [this]; exact win_mid pfx (QK.bq.wrap p) rest _ _ _
  conv => lhs; arg 2; rw [hsplit]
  rw [feedAllWith_append_ok (open_run .bq _ p hp _ _), feedAllWith_one, feedWith_adv h2]
  show Except.ok (⟨pfx.length + (p.length + 1) + 1, pfx.length + (p.length + 1) + 1, .WAIT,
    (f ++ [.single (win (pfx ++ QK.bq.wrap p ++ rest) ⟨pfx.length, pfx.length + (p.length + 1), QK.bq.inside, f :: fs⟩
      (pfx.length + (p.length + 1) + 1)) mName]) :: fs⟩ : Mem) = _
  rw [hw, wrap_length]
  congr 2 <;> omega

/-- **C06.quoted_in_context**, in the form of `C05.word_boundary`: after the region and one more character `d` (not the
same quote again, for strings) the lexer is where it would be had it read `d` afresh between tokens right after the
region, with the ONE token `q p q` appended to the current frame. -/
theorem quoted_in_context (k : QK) (pfx p rest : List Char) (d : Char) (hp : k.payload p) (hd : k = .bq ∨ d ≠ k.ch)
    (f : List Tok) (fs : List (List Tok)) :
    feedAllWith (handle Gen.cfgS (pfx ++ k.wrap p ++ d :: rest)) (k.wrap p ++ [d]) ⟨pfx.length, pfx.length, .WAIT, f :: fs⟩ =
      dropFlag (handle Gen.cfgS (pfx ++ k.wrap p ++ d :: rest)
        ⟨pfx.length + (k.wrap p).length, pfx.length + (k.wrap p).length, .WAIT, (f ++ [.single (k.wrap p) k.marks]) :: fs⟩
        (.ch d)) := by
  by_cases hk : k = .bq
  · subst hk
    rw [feedAllWith_append_ok (backquote_in_context pfx p (d :: rest) hp f fs), feedAllWith_one]
    exact feedWith_wait _ _ _ _ _
  · have hd' : d ≠ k.ch := by rcases hd with h | h; exact absurd h hk; exact h
    obtain ⟨h1, h2, _⟩ := string_in_context k hk pfx p (d :: rest) hp f fs
    rw [feedAllWith_append_ok h1, feedAllWith_one, feedWith_retry' (h2 d hd')]

/-- non-vacuity: a payload full of things that mean something outside quotes -/
example : QK.sq.payload "; DROP /* -- ( ] \"x\" `y` <=> SELECT 表".toList ∧ QK.bq.payload "a\\b 'c'".toList := by
  constructor <;> intro c hc <;> revert c <;> decide

/-! ## replacing the payload changes only that one leaf -/

mutual
/-- `subT x y t t'`: `t'` is `t` with leaves equal to `x` replaced by `y` (or left alone) — the least relation that
contains `(x, y)`, all pairs of equal leaves, and is a congruence for groups -/
def subT (x y : Tok) : Tok → Tok → Prop
  | .single a m, t' => t' = .single a m ∨ (x = .single a m ∧ t' = y)
  | .group k cs m, t' => ∃ ds, t' = .group k ds m ∧ subL x y cs ds
/-- the same for token lists, position by position -/
def subL (x y : Tok) : List Tok → List Tok → Prop
  | [], l' => l' = []
  | a :: as, l' => ∃ b bs, l' = b :: bs ∧ subT x y a b ∧ subL x y as bs
end

theorem subL_of_all₂ {x y : Tok} {l1 l2 : List Tok} (h : All₂ (subT x y) l1 l2) : subL x y l1 l2 := by
  induction h with
  | nil => simp [subL]
  | cons hab _ ih => exact ⟨_, _, rfl, hab, ih⟩

theorem subT_tokRel (x y : Tok) : TokRel (subT x y) :=
  ⟨fun s k => by simp [subT], fun g k cs ds h => ⟨ds, rfl, subL_of_all₂ h⟩⟩

theorem subT_swap (s s' : List Char) (k : Nat) : subT (.single s k) (.single s' k) (.single s k) (.single s' k) := by
  simp [subT]

/-- the frame stacks after the region: equal but for the one new leaf -/
theorem stack_rel (x y : Tok) (hxy : subT x y x y) (f : List Tok) (fs : List (List Tok)) :
    All₂ (All₂ (subT x y)) ((f ++ [x]) :: fs) ((f ++ [y]) :: fs) :=
  .cons (((subT_tokRel x y).reflL f).append (.cons hxy .nil)) ((subT_tokRel x y).reflS fs)

/-- **C06.payload_substitution**.  Let the lexer be between tokens after the text `a` (hypothesis `hA`, about `a` alone:
what follows `a` is irrelevant by `feedAllWith_context`).  Then for any two payloads `p`, `p'` of the quote kind `k` and
any continuation `b` (for strings: not beginning with the same quote again), the texts `a q p q b` and `a q p' q b` are
both rejected with the same error, or both accepted, and then the token trees are equal position by position except
that the leaf `q p q` is replaced by `q p' q` (same marks). -/
theorem payload_substitution (k : QK) (a b p p' : List Char) (f : List Tok) (fs : List (List Tok))
    (hA : WaitAfter Gen.cfgS a (f :: fs)) (hp : k.payload p) (hp' : k.payload p') (hb : k.follow b) :
    ERel (subL (.single (k.wrap p) k.marks) (.single (k.wrap p') k.marks))
      (lexText Gen.cfgS (a ++ k.wrap p ++ b)) (lexText Gen.cfgS (a ++ k.wrap p' ++ b)) := by
  have hR := subT_tokRel (.single (k.wrap p) k.marks) (.single (k.wrap p') k.marks)
  have hswap := subT_swap (k.wrap p) (k.wrap p') k.marks
  -- the runs up to the region
  have hA1 : feedAllWith (handle Gen.cfgS (a ++ k.wrap p ++ b)) a {} = .ok ⟨a.length, a.length, .WAIT, f :: fs⟩ := by
    rw [List.append_assoc, feedAllWith_context _ shipped_good, hA]
  have hA2 : feedAllWith (handle Gen.cfgS (a ++ k.wrap p' ++ b)) a {} = .ok ⟨a.length, a.length, .WAIT, f :: fs⟩ := by
    rw [List.append_assoc, feedAllWith_context _ shipped_good, hA]
  rw [lexText_eq_runTail, lexText_eq_runTail]
  have e1 : runTail Gen.cfgS (a ++ k.wrap p ++ b) (a ++ k.wrap p ++ b) {} =
      runTail Gen.cfgS (a ++ k.wrap p ++ b) (k.wrap p ++ b) ⟨a.length, a.length, .WAIT, f :: fs⟩ := by
    conv => lhs; arg 3; rw [List.append_assoc]
    exact runTail_append_ok hA1 _
  have e2 : runTail Gen.cfgS (a ++ k.wrap p' ++ b) (a ++ k.wrap p' ++ b) {} =
      runTail Gen.cfgS (a ++ k.wrap p' ++ b) (k.wrap p' ++ b) ⟨a.length, a.length, .WAIT, f :: fs⟩ := by
    conv => lhs; arg 3; rw [List.append_assoc]
    exact runTail_append_ok hA2 _
  rw [e1, e2]
  have hlen1 : (a ++ k.wrap p).length = a.length + (k.wrap p).length := by simp
  have hlen2 : (a ++ k.wrap p').length = a.length + (k.wrap p').length := by simp
  suffices hs : ERel (All₂ (subT (.single (k.wrap p) k.marks) (.single (k.wrap p') k.marks)))
      (runTail Gen.cfgS (a ++ k.wrap p ++ b) (k.wrap p ++ b) ⟨a.length, a.length, .WAIT, f :: fs⟩)
      (runTail Gen.cfgS (a ++ k.wrap p' ++ b) (k.wrap p' ++ b) ⟨a.length, a.length, .WAIT, f :: fs⟩) by
    revert hs
    cases runTail Gen.cfgS (a ++ k.wrap p ++ b) (k.wrap p ++ b) ⟨a.length, a.length, .WAIT, f :: fs⟩ <;>
      cases runTail Gen.cfgS (a ++ k.wrap p' ++ b) (k.wrap p' ++ b) ⟨a.length, a.length, .WAIT, f :: fs⟩ <;>
      simp only [ERel] <;> intro hs
    · exact hs
    · exact hs
    · exact hs
    · exact subL_of_all₂ hs
  by_cases hk : k = .bq
  · -- back-quote: the token is complete after the closing quote
    subst hk
    apply runTail_ctx hR Gen.cfgS (a ++ QK.bq.wrap p) (a ++ QK.bq.wrap p') b
    rw [backquote_in_context a p b hp f fs, backquote_in_context a p' b hp' f fs]
    exact ⟨rfl, stack_rel _ _ hswap f fs, 0, 0, by simp, by simp, by simp, by simp⟩
  · -- strings: the token is emitted at the next symbol
    obtain ⟨g1, g2, g3⟩ := string_in_context k hk a p b hp f fs
    obtain ⟨g1', g2', g3'⟩ := string_in_context k hk a p' b hp' f fs
    cases b with
    | nil =>
      simp only [List.append_nil] at g1 g3 g1' g3' ⊢
      rw [show k.wrap p = k.wrap p ++ [] by simp, show k.wrap p' = k.wrap p' ++ [] by simp]
      simp only [List.append_nil]
      simp only [runTail, g1, g1', g3, g3']
      exact finish_sim Gen.cfgS (a ++ k.wrap p) (a ++ k.wrap p') _ _
        ⟨rfl, stack_rel _ _ hswap f fs, 0, 0, by simp, by simp, by simp, by simp⟩
    | cons d b' =>
      have hd : d ≠ k.ch := by
        rcases hb with h | h
        · exact absurd h hk
        · intro e; exact h (by simp [e])
      have hsplit : ∀ w : List Char, w ++ d :: b' = (w ++ [d]) ++ b' := by intro w; simp
      rw [hsplit (k.wrap p), hsplit (k.wrap p')]
      apply runTail_ctx hR Gen.cfgS (a ++ k.wrap p) (a ++ k.wrap p') (d :: b')
      rw [feedAllWith_append_ok g1, feedAllWith_append_ok g1', feedAllWith_one, feedAllWith_one,
        feedWith_retry' (g2 d hd), feedWith_retry' (g2' d hd)]
      apply dropFlag_sim
      rw [← hlen1, ← hlen2]
      exact handle_sim hR Gen.cfgS (a ++ k.wrap p) (a ++ k.wrap p') (d :: b') _ _ (.ch d)
        ⟨rfl, stack_rel _ _ hswap f fs, 0, 0, by simp, by simp, by simp, by simp⟩

/-- the same for `lex` on texts the pre-pass leaves alone -/
theorem payload_substitution_lex (k : QK) (a b p p' : List Char) (f : List Tok) (fs : List (List Tok))
    (hA : WaitAfter Gen.cfgS a (f :: fs)) (hp : k.payload p) (hp' : k.payload p') (hb : k.follow b)
    (h1 : ∀ c ∈ a ++ k.wrap p ++ b, plain c = true) (h2 : ∀ c ∈ a ++ k.wrap p' ++ b, plain c = true) :
    ERel (subL (.single (k.wrap p) k.marks) (.single (k.wrap p') k.marks))
      (lex Gen.cfgS (a ++ k.wrap p ++ b)) (lex Gen.cfgS (a ++ k.wrap p' ++ b)) := by
  rw [lex_plain _ _ h1, lex_plain _ _ h2]
  exact payload_substitution k a b p p' f fs hA hp hp' hb

/-- non-vacuity: `WHERE x = '…' AND y` with a harmless and a hostile payload; the hypotheses hold (the kernel runs the
lexer on `a`), and the two results are what the theorem says -/
example : WaitAfter Gen.cfgS "WHERE (x = ".toList [[.single ['x'] 2, .single ['='] 0], [.single "WHERE".toList 0]] ∧
    QK.sq.follow ") AND y".toList ∧
    lexesTo (lex Gen.cfgS "WHERE (x = 'a') AND y".toList)
      [.single "WHERE".toList 0, .group .paren [.single ['x'] 2, .single ['='] 0, .single "'a'".toList 10] 4,
       .single "AND".toList 0, .single ['y'] 2] = true ∧
    lexesTo (lex Gen.cfgS "WHERE (x = '); -- /*') AND y".toList)
      [.single "WHERE".toList 0, .group .paren [.single ['x'] 2, .single ['='] 0, .single "'); -- /*'".toList 10] 4,
       .single "AND".toList 0, .single ['y'] 2] = true :=
  ⟨waitAfterB_sound _ _ _ (by decide +kernel), Or.inr (by decide), by decide +kernel, by decide +kernel⟩

/-! ## comments leave no trace -/

/-- `u` is a *gap*: read from between tokens — at any position of any text, with any frame stack — it is consumed
entirely, the lexer is between tokens again, and the frame stack is unchanged -/
def Gap (u : List Char) : Prop :=
  ∀ (T : List Char) (n : Nat) (stk : List (List Tok)),
    feedAllWith (handle Gen.cfgS T) u ⟨n, n, .WAIT, stk⟩ = .ok ⟨n + u.length, n + u.length, .WAIT, stk⟩

theorem gap_nil : Gap [] := fun _ _ _ => rfl

theorem gap_append {u v : List Char} (hu : Gap u) (hv : Gap v) : Gap (u ++ v) := by
  intro T n stk
  rw [feedAllWith_append_ok (hu T n stk), hv T _ stk]
  simp only [List.length_append]
  congr 2 <;> omega

theorem l_slash : Gen.cfgS.lookup .WAIT (.ch '/') = some (addTo .AFTER_2F) := look (by decide +kernel)
theorem l_star : Gen.cfgS.lookup .AFTER_2F (.ch '*') = some (addTo (blkSt false)) := look (by decide +kernel)
theorem l_dash1 : Gen.cfgS.lookup .WAIT (.ch '-') = some (addTo .AFTER_2D) := look (by decide +kernel)
theorem l_dash2 : Gen.cfgS.lookup .AFTER_2D (.ch '-') = some (addTo .IN_EXPLAIN_1) := look (by decide +kernel)
theorem l_hash : Gen.cfgS.lookup .WAIT (.ch '#') = some (addTo .IN_EXPLAIN_1) := look (by decide +kernel)

/-- **C06.comment_in_context**, block comments: `/* p */` with any body `p` that does not contain `*/` is a gap -/
theorem gap_block (p : List Char) (h : hasBlockEnd p = false) : Gap ('/' :: '*' :: (p ++ ['*', '/'])) := by
  intro T n stk
  have h1 := handle_addTo shipped_code (text := T) (m := ⟨n, n, .WAIT, stk⟩) (q := .AFTER_2F) (sym := .ch '/') l_slash
  have h2 := handle_addTo shipped_code (text := T) (m := ⟨n, n + 1, .AFTER_2F, stk⟩) (q := blkSt false) (sym := .ch '*') l_star
  obtain ⟨star', hrun⟩ := blk_run T p false h n (n + 1 + 1) stk
  have h3 := handle_addTo shipped_code (text := T) (m := ⟨n, n + 1 + 1 + p.length, blkSt star', stk⟩)
    (blk_step star' '*' (by simp))
  have hclose : Gen.cfgS.lookup (blkSt ('*' == '*')) (.ch '/') = some skipWith := look (by decide +kernel)
  have h4 := handle_skipWith shipped_code (text := T) (m := ⟨n, n + 1 + 1 + p.length + 1, blkSt ('*' == '*'), stk⟩) hclose
  rw [feedAllWith_cons_adv h1, feedAllWith_cons_adv h2, feedAllWith_append_ok hrun,
    feedAllWith_cons_adv h3, feedAllWith_cons_adv h4]
  simp only [feedAllWith, List.length_cons, List.length_append, List.length_nil]
  congr 2 <;> omega

/-- **C06.comment_in_context**, line comments: `--p⏎` and `#p⏎` with any body `p` without a line break are gaps -/
theorem gap_line (p : List Char) (hp : ∀ c ∈ p, c ≠ '\n') :
    Gap ('-' :: '-' :: (p ++ ['\n'])) ∧ Gap ('#' :: (p ++ ['\n'])) := by
  have body : ∀ c : Char, c ≠ '\n' → Gen.cfgS.lookup .IN_EXPLAIN_1 (.ch c) = some (addTo .IN_EXPLAIN_1) :=
    fun c hc => lookClass .IN_EXPLAIN_1 (fun n => !(n =ᶜ '\n')) _ (by decide +kernel) (Or.inl (by decide +kernel)) c
      (by simp [ne_of_isCh hc])
  have hnl : Gen.cfgS.lookup .IN_EXPLAIN_1 (.ch '\n') = some dropBefore := look (by decide +kernel)
  have tail : ∀ (T : List Char) (st nw : Nat) (stk : List (List Tok)),
      feedAllWith (handle Gen.cfgS T) (p ++ ['\n']) ⟨st, nw, .IN_EXPLAIN_1, stk⟩ =
        .ok ⟨nw + p.length + 1, nw + p.length + 1, .WAIT, stk⟩ := by
    intro T st nw stk
    have e1 := handle_dropBefore shipped_code (text := T) (m := ⟨st, nw + p.length, .IN_EXPLAIN_1, stk⟩) hnl
    have e2 := handle_skip shipped_code (text := T) (m := ⟨nw + p.length, nw + p.length, .WAIT, stk⟩) (sym := .ch '\n')
      wait_newline
    rw [feedAllWith_append_ok (feedAll_loop shipped_code (fun c => c ≠ '\n') body p hp st nw stk), feedAllWith_one,
      feedWith_retry e1, e2]
  constructor
  · intro T n stk
    have h1 := handle_addTo shipped_code (text := T) (m := ⟨n, n, .WAIT, stk⟩) (q := .AFTER_2D) (sym := .ch '-') l_dash1
    have h2 := handle_addTo shipped_code (text := T) (m := ⟨n, n + 1, .AFTER_2D, stk⟩) (q := .IN_EXPLAIN_1) (sym := .ch '-') l_dash2
    rw [feedAllWith_cons_adv h1, feedAllWith_cons_adv h2, tail]
    simp only [List.length_cons, List.length_append, List.length_nil]
    congr 2 <;> omega
  · intro T n stk
    have h1 := handle_addTo shipped_code (text := T) (m := ⟨n, n, .WAIT, stk⟩) (q := .IN_EXPLAIN_1) (sym := .ch '#') l_hash
    rw [feedAllWith_cons_adv h1, tail]
    simp only [List.length_cons, List.length_append, List.length_nil]
    congr 2 <;> omega

/-- the **gap lemma**: two texts that differ only in a gap read from between tokens lex identically -/
theorem gap_irrelevant (a b u1 u2 : List Char) (stk : List (List Tok)) (hA : WaitAfter Gen.cfgS a stk)
    (h1 : Gap u1) (h2 : Gap u2) : lexText Gen.cfgS (a ++ u1 ++ b) = lexText Gen.cfgS (a ++ u2 ++ b) := by
  have hA1 : feedAllWith (handle Gen.cfgS (a ++ u1 ++ b)) a {} = .ok ⟨a.length, a.length, .WAIT, stk⟩ := by
    rw [List.append_assoc, feedAllWith_context _ shipped_good]; exact hA
  have hA2 : feedAllWith (handle Gen.cfgS (a ++ u2 ++ b)) a {} = .ok ⟨a.length, a.length, .WAIT, stk⟩ := by
    rw [List.append_assoc, feedAllWith_context _ shipped_good]; exact hA
  rw [lexText_eq_runTail, lexText_eq_runTail]
  have e1 : runTail Gen.cfgS (a ++ u1 ++ b) (a ++ u1 ++ b) {} =
      runTail Gen.cfgS (a ++ u1 ++ b) (u1 ++ b) ⟨a.length, a.length, .WAIT, stk⟩ := by
    conv => lhs; arg 3; rw [List.append_assoc]
    exact runTail_append_ok hA1 _
  have e2 : runTail Gen.cfgS (a ++ u2 ++ b) (a ++ u2 ++ b) {} =
      runTail Gen.cfgS (a ++ u2 ++ b) (u2 ++ b) ⟨a.length, a.length, .WAIT, stk⟩ := by
    conv => lhs; arg 3; rw [List.append_assoc]
    exact runTail_append_ok hA2 _
  rw [e1, e2]
  apply ERel.eq_of_all₂
  apply runTail_ctx TokRel.eq Gen.cfgS (a ++ u1) (a ++ u2) b
  rw [h1, h2]
  exact ⟨rfl, TokRel.eq.reflS stk, 0, 0, by simp, by simp, by simp, by simp⟩

/-- **C06.comment_body_irrelevant**: two texts that differ only in the body of a block comment, or only in the body of
a line comment, lex identically — whatever the bodies contain (quotes, brackets, semicolons, `/*`, …). -/
theorem comment_body_irrelevant (a b p p' : List Char) (stk : List (List Tok)) (hA : WaitAfter Gen.cfgS a stk) :
    (hasBlockEnd p = false → hasBlockEnd p' = false →
      lexText Gen.cfgS (a ++ '/' :: '*' :: (p ++ ['*', '/']) ++ b) = lexText Gen.cfgS (a ++ '/' :: '*' :: (p' ++ ['*', '/']) ++ b)) ∧
    ((∀ c ∈ p, c ≠ '\n') → (∀ c ∈ p', c ≠ '\n') →
      lexText Gen.cfgS (a ++ '-' :: '-' :: (p ++ ['\n']) ++ b) = lexText Gen.cfgS (a ++ '-' :: '-' :: (p' ++ ['\n']) ++ b) ∧
      lexText Gen.cfgS (a ++ '#' :: (p ++ ['\n']) ++ b) = lexText Gen.cfgS (a ++ '#' :: (p' ++ ['\n']) ++ b)) :=
  ⟨fun h h' => gap_irrelevant a b _ _ stk hA (gap_block p h) (gap_block p' h'),
   fun h h' => ⟨gap_irrelevant a b _ _ stk hA (gap_line p h).1 (gap_line p' h').1,
                gap_irrelevant a b _ _ stk hA (gap_line p h).2 (gap_line p' h').2⟩⟩

/-- non-vacuity -/
example : WaitAfter Gen.cfgS "SELECT a ".toList [[.single "SELECT".toList 0, .single ['a'] 2]] ∧
    hasBlockEnd " x'; ( ".toList = false ∧
    lexesTo (lex Gen.cfgS "SELECT a /* x'; ( */, b".toList)
      [.single "SELECT".toList 0, .single ['a'] 2, .single [','] 0, .single ['b'] 2] = true ∧
    lexesTo (lex Gen.cfgS "SELECT a /**/, b".toList)
      [.single "SELECT".toList 0, .single ['a'] 2, .single [','] 0, .single ['b'] 2] = true :=
  ⟨waitAfterB_sound _ _ _ (by decide +kernel), by decide +kernel, by decide +kernel, by decide +kernel⟩

/-! ## the doubled-quote and backslash escapes -/

/-- the grammar of a string body between quotes `q`: a backslash takes the next character with it (whatever it is), a
quote must be doubled, anything else stands for itself -/
def strBody (q : Char) : List Char → Bool
  | [] => true
  | [c] => c != '\\' && c != q
  | c :: d :: r => if c == '\\' then strBody q r else if c == q then d == q && strBody q r else strBody q (d :: r)

def QK.escaped : QK → S | .sq => .IN_SINGLE_QUOTE_AFTER_5C | .dq => .IN_DOUBLE_QUOTE_AFTER_5C | .bq => .WAIT

theorem s_backslash (k : QK) (hk : k ≠ .bq) : Gen.cfgS.lookup k.inside (.ch '\\') = some (addTo k.escaped) := by
  cases k with
  | sq => exact look (by decide +kernel)
  | dq => exact look (by decide +kernel)
  | bq => exact absurd rfl hk

theorem s_escaped (k : QK) (hk : k ≠ .bq) (c : Char) : Gen.cfgS.lookup k.escaped (.ch c) = some (addTo k.inside) := by
  cases k with
  | sq =>
    exact lookClass .IN_SINGLE_QUOTE_AFTER_5C (fun _ => true) (addTo .IN_SINGLE_QUOTE) (by decide +kernel)
      (Or.inl (by decide +kernel)) c rfl
  | dq =>
    exact lookClass .IN_DOUBLE_QUOTE_AFTER_5C (fun _ => true) (addTo .IN_DOUBLE_QUOTE) (by decide +kernel)
      (Or.inl (by decide +kernel)) c rfl
  | bq => exact absurd rfl hk

theorem s_doubled (k : QK) (hk : k ≠ .bq) : Gen.cfgS.lookup k.pending (.ch k.ch) = some (addTo k.inside) := by
  cases k with
  | sq => exact look (by decide +kernel)
  | dq => exact look (by decide +kernel)
  | bq => exact absurd rfl hk

theorem ch_ne_backslash (k : QK) : k.ch ≠ '\\' := by cases k <;> decide

/-- a string body with escapes, read inside the string, goes into the window entirely and leaves the lexer inside -/
theorem body_run (k : QK) (hk : k ≠ .bq) (T : List Char) (st : Nat) (stk : List (List Tok)) :
    ∀ (n : Nat) (body : List Char), body.length ≤ n → strBody k.ch body = true → ∀ nw,
      feedAllWith (handle Gen.cfgS T) body ⟨st, nw, k.inside, stk⟩ = .ok ⟨st, nw + body.length, k.inside, stk⟩ := by
  intro n
  induction n with
  | zero =>
    intro body hl _ nw
    have : body = [] := List.eq_nil_of_length_eq_zero (by omega)
    subst this; rfl
  | succ n ih =>
    intro body hl hb nw
    match body, hl, hb with
    | [], _, _ => rfl
    | [c], _, hb =>
      simp only [strBody, Bool.and_eq_true, bne_iff_ne, ne_eq] at hb
      have h1 := handle_addTo shipped_code (text := T) (m := ⟨st, nw, k.inside, stk⟩)
        (q_body k c ⟨hb.2, fun _ => hb.1⟩)
      rw [feedAllWith_cons_adv h1]; rfl
    | c :: d :: r, hl, hb =>
      simp only [List.length_cons] at hl
      simp only [strBody] at hb
      by_cases hc : c = '\\'
      · subst hc
        simp only [beq_self_eq_true, if_true] at hb
        have h1 := handle_addTo shipped_code (text := T) (m := ⟨st, nw, k.inside, stk⟩) (s_backslash k hk)
        have h2 := handle_addTo shipped_code (text := T) (m := ⟨st, nw + 1, k.escaped, stk⟩) (s_escaped k hk d)
        rw [feedAllWith_cons_adv h1, feedAllWith_cons_adv h2, ih r (by omega) hb]
        simp only [List.length_cons]; congr 2; omega
      · have hc' : (c == '\\') = false := by simpa using hc
        simp only [hc', Bool.false_eq_true, if_false] at hb
        by_cases hq : c = k.ch
        · subst hq
          simp only [beq_self_eq_true, if_true, Bool.and_eq_true, beq_iff_eq] at hb
          obtain ⟨hd, hr⟩ := hb
          subst hd
          have h1 := handle_addTo shipped_code (text := T) (m := ⟨st, nw, k.inside, stk⟩) (s_close k hk)
          have h2 := handle_addTo shipped_code (text := T) (m := ⟨st, nw + 1, k.pending, stk⟩) (s_doubled k hk)
          rw [feedAllWith_cons_adv h1, feedAllWith_cons_adv h2, ih r (by omega) hr]
          simp only [List.length_cons]; congr 2; omega
        · have hq' : (c == k.ch) = false := by simpa using hq
          simp only [hq', Bool.false_eq_true, if_false] at hb
          have h1 := handle_addTo shipped_code (text := T) (m := ⟨st, nw, k.inside, stk⟩)
            (q_body k c ⟨hq, fun _ => hc⟩)
          rw [feedAllWith_cons_adv h1, ih (d :: r) (by simp only [List.length_cons]; omega) hb]
          simp only [List.length_cons]; congr 2; omega

/-- **C06.escaped_quote**: a string whose body obeys the escape grammar `strBody` (doubled quotes, backslash + any
character) read from between tokens, in any context, is ONE token: the whole region is pending after its closing
quote, and at the next character other than the quote — or at the end of the text — exactly one token with the whole
region as its source is appended. -/
theorem escaped_quote (k : QK) (hk : k ≠ .bq) (pfx body rest : List Char) (hb : strBody k.ch body = true)
    (f : List Tok) (fs : List (List Tok)) :
    let T := pfx ++ k.wrap body ++ rest
    let n' := pfx.length + (k.wrap body).length
    feedAllWith (handle Gen.cfgS T) (k.wrap body) ⟨pfx.length, pfx.length, .WAIT, f :: fs⟩ =
      .ok ⟨pfx.length, n', k.pending, f :: fs⟩ ∧
    (∀ d : Char, d ≠ k.ch → handle Gen.cfgS T ⟨pfx.length, n', k.pending, f :: fs⟩ (.ch d) =
      .ok (⟨n', n', .WAIT, (f ++ [.single (k.wrap body) k.marks]) :: fs⟩, false)) ∧
    handle Gen.cfgS T ⟨pfx.length, n', k.pending, f :: fs⟩ .eof =
      .ok (⟨n', n', .END, (f ++ [.single (k.wrap body) k.marks]) :: fs⟩, true) := by
  intro T n'
  have hm : k.marks = (mString ||| mName) := by cases k <;> first | rfl | exact absurd rfl hk
  have hw : win T ⟨pfx.length, n', k.pending, f :: fs⟩ n' = k.wrap body := win_mid pfx (k.wrap body) rest n' _ _
  refine ⟨?_, fun d hd => ?_, ?_⟩
  · have h1 := handle_addTo shipped_code (text := T) (m := ⟨pfx.length, pfx.length, .WAIT, f :: fs⟩) (q_open k)
    have h2 := handle_addTo shipped_code (text := T) (m := ⟨pfx.length, pfx.length + 1 + body.length, k.inside, f :: fs⟩)
      (s_close k hk)
    show feedAllWith (handle Gen.cfgS T) (k.ch :: (body ++ [k.ch])) _ = _
    rw [feedAllWith_cons_adv h1, feedAllWith_append_ok (body_run k hk T _ _ body.length body (Nat.le_refl _) hb _),
      feedAllWith_one, feedWith_adv h2]
    simp only [n', wrap_length]
    congr 2
    omega
  · rw [handle_emitBefore shipped_code (m := ⟨pfx.length, n', k.pending, f :: fs⟩) (s_next k hk d hd) rfl, hw, hm]
  · rw [handle_emitAtEnd shipped_code (m := ⟨pfx.length, n', k.pending, f :: fs⟩) (s_end k hk) rfl, hw, hm]

/-- the escape grammar contains the plain payloads and is closed under the two escapes, so it covers
`q p₁ q q p₂ q` and `q p₁ \ c p₂ q` for payload pieces `p₁`, `p₂` and ANY character `c` -/
theorem strBody_payload_append (k : QK) (p r : List Char) (hp : ∀ c ∈ p, c ≠ k.ch ∧ c ≠ '\\')
    (hr : strBody k.ch r = true) : strBody k.ch (p ++ r) = true := by
  induction p with
  | nil => exact hr
  | cons c p' ih =>
    have hc := hp c (by simp)
    have ih' := ih fun d hd => hp d (by simp [hd])
    cases h : p' ++ r with
    | nil => simp [strBody, hc.1, hc.2, h]
    | cons d r' =>
      rw [h] at ih'
      have h1 : (c == '\\') = false := by simpa using hc.2
      have h2 : (c == k.ch) = false := by simpa using hc.1
      simp [strBody, h, h1, h2, ih']

theorem strBody_shapes (k : QK) (p1 p2 : List Char) (c : Char) (h1 : ∀ c ∈ p1, c ≠ k.ch ∧ c ≠ '\\')
    (h2 : ∀ c ∈ p2, c ≠ k.ch ∧ c ≠ '\\') :
    strBody k.ch (p1 ++ [k.ch, k.ch] ++ p2) = true ∧ strBody k.ch (p1 ++ ['\\', c] ++ p2) = true := by
  have hp2 : strBody k.ch p2 = true := by
    have := strBody_payload_append k p2 [] h2 rfl
    simpa using this
  constructor
  · rw [List.append_assoc]
    apply strBody_payload_append k p1 _ h1
    have hq : (k.ch == '\\') = false := by simpa using ch_ne_backslash k
    cases p2 with
    | nil => simp [strBody, hq]
    | cons d r => simpa [strBody, hq] using hp2
  · rw [List.append_assoc]
    apply strBody_payload_append k p1 _ h1
    cases p2 with
    | nil => simp [strBody]
    | cons d r => simpa [strBody] using hp2

/-- non-vacuity: `'it''s'`, `'a\'b'`, `"x\\"` are single tokens; `'a'b'` is not of the grammar -/
example : strBody '\'' "it''s".toList = true ∧ strBody '\'' "a\\'b".toList = true ∧ strBody '"' "x\\\\".toList = true ∧
    strBody '\'' "a'b".toList = false ∧
    lexesTo (lex Gen.cfgS "'it''s' x".toList) [.single "'it''s'".toList 10, .single ['x'] 2] = true ∧
    lexesTo (lex Gen.cfgS "'a\\'b'".toList) [.single "'a\\'b'".toList 10] = true := by decide +kernel

end C06
