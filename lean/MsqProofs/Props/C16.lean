import MsqModel.Analyze.Lineage
import MsqModel.Analyze.LineageSpec
import MsqProofs.Props.C15
/-!
# C16 — column lineage maps each output column to exactly its base-table sources
-/
namespace C16
open Ast AN LN Spec

/-! ## the witnesses' catalogue: `t (a, b, c)`, `u (a, d)`, `s.v (x, y)` -/
def cat : Cat := [("t", mkTable none "t" ["a", "b", "c"]), ("u", mkTable none "u" ["a", "d"]), ("s.v", mkTable (some "s") "v" ["x", "y"])]

def sel (cols : List (Expr × Option String)) (fr : List FromTable) : Select :=
  .mk (some []) false cols (some fr) [] [] none none none none none none none none
def tbl (n : String) (a : Option String := none) : FromTable := .mk (.table none n) a

/-- observable outcome of the model: error kind, or (name, position, sources) per output column -/
def run (q : Query) : Except Err (List (String × Int × List (Option String × String × Option String))) :=
  match selectLineage cat (fuelFor q) q {} with
  | .error e => .error e
  | .ok (l, _) => .ok (l.allColumns.map fun (c, s) => (c.name, c.idx, s.map fun x => (x.schema, x.table, x.col)))

def isErr (e : Err) : Except Err α → Bool
  | .error x => x == e
  | .ok _ => false
def isOk [BEq α] (v : α) : Except Err α → Bool
  | .ok x => x == v
  | .error _ => false

/-! ### repaired defects: the model, synced with the repaired code, on the former witnesses -/

/-- F-C16-1 (fixed by 8d14f08): `SELECT a FROM t` — the source of a table without schema carries no schema -/
theorem fixed_1 : isOk [("a", 1, [(none, "t", some "a")])] (run (.single (sel [(.column none "a", none)] [tbl "t"]))) = true := by
  decide +kernel
/-- F-C16-2 (fixed by b2a1289): `WITH w AS (SELECT a FROM t) SELECT a FROM w` -/
theorem fixed_2 : isOk [("a", 1, [(none, "t", some "a")])] (run (.single (.mk (some [.mk "w" (.single (sel [(.column none "a", none)] [tbl "t"]))]) false
    [(.column none "a", none)] (some [tbl "w"]) [] [] none none none none none none none none))) = true := by
  decide +kernel
/-- F-C16-3 (fixed by 4d1b950): `SELECT COUNT(1) AS n FROM t` depends on the table `t` as a whole -/
theorem fixed_3 : isOk [("n", 1, [(none, "t", none)])] (run (.single (sel [(.agg "COUNT" [.literal "1"] false, some "n")] [tbl "t"]))) = true := by
  decide +kernel
/-- F-C16-4 (fixed by c4b6f51): `SELECT t.a, u.a FROM t, u` — each entry with its own position and sources -/
theorem fixed_4 : isOk [("a", 1, [(none, "t", some "a")]), ("a", 2, [(none, "u", some "a")])]
    (run (.single (sel [(.column (some "t") "a", none), (.column (some "u") "a", none)] [tbl "t", tbl "u"]))) = true := by
  decide +kernel
/-- F-C16-9 (fixed by 8a4415a): `SELECT t.zz FROM t` is an analysis error -/
theorem fixed_9 : isErr .analyzer (run (.single (sel [(.column (some "t") "zz", none)] [tbl "t"]))) = true := by
  decide +kernel
/-- F-C16-10 (fixed by 6137bf1): `SELECT zz.a FROM t` is an analysis error -/
theorem fixed_10 : isErr .analyzer (run (.single (sel [(.column (some "zz") "a", none)] [tbl "t"]))) = true := by
  decide +kernel
/-- F-C16-11 (fixed by 9d2d3e4): `SELECT CURRENT_DATE, a FROM t` — nothing flows into the variable -/
theorem fixed_11 : isOk [("CURRENT_DATE", 1, []), ("a", 2, [(none, "t", some "a")])]
    (run (.single (sel [(.column none "CURRENT_DATE", none), (.column none "a", none)] [tbl "t"]))) = true := by
  decide +kernel
/-- F-C16-13 (fixed by eca5612): `SELECT COUNT(*) AS n FROM t, u` reads every column of both tables -/
theorem fixed_13 : isOk [("n", 1, [(none, "t", some "a"), (none, "t", some "b"), (none, "t", some "c"), (none, "u", some "a"), (none, "u", some "d")])]
    (run (.single (sel [(.agg "COUNT" [.wildcard none] false, some "n")] [tbl "t", tbl "u"]))) = true := by
  decide +kernel

/-! ### open findings -/

/-- F-C16-5: `SELECT (SELECT d FROM u) AS sq, a FROM t` — nothing flows into `sq` -/
theorem witness_5 : isOk [("sq", 1, []), ("a", 2, [(none, "t", some "a")])]
    (run (.single (sel [(.subQuery (.single (sel [(.column none "d", none)] [tbl "u"])), some "sq"), (.column none "a", none)] [tbl "t"]))) = true := by
  decide +kernel
/-- F-C16-6: `SELECT x.* FROM t x` is refused: the expanded references carry the table's name, which is no alias of the level -/
theorem witness_6 : isErr .analyzer (run (.single (sel [(.wildcard (some "x"), none)] [tbl "t" (some "x")]))) = true := by
  decide +kernel
/-- F-C16-7: `SELECT b FROM t UNION SELECT a FROM u` is refused as ambiguous -/
theorem witness_7 : isErr .analyzer (run (.union (some []) (sel [(.column none "b", none)] [tbl "t"])
    [("UNION", sel [(.column none "a", none)] [tbl "u"])])) = true := by
  decide +kernel
/-- F-C16-8: `SELECT o.v1, u.d FROM (SELECT u.a AS v1 FROM (SELECT a FROM t) u) o, u` — the base table `u` is answered from the
stale entry of the inner derived table `u`, which has no column `d` -/
theorem witness_8 : isErr .analyzer (run (.single (sel [(.column (some "o") "v1", none), (.column (some "u") "d", none)]
    [.mk (.sub (.single (sel [(.column (some "u") "a", some "v1")] [.mk (.sub (.single (sel [(.column none "a", none)] [tbl "t"]))) (some "u")]))) (some "o"),
     tbl "u"]))) = true := by
  decide +kernel
/-- F-C16-12: `SELECT 1 AS one FROM (SELECT a FROM t)` raises `AttributeError` -/
theorem witness_12 : isErr (.py .AttributeError) (run (.single (sel [(.literal "1", some "one")]
    [.mk (.sub (.single (sel [(.column none "a", none)] [tbl "t"]))) none]))) = true := by
  decide +kernel

/-! non-vacuity: the model on queries that work — joins with qualified references, a derived table, `*` -/
example : isOk [("a", 1, [(none, "t", some "a")]), ("s", 2, [(none, "t", some "b"), (none, "u", some "d")])]
    (run (.single (sel [(.column (some "x") "a", none), (.compute (.column (some "x") "b") "PLUS" (.column (some "y") "d"), some "s")]
      [tbl "t" (some "x"), tbl "u" (some "y")]))) = true := by decide +kernel
example : isOk [("k", 1, [(none, "t", some "a"), (none, "t", some "b")])]
    (run (.single (sel [(.column (some "q") "k", none)]
      [.mk (.sub (.single (sel [(.compute (.column none "a") "PLUS" (.column none "b"), some "k")] [tbl "t"]))) (some "q")]))) = true := by decide +kernel
example : isOk [("x", 1, [(some "s", "v", some "x")]), ("y", 2, [(some "s", "v", some "y")])]
    (run (.single (sel [(.wildcard none, none)] [.mk (.table (some "s") "v") none]))) = true := by decide +kernel

/-! ## `lineage = Flow` on the fragment: one SELECT over base tables, qualified references, no wildcard -/

theorem dictGet_foldl_const {κ ν : Type} [DecidableEq κ] (g : κ → ν) :
    ∀ (keys : List κ) (d : List (κ × ν)) (n : κ),
      dictGet? (keys.foldl (fun m k => dictSet m k (g k)) d) n = if n ∈ keys then some (g n) else dictGet? d n
  | [], d, n => by simp
  | k :: r, d, n => by
    rw [List.foldl_cons, dictGet_foldl_const g r, C15.dictGet_dictSet]
    by_cases h1 : n ∈ r
    · simp [h1]
    · by_cases h2 : k = n
      · subst h2; simp [h1]
      · have h3 : ¬ n = k := fun h => h2 h.symm
        simp [h1, h2, h3]

theorem dictGet_map_const {κ ν : Type} [DecidableEq κ] (g : κ → ν) :
    ∀ (keys : List κ) (n : κ), dictGet? (keys.map fun k => (k, g k)) n = if n ∈ keys then some (g n) else none
  | [], n => by simp [dictGet?]
  | k :: r, n => by
    have ih := dictGet_map_const g r n
    unfold dictGet? at ih ⊢
    rw [List.map_cons, List.find?_cons]
    by_cases h2 : k = n
    · subst h2; simp
    · have h3 : ¬ n = k := fun h => h2 h.symm
      have h4 : (k == n) = false := by simpa using h2
      simp only [h4, List.mem_cons, h3, false_or]
      exact ih

/-- the name ↦ sources map of `mkLineage` is the fold of `dictSet` over the data -/
theorem mk_srcOf : ∀ (data : List (SCol × List SrcCol)) (l : Lineage),
    (mkLineage data l).srcOf = data.foldl (fun m p => dictSet m p.1.name p.2) l.srcOf
  | [], l => rfl
  | (c, s) :: r, l => by simp [mkLineage, mk_srcOf r]

/-- **output columns in order**: the name list of a lineage object is the list of the names it was built from -/
theorem mk_names : ∀ (data : List (SCol × List SrcCol)) (l : Lineage),
    (mkLineage data l).names = l.names ++ data.map (·.1.name)
  | [], l => by simp [mkLineage]
  | (c, s) :: r, l => by simp [mkLineage, mk_names r]

theorem go_names (c : CreateTable) : ∀ (ds : List DefCol) (i : Nat),
    (byCreateTable.go c ds i).map (fun p => (p.1.name, p.2)) =
      ds.map (fun d => (d.name, [(⟨c.table.schema, c.table.name, some d.name⟩ : SrcCol)]))
  | [], _ => rfl
  | d :: r, i => by simp [byCreateTable.go, go_names c r]

/-- the sources a base-table lineage answers for a column name are those of the relation the table denotes -/
theorem byCreate_srcOf (c : CreateTable) (n : String) :
    dictGet? (byCreateTable c).srcOf n = dictGet? (baseRel c) n := by
  have key : ∀ (ps : List (SCol × List SrcCol)), ps.foldl (fun m p => dictSet m p.1.name p.2) ([] : List (String × List SrcCol))
      = (ps.map (fun p => (p.1.name, p.2))).foldl (fun m p => dictSet m p.1 p.2) [] := by
    intro ps; rw [List.foldl_map]
  unfold byCreateTable
  rw [mk_srcOf]
  simp only [Lineage.empty]
  rw [key, go_names]
  simp only [baseRel]
  let g : String → List SrcCol := fun k => [⟨c.table.schema, c.table.name, some k⟩]
  have e1 : (c.columns.map fun d => (d.name, [(⟨c.table.schema, c.table.name, some d.name⟩ : SrcCol)]))
      = (c.columns.map (·.name)).map fun k => (k, g k) := by simp [g]
  rw [e1, List.foldl_map]
  have := dictGet_foldl_const g (c.columns.map (·.name)) [] n
  simp only [dictGet_map_const g]
  simpa [dictGet?] using this

/-- the column names of a base-table lineage -/
theorem byCreate_names (c : CreateTable) : (byCreateTable c).names = c.columns.map (·.name) := by
  unfold byCreateTable
  rw [mk_names]
  have := congrArg (List.map (·.1)) (go_names c c.columns 0)
  simp only [List.map_map] at this
  simpa [Lineage.empty, Function.comp_def] using this

/-- the stores of WITH tables and derived tables are empty (the fragment has neither) -/
def Inv (st : St) : Prop := st.subq = [] ∧ st.withT = []

/-- looking a base table up in the store: both stores are empty, so the catalogue answers; the stores stay empty -/
theorem getTableLineage_base (cat : Cat) (t : StdTable) (c : CreateTable) (st : St) (hs : Inv st)
    (hc : catLookup cat t = some c) : ∃ st', getTableLineage cat t st = .ok (byCreateTable c, st') ∧ Inv st' := by
  unfold catLookup at hc
  unfold getTableLineage getStatement
  simp only [hs.1, hs.2, dictGet?, List.find?]
  cases hf : cat.find? (·.1 == PM.unifyName (StdTable.source t)) with
  | none => simp [hf] at hc
  | some p =>
    obtain ⟨k, c'⟩ := p
    simp [hf] at hc
    subst hc
    refine ⟨_, rfl, ?_⟩
    unfold Inv
    split <;> simp [hs.1, hs.2]

/-- one qualified reference: the model's lookup is the specification's -/
theorem analyzeQuoteColumn_ok (cat : Cat) (tn : List (String × StdTable)) (t n : String) (hn : (n != "*") = true) (st : St) (hs : Inv st)
    (src : List SrcCol) (h : flowRef (scopeRel cat tn) ⟨some t, some n, none⟩ = some src) :
    ∃ st', analyzeQuoteColumn cat tn ⟨some t, some n, none⟩ st = .ok (src, st') ∧ Inv st' := by
  simp only [flowRef, scopeRel] at h
  cases htn : dictGet? tn t with
  | none => simp [htn] at h
  | some std =>
    simp only [htn, Option.bind_some] at h
    cases hc : catLookup cat std with
    | none => simp [hc] at h
    | some c =>
      simp only [hc, Option.map_some, Option.bind_some] at h
      obtain ⟨st', h1, h2⟩ := getTableLineage_base cat std c st hs hc
      refine ⟨st', ?_, h2⟩
      have hmem : n ∈ c.columns.map (·.name) := by
        have e : baseRel c = (c.columns.map (·.name)).map fun k => (k, [(⟨c.table.schema, c.table.name, some k⟩ : SrcCol)]) := by
          simp [baseRel]
        rw [e, dictGet_map_const] at h
        by_cases hne : n ∈ c.columns.map (·.name)
        · exact hne
        · simp [hne] at h
      have hhas : (byCreateTable c).hasColumn n = true := by
        simp only [Lineage.hasColumn, byCreate_names]
        simp [List.contains_iff_mem, hmem]
      simp only [analyzeQuoteColumn, htn, h1, bind, Except.bind, hhas, Bool.not_true, Bool.false_eq_true, if_false,
        Lineage.srcByName, hn, if_true, byCreate_srcOf, h, pure, Except.pure]

/-- the references of one output column -/
theorem analyzeQuoteColumns_ok (cat : Cat) (tn : List (String × StdTable)) :
    ∀ (qs : List QCol) (st : St), Inv st →
      (∀ r ∈ qs, r.idx = none ∧ r.name ≠ some "*") →
      ∀ src, flowRefs (scopeRel cat tn) qs = some src →
      ∃ st', analyzeQuoteColumns cat tn qs st = .ok (src, st') ∧ Inv st'
  | [], st, hs, _, src, h => by
    simp [flowRefs] at h; subst h
    exact ⟨st, by simp [analyzeQuoteColumns], hs⟩
  | r :: rest, st, hs, hq, src, h => by
    simp only [flowRefs, bind, Option.bind] at h
    cases h1 : flowRef (scopeRel cat tn) r with
    | none => simp [h1] at h
    | some a =>
      cases h2 : flowRefs (scopeRel cat tn) rest with
      | none => simp [h1, h2] at h
      | some b =>
        simp [h1, h2] at h
        subst h
        obtain ⟨t, n, ix⟩ := r
        have hr := hq ⟨t, n, ix⟩ (by simp)
        simp at hr
        obtain ⟨hix, hstar⟩ := hr
        subst hix
        cases t with
        | none => simp [flowRef] at h1
        | some t =>
          cases n with
          | none => simp [flowRef] at h1
          | some n =>
            have hn : (n != "*") = true := by simpa using hstar
            obtain ⟨st1, e1, s1⟩ := analyzeQuoteColumn_ok cat tn t n hn st hs a h1
            obtain ⟨st2, e2, s2⟩ := analyzeQuoteColumns_ok cat tn rest st1 s1 (fun x hx => hq x (by simp [hx])) b h2
            exact ⟨st2, by simp [analyzeQuoteColumns, e1, e2, bind, Except.bind, pure, Except.pure], s2⟩

theorem mapLateral_nil : ∀ qs : List QCol, mapLateral [] qs = qs
  | [] => rfl
  | c :: r => by
    have ih := mapLateral_nil r
    unfold mapLateral at ih ⊢
    rw [List.flatMap_cons, ih]
    obtain ⟨t, n, ix⟩ := c
    cases t <;> cases n <;> simp [dictGet?]

/-- what flows into each output column, given the references each one reads -/
def flowCur (scope : String → Option Rel) : List (SCol × List QCol) → Option (List (SCol × List SrcCol))
  | [] => some []
  | (c, qs) :: r => do
    let s ← flowRefs scope qs
    let b ← flowCur scope r
    pure ((c, s) :: b)

theorem sourcesLoop_ok (cat : Cat) (tn : List (String × StdTable)) :
    ∀ (cur : List (SCol × List QCol)) (st : St), Inv st →
      (∀ p ∈ cur, ∀ r ∈ p.2, r.idx = none ∧ r.name ≠ some "*") →
      ∀ data, flowCur (scopeRel cat tn) cur = some data →
      ∃ st', sourcesLoop cat tn [] cur st = .ok (data, st') ∧ Inv st' 
  | [], st, hs, _, data, h => by
    simp [flowCur] at h; subst h
    exact ⟨st, by simp [sourcesLoop], hs⟩
  | (c, qs) :: r, st, hs, hq, data, h => by
    simp only [flowCur, bind, Option.bind] at h
    cases h1 : flowRefs (scopeRel cat tn) qs with
    | none => simp [h1] at h
    | some a =>
      cases h2 : flowCur (scopeRel cat tn) r with
      | none => simp [h1, h2] at h
      | some b =>
        simp [h1, h2] at h
        subst h
        obtain ⟨st1, e1, s1⟩ := analyzeQuoteColumns_ok cat tn qs st hs (fun x hx => hq (c, qs) (by simp) x hx) a h1
        obtain ⟨st2, e2, s2⟩ := sourcesLoop_ok cat tn r st1 s1 (fun p hp => hq p (by simp [hp])) b h2
        exact ⟨st2, by simp [sourcesLoop, mapLateral_nil, e1, e2, bind, Except.bind, pure, Except.pure], s2⟩

/-- the select items of the fragment: an aliased expression, or a qualified column -/
def FragItem : Expr × Option String → Prop
  | (_, some _) => True
  | (.column (some _) _, none) => True
  | _ => False

/-- the output columns and the references each reads, numbered from `idx` -/
def curOf : List (Expr × Option String) → Nat → List (SCol × List QCol)
  | [], _ => []
  | it :: r, idx => (⟨Int.ofNat idx, (itemName it).getD ""⟩, colsE it.1) :: curOf r (idx + 1)

theorem currentLevelSingle_ok (cat : Cat) (tn : List (String × StdTable)) :
    ∀ (items : List (Expr × Option String)) (idx : Nat) (st : St), (∀ it ∈ items, FragItem it) →
      currentLevelSingle cat tn items idx st = .ok (curOf items idx, st)
  | [], idx, st, _ => by simp [currentLevelSingle, curOf]
  | (e, some a) :: r, idx, st, h => by
    have ih := currentLevelSingle_ok cat tn r (idx + 1) st (fun it hit => h it (by simp [hit]))
    simp [currentLevelSingle, curOf, C15.expr_ok e, itemName, ih, bind, Except.bind, pure, Except.pure]
  | (.column (some t) n, none) :: r, idx, st, h => by
    have ih := currentLevelSingle_ok cat tn r (idx + 1) st (fun it hit => h it (by simp [hit]))
    simp [currentLevelSingle, curOf, itemName, ih, C15.expr_ok (.column (some t) n), bind, Except.bind, pure, Except.pure, colsE, isGlobal]
  | (.column none n, none) :: r, idx, st, h => absurd (h _ List.mem_cons_self) (by simp [FragItem])
  | (.literal _, none) :: r, idx, st, h => absurd (h _ List.mem_cons_self) (by simp [FragItem])
  | (.wildcard _, none) :: r, idx, st, h => absurd (h _ List.mem_cons_self) (by simp [FragItem])
  | (.func _ _ _, none) :: r, idx, st, h => absurd (h _ List.mem_cons_self) (by simp [FragItem])
  | (.agg _ _ _, none) :: r, idx, st, h => absurd (h _ List.mem_cons_self) (by simp [FragItem])
  | (.cast _ _ _ _, none) :: r, idx, st, h => absurd (h _ List.mem_cons_self) (by simp [FragItem])
  | (.extract _ _, none) :: r, idx, st, h => absurd (h _ List.mem_cons_self) (by simp [FragItem])
  | (.window _ _ _ _, none) :: r, idx, st, h => absurd (h _ List.mem_cons_self) (by simp [FragItem])
  | (.caseCond _ _, none) :: r, idx, st, h => absurd (h _ List.mem_cons_self) (by simp [FragItem])
  | (.caseVal _ _ _, none) :: r, idx, st, h => absurd (h _ List.mem_cons_self) (by simp [FragItem])
  | (.subValue _, none) :: r, idx, st, h => absurd (h _ List.mem_cons_self) (by simp [FragItem])
  | (.subQuery _, none) :: r, idx, st, h => absurd (h _ List.mem_cons_self) (by simp [FragItem])
  | (.exists_ _, none) :: r, idx, st, h => absurd (h _ List.mem_cons_self) (by simp [FragItem])
  | (.index _ _, none) :: r, idx, st, h => absurd (h _ List.mem_cons_self) (by simp [FragItem])
  | (.unary _ _, none) :: r, idx, st, h => absurd (h _ List.mem_cons_self) (by simp [FragItem])
  | (.compute _ _ _, none) :: r, idx, st, h => absurd (h _ List.mem_cons_self) (by simp [FragItem])
  | (.kw _ _ _ _, none) :: r, idx, st, h => absurd (h _ List.mem_cons_self) (by simp [FragItem])
  | (.between _ _ _ _, none) :: r, idx, st, h => absurd (h _ List.mem_cons_self) (by simp [FragItem])
  | (.compare _ _ _, none) :: r, idx, st, h => absurd (h _ List.mem_cons_self) (by simp [FragItem])
  | (.not_ _, none) :: r, idx, st, h => absurd (h _ List.mem_cons_self) (by simp [FragItem])
  | (.and_ _ _, none) :: r, idx, st, h => absurd (h _ List.mem_cons_self) (by simp [FragItem])
  | (.xor _ _, none) :: r, idx, st, h => absurd (h _ List.mem_cons_self) (by simp [FragItem])
  | (.or_ _ _, none) :: r, idx, st, h => absurd (h _ List.mem_cons_self) (by simp [FragItem])
  | (.mybatis _, none) :: r, idx, st, h => absurd (h _ List.mem_cons_self) (by simp [FragItem])

/-- numbering the specified output columns from `idx` -/
def number : List (String × List SrcCol) → Nat → List (SCol × List SrcCol)
  | [], _ => []
  | (n, s) :: r, idx => (⟨Int.ofNat idx, n⟩, s) :: number r (idx + 1)

theorem flowCur_of_items (scope : String → Option Rel) :
    ∀ (items : List (Expr × Option String)) (idx : Nat) (out : List (String × List SrcCol)),
      flowItems scope items = some out → flowCur scope (curOf items idx) = some (number out idx)
  | [], idx, out, h => by simp [flowItems] at h; subst h; simp [curOf, flowCur, number]
  | it :: r, idx, out, h => by
    simp only [flowItems, bind, Option.bind] at h
    cases h0 : itemName it with
    | none => simp [h0] at h
    | some n =>
      cases h1 : flowRefs scope (colsE it.1) with
      | none => simp [h0, h1] at h
      | some a =>
        cases h2 : flowItems scope r with
        | none => simp [h0, h1, h2] at h
        | some b =>
          simp [h0, h1, h2] at h
          subst h
          have ih := flowCur_of_items scope r (idx + 1) b h2
          simp [curOf, flowCur, number, h0, h1, ih, bind, Option.bind]

def isBase : FromTable → Bool
  | .mk (.table _ _) _ => true
  | .mk (.sub _) _ => false

theorem subQueries_base : ∀ (fts : List FromTable) (acc : List (String × Query)),
    (∀ ft ∈ fts, isBase ft = true) → subQueries fts acc = acc
  | [], _, _ => rfl
  | .mk (.table s n) a :: r, acc, h => by
    simp [subQueries, subQueries_base r acc (fun ft hft => h ft (by simp [hft]))]
  | .mk (.sub q) a :: r, acc, h => by
    have := h (.mk (.sub q) a) (by simp)
    simp [isBase] at this

theorem curOf_mem : ∀ (items : List (Expr × Option String)) (idx : Nat) (p : SCol × List QCol),
    p ∈ curOf items idx → ∃ it ∈ items, p.2 = colsE it.1
  | [], _, p, h => by simp [curOf] at h
  | it :: r, idx, p, h => by
    simp only [curOf, List.mem_cons] at h
    rcases h with h | h
    · exact ⟨it, by simp, by rw [h]⟩
    · obtain ⟨it', h1, h2⟩ := curOf_mem r (idx + 1) p h
      exact ⟨it', by simp [h1], h2⟩

/-- **C16 on the fragment (partial).**  One SELECT without WITH tables and LATERAL VIEW whose FROM / JOIN items are base
tables, whose select items are aliased expressions or qualified columns, and whose references are all resolvable
(`flowItems … = some out`: every reference `t.c` names a table in scope that the catalogue knows and a column of it):
the lineage object the model builds is exactly the one built from the specified flow — output columns in order, numbered
from 1, each with exactly the base columns reaching it (an absent schema stays absent: F-C16-1 is fixed).
Everything outside the hypotheses is covered by the correspondence and the oracle only. -/
theorem lineage_eq_flow_partial (cat : Cat) (dist : Bool) (cols : List (Expr × Option String)) (fr : List FromTable) (js : List Join)
    (wh : Option Expr) (gb : Option GroupBy) (hv : Option Expr) (ob sb : Option (List OrderItem)) (db cb : Option (List Expr))
    (lm : Option (Int × Option Int)) (f : Nat)
    (hbase : ∀ ft ∈ fr ++ js.map (fun | .mk _ t _ => t), isBase ft = true)
    (tn : List (String × StdTable)) (htn : tableNames (fr ++ js.map (fun | .mk _ t _ => t)) [] = .ok tn)
    (hfrag : ∀ it ∈ cols, FragItem it)
    (hq : ∀ it ∈ cols, ∀ r ∈ colsE it.1, r.idx = none ∧ r.name ≠ some "*")
    (out : List (String × List SrcCol)) (hflow : flowItems (scopeRel cat tn) cols = some out) :
    ∃ st', selectLineage cat (f + 2) (.single (.mk (some []) dist cols (some fr) [] js wh gb hv ob sb db cb lm)) {}
      = .ok (mkLineage (number out 1) Lineage.empty, st') := by
  have hcur := flowCur_of_items (scopeRel cat tn) cols 1 out hflow
  obtain ⟨st', h1, _⟩ := sourcesLoop_ok cat tn (curOf cols 1) {} ⟨rfl, rfl⟩
    (fun p hp r hr => by
      obtain ⟨it, hit, e⟩ := curOf_mem cols 1 p hp
      exact hq it hit r (e ▸ hr))
    (number out 1) hcur
  refine ⟨st', ?_⟩
  have hfts : levelFromTables (.single (.mk (some []) dist cols (some fr) [] js wh gb hv ob sb db cb lm))
      = fr ++ js.map (fun | .mk _ t _ => t) := by
    simp [levelFromTables, branches, fromTablesOfSelect]
    intro a _; cases a; rfl
  simp only [selectLineage, Query.withs, withLineages, hfts, subQueries_base _ [] hbase, subQueryLineages, htn,
    lateralColumns, lateralSingle, Select.laterals, List.foldlM_nil, dictOfPairs, List.foldl_nil, currentLevel, Select.cols,
    currentLevelSingle_ok cat tn cols 1 _ hfrag, h1, bind, Except.bind, pure, Except.pure]

theorem number_names : ∀ (out : List (String × List SrcCol)) (idx : Nat), (number out idx).map (·.1.name) = out.map (·.1)
  | [], _ => rfl
  | (n, s) :: r, idx => by simp [number, number_names r]

/-- **output columns in order**: the lineage built from the specified flow lists the specified names, in order -/
theorem flow_names (out : List (String × List SrcCol)) : (mkLineage (number out 1) Lineage.empty).names = out.map (·.1) := by
  rw [mk_names, number_names]; simp [Lineage.empty]

/-! non-vacuity of the fragment theorem: `SELECT x.a, x.b + y.d AS s FROM t x JOIN u y ON x.a = y.a` satisfies every
hypothesis, and its specified flow is `a ← t.a`, `s ← t.b, u.d` -/
def exTn : List (String × StdTable) := [("x", (none, "t")), ("y", (none, "u"))]
def exCols : List (Expr × Option String) :=
  [(.column (some "x") "a", none), (.compute (.column (some "x") "b") "PLUS" (.column (some "y") "d"), some "s")]
example : tableNames ([tbl "t" (some "x")] ++ [Join.mk "JOIN" (tbl "u" (some "y")) none].map (fun | .mk _ t _ => t)) [] = .ok exTn := by
  simp [tableNames, tbl, dictSet, exTn]
example : ∀ it ∈ exCols, FragItem it := by simp [exCols, FragItem]
example : (flowItems (scopeRel cat exTn) exCols).map (fun l => l.map fun p => (p.1, p.2.map fun x => (x.schema, x.table, x.col)))
    = some [("a", [(none, "t", some "a")]), ("s", [(none, "t", some "b"), (none, "u", some "d")])] := by decide +kernel

end C16
