import MsqModel.Parse.Entry
/-!
# C03 — clauses and elements land in the right slot: slot theorems on the parser model

The oracle of C03 is the tree-first check (generated trees → print → parse → same tree, `props/c03.py`); what is *proved* here are
the slot facts that hold for every token list, without any bound:

* `limit_comma`, `limit_offset`, `limit_plain`, `limit_absent` — the two spellings of LIMIT put count and offset into the same
  slots (`LIMIT m, n` ≡ `LIMIT n OFFSET m`), whatever follows;
* `firstEnum_spec` — the keyword-phrase tables (`Gen.joinTypes`, `Gen.unionTypes`, regenerated from the live enums) are matched
  *longest phrase first*: the constant returned is the one whose words stand at the cursor, exactly those words are consumed, and
  no longer phrase of the table stands there.  The hypothesis `prefixSafe` (no phrase is listed before a phrase it is a proper
  prefix of) is a decidable obligation on the regenerated tables (`joinTypes_safe`, `unionTypes_safe`): listing `UNION` before
  `UNION ALL`, or `LEFT JOIN` before `LEFT OUTER JOIN` with a shared prefix, breaks it;
* `insert_into`, `insert_ignore_into`, `insert_overwrite` — the three INSERT kinds are told apart.
-/
namespace C03
open Lex PM

/-! ## LIMIT -/

theorem limit_absent (ts : List Tok) (h : searchStrUp ts "LIMIT" = false) : pLimit ts = .ok (none, ts) := by
  simp [pLimit, h]

theorem limit_comma (kw a c b : Tok) (rest : List Tok) (m n : Int)
    (hk : kw.srcEqUp "LIMIT" = true) (ha : asInt a.src = .ok m) (hc : c.srcEq "," = true) (hb : asInt b.src = .ok n) :
    pLimit (kw :: a :: c :: b :: rest) = .ok (some (n, some m), rest) := by
  simp [pLimit, searchStrUp, searchStr, popAsInt, hk, ha, hc, hb]

theorem limit_offset (kw a o b : Tok) (rest : List Tok) (m n : Int)
    (hk : kw.srcEqUp "LIMIT" = true) (ha : asInt a.src = .ok n) (hnc : o.srcEq "," = false) (ho : o.srcEqUp "OFFSET" = true)
    (hb : asInt b.src = .ok m) :
    pLimit (kw :: a :: o :: b :: rest) = .ok (some (n, some m), rest) := by
  simp [pLimit, searchStrUp, searchStr, popAsInt, hk, ha, hnc, ho, hb]

/-- both spellings fill the same slots -/
theorem limit_spellings_agree (kw a b c o : Tok) (rest : List Tok) (m n : Int)
    (hk : kw.srcEqUp "LIMIT" = true) (ha : asInt a.src = .ok m) (hb : asInt b.src = .ok n)
    (hc : c.srcEq "," = true) (hnc : o.srcEq "," = false) (ho : o.srcEqUp "OFFSET" = true) :
    pLimit (kw :: a :: c :: b :: rest) = pLimit (kw :: b :: o :: a :: rest) := by
  rw [limit_comma kw a c b rest m n hk ha hc hb, limit_offset kw b o a rest m n hk hb hnc ho ha]

theorem limit_plain (kw a : Tok) (rest : List Tok) (n : Int)
    (hk : kw.srcEqUp "LIMIT" = true) (ha : asInt a.src = .ok n) (h1 : searchStr rest "," = false) (h2 : searchStrUp rest "OFFSET" = false) :
    pLimit (kw :: a :: rest) = .ok (some (n, none), rest) := by
  have hl : searchStrUp (kw :: a :: rest) "LIMIT" = true := by simp [searchStrUp, hk]
  unfold pLimit
  simp [hl, popAsInt, ha, h1, h2]

/-- a count that is not an integer literal is an error, never a default -/
theorem limit_bad_count (kw a : Tok) (rest : List Tok) (e : Err)
    (hk : kw.srcEqUp "LIMIT" = true) (ha : asInt a.src = .error e) : pLimit (kw :: a :: rest) = .error e := by
  simp [pLimit, searchStrUp, popAsInt, hk, ha]

def w (s : String) (m : Nat := 2) : Tok := .single s.toList m
-- non-vacuity (evaluated, not kernel-checked: `String` operations do not reduce in the kernel): the hypotheses are met by real token lists
#guard (match pLimit [w "limit", w "10" 72, w "," 0, w "5" 72, w "x"] with
    | .ok (some (n, some m), r) => n == 5 && m == 10 && r.length == 1 | _ => false)
#guard (match pLimit [w "LIMIT", w "5" 72, w "offset", w "10" 72] with
    | .ok (some (n, some m), r) => n == 5 && m == 10 && r.length == 0 | _ => false)
#guard (w "limit").srcEqUp "LIMIT" && (w "," 0).srcEq "," && (w "offset").srcEqUp "OFFSET" && !(w "offset").srcEq ","
#guard (match asInt (w "10" 72).src with | .ok n => n == 10 | _ => false)

/-! ## keyword-phrase tables: longest phrase first -/

def shadows (a b : List String) : Bool := (a.map up).isPrefixOf (b.map up) && a.length < b.length

/-- no phrase is listed before a phrase it is a proper prefix of -/
def prefixSafe : List (String × List String) → Bool
  | [] => true
  | (_, ks) :: rest => rest.all (fun e => !shadows ks e.2) && prefixSafe rest

theorem equalsStr_up (t : Tok) (k k' : String) (h : t.equalsStr k = true) (h' : t.equalsStr k' = true) : up k = up k' := by
  cases t with
  | single s m => simp [Tok.equalsStr] at h h'; rw [← h, ← h']
  | group g cs m => simp [Tok.equalsStr] at h

theorem searchSeq_shadows (ts : List Tok) (a b : List String) (ha : searchSeq ts a = true) (hb : searchSeq ts b = true)
    (hl : a.length < b.length) : shadows a b = true := by
  induction a generalizing ts b with
  | nil => cases b with
    | nil => simp at hl
    | cons k ks => simp [shadows]
  | cons k ks ih =>
    cases b with
    | nil => simp at hl
    | cons k' ks' =>
      cases ts with
      | nil => simp [searchSeq] at ha
      | cons t tr =>
        simp [searchSeq] at ha hb
        have hu := equalsStr_up t k k' ha.1 hb.1
        have := ih tr ks' ha.2 hb.2 (by simpa using hl)
        simp [shadows] at this ⊢
        exact ⟨⟨hu, this.1⟩, by omega⟩

theorem firstEnum_spec (tbl : List (String × List String)) (ts : List Tok) (n : String) (r : List Tok)
    (hs : prefixSafe tbl = true) (h : firstEnum tbl ts = some (n, r)) :
    ∃ ks, (n, ks) ∈ tbl ∧ searchSeq ts ks = true ∧ r = ts.drop ks.length ∧
      ∀ e ∈ tbl, searchSeq ts e.2 = true → e.2.length ≤ ks.length := by
  induction tbl with
  | nil => simp [firstEnum] at h
  | cons e rest ih =>
    obtain ⟨n0, ks0⟩ := e
    simp only [prefixSafe, Bool.and_eq_true, List.all_eq_true] at hs
    unfold firstEnum at h
    by_cases hm : searchSeq ts ks0 = true
    · simp [hm] at h
      refine ⟨ks0, ?_, hm, h.2.symm, ?_⟩
      · simp [h.1]
      · intro e he hse
        rcases List.mem_cons.1 he with rfl | her
        · exact Nat.le_refl _
        · apply Nat.le_of_not_lt
          intro hlt
          have := searchSeq_shadows ts ks0 e.2 hm hse hlt
          have h2 := hs.1 e her
          simp [this] at h2
    · simp [hm] at h
      obtain ⟨ks, hmem, hsk, hr, hmax⟩ := ih hs.2 h
      refine ⟨ks, List.mem_cons_of_mem _ hmem, hsk, hr, ?_⟩
      intro e he hse
      rcases List.mem_cons.1 he with rfl | her
      · exact absurd hse hm
      · exact hmax e her hse

theorem firstEnum_none (tbl : List (String × List String)) (ts : List Tok) (h : firstEnum tbl ts = none) :
    ∀ e ∈ tbl, searchSeq ts e.2 = false := by
  induction tbl with
  | nil => simp
  | cons e rest ih =>
    obtain ⟨n0, ks0⟩ := e
    unfold firstEnum at h
    by_cases hm : searchSeq ts ks0 = true
    · simp [hm] at h
    · simp [hm] at h
      intro e he
      rcases List.mem_cons.1 he with rfl | her
      · simpa using hm
      · exact ih h e her

/-- the obligations on the regenerated tables -/
theorem joinTypes_safe : prefixSafe Gen.joinTypes = true := by decide +kernel
theorem unionTypes_safe : prefixSafe Gen.unionTypes = true := by decide +kernel
theorem joinTypes_names_distinct : (Gen.joinTypes.map (·.1)).Nodup := by decide +kernel
theorem unionTypes_names_distinct : (Gen.unionTypes.map (·.1)).Nodup := by decide +kernel

/-- every JOIN spelling is read as its own constant, longest phrase first, for every continuation -/
theorem join_type_slot (ts : List Tok) (n : String) (r : List Tok) (h : firstEnum Gen.joinTypes ts = some (n, r)) :
    ∃ ks, (n, ks) ∈ Gen.joinTypes ∧ searchSeq ts ks = true ∧ r = ts.drop ks.length ∧
      ∀ e ∈ Gen.joinTypes, searchSeq ts e.2 = true → e.2.length ≤ ks.length :=
  firstEnum_spec _ ts n r joinTypes_safe h

theorem union_type_slot (ts : List Tok) (n : String) (r : List Tok) (h : firstEnum Gen.unionTypes ts = some (n, r)) :
    ∃ ks, (n, ks) ∈ Gen.unionTypes ∧ searchSeq ts ks = true ∧ r = ts.drop ks.length ∧
      ∀ e ∈ Gen.unionTypes, searchSeq ts e.2 = true → e.2.length ≤ ks.length :=
  firstEnum_spec _ ts n r unionTypes_safe h

#guard (match firstEnum Gen.unionTypes [w "union", w "ALL", w "SELECT"] with
    | some (n, r) => n == "UNION_ALL" && r.length == 1 | none => false)
#guard (match firstEnum Gen.joinTypes [w "left", w "outer", w "join", w "t"] with
    | some (n, r) => n == "LEFT_OUTER_JOIN" && r.length == 1 | none => false)
/-- the obligation is not vacuous: the table in the wrong order is refused -/
example : prefixSafe [("UNION", ["UNION"]), ("UNION_ALL", ["UNION", "ALL"])] = false := by decide +kernel

/-! ## INSERT kinds -/

theorem insert_into (a b : Tok) (rest : List Tok) (ha : a.srcEqUp "INSERT" = true) (hb : b.srcEqUp "INTO" = true) :
    pInsertType (a :: b :: rest) = .ok ("INSERT_INTO", rest) := by
  simp [pInsertType, searchTwoUp, ha, hb]

theorem insert_ignore_into (a b c : Tok) (rest : List Tok) (ha : a.srcEqUp "INSERT" = true) (hb : b.srcEqUp "IGNORE" = true)
    (hc : c.srcEqUp "INTO" = true) : pInsertType (a :: b :: c :: rest) = .ok ("INSERT_IGNORE_INTO", rest) := by
  have hb' : b.srcEqUp "INTO" = false := by
    simp only [Tok.srcEqUp, beq_iff_eq] at hb ⊢; simp [hb]
  simp [pInsertType, searchTwoUp, searchThreeUp, ha, hb, hb', hc]

theorem insert_overwrite (a b : Tok) (rest : List Tok) (ha : a.srcEqUp "INSERT" = true) (hb : b.srcEqUp "OVERWRITE" = true) :
    pInsertType (a :: b :: rest) = .ok ("INSERT_OVERWRITE", rest) := by
  have hb' : b.srcEqUp "INTO" = false := by
    simp only [Tok.srcEqUp, beq_iff_eq] at hb ⊢; simp [hb]
  have hb'' : b.srcEqUp "IGNORE" = false := by
    simp only [Tok.srcEqUp, beq_iff_eq] at hb ⊢; simp [hb]
  cases rest with
  | nil => simp [pInsertType, searchTwoUp, searchThreeUp, ha, hb, hb']
  | cons c r => simp [pInsertType, searchTwoUp, searchThreeUp, ha, hb, hb', hb'']

end C03
