import MsqProofs.Props.C14T
import MsqProofs.Lemmas.AnalyzeText3f
/-!
# C15 / C14 on the TOKENS of the text: the clause segments are cut by the clause words, the column references are read off the tokens

`Props/C14T.lean` composed the tree theorems with `C03.tquery_text` (the printed text of a query `q` of the nested fragment `TQ.FragQ`
lexes to the token rendering `toksQ d noX q` and parses back to `q`).  Here the specified answers are characterised on those tokens:

* `C14.segments_cut` : the FROM segment and the JOIN segment of a SELECT branch are cut out of the branch's token list by the clause
  words at bracket depth 0 (`CT.cutFrom`, `CT.cutJoins`: `Lemmas/AnalyzeText3.lean`), so the FROM-only / JOIN-only variants read on the
  token list itself (`C14.variant_tokens_cut`).
* `C15.columns_are_clause_tokens` : for every top-level branch `s` and every clause `c` (select list, JOIN, WHERE, GROUP BY, HAVING,
  ORDER BY, their union), the references the specification lists for that clause BEFORE the alias / position substitution
  (`Spec.colsOf c s`) are exactly what the token scanner `CT.clauseColumnTokens c` reads off the clause's segment
  (`CT.clauseSeg c`) of the branch's token rendering: current level only (a bracket group starting with `SELECT` is never entered), a
  word in front of a bracket group is a function name, a `*` is the wildcard exactly where an operand is expected, an aggregate whose
  arguments contain no reference is ONE anonymous reference, the dialect variables are skipped, a lone integer literal in GROUP BY /
  ORDER BY is a position.
* `C15.spec_of_tokens` / `C15.columns_of_text_tokens` : the substitution step is stated as the specification states it
  (`Spec.resolve (items s)` on the scanned references for GROUP BY / HAVING / ORDER BY, nothing for the select list / JOIN / WHERE), and
  the answer of the driver's `AN columns` command on the printed TEXT is that list (hypotheses of `C15.columns_of_text`).

Fragment: `TQ.FragQ` (no restriction beyond it: aliases, function names and wildcard qualifiers may be any word the fragment allows,
including `AS`, `CROSS` and the reserved words, because the scanner decides by position), rendering without redundant brackets (`noX`:
what the printer writes) for the clause level — with a redundant bracket `GROUP BY (1)` would be read as an expression by the scanner,
as a position by the implementation (the parser drops the bracket).
-/
set_option linter.unusedVariables false
set_option linter.unusedSimpArgs false
open Lex PM Ast TP TS TQ LexLink Spec
open AN (QCol)

namespace C14

theorem fromSeg_eq (d : Gen.D) (s : Select) : fromSeg d s = CT.seg d noX 1 s := by cases s; rfl
theorem joinSeg_eq (d : Gen.D) (s : Select) : joinSeg d s = CT.seg d noX 2 s := by cases s; rfl

/-- **C14.segments_cut**: the FROM segment and the JOIN segment of the rendering of a fragment SELECT are what the cut by the clause
words at bracket depth 0 returns (`CT.cut`: FROM starts clause 1; JOIN / INNER / LEFT / RIGHT / FULL / CROSS JOIN start clause 2, ON its
sub-clause 8; WHERE, GROUP, HAVING, ORDER, LIMIT end both; the token after AS is an alias) -/
theorem segments_cut (d : Gen.D) (s : Select) (h : FragS3 d s = true) :
    CT.cutFrom (toksS3 d noX s) = fromSeg d s ∧ CT.cutJoins (toksS3 d noX s) = joinSeg d s :=
  ⟨by rw [fromSeg_eq]; exact CT.cut_toksS3 noX s h 1 (by decide) (by decide), by rw [joinSeg_eq]; exact CT.cutJoins_toksS3 noX s h⟩

/-- **the two variants on the token list itself**: for every top-level branch, the FROM-only tables are the table tokens of the FROM
segment cut out of the branch's tokens, the JOIN-only tables those of its JOIN segment -/
theorem variant_tokens_cut (d : Gen.D) (q : Query) (hq : FragQ d q = true) :
    fromTablesOf q = (branches q).flatMap (fun s => AT.tableNames (CT.cutFrom (toksS3 d noX s))) ∧
    joinTablesOf q = (branches q).flatMap (fun s => AT.tableNames (CT.cutJoins (toksS3 d noX s))) := by
  obtain ⟨h1, h2⟩ := variant_tokens d q hq
  have hb := frag_branches q hq
  have key : ∀ l : List Select, (∀ s ∈ l, FragS3 d s = true) →
      l.flatMap (fun s => AT.tableNames (fromSeg d s)) = l.flatMap (fun s => AT.tableNames (CT.cutFrom (toksS3 d noX s))) ∧
      l.flatMap (fun s => AT.tableNames (joinSeg d s)) = l.flatMap (fun s => AT.tableNames (CT.cutJoins (toksS3 d noX s))) := by
    intro l
    induction l with
    | nil => intro _; exact ⟨rfl, rfl⟩
    | cons s r ih =>
      intro h
      obtain ⟨i1, i2⟩ := ih (fun x hx => h x (by simp [hx]))
      obtain ⟨e1, e2⟩ := segments_cut d s (h s (by simp))
      simp only [List.flatMap_cons, e1, e2, i1, i2, and_self]
  obtain ⟨k1, k2⟩ := key _ hb
  exact ⟨h1.trans k1, h2.trans k2⟩

end C14

namespace C15
open AN

theorem branchesOf_eq (q : Query) : branchesOf q = branches q := by cases q <;> rfl

/-- **C15.columns_are_clause_tokens**: for every top-level branch `s` of a query of the nested fragment and every clause `c`, the raw
references of clause `c` (what the specification lists before the alias / position substitution) are what the token scanner reads off
the segment of clause `c` of the branch's token rendering -/
theorem columns_are_clause_tokens (d : Gen.D) (q : Query) (hq : FragQ d q = true) :
    ∀ s ∈ branchesOf q, ∀ c : AN.Clause, colsOf c s = CT.clauseColumnTokens c (CT.clauseSeg c (toksS3 d noX s)) := by
  intro s hs c
  rw [branchesOf_eq] at hs
  exact CT.clause_cols s (C14.frag_branches q hq s hs) c

/-- the scanned references of clause `c` of the branch `s` -/
def raw (d : Gen.D) (s : Select) (c : AN.Clause) : List QCol := CT.clauseColumnTokens c (CT.clauseSeg c (toksS3 d noX s))
/-- the specified answer for one branch, from the tokens: the substitution step as `Spec.spec` states it -/
def specOfTokens (d : Gen.D) (c : AN.Clause) (s : Select) : List QCol :=
  match c with
  | .select | .join | .where_ => raw d s c
  | .group | .having | .order => resolve (Select.cols s) (raw d s c)
  | .all => raw d s .select ++ raw d s .join ++ raw d s .where_ ++ resolve (Select.cols s) (raw d s .group)
      ++ resolve (Select.cols s) (raw d s .having) ++ resolve (Select.cols s) (raw d s .order)

theorem spec_branch_of_tokens (d : Gen.D) (s : Select) (h : FragS3 d s = true) (c : AN.Clause) : spec c s = specOfTokens d c s := by
  have e := fun c' => CT.clause_cols (d := d) s h c'
  cases c <;> simp only [spec, specOfTokens, raw, e]

/-- **C15.spec_of_tokens**: the specified per-clause answer of a fragment query is, branch by branch, the scanned references of the
clause's token segment with the alias / position substitution of the specification applied (GROUP BY, HAVING, ORDER BY) -/
theorem spec_of_tokens (d : Gen.D) (q : Query) (hq : FragQ d q = true) (c : AN.Clause) :
    specQuery c q = (branchesOf q).flatMap (specOfTokens d c) := by
  have hb := C14.frag_branches q hq
  have key : ∀ l : List Select, (∀ s ∈ l, FragS3 d s = true) → l.flatMap (spec c) = l.flatMap (specOfTokens d c) := by
    intro l
    induction l with
    | nil => intro _; rfl
    | cons s r ih =>
      intro h
      simp only [List.flatMap_cons, ih (fun x hx => h x (by simp [hx])), spec_branch_of_tokens d s (h s (by simp)) c]
  cases q with
  | single s =>
    simp only [specQuery, branchesOf, List.flatMap_cons, List.flatMap_nil, List.append_nil]
    exact spec_branch_of_tokens d s (hb s (by simp [branches])) c
  | union ws s us =>
    have := key (s :: us.map (·.2)) (fun x hx => hb x (by simpa [branches] using hx))
    simp only [specQuery, branchesOf]
    simp only [List.flatMap_cons, List.flatMap_map] at this ⊢
    exact this

/-- **C15.columns_of_text_tokens**: for a query of the nested fragment, on the TEXT the printer writes: the text lexes to the token
rendering `toksQ d noX q`, `parse_statements(text)[0]` is the query, and the per-clause column analysis of the parsed text (the driver's
`AN columns <clause>` call) returns, branch by branch, what the token scanner reads off the clause's segment of the branch's tokens,
aliases and positions substituted as the specification says.  `Good c s`: the hypotheses of the tree theorem (for the select list, JOIN
and WHERE: no clash with a select alias, finding F-C15-1). -/
theorem columns_of_text_tokens (d : Gen.D) (q : Query) (hq : FragQ d q = true) (hl : LeafQ d q)
    (hpre : dialectPre d (prQL d q) = prQL d q) (c : AN.Clause) (hg : ∀ s ∈ branchesOf q, Good c s) :
    ∃ (str : String), PR.prQ d q = .ok str ∧ Lex.lex Gen.cfgS (dialectPre d str.toList) = .ok (toksQ d noX q) ∧
      Drv.firstStmt d str.toList = .ok (.select q) ∧
      (Drv.firstStmt d str.toList >>= currentColsStmt c) = .ok ((branchesOf q).flatMap (specOfTokens d c)) ∧
      ∀ kind, kind ≠ "hash" → AN.Clause.ofName? kind = some c →
        Drv.anColumns kind d str.toList = Drv.showAn (.ok (((branchesOf q).flatMap (specOfTokens d c)).map QCol.toVal)) := by
  obtain ⟨str, ts, h1, h2, h3, _, _, h6⟩ := C03.tquery_text d q hq hl hpre
  obtain ⟨str', h1', hf, hc, hk⟩ := columns_of_text d q hq hl hpre c hg
  have : str' = str := by rw [h1] at h1'; injection h1' with e; exact e.symm
  subst this
  rw [← spec_of_tokens d q hq c]
  exact ⟨str', h1, by rw [← h3]; exact h2, hf, hc, hk⟩

end C15

/-! ## non-vacuity -/
namespace C15T
open C03 (q1 q2 q3 q4 q5 q6 qx leafQ_of_B leafQB col lit tb qcol)
open C14T (lexOf nested)

/-- `SELECT b AS a, c, COUNT(1), t.*, f(c) * 2 FROM t AS cross LEFT JOIN u ON t.k = u.k AND u.z IN (1, y) CROSS JOIN (SELECT q FROM w) AS v
WHERE c > (SELECT max(z) FROM t7) AND current_date IS NOT NULL GROUP BY 1, c HAVING COUNT(1) > 2 AND SUM(c) < 9 ORDER BY a DESC, 2, c + 1` -/
def sample : Select :=
  .mk (some []) false
    [(col "b", some "a"), (col "c", none), (.agg "COUNT" [lit "1"] false, none), (.wildcard (some "t"), none),
     (.compute (.func none "f" [col "c"]) "MULTIPLE" (lit "2"), none)]
    (some [.mk (.table none "t") (some "cross")]) []
    [.mk "LEFT_JOIN" (.mk (.table none "u") none)
       (some (.on (.and_ (.compare "EQ" (qcol "t" "k") (qcol "u" "k")) (.kw .in_ false (qcol "u" "z") (.subValue [lit "1", col "y"]))))),
     .mk "CROSS_JOIN" (.mk (.sub (.single (C03.sel [(col "q", none)] (some [tb "w"])))) (some "v")) none]
    (some (.and_ (.compare "GT" (col "c") (.subQuery (.single (C03.sel [(.agg "max" [col "z"] false, none)] (some [tb "t7"])))))
      (.kw .is true (col "current_date") (lit "NULL"))))
    (some (.mk [lit "1", col "c"] none false false))
    (some (.and_ (.compare "GT" (.agg "COUNT" [lit "1"] false) (lit "2")) (.compare "LT" (.agg "SUM" [col "c"] false) (lit "9"))))
    (some [.mk (col "a") true false false, .mk (lit "2") false false false, .mk (.compute (col "c") "PLUS" (lit "1")) false false false])
    none none none none
def sampleQ : Query := .single sample

def clauses : List (String × AN.Clause) :=
  [("select", .select), ("join", .join), ("where", .where_), ("group", .group), ("having", .having), ("order", .order), ("all", .all)]

-- tests (compiled evaluation): the sample is in the fragment, its leaves are lexable
#guard [Gen.D.MYSQL, .HIVE, .ORACLE].all fun d => FragQ d sampleQ && leafQB d sampleQ
-- what the scanner reads off the LEXED printed text, clause by clause (before the substitution)
#guard (match PR.prQ .MYSQL sampleQ with
  | .ok str => clauses.map (fun (_, c) => (CT.branchColumnTokens c (lexOf .MYSQL str)).map fun r => (r.table, r.name, r.idx)) ==
      [ [(none, some "b", none), (none, some "c", none), (none, none, none), (some "t", some "*", none), (none, some "c", none)],
        [(some "t", some "k", none), (some "u", some "k", none), (some "u", some "z", none), (none, some "y", none)],
        [(none, some "c", none)],
        [(none, none, some 1), (none, some "c", none)],
        [(none, none, none), (none, some "c", none)],
        [(none, some "a", none), (none, none, some 2), (none, some "c", none)],
        [(none, some "b", none), (none, some "c", none), (none, none, none), (some "t", some "*", none), (none, some "c", none),
         (some "t", some "k", none), (some "u", some "k", none), (some "u", some "z", none), (none, some "y", none), (none, some "c", none),
         (none, none, some 1), (none, some "c", none), (none, none, none), (none, some "c", none),
         (none, some "a", none), (none, none, some 2), (none, some "c", none)] ]
  | _ => false)
-- the driver command `AN columns` on the printed text answers with the token-level specification, every clause, three dialects;
-- the sample queries of C03 (sub-queries in every position, set operations) likewise
#guard [sampleQ, q1, q2, q3, q4, q5, q6, qx, nested].all fun q => [Gen.D.MYSQL, .HIVE, .ORACLE].all fun d =>
  (!FragQ d q) || (match PR.prQ d q with
    | .ok str => clauses.all fun (k, c) =>
        Drv.anColumns k d str.toList == Drv.showAn (.ok (((C15.branchesOf q).flatMap (C15.specOfTokens d c)).map QCol.toVal)) &&
        (C15.branchesOf q).all (fun s => colsOf c s == CT.branchColumnTokens c (toksS3 d noX s))
    | _ => false)
-- … and the cut of the LEXED text of each single-branch sample returns the printer's segments
#guard [sampleQ, q1, q2, q4, q6, qx, nested].all fun q => [Gen.D.MYSQL, .HIVE].all fun d =>
  match q, PR.prQ d q with
  | .single s, .ok str => (CT.cutFrom (lexOf d str)).map Tok.source == (C14.fromSeg d s).map Tok.source &&
      (CT.cutJoins (lexOf d str)).map Tok.source == (C14.joinSeg d s).map Tok.source
  | _, _ => false
#guard Drv.anColumns "order" .MYSQL (prQL .MYSQL sampleQ) ==
  "OK L[QuoteColumn{table_name=None,column_name=\"b\",column_idx=None},QuoteColumn{table_name=None,column_name=\"c\",column_idx=None},QuoteColumn{table_name=None,column_name=\"c\",column_idx=None}]"

/-- the scanner on a HAND-WRITTEN text (bare names, aliases without …, a function called `cross`, `AS cross`, wildcards next to
multiplications, COUNT(1) / COUNT(*), a dialect variable, positions with ASC / DESC): what it reads, with the substitution the
implementation applies in every clause, is what the model of the analyzer reports -/
def viaTokens (c : AN.Clause) (d : Gen.D) (text : String) : String :=
  match Drv.firstStmt d text.toList with
  | .ok (.select (.single s)) => Drv.showAn (.ok ((resolve (AN.Select.cols s) (CT.branchColumnTokens c (lexOf d text))).map QCol.toVal))
  | _ => "?"
def handTexts : List String := [
  "SELECT a, t.b, f(c, d) AS x, COUNT(1), COUNT(*), t.*, *, a * b, `s`.g(h), MAX(DISTINCT i + 1), cross(j) FROM t1 AS cross JOIN u ON t1.k = u.k AND u.z IN (1, y) LEFT OUTER JOIN (SELECT q FROM w) AS v ON v.q = t1.q CROSS JOIN z WHERE a > (SELECT max(zz) FROM t7) AND CASE WHEN b = 1 THEN c ELSE d END IS NOT NULL AND e BETWEEN 1 AND f GROUP BY 1, a + 2, g HAVING COUNT(1) > 2 AND SUM(h) < CURRENT_DATE ORDER BY 2 DESC, i, x ASC, 3 LIMIT 10",
  "SELECT CURRENT_DATE, current_timestamp, t.current_date, - a * - b, (a + b) * (c), NOT EXISTS (SELECT 1 FROM t) FROM t",
  "SELECT 1 * 2, 'x', TRUE, NULL, a.b * c.d, CASE x WHEN 1 THEN * END FROM t WHERE a IN (SELECT b FROM u) OR b IN (1, c) ORDER BY 1 + 1"]
#guard handTexts.all fun t => clauses.all fun (k, c) => viaTokens c .MYSQL t == Drv.anColumns k .MYSQL t.toList
#guard (CT.branchColumnTokens .select (lexOf .MYSQL "SELECT a * b, *, t.*, COUNT(1), COUNT(*), f(x), CURRENT_DATE FROM t")).map
    (fun r => (r.table, r.name)) =
  [(none, some "a"), (none, some "b"), (none, some "*"), (some "t", some "*"), (none, none), (none, some "*"), (none, some "x")]
-- outside the rendering without redundant brackets: a bracketed position is an expression for the scanner, a position for the
-- implementation (the parser drops the bracket) — an observation, see the final report of this development
#guard viaTokens .order .MYSQL "SELECT a FROM t ORDER BY (1)" == "OK L[]" &&
  Drv.anColumns "order" .MYSQL "SELECT a FROM t ORDER BY (1)".toList == "OK L[QuoteColumn{table_name=None,column_name=\"a\",column_idx=None}]"

-- instances of the theorems, every hypothesis decided by the kernel
example : CT.cutFrom (toksS3 .MYSQL noX sample) = C14.fromSeg .MYSQL sample ∧ CT.cutJoins (toksS3 .MYSQL noX sample) = C14.joinSeg .MYSQL sample :=
  C14.segments_cut .MYSQL sample (by decide +kernel)
example : ∀ c : AN.Clause, colsOf c sample = CT.clauseColumnTokens c (CT.clauseSeg c (toksS3 .MYSQL noX sample)) :=
  C15.columns_are_clause_tokens .MYSQL sampleQ (by decide +kernel) sample (by simp [C15.branchesOf, sampleQ])
example : specQuery .order sampleQ = (C15.branchesOf sampleQ).flatMap (C15.specOfTokens .MYSQL .order) :=
  C15.spec_of_tokens .MYSQL sampleQ (by decide +kernel) .order
/-- the scanner itself in the kernel: the JOIN segment of the sample, cut out of the rendering and scanned -/
example : (CT.clauseColumnTokens .join (CT.cutJoins (toksS3 .MYSQL noX sample))).map (fun r => (r.table, r.name)) =
    [(some "t", some "k"), (some "u", some "k"), (some "u", some "z"), (none, some "y")] := by decide +kernel
example : (CT.cutFrom (toksS3 .MYSQL noX sample)).map Tok.source = ["FROM".toList, "`t`".toList, "AS".toList, "cross".toList] := by
  decide +kernel
set_option maxRecDepth 100000 in
example : ∃ (str : String), PR.prQ .MYSQL q1 = .ok str ∧ Lex.lex Gen.cfgS (dialectPre .MYSQL str.toList) = .ok (toksQ .MYSQL noX q1) ∧
    Drv.firstStmt .MYSQL str.toList = .ok (.select q1) ∧
    (Drv.firstStmt .MYSQL str.toList >>= AN.currentColsStmt .having) = .ok ((C15.branchesOf q1).flatMap (C15.specOfTokens .MYSQL .having)) ∧
    ∀ kind, kind ≠ "hash" → AN.Clause.ofName? kind = some .having →
      Drv.anColumns kind .MYSQL str.toList =
        Drv.showAn (.ok (((C15.branchesOf q1).flatMap (C15.specOfTokens .MYSQL .having)).map QCol.toVal)) :=
  C15.columns_of_text_tokens .MYSQL q1 (by decide) (leafQ_of_B _ _ (by decide +kernel)) (C01.dialectPre_id _ (by decide) (by decide) _) .having
    (fun _ _ => trivial)

end C15T
