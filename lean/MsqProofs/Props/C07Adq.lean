import MsqProofs.Lemmas.ParseAdqStmt
import MsqProofs.Props.C07
/-!
# C07 / C19 — fuel adequacy: the recursion of the parser terminates on every token list

The parser model is fuel-indexed (`.error .fuel` = budget exhausted); the public entry points give it
`PM.fuelFor ts = 20 * sizeL ts + 40`.  Proved here, for the MODEL, for every dialect and every token list / text:

* `fuel_adequate` — `parse_statements` never answers `.fuel` with the shipped budget;
* `entries_fuel_adequate` — the same for every entry of `PM.entries` (all 58 public `parse_*` methods);
* `fuel_adequate_block` — function by function for the 80-function expression / SELECT block: `rank_f + adqWL cursor ≤ fuel` is
  enough (`PM.AdqF`, one field per function, with its rank); `fuel_adequate_weight` — 20 + weight suffices for every entry point;
* `text_never_fuel`, `statements_outcomes`, `entry_outcomes`, `text_in_family_no_fuel` — text level: the fuel marker disappears from
  `C07.statements_error_kinds` / `entry_error_kinds` / `text_in_family`: the outcome is a tree, `LexicalParseError`, `SqlParseError`,
  or a named exit from the modelled fragment.  (With `C07.fuel_mono_*`: a tree returned with the shipped budget is the tree
  returned with every larger budget.)

Read as a statement about the recursion: the fuel a run needs is the depth of its call chain (every call and every loop
iteration of the model costs one unit), so the depth of the recursion of the parser on `ts` is at most `20 * sizeL ts + 40` — linear
in the input (C19), and in particular the recursion TERMINATES (C07).

Measure (`MsqProofs/Lemmas/ParseAdq0.lean`): `adqWL` — a word weighs 19, a bracket group 19 + its number of children + their weight;
`adqWL ts + ts.length ≤ 20 * sizeL ts`.  Ranks (`tools/gen_adequate.py --ranks`): computed from the call graph restricted to calls
that may be on the unchanged cursor; longest chain 15 (`pSelectCol / pFirstArg → pOr → pXor → pAnd → pNot → pCompare → pKeyword →
pKwFirst → pCompute → pUnary → pElement → pNamed → pWindow/pQualified → pFuncIdx → pFunc`); NO cycle of non-consuming calls exists.
The loops: every iteration of every loop loses a token of the cursor it iterates on (for `pJoins` / `pLaterals`, whose look-ahead
may be on the OTHER cursor of `_parse_single_select_statement`, because `pJoin` / `pLateral` strictly consume; for the attribute
loop of a column definition because `GENERATED ALWAYS AS (…)` does — the loop that did not terminate before its repair); the private
loop counters of the statement level (`ts.length + 1`) are adequate for the same reason.
-/
namespace C07
open Lex PM

/-- the 80-function block, function by function (field `f` of `AdqF d n`: `rank_f + weight of the cursor ≤ n → f d n … ≠ .error .fuel`) -/
theorem fuel_adequate_block (d : Gen.D) (n : Nat) : AdqF d n := adqF_all d n

/-- `20 + weight of the token list` is enough for every entry point -/
theorem fuel_adequate_weight (name : String) (p : Entry) (hp : (name, p) ∈ entries) (d : Gen.D) (f : Nat) (ts : List Tok)
    (hf : 20 + adqWL ts ≤ f) : p d f ts ≠ .error .fuel := entries_adq _ hp d f ts hf

/-- **C07.fuel_adequate**: `parse_statements` on tokens never runs out of the shipped budget -/
theorem fuel_adequate (d : Gen.D) (ts : List Tok) : pStatements d (fuelFor ts) ts ≠ .error .fuel :=
  pStatements_adq d _ ts (by have := adqWL_fuelFor ts; omega)

/-- **C07.entries_fuel_adequate**: no public entry point runs out of the shipped budget, on any token list -/
theorem entries_fuel_adequate (name : String) (p : Entry) (hp : (name, p) ∈ entries) (d : Gen.D) (ts : List Tok) :
    p d (fuelFor ts) ts ≠ .error .fuel :=
  entries_adq _ hp d _ ts (by have := adqWL_fuelFor ts; omega)

/-- … nor with any larger budget -/
theorem entries_fuel_adequate_ge (name : String) (p : Entry) (hp : (name, p) ∈ entries) (d : Gen.D) (ts : List Tok) (f : Nat)
    (hf : fuelFor ts ≤ f) : p d f ts ≠ .error .fuel :=
  entries_adq _ hp d _ ts (by have := adqWL_fuelFor ts; omega)

/-- the depth of the recursion is linear in the input: the bound in the size measure of the token tree -/
theorem recursion_depth_linear (name : String) (p : Entry) (hp : (name, p) ∈ entries) (d : Gen.D) (ts : List Tok) (f : Nat)
    (hf : 20 * sizeL ts + 20 ≤ f) : p d f ts ≠ .error .fuel :=
  entries_adq _ hp d _ ts (by have := adqWL_le ts; omega)

/-! ## text level -/

/-- **C07.text_never_fuel**: `parse_statements(text)` and every `parse_<entry>(text)` of the model never answer FUEL -/
theorem text_never_fuel (d : Gen.D) (text : List Char) :
    parseStatementsText d text ≠ .error .fuel ∧ ∀ entry, parseText entry d text ≠ .error .fuel := by
  constructor
  · intro h
    unfold parseStatementsText at h
    split at h
    · rename_i e he; cases h
      have := lex_error_lexical Oblig.noPyOK_shipped _ _ he; cases this
    · exact fuel_adequate d _ h
  · intro entry h
    unfold parseText at h
    split at h
    · cases h
    · rename_i name p hf
      have hmem := List.mem_of_find?_eq_some hf
      split at h
      · rename_i e he; cases h
        have := lex_error_lexical Oblig.noPyOK_shipped _ _ he; cases this
      · rename_i ts _
        split at h
        · cases h
        · rename_i e he; cases h
          exact entries_fuel_adequate name p hmem d ts he

/-- the error kinds of `parse_statements(text)`, final form: lexical error, parse error, or a named exit from the model -/
theorem statements_outcomes (d : Gen.D) (text : List Char) (x : Err) (h : parseStatementsText d text = .error x) :
    x = .lexical ∨ x = .parse ∨ ∃ w, x = .unmodelled w := by
  rcases statements_error_kinds d text x h with h1 | h1 | h1 | h1
  · exact .inl h1
  · exact .inr (.inl h1)
  · subst h1; exact absurd h (text_never_fuel d text).1
  · exact .inr (.inr h1)
theorem entry_outcomes (entry : String) (d : Gen.D) (text : List Char) (x : Err) (h : parseText entry d text = .error x) :
    x = .lexical ∨ x = .parse ∨ ∃ w, x = .unmodelled w := by
  rcases entry_error_kinds entry d text x h with h1 | h1 | h1 | h1
  · exact .inl h1
  · exact .inr (.inl h1)
  · subst h1; exact absurd h ((text_never_fuel d text).2 entry)
  · exact .inr (.inr h1)

/-- `C07.text_in_family` without the fuel marker: a tree, a member of the library's error family, or `unmodelled` -/
theorem text_in_family_no_fuel (d : Gen.D) (text : List Char) :
    (match parseStatementsText d text with
     | .ok _ => True
     | .error x => x.inFamily = true ∨ ∃ w, x = .unmodelled w) := by
  split
  · trivial
  · rename_i x h
    rcases statements_outcomes d text x h with rfl | rfl | ⟨w, rfl⟩
    · exact .inl rfl
    · exact .inl rfl
    · exact .inr ⟨w, rfl⟩

/-! ## non-vacuity and sanity (compiled evaluation) -/
def lexed (s : String) : List Tok := match lex Gen.cfgS s.toList with | .ok ts => ts | .error _ => []
def rep (n : Nat) (s : String) : String := String.join (List.replicate n s)
def isFuel {α : Type} : Except Err α → Bool | .error .fuel => true | _ => false
def isOk {α : Type} : Except Err α → Bool | .ok _ => true | _ => false

-- the model CAN say FUEL: a deliberately tiny budget does
#guard isFuel (pOr .MYSQL 3 (lexed "a + b"))
#guard isFuel (pStatements .MYSQL 10 (lexed "SELECT a FROM t"))
-- … and the shipped budget does not: brackets nested 200 deep, 200 chained operators, 200 statements, nested IN lists, CASE chains
#guard isOk (parseText "logical_or_level_expression" .MYSQL (rep 200 "(" ++ "a + 1" ++ rep 200 ")").toList)
#guard isOk (parseText "logical_or_level_expression" .MYSQL ("a" ++ rep 200 " + a").toList)
#guard isOk (parseText "logical_or_level_expression" .MYSQL ("a" ++ rep 200 " OR a AND NOT a = b").toList)
#guard isOk (parseStatementsText .MYSQL (rep 200 "SELECT a FROM t WHERE b = c;").toList)
#guard isOk (parseStatementsText .MYSQL ("SELECT " ++ rep 100 "f(" ++ "a" ++ rep 100 ")" ++ " FROM t").toList)
#guard isOk (parseStatementsText .MYSQL ("SELECT a FROM t WHERE " ++ rep 60 "a IN (b, (" ++ "c" ++ rep 60 "))").toList)
#guard !isFuel (parseStatementsText .MYSQL ("SELECT a FROM t WHERE " ++ rep 60 "a IN (b, " ++ "c" ++ rep 60 ")").toList)
#guard isOk (parseStatementsText .MYSQL ("SELECT * FROM " ++ rep 50 "(SELECT * FROM " ++ "t" ++ rep 50 ") q").toList)
#guard !isFuel (parseStatementsText .MYSQL (rep 200 "(").toList)
#guard !isFuel (parseStatementsText .MYSQL ("SELECT " ++ rep 300 "CASE WHEN a THEN ").toList)
#guard !isFuel (parseStatementsText .MYSQL ("CREATE TABLE t (a int" ++ rep 200 " NOT NULL COMMENT 'x'" ++ ")").toList)

end C07
