import MsqProofs.Lemmas.ParseAccountTexts
import MsqModel.Parse.Entry
/-!
# C08 — nothing accepted is silently ignored (parser half, token level)

Three layers, each for the parser MODEL (`MsqModel/Parse/*.lean`), each function by function, unbounded (induction on the fuel):

1. `consumes_prefix` — every function whose result carries a cursor returns a REST of the cursor it was given:
   `f … ts = ok (v, r) → ∃ used, ts = used ++ r`.  The parser never skips, reorders, duplicates or invents a token.
   All 74 cursor-returning functions of the 80-function mutual block (`PM.ConsF`, `PM.consF_all`; plain forms `PM.<f>_consumes` in
   `MsqProofs/Lemmas/ParseAccount.lean`), all 53 functions of the statement level (`PM.cons_<f>`, `PM.<f>_consumes` in
   `ParseAccountStmt.lean`), the cursor primitives and helpers by hand (`ParseAccount0.lean`).  Generated: `tools/gen_account.py`.
   The two-cursor functions are stated for the cursor the rest belongs to (`pJoins` / `pLaterals` / `pSelectBody` / `pSelectRest`: the
   inner one; `pSingleParen`: the outer one).  `statements_covered`: the loop of `parse_statements` returns only at the end of the
   list, its input is cut into the consumed prefixes of its statements and the `;` between them.
2. `children_closed` — every function that opens a child cursor (`t.children`, `headChildren`, `popSplit`, `splitBy`) succeeds only
   if every sub-call on that child cursor returned `(_, [])`, or every comma-separated segment did (`Each2 … segments results`)
   (`MsqProofs/Lemmas/ParseAccountClosed.lean`, one inversion lemma per function: 24 of the mutual block and its helpers, 13 of the
   statement level).  NO function of the model leaves a child cursor unchecked.  What the lemmas make visible instead:
   * where the model takes `g.children` WITHOUT testing that `g` is a bracket group, the token `g` is bound with no `g.has PAREN`
     conjunct: a WORD standing there is consumed as an empty group and dropped — class F-C08-6 of `known_findings.json`, at more
     sites than the one registered there (all confirmed on the code): `a IN b`, `f(x) OVER w`, `GROUPING SETS x`, `JOIN u USING x`,
     `LATERAL VIEW explode x v AS c`, `CREATE TABLE t x`, `PRIMARY KEY x`, `FOREIGN KEY x REFERENCES t y`, `TBLPROPERTIES x`,
     `PARTITIONED BY x`, `PARTITION x`;
   * `splitBy_flatten` / `splitBy_nonempty`: splitting at commas loses the commas only, but EMPTY segments vanish —
     `IN (1,,2)`, `VALUES (1,,2)`, `GROUPING SETS ((a,,b))` are accepted as if the second comma were not there (no identifier or
     literal is lost, so this is outside the accounting clause of C08; the code does the same, `scanner.py:223-236`);
   * `closed_pSingleParen`: the bracket loop of `_parse_single_select_statement` pops the NEXT token of the outer cursor instead of
     descending; because `close()` is then called on every cursor it opened, a run that entered the loop never succeeds
     (`((SELECT 1))` is a parse error in model and code), a run that did not has parsed the whole group.
3. `stored_or_keyword` — the accounting theorem for the PLAIN fragment of the expression grammar (`PM.Plain`: columns, literals,
   wildcards, array indexing, unary / binary compute operators, comparisons, `IS` / `LIKE` / `RLIKE` / `REGEXP` / `BETWEEN`,
   `NOT` / `AND` / `XOR` / `OR`, both forms of `CASE`, bracketed sub-expressions, at any nesting):
   `pOr d n ts = ok (v, r) → Plain v → ∃ used, ts = used ++ r ∧ ∀ t ∈ used, Acc (tE v) t` where `tE v` is EVERY string stored in the
   tree (`Val.texts (Expr.toVal v)`: what the canonical dump shows) and `Acc T t` says: `t.src ∈ T`, or `unifyName t.src ∈ T`, or the
   (upper-cased) source is one of the 51 entries of the fixed word list `PM.KW`, or `t` is a bracket group whose children are all
   accounted for.  Proved for all 38 functions of the expression grammar at once (`PM.AccF`, `PM.accF_all`), with accumulators
   (`T ⊇ texts of what the function was handed`); the functions that build function calls, windows, `IN`, `EXISTS` and sub-queries
   are proved never to return a plain tree (`NotPlain`), so they need no accounting statement.
   Why those are NOT in the fragment (what is missing): their accounting statements are FALSE without hypotheses on the token list —
   * F-C08-6 class: `a IN b`, `f(x) OVER w` (a word where the bracket is expected is dropped);
   * found by stating this theorem, confirmed on the code, since REPAIRED in code and model (`/repo` 3f05ecd): the schema qualifier
     of `CAST` / `EXTRACT` / `IF` was dropped — `SELECT foo.cast(a AS int) FROM t` was accepted with `foo` nowhere in the tree
     (`pFunc` dispatched on the upper-cased name alone and the three special parsers never see the schema); now `foo.cast(…)` is an
     ordinary call of `foo.cast` (`#guard`s at the end);
   * a dotted name in ONE token (`` `foo.bar`(a) ``) is stored as its two halves, which needs one more alternative in `Acc`.
   `call_arguments_accounted` covers the arguments of ONE call level under the visible hypothesis that a bracket follows the name.
   A bracket group can also be accounted for AS A WHOLE by the name rule (`SELECT [1] FROM t` is accepted with the column name
   `(1)`, `WITH (a b) AS (…)` with the table name `(ab)`: class F-C08-5), which is why the theorem is stated on the token tree
   (`Acc` descends only where the parser did) and not on the flattened list of leaves.
   SELECT statements, DML and DDL: not proved here (validated by the check's oracle only).

The lexer half (every character of the text is in some token) is C04's; printing (what is stored is printed) is C01 / C13's.
-/
set_option linter.unusedVariables false
open Lex PM Ast
namespace C08

/-! ### 1. the parser consumes a prefix of its cursor -/
/-- every cursor-returning function of the expression / SELECT parser, at every fuel (one field per function) -/
theorem consumes_prefix (d : Gen.D) (n : Nat) : ConsF d n := consF_all d n
/-- the top of the expression grammar, plain form -/
theorem consumes_prefix_expr (d : Gen.D) (n : Nat) (ts : List Tok) (v : Expr) (r : List Tok) (h : pOr d n ts = .ok (v, r)) :
    ∃ used, ts = used ++ r := pOr_consumes d n ts v r h
/-- one statement of any kind -/
theorem consumes_prefix_statement (d : Gen.D) (f : Nat) (ts : List Tok) (s : Stmt) (r : List Tok) (h : pStatement d f ts = .ok (s, r)) :
    ∃ used, ts = used ++ r := pStatement_consumes d f ts s r h

/-- the token list is cut into statements: each is parsed from where the previous one (and the optional `;`) ended -/
inductive Covered (d : Gen.D) (f : Nat) : List Tok → List Stmt → Prop
  | nil : Covered d f [] []
  | cons {ts s r ss} : pStatement d f ts = .ok (s, r) → Covered d f (moveStr r ";").2 ss → Covered d f ts (s :: ss)

/-- `parse_statements` has consumed the whole text: it returns at the end of the token list only -/
theorem statements_covered (d : Gen.D) (f : Nat) : ∀ g acc ts ss, statementsLoop d f g acc ts = .ok ss →
    ∃ ss', ss = acc ++ ss' ∧ Covered d f ts ss' := by
  intro g
  induction g with
  | zero => intro acc ts ss h; simp [statementsLoop] at h
  | succ g ih =>
    intro acc ts ss h
    rcases closed_statementsLoop (g + 1) acc ts ss h with ⟨rfl, rfl⟩ | ⟨s, r, hs, hl⟩
    · exact ⟨[], by simp, .nil⟩
    · obtain ⟨ss', rfl, hc⟩ := ih _ _ _ hl
      exact ⟨s :: ss', by simp, .cons hs hc⟩
/-- … and between two statements nothing but one optional `;` is skipped -/
theorem between_statements (r : List Tok) : (moveStr r ";").2 = r ∨ ∃ t, r = t :: (moveStr r ";").2 ∧ t.srcEq ";" = true := by
  unfold moveStr
  split
  · rename_i h; right
    cases r with
    | nil => simp [searchStr] at h
    | cons t r' => exact ⟨t, rfl, by simpa [searchStr] using h⟩
  · left; rfl

/-! ### 2. every opened bracket group is parsed to its end -/
/-- the inversion lemmas of the functions of the mutual block that open a child cursor, bundled (statements: `#check` the parts, or
`MsqProofs/Lemmas/ParseAccountClosed.lean`) -/
theorem children_closed (d : Gen.D) (n : Nat) :
    type_of% (@closed_pParen d n) ∧ type_of% (@closed_pIndex d n) ∧ type_of% (@closed_pIfCall d n) ∧ type_of% (@closed_pCall d n) ∧
    type_of% (@closed_pSplit d) ∧ type_of% (@closed_pInBody d n) ∧ type_of% (@closed_pSubQuery d n) ∧ type_of% (@closed_pCast d n) ∧
    type_of% (@closed_castTail) ∧ type_of% (@closed_castParams) ∧ type_of% (@closed_pExtract d n) ∧ type_of% (@closed_pExtractTail d n) ∧
    type_of% (@closed_pWindow d n) ∧ type_of% (@closed_pWindowBody d n) ∧ type_of% (@closed_pTableExpr d n) ∧
    type_of% (@closed_pGroupingSets d n) ∧ type_of% (@closed_pGroupingElems d) ∧ type_of% (@closed_pGroupingElem d n) ∧
    type_of% (@closed_pClosedEach d) ∧ type_of% (@closed_pWithBody d n) ∧ type_of% (@closed_pSingle d n) ∧
    type_of% (@closed_pSingleParen d) :=
  ⟨closed_pParen, closed_pIndex, closed_pIfCall, closed_pCall, closed_pSplit, closed_pInBody, closed_pSubQuery, closed_pCast,
   closed_castTail, closed_castParams, closed_pExtract, closed_pExtractTail, closed_pWindow, closed_pWindowBody, closed_pTableExpr,
   closed_pGroupingSets, closed_pGroupingElems, closed_pGroupingElem, closed_pClosedEach, closed_pWithBody, closed_pSingle,
   closed_pSingleParen⟩
/-- the same for the statement level -/
theorem children_closed_stmt (d : Gen.D) (f : Nat) :
    type_of% (@closed_eachClosed) ∧ type_of% (@closed_pColType d f) ∧ type_of% (@closed_pPartition d f) ∧ type_of% (@closed_pNameList) ∧
    type_of% (@closed_pIndexCol) ∧ type_of% (@closed_pIndexCols) ∧ type_of% (@closed_pGenerated d f) ∧ type_of% (@closed_valuesLoop d f) ∧
    type_of% (@closed_pOptColumns) ∧ type_of% (@closed_createElems d f) ∧ type_of% (@closed_createOpts_partitioned d f) ∧
    type_of% (@closed_pCreateTable d f) ∧ type_of% (@closed_statementsLoop d f) :=
  ⟨closed_eachClosed, closed_pColType, closed_pPartition, closed_pNameList, closed_pIndexCol, closed_pIndexCols, closed_pGenerated,
   closed_valuesLoop, closed_pOptColumns, closed_createElems, closed_createOpts_partitioned, closed_pCreateTable, closed_statementsLoop⟩
/-- the bracketed sub-expression, in full: the group is parsed by `pOr` to its end, or it is a sub-query parsed to its end -/
theorem paren_closed (d : Gen.D) (n : Nat) (g : Tok) (r0 : List Tok) (v : Expr) (r : List Tok) (h : pParen d (n+2) g r0 = .ok (v, r)) :
    r = r0 ∧ (pOr d (n+1) g.children = .ok (v, []) ∨ ∃ q, pSelectStmt d n none g.children = .ok (q, []) ∧ v = .subQuery q) := by
  rcases closed_pParen h with ⟨_, hq⟩ | ⟨_, rfl, ho⟩
  · obtain ⟨g', q, hg, hq', rfl⟩ := closed_pSubQuery hq
    simp only [List.cons.injEq] at hg
    obtain ⟨rfl, rfl⟩ := hg
    exact ⟨rfl, Or.inr ⟨q, hq', rfl⟩⟩
  · exact ⟨rfl, Or.inl ho⟩
/-- comma-separated lists: the segments are the children without the commas, none of them empty -/
theorem segments (cs : List Tok) :
    (splitBy "," cs [] []).flatten = cs.filter (fun t => !t.equalsStr ",") ∧ ∀ sg ∈ splitBy "," cs [] [], sg ≠ [] :=
  ⟨by simpa using splitBy_flatten "," cs [] [], splitBy_nonempty "," cs [] [] (by simp)⟩

/-! ### 3. every consumed token is stored in the tree or is a word of the grammar -/
/-- all 38 functions of the expression grammar (one field per function, with accumulators) -/
theorem stored_or_keyword_all (d : Gen.D) (n : Nat) : AccF d n := accF_all d n
/-- what `Acc` says, unfolded once -/
theorem acc_cases {T : List String} {t : Tok} (h : Acc T t) :
    t.src ∈ T ∨ unifyName t.src ∈ T ∨ up t.src ∈ KW ∨ t.src ∈ KW ∨
      ((t.has PAREN = true ∨ t.has ARRAY = true) ∧ ∀ c ∈ t.children, Acc T c) := by
  cases h with
  | text h => exact Or.inl h
  | name h => exact Or.inr (Or.inl h)
  | kw h =>
    simp only [KwTok, isKW, Bool.or_eq_true, List.contains_eq_mem, decide_eq_true_eq] at h
    exact h.elim (fun h => Or.inr (Or.inr (Or.inl h))) (fun h => Or.inr (Or.inr (Or.inr (Or.inl h))))
  | group hb hc =>
    simp only [IsBracket, Bool.or_eq_true] at hb
    exact Or.inr (Or.inr (Or.inr (Or.inr ⟨hb, hc⟩)))
/-- the accounting theorem at the top of the expression grammar -/
theorem stored_or_keyword (d : Gen.D) (n : Nat) (ts : List Tok) (v : Expr) (r : List Tok)
    (h : pOr d n ts = .ok (v, r)) (hp : Plain v = true) :
    ∃ used, ts = used ++ r ∧ ∀ t ∈ used, Acc (tE v) t := by
  have := (accF_all d n).pOr ts v r h hp
  exact (this.2 (tE v) (by simp [PM.Sub])).1
/-- the same for every precedence level the public entry points expose -/
theorem stored_or_keyword_levels (d : Gen.D) (n : Nat) (ts : List Tok) (v : Expr) (r : List Tok) (hp : Plain v = true)
    (h : pElement d n ts = .ok (v, r) ∨ pUnary d n ts = .ok (v, r) ∨ pCompute d n ts = .ok (v, r) ∨ pKeyword d n none ts = .ok (v, r) ∨
      pCompare d n ts = .ok (v, r) ∨ pNot d n ts = .ok (v, r) ∨ pAnd d n ts = .ok (v, r) ∨ pXor d n ts = .ok (v, r) ∨ pCase d n ts = .ok (v, r)) :
    ∃ used, ts = used ++ r ∧ ∀ t ∈ used, Acc (tE v) t := by
  have F := accF_all d n
  have hs : PM.Sub (tE v) (tE v) := by simp [PM.Sub]
  rcases h with h | h | h | h | h | h | h | h | h
  · exact ((F.pElement ts v r h hp).2 _ hs).1
  · exact ((F.pUnary ts v r h hp).2 _ hs).1
  · exact ((F.pCompute ts v r h hp).2 _ hs).1
  · exact ((F.pKeyword none ts v r h hp).2 _ hs).1
  · exact ((F.pCompare ts v r h hp).2 _ hs).1
  · exact ((F.pNot ts v r h hp).2 _ hs).1
  · exact ((F.pAnd ts v r h hp).2 _ hs).1
  · exact ((F.pXor ts v r h hp).2 _ hs).1
  · exact ((F.pCase ts v r h hp).2 _ hs).1
/-- the excluded constructs are exactly what the excluded functions build: none of them returns a plain tree -/
theorem not_plain (d : Gen.D) (n : Nat) (ts : List Tok) (v : Expr) (r : List Tok)
    (h : pFuncIdx d n ts = .ok (v, r) ∨ pWindow d n ts = .ok (v, r) ∨ pSubQuery d n ts = .ok (v, r) ∨ pCast d n ts = .ok (v, r) ∨
      pExtract d n ts = .ok (v, r) ∨ pIfCall d n ts = .ok (v, r)) : Plain v = false := by
  have F := accF_all d n
  rcases h with h | h | h | h | h | h
  · exact F.pFuncIdx ts v r h
  · exact F.pWindow ts v r h
  · exact F.pSubQuery ts v r h
  · exact F.pCast ts v r h
  · exact F.pExtract ts v r h
  · exact F.pIfCall ts v r h

/-- function call arguments, one call level: if a bracket follows the name (the hypothesis F-C08-6 makes necessary) and the
arguments are plain, every token of the argument list — after `SUBSTRING`'s `FROM` / `FOR` have been turned into commas and an
aggregate's `DISTINCT` has been recorded in the flag — is accounted for by the texts of the arguments -/
theorem call_arguments_accounted (d : Gen.D) (n : Nat) (schema : Option String) (name : String) (g : Tok) (r' : List Tok) (v : Expr) (r : List Tok)
    (h : pCall d (n+1) schema name (g :: r') = .ok (v, r)) :
    r = r' ∧ ∃ ps, v = callNode schema name (callPrep name g).1 (callPrep name g).2.1 ps ∧
      (PlainL ps = true → ∀ t ∈ (callPrep name g).2.2, Acc (tEs ps) t) := by
  obtain ⟨g', acc, r2, ps, hg, h1, h2, rfl⟩ := closed_pCall h
  simp only [List.cons.injEq] at hg
  obtain ⟨rfl, rfl⟩ := hg
  refine ⟨rfl, ps, rfl, fun hp => ?_⟩
  have F := accF_all d n
  obtain ⟨hacc, h3⟩ := F.pArgs acc r2 ps [] h2 hp
  obtain ⟨a3, s3⟩ := h3 (tEs ps) (by simp [PM.Sub])
  obtain ⟨_, h4⟩ := F.pFirstArg _ acc r2 h1 hacc
  obtain ⟨a4, _⟩ := h4 (tEs ps) s3
  exact acc3_all (a4.trans a3)

/-! ### non-vacuity on lexed texts (`String` operations do not reduce by `decide`: `#guard`) -/
def toks (s : String) : List Tok := match Lex.lex Gen.cfgS s.toList with | .ok ts => ts | .error _ => []
mutual
/-- `Acc`, evaluated -/
def accB (T : List String) : Tok → Bool
  | .single s m => T.contains (Tok.src (.single s m)) || T.contains (unifyName (Tok.src (.single s m))) || KwTok (.single s m)
  | .group k cs m => T.contains (Tok.src (.group k cs m)) || T.contains (unifyName (Tok.src (.group k cs m))) ||
      (IsBracket (.group k cs m) && accBL T cs)
def accBL (T : List String) : List Tok → Bool
  | [] => true
  | t :: ts => accB T t && accBL T ts
end
/-- the hypotheses of `stored_or_keyword` hold, nothing is left, and every consumed token passes the evaluated `Acc` -/
def holds (s : String) : Bool :=
  match pOr .MYSQL 400 (toks s) with
  | .ok (v, []) => Plain v && accBL (tE v) (toks s) && !(toks s).isEmpty
  | _ => false
def textsOf (s : String) : List String := match pOr .MYSQL 400 (toks s) with | .ok (v, _) => tE v | .error _ => []

#guard holds "a + b * 2 > c AND NOT d IS NOT NULL OR x LIKE 'p%' XOR y BETWEEN 1 AND -z"
#guard holds "CASE WHEN a = 1 THEN 'one' WHEN a = 2 THEN t.`two` ELSE c[1 + i] END <> (x || (y && t.*))"
#guard holds "CASE k WHEN 1 THEN a ELSE b END DIV 3 MOD 2 <=> ~ `q`"
-- a consumed token IS in the texts: names after `unifyName`, literals verbatim; the keywords are not
#guard (textsOf "a + `b` * 2 > 'x'").contains "a" && (textsOf "a + `b` * 2 > 'x'").contains "b" && (textsOf "a + `b` * 2 > 'x'").contains "2"
#guard (textsOf "a + `b` * 2 > 'x'").contains "'x'" && !(textsOf "a AND b").contains "AND"
-- outside the fragment the tree is not plain …
#guard !holds "f(a)" && !holds "a IN (1, 2)" && !holds "CAST(a AS int)" && !holds "a + (SELECT 1)"
-- … and the accounting statement is really false there: the word after IN is dropped (F-C08-6)
#guard (match pOr .MYSQL 400 (toks "a IN b") with | .ok (v, []) => !(tE v).contains "b" | _ => false)
-- the schema qualifier of a call is kept, also before IF / CAST (repaired: it used to be dropped there)
#guard (match pOr .MYSQL 400 (toks "foo.bar(a)") with | .ok (v, []) => (tE v).contains "foo" && (tE v).contains "bar" | _ => false)
#guard (match pOr .MYSQL 400 (toks "foo.if(a, b, c)") with | .ok (v, []) => (tE v).contains "foo" && (tE v).contains "if" | _ => false)
#guard (match pOr .MYSQL 400 (toks "foo.cast(a AS int)") with | .error _ => true | _ => false)
-- consumes_prefix / children_closed are about successful runs: there are some, with and without a rest, with brackets
#guard (match pOr .MYSQL 400 (toks "(a + (b)) c") with | .ok (_, r) => r.length == 1 | _ => false)
#guard (match pStatement .MYSQL 400 (toks "SELECT f(a, (b)) FROM (t) WHERE x IN (1, 2)") with | .ok (_, []) => true | _ => false)
-- a child cursor that is not exhausted is an error; an empty segment is not
#guard (match pOr .MYSQL 400 (toks "(a b)") with | .error _ => true | _ => false)
#guard (match pOr .MYSQL 400 (toks "a IN (1,,2)"), pOr .MYSQL 400 (toks "a IN (1,2)") with
  | .ok (v, []), .ok (w, []) => tE v == tE w | _, _ => false)

end C08
