import MsqProofs.Lemmas.LexLinkDml2
import MsqProofs.Lemmas.LexLinkQ2M
import MsqProofs.Props.C03Q2
import MsqProofs.Lemmas.LexScriptPrinted
import MsqProofs.Props.C03QL
import MsqProofs.Props.C03D
/-!
# C03 / C01 / C02 at TEXT level, second batch: data-change statements (`TDM.FragStmt`) and scripts of them (part 1 of this file), the larger
nested fragment `TQ2.FragQ2` / `FragE4` (part 2, with its own header below: `C03.lex_prQ2`, `tquery2_text`, `C01.query_round_trip_text2`,
`C02.lex_prE4`, `tparse4_text`)

`Props/C03D.lean` proves T-parse for DELETE / UPDATE / INSERT … VALUES / INSERT … query / WITH … on TOKENS (`C03.tstatement`: the rendering
`TDM.toksStmt d s` parses to `s`).  Here the link to TEXT: the printer's text lexes to exactly that rendering.

* `C03.lex_prStmt` : for every fragment statement that the printer prints (`LLD.printableStmt`: `INSERT OVERWRITE` is printed for HIVE and
  DEFAULT only — the printer raises for the others) with lexable payloads, `PR.prStmt d s` succeeds, prints the mirror `LLD.stmtL d s`, and
  lexing the text gives exactly `TDM.toksStmt d s`; `C03.lex_prStmt_in_context`: the same inside any text;
* `C03.tstatement_text` : text → dialect pre-pass → lexer → `pStatement` (entry fuel) gives `s`, nothing left, and the model of the public
  entry point `parse_statements(text, dialect)` returns `[s]`;
* `C01.dml_round_trip_text` : print ∘ parse ∘ print = print on the statement fragment;
* `C03.tscript_text` : the printed texts of fragment statements, each followed by a separator text (blanks / line breaks around one `;`;
  after the last one possibly only blanks or nothing — the separators of `Props/C10T.lean`), parse through `parse_statements` to exactly
  the statements, in order (every dialect but DB2, whose pre-pass patterns contain a blank: there `tscript_text_prep` with the commutation
  of the pre-passes as a hypothesis) — no "ends open" hypothesis: a printed statement never ends inside a line comment;
* `C03.hive_pre_stmt` : for HIVE the pre-pass hypothesis holds whenever no payload contains `==`.

What the printer writes, as the mirror records it: `WITH a AS (…), ⏎b AS (…)⏎` (the tables separated by comma, blank, line break; one line
break after the clause, two in front of UPDATE), `DELETE FROM t ` with a trailing blank when there is no tail, two blanks between the
INSERT head and a query, `TABLE` after the INSERT words for HIVE only, `PARTITION (k = v, …)` with key and value bracketed above the compute
level (`PR.prPartItem`, /repo e990ea0 — inside `FragStmt` that coincides with the expression printer), VALUES rows bracketed above level 8.

**Hypotheses** besides the fragment: `LLD.LeafStmt d s` = every payload satisfies `LexLink.leafOK d` (Props/C03QL.lean); the payloads new at
the statement level: target table (`nameLex` of schema and name), columns of the column list (`colLex` / `qcolLex`), names of WITH tables and
SET columns (`nameLex`: no back-quote, no TAB / CR / U+3000).  `leafStmtB` is a decidable sufficient condition.
-/
set_option linter.unusedVariables false
set_option linter.unusedSimpArgs false
open Lex PM Ast TP TS TQ TDM LexLink LLD

namespace LLD

theorem dml_words_plain : dmlWords.all (fun k => allP k.toList) = true := by decide +kernel
theorem insert_words_plain : Gen.insertTypes.all (fun e => e.2.all fun w => allP w.toList) = true := by decide +kernel
theorem dml_words_occ : dmlWords.all (fun k => !C01.occ k.toList) = true := by decide +kernel
theorem insert_words_occ : Gen.insertTypes.all (fun e => e.2.all fun w => !C01.occ w.toList) = true := by decide +kernel

theorem dw_plain : DW plainKit where
  dws := fun k hk => (List.all_eq_true.mp dml_words_plain) k hk
  iws := fun e he w hw => (List.all_eq_true.mp ((List.all_eq_true.mp insert_words_plain) e he)) w hw
theorem dw_occ : DW occKit where
  dws := fun k hk => by
    show C01.occ k.toList = false
    simpa using (List.all_eq_true.mp dml_words_occ) k hk
  iws := fun e he w hw => by
    show C01.occ w.toList = false
    simpa using (List.all_eq_true.mp ((List.all_eq_true.mp insert_words_occ) e he)) w hw

/-- every payload of the statement satisfies `leafOK` -/
def LeafStmt (d : Gen.D) (s : Stmt) : Prop := On (leafOK d) (leavesStmt s)
/-- no payload contains `==` -/
def NoEqStmt (s : Stmt) : Prop := On noEqItem (leavesStmt s)

end LLD

namespace C03

/-- **C03.lex_prStmt**: the printer succeeds on every printable fragment statement with lexable payloads, prints `stmtL d s`, and lexing the
text gives exactly the token rendering `toksStmt d s`. -/
theorem lex_prStmt (d : Gen.D) (s : Stmt) (hs : FragStmt d s = true) (hp : printableStmt d s = true) (hl : LeafStmt d s) :
    ∃ str : String, PR.prStmt d s = .ok str ∧ str.toList = stmtL d s ∧ Lex.lex Gen.cfgS str.toList = .ok (toksStmt d s) := by
  have g := good_stmt dw_plain s hs hp (lv_plain hl)
  refine ⟨String.ofList (stmtL d s), g.pr, String.toList_ofList, ?_⟩
  rw [String.toList_ofList, Lex.lex_plain _ _ (fun c hc => (List.all_eq_true.mp g.q) c hc)]
  exact C01.lexText_of_lx g.lx

/-- the link in context: inside any text, between tokens, before a delimiter, under any bracket nesting -/
theorem lex_prStmt_in_context (d : Gen.D) (s : Stmt) (hs : FragStmt d s = true) (hp : printableStmt d s = true) (hl : LeafStmt d s) :
    Lx (stmtL d s) (toksStmt d s) :=
  (good_stmt dw_plain s hs hp (lv_plain hl)).lx

/-- the printed text contains no character the lexer's pre-pass rewrites -/
theorem stmt_text_plain (d : Gen.D) (s : Stmt) (hs : FragStmt d s = true) (hp : printableStmt d s = true) (hl : LeafStmt d s) :
    allP (stmtL d s) = true :=
  (good_stmt dw_plain s hs hp (lv_plain hl)).q

/-- the printed text of a statement never ends inside a line comment -/
theorem printed_stmt_not_open (d : Gen.D) (s : Stmt) (hs : FragStmt d s = true) (hp : printableStmt d s = true) (hl : LeafStmt d s) :
    C10.EndsOpen Gen.cfgS (stmtL d s) = false :=
  C10.not_open_of_lx (lex_prStmt_in_context d s hs hp hl) (stmt_text_plain d s hs hp hl)

/-- **C03.tstatement_text**: T-parse of data-change statements at TEXT level, with the entry points' own fuel. -/
theorem tstatement_text (d : Gen.D) (s : Stmt) (hs : FragStmt d s = true) (hp : printableStmt d s = true) (hl : LeafStmt d s)
    (hpre : dialectPre d (stmtL d s) = stmtL d s) :
    ∃ (str : String) (ts : List Tok), PR.prStmt d s = .ok str ∧
      Lex.lex Gen.cfgS (dialectPre d str.toList) = .ok ts ∧ ts = toksStmt d s ∧
      pStatement d (fuelFor ts) ts = .ok (s, []) ∧
      parseStatementsText d str.toList = .ok [s] := by
  obtain ⟨str, h1, h2, h3⟩ := lex_prStmt d s hs hp hl
  have hlex : Lex.lex Gen.cfgS (dialectPre d str.toList) = .ok (toksStmt d s) := by rw [h2, hpre, ← h2]; exact h3
  have hp2 : pStatement d (fuelFor (toksStmt d s)) (toksStmt d s) = .ok (s, []) := by
    have := tstatement_entry_fuel d s hs [] rfl
    simpa using this
  exact ⟨str, toksStmt d s, h1, hlex, rfl, hp2, C10.alone d str.toList (toksStmt d s) s hlex hp2⟩

/-- for HIVE the pre-pass hypothesis holds whenever no payload contains `==` -/
theorem hive_pre_stmt (s : Stmt) (hs : FragStmt .HIVE s = true) (hp : printableStmt .HIVE s = true) (hl : LeafStmt .HIVE s)
    (hno : NoEqStmt s) : dialectPre .HIVE (stmtL .HIVE s) = stmtL .HIVE s :=
  C01.hivePre_no_occ _ (good_stmt dw_occ s hs hp (lv_occ hl hno)).q

/-! ### scripts -/

/-- the part of a script that is the printed statement `it.1` followed by the separator text `it.2` -/
def stmtPart (d : Gen.D) (it : Stmt × List Char) : C10.Part := ⟨stmtL d it.1, it.2, toksStmt d it.1, it.1⟩

/-- **C03.tscript_text**: the printed texts of fragment statements, each followed by a separator (blanks and line breaks around one `;`;
the last one possibly without `;`), parse through the model of `parse_statements(text, dialect)` to exactly the statements -/
theorem tscript_text (d : Gen.D) (hd : d ≠ .DB2) (items : List (Stmt × List Char))
    (h : ∀ it ∈ items, FragStmt d it.1 = true ∧ printableStmt d it.1 = true ∧ LeafStmt d it.1 ∧
      dialectPre d (stmtL d it.1) = stmtL d it.1 ∧ ∀ c ∈ it.2, C10.isSepChar c = true)
    (hseps : C10.SepsOK (items.map (stmtPart d))) :
    (∀ it ∈ items, PR.prStmt d it.1 = .ok (String.ofList (stmtL d it.1))) ∧
    parseStatementsText d (C10.scriptOf C10.Part.text (items.map (stmtPart d))) = .ok (items.map (·.1)) := by
  refine ⟨fun it hit => (good_stmt dw_plain it.1 (h it hit).1 (h it hit).2.1 (lv_plain (h it hit).2.2.1)).pr, ?_⟩
  have := C10.script_text_std d hd (items.map (stmtPart d)) (fun p hp => by
    obtain ⟨it, hit, rfl⟩ := List.mem_map.mp hp
    obtain ⟨hs, hpr, hl, hpre, hsep⟩ := h it hit
    simp only [stmtPart]
    rw [hpre]
    refine ⟨?_, ?_, Or.inl (printed_stmt_not_open d it.1 hs hpr hl), hsep, ?_⟩
    · obtain ⟨str, _, h2, h3⟩ := lex_prStmt d it.1 hs hpr hl
      rw [← h2]; exact h3
    · have := tstatement_entry_fuel d it.1 hs [] rfl
      simpa using this
    · intro hc
      have hm : '\r' ∈ stmtL d it.1 := List.mem_of_getLast? hc
      have := List.all_eq_true.mp (stmt_text_plain d it.1 hs hpr hl) _ hm
      revert this; decide) hseps
  simpa [List.map_map, Function.comp_def, stmtPart] using this

/-- the same for every dialect (DB2 included), the commutation of the pre-passes with cutting the script at the separators as a hypothesis
(a decidable equation on each concrete script) -/
theorem tscript_text_prep (d : Gen.D) (items : List (Stmt × List Char))
    (h : ∀ it ∈ items, FragStmt d it.1 = true ∧ printableStmt d it.1 = true ∧ LeafStmt d it.1 ∧
      dialectPre d (stmtL d it.1) = stmtL d it.1 ∧ ∀ c ∈ it.2, C10.isSepChar c = true)
    (hseps : C10.SepsOK (items.map (stmtPart d)))
    (hprep : C10.prep d (C10.scriptOf C10.Part.text (items.map (stmtPart d))) =
      C10.scriptOf (fun p => C10.prep d p.text) (items.map (stmtPart d))) :
    parseStatementsText d (C10.scriptOf C10.Part.text (items.map (stmtPart d))) = .ok (items.map (·.1)) := by
  have := C10.script_text d (items.map (stmtPart d)) (fun p hp => by
    obtain ⟨it, hit, rfl⟩ := List.mem_map.mp hp
    obtain ⟨hs, hpr, hl, hpre, hsep⟩ := h it hit
    simp only [stmtPart]
    rw [hpre]
    refine ⟨?_, ?_, Or.inl (printed_stmt_not_open d it.1 hs hpr hl), hsep⟩
    · obtain ⟨str, _, h2, h3⟩ := lex_prStmt d it.1 hs hpr hl
      rw [← h2]; exact h3
    · have := tstatement_entry_fuel d it.1 hs [] rfl
      simpa using this) hseps hprep
  simpa [List.map_map, Function.comp_def, stmtPart] using this

end C03

namespace C01

/-- **C01.dml_round_trip_text**: print, then the text pipeline (dialect pre-pass, lexer, parser) gives the statement back; printing what was
parsed gives the same text again -/
theorem dml_round_trip_text (d : Gen.D) (s : Stmt) (hs : FragStmt d s = true) (hp : printableStmt d s = true) (hl : LeafStmt d s)
    (hpre : dialectPre d (stmtL d s) = stmtL d s) :
    ∃ (str : String) (ts : List Tok), PR.prStmt d s = .ok str ∧ Lex.lex Gen.cfgS (dialectPre d str.toList) = .ok ts ∧
      pStatement d (fuelFor ts) ts = .ok (s, []) ∧
      (∀ s', pStatement d (fuelFor ts) ts = .ok (s', []) → PR.prStmt d s' = .ok str) ∧
      parseStatementsText d str.toList = .ok [s] ∧
      (∀ sts, parseStatementsText d str.toList = .ok sts → sts.map (PR.prStmt d) = [.ok str]) := by
  obtain ⟨str, ts, h1, h2, _, h3, h5⟩ := C03.tstatement_text d s hs hp hl hpre
  refine ⟨str, ts, h1, h2, h3, ?_, h5, ?_⟩
  · intro s' hs'
    rw [h3] at hs'
    simp only [Except.ok.injEq, Prod.mk.injEq, and_true] at hs'
    rw [← hs']; exact h1
  · intro sts hsts
    rw [h5] at hsts
    simp only [Except.ok.injEq] at hsts
    rw [← hsts]
    simp [h1]

end C01

/-! ## a decidable form of the leaf hypotheses, non-vacuity -/
namespace C03.DmlText
open C03.Dml

def leafStmtB (d : Gen.D) (s : Stmt) : Bool := (leavesStmt s).all (leafOKB d)
theorem leafStmt_of_B (d : Gen.D) (s : Stmt) (h : leafStmtB d s = true) : LeafStmt d s :=
  fun x hx => leafOK_of_B d x ((List.all_eq_true.mp h) x hx)

/-- the mirror is the printer's text, the leaf hypotheses hold, the lexer gives the rendering (compiled evaluation, a test) -/
def agreesT (d : Gen.D) (s : Stmt) : Bool :=
  FragStmt d s && printableStmt d s && leafStmtB d s &&
    (match PR.prStmt d s with | .ok x => x.toList == stmtL d s && eqbL (lexed x) (toksStmt d s) | .error _ => false)
#guard [d1, d2, u1, u2, i1, i2, i4, w1, w2, w3].all (agreesT .MYSQL) && [d1, d2, u1, u2, i1, i2, i3, i4, i5, w1, w2, w3].all (agreesT .HIVE) &&
  [d1, d2, u1, u2, i1, i2, i3, i4, i5, w1, w2, w3].all (agreesT .DEFAULT) && [d1, u1, i1, i4, w1].all (agreesT .ORACLE) &&
  [d1, u2, i2, w2].all (agreesT .POSTGRE_SQL)
-- what the printer writes: trailing blank of a DELETE without tail, TABLE for HIVE, two blanks before the query, the WITH layout
#guard stmtL .MYSQL d2 == "DELETE FROM `s.t` ".toList &&
  stmtL .HIVE i5 == "INSERT OVERWRITE TABLE `t` PARTITION () VALUES ".toList &&
  stmtL .MYSQL u2 == "WITH x AS (SELECT `b`\nFROM `u`)\n\nUPDATE `t` SET `a` = 1 ORDER BY `a`, `b` DESC".toList &&
  stmtL .MYSQL (.insertSelect (ih "INSERT_INTO" (tn "t")) qa) == "INSERT INTO `t`  SELECT `b`\nFROM `u`".toList
-- outside: INSERT OVERWRITE is not printed for MYSQL (token-level fragment, but no text); a WITH name with a back-quote
#guard FragStmt .MYSQL i3 && !printableStmt .MYSQL i3 && (match PR.prStmt .MYSQL i3 with | .error .notSupported => true | _ => false) &&
  !leafStmtB .MYSQL (.update (some [wt "a`b" qa]) (tn "t") [("a", lit "1")] none none none)
-- the public entry point on the printed text
#guard [d1, d2, u1, u2, i1, i2, i4, w1, w2].all fun s => (match PM.parseStatementsText .MYSQL (stmtL .MYSQL s) with
  | .ok [st] => Drv.showVal st.toVal == Drv.showVal s.toVal | _ => false)
#guard [d1, u1, i3, i5, w1].all fun s => (match PM.parseStatementsText .HIVE (stmtL .HIVE s) with
  | .ok [st] => Drv.showVal st.toVal == Drv.showVal s.toVal | _ => false)
-- a script: three printed statements, separators with layout
#guard (match PM.parseStatementsText .MYSQL
    (C10.scriptOf C10.Part.text ([(d1, " ;\n".toList), (u2, ";".toList), (i1, "\n;  ".toList)].map (stmtPart .MYSQL))) with
  | .ok [a, b, c] => Drv.showVal a.toVal == Drv.showVal d1.toVal && Drv.showVal b.toVal == Drv.showVal u2.toVal &&
      Drv.showVal c.toVal == Drv.showVal i1.toVal | _ => false)

/-- `WITH x AS (SELECT b FROM u) UPDATE t SET a = b WHERE a = 1` without LIMIT / qualified table (kernel-checked instances avoid
`toString` of integers and `String.splitOn`) -/
def u3 : Stmt := .update (some [wt "x" qa]) (tn "t") [("a", col "b")] (some (cmp "EQ" (col "a") (lit "1"))) none none
/-- `INSERT INTO t (a) VALUES (1, 'x'), ()` -/
def i6 : Stmt := .insertValues (ih "INSERT_INTO" (tn "t") none (some [(none, "a")])) [[lit "1", lit "'x'"], []]

-- instances of the theorems, hypotheses decided by the kernel
set_option maxRecDepth 100000 in
example : ∃ str ts, PR.prStmt .MYSQL u3 = .ok str ∧ Lex.lex Gen.cfgS (dialectPre .MYSQL str.toList) = .ok ts ∧ ts = toksStmt .MYSQL u3 ∧
    pStatement .MYSQL (fuelFor ts) ts = .ok (u3, []) ∧ parseStatementsText .MYSQL str.toList = .ok [u3] :=
  tstatement_text .MYSQL u3 (by decide) (by decide) (leafStmt_of_B _ _ (by decide +kernel)) (C01.dialectPre_id _ (by decide) (by decide) _)
set_option maxRecDepth 100000 in
example : ∃ str ts, PR.prStmt .HIVE i6 = .ok str ∧ Lex.lex Gen.cfgS (dialectPre .HIVE str.toList) = .ok ts ∧
    pStatement .HIVE (fuelFor ts) ts = .ok (i6, []) ∧ (∀ s', pStatement .HIVE (fuelFor ts) ts = .ok (s', []) → PR.prStmt .HIVE s' = .ok str) ∧
    parseStatementsText .HIVE str.toList = .ok [i6] ∧
    (∀ sts, parseStatementsText .HIVE str.toList = .ok sts → sts.map (PR.prStmt .HIVE) = [.ok str]) :=
  C01.dml_round_trip_text .HIVE i6 (by decide) (by decide) (leafStmt_of_B _ _ (by decide +kernel))
    (hive_pre_stmt i6 (by decide) (by decide) (leafStmt_of_B _ _ (by decide +kernel)) (noEq_of_B _ (by decide +kernel)))
set_option maxRecDepth 100000 in
example : parseStatementsText .MYSQL (C10.scriptOf C10.Part.text ([(d0, " ;\n".toList), (u3, ";".toList), (i6, [])].map (stmtPart .MYSQL))) =
    .ok [d0, u3, i6] :=
  (tscript_text .MYSQL (by decide) [(d0, " ;\n".toList), (u3, ";".toList), (i6, [])]
    (by
      intro it hit
      simp only [List.mem_cons, List.not_mem_nil, or_false] at hit
      rcases hit with rfl | rfl | rfl
      · exact ⟨by decide, by decide, leafStmt_of_B _ _ (by decide +kernel), C01.dialectPre_id _ (by decide) (by decide) _, by decide⟩
      · exact ⟨by decide, by decide, leafStmt_of_B _ _ (by decide +kernel), C01.dialectPre_id _ (by decide) (by decide) _, by decide⟩
      · exact ⟨by decide, by decide, leafStmt_of_B _ _ (by decide +kernel), C01.dialectPre_id _ (by decide) (by decide) _, by decide⟩)
    ⟨by decide, by decide, (by decide : (C10.semis []).length ≤ 1)⟩).2

end C03.DmlText

/-! # Part 2 — the LARGER nested fragment `TQ2.FragQ2` / `TQ2.FragE4` at TEXT level

`Props/C03Q2.lean` proves T-parse on tokens for CAST / EXTRACT / IF / array index / window functions, JOIN … USING, LATERAL VIEW, GROUPING
SETS / WITH CUBE / WITH ROLLUP, NULLS FIRST / LAST, SORT / DISTRIBUTE / CLUSTER BY.  Here the lexer link for these productions
(`Lemmas/LexLinkQ2*.lean`: the mirror `LL2.prE4L` / `prQ2L`, the node lemmas of the old productions re-derived by
`tools/dev/gen_lexlink_q2.py`, the new ones by hand, ONE mutual induction `LL2.good_all`).

* `C03.lex_prQ2` : `FragQ2 d q → LeafQ2 d q → ∃ str, PR.prQ d q = ok str ∧ str.toList = prQ2L d q ∧ lex str = toksQ2 d noX q`;
* `C03.tquery2_text`, `C01.query_round_trip_text2`, `C02.lex_prE4`, `C02.tparse4_text`, `C03.hive_pre_query2`.

**What `LeafQ2 d q` says** (`LL2.leavesQ2` = payload items `.old x` with `LexLink.leafOK d x` as in Props/C03QL.lean — LATERAL VIEW names are
plain words, their column aliases `nameLex` — and GUARDS `.guard p`, conditions the token-level fragment does not have):
* dialect: `a[i]` and SORT / DISTRIBUTE / CLUSTER BY only for `d = HIVE`, LATERAL VIEW only for HIVE and DEFAULT — for the other dialects the
  printer raises (C13.printable_iff), so there is no text;
* `[ … ]`: the lexer reads `a[i]` as the tokens of `a` followed by ONE `slice` group with the ARRAY_INDEX mark whose children are the tokens
  of `i` — exactly `TQ2.arr` (F-C04-2, the group's `source` renders with round brackets, does not matter: the parser reads the children).
  But `]` is no delimiter of the link's context predicate, so the index expression must END its last token by itself: `LL2.idxInnerOK i` =
  `i` is a column, a numeral, a quoted string, or is printed in brackets (level above 8).  `a[i + 1]`, `a[f(x)]` are NOT covered at text
  level (they are at token level);
* a grouping set with ONE element is printed with or without brackets according to the first CHARACTER of the element's text
  (`node.py`: `startswith("(")`), the token-level printer decides by the first TOKEN; the two agree when the element is a column, a bracketed
  list / sub-query, or is printed in brackets (`LL2.setElemOK`).  Other single elements (`GROUPING SETS (f(a))`, `(a + b)`) are not covered.
-/
namespace LL2
open LexLink

theorem q2_words_plain : q2Words.all (fun k => allP k.toList) = true := by decide +kernel
theorem cast_words_plain : Gen.castTypes.all (fun e => allP e.2.toList) = true := by decide +kernel
theorem q2_words_occ : q2Words.all (fun k => !C01.occ k.toList) = true := by decide +kernel
theorem cast_words_occ : Gen.castTypes.all (fun e => !C01.occ e.2.toList) = true := by decide +kernel

theorem qw2_plain : QW2 plainKit where
  ws := fun k hk => (List.all_eq_true.mp q2_words_plain) k hk
  cts := fun e he => (List.all_eq_true.mp cast_words_plain) e he
  s_lb := by show C05.plain '[' = true; decide
  s_rb := by show C05.plain ']' = true; decide
theorem qw2_occ : QW2 occKit where
  ws := fun k hk => by
    show C01.occ k.toList = false
    simpa using (List.all_eq_true.mp q2_words_occ) k hk
  cts := fun e he => by
    show C01.occ e.2.toList = false
    simpa using (List.all_eq_true.mp cast_words_occ) e he
  s_lb := by show '[' ≠ '='; decide
  s_rb := by show ']' ≠ '='; decide

/-- every payload satisfies `leafOK`, every guard holds -/
def LeafQ2 (d : Gen.D) (q : Query) : Prop := On2 (leafOK2 d) (leavesQ2 q)
def LeafE4 (d : Gen.D) (e : Expr) : Prop := On2 (leafOK2 d) (leavesE4 e)
/-- no payload contains `==` -/
def noEq2 : Leaf2 → Prop
  | .old x => noEqItem x
  | .guard _ => True
def NoEqQ2 (q : Query) : Prop := On2 noEq2 (leavesQ2 q)
def NoEqE4 (e : Expr) : Prop := On2 noEq2 (leavesE4 e)

theorem lv2_plain {d : Gen.D} {l : List Leaf2} (h : On2 (leafOK2 d) l) : Lv2 d plainKit l := by
  intro x hx
  refine ⟨h x hx, ?_⟩
  cases x with
  | old y => exact plain_item d y (h _ hx)
  | guard p => trivial
theorem lv2_occ {d : Gen.D} {l : List Leaf2} (h : On2 (leafOK2 d) l) (h2 : On2 noEq2 l) : Lv2 d occKit l := by
  intro x hx
  refine ⟨h x hx, ?_⟩
  cases x with
  | old y => exact h2 _ hx
  | guard p => trivial

end LL2

open TQ2 LL2

namespace C03

/-- **C03.lex_prQ2**: on the larger fragment the printer succeeds (under the leaf hypotheses, which contain the dialect guards), prints
`prQ2L d q`, and lexing the text gives exactly the token rendering `toksQ2 d noX q`. -/
theorem lex_prQ2 (d : Gen.D) (q : Query) (hq : FragQ2 d q = true) (hl : LeafQ2 d q) :
    ∃ str : String, PR.prQ d q = .ok str ∧ str.toList = prQ2L d q ∧ Lex.lex Gen.cfgS str.toList = .ok (toksQ2 d noX q) := by
  have g := LL2.good_query d plainKit qw2_plain q hq (lv2_plain hl)
  refine ⟨String.ofList (prQ2L d q), g.pr, String.toList_ofList, ?_⟩
  rw [String.toList_ofList, Lex.lex_plain _ _ (fun c hc => (List.all_eq_true.mp g.q) c hc)]
  exact C01.lexText_of_lx g.lx

/-- the link in context -/
theorem lex_prQ2_in_context (d : Gen.D) (q : Query) (hq : FragQ2 d q = true) (hl : LeafQ2 d q) : Lx (prQ2L d q) (toksQ2 d noX q) :=
  (LL2.good_query d plainKit qw2_plain q hq (lv2_plain hl)).lx

/-- **C03.tquery2_text**: T-parse on the larger fragment at TEXT level, with the entry points' own fuel. -/
theorem tquery2_text (d : Gen.D) (q : Query) (hq : FragQ2 d q = true) (hl : LeafQ2 d q)
    (hpre : dialectPre d (prQ2L d q) = prQ2L d q) :
    ∃ (str : String) (ts : List Tok), PR.prQ d q = .ok str ∧
      Lex.lex Gen.cfgS (dialectPre d str.toList) = .ok ts ∧ ts = toksQ2 d noX q ∧
      pSelectStmt d (fuelFor ts) none ts = .ok (q, []) ∧
      pStatement d (fuelFor ts) ts = .ok (.select q, []) ∧
      parseStatementsText d str.toList = .ok [.select q] := by
  obtain ⟨str, h1, h2, h3⟩ := lex_prQ2 d q hq hl
  have hlex : Lex.lex Gen.cfgS (dialectPre d str.toList) = .ok (toksQ2 d noX q) := by rw [h2, hpre, ← h2]; exact h3
  have hp1 : pSelectStmt d (fuelFor (toksQ2 d noX q)) none (toksQ2 d noX q) = .ok (q, []) := by
    have := tquery2_entry_fuel d q hq [] rfl
    simpa using this
  have hp2 : pStatement d (fuelFor (toksQ2 d noX q)) (toksQ2 d noX q) = .ok (.select q, []) := by
    have := tquery2_statement d q hq [] rfl (fuelFor (toksQ2 d noX q)) (by simp only [fuelFor]; omega)
    simpa using this
  exact ⟨str, toksQ2 d noX q, h1, hlex, rfl, hp1, hp2, C10.alone d str.toList (toksQ2 d noX q) (.select q) hlex hp2⟩

/-- for HIVE the pre-pass hypothesis holds whenever no payload contains `==` -/
theorem hive_pre_query2 (q : Query) (hq : FragQ2 .HIVE q = true) (hl : LeafQ2 .HIVE q) (hno : NoEqQ2 q) :
    dialectPre .HIVE (prQ2L .HIVE q) = prQ2L .HIVE q :=
  C01.hivePre_no_occ _ (LL2.good_query .HIVE occKit qw2_occ q hq (lv2_occ hl hno)).q

end C03

namespace C01

/-- **C01.query_round_trip_text2**: print ∘ parse ∘ print = print on the larger fragment, through `pSelectStmt` and through the model of
`parse_statements` -/
theorem query_round_trip_text2 (d : Gen.D) (q : Query) (hq : FragQ2 d q = true) (hl : LeafQ2 d q)
    (hpre : dialectPre d (prQ2L d q) = prQ2L d q) :
    ∃ (str : String) (ts : List Tok), PR.prQ d q = .ok str ∧ Lex.lex Gen.cfgS (dialectPre d str.toList) = .ok ts ∧
      pSelectStmt d (fuelFor ts) none ts = .ok (q, []) ∧
      (∀ q', pSelectStmt d (fuelFor ts) none ts = .ok (q', []) → PR.prQ d q' = .ok str) ∧
      (∀ sts, parseStatementsText d str.toList = .ok sts → sts.map (PR.prStmt d) = [.ok str]) := by
  obtain ⟨str, ts, h1, h2, _, h3, _, h5⟩ := C03.tquery2_text d q hq hl hpre
  refine ⟨str, ts, h1, h2, h3, ?_, ?_⟩
  · intro q' hq'
    rw [h3] at hq'
    simp only [Except.ok.injEq, Prod.mk.injEq, and_true] at hq'
    rw [← hq']; exact h1
  · intro sts hsts
    rw [h5] at hsts
    simp only [Except.ok.injEq] at hsts
    rw [← hsts]
    simp [PR.prStmt, h1]

end C01

namespace C02

/-- **C02.lex_prE4**: the expression half — CAST, EXTRACT, IF, window functions, array index besides everything of `C02.lex_prE3` -/
theorem lex_prE4 (d : Gen.D) (e : Expr) (hf : FragE4 d e = true) (hl : LeafE4 d e) :
    ∃ s : String, PR.prE d e = .ok s ∧ s.toList = prE4L d e ∧ Lex.lex Gen.cfgS s.toList = .ok (toksE4 d noX e) := by
  have g := LL2.good_expr d plainKit qw2_plain e hf (lv2_plain hl)
  refine ⟨String.ofList (prE4L d e), g.pr, String.toList_ofList, ?_⟩
  rw [String.toList_ofList, Lex.lex_plain _ _ (fun c hc => (List.all_eq_true.mp g.q) c hc)]
  exact C01.lexText_of_lx g.lx

/-- **C02.tparse4_text**: T-parse of expressions of the larger fragment at TEXT level: text → pre-pass → lexer → `pOr` with the entry
point's fuel gives the tree back; the model of `parse_logical_or_level_expression(text, dialect)` returns `(e, 0)`; printing the result
gives the same text -/
theorem tparse4_text (d : Gen.D) (e : Expr) (hf : FragE4 d e = true) (hl : LeafE4 d e)
    (hpre : dialectPre d (prE4L d e) = prE4L d e) :
    ∃ (s : String) (ts : List Tok), PR.prE d e = .ok s ∧ Lex.lex Gen.cfgS (dialectPre d s.toList) = .ok ts ∧ ts = toksE4 d noX e ∧
      pOr d (fuelFor ts) ts = .ok (e, []) ∧
      PM.parseText "logical_or_level_expression" d s.toList = .ok (e.toVal, 0) ∧
      (∀ e', pOr d (fuelFor ts) ts = .ok (e', []) → PR.prE d e' = .ok s) := by
  obtain ⟨s, hs, hsl, hlex⟩ := lex_prE4 d e hf hl
  have hlex2 : Lex.lex Gen.cfgS (dialectPre d s.toList) = .ok (toksE4 d noX e) := by rw [hsl, hpre, ← hsl]; exact hlex
  have hp : pOr d (fuelFor (toksE4 d noX e)) (toksE4 d noX e) = .ok (e, []) := by
    have := tparse4 d e hf [] rfl (fuelFor (toksE4 d noX e)) (by simp only [fuelFor]; omega)
    simpa using this
  refine ⟨s, toksE4 d noX e, hs, hlex2, rfl, hp, ?_, ?_⟩
  · unfold PM.parseText
    have he := C01.entry_or
    cases hfd : PM.entries.find? (·.1 == "logical_or_level_expression") with
    | none => rw [hfd] at he; cases he
    | some pr =>
      rw [hfd] at he
      simp only [Option.map_some, Option.some.injEq] at he
      obtain ⟨nm, p⟩ := pr
      simp only at he
      subst he
      simp only [hlex2, PM.exprEntry, hp, List.length_nil]
  · intro e' he'
    rw [hp] at he'
    simp only [Except.ok.injEq, Prod.mk.injEq, and_true] at he'
    rw [← he']; exact hs

theorem hive_pre_expr4 (e : Expr) (hf : FragE4 .HIVE e = true) (hl : LeafE4 .HIVE e) (hno : NoEqE4 e) :
    dialectPre .HIVE (prE4L .HIVE e) = prE4L .HIVE e :=
  C01.hivePre_no_occ _ (LL2.good_expr .HIVE occKit qw2_occ e hf (lv2_occ hl hno)).q

end C02

/-! ## a decidable form of the leaf hypotheses, non-vacuity -/
namespace C03.Q2Text

def leafOK2B (d : Gen.D) : Leaf2 → Bool
  | .old x => leafOKB d x
  | .guard p => p d
def leafQ2B (d : Gen.D) (q : Query) : Bool := (leavesQ2 q).all (leafOK2B d)
def leafE4B (d : Gen.D) (e : Expr) : Bool := (leavesE4 e).all (leafOK2B d)
def noEq2B (l : List Leaf2) : Bool := l.all fun x => match x with | .old y => (strs y).all fun s => !C01.occ s.toList | .guard _ => true

theorem leafOK2_of_B (d : Gen.D) (x : Leaf2) (h : leafOK2B d x = true) : leafOK2 d x := by
  cases x with
  | old y => exact leafOK_of_B d y h
  | guard p => exact h
theorem leafQ2_of_B (d : Gen.D) (q : Query) (h : leafQ2B d q = true) : LeafQ2 d q :=
  fun x hx => leafOK2_of_B d x ((List.all_eq_true.mp h) x hx)
theorem leafE4_of_B (d : Gen.D) (e : Expr) (h : leafE4B d e = true) : LeafE4 d e :=
  fun x hx => leafOK2_of_B d x ((List.all_eq_true.mp h) x hx)
theorem noEq2_of_B (l : List Leaf2) (h : noEq2B l = true) : On2 noEq2 l := by
  intro x hx
  have := (List.all_eq_true.mp h) x hx
  cases x with
  | old y =>
    intro s hs
    have := (List.all_eq_true.mp this) s hs
    simpa using this
  | guard p => trivial

/-- the mirror is the printer's text, the leaf hypotheses hold, the lexer gives the rendering (compiled evaluation, a test) -/
def agreesT2 (d : Gen.D) (q : Query) : Bool :=
  FragQ2 d q && leafQ2B d q && (match PR.prQ d q with | .ok x => x.toList == prQ2L d q && eqbL (lexed x) (toksQ2 d noX q) | .error _ => false)
/-- `q2w3` of Props/C03Q2.lean with index expressions inside the text-level restriction: a numeral, a quoted string, a bracketed expression -/
def q2w3t : Query := .single (q2sel2 [(.index (col "a") (lit "1"), some "f"), (.index (.func none "split" [col "s", lit "','"]) (.compare "EQ" (col "i") (lit "1")), none),
    (.index (.column (some "t") "m") (lit "'k'"), none), (.index (col "a") (col "j"), none)]
  (some [tb "t"]) (some (.compare "GT" (col "x") (lit "0"))) [.mk "JOIN" (tb "u") (some (.on (.compare "EQ" (col "a") (col "b"))))] none none
  [.mk false (.func none "explode" [col "arr"]) "v" ["x"], .mk true (.func none "posexplode" [col "m"]) "w" ["k", "val"]]
  (some [.mk (col "a") true false false]) (some [col "a", col "b"]) (some [col "c"]))
#guard [q2w1, q2w2, q2w2b, q2w2c, q2w4].all (agreesT2 .MYSQL) && [q2w1, q2w2, q2w2b, q2w2c, q2w3t, q2w4].all (agreesT2 .HIVE) &&
  [q2w1, q2w2, q2w4].all (agreesT2 .ORACLE) && [q2w1, q2w2, q2w2c, q2w4].all (agreesT2 .DEFAULT) && [q2w1, q2w2].all (agreesT2 .POSTGRE_SQL)
-- the guards: the Hive constructs for MYSQL, an unbracketed compound index expression, a call as the single element of a grouping set
#guard FragQ2 .MYSQL q2w3t && !leafQ2B .MYSQL q2w3t && FragQ2 .HIVE q2w3 && !leafQ2B .HIVE q2w3 &&
  !leafE4B .HIVE (.index (col "a") (.compute (col "i") "PLUS" (lit "1"))) && leafE4B .HIVE (.index (col "a") (.compare "EQ" (col "i") (lit "1"))) &&
  !leafQ2B .HIVE (.single (q2sel2 [(col "a", none)] (some [tb "t"]) none [] (some (.mk [] (some [[.func none "f" [col "a"]]]) false false))))
-- what the printer writes
#guard prE4L .HIVE (.index (col "a") (lit "1")) == "`a`[1]".toList &&
  prE4L .MYSQL (.cast (col "a") true "DECIMAL" (some [10, 2])) == "CAST(`a` AS SIGNED DECIMAL (10, 2))".toList &&
  prE4L .MYSQL (.window (.agg "sum" [col "a"] false) [col "b"] [.mk (col "c") true true false] (some (.num 1 true, .current))) ==
    "sum(`a`) OVER (PARTITION BY `b` ORDER BY `c` DESC NULLS FIRST ROWS BETWEEN 1 PRECEDING AND CURRENT ROW)".toList
-- the public entry point on the printed text
#guard [q2w1, q2w2, q2w2b, q2w2c, q2w4].all fun q => (match PM.parseStatementsText .MYSQL (prQ2L .MYSQL q) with
  | .ok [st] => Drv.showVal st.toVal == Drv.showVal (Stmt.select q).toVal | _ => false)
#guard [q2w1, q2w2, q2w3t, q2w4].all fun q => (match PM.parseStatementsText .HIVE (prQ2L .HIVE q) with
  | .ok [st] => Drv.showVal st.toVal == Drv.showVal (Stmt.select q).toVal | _ => false)

/-- a kernel-checked instance without LIMIT / numerals in frames (kernel `decide` gets stuck on `toString` of integers):
`SELECT CAST(a AS SIGNED INT) AS k, EXTRACT(y FROM ts), rank() OVER (PARTITION BY a ORDER BY c DESC NULLS LAST ROWS BETWEEN UNBOUNDED
PRECEDING AND CURRENT ROW), m['k'] FROM t LATERAL VIEW explode(arr) v AS x GROUP BY a GROUPING SETS ((), a, (a, b)) WITH ROLLUP SORT BY a` -/
def qk : Query := .single (q2sel2
  [(.cast (col "a") true "INT" none, some "k"), (.extract (col "y") (col "ts"), none),
   (.window (.func none "rank" []) [col "a"] [.mk (col "c") true false true] (some (.unbounded true, .current)), none),
   (.index (col "m") (lit "'k'"), none)]
  (some [tb "t"]) none [] (some (.mk [col "a"] (some [[], [col "a"], [col "a", col "b"]]) false true)) none
  [.mk false (.func none "explode" [col "arr"]) "v" ["x"]] (some [.mk (col "a") false false false]))
#guard agreesT2 .HIVE qk
set_option maxRecDepth 100000 in
example : ∃ str ts, PR.prQ .HIVE qk = .ok str ∧ Lex.lex Gen.cfgS (dialectPre .HIVE str.toList) = .ok ts ∧ ts = toksQ2 .HIVE noX qk ∧
    pSelectStmt .HIVE (fuelFor ts) none ts = .ok (qk, []) ∧ pStatement .HIVE (fuelFor ts) ts = .ok (.select qk, []) ∧
    parseStatementsText .HIVE str.toList = .ok [.select qk] :=
  tquery2_text .HIVE qk (by decide) (leafQ2_of_B _ _ (by decide +kernel))
    (hive_pre_query2 qk (by decide) (leafQ2_of_B _ _ (by decide +kernel)) (noEq2_of_B _ (by decide +kernel)))
def ek : Expr := .compare "GT" (.cast (.compute (col "a") "PLUS" (col "b")) false "CHAR" none)
  (.func none "IF" [.extract (col "y") (col "ts"), .window (.agg "sum" [col "x"] false) [] [] none, lit "'z'"])
set_option maxRecDepth 100000 in
example : ∃ s ts, PR.prE .MYSQL ek = .ok s ∧ Lex.lex Gen.cfgS (dialectPre .MYSQL s.toList) = .ok ts ∧ ts = toksE4 .MYSQL noX ek ∧
    pOr .MYSQL (fuelFor ts) ts = .ok (ek, []) ∧ PM.parseText "logical_or_level_expression" .MYSQL s.toList = .ok (ek.toVal, 0) ∧
    (∀ e', pOr .MYSQL (fuelFor ts) ts = .ok (e', []) → PR.prE .MYSQL e' = .ok s) :=
  C02.tparse4_text .MYSQL ek (by decide) (leafE4_of_B _ _ (by decide +kernel)) (C01.dialectPre_id _ (by decide) (by decide) _)

end C03.Q2Text
