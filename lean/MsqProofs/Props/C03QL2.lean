import MsqProofs.Lemmas.LexLinkDml2
import MsqProofs.Lemmas.LexScriptPrinted
import MsqProofs.Props.C03QL
import MsqProofs.Props.C03D
/-!
# C03 / C01 / C02 at TEXT level, part 2: data-change statements (`TDM.FragStmt`) and scripts of them

`Props/C03D.lean` proves T-parse for DELETE / UPDATE / INSERT … VALUES / INSERT … query / WITH … on TOKENS (`C03.tstatement`: the rendering
`TDM.toksStmt d s` parses to `s`).  Here the link to TEXT: the printer's text lexes to exactly that rendering.

* `C03.lex_prStmt` : for every fragment statement that the printer prints (`LLD.printableStmt`: `INSERT OVERWRITE` is printed for HIVE and
  DEFAULT only — the printer raises for the others) with lexable payloads, `PR.prStmt d s` succeeds, prints the mirror `LLD.stmtL d s`, and
  lexing the text gives exactly `TDM.toksStmt d s`; `C03.lex_prStmt_in_context`: the same inside any text;
* `C03.tstatement_text` : text → dialect pre-pass → lexer → `pStatement` (entry fuel) gives `s`, nothing left, and the model of the public
  entry point `parse_statements(text, dialect)` returns `[s]`;
* `C01.dml_round_trip_text` : print ∘ parse ∘ print = print on the statement fragment;
* `C03.tscript_text` : the printed texts of fragment statements, each followed by a separator text (blanks / line breaks around one `;`;
  after the last one possibly only blanks or nothing — the separators of `Props/C10T.lean`), parse through `parse_statements` to exactly
  the statements, in order (every dialect but DB2, whose pre-pass patterns contain a blank: there `tscript_text_prep` with the commutation
  of the pre-passes as a hypothesis) — no "ends open" hypothesis: a printed statement never ends inside a line comment;
* `C03.hive_pre_stmt` : for HIVE the pre-pass hypothesis holds whenever no payload contains `==`.

What the printer writes, as the mirror records it: `WITH a AS (…), ⏎b AS (…)⏎` (the tables separated by comma, blank, line break; one line
break after the clause, two in front of UPDATE), `DELETE FROM t ` with a trailing blank when there is no tail, two blanks between the
INSERT head and a query, `TABLE` after the INSERT words for HIVE only, `PARTITION (k = v, …)` with key and value bracketed above the compute
level (`PR.prPartItem`, /repo e990ea0 — inside `FragStmt` that coincides with the expression printer), VALUES rows bracketed above level 8.

**Hypotheses** besides the fragment: `LLD.LeafStmt d s` = every payload satisfies `LexLink.leafOK d` (Props/C03QL.lean); the payloads new at
the statement level: target table (`nameLex` of schema and name), columns of the column list (`colLex` / `qcolLex`), names of WITH tables and
SET columns (`nameLex`: no back-quote, no TAB / CR / U+3000).  `leafStmtB` is a decidable sufficient condition.
-/
set_option linter.unusedVariables false
set_option linter.unusedSimpArgs false
open Lex PM Ast TP TS TQ TDM LexLink LLD

namespace LLD

theorem dml_words_plain : dmlWords.all (fun k => allP k.toList) = true := by decide +kernel
theorem insert_words_plain : Gen.insertTypes.all (fun e => e.2.all fun w => allP w.toList) = true := by decide +kernel
theorem dml_words_occ : dmlWords.all (fun k => !C01.occ k.toList) = true := by decide +kernel
theorem insert_words_occ : Gen.insertTypes.all (fun e => e.2.all fun w => !C01.occ w.toList) = true := by decide +kernel

theorem dw_plain : DW plainKit where
  dws := fun k hk => (List.all_eq_true.mp dml_words_plain) k hk
  iws := fun e he w hw => (List.all_eq_true.mp ((List.all_eq_true.mp insert_words_plain) e he)) w hw
theorem dw_occ : DW occKit where
  dws := fun k hk => by
    show C01.occ k.toList = false
    simpa using (List.all_eq_true.mp dml_words_occ) k hk
  iws := fun e he w hw => by
    show C01.occ w.toList = false
    simpa using (List.all_eq_true.mp ((List.all_eq_true.mp insert_words_occ) e he)) w hw

/-- every payload of the statement satisfies `leafOK` -/
def LeafStmt (d : Gen.D) (s : Stmt) : Prop := On (leafOK d) (leavesStmt s)
/-- no payload contains `==` -/
def NoEqStmt (s : Stmt) : Prop := On noEqItem (leavesStmt s)

end LLD

namespace C03

/-- **C03.lex_prStmt**: the printer succeeds on every printable fragment statement with lexable payloads, prints `stmtL d s`, and lexing the
text gives exactly the token rendering `toksStmt d s`. -/
theorem lex_prStmt (d : Gen.D) (s : Stmt) (hs : FragStmt d s = true) (hp : printableStmt d s = true) (hl : LeafStmt d s) :
    ∃ str : String, PR.prStmt d s = .ok str ∧ str.toList = stmtL d s ∧ Lex.lex Gen.cfgS str.toList = .ok (toksStmt d s) := by
  have g := good_stmt dw_plain s hs hp (lv_plain hl)
  refine ⟨String.ofList (stmtL d s), g.pr, String.toList_ofList, ?_⟩
  rw [String.toList_ofList, Lex.lex_plain _ _ (fun c hc => (List.all_eq_true.mp g.q) c hc)]
  exact C01.lexText_of_lx g.lx

/-- the link in context: inside any text, between tokens, before a delimiter, under any bracket nesting -/
theorem lex_prStmt_in_context (d : Gen.D) (s : Stmt) (hs : FragStmt d s = true) (hp : printableStmt d s = true) (hl : LeafStmt d s) :
    Lx (stmtL d s) (toksStmt d s) :=
  (good_stmt dw_plain s hs hp (lv_plain hl)).lx

/-- the printed text contains no character the lexer's pre-pass rewrites -/
theorem stmt_text_plain (d : Gen.D) (s : Stmt) (hs : FragStmt d s = true) (hp : printableStmt d s = true) (hl : LeafStmt d s) :
    allP (stmtL d s) = true :=
  (good_stmt dw_plain s hs hp (lv_plain hl)).q

/-- the printed text of a statement never ends inside a line comment -/
theorem printed_stmt_not_open (d : Gen.D) (s : Stmt) (hs : FragStmt d s = true) (hp : printableStmt d s = true) (hl : LeafStmt d s) :
    C10.EndsOpen Gen.cfgS (stmtL d s) = false :=
  C10.not_open_of_lx (lex_prStmt_in_context d s hs hp hl) (stmt_text_plain d s hs hp hl)

/-- **C03.tstatement_text**: T-parse of data-change statements at TEXT level, with the entry points' own fuel. -/
theorem tstatement_text (d : Gen.D) (s : Stmt) (hs : FragStmt d s = true) (hp : printableStmt d s = true) (hl : LeafStmt d s)
    (hpre : dialectPre d (stmtL d s) = stmtL d s) :
    ∃ (str : String) (ts : List Tok), PR.prStmt d s = .ok str ∧
      Lex.lex Gen.cfgS (dialectPre d str.toList) = .ok ts ∧ ts = toksStmt d s ∧
      pStatement d (fuelFor ts) ts = .ok (s, []) ∧
      parseStatementsText d str.toList = .ok [s] := by
  obtain ⟨str, h1, h2, h3⟩ := lex_prStmt d s hs hp hl
  have hlex : Lex.lex Gen.cfgS (dialectPre d str.toList) = .ok (toksStmt d s) := by rw [h2, hpre, ← h2]; exact h3
  have hp2 : pStatement d (fuelFor (toksStmt d s)) (toksStmt d s) = .ok (s, []) := by
    have := tstatement_entry_fuel d s hs [] rfl
    simpa using this
  exact ⟨str, toksStmt d s, h1, hlex, rfl, hp2, C10.alone d str.toList (toksStmt d s) s hlex hp2⟩

/-- for HIVE the pre-pass hypothesis holds whenever no payload contains `==` -/
theorem hive_pre_stmt (s : Stmt) (hs : FragStmt .HIVE s = true) (hp : printableStmt .HIVE s = true) (hl : LeafStmt .HIVE s)
    (hno : NoEqStmt s) : dialectPre .HIVE (stmtL .HIVE s) = stmtL .HIVE s :=
  C01.hivePre_no_occ _ (good_stmt dw_occ s hs hp (lv_occ hl hno)).q

/-! ### scripts -/

/-- the part of a script that is the printed statement `it.1` followed by the separator text `it.2` -/
def stmtPart (d : Gen.D) (it : Stmt × List Char) : C10.Part := ⟨stmtL d it.1, it.2, toksStmt d it.1, it.1⟩

/-- **C03.tscript_text**: the printed texts of fragment statements, each followed by a separator (blanks and line breaks around one `;`;
the last one possibly without `;`), parse through the model of `parse_statements(text, dialect)` to exactly the statements -/
theorem tscript_text (d : Gen.D) (hd : d ≠ .DB2) (items : List (Stmt × List Char))
    (h : ∀ it ∈ items, FragStmt d it.1 = true ∧ printableStmt d it.1 = true ∧ LeafStmt d it.1 ∧
      dialectPre d (stmtL d it.1) = stmtL d it.1 ∧ ∀ c ∈ it.2, C10.isSepChar c = true)
    (hseps : C10.SepsOK (items.map (stmtPart d))) :
    (∀ it ∈ items, PR.prStmt d it.1 = .ok (String.ofList (stmtL d it.1))) ∧
    parseStatementsText d (C10.scriptOf C10.Part.text (items.map (stmtPart d))) = .ok (items.map (·.1)) := by
  refine ⟨fun it hit => (good_stmt dw_plain it.1 (h it hit).1 (h it hit).2.1 (lv_plain (h it hit).2.2.1)).pr, ?_⟩
  have := C10.script_text_std d hd (items.map (stmtPart d)) (fun p hp => by
    obtain ⟨it, hit, rfl⟩ := List.mem_map.mp hp
    obtain ⟨hs, hpr, hl, hpre, hsep⟩ := h it hit
    simp only [stmtPart]
    rw [hpre]
    refine ⟨?_, ?_, Or.inl (printed_stmt_not_open d it.1 hs hpr hl), hsep, ?_⟩
    · obtain ⟨str, _, h2, h3⟩ := lex_prStmt d it.1 hs hpr hl
      rw [← h2]; exact h3
    · have := tstatement_entry_fuel d it.1 hs [] rfl
      simpa using this
    · intro hc
      have hm : '\r' ∈ stmtL d it.1 := List.mem_of_getLast? hc
      have := List.all_eq_true.mp (stmt_text_plain d it.1 hs hpr hl) _ hm
      revert this; decide) hseps
  simpa [List.map_map, Function.comp_def, stmtPart] using this

/-- the same for every dialect (DB2 included), the commutation of the pre-passes with cutting the script at the separators as a hypothesis
(a decidable equation on each concrete script) -/
theorem tscript_text_prep (d : Gen.D) (items : List (Stmt × List Char))
    (h : ∀ it ∈ items, FragStmt d it.1 = true ∧ printableStmt d it.1 = true ∧ LeafStmt d it.1 ∧
      dialectPre d (stmtL d it.1) = stmtL d it.1 ∧ ∀ c ∈ it.2, C10.isSepChar c = true)
    (hseps : C10.SepsOK (items.map (stmtPart d)))
    (hprep : C10.prep d (C10.scriptOf C10.Part.text (items.map (stmtPart d))) =
      C10.scriptOf (fun p => C10.prep d p.text) (items.map (stmtPart d))) :
    parseStatementsText d (C10.scriptOf C10.Part.text (items.map (stmtPart d))) = .ok (items.map (·.1)) := by
  have := C10.script_text d (items.map (stmtPart d)) (fun p hp => by
    obtain ⟨it, hit, rfl⟩ := List.mem_map.mp hp
    obtain ⟨hs, hpr, hl, hpre, hsep⟩ := h it hit
    simp only [stmtPart]
    rw [hpre]
    refine ⟨?_, ?_, Or.inl (printed_stmt_not_open d it.1 hs hpr hl), hsep⟩
    · obtain ⟨str, _, h2, h3⟩ := lex_prStmt d it.1 hs hpr hl
      rw [← h2]; exact h3
    · have := tstatement_entry_fuel d it.1 hs [] rfl
      simpa using this) hseps hprep
  simpa [List.map_map, Function.comp_def, stmtPart] using this

end C03

namespace C01

/-- **C01.dml_round_trip_text**: print, then the text pipeline (dialect pre-pass, lexer, parser) gives the statement back; printing what was
parsed gives the same text again -/
theorem dml_round_trip_text (d : Gen.D) (s : Stmt) (hs : FragStmt d s = true) (hp : printableStmt d s = true) (hl : LeafStmt d s)
    (hpre : dialectPre d (stmtL d s) = stmtL d s) :
    ∃ (str : String) (ts : List Tok), PR.prStmt d s = .ok str ∧ Lex.lex Gen.cfgS (dialectPre d str.toList) = .ok ts ∧
      pStatement d (fuelFor ts) ts = .ok (s, []) ∧
      (∀ s', pStatement d (fuelFor ts) ts = .ok (s', []) → PR.prStmt d s' = .ok str) ∧
      parseStatementsText d str.toList = .ok [s] ∧
      (∀ sts, parseStatementsText d str.toList = .ok sts → sts.map (PR.prStmt d) = [.ok str]) := by
  obtain ⟨str, ts, h1, h2, _, h3, h5⟩ := C03.tstatement_text d s hs hp hl hpre
  refine ⟨str, ts, h1, h2, h3, ?_, h5, ?_⟩
  · intro s' hs'
    rw [h3] at hs'
    simp only [Except.ok.injEq, Prod.mk.injEq, and_true] at hs'
    rw [← hs']; exact h1
  · intro sts hsts
    rw [h5] at hsts
    simp only [Except.ok.injEq] at hsts
    rw [← hsts]
    simp [h1]

end C01

/-! ## a decidable form of the leaf hypotheses, non-vacuity -/
namespace C03.DmlText
open C03.Dml

def leafStmtB (d : Gen.D) (s : Stmt) : Bool := (leavesStmt s).all (leafOKB d)
theorem leafStmt_of_B (d : Gen.D) (s : Stmt) (h : leafStmtB d s = true) : LeafStmt d s :=
  fun x hx => leafOK_of_B d x ((List.all_eq_true.mp h) x hx)

/-- the mirror is the printer's text, the leaf hypotheses hold, the lexer gives the rendering (compiled evaluation, a test) -/
def agreesT (d : Gen.D) (s : Stmt) : Bool :=
  FragStmt d s && printableStmt d s && leafStmtB d s &&
    (match PR.prStmt d s with | .ok x => x.toList == stmtL d s && eqbL (lexed x) (toksStmt d s) | .error _ => false)
#guard [d1, d2, u1, u2, i1, i2, i4, w1, w2, w3].all (agreesT .MYSQL) && [d1, d2, u1, u2, i1, i2, i3, i4, i5, w1, w2, w3].all (agreesT .HIVE) &&
  [d1, d2, u1, u2, i1, i2, i3, i4, i5, w1, w2, w3].all (agreesT .DEFAULT) && [d1, u1, i1, i4, w1].all (agreesT .ORACLE) &&
  [d1, u2, i2, w2].all (agreesT .POSTGRE_SQL)
-- what the printer writes: trailing blank of a DELETE without tail, TABLE for HIVE, two blanks before the query, the WITH layout
#guard stmtL .MYSQL d2 == "DELETE FROM `s.t` ".toList &&
  stmtL .HIVE i5 == "INSERT OVERWRITE TABLE `t` PARTITION () VALUES ".toList &&
  stmtL .MYSQL u2 == "WITH x AS (SELECT `b`\nFROM `u`)\n\nUPDATE `t` SET `a` = 1 ORDER BY `a`, `b` DESC".toList &&
  stmtL .MYSQL (.insertSelect (ih "INSERT_INTO" (tn "t")) qa) == "INSERT INTO `t`  SELECT `b`\nFROM `u`".toList
-- outside: INSERT OVERWRITE is not printed for MYSQL (token-level fragment, but no text); a WITH name with a back-quote
#guard FragStmt .MYSQL i3 && !printableStmt .MYSQL i3 && (match PR.prStmt .MYSQL i3 with | .error .notSupported => true | _ => false) &&
  !leafStmtB .MYSQL (.update (some [wt "a`b" qa]) (tn "t") [("a", lit "1")] none none none)
-- the public entry point on the printed text
#guard [d1, d2, u1, u2, i1, i2, i4, w1, w2].all fun s => (match PM.parseStatementsText .MYSQL (stmtL .MYSQL s) with
  | .ok [st] => Drv.showVal st.toVal == Drv.showVal s.toVal | _ => false)
#guard [d1, u1, i3, i5, w1].all fun s => (match PM.parseStatementsText .HIVE (stmtL .HIVE s) with
  | .ok [st] => Drv.showVal st.toVal == Drv.showVal s.toVal | _ => false)
-- a script: three printed statements, separators with layout
#guard (match PM.parseStatementsText .MYSQL
    (C10.scriptOf C10.Part.text ([(d1, " ;\n".toList), (u2, ";".toList), (i1, "\n;  ".toList)].map (stmtPart .MYSQL))) with
  | .ok [a, b, c] => Drv.showVal a.toVal == Drv.showVal d1.toVal && Drv.showVal b.toVal == Drv.showVal u2.toVal &&
      Drv.showVal c.toVal == Drv.showVal i1.toVal | _ => false)

/-- `WITH x AS (SELECT b FROM u) UPDATE t SET a = b WHERE a = 1` without LIMIT / qualified table (kernel-checked instances avoid
`toString` of integers and `String.splitOn`) -/
def u3 : Stmt := .update (some [wt "x" qa]) (tn "t") [("a", col "b")] (some (cmp "EQ" (col "a") (lit "1"))) none none
/-- `INSERT INTO t (a) VALUES (1, 'x'), ()` -/
def i6 : Stmt := .insertValues (ih "INSERT_INTO" (tn "t") none (some [(none, "a")])) [[lit "1", lit "'x'"], []]

-- instances of the theorems, hypotheses decided by the kernel
set_option maxRecDepth 100000 in
example : ∃ str ts, PR.prStmt .MYSQL u3 = .ok str ∧ Lex.lex Gen.cfgS (dialectPre .MYSQL str.toList) = .ok ts ∧ ts = toksStmt .MYSQL u3 ∧
    pStatement .MYSQL (fuelFor ts) ts = .ok (u3, []) ∧ parseStatementsText .MYSQL str.toList = .ok [u3] :=
  tstatement_text .MYSQL u3 (by decide) (by decide) (leafStmt_of_B _ _ (by decide +kernel)) (C01.dialectPre_id _ (by decide) (by decide) _)
set_option maxRecDepth 100000 in
example : ∃ str ts, PR.prStmt .HIVE i6 = .ok str ∧ Lex.lex Gen.cfgS (dialectPre .HIVE str.toList) = .ok ts ∧
    pStatement .HIVE (fuelFor ts) ts = .ok (i6, []) ∧ (∀ s', pStatement .HIVE (fuelFor ts) ts = .ok (s', []) → PR.prStmt .HIVE s' = .ok str) ∧
    parseStatementsText .HIVE str.toList = .ok [i6] ∧
    (∀ sts, parseStatementsText .HIVE str.toList = .ok sts → sts.map (PR.prStmt .HIVE) = [.ok str]) :=
  C01.dml_round_trip_text .HIVE i6 (by decide) (by decide) (leafStmt_of_B _ _ (by decide +kernel))
    (hive_pre_stmt i6 (by decide) (by decide) (leafStmt_of_B _ _ (by decide +kernel)) (noEq_of_B _ (by decide +kernel)))
set_option maxRecDepth 100000 in
example : parseStatementsText .MYSQL (C10.scriptOf C10.Part.text ([(d0, " ;\n".toList), (u3, ";".toList), (i6, [])].map (stmtPart .MYSQL))) =
    .ok [d0, u3, i6] :=
  (tscript_text .MYSQL (by decide) [(d0, " ;\n".toList), (u3, ";".toList), (i6, [])]
    (by
      intro it hit
      simp only [List.mem_cons, List.not_mem_nil, or_false] at hit
      rcases hit with rfl | rfl | rfl
      · exact ⟨by decide, by decide, leafStmt_of_B _ _ (by decide +kernel), C01.dialectPre_id _ (by decide) (by decide) _, by decide⟩
      · exact ⟨by decide, by decide, leafStmt_of_B _ _ (by decide +kernel), C01.dialectPre_id _ (by decide) (by decide) _, by decide⟩
      · exact ⟨by decide, by decide, leafStmt_of_B _ _ (by decide +kernel), C01.dialectPre_id _ (by decide) (by decide) _, by decide⟩)
    ⟨by decide, by decide, (by decide : (C10.semis []).length ≤ 1)⟩).2

end C03.DmlText
