import MsqProofs.Lemmas.ParseEntry2
import MsqProofs.Lemmas.ParseEntry2Mono
import MsqProofs.Props.C07Adq
import MsqProofs.Props.C07Fuel
/-!
# C07 / C19 — every public parsing entry point: the other 26, and all 84 together

Property C07 quantifies over EVERY public `parse_*` method of `SQLParser`.  `PM.entries` (Parse/Entry.lean) has 58 of them;
`PM.entries2` (Parse/Entry2.lean) has the other 26 (`parse_insert_type`, `parse_join_type`, `parse_order_type`,
`parse_union_type`, `parse_compare_operator`, `parse_compute_operator`, `parse_cast_data_type`, `parse_window_row_item`,
`parse_window_row`, `parse_wildcard_expression`, `parse_alias_expression`, `parse_multi_alias_expression`,
`parse_join_on_expression`, `parse_join_using_expression`, `parse_join_expression`, `parse_select_column`,
`parse_select_clause`, `parse_from_clause`, `parse_grouping_sets`, `parse_having_clause`, `parse_sort_by_clause`,
`parse_distribute_by_clause`, `parse_cluster_by_clause`, `parse_with_table`, `parse_update_set_column`,
`parse_update_set_clause`); `PM.entriesAll = entries ++ entries2` is all 84, `PM.parseText2` looks an entry up there.

Proved here, for the MODEL, as `C07.entries_error_kinds` / `parser_no_foreign` / `entries_fuel_adequate` / `fuel_mono_entries` /
`entry_outcomes` do for `entries`:

* `entries2_error_kinds`, `entries2_no_foreign` — no entry of `entries2` returns a foreign exception kind (every dialect, every
  fuel, every token list): an error is `.parse`, `.fuel` or `.unmodelled _`;
* `entries2_fuel_adequate` — none answers `.fuel` with the budget `fuelFor` (nor with `20 + weight`, nor with any larger budget);
* `entries2_fuel_mono` — more fuel never changes a result;
* `all_entries_no_foreign`, `all_entries_fuel_adequate`, `all_entries_fuel_mono` — the three for `entriesAll` = all 84;
* `entry2_outcomes` — `parse_<entry>(text, sql_type)` for every entry NAME, dialect and text: a tree, `LexicalParseError`,
  `SqlParseError`, or a named exit from the modelled fragment (never `.fuel`, never a foreign exception);
  `scanner_argument_outcomes`, `other_argument_outcome` — the two other argument kinds of `_unify_input_scanner`;
* `parseText2_extends` — on the 58 names of `entries`, `parseText2` IS `parseText`; `all_entries_count`: 58 + 26 = 84.
-/
namespace C07
open Lex PM

/-! ## 1. the 26 -/

/-- every entry of `entries2`, every dialect, fuel, token list: the error, if any, is `.parse`, `.fuel` or `.unmodelled _` -/
theorem entries2_error_kinds (name : String) (p : Entry) (hp : (name, p) ∈ entries2) (d : Gen.D) (f : Nat) (ts : List Tok) (x : Err)
    (h : p d f ts = .error x) : x = .parse ∨ x = .fuel ∨ ∃ w, x = .unmodelled w := by
  rw [← Err.parserKind_iff]
  cases hk : x.parserKind with
  | true => rfl
  | false => exact absurd h (entries2_nopy _ hp d f ts x hk)

/-- **C07.entries2_no_foreign**: no entry of `entries2` returns a foreign Python exception -/
theorem entries2_no_foreign (d : Gen.D) (f : Nat) : ∀ p ∈ entries2, ∀ ts e, p.2 d f ts ≠ .error (.py e) :=
  fun p hp ts e => entries2_nopy p hp d f ts (.py e) rfl

/-- `20 + weight of the token list` is enough for every entry of `entries2` -/
theorem entries2_fuel_adequate_weight (name : String) (p : Entry) (hp : (name, p) ∈ entries2) (d : Gen.D) (f : Nat) (ts : List Tok)
    (hf : 20 + adqWL ts ≤ f) : p d f ts ≠ .error .fuel := entries2_adq _ hp d f ts hf

/-- **C07.entries2_fuel_adequate**: no entry of `entries2` runs out of the shipped budget, on any token list -/
theorem entries2_fuel_adequate (name : String) (p : Entry) (hp : (name, p) ∈ entries2) (d : Gen.D) (ts : List Tok) :
    p d (fuelFor ts) ts ≠ .error .fuel :=
  entries2_adq _ hp d _ ts (by have := adqWL_fuelFor ts; omega)

/-- … nor with any larger budget -/
theorem entries2_fuel_adequate_ge (name : String) (p : Entry) (hp : (name, p) ∈ entries2) (d : Gen.D) (ts : List Tok) (f : Nat)
    (hf : fuelFor ts ≤ f) : p d f ts ≠ .error .fuel :=
  entries2_adq _ hp d _ ts (by have := adqWL_fuelFor ts; omega)

/-- more fuel never changes a successful result of an entry of `entries2` -/
theorem entries2_fuel_mono (name : String) (p : Entry) (hp : (name, p) ∈ entries2) (d : Gen.D) (f f' : Nat) (hle : f ≤ f')
    (ts : List Tok) (r : Val × List Tok) (h : p d f ts = .ok r) : p d f' ts = .ok r :=
  entries2_mono _ hp d f f' ts r hle h

/-! ## 2. all 84 -/

theorem mem_entriesAll {q : String × Entry} : q ∈ entriesAll ↔ q ∈ entries ∨ q ∈ entries2 := by
  unfold entriesAll; exact List.mem_append

/-- 58 + 26 -/
theorem all_entries_count : entries.length = 58 ∧ entries2.length = 26 ∧ entriesAll.length = 84 := by
  refine ⟨rfl, rfl, ?_⟩
  unfold entriesAll; rw [List.length_append]; rfl

/-- **C07.all_entries_no_foreign**: every public parsing entry point (all 84), every dialect, every fuel, every token list:
the error, if any, is `.parse`, `.fuel` or `.unmodelled _` — in particular never a foreign exception -/
theorem all_entries_no_foreign (name : String) (p : Entry) (hp : (name, p) ∈ entriesAll) (d : Gen.D) (f : Nat) (ts : List Tok) :
    (∀ x, p d f ts = .error x → x = .parse ∨ x = .fuel ∨ ∃ w, x = .unmodelled w) ∧ (∀ e, p d f ts ≠ .error (.py e)) := by
  rcases mem_entriesAll.1 hp with h | h
  · exact ⟨fun x hx => entries_error_kinds name p h d f ts x hx, fun e => entries_nopy _ h d f ts (.py e) rfl⟩
  · exact ⟨fun x hx => entries2_error_kinds name p h d f ts x hx, fun e => entries2_nopy _ h d f ts (.py e) rfl⟩

/-- **C07.all_entries_fuel_adequate**: no public parsing entry point (all 84) runs out of the shipped budget `fuelFor`, nor of
any larger one, on any token list; `20 + weight` already suffices -/
theorem all_entries_fuel_adequate (name : String) (p : Entry) (hp : (name, p) ∈ entriesAll) (d : Gen.D) (ts : List Tok) :
    p d (fuelFor ts) ts ≠ .error .fuel ∧ (∀ f, fuelFor ts ≤ f → p d f ts ≠ .error .fuel) ∧
    (∀ f, 20 + adqWL ts ≤ f → p d f ts ≠ .error .fuel) := by
  rcases mem_entriesAll.1 hp with h | h
  · exact ⟨entries_fuel_adequate name p h d ts, fun f hf => entries_fuel_adequate_ge name p h d ts f hf,
      fun f hf => fuel_adequate_weight name p h d f ts hf⟩
  · exact ⟨entries2_fuel_adequate name p h d ts, fun f hf => entries2_fuel_adequate_ge name p h d ts f hf,
      fun f hf => entries2_fuel_adequate_weight name p h d f ts hf⟩

/-- the depth of the recursion of every entry point is linear in the size of the token tree (C19) -/
theorem all_entries_recursion_depth_linear (name : String) (p : Entry) (hp : (name, p) ∈ entriesAll) (d : Gen.D) (ts : List Tok)
    (f : Nat) (hf : 20 * sizeL ts + 20 ≤ f) : p d f ts ≠ .error .fuel :=
  (all_entries_fuel_adequate name p hp d ts).2.2 f (by have := adqWL_le ts; omega)

/-- **C07.all_entries_fuel_mono**: for all 84, a result obtained with fuel `f` is the result with every `f' ≥ f`; two budgets
never give two different results -/
theorem all_entries_fuel_mono (name : String) (p : Entry) (hp : (name, p) ∈ entriesAll) (d : Gen.D) (f f' : Nat) (hle : f ≤ f')
    (ts : List Tok) (r : Val × List Tok) (h : p d f ts = .ok r) : p d f' ts = .ok r := by
  rcases mem_entriesAll.1 hp with hm | hm
  · exact entries_mono _ hm d f f' ts r hle h
  · exact entries2_mono _ hm d f f' ts r hle h

theorem all_entries_fuel_deterministic (name : String) (p : Entry) (hp : (name, p) ∈ entriesAll) (d : Gen.D) (f₁ f₂ : Nat)
    (ts : List Tok) (r₁ r₂ : Val × List Tok) (h₁ : p d f₁ ts = .ok r₁) (h₂ : p d f₂ ts = .ok r₂) : r₁ = r₂ := by
  have a := all_entries_fuel_mono name p hp d f₁ (max f₁ f₂) (Nat.le_max_left _ _) ts r₁ h₁
  have b := all_entries_fuel_mono name p hp d f₂ (max f₁ f₂) (Nat.le_max_right _ _) ts r₂ h₂
  rw [a] at b; cases b; rfl

/-! ## 3. text level: `SQLParser.parse_<entry>(x, sql_type)` for the three kinds of `x` -/

/-- what a run of an entry on a lexed text can answer (shared by the string and the scanner argument) -/
theorem run_outcomes (name : String) (p : Entry) (hp : (name, p) ∈ entriesAll) (d : Gen.D) (src : List Char) (x : Err)
    (h : (match lex Gen.cfgS src with
          | .error e => (.error e : Except Err (Val × Nat))
          | .ok ts => match p d (fuelFor ts) ts with
            | .ok (v, r) => .ok (v, r.length)
            | .error e => .error e) = .error x) :
    x = .lexical ∨ x = .parse ∨ ∃ w, x = .unmodelled w := by
  split at h
  · rename_i e he
    cases h
    exact .inl (lex_error_lexical Oblig.noPyOK_shipped _ _ he)
  · rename_i ts _
    split at h
    · cases h
    · rename_i e he
      cases h
      rcases (all_entries_no_foreign name p hp d _ ts).1 x he with rfl | rfl | hw
      · exact .inr (.inl rfl)
      · exact absurd he (all_entries_fuel_adequate name p hp d ts).1
      · exact .inr (.inr hw)

/-- **C07.entry2_outcomes**: `SQLParser.parse_<entry>(text, sql_type)`, every entry-point NAME (a name outside the 84 is
`.unmodelled`), every dialect, every text: the error, if any, is the lexical error, the parse error, or a named exit from the
modelled fragment — never `.fuel` (the recursion terminates within the budget), never a foreign exception -/
theorem entry2_outcomes (entry : String) (d : Gen.D) (text : List Char) (x : Err) (h : parseText2 entry d text = .error x) :
    x = .lexical ∨ x = .parse ∨ ∃ w, x = .unmodelled w := by
  unfold parseText2 at h
  split at h
  · cases h; exact .inr (.inr ⟨_, rfl⟩)
  · rename_i name p hf
    exact run_outcomes name p (List.mem_of_find?_eq_some hf) d _ x h

theorem entry2_no_foreign (entry : String) (d : Gen.D) (text : List Char) :
    (∀ e, parseText2 entry d text ≠ .error (.py e)) ∧ parseText2 entry d text ≠ .error .fuel := by
  refine ⟨fun e h => ?_, fun h => ?_⟩
  · have := entry2_outcomes entry d text _ h; simp at this
  · have := entry2_outcomes entry d text _ h; simp at this

/-- a `TokenScanner` argument (`_unify_input_scanner` returns it as it is: no dialect pre-pass): same outcomes -/
theorem scanner_argument_outcomes (entry : String) (d : Gen.D) (text : List Char) (x : Err) (h : parseScanner2 entry d text = .error x) :
    x = .lexical ∨ x = .parse ∨ ∃ w, x = .unmodelled w := by
  unfold parseScanner2 at h
  split at h
  · cases h; exact .inr (.inr ⟨_, rfl⟩)
  · rename_i name p hf
    exact run_outcomes name p (List.mem_of_find?_eq_some hf) d _ x h

/-- an argument that is neither a scanner nor a string: the library's parse error, for every one of the 84 -/
theorem other_argument_outcome (name : String) (p : Entry) (hp : (name, p) ∈ entriesAll) (d : Gen.D) : parseOther2 name d = .error .parse := by
  unfold parseOther2
  cases hf : entriesAll.find? (·.1 == name) with
  | some q => rfl
  | none =>
    have := List.find?_eq_none.1 hf (name, p) hp
    simp at this

/-- the string argument and the scanner argument differ only by the dialect pre-pass -/
theorem scanner_argument_is_string_without_prepass (entry : String) (d : Gen.D) (text : List Char)
    (hpre : dialectPre d text = text) : parseScanner2 entry d text = parseText2 entry d text := by
  unfold parseScanner2 parseText2; rw [hpre]

/-- on the 58 names of `entries`, `parseText2` is `parseText` (so every theorem about `parseText` is about `parseText2` there) -/
theorem parseText2_extends (entry : String) (d : Gen.D) (text : List Char) (h : (entries.find? (·.1 == entry)).isSome = true) :
    parseText2 entry d text = parseText entry d text := by
  unfold parseText2 parseText entriesAll
  rw [List.find?_append]
  cases hf : entries.find? (·.1 == entry) with
  | none => simp [hf] at h
  | some q => rfl

/-! ## non-vacuity -/

/-- kernel-evaluated: accepted and rejected inputs of the new entry points (`String` literals are turned into `List Char` by the
lexer input only; the comparisons inside are on token sources) -/
example : (match parseText2 "join_type" .MYSQL "LEFT OUTER JOIN t".toList with | .ok (_, n) => n == 1 | .error _ => false) = true := by decide +kernel
example : (match parseText2 "join_type" .MYSQL "OUTER JOIN t".toList with | .error .parse => true | _ => false) = true := by decide +kernel
example : (match parseText2 "union_type" .MYSQL "SELECT".toList with | .error .parse => true | _ => false) = true := by decide +kernel
example : (match parseText2 "compare_operator" .MYSQL "+ 1".toList with | .error .parse => true | _ => false) = true := by decide +kernel
example : (match parseText2 "compute_operator" .MYSQL "= 1".toList with | .error .parse => true | _ => false) = true := by decide +kernel
example : (match parseText2 "join_expression" .MYSQL "WHERE a".toList with | .error .parse => true | _ => false) = true := by decide +kernel
example : (match parseText2 "wildcard_expression" .MYSQL "t.* x".toList with | .ok (_, n) => n == 1 | .error _ => false) = true := by decide +kernel
example : (match parseText2 "wildcard_expression" .MYSQL "t.a".toList with | .error .parse => true | _ => false) = true := by decide +kernel
example : (match parseText2 "select_clause" .MYSQL "SELECT DISTINCT a b, c FROM t".toList with | .ok (_, n) => n == 2 | .error _ => false) = true := by decide +kernel
example : (match parseText2 "with_table" .MYSQL "w AS (SELECT a FROM t".toList with | .error .lexical => true | _ => false) = true := by decide +kernel
example : (match parseText2 "order_type" .MYSQL "".toList with | .ok (_, n) => n == 0 | .error _ => false) = true := by decide +kernel
example : (match parseText2 "no_such_entry" .MYSQL "a".toList with | .error (.unmodelled _) => true | _ => false) = true := by decide +kernel

/-- compiled evaluation: the 84 names are distinct; every name of `entries` is found by `parseText2`; the dialect pre-pass is
what separates the scanner argument from the string argument (Hive `==`) -/
def names : List String := entriesAll.map (·.1)
#guard names.length == 84
#guard names.eraseDups.length == 84
#guard (entries.map (·.1)).all fun n => (entries.find? (·.1 == n)).isSome
#guard (match parseText2 "where_clause" .HIVE "WHERE a == b".toList, parseScanner2 "where_clause" .HIVE "WHERE a == b".toList with
        | .ok (_, 0), .ok (_, 1) => true | _, _ => false)
#guard names.all fun n => (match parseOther2 n .MYSQL with | .error .parse => true | _ => false)
#guard (match parseText2 "cast_data_type" .MYSQL "varchar (10)".toList with | .ok (_, 1) => true | _ => false)
#guard (match parseText2 "window_row_item" .MYSQL "x PRECEDING".toList with | .error .parse => true | _ => false)
#guard (match parseText2 "grouping_sets" .MYSQL "GROUPING SETS ((a, b), c)".toList with | .ok (_, 0) => true | _ => false)
#guard (match parseText2 "update_set_clause" .MYSQL "SET a = 1, b".toList with | .error .parse => true | _ => false)

end C07
